(* Proofs about the VM-side co-process client (NV.Proto.CopClient). *)
From Coq Require Import NArith List Bool Lia.
From NV Require Import Base.Bytes gen.CopConst Proto.CopCodec Proto.CopCodecProofs Proto.CopClient.
Import ListNotations.
Local Open Scope N_scope.

(* ---------- the invariant: cop_pid refers to exactly one unreaped child, or to none and both descriptors are closed;
   every child the VM no longer refers to has been reaped *)
Definition inv (v : vmst) (w : world) : Prop :=
  (has_pid v = true -> exists c, cur w = Some c /\ c_reaped c = false) /\
  (has_pid v = false -> cur w = None /\ in_open v = false /\ out_open v = false) /\
  Forall (fun c => done_child c = true) (detached w).

Lemma wfb_inv v w : wfb v w = true <-> inv v w.
Proof.
  unfold wfb, inv. rewrite andb_true_iff, forallb_forall, Forall_forall.
  destruct (has_pid v), (cur w) as [c|]; split; intros H.
  - destruct H as [H1 H2]. repeat split; auto; try discriminate. intros _. exists c. split; auto. now apply negb_true_iff.
  - destruct H as (H1 & H2 & H3). split; auto. destruct (H1 eq_refl) as (c' & E & R). inversion E; subst. now rewrite R.
  - destruct H as [H1 _]. discriminate.
  - destruct H as (H1 & _). destruct (H1 eq_refl) as (c' & E & _). discriminate.
  - destruct H as [H1 _]. discriminate.
  - destruct H as (_ & H2 & _). destruct (H2 eq_refl) as (E & _). discriminate.
  - destruct H as [H1 H2]. apply andb_true_iff in H1. destruct H1 as [A B]. apply negb_true_iff in A, B.
    repeat split; auto; discriminate.
  - destruct H as (_ & H2 & H3). destruct (H2 eq_refl) as (_ & A & B). rewrite A, B. auto.
Qed.

(* w' differs from w only in what the current child did: same detached children, same SIGPIPE disposition,
   the current child is still there and its reaped flag is unchanged *)
Definition ext (w w' : world) : Prop :=
  detached w' = detached w /\ sigign w' = sigign w /\
  match cur w, cur w' with
  | Some c, Some c' => c_reaped c' = c_reaped c
  | None, None => True
  | _, _ => False
  end.

Lemma ext_refl w : ext w w.
Proof. unfold ext. destruct (cur w); auto. Qed.
Lemma ext_trans a b c : ext a b -> ext b c -> ext a c.
Proof.
  unfold ext. intros (A1 & A2 & A3) (B1 & B2 & B3). repeat split; try congruence.
  destruct (cur a), (cur b), (cur c); try tauto; congruence.
Qed.

Lemma apply_action_reaped c a : c_reaped (apply_action c a) = c_reaped c.
Proof. destruct a; simpl; try reflexivity. destruct (c_out c && negb (c_exited c)); reflexivity. Qed.
Lemma fold_actions_reaped acts c : c_reaped (fold_left apply_action acts c) = c_reaped c.
Proof. revert c. induction acts as [|a r IH]; intros c; simpl; [reflexivity|]. now rewrite IH, apply_action_reaped. Qed.

Lemma sync_ext l w : ext w (sync l w).
Proof.
  unfold sync, ext. destruct (cur w) as [c|] eqn:E; simpl; rewrite ?E; auto.
  repeat split; auto. apply fold_actions_reaped.
Qed.

Lemma os_write_ext l w :
  match os_write l w with
  | WOk w' | WEpipe w' => ext w w'
  | WKilled w' => ext w w' /\ sigign w = false
  end.
Proof.
  unfold os_write. pose proof (sync_ext l w) as S. destruct (cur (sync l w)) as [c|]; [|exact S].
  destruct (c_in c); [exact S|]. destruct (sigign (sync l w)) eqn:G; [exact S|].
  split; [exact S|]. destruct S as (_ & S2 & _). congruence.
Qed.

Lemma os_read_ext l n w :
  match os_read l n w with RGot _ w' | REof w' | RHang w' => ext w w' end.
Proof.
  unfold os_read. pose proof (sync_ext l w) as S. destruct (cur (sync l w)) as [c|] eqn:E; [|exact S].
  assert (X : forall c', c_reaped c' = c_reaped c -> ext w (set_cur (sync l w) (Some c'))).
  { intros c' R. destruct S as (S1 & S2 & S3). unfold ext, set_cur; simpl. repeat split; auto.
    rewrite E in S3. destruct (cur w); [congruence|exact S3]. }
  destruct (n <=? len (c_buf c)); [apply X; reflexivity|]. destruct (c_out c); [exact S|apply X; reflexivity].
Qed.

(* the VM blocks in a read only while the peer holds its stdout open without having delivered enough *)
Definition hang_ok (w : world) : Prop := exists c, cur w = Some c /\ c_out c = true.
Lemma os_read_hang l n w w' : os_read l n w = RHang w' -> hang_ok w'.
Proof.
  unfold os_read, hang_ok. destruct (cur (sync l w)) as [c|] eqn:E; [|discriminate].
  destruct (n <=? len (c_buf c)); [discriminate|]. destruct (c_out c) eqn:O; [|discriminate].
  intros H; inversion H; subst. eauto.
Qed.

(* waitpid(WNOHANG): either nothing changes for the VM, or the current child is now reaped *)
Definition ext_reaped (w w' : world) : Prop :=
  detached w' = detached w /\ sigign w' = sigign w /\
  (exists c, cur w = Some c) /\ exists c', cur w' = Some c' /\ done_child c' = true.

Lemma os_waitpid_ext l w :
  match os_waitpid_nohang l w with
  | (true, w') => ext_reaped w w'
  | (false, w') => ext w w'
  end.
Proof.
  unfold os_waitpid_nohang. pose proof (sync_ext l w) as S. destruct (cur (sync l w)) as [c|] eqn:E; [|exact S].
  destruct (c_exited c); [|exact S].
  destruct S as (S1 & S2 & S3). unfold ext_reaped, set_cur; simpl. repeat split; auto.
  - rewrite E in S3. destruct (cur w) as [c0|]; [eauto|contradiction].
  - eexists. split; reflexivity.
Qed.

Lemma os_term_wait_reaped w : (exists c, cur w = Some c) -> ext_reaped w (os_term_wait w).
Proof.
  intros [c E]. unfold os_term_wait, ext_reaped. rewrite E. unfold set_cur; simpl. repeat split; eauto.
Qed.

Lemma ext_reaped_trans_l a b c : ext a b -> ext_reaped b c -> ext_reaped a c.
Proof.
  intros (A1 & A2 & A3) (B1 & B2 & (cb & B3) & B4). unfold ext_reaped. repeat split; try congruence; auto.
  rewrite B3 in A3. destruct (cur a) as [ca|]; [eauto|contradiction].
Qed.

Lemma detach_reaped w w' : ext_reaped w w' ->
  cur (detach w') = None /\ sigign (detach w') = sigign w /\
  exists c', detached (detach w') = c' :: detached w /\ done_child c' = true.
Proof.
  intros (D & G & _ & c' & E & R). unfold detach. rewrite E. simpl. repeat split; auto.
  exists c'. rewrite D. auto.
Qed.

(* ---------- vm_ffi_cop_stop: always ends with the child reaped and forgotten; can only be stopped by SIGPIPE *)
Lemma stop_tail_spec w : (exists c, cur w = Some c) ->
  exists w', stop_tail w = Go tt vm_none w' /\ cur w' = None /\ sigign w' = sigign w /\
             exists c', detached w' = c' :: detached w /\ done_child c' = true.
Proof.
  intros Hc. unfold stop_tail.
  pose proof (os_waitpid_ext LWait1 w) as W1. destruct (os_waitpid_nohang LWait1 w) as [r1 w1].
  destruct r1.
  - eexists. split; [reflexivity|]. apply detach_reaped. exact W1.
  - pose proof (os_waitpid_ext LWait2 w1) as W2. destruct (os_waitpid_nohang LWait2 w1) as [r2 w2].
    destruct r2.
    + eexists. split; [reflexivity|]. apply detach_reaped. eapply ext_reaped_trans_l; eauto.
    + eexists. split; [reflexivity|]. apply detach_reaped.
      eapply ext_reaped_trans_l; [eapply ext_trans; eauto|].
      apply os_term_wait_reaped.
      destruct Hc as [c E]. destruct W1 as (_ & _ & A), W2 as (_ & _ & B). rewrite E in A.
      destruct (cur w1) as [c1|]; [|contradiction]. destruct (cur w2) as [c2|]; [eauto|contradiction].
Qed.

Definition stop_post (w : world) (r : res unit) : Prop :=
  match r with
  | Go _ v' w' => inv v' w' /\ has_pid v' = false /\ sigign w' = sigign w
  | Stop f w' => f = FKilled LShutdown /\ sigign w = false
  end.

Lemma cop_stop_spec v w : inv v w -> stop_post w (cop_stop v w).
Proof.
  intros I. pose proof I as (I1 & I2 & I3). unfold cop_stop, stop_post.
  destruct (has_pid v) eqn:P; simpl negb; cbv iota.
  2:{ split; [exact I|]. split; [exact P|reflexivity]. }
  destruct (I1 eq_refl) as (c & E & R).
  assert (T : forall w1, ext w w1 -> stop_post w (stop_tail w1)).
  { intros w1 (X1 & X2 & X3). rewrite E in X3. destruct (cur w1) as [c1|] eqn:E1; [|contradiction].
    destruct (stop_tail_spec w1 (ex_intro _ c1 E1)) as (w' & S & C & G & c' & D & Rc).
    rewrite S. unfold stop_post. repeat split; simpl; try congruence; try discriminate; auto.
    rewrite D, X1. constructor; auto. }
  destruct (in_open v).
  - pose proof (os_write_ext LShutdown w) as W. destruct (os_write LShutdown w) as [w1|w1|w1].
    + apply T; exact W.
    + apply T; exact W.
    + destruct W as [_ G]. split; [reflexivity|exact G].
  - apply T. apply ext_refl.
Qed.

(* a state with an unreaped current child, as produced by ext from such a state *)
Lemma ext_inv v w w' : inv v w -> has_pid v = true -> ext w w' -> inv v w'.
Proof.
  intros (I1 & I2 & I3) P (X1 & X2 & X3). destruct (I1 P) as (c & E & R). rewrite E in X3.
  destruct (cur w') as [c'|] eqn:E'; [|contradiction].
  split; [|split].
  - intros _. exists c'. split; [exact E'|congruence].
  - intros F. congruence.
  - rewrite X1. exact I3.
Qed.

(* ---------- cop_is_alive *)
Lemma cop_is_alive_spec j v w : inv v w ->
  match cop_is_alive j v w with
  | (true, v', w') => inv v' w' /\ has_pid v' = true /\ sigign w' = sigign w
  | (false, v', w') => inv v' w' /\ has_pid v' = false /\ sigign w' = sigign w
  end.
Proof.
  intros I. unfold cop_is_alive. destruct (has_pid v) eqn:P; simpl negb; cbv iota.
  2:{ split; [exact I|]. split; [exact P|reflexivity]. }
  pose proof (os_waitpid_ext (LAlive j) w) as W. destruct (os_waitpid_nohang (LAlive j) w) as [r w1]. destruct r.
  - destruct (detach_reaped _ _ W) as (C & G & c' & D & Rc). destruct I as (_ & _ & I3).
    repeat split; simpl; auto; try discriminate. rewrite D. constructor; auto.
  - split; [eapply ext_inv; eauto|]. split; [exact P|apply W].
Qed.

(* ---------- vm_ffi_cop_start *)
Definition start_post (w : world) (r : res bool) : Prop :=
  match r with
  | Go b v' w' => inv v' w' /\ has_pid v' = b /\ sigign w' = sigign w
  | Stop f w' => match f with FKilled _ => sigign w = false | FHang _ => hang_ok w' | FCrash => False end
  end.

Lemma cop_start_spec v w : cur w = None -> Forall (fun c => done_child c = true) (detached w) ->
  start_post w (cop_start v w).
Proof.
  intros C D. unfold cop_start.
  set (w0 := spawn w). set (v0 := mkVm true true true).
  assert (I0 : inv v0 w0 /\ sigign w0 = sigign w).
  { unfold w0, spawn, inv. destruct (future w); simpl; repeat split; eauto; discriminate. }
  destruct I0 as [I0 G0].
  assert (ST : forall w1 (b : bool), ext w0 w1 ->
            start_post w (match cop_stop v0 w1 with Go _ v' w'' => Go false v' w'' | Stop f w'' => Stop f w'' end)).
  { intros w1 b X. pose proof (cop_stop_spec v0 w1 (ext_inv _ _ _ I0 eq_refl X)) as S.
    destruct (cop_stop v0 w1) as [u v' w''|f w'']; unfold stop_post, start_post in *.
    - destruct S as (A & B & Cc). split; [exact A|]. split; [exact B|]. destruct X as (_ & X2 & _). congruence.
    - destruct S as [-> G]. destruct X as (_ & X2 & _). congruence. }
  pose proof (os_write_ext LInit w0) as W. destruct (os_write LInit w0) as [w1|w1|w1].
  - pose proof (os_read_ext LReady 8 w1) as R. destruct (os_read LReady 8 w1) as [h w2|w2|w2] eqn:ER.
    + assert (X2 : ext w0 w2) by (eapply ext_trans; eauto).
      destruct (parse_header h) as [[ty l]|]; [|apply (ST w2 false X2)].
      destruct (ty =? COP_MSG_READY); [|apply (ST w2 false X2)].
      unfold start_post. split; [eapply ext_inv; eauto|]. split; [reflexivity|]. destruct X2 as (_ & X & _). congruence.
    + apply (ST w2 false). eapply ext_trans; eauto.
    + unfold start_post. eapply os_read_hang; eauto.
  - apply (ST w1 false W).
  - destruct W as [_ G]. unfold start_post. congruence.
Qed.

(* ---------- vm_ffi_call_cop *)
Definition call_post (dec : list byte -> dres) (req : req_res) (w : world) (r : res callout) : Prop :=
  match r with
  | Go _ v' w' => inv v' w' /\ sigign w' = sigign w
  | Stop f w' =>
      match f with
      | FKilled _ => sigign w = false
      | FHang _ => hang_ok w'
      | FCrash => (exists p, dec p = DOob) \/ req = ReqOverrun
      end
  end.

Lemma call_cop_spec dec j req v w : inv v w -> call_post dec req w (call_cop dec j req v w).
Proof.
  intros I. unfold call_cop.
  pose proof (cop_is_alive_spec j v w I) as A. destruct (cop_is_alive j v w) as [[alive v1] w1].
  assert (STARTED : match (if alive then Go true v1 w1 else cop_start v1 w1) with
                    | Go b v2 w2 => inv v2 w2 /\ has_pid v2 = b /\ sigign w2 = sigign w
                    | Stop f w2 => match f with FKilled _ => sigign w = false | FHang _ => hang_ok w2 | FCrash => False end
                    end).
  { destruct alive; [exact A|]. destruct A as (I1 & P1 & G1).
    destruct I1 as (_ & I2 & I3). destruct (I2 P1) as (C & _).
    pose proof (cop_start_spec v1 w1 C I3) as S. unfold start_post in S.
    destruct (cop_start v1 w1) as [b v2 w2|f w2]; [|destruct f; congruence].
    destruct S as (S1 & S2 & S3). split; [exact S1|]. split; [exact S2|congruence]. }
  destruct (if alive then Go true v1 w1 else cop_start v1 w1) as [b v2 w2|f w2].
  2:{ unfold call_post. destruct f; auto. contradiction. }
  destruct STARTED as (I2 & P2 & G2). destruct b.
  2:{ unfold call_post. split; assumption. }
  destruct req as [payload|i|]; [|unfold call_post; split; assumption|unfold call_post; right; reflexivity].
  (* what happens after a failed exchange: stop the co-process, report *)
  assert (ST : forall w3 e, ext w2 w3 ->
            call_post dec (ReqOk payload) w (match cop_stop v2 w3 with Go _ v' w4 => Go (CErr e) v' w4 | Stop f w4 => Stop f w4 end)).
  { intros w3 e X. pose proof (cop_stop_spec v2 w3 (ext_inv _ _ _ I2 P2 X)) as S.
    destruct (cop_stop v2 w3) as [u v' w4|f w4]; unfold stop_post, call_post in *.
    - destruct S as (Sa & _ & Sc). split; [exact Sa|]. destruct X as (_ & X2 & _). congruence.
    - destruct S as [-> G]. destruct X as (_ & X2 & _). congruence. }
  assert (KEEP : forall w3 r, ext w2 w3 -> call_post dec (ReqOk payload) w (Go r v2 w3)).
  { intros w3 r X. unfold call_post. split; [eapply ext_inv; eauto|]. destruct X as (_ & X2 & _). congruence. }
  pose proof (os_write_ext (LReq j) w2) as W. destruct (os_write (LReq j) w2) as [w3|w3|w3].
  2:{ apply ST; exact W. }
  2:{ destruct W as [_ G]. unfold call_post. congruence. }
  pose proof (os_read_ext (LHdr j) 8 w3) as R. destruct (os_read (LHdr j) 8 w3) as [h w4|w4|w4] eqn:ER.
  2:{ apply ST. eapply ext_trans; eauto. }
  2:{ unfold call_post. eapply os_read_hang; eauto. }
  assert (X4 : ext w2 w4) by (eapply ext_trans; eauto).
  destruct (parse_header h) as [[ty l]|]; [|apply ST; exact X4].
  destruct (ty =? COP_MSG_FFI_RESULT).
  { destruct (l =? 0); [apply KEEP; exact X4|].
    pose proof (os_read_ext (LPay j) l w4) as R2. destruct (os_read (LPay j) l w4) as [p w5|w5|w5] eqn:ER2.
    - assert (X5 : ext w2 w5) by (eapply ext_trans; eauto).
      destruct (dec p) eqn:Dp; try (apply KEEP; exact X5).
      unfold call_post. left. eauto.
    - apply KEEP. eapply ext_trans; eauto.
    - unfold call_post. eapply os_read_hang; eauto. }
  destruct (ty =? COP_MSG_FFI_ERROR); [|apply KEEP; exact X4].
  cbv zeta. destruct (N.min l (VM_EXT_ERR_SIZE - 1) =? 0); [apply KEEP; exact X4|].
  pose proof (os_read_ext (LPay j) (N.min l (VM_EXT_ERR_SIZE - 1)) w4) as R2. destruct (os_read (LPay j) (N.min l (VM_EXT_ERR_SIZE - 1)) w4) as [p w5|w5|w5] eqn:ER2.
  - apply KEEP. eapply ext_trans; eauto.
  - apply KEEP. eapply ext_trans; eauto.
  - unfold call_post. eapply os_read_hang; eauto.
Qed.

(* ---------- whole runs *)
Definition safe_dec (dec : list byte -> dres) : Prop := forall p, dec p <> DOob.
Definition no_overrun (reqs : list req_res) : Prop := Forall (fun r => r <> ReqOverrun) reqs.

Definition run_post (dec : list byte -> dres) (reqs : list req_res) (w : world) (o : outcome) : Prop :=
  match o_status o with
  | SExit0 | SExit1 => inv (o_vm o) (o_world o) /\ has_pid (o_vm o) = false /\
                       cur (o_world o) = None /\ Forall (fun c => done_child c = true) (detached (o_world o))
  | SKilled _ => sigign w = false
  | SCrash => (exists p, dec p = DOob) \/ ~ no_overrun reqs
  | SHang _ => hang_ok (o_world o)
  end.

Lemma run_calls_spec dec : forall reqs j done v w, inv v w -> run_post dec reqs w (run_calls dec reqs j done v w).
Proof.
  induction reqs as [|r rest IH]; intros j done v w I; cbn [run_calls].
  - pose proof (cop_stop_spec v w I) as S. destruct (cop_stop v w) as [u v' w'|f w']; unfold stop_post, run_post in *; simpl.
    + destruct S as (Sa & Sb & _). pose proof Sa as (_ & S2 & S3). destruct (S2 Sb) as (Cn & _).
      split; [exact Sa|]. split; [exact Sb|]. split; [exact Cn|exact S3].
    + destruct S as [-> G]. exact G.
  - pose proof (call_cop_spec dec j r v w I) as C.
    destruct (call_cop dec j r v w) as [out v' w'|f w']; unfold call_post in C.
    + destruct C as [I' G'].
      assert (REST : run_post dec (r :: rest) w (run_calls dec rest (j + 1) (done + 1) v' w')).
      { specialize (IH (j + 1) (done + 1) v' w' I'). unfold run_post in *.
        destruct (o_status (run_calls dec rest (j + 1) (done + 1) v' w')); auto; try congruence.
        destruct IH as [H|H]; [left; exact H|right]. intros N. apply H. inversion N; assumption. }
      destruct out as [val| |e]; try exact REST.
      pose proof (cop_stop_spec v' w' I') as S. destruct (cop_stop v' w') as [u v'' w''|f w'']; unfold stop_post, run_post in *; simpl.
      * destruct S as (Sa & Sb & _). pose proof Sa as (_ & S2 & S3). destruct (S2 Sb) as (Cn & _).
        split; [exact Sa|]. split; [exact Sb|]. split; [exact Cn|exact S3].
      * destruct S as [-> G]. congruence.
    + unfold run_post; simpl. destruct f; simpl; auto.
      destruct C as [C|C]; [left; exact C|right]. intros N. inversion N; subst. contradiction.
Qed.

Lemma inv_init scripts ign : inv vm_none (init_world scripts ign).
Proof. unfold inv, vm_none, init_world; simpl. repeat split; auto; discriminate. Qed.

(* with SIGPIPE ignored and a reply decoder that stays inside its buffer, every peer script leads to exit status 0 or 1
   (or to a VM blocked on a peer that stays silent with its pipe open); on exit the co-process is reaped and forgotten *)
Theorem run_contained : forall dec scripts reqs,
  safe_dec dec -> no_overrun reqs ->
  let o := run dec true scripts reqs in
  match o_status o with
  | SExit0 | SExit1 => has_pid (o_vm o) = false /\ all_reaped (o_world o) = true /\ orphans (o_world o) = false /\ wfb (o_vm o) (o_world o) = true
  | SHang _ => hang_ok (o_world o)
  | SKilled _ | SCrash => False
  end.
Proof.
  intros dec scripts reqs Sd Nr o. unfold o, run.
  pose proof (run_calls_spec dec reqs 1 0 vm_none (init_world scripts true) (inv_init scripts true)) as R.
  unfold run_post in R.
  set (oo := run_calls dec reqs 1 0 vm_none (init_world scripts true)) in *.
  assert (X : forall vv ww, inv vv ww -> has_pid vv = false -> cur ww = None -> Forall (fun c => done_child c = true) (detached ww) ->
              has_pid vv = false /\ all_reaped ww = true /\ orphans ww = false /\ wfb vv ww = true).
  { intros vv ww Iv Pv Cw Dw. split; [exact Pv|]. split; [|split].
    - unfold all_reaped. rewrite Cw. simpl. apply forallb_forall. intros c Hin. rewrite Forall_forall in Dw.
      specialize (Dw c Hin). unfold done_child in Dw. apply andb_true_iff in Dw. apply Dw.
    - (* a reaped child has exited: reaping happens only through waitpid on an exited child or SIGTERM *)
      unfold orphans. rewrite Cw. simpl. apply not_true_is_false. intros E. apply existsb_exists in E.
      destruct E as (c & Hin & Hr). rewrite Forall_forall in Dw. specialize (Dw c Hin).
      unfold done_child in Dw. apply andb_true_iff in Dw. unfold child_running in Hr. destruct Dw as [_ Dx]. rewrite Dx in Hr. discriminate.
    - apply wfb_inv. exact Iv. }
  destruct (o_status oo).
  - destruct R as (A & B & C & D). apply X; assumption.
  - destruct R as (A & B & C & D). apply X; assumption.
  - simpl in R. discriminate.
  - destruct R as [[p Hp]|N]; [exact (Sd p Hp)|exact (N Nr)].
  - exact R.
Qed.

(* ---------- one call: with SIGPIPE ignored, whatever the peer does, the call returns (a value, the in-process fallback or a
   reported error) in a well-formed state -- or the VM is blocked on a peer that stays silent with its pipe open *)
Theorem call_contained : forall dec j req v w,
  sigign w = true -> safe_dec dec -> req <> ReqOverrun -> inv v w ->
  match call_cop dec j req v w with
  | Go _ v' w' => inv v' w' /\ sigign w' = true
  | Stop (FHang _) w' => hang_ok w'
  | Stop _ _ => False
  end.
Proof.
  intros dec j req v w G Sd Nr I. pose proof (call_cop_spec dec j req v w I) as C. unfold call_post in C.
  destruct (call_cop dec j req v w) as [r v' w'|f w'].
  - destruct C as [A B]. split; [exact A|congruence].
  - destruct f; auto; [congruence|]. destruct C as [[p Hp]|E]; [exact (Sd p Hp)|exact (Nr E)].
Qed.

(* stopping: the child is reaped (waitpid after exit, or SIGTERM + waitpid), forgotten, both descriptors closed *)
Theorem no_orphan : forall v w, sigign w = true -> inv v w ->
  exists v' w', cop_stop v w = Go tt v' w' /\ has_pid v' = false /\ in_open v' = false /\ out_open v' = false /\
                cur w' = None /\ Forall (fun c => done_child c = true) (detached w').
Proof.
  intros v w G I. pose proof (cop_stop_spec v w I) as S. unfold stop_post in S.
  destruct (cop_stop v w) as [u v' w'|f w'].
  - destruct S as (Sa & Sb & _). pose proof Sa as (_ & S2 & S3). destruct (S2 Sb) as (Cn & Ci & Co). destruct u.
    exists v', w'. repeat split; auto.
  - destruct S as [_ F]. congruence.
Qed.

(* without that disposition the stop itself can kill the VM *)
Theorem stop_killed_only_by_sigpipe : forall v w f w', inv v w -> cop_stop v w = Stop f w' -> f = FKilled LShutdown /\ sigign w = false.
Proof. intros v w f w' I E. pose proof (cop_stop_spec v w I) as S. rewrite E in S. exact S. Qed.

(* ---------- the real reply decoder (cop_deserialize_value of the current sources, any allocator) is bounds-safe, so the
   containment theorems hold for it without a decoder hypothesis *)
Definition msg_ready : list byte := frame COP_MSG_READY [].
Definition dec_real : list byte -> dres := deser_a 4294967295.

Theorem dec_real_safe : forall amax, safe_dec (deser_a amax).
Proof. intros amax p. apply deser_never_oob. Qed.

Theorem call_contained_real : forall amax j req v w,
  sigign w = true -> req <> ReqOverrun -> inv v w ->
  match call_cop (deser_a amax) j req v w with
  | Go _ v' w' => inv v' w' /\ sigign w' = true
  | Stop (FHang _) w' => hang_ok w'
  | Stop _ _ => False
  end.
Proof. intros amax j req v w G Nr I. apply call_contained; auto. apply dec_real_safe. Qed.

Theorem run_contained_real : forall amax scripts reqs,
  no_overrun reqs ->
  let o := run (deser_a amax) true scripts reqs in
  match o_status o with
  | SExit0 | SExit1 => has_pid (o_vm o) = false /\ all_reaped (o_world o) = true /\ orphans (o_world o) = false /\ wfb (o_vm o) (o_world o) = true
  | SHang _ => hang_ok (o_world o)
  | SKilled _ | SCrash => False
  end.
Proof. intros amax scripts reqs Nr. apply run_contained; auto. apply dec_real_safe. Qed.

(* ---------- why both repairs matter: the same scripts evaluated under the old assumptions *)

(* the peer announces READY with its stdin already closed and stays alive.  If SIGPIPE were at its default disposition the
   VM would be killed while writing the first request and the peer would be left running ... *)
Definition script_close_stdin : script := [(LReady, [ACloseIn; ADeliver msg_ready])].
Theorem sigpipe_default_kills :
  let o := run dec_real false [script_close_stdin] [ReqOk []] in
  o_status o = SKilled (LReq 1) /\ orphans (o_world o) = true.
Proof. vm_compute. split; reflexivity. Qed.
(* ... with SIGPIPE ignored (what the sources do now): reported error, exit status 1, peer reaped *)
Theorem sigpipe_ignored_contains :
  let o := run dec_real true [script_close_stdin] [ReqOk []] in
  o_status o = SExit1 /\ o_err o = Some EReqDied /\ orphans (o_world o) = false /\ all_reaped (o_world o) = true.
Proof. vm_compute. repeat split; reflexivity. Qed.

(* the peer exits after READY: default disposition => killed by the SHUTDOWN written in vm_ffi_cop_stop *)
Definition script_exit_before_reply : script := [(LReady, [ADeliver msg_ready]); (LHdr 1, [AExit 0])].
Theorem sigpipe_default_kills_in_stop :
  o_status (run dec_real false [script_exit_before_reply] [ReqOk []]) = SKilled LShutdown.
Proof. vm_compute. reflexivity. Qed.
Theorem exit_before_reply_contained :
  let o := run dec_real true [script_exit_before_reply] [ReqOk []] in
  o_status o = SExit1 /\ o_err o = Some ERespDied /\ all_reaped (o_world o) = true.
Proof. vm_compute. repeat split; reflexivity. Qed.

(* hostile replies that used to crash the decoder are now reported as "failed to deserialize result" *)
Definition script_reply (payload : list byte) : script :=
  [(LReady, [ADeliver msg_ready]); (LHdr 1, [ADeliver (frame COP_MSG_FFI_RESULT payload)]); (LWait1, [AExit 0])].
Theorem hostile_replies_contained :
  forallb (fun p => match run dec_real true [script_reply p] [ReqOk []] with
                    | mkOut SExit1 (Some EDeser) 0 _ w => all_reaped w
                    | _ => false end)
    [ [TAG_STRING; 255; 255; 255; 255];                       (* string length 0xffffffff *)
      [TAG_STRING; 251; 255; 255; 255; 97; 98];
      [TAG_ARRAY; 1; 255; 255; 255; 255; TAG_VOID];           (* array count 0xffffffff *)
      [TAG_ARRAY; 1; 2; 0; 0; 0; TAG_VOID];                   (* count larger than what follows *)
      flat_map (fun _ => [TAG_ARRAY; 1; 1; 0; 0; 0]) (repeat tt 300) ++ [TAG_VOID] ] = true.   (* 300 nested arrays *)
Proof. vm_compute. reflexivity. Qed.

(* ---------- the text of an FFI_ERROR reply is data ----------
   State right after a successful start: one live child whose script delivers, while the VM waits for the reply to call j,
   a well-framed FFI_ERROR carrying an ARBITRARY byte string p. *)
Definition err_child (j : N) (p : list byte) : child :=
  mkChild [(LHdr j, [ADeliver (frame COP_MSG_FFI_ERROR p)])] true true false false [].
Definition err_world (j : N) (p : list byte) (ign : bool) : world := mkWorld (Some (err_child j p)) [] [] ign.
Definition vm_started : vmst := mkVm true true true.

Lemma label_eqb_refl l : label_eqb l l = true.
Proof. destruct l; simpl; auto; apply N.eqb_refl. Qed.

Lemma firstn_min_len {A} (p : list A) k : firstn (N.to_nat (N.min (len p) k)) p = firstn (N.to_nat k) p.
Proof.
  unfold len. destruct (N.le_gt_cases (N.of_nat (length p)) k) as [H|H].
  - rewrite N.min_l by exact H. rewrite Nat2N.id, firstn_all. symmetry. apply firstn_all2. lia.
  - rewrite N.min_r by lia. reflexivity.
Qed.

Definition err_world_buf (j : N) (p buf : list byte) (ign : bool) : world :=
  mkWorld (Some (mkChild [(LHdr j, [ADeliver (frame COP_MSG_FFI_ERROR p)])] true true false false buf)) [] [] ign.

Lemma err_alive j p ign : cop_is_alive j vm_started (err_world j p ign) = (true, vm_started, err_world j p ign).
Proof. reflexivity. Qed.
Lemma err_write j p ign : os_write (LReq j) (err_world j p ign) = WOk (err_world j p ign).
Proof. reflexivity. Qed.
Lemma err_read_hdr j p ign : len p <= COP_MAX_PAYLOAD ->
  exists h, os_read (LHdr j) 8 (err_world j p ign) = RGot h (err_world_buf j p p ign) /\
            parse_header h = Some (COP_MSG_FFI_ERROR, len p).
Proof.
  intros Hl.
  assert (L4 : length (le_bytes 4 (len p)) = 4%nat) by apply le_bytes_length.
  destruct (le_bytes 4 (len p)) as [|l0 [|l1 [|l2 [|l3 [|? ?]]]]] eqn:E; try discriminate L4.
  assert (OL : of_le [l0; l1; l2; l3] = len p).
  { rewrite <- E. apply of_le_le_bytes. change (256 ^ N.of_nat 4) with 4294967296. unfold COP_MAX_PAYLOAD in Hl. lia. }
  exists [COP_PROTO_VERSION; COP_MSG_FFI_ERROR; 0; 0; l0; l1; l2; l3]. split.
  - unfold os_read, sync, err_world, err_child. cbn [cur c_script lookup_label label_eqb]. rewrite N.eqb_refl.
    cbn [fold_left apply_action c_out c_exited andb negb c_buf app c_script c_in c_reaped set_cur cur detached future sigign].
    unfold frame. rewrite E. cbn [app].
    match goal with |- context [8 <=? ?x] =>
      replace (8 <=? x) with true by (symmetry; apply N.leb_le; unfold len; cbn [length]; lia) end.
    change (N.to_nat 8) with 8%nat. cbn [firstn skipn].
    unfold err_world_buf, set_cur, frame. cbn [cur detached future sigign c_script c_in c_out c_exited c_reaped app].
    rewrite E. reflexivity.
  - cbn [parse_header]. rewrite N.eqb_refl. cbn [negb]. rewrite OL.
    replace (COP_MAX_PAYLOAD <? len p) with false by (symmetry; apply N.ltb_ge; exact Hl). reflexivity.
Qed.
Lemma err_read_pay j p ign n : n <= len p ->
  exists w', os_read (LPay j) n (err_world_buf j p p ign) = RGot (firstn (N.to_nat n) p) w'.
Proof.
  intros H. unfold os_read, sync, err_world_buf. cbn [cur c_script lookup_label label_eqb fold_left set_cur c_buf].
  replace (n <=? len p) with true by (symmetry; apply N.leb_le; exact H). eexists. reflexivity.
Qed.

Theorem call_error_text_verbatim : forall dec j p ign,
  len p <= COP_MAX_PAYLOAD ->
  exists w', call_cop dec j (ReqOk []) vm_started (err_world j p ign)
             = Go (CErr (EMsg (firstn (N.to_nat (VM_EXT_ERR_SIZE - 1)) p))) vm_started w'.
Proof.
  intros dec j p ign Hl. unfold call_cop. rewrite err_alive. cbv iota beta. rewrite err_write.
  destruct (err_read_hdr j p ign Hl) as (h & RH & PH). rewrite RH, PH.
  change (COP_MSG_FFI_ERROR =? COP_MSG_FFI_RESULT) with false. rewrite N.eqb_refl. cbv zeta iota.
  destruct (N.eqb_spec (N.min (len p) (VM_EXT_ERR_SIZE - 1)) 0) as [Z|NZ].
  - assert (P0 : p = []). { unfold len in Z. destruct p; [reflexivity|]. cbn [length] in Z. unfold VM_EXT_ERR_SIZE in Z. lia. }
    subst p. eexists. reflexivity.
  - destruct (err_read_pay j p ign (N.min (len p) (VM_EXT_ERR_SIZE - 1)) (N.le_min_l _ _)) as (w' & RP).
    rewrite RP. exists w'. rewrite firstn_min_len. reflexivity.
Qed.

(* ... and what reaches stderr is the fixed prefix followed by that text as a C string, cut to the buffer: no byte of p is
   interpreted (no printf directive, escape or keyword in p can change anything but the bytes echoed) *)
Theorem error_report_is_data : forall p,
  stderr_report (EMsg (firstn (N.to_nat (VM_EXT_ERR_SIZE - 1)) p)) =
  Some (runtime_error_line ++ [32; 32] ++
        firstn (N.to_nat (VM_ERROR_MSG_SIZE - 1)) (VM_FFI_ERR_PREFIX ++ cstr (firstn (N.to_nat (VM_EXT_ERR_SIZE - 1)) p)) ++ [10]).
Proof. reflexivity. Qed.
