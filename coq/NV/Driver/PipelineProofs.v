From Coq Require Import List Bool.
From NV Require Import gen.DriverPhases Driver.Pipeline.
Import ListNotations.

Definition rejected : obs := {| o_exit_nonzero := true; o_artifact := false; o_executed := false; o_diag := true |}.

Lemma phase_eqb_eq a b : phase_eqb a b = true -> a = b.
Proof. destruct a, b; simpl; congruence. Qed.

(* general: when every phase in front of the type check succeeds and is quiet, a failing type check that is guarded
   ends the run with exit 1, a diagnostic, no artifact, nothing executed -- whatever the later phases would do *)
Lemma stops_at_tc t ok : forall l acc,
  quiet_until_tc l = true -> tc_guard t = true -> ok PTypeCheck = false ->
  (forall ph, phase_eqb ph PTypeCheck = false -> ok ph = true) ->
  o_artifact acc = false -> o_executed acc = false ->
  run_phases t ok l acc = rejected.
Proof.
  induction l as [|ph r IH]; intros acc Hq Hg Htc Hpre Ha He; simpl in *; [discriminate|].
  destruct (phase_eqb ph PTypeCheck) eqn:E.
  - apply phase_eqb_eq in E. subst ph. rewrite Htc. unfold stops. simpl. rewrite Hg.
    unfold rejected. rewrite Ha, He. reflexivity.
  - rewrite (Hpre _ E).
    apply andb_true_iff in Hq. destruct Hq as [Hq Hr]. apply andb_true_iff in Hq. destruct Hq as [Hw Hx].
    apply IH; auto; simpl.
    + rewrite Ha. apply negb_true_iff in Hw. rewrite Hw. reflexivity.
    + rewrite He. apply negb_true_iff in Hx. rewrite Hx. reflexivity.
Qed.

(* the generated tables have that shape for all three tool invocations *)
Lemma tables_ok : forall t, quiet_until_tc (phases_of t) = true /\ tc_guard t = true.
Proof. destruct t; split; vm_compute; reflexivity. Qed.

Theorem driver_stops : forall t ok,
  ok PTypeCheck = false ->
  (forall ph, phase_eqb ph PTypeCheck = false -> ok ph = true) ->       (* lexing, parsing, imports succeeded *)
  run_tool t ok = rejected.
Proof.
  intros t ok Htc Hpre. destruct (tables_ok t) as [Hq Hg].
  unfold run_tool. apply stops_at_tc; auto.
Qed.

(* an earlier failure (lexer, parser, imports) stops the driver in the same way *)
Lemma stops_early t ok : forall l acc,
  o_artifact acc = false -> o_executed acc = false ->
  (exists ph, In ph l /\ ok ph = false /\ stops t ph = true /\
     forall q, In q l -> ok q = false -> q = ph) ->
  (forall q, In q l -> ok q = true -> writes_artifact q = false /\ executes_program q = false) ->
  run_phases t ok l acc = rejected.
Proof.
  induction l as [|q r IH]; intros acc Ha He [ph [Hin [Hf [Hs Huniq]]]] Hquiet; [contradiction|].
  simpl. destruct (ok q) eqn:Eq.
  - destruct (Hquiet q (or_introl eq_refl) Eq) as [Hw Hx].
    apply IH; simpl.
    + rewrite Ha, Hw. reflexivity.
    + rewrite He, Hx. reflexivity.
    + exists ph. destruct Hin as [->|Hin]; [congruence|]. repeat split; auto. intros q' Hq'. apply Huniq. right. exact Hq'.
    + intros q' Hq'. apply Hquiet. right. exact Hq'.
  - assert (q = ph) by (apply Huniq; [left; reflexivity|exact Eq]). subst q. rewrite Hs.
    unfold rejected. rewrite Ha, He. reflexivity.
Qed.

(* and, for contrast, what the model says when the type check wrongly SUCCEEDS on nano_virt --run: the program is executed *)
Example accepted_runs : forall ok, (forall ph, ok ph = true) -> o_executed (run_tool VirtRun ok) = true /\ o_artifact (run_tool VirtEmit ok) = true.
Proof. intros ok H. unfold run_tool. vm_compute phases_of. simpl. rewrite !H. simpl. split; reflexivity. Qed.

(* strongest form for the front end: NO hypothesis on the other phases.  Whatever the outcome function, when any of the
   four front-end phases (lexer, parser, imports, type check) fails, every tool invocation ends rejected: the first of
   them to fail stops the driver, and nothing in front of it writes or runs anything. *)
Lemma front4 t ok r : tc_guard t = true ->
  ok PLex && ok PParse && ok PImports && ok PTypeCheck = false ->
  run_phases t ok (PLex :: PParse :: PImports :: PTypeCheck :: r) start = rejected.
Proof.
  intros G H. cbn [run_phases]. unfold stops. cbn [phase_eqb]. rewrite G.
  destruct (ok PLex); [|reflexivity]. destruct (ok PParse); [|reflexivity].
  destruct (ok PImports); [|reflexivity]. destruct (ok PTypeCheck); [discriminate H|reflexivity].
Qed.

Lemma phases_front4 : forall t, exists r, phases_of t = PLex :: PParse :: PImports :: PTypeCheck :: r.
Proof. destruct t; eexists; vm_compute; reflexivity. Qed.

Theorem driver_stops_front : forall t ok,
  ok PLex && ok PParse && ok PImports && ok PTypeCheck = false -> run_tool t ok = rejected.
Proof.
  intros t ok H. unfold run_tool. destruct (phases_front4 t) as [r ->].
  apply front4; [exact (proj2 (tables_ok t))|exact H].
Qed.

(* contrapositive, the way the property reads: an artifact on disk or any execution of program code implies that the
   whole front end accepted the program *)
Corollary artifact_or_exec_needs_front : forall t ok,
  o_artifact (run_tool t ok) = true \/ o_executed (run_tool t ok) = true ->
  ok PLex = true /\ ok PParse = true /\ ok PImports = true /\ ok PTypeCheck = true.
Proof.
  intros t ok H.
  destruct (ok PLex && ok PParse && ok PImports && ok PTypeCheck) eqn:E.
  - apply andb_true_iff in E. destruct E as [E E4]. apply andb_true_iff in E. destruct E as [E E3].
    apply andb_true_iff in E. destruct E as [E1 E2]. auto.
  - rewrite (driver_stops_front t ok E) in H. destruct H as [H|H]; discriminate H.
Qed.

(* and a clean exit implies it too: exit 0 is never reported for a program the front end refused *)
Corollary exit_zero_needs_front : forall t ok,
  o_exit_nonzero (run_tool t ok) = false ->
  ok PLex = true /\ ok PParse = true /\ ok PImports = true /\ ok PTypeCheck = true.
Proof.
  intros t ok H.
  destruct (ok PLex && ok PParse && ok PImports && ok PTypeCheck) eqn:E.
  - apply andb_true_iff in E. destruct E as [E E4]. apply andb_true_iff in E. destruct E as [E E3].
    apply andb_true_iff in E. destruct E as [E1 E2]. auto.
  - rewrite (driver_stops_front t ok E) in H. discriminate H.
Qed.
