(* Which runners agree on the exit status, and on which outcomes; parametric in the two generated facts about the mains. *)
From Coq Require Import ZArith Znumtheory Lia Bool.
From NV Require Import gen.RunnerFlags Driver.ExitStatus.
Local Open Scope Z_scope.

Theorem virt_wrapper_agree o : exit_status VirtRun o = exit_status Wrapper o.
Proof. destruct o; reflexivity. Qed.

Theorem all_agree_on_error r1 r2 : exit_status r1 VmError = exit_status r2 VmError.
Proof. destruct r1, r2; reflexivity. Qed.

Theorem all_agree_on_non_int r1 r2 v : exit_status r1 (VmOk false v) = exit_status r2 (VmOk false v).
Proof. destruct r1, r2; unfold exit_status, main_return, propagate; destruct nano_vm_propagates_result, daemon_propagates_result; reflexivity. Qed.

Lemma to_int32_mod256 v : to_int32 v mod 256 = v mod 256.
Proof.
  assert (D : (v mod 4294967296) mod 256 = v mod 256).
  { symmetry. apply Zmod_div_mod; [lia|lia|]. exists 16777216. reflexivity. }
  unfold to_int32. destruct (v mod 4294967296 <? 2147483648); [exact D|].
  replace (v mod 4294967296 - 4294967296) with (v mod 4294967296 + (-16777216) * 256) by lia.
  rewrite Z_mod_plus_full. exact D.
Qed.

(* the propagating runners report main's value modulo 256 *)
Theorem virt_status_is_low_byte v : exit_status VirtRun (VmOk true v) = v mod 256.
Proof. unfold exit_status, main_return, propagate. apply to_int32_mod256. Qed.

(* every runner agrees when main's value is a multiple of 256 *)
Theorem all_agree_mult256 r1 r2 v : v mod 256 = 0 -> exit_status r1 (VmOk true v) = exit_status r2 (VmOk true v).
Proof.
  intros H. assert (E : forall r, exit_status r (VmOk true v) = 0).
  { intros r. destruct r; unfold exit_status, main_return, propagate; try destruct nano_vm_propagates_result;
      try destruct daemon_propagates_result; try reflexivity; rewrite ?Z.mod_mod by discriminate; rewrite to_int32_mod256; exact H. }
  rewrite !E. reflexivity.
Qed.

(* In the proofs below the hypothesis fixes a generated boolean; when it contradicts the generated value the first branch
   closes the goal, otherwise the second branch is the proof proper.  Either way the script checks on both kinds of tree. *)
(* C10's statement about the three local runners holds iff run_standalone consults the result *)
Theorem runners_agree : nano_vm_propagates_result = true ->
  forall r1 r2 o, local_runner r1 = true -> local_runner r2 = true -> exit_status r1 o = exit_status r2 o.
Proof.
  intros P.
  first [ unfold nano_vm_propagates_result in P; discriminate P
        | intros r1 r2 o L1 L2; destruct r1, r2; try discriminate; destruct o; unfold exit_status, main_return; rewrite ?P; reflexivity ].
Qed.

Theorem runners_agree_refuted : nano_vm_propagates_result = false ->
  exists r1 r2 o, local_runner r1 = true /\ local_runner r2 = true /\ exit_status r1 o <> exit_status r2 o.
Proof.
  intros P.
  first [ unfold nano_vm_propagates_result in P; discriminate P
        | exists VirtRun, NanoVmFile, (VmOk true 3); split; [reflexivity|]; split; [reflexivity|];
          unfold exit_status, main_return; rewrite P; vm_compute; discriminate ].
Qed.

Theorem runners_disagree : nano_vm_propagates_result = false ->
  forall v, v mod 256 <> 0 -> exit_status VirtRun (VmOk true v) <> exit_status NanoVmFile (VmOk true v).
Proof.
  intros P.
  first [ unfold nano_vm_propagates_result in P; discriminate P
        | intros v H; rewrite virt_status_is_low_byte; unfold exit_status, main_return; rewrite P; exact H ].
Qed.

(* the daemon client: reports main's value iff client_thread consults it *)
Theorem daemon_drops_result : daemon_propagates_result = false ->
  forall v, v mod 256 <> 0 -> exit_status VirtRun (VmOk true v) <> exit_status DaemonClient (VmOk true v).
Proof.
  intros P.
  first [ unfold daemon_propagates_result in P; discriminate P
        | intros v H; rewrite virt_status_is_low_byte; unfold exit_status, main_return; rewrite P; exact H ].
Qed.

Theorem runners_agree_all : nano_vm_propagates_result = true -> daemon_propagates_result = true ->
  forall r1 r2 o, exit_status r1 o = exit_status r2 o.
Proof.
  intros P Q.
  first [ unfold nano_vm_propagates_result in P; discriminate P
        | unfold daemon_propagates_result in Q; discriminate Q
        | intros r1 r2 o;
          assert (E : forall r, exit_status r o = exit_status VirtRun o);
          [ intros r; destruct r, o; unfold exit_status, main_return; rewrite ?P, ?Q; try reflexivity;
            rewrite Z.mod_mod by discriminate; reflexivity
          | rewrite (E r1), (E r2); reflexivity ] ].
Qed.

(* global initialisers *)
Theorem init_once : wrapper_calls_init = false -> forall r, init_runs r = 1%nat.
Proof.
  intros W.
  first [ unfold wrapper_calls_init in W; discriminate W
        | intros r; destruct r; unfold init_runs; rewrite ?W; reflexivity ].
Qed.
Theorem init_once_refuted : wrapper_calls_init = true -> exists r, local_runner r = true /\ init_runs r <> 1%nat.
Proof.
  intros W.
  first [ unfold wrapper_calls_init in W; discriminate W
        | exists Wrapper; split; [reflexivity|]; unfold init_runs; rewrite W; discriminate ].
Qed.
Theorem init_once_others r : r <> Wrapper -> init_runs r = 1%nat.
Proof. destruct r; intros H; try reflexivity; contradiction H; reflexivity. Qed.
