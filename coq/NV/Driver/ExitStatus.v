(* Exit status of the four ways of running a module, transcribed from the mains:
     VirtRun      src/nanovirt/main.c       (nano_virt x.nano --run): r != VM_OK -> 1; result.tag == TAG_INT -> (int)result.as.i64; else 0
     Wrapper      src/nanovirt/wrapper_gen.c write_wrapper_c: the generated main has the same three cases
     NanoVmFile   src/nanovm/main.c run_standalone: result != VM_OK -> 1; else 0 -- unless run_standalone consults
                  vm_get_result ([nano_vm_propagates_result], generated from the clang AST), in which case the rule of VirtRun
     DaemonClient src/nanovm/vmd_server.c VMD_MSG_LOAD_EXEC + main.c run_daemon: exit_code = (result != VM_OK), sent back, returned;
                  since repair 77ae0bf an int result of main is sent as (int)i64 & 0xFF ([daemon_propagates_result], generated)
   [main_return] is the int returned from main; [exit_status] is what the parent observes (low 8 bits).
   Only the status after a successful load + verify is modelled (all runners return 1 when loading fails).
   No proofs in this file (it is extracted). *)
From Coq Require Import ZArith.
From NV Require Import gen.RunnerFlags.
Local Open Scope Z_scope.

Inductive vm_outcome :=
| VmOk (result_is_int : bool) (i64 : Z)     (* vm_execute = VM_OK; vm_get_result(): tag == TAG_INT?, as.i64 *)
| VmError.                                  (* vm_execute <> VM_OK *)
Inductive runner := VirtRun | Wrapper | NanoVmFile | DaemonClient.

(* (int)x for an int64_t x: gcc/clang reduce modulo 2^32 into [-2^31, 2^31) *)
Definition to_int32 (z : Z) : Z :=
  let r := z mod 4294967296 in if r <? 2147483648 then r else r - 4294967296.

Definition propagate (is_int : bool) (v : Z) : Z := if is_int then to_int32 v else 0.

Definition main_return (r : runner) (o : vm_outcome) : Z :=
  match o with
  | VmError => 1
  | VmOk is_int v =>
      match r with
      | VirtRun | Wrapper => propagate is_int v
      | NanoVmFile => if nano_vm_propagates_result then propagate is_int v else 0
      | DaemonClient => if daemon_propagates_result then (propagate is_int v) mod 256 else 0   (* (int)i64 & 0xFF *)
      end
  end.
Definition exit_status (r : runner) (o : vm_outcome) : Z := main_return r o mod 256.

(* the three runners property C10 names *)
Definition local_runner (r : runner) : bool := match r with DaemonClient => false | _ => true end.

(* how many times the module's __init__ function (global initialisers) runs before main:
   vm_execute (src/nanovm/vm.c) calls it once itself; the wrapper's generated main calls it explicitly first
   iff [wrapper_calls_init] (generated from the clang AST of write_wrapper_c) *)
Definition init_runs (r : runner) : nat :=
  match r with Wrapper => if wrapper_calls_init then 2 else 1 | VirtRun | NanoVmFile | DaemonClient => 1 end.
