(* Phase 5 of nanoc's driver (src/main.c compile_file, "Phase 5: Shadow-Test Execution") and run_shadow_tests
   (src/eval.c:4599) as a fold over the program's shadow blocks, on top of the evaluator model Back/InterpSem.

   run_shadow_tests:  pass 1 evaluates the top-level constants (pushed on the single symbol stack);  pass 4 walks the
   AST_SHADOW items in source order.  A test whose function body or whose own body "contains extern calls"
   (contains_extern_calls, a syntactic scan) is SKIPPED: not executed, not counted, cannot fail.  The core fragment has
   no extern functions, so the scan's verdict is an input here ([sh_skip]).  For every other test the per-test failure
   counter is reset, the body (a block: its symbols are popped when it ends, fix 9481a65) is evaluated on the shared
   stack, and the test fails iff the counter is non-zero afterwards; all_passed is the conjunction.  Assertion failures do not stop a test.
   Driver: phases 1-4 (lex, parse, imports, type check) -> phase 5 -> phases 6-7 (transpile, cc).  Phase 5 failing:
   "Shadow tests failed" on stderr, return 1 before any C is generated, nothing is written at the -o path.
   A pre-existing file at the output path is outside the model.
   Type checker (src/typechecker.c:5563): every non-extern function DEFINED IN THE COMPILED FILE other than main to which
   no shadow block is attached gets "Warning: Function 'f' is missing a shadow test" (a warning: compilation goes on).
   Definitions only. *)
From Coq Require Import ZArith NArith List Bool.
From NV Require Import Lang.Ast Lang.Ref Back.InterpSem.
Import ListNotations.

Record shadow := { sh_fn : ident; sh_body : stmt; sh_skip : bool }.
(* sp_shadows: EVERY shadow block of the compiled file, in source order -- a function may have several (each one runs, each is
   reported under the function's name), a block may stand before its function or far from it, and it may name a function
   imported from another module.  sp_imported: the functions of sp_prog that come from imported modules (their own
   module's shadow blocks are NOT run when the module is imported, and the type checker does not ask the importing file
   for a shadow block for them). *)
Record sprogram := { sp_prog : program; sp_shadows : list shadow; sp_imported : list ident }.

Record test_result := { tr_name : ident; tr_out : list N; tr_asserts : list bool }.
Definition fail_count (t : test_result) : nat := length (filter negb (tr_asserts t)).
Definition test_passed (t : test_result) : bool := Nat.eqb (fail_count t) 0.

Inductive tests_run :=
  | TDone (rs : list test_result) (skipped : list ident) (stk : istack)
  | TSigfpe                       (* nanoc itself is killed (division trap inside the evaluator) *)
  | TUnmodelled
  | TNoFuel                       (* the evaluator does not finish within the fuel: nanoc has not terminated *)
  | TOob (f : option ident) (out : list N).
                                  (* an array index out of bounds inside the evaluator: nanoc prints "Runtime Error" and
                                     exits 1 on the spot; f = the test that was running (None: a top-level constant),
                                     out = what that test had printed *)

Definition fresh_world (s : istack) : world := {| w_stk := s; w_out := []; w_asr := [] |}.

Fixpoint run_tests (fns : list fn) (fuel : nat) (shs : list shadow) (stk : istack) : tests_run :=
  match shs with
  | [] => TDone [] [] stk
  | sh :: r =>
      if sh_skip sh then
        match run_tests fns fuel r stk with
        | TDone rs sk s' => TDone rs (sh_fn sh :: sk) s'
        | x => x end
      else
        match iexec fns fuel (sh_body sh) (fresh_world stk) with
        | IOk _ w =>
            match run_tests fns fuel r (truncate (length stk) (w_stk w)) with
            | TDone rs sk s' => TDone ({| tr_name := sh_fn sh; tr_out := w_out w; tr_asserts := w_asr w |} :: rs) sk s'
            | x => x end
        | ISigfpe => TSigfpe
        | IUnmodelled => TUnmodelled
        | INoFuel => TNoFuel
        | IOob w => TOob (Some (sh_fn sh)) (w_out w)
        end
  end.

(* the whole of run_shadow_tests; [base] = symbols the type checker left on the stack *)
Definition run_interp (fuel : nat) (sp : sprogram) (base : istack) : tests_run :=
  match iglobals (pfns (sp_prog sp)) fuel (pglobals (sp_prog sp)) (fresh_world base) with
  | IOk _ w => run_tests (pfns (sp_prog sp)) fuel (sp_shadows sp) (w_stk w)
  | ISigfpe => TSigfpe
  | IUnmodelled => TUnmodelled
  | INoFuel => TNoFuel
  | IOob w => TOob None (w_out w)
  end.

Definition all_passed (rs : list test_result) : bool := forallb test_passed rs.

(* what the user sees *)
Inductive report_line :=
  | RTesting (f : ident) (text : list N) (passed : bool)     (* "Testing f... <text>PASSED|FAILED"   (--verbose) *)
  | RFailed (f : ident) (n : nat)                           (* "  Shadow test 'f' FAILED: n assertion(s) failed" *)
  | RSkipped (f : ident)
  | RShadowTestsFailed.                                     (* stderr "Shadow tests failed" *)

Definition report_of (t : test_result) : list report_line :=
  RTesting (tr_name t) (tr_out t) (test_passed t) :: (if test_passed t then [] else [RFailed (tr_name t) (fail_count t)]).

Definition report (rs : list test_result) (sk : list ident) : list report_line :=
  flat_map report_of rs ++ map RSkipped sk ++ (if all_passed rs then [] else [RShadowTestsFailed]).

(* the other phases are inputs: did phases 1-4 accept, do phases 6-7 succeed *)
Record phases := { front_ok : bool; later_ok : bool }.

Inductive nanoc_result :=
  | NExit (code : Z) (binary : bool) (rep : list report_line) (warn : list ident)
  | NKilled
  | NUnmodelledRun
  | NHang.

Definition has_shadow (sp : sprogram) (f : ident) : bool := existsb (fun sh => N.eqb (sh_fn sh) f) (sp_shadows sp).
Definition missing_shadow (sp : sprogram) : list ident :=
  map fname (filter (fun d => negb (N.eqb (fname d) (pmain (sp_prog sp))) && negb (existsb (N.eqb (fname d)) (sp_imported sp)) &&
                              negb (has_shadow sp (fname d))) (pfns (sp_prog sp))).

Definition nanoc (ph : phases) (fuel : nat) (sp : sprogram) (base : istack) : nanoc_result :=
  if negb (front_ok ph) then NExit 1 false [] [] else
  match run_interp fuel sp base with
  | TDone rs sk _ =>
      if all_passed rs then
        (if later_ok ph then NExit 0 true (report rs sk) (missing_shadow sp) else NExit 1 false (report rs sk) (missing_shadow sp))
      else NExit 1 false (report rs sk) (missing_shadow sp)
  | TSigfpe => NKilled
  | TUnmodelled => NUnmodelledRun
  | TNoFuel => NHang
  | TOob _ _ => NExit 1 false [] (missing_shadow sp)       (* exit(1) inside the evaluator: no summary, no executable *)
  end.

Definition produces_binary (r : nanoc_result) : Prop := match r with NExit _ true _ _ => True | _ => False end.
Definition exit_zero (r : nanoc_result) : Prop := match r with NExit 0 _ _ _ => True | _ => False end.

(* the reference semantics of one shadow test: the body runs as a block of its own in the global environment *)
Definition ref_test (fns : list fn) (fuel : nat) (genv : env) (body : stmt) : res (ctl * env) :=
  exec_stmt fns fuel genv [] body [].
