(* C06: the shadow tests gate compilation.  Everything here is about Driver/ShadowGate (run_shadow_tests as a fold,
   the driver's phase order); gate_iff_ref then ties the gate to the REFERENCE truth values through interp_correct. *)
From Coq Require Import ZArith NArith List Bool Lia.
From NV Require Import Lang.Ast Lang.Ref Back.InterpSem Back.InterpLemmas Driver.ShadowGate Back.NamesApart Back.InterpSemProofs Back.InterpCorrect.
Import ListNotations.

Lemma filter_negb_nil_iff (l : list bool) : length (filter negb l) = 0 <-> (forall a, In a l -> a = true).
Proof.
  induction l as [|b r IH]; simpl.
  - split; [intros _ a []|reflexivity].
  - destruct b; simpl.
    + rewrite IH. split; [intros H a [Q|Q]; [symmetry; exact Q|apply H; exact Q]|intros H a Q; apply H; right; exact Q].
    + split; [discriminate|]. intros H. specialize (H false (or_introl eq_refl)). discriminate.
Qed.

Lemma test_passed_iff t : test_passed t = true <-> (forall a, In a (tr_asserts t) -> a = true).
Proof. unfold test_passed, fail_count. rewrite Nat.eqb_eq. apply filter_negb_nil_iff. Qed.

Lemma all_passed_iff rs : all_passed rs = true <-> (forall t, In t rs -> forall a, In a (tr_asserts t) -> a = true).
Proof.
  unfold all_passed. rewrite forallb_forall. split.
  - intros H t Ht. apply test_passed_iff. apply H. exact Ht.
  - intros H t Ht. apply test_passed_iff. apply H. exact Ht.
Qed.

(* ---- gate_iff: position, count and nesting of the failing assertion are arbitrary: rs is whatever list of results the
   fold produced, tr_asserts t is whatever sequence of assertions the evaluator executed in that test (loops, calls) *)
Theorem gate_iff ph fuel sp base rs sk stk :
  front_ok ph = true -> later_ok ph = true -> run_interp fuel sp base = TDone rs sk stk ->
  (produces_binary (nanoc ph fuel sp base) <-> forall t, In t rs -> forall a, In a (tr_asserts t) -> a = true).
Proof.
  intros F L R. unfold nanoc. rewrite F, R, L. simpl. rewrite <- all_passed_iff.
  destruct (all_passed rs); simpl; split; intros H; try exact I; try discriminate; try contradiction; reflexivity.
Qed.

Theorem gate_exit_status ph fuel sp base rs sk stk :
  front_ok ph = true -> later_ok ph = true -> run_interp fuel sp base = TDone rs sk stk ->
  (produces_binary (nanoc ph fuel sp base) <-> exit_zero (nanoc ph fuel sp base)) /\
  (all_passed rs = false -> exists rep w, nanoc ph fuel sp base = NExit 1 false rep w /\ In RShadowTestsFailed rep).
Proof.
  intros F L R. unfold nanoc. rewrite F, R, L. simpl. destruct (all_passed rs) eqn:A; simpl.
  - split; [tauto|discriminate].
  - split; [tauto|]. intros _. eexists _, _. split; [reflexivity|]. unfold report. rewrite A.
    apply in_or_app. right. apply in_or_app. right. left. reflexivity.
Qed.

(* an executable exists only if every phase before it succeeded, the evaluator terminated, and every test passed *)
Theorem binary_only_after_passing ph fuel sp base :
  produces_binary (nanoc ph fuel sp base) ->
  front_ok ph = true /\ later_ok ph = true /\ exists rs sk stk, run_interp fuel sp base = TDone rs sk stk /\ all_passed rs = true.
Proof.
  unfold nanoc. destruct (front_ok ph); simpl; [|contradiction].
  destruct (run_interp fuel sp base) as [rs sk stk| | | |? ?]; try contradiction.
  destruct (all_passed rs) eqn:A; [|contradiction]. destruct (later_ok ph); [|contradiction].
  intros _. repeat split. eexists _, _, _. split; [reflexivity|exact A].
Qed.

(* ---- gate_names_test *)
Lemma report_of_in t rs : In t rs -> forall l, In l (report_of t) -> In l (flat_map report_of rs).
Proof. intros Ht l Hl. apply in_flat_map. exists t. auto. Qed.

Theorem gate_names_test ph fuel sp base rs sk stk t :
  front_ok ph = true -> run_interp fuel sp base = TDone rs sk stk ->
  In t rs -> In false (tr_asserts t) ->
  exists c rep w, nanoc ph fuel sp base = NExit c false rep w /\ c = 1%Z /\
                  In (RFailed (tr_name t) (fail_count t)) rep /\ fail_count t > 0 /\ In RShadowTestsFailed rep.
Proof.
  intros F R Ht Hf.
  assert (TP : test_passed t = false).
  { destruct (test_passed t) eqn:E; [|reflexivity]. rewrite test_passed_iff in E. specialize (E false Hf). discriminate. }
  assert (AP : all_passed rs = false).
  { destruct (all_passed rs) eqn:E; [|reflexivity]. unfold all_passed in E. rewrite forallb_forall in E. rewrite (E t Ht) in TP. discriminate. }
  unfold nanoc. rewrite F, R, AP. simpl. eexists _, _, _. split; [reflexivity|]. split; [reflexivity|]. split; [|split].
  - unfold report. apply in_or_app. left. eapply report_of_in; [exact Ht|]. unfold report_of. rewrite TP. right. left. reflexivity.
  - unfold test_passed in TP. apply Nat.eqb_neq in TP. lia.
  - unfold report. rewrite AP. apply in_or_app. right. apply in_or_app. right. left. reflexivity.
Qed.

(* ---- which tests run: exactly the non-skipped ones, in source order; a skipped test cannot fail the gate *)
Lemma run_tests_names fns fuel : forall shs stk rs sk stk',
  run_tests fns fuel shs stk = TDone rs sk stk' ->
  map tr_name rs = map sh_fn (filter (fun sh => negb (sh_skip sh)) shs) /\
  sk = map sh_fn (filter sh_skip shs).
Proof.
  induction shs as [|sh r IH]; intros stk rs sk stk' H; simpl in *.
  - inversion H. auto.
  - destruct (sh_skip sh) eqn:SK; simpl.
    + destruct (run_tests fns fuel r stk) as [rs1 sk1 s1| | | |? ?] eqn:E; try discriminate. inversion H; subst.
      destruct (IH _ _ _ _ E) as [A B]. split; [exact A|]. simpl. f_equal. exact B.
    + destruct (iexec fns fuel (sh_body sh) (fresh_world stk)) as [c w| | | |?]; try discriminate.
      destruct (run_tests fns fuel r (truncate (length stk) (w_stk w))) as [rs1 sk1 s1| | | |? ?] eqn:E; try discriminate. inversion H; subst.
      destruct (IH _ _ _ _ E) as [A B]. split; [simpl; f_equal; exact A|exact B].
Qed.

(* ---- missing_shadow_reported *)
Theorem missing_shadow_reported ph fuel sp base c b rep w d :
  nanoc ph fuel sp base = NExit c b rep w -> front_ok ph = true ->
  In d (pfns (sp_prog sp)) -> fname d <> pmain (sp_prog sp) -> ~ In (fname d) (sp_imported sp) -> has_shadow sp (fname d) = false ->
  In (fname d) w.
Proof.
  unfold nanoc. intros H F Hd Hm Hi Hs. rewrite F in H. simpl in H.
  assert (M : In (fname d) (missing_shadow sp)).
  { unfold missing_shadow. apply in_map. apply filter_In. split; [exact Hd|]. rewrite Hs.
    destruct (N.eqb (fname d) (pmain (sp_prog sp))) eqn:E; [apply N.eqb_eq in E; contradiction|].
    destruct (existsb (N.eqb (fname d)) (sp_imported sp)) eqn:E2; [|reflexivity].
    exfalso. apply Hi. apply existsb_exists in E2. destruct E2 as [y [Hy Q]]. apply N.eqb_eq in Q. subst. exact Hy. }
  destruct (run_interp fuel sp base) as [rs sk stk| | | |? ?]; try discriminate.
  - destruct (all_passed rs); [destruct (later_ok ph)|]; inversion H; subst; exact M.
  - inversion H; subst; exact M.
Qed.

(* ---- the gate against the REFERENCE truth values (through interp_correct) *)
Theorem gate_iff_ref ph fuel sp base genv gout :
  names_apart sp = true ->
  eval_globals (pfns (sp_prog sp)) fuel (pglobals (sp_prog sp)) [] [] = Ok genv gout ->
  (forall sh, In sh (sp_shadows sp) -> sh_skip sh = false -> ref_defined (ref_test (pfns (sp_prog sp)) fuel genv (sh_body sh))) ->
  front_ok ph = true -> later_ok ph = true ->
  (produces_binary (nanoc ph fuel sp base) <->
   forall sh, In sh (sp_shadows sp) -> sh_skip sh = false -> exists r out, ref_test (pfns (sp_prog sp)) fuel genv (sh_body sh) = Ok r out).
Proof.
  intros NA GE RD F L. split.
  - intros PB. destruct (binary_only_after_passing _ _ _ _ PB) as [_ [_ [rs [sk [stk [R A]]]]]].
    pose proof (interp_correct_run _ _ _ _ _ _ _ _ NA GE R) as AR.
    intros sh Hs SK. pose proof (RD sh Hs SK) as D.
    destruct (ref_test (pfns (sp_prog sp)) fuel genv (sh_body sh)) as [r out|f out| |] eqn:RT; simpl in D; try contradiction.
    + eexists _, _. reflexivity.
    + destruct f; try contradiction.
      rewrite (agree_first_failure_fails _ _ _ _ _ AR RD) in A; [discriminate|]. exists sh, out. auto.
  - intros RO. destruct (interp_total_when_ref_passes fuel sp base genv gout NA GE RO) as [rs [sk [stk R]]].
    pose proof (interp_correct_run _ _ _ _ _ _ _ _ NA GE R) as AR.
    pose proof (agree_all_ok_passes _ _ _ _ _ AR RO) as A.
    unfold nanoc. rewrite F, R, A, L. exact I.
Qed.
