(* The compiler drivers as phase machines (src/main.c compile_file for nanoc, src/nanovirt/main.c main for
   nano_virt --run and nano_virt --emit-nvm -o f): the phases run in the order of gen/DriverPhases.v (read from the
   C sources by tools/gen/gen_driverphases.py); a phase that fails prints a diagnostic and the driver returns 1 without
   running any later phase -- for the type-check phase that shape is a GENERATED fact (…_tc_guard), for the other
   phases it is part of the model.  Observable result: exit status class, whether an output artifact was written,
   whether any code of the program was executed (shadow tests at compile time, the VM), whether a diagnostic was printed.
   Tie: every run of tools/props/c05.py compares the three real tools with [run_tool] on the same front-end outcome.
   Definitions only. *)
From Coq Require Import List Bool.
From NV Require Import gen.DriverPhases.
Import ListNotations.

Inductive tool := Nanoc | VirtRun | VirtEmit.

Definition phase_eqb (a b : phase) : bool :=
  match a, b with
  | PLex,PLex | PParse,PParse | PImports,PImports | PTypeCheck,PTypeCheck | PShadow,PShadow | PTranspile,PTranspile
  | PCc,PCc | PCodegen,PCodegen | PSerialize,PSerialize | PWriteArtifact,PWriteArtifact | PVerify,PVerify | PExec,PExec => true
  | _,_ => false end.

(* which phases a tool invocation performs: --run without -o writes nothing; --emit-nvm -o f does not execute *)
Definition phases_of (t : tool) : list phase :=
  match t with
  | Nanoc => nanoc_phases
  | VirtRun => filter (fun ph => negb (phase_eqb ph PSerialize || phase_eqb ph PWriteArtifact)) virt_phases
  | VirtEmit => filter (fun ph => negb (phase_eqb ph PVerify || phase_eqb ph PExec)) virt_phases
  end.

Definition tc_guard (t : tool) : bool := match t with Nanoc => nanoc_tc_guard | _ => virt_tc_guard end.
(* does the driver stop when this phase fails? *)
Definition stops (t : tool) (ph : phase) : bool := if phase_eqb ph PTypeCheck then tc_guard t else true.

Definition writes_artifact (ph : phase) : bool := phase_eqb ph PWriteArtifact || phase_eqb ph PCc.
Definition executes_program (ph : phase) : bool := phase_eqb ph PShadow || phase_eqb ph PExec.

Record obs := { o_exit_nonzero : bool; o_artifact : bool; o_executed : bool; o_diag : bool }.

Fixpoint run_phases (t : tool) (ok : phase -> bool) (l : list phase) (acc : obs) : obs :=
  match l with
  | [] => acc
  | ph :: r =>
      if ok ph then
        run_phases t ok r {| o_exit_nonzero := o_exit_nonzero acc; o_artifact := o_artifact acc || writes_artifact ph;
                             o_executed := o_executed acc || executes_program ph; o_diag := o_diag acc |}
      else if stops t ph then
        {| o_exit_nonzero := true; o_artifact := o_artifact acc; o_executed := o_executed acc; o_diag := true |}
      else
        (* the failure is reported but the driver carries on *)
        run_phases t ok r {| o_exit_nonzero := o_exit_nonzero acc; o_artifact := o_artifact acc || writes_artifact ph;
                             o_executed := o_executed acc || executes_program ph; o_diag := true |}
  end.

Definition start : obs := {| o_exit_nonzero := false; o_artifact := false; o_executed := false; o_diag := false |}.
Definition run_tool (t : tool) (ok : phase -> bool) : obs := run_phases t ok (phases_of t) start.

(* the phases in front of the type check neither write an artifact nor execute program code *)
Fixpoint quiet_until_tc (l : list phase) : bool :=
  match l with
  | [] => false                                   (* no type-check phase at all *)
  | ph :: r => if phase_eqb ph PTypeCheck then true
               else negb (writes_artifact ph) && negb (executes_program ph) && quiet_until_tc r
  end.
