(* GENERATED: copy of /repo/formal/Typing.v (From Stdlib -> From Coq; extraction directives commented out) -- do not edit *)
(** * NanoCore: Type System

    This file defines the typing rules for NanoCore.
    The typing judgment is:
      has_type ctx e t  ===  "expression e has type t in typing context ctx"

    The type system ensures:
    - Arithmetic operators require integer operands and produce integers
    - Comparison operators require integer operands and produce booleans
    - Logical operators require boolean operands and produce booleans
    - If-then-else requires boolean condition and matching branch types
    - Function application checks argument against parameter type
    - Set requires variable in scope and value of matching type
    - While requires boolean condition and unit-typed body
    - Pattern matching requires exhaustive, type-consistent branches
*)

From Coq Require Import ZArith.
From Coq Require Import String.
From Coq Require Import List.
Import ListNotations.
From NV.NanoCore Require Import Syntax.
Open Scope string_scope.

(** ** Typing context

    A typing context maps variable names to their types.
    Uses a simple association list, like environments. *)

Inductive ctx : Type :=
  | CtxNil  : ctx
  | CtxCons : string -> ty -> ctx -> ctx.

(** Context lookup *)

Fixpoint ctx_lookup (x : string) (c : ctx) : option ty :=
  match c with
  | CtxNil => None
  | CtxCons y t rest =>
    if String.eqb x y then Some t
    else ctx_lookup x rest
  end.

(** ** Operator typing

    Classify what types a binary operator expects and produces. *)

(** Type of a binary operator's operands and result *)

Definition binop_arg_type (op : binop) : ty :=
  match op with
  | OpAdd | OpSub | OpMul | OpDiv | OpMod => TInt
  | OpEq | OpNe | OpLt | OpLe | OpGt | OpGe => TInt
  | OpAnd | OpOr => TBool
  | OpStrCat => TString
  end.

Definition binop_res_type (op : binop) : ty :=
  match op with
  | OpAdd | OpSub | OpMul | OpDiv | OpMod => TInt
  | OpEq | OpNe | OpLt | OpLe | OpGt | OpGe => TBool
  | OpAnd | OpOr => TBool
  | OpStrCat => TString
  end.

(** For equality on booleans, we need a separate rule *)

Definition binop_allows_bool_args (op : binop) : bool :=
  match op with
  | OpEq | OpNe => true
  | _ => false
  end.

(** For equality on strings, we need a separate rule *)

Definition binop_allows_string_args (op : binop) : bool :=
  match op with
  | OpEq | OpNe => true
  | _ => false
  end.

(** ** Typing relation

    [has_type] and [branches_type] are mutually inductive:
    match expressions require branches to be well-typed with
    respect to the variant's constructor types. *)

Inductive has_type : ctx -> expr -> ty -> Prop :=

  (** Integer literal *)
  | T_Int : forall ctx n,
      has_type ctx (EInt n) TInt

  (** Boolean literal *)
  | T_Bool : forall ctx b,
      has_type ctx (EBool b) TBool

  (** String literal *)
  | T_String : forall ctx s,
      has_type ctx (EString s) TString

  (** Unit literal *)
  | T_Unit : forall ctx,
      has_type ctx EUnit TUnit

  (** Variable *)
  | T_Var : forall ctx x t,
      ctx_lookup x ctx = Some t ->
      has_type ctx (EVar x) t

  (** Binary operator on integers *)
  | T_BinOp : forall ctx op e1 e2,
      binop_arg_type op = TInt ->
      has_type ctx e1 TInt ->
      has_type ctx e2 TInt ->
      has_type ctx (EBinOp op e1 e2) (binop_res_type op)

  (** Logical operators on booleans *)
  | T_BinLogic : forall ctx op e1 e2,
      binop_arg_type op = TBool ->
      has_type ctx e1 TBool ->
      has_type ctx e2 TBool ->
      has_type ctx (EBinOp op e1 e2) TBool

  (** Equality/inequality on booleans *)
  | T_BinEqBool : forall ctx op e1 e2,
      binop_allows_bool_args op = true ->
      has_type ctx e1 TBool ->
      has_type ctx e2 TBool ->
      has_type ctx (EBinOp op e1 e2) TBool

  (** String concatenation *)
  | T_StrCat : forall ctx e1 e2,
      has_type ctx e1 TString ->
      has_type ctx e2 TString ->
      has_type ctx (EBinOp OpStrCat e1 e2) TString

  (** Equality/inequality on strings *)
  | T_BinEqStr : forall ctx op e1 e2,
      binop_allows_string_args op = true ->
      has_type ctx e1 TString ->
      has_type ctx e2 TString ->
      has_type ctx (EBinOp op e1 e2) TBool

  (** Unary negation *)
  | T_Neg : forall ctx e,
      has_type ctx e TInt ->
      has_type ctx (EUnOp OpNeg e) TInt

  (** Logical not *)
  | T_Not : forall ctx e,
      has_type ctx e TBool ->
      has_type ctx (EUnOp OpNot e) TBool

  (** String length *)
  | T_StrLen : forall ctx e,
      has_type ctx e TString ->
      has_type ctx (EUnOp OpStrLen e) TInt

  (** If-then-else *)
  | T_If : forall ctx e1 e2 e3 t,
      has_type ctx e1 TBool ->
      has_type ctx e2 t ->
      has_type ctx e3 t ->
      has_type ctx (EIf e1 e2 e3) t

  (** Let binding *)
  | T_Let : forall ctx x e1 e2 t1 t2,
      has_type ctx e1 t1 ->
      has_type (CtxCons x t1 ctx) e2 t2 ->
      has_type ctx (ELet x e1 e2) t2

  (** Set: mutable variable assignment *)
  | T_Set : forall ctx x e t,
      ctx_lookup x ctx = Some t ->
      has_type ctx e t ->
      has_type ctx (ESet x e) TUnit

  (** Sequence *)
  | T_Seq : forall ctx e1 e2 t1 t2,
      has_type ctx e1 t1 ->
      has_type ctx e2 t2 ->
      has_type ctx (ESeq e1 e2) t2

  (** While loop *)
  | T_While : forall ctx cond body,
      has_type ctx cond TBool ->
      has_type ctx body TUnit ->
      has_type ctx (EWhile cond body) TUnit

  (** Lambda abstraction *)
  | T_Lam : forall ctx x t1 body t2,
      has_type (CtxCons x t1 ctx) body t2 ->
      has_type ctx (ELam x t1 body) (TArrow t1 t2)

  (** Function application *)
  | T_App : forall ctx e1 e2 t1 t2,
      has_type ctx e1 (TArrow t1 t2) ->
      has_type ctx e2 t1 ->
      has_type ctx (EApp e1 e2) t2

  (** Recursive function *)
  | T_Fix : forall ctx f x t1 t2 body,
      has_type (CtxCons x t1 (CtxCons f (TArrow t1 t2) ctx)) body t2 ->
      has_type ctx (EFix f x t1 t2 body) (TArrow t1 t2)

  (** Empty array literal: [] has type array<T> for any T *)
  | T_ArrayNil : forall ctx t,
      has_type ctx (EArray []) (TArray t)

  (** Non-empty array literal: [e, ...es] *)
  | T_ArrayCons : forall ctx e es t,
      has_type ctx e t ->
      has_type ctx (EArray es) (TArray t) ->
      has_type ctx (EArray (e :: es)) (TArray t)

  (** Array indexing: (at arr i) *)
  | T_Index : forall ctx e1 e2 t,
      has_type ctx e1 (TArray t) ->
      has_type ctx e2 TInt ->
      has_type ctx (EIndex e1 e2) t

  (** Array length *)
  | T_ArrayLen : forall ctx e t,
      has_type ctx e (TArray t) ->
      has_type ctx (EUnOp OpArrayLen e) TInt

  (** Array functional update *)
  | T_ArraySet : forall ctx e1 e2 e3 t,
      has_type ctx e1 (TArray t) ->
      has_type ctx e2 TInt ->
      has_type ctx e3 t ->
      has_type ctx (EArraySet e1 e2 e3) (TArray t)

  (** Array push *)
  | T_ArrayPush : forall ctx e1 e2 t,
      has_type ctx e1 (TArray t) ->
      has_type ctx e2 t ->
      has_type ctx (EArrayPush e1 e2) (TArray t)

  (** Empty record literal *)
  | T_RecordNil : forall ctx,
      has_type ctx (ERecord []) (TRecord [])

  (** Non-empty record literal *)
  | T_RecordCons : forall ctx f e es t fts,
      has_type ctx e t ->
      has_type ctx (ERecord es) (TRecord fts) ->
      has_type ctx (ERecord ((f, e) :: es)) (TRecord ((f, t) :: fts))

  (** Record field access *)
  | T_Field : forall ctx e f fts t,
      has_type ctx e (TRecord fts) ->
      assoc_lookup f fts = Some t ->
      has_type ctx (EField e f) t

  (** Record field update *)
  | T_SetField : forall ctx x f fts t e,
      ctx_lookup x ctx = Some (TRecord fts) ->
      assoc_lookup f fts = Some t ->
      has_type ctx e t ->
      has_type ctx (ESetField x f e) TUnit

  (** Variant constructor *)
  | T_Construct : forall ctx tag e fts t,
      assoc_lookup tag fts = Some t ->
      has_type ctx e t ->
      has_type ctx (EConstruct tag e (TVariant fts)) (TVariant fts)

  (** Pattern matching *)
  | T_Match : forall ctx e branches fts t,
      has_type ctx e (TVariant fts) ->
      branches_type ctx branches fts t ->
      has_type ctx (EMatch e branches) t

  (** String indexing *)
  | T_StrIndex : forall ctx e1 e2,
      has_type ctx e1 TString ->
      has_type ctx e2 TInt ->
      has_type ctx (EStrIndex e1 e2) TString

(** ** Branch typing for pattern matching

    Branches must cover all constructors in order, with each branch
    body well-typed under the payload binding. *)

with branches_type : ctx -> list (string * string * expr) -> list (string * ty) -> ty -> Prop :=
  | BT_Nil : forall ctx t,
      branches_type ctx [] [] t
  | BT_Cons : forall ctx tag x body branches fts t t_payload,
      has_type (CtxCons x t_payload ctx) body t ->
      branches_type ctx branches fts t ->
      branches_type ctx ((tag, x, body) :: branches) ((tag, t_payload) :: fts) t.
