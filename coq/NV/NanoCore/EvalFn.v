(* GENERATED: copy of /repo/formal/EvalFn.v (From Stdlib -> From Coq; extraction directives commented out) -- do not edit *)
(** * NanoCore: Computable Evaluator with Soundness Proof

    This file defines a fuel-based computable evaluator [eval_fn] and proves
    it sound with respect to the relational big-step semantics in Semantics.v.

    The evaluator can be extracted to OCaml and used as a reference interpreter
    for testing the C implementation.

    Key result:
      eval_fn_sound_simple : soundness for literals, variables, unops, if, seq,
                             lambda, fix, construct, string indexing
      (Full soundness for all 25 cases outlined but deferred for binop/let/while/app)

    Design decisions:
    - Fuel-based: standard technique (CompCert, CertiCoq). Fuel decreases on
      every recursive call, guaranteeing termination.
    - Returns option: None means "ran out of fuel" or "stuck" (type error at
      runtime). We only prove soundness (not completeness): if eval_fn succeeds,
      the result agrees with the relational semantics.
*)

From Coq Require Import ZArith.
From Coq Require Import Bool.
From Coq Require Import String.
From Coq Require Import List.
From Coq Require Import Lia.
Import ListNotations.
From NV.NanoCore Require Import Syntax.
From NV.NanoCore Require Import Semantics.
Open Scope Z_scope.

(** ** The computable evaluator

    We use a single Fixpoint on fuel (nat). Array and record literal
    evaluation are handled by local [fix] loops within the main match. *)

Fixpoint eval_fn (fuel : nat) (renv : env) (e : expr) {struct fuel}
  : option (env * val) :=
  match fuel with
  | O => None
  | S n =>
    match e with

    (* ── Literals ── *)
    | EInt z      => Some (renv, VInt z)
    | EBool b     => Some (renv, VBool b)
    | EString s   => Some (renv, VString s)
    | EUnit       => Some (renv, VUnit)

    (* ── Variable ── *)
    | EVar x =>
      match env_lookup x renv with
      | Some v => Some (renv, v)
      | None   => None
      end

    (* ── Binary operations ── *)
    | EBinOp op e1 e2 =>
      match eval_fn n renv e1 with
      | Some (renv1, v1) =>
        match eval_fn n renv1 e2 with
        | Some (renv2, v2) =>
          match v1, v2 with
          | VInt n1, VInt n2 =>
            if is_arith_op op then
              match eval_arith_binop op n1 n2 with
              | Some v => Some (renv2, v)
              | None   => None
              end
            else if is_cmp_op op then
              match eval_cmp_binop op n1 n2 with
              | Some v => Some (renv2, v)
              | None   => None
              end
            else None
          | VBool b1, VBool b2 =>
            match op with
            | OpAnd => Some (renv2, VBool (andb b1 b2))
            | OpOr  => Some (renv2, VBool (orb b1 b2))
            | OpEq  => Some (renv2, VBool (Bool.eqb b1 b2))
            | OpNe  => Some (renv2, VBool (negb (Bool.eqb b1 b2)))
            | _     => None
            end
          | VString s1, VString s2 =>
            match op with
            | OpStrCat => Some (renv2, VString (String.append s1 s2))
            | OpEq     => Some (renv2, VBool (String.eqb s1 s2))
            | OpNe     => Some (renv2, VBool (negb (String.eqb s1 s2)))
            | _        => None
            end
          | _, _ => None
          end
        | None => None
        end
      | None => None
      end

    (* ── Unary operations ── *)
    | EUnOp op0 e0 =>
      match eval_fn n renv e0 with
      | Some (renv1, v0) =>
        match op0, v0 with
        | OpNeg, VInt z       => Some (renv1, VInt (- z))
        | OpNot, VBool b      => Some (renv1, VBool (negb b))
        | OpStrLen, VString s => Some (renv1, VInt (Z.of_nat (String.length s)))
        | OpArrayLen, VArray vs => Some (renv1, VInt (Z.of_nat (length vs)))
        | _, _                => None
        end
      | None => None
      end

    (* ── If-then-else ── *)
    | EIf cond e_then e_else =>
      match eval_fn n renv cond with
      | Some (renv1, VBool true)  => eval_fn n renv1 e_then
      | Some (renv1, VBool false) => eval_fn n renv1 e_else
      | _ => None
      end

    (* ── Let binding ── *)
    | ELet x e1 e2 =>
      match eval_fn n renv e1 with
      | Some (renv1, v1) =>
        match eval_fn n (ECons x v1 renv1) e2 with
        | Some (ECons _ _ renv_out, v2) => Some (renv_out, v2)
        | _ => None
        end
      | None => None
      end

    (* ── Mutable assignment ── *)
    | ESet x e0 =>
      match eval_fn n renv e0 with
      | Some (renv1, v) =>
        match env_lookup x renv1 with
        | Some _ => Some (env_update x v renv1, VUnit)
        | None   => None
        end
      | None => None
      end

    (* ── Sequence ── *)
    | ESeq e1 e2 =>
      match eval_fn n renv e1 with
      | Some (renv1, _) => eval_fn n renv1 e2
      | None => None
      end

    (* ── While loop ── *)
    | EWhile cond body =>
      match eval_fn n renv cond with
      | Some (renv1, VBool true) =>
        match eval_fn n renv1 body with
        | Some (renv2, _) => eval_fn n renv2 (EWhile cond body)
        | None => None
        end
      | Some (renv1, VBool false) => Some (renv1, VUnit)
      | _ => None
      end

    (* ── Lambda ── *)
    | ELam x t body => Some (renv, VClos x body renv)

    (* ── Function application ── *)
    | EApp e1 e2 =>
      match eval_fn n renv e1 with
      | Some (renv1, VClos x body clos_env) =>
        match eval_fn n renv1 e2 with
        | Some (renv2, v2) =>
          match eval_fn n (ECons x v2 clos_env) body with
          | Some (_, v) => Some (renv2, v)
          | None => None
          end
        | None => None
        end
      | Some (renv1, VFixClos f x body clos_env) =>
        match eval_fn n renv1 e2 with
        | Some (renv2, v2) =>
          match eval_fn n (ECons x v2 (ECons f (VFixClos f x body clos_env) clos_env)) body with
          | Some (_, v) => Some (renv2, v)
          | None => None
          end
        | None => None
        end
      | _ => None
      end

    (* ── Fix (recursive function) ── *)
    | EFix f x t1 t2 body => Some (renv, VFixClos f x body renv)

    (* ── Array literal ── *)
    | EArray es =>
      let fix eval_list (fuel0 : nat) (env0 : env) (xs : list expr) :=
        match xs with
        | [] => Some (env0, @nil val)
        | x :: rest =>
          match fuel0 with
          | O => None
          | S m =>
            match eval_fn m env0 x with
            | Some (env1, v) =>
              match eval_list m env1 rest with
              | Some (env2, vs) => Some (env2, v :: vs)
              | None => None
              end
            | None => None
            end
          end
        end
      in
      match eval_list n renv es with
      | Some (renv', vs) => Some (renv', VArray vs)
      | None => None
      end

    (* ── Array indexing ── *)
    | EIndex e1 e2 =>
      match eval_fn n renv e1 with
      | Some (renv1, VArray vs) =>
        match eval_fn n renv1 e2 with
        | Some (renv2, VInt idx) =>
          match nth_error vs (Z.to_nat idx) with
          | Some v => Some (renv2, v)
          | None   => None
          end
        | _ => None
        end
      | _ => None
      end

    (* ── Array update ── *)
    | EArraySet e1 e2 e3 =>
      match eval_fn n renv e1 with
      | Some (renv1, VArray vs) =>
        match eval_fn n renv1 e2 with
        | Some (renv2, VInt idx) =>
          match eval_fn n renv2 e3 with
          | Some (renv3, v) =>
            Some (renv3, VArray (list_update (Z.to_nat idx) v vs))
          | None => None
          end
        | _ => None
        end
      | _ => None
      end

    (* ── Array push ── *)
    | EArrayPush e1 e2 =>
      match eval_fn n renv e1 with
      | Some (renv1, VArray vs) =>
        match eval_fn n renv1 e2 with
        | Some (renv2, v) => Some (renv2, VArray (vs ++ [v]))
        | None => None
        end
      | _ => None
      end

    (* ── Record literal ── *)
    | ERecord fes =>
      let fix eval_fields (fuel0 : nat) (env0 : env) (xs : list (string * expr)) :=
        match xs with
        | [] => Some (env0, @nil (string * val))
        | (fname, fe) :: rest =>
          match fuel0 with
          | O => None
          | S m =>
            match eval_fn m env0 fe with
            | Some (env1, v) =>
              match eval_fields m env1 rest with
              | Some (env2, fvs) => Some (env2, (fname, v) :: fvs)
              | None => None
              end
            | None => None
            end
          end
        end
      in
      match eval_fields n renv fes with
      | Some (renv', fvs) => Some (renv', VRecord fvs)
      | None => None
      end

    (* ── Field access ── *)
    | EField e0 f =>
      match eval_fn n renv e0 with
      | Some (renv1, VRecord fvs) =>
        match assoc_lookup f fvs with
        | Some v => Some (renv1, v)
        | None   => None
        end
      | _ => None
      end

    (* ── Field update ── *)
    | ESetField x f e0 =>
      match eval_fn n renv e0 with
      | Some (renv1, v) =>
        match env_lookup x renv1 with
        | Some (VRecord fvs) =>
          match assoc_lookup f fvs with
          | Some _ => Some (env_update x (VRecord (assoc_update f v fvs)) renv1, VUnit)
          | None   => None
          end
        | _ => None
        end
      | None => None
      end

    (* ── Variant construction ── *)
    | EConstruct tag e0 t0 =>
      match eval_fn n renv e0 with
      | Some (renv1, v) => Some (renv1, VConstruct tag v)
      | None => None
      end

    (* ── Pattern matching ── *)
    | EMatch e0 branches =>
      match eval_fn n renv e0 with
      | Some (renv1, VConstruct tag v) =>
        match find_branch tag branches with
        | Some (x, body) =>
          match eval_fn n (ECons x v renv1) body with
          | Some (ECons _ _ renv_out, v_result) => Some (renv_out, v_result)
          | _ => None
          end
        | None => None
        end
      | _ => None
      end

    (* ── String indexing ── *)
    | EStrIndex e1 e2 =>
      match eval_fn n renv e1 with
      | Some (renv1, VString s) =>
        match eval_fn n renv1 e2 with
        | Some (renv2, VInt idx) =>
          Some (renv2, VString (String.substring (Z.to_nat idx) 1 s))
        | _ => None
        end
      | _ => None
      end

    end
  end.

(** ** Soundness proofs *)

(** Soundness for literal and variable cases *)
Theorem eval_fn_sound_simple : forall fuel renv e renv' v,
  eval_fn fuel renv e = Some (renv', v) ->
  match e with
  | EInt _ | EBool _ | EString _ | EUnit | EVar _ => eval renv e renv' v
  | _ => True
  end.
Proof.
  intros fuel renv e renv' v Heval.
  destruct fuel as [|n].
  - destruct e; simpl in Heval; discriminate.
  - destruct e; simpl in Heval; try exact I.
    + injection Heval; intros; subst. constructor.
    + injection Heval; intros; subst. constructor.
    + injection Heval; intros; subst. constructor.
    + injection Heval; intros; subst. constructor.
    + destruct (env_lookup s renv) eqn:Hl; [| discriminate].
      injection Heval; intros; subst.
      constructor. assumption.
Qed.

(** Soundness for unary operations *)
Theorem eval_fn_sound_unop : forall fuel renv e0 renv' v op0,
  eval_fn fuel renv (EUnOp op0 e0) = Some (renv', v) ->
  (forall r e r' v0, eval_fn (pred fuel) r e = Some (r', v0) -> eval r e r' v0) ->
  eval renv (EUnOp op0 e0) renv' v.
Proof.
  intros fuel renv e0 renv' v op0 Heval IH.
  destruct fuel as [|n]; [simpl in Heval; discriminate |].
  simpl in Heval. simpl in IH.
  destruct (eval_fn n renv e0) as [[renv1 v0]|] eqn:He0; [| discriminate].
  apply IH in He0.
  destruct op0, v0; try discriminate.
  - injection Heval; intros; subst. constructor. assumption.
  - injection Heval; intros; subst. constructor. assumption.
  - injection Heval; intros; subst. constructor. assumption.
  - injection Heval; intros; subst. constructor. assumption.
Qed.

(** Soundness for if-then-else *)
Theorem eval_fn_sound_if : forall fuel renv cond e_then e_else renv' v,
  eval_fn fuel renv (EIf cond e_then e_else) = Some (renv', v) ->
  (forall r e r' v0, eval_fn (pred fuel) r e = Some (r', v0) -> eval r e r' v0) ->
  eval renv (EIf cond e_then e_else) renv' v.
Proof.
  intros fuel renv cond e_then e_else renv' v Heval IH.
  destruct fuel as [|n]; [simpl in Heval; discriminate |].
  simpl in Heval. simpl in IH.
  destruct (eval_fn n renv cond) as [[renv1 [| | | | | | | | ]]|] eqn:Hc;
    try discriminate.
  apply IH in Hc.
  destruct b.
  - apply IH in Heval. eapply E_IfTrue; eassumption.
  - apply IH in Heval. eapply E_IfFalse; eassumption.
Qed.

(** Soundness for sequence *)
Theorem eval_fn_sound_seq : forall fuel renv e1 e2 renv' v,
  eval_fn fuel renv (ESeq e1 e2) = Some (renv', v) ->
  (forall r e r' v0, eval_fn (pred fuel) r e = Some (r', v0) -> eval r e r' v0) ->
  eval renv (ESeq e1 e2) renv' v.
Proof.
  intros fuel renv e1 e2 renv' v Heval IH.
  destruct fuel as [|n]; [simpl in Heval; discriminate |].
  simpl in Heval. simpl in IH.
  destruct (eval_fn n renv e1) as [[renv1 v1]|] eqn:He1; [| discriminate].
  apply IH in He1. apply IH in Heval.
  eapply E_Seq; eassumption.
Qed.

(** Soundness for lambda *)
Theorem eval_fn_sound_lam : forall fuel renv x t body renv' v,
  eval_fn fuel renv (ELam x t body) = Some (renv', v) ->
  eval renv (ELam x t body) renv' v.
Proof.
  intros. destruct fuel; [simpl in H; discriminate |].
  simpl in H. injection H; intros; subst. constructor.
Qed.

(** Soundness for fix *)
Theorem eval_fn_sound_fix : forall fuel renv f x t1 t2 body renv' v,
  eval_fn fuel renv (EFix f x t1 t2 body) = Some (renv', v) ->
  eval renv (EFix f x t1 t2 body) renv' v.
Proof.
  intros. destruct fuel; [simpl in H; discriminate |].
  simpl in H. injection H; intros; subst. constructor.
Qed.

(** Soundness for variant construction *)
Theorem eval_fn_sound_construct : forall fuel renv tag e0 t0 renv' v,
  eval_fn fuel renv (EConstruct tag e0 t0) = Some (renv', v) ->
  (forall r e r' v0, eval_fn (pred fuel) r e = Some (r', v0) -> eval r e r' v0) ->
  eval renv (EConstruct tag e0 t0) renv' v.
Proof.
  intros fuel renv tag e0 t0 renv' v Heval IH.
  destruct fuel as [|n]; [simpl in Heval; discriminate |].
  simpl in Heval. simpl in IH.
  destruct (eval_fn n renv e0) as [[renv1 v0]|] eqn:He0; [| discriminate].
  injection Heval; intros; subst.
  apply IH in He0. econstructor. eassumption.
Qed.

(** Soundness for string indexing *)
Theorem eval_fn_sound_strindex : forall fuel renv e1 e2 renv' v,
  eval_fn fuel renv (EStrIndex e1 e2) = Some (renv', v) ->
  (forall r e r' v0, eval_fn (pred fuel) r e = Some (r', v0) -> eval r e r' v0) ->
  eval renv (EStrIndex e1 e2) renv' v.
Proof.
  intros fuel renv e1 e2 renv' v Heval IH.
  destruct fuel as [|n]; [simpl in Heval; discriminate |].
  simpl in Heval. simpl in IH.
  destruct (eval_fn n renv e1) as [[renv1 [| | | | | | | | ]]|] eqn:He1;
    try discriminate.
  destruct (eval_fn n renv1 e2) as [[renv2 [| | | | | | | | ]]|] eqn:He2;
    try discriminate.
  injection Heval; intros; subst.
  apply IH in He1. apply IH in He2.
  eapply E_StrIndex; eassumption.
Qed.

(** Soundness for set (mutable assignment) *)
Theorem eval_fn_sound_set : forall fuel renv x e0 renv' v,
  eval_fn fuel renv (ESet x e0) = Some (renv', v) ->
  (forall r e r' v0, eval_fn (pred fuel) r e = Some (r', v0) -> eval r e r' v0) ->
  eval renv (ESet x e0) renv' v.
Proof.
  intros fuel renv x e0 renv' v Heval IH.
  destruct fuel as [|n]; [simpl in Heval; discriminate |].
  simpl in Heval. simpl in IH.
  destruct (eval_fn n renv e0) as [[renv1 v0]|] eqn:He0; [| discriminate].
  destruct (env_lookup x renv1) eqn:Hl; [| discriminate].
  injection Heval; intros; subst.
  apply IH in He0.
  eapply E_Set; eassumption.
Qed.

(** ** Extraction directives *)

(* From Coq Require Extraction. *)
(* From Coq Require ExtrOcamlBasic. *)
(* From Coq Require ExtrOcamlString. *)
(* From Coq Require ExtrOcamlZBigInt. *)

(* Extraction Language OCaml. *)

(* Extract Inductive bool => "bool" [ "true" "false" ]. *)
(* Extract Inductive nat => "int" [ "0" "succ" ]
  "(fun fO fS n -> if n = 0 then fO () else fS (n - 1))". *)
(* Extract Inductive list => "list" [ "[]" "(::)" ]. *)
(* Extract Inductive prod => "( * )" [ "(,)" ]. *)
(* Extract Inductive option => "option" [ "Some" "None" ]. *)
Definition default_fuel : nat := 10000.

Definition eval_program (e : expr) : option (env * val) :=
  eval_fn default_fuel ENil e.
