(* GENERATED: copy of /repo/formal/Syntax.v (From Stdlib -> From Coq; extraction directives commented out) -- do not edit *)
(** * NanoCore: Abstract Syntax

    This file defines the abstract syntax for NanoCore, a minimal subset
    of NanoLang used for formal verification. NanoCore includes:
    - Integer, boolean, string, and unit literals
    - Binary operators (arithmetic, comparison, logical, string)
    - Unary operators (negation, logical not, string length)
    - If/then/else expressions
    - Let bindings
    - Mutable variable assignment (set)
    - Sequential composition and while loops
    - Lambda abstractions and function application
    - Recursive functions (fix)
    - Array literals, indexing, length, update, and push
    - Record (struct) literals, field access, and field update
    - Variant types and pattern matching
    - String indexing
*)

From Coq Require Import ZArith.
From Coq Require Import String.
From Coq Require Import List.
Import ListNotations.
Open Scope string_scope.

(** ** Types *)

Inductive ty : Type :=
  | TInt     : ty                             (* int *)
  | TBool    : ty                             (* bool *)
  | TString  : ty                             (* string *)
  | TUnit    : ty                             (* unit *)
  | TArrow   : ty -> ty -> ty                 (* function type: T1 -> T2 *)
  | TArray   : ty -> ty                       (* array type: array<T> *)
  | TRecord  : list (string * ty) -> ty       (* record type: {f1: T1, ..., fn: Tn} *)
  | TVariant : list (string * ty) -> ty.      (* variant type: Tag1(T1) | ... | Tagn(Tn) *)

(** ** Binary operators *)

Inductive binop : Type :=
  (* Arithmetic *)
  | OpAdd   : binop    (* + *)
  | OpSub   : binop    (* - *)
  | OpMul   : binop    (* * *)
  | OpDiv   : binop    (* / *)
  | OpMod   : binop    (* % *)
  (* Comparison *)
  | OpEq    : binop    (* == *)
  | OpNe    : binop    (* != *)
  | OpLt    : binop    (* < *)
  | OpLe    : binop    (* <= *)
  | OpGt    : binop    (* > *)
  | OpGe    : binop    (* >= *)
  (* Logical *)
  | OpAnd   : binop    (* and *)
  | OpOr    : binop    (* or *)
  (* String *)
  | OpStrCat : binop.  (* string concatenation: + on strings *)

(** ** Unary operators *)

Inductive unop : Type :=
  | OpNeg    : unop     (* unary minus *)
  | OpNot    : unop     (* not *)
  | OpStrLen : unop     (* string length: str_length *)
  | OpArrayLen : unop.  (* array length: array_length *)

(** ** Expressions *)

Inductive expr : Type :=
  | EInt       : Z -> expr                              (* integer literal *)
  | EBool      : bool -> expr                           (* boolean literal *)
  | EString    : string -> expr                         (* string literal *)
  | EUnit      : expr                                   (* unit literal *)
  | EVar       : string -> expr                         (* variable reference *)
  | EBinOp     : binop -> expr -> expr -> expr          (* binary operation *)
  | EUnOp      : unop -> expr -> expr                   (* unary operation *)
  | EIf        : expr -> expr -> expr -> expr           (* if cond then e1 else e2 *)
  | ELet       : string -> expr -> expr -> expr         (* let x = e1 in e2 *)
  | ESet       : string -> expr -> expr                 (* set x = e *)
  | ESeq       : expr -> expr -> expr                   (* e1; e2 *)
  | EWhile     : expr -> expr -> expr                   (* while cond do body *)
  | ELam       : string -> ty -> expr -> expr           (* fun (x : T) => body *)
  | EApp       : expr -> expr -> expr                   (* function application *)
  | EFix       : string -> string -> ty -> ty -> expr -> expr  (* fix f (x:T1):T2 = body *)
  | EArray     : list expr -> expr                      (* array literal: [e1, ..., en] *)
  | EIndex     : expr -> expr -> expr                   (* array indexing: (at arr i) *)
  | EArraySet  : expr -> expr -> expr -> expr           (* functional array update *)
  | EArrayPush : expr -> expr -> expr                   (* array push (append) *)
  | ERecord    : list (string * expr) -> expr           (* record literal *)
  | EField     : expr -> string -> expr                 (* field access: e.f *)
  | ESetField  : string -> string -> expr -> expr       (* set x.f = e *)
  | EConstruct : string -> expr -> ty -> expr           (* variant constructor: Tag(e) : T *)
  | EMatch     : expr -> list (string * string * expr) -> expr  (* match e { Tag x => body, ... } *)
  | EStrIndex  : expr -> expr -> expr.                  (* string indexing: s[i] *)

(** ** Values

    Values are the results of evaluation. They form a subset of expressions
    that cannot be reduced further. *)

Inductive val : Type :=
  | VInt       : Z -> val                               (* integer value *)
  | VBool      : bool -> val                            (* boolean value *)
  | VString    : string -> val                          (* string value *)
  | VUnit      : val                                    (* unit value *)
  | VClos      : string -> expr -> env -> val           (* closure: param, body, captured env *)
  | VFixClos   : string -> string -> expr -> env -> val (* fix closure: f, x, body, captured env *)
  | VArray     : list val -> val                        (* array value *)
  | VRecord    : list (string * val) -> val             (* record value *)
  | VConstruct : string -> val -> val                   (* variant value: tag, payload *)

(** ** Environments

    An environment maps variable names to values. We use a simple
    association list representation. *)

with env : Type :=
  | ENil    : env                                (* empty environment *)
  | ECons   : string -> val -> env -> env.       (* binding: x = v, rest *)

(** ** Environment lookup *)

Fixpoint env_lookup (x : string) (e : env) : option val :=
  match e with
  | ENil => None
  | ECons y v rest =>
    if String.eqb x y then Some v
    else env_lookup x rest
  end.

(** ** Environment update (for mutable variables)

    Updates the most recent binding of [x] in the environment.
    If [x] is not found, the environment is unchanged. *)

Fixpoint env_update (x : string) (v : val) (e : env) : env :=
  match e with
  | ENil => ENil
  | ECons y v' rest =>
    if String.eqb x y then ECons y v rest
    else ECons y v' (env_update x v rest)
  end.

(** ** Association list operations (polymorphic) *)

Fixpoint assoc_lookup {A : Type} (x : string) (l : list (string * A)) : option A :=
  match l with
  | [] => None
  | (y, v) :: rest => if String.eqb x y then Some v else assoc_lookup x rest
  end.

Fixpoint assoc_update {A : Type} (x : string) (v : A) (l : list (string * A)) : list (string * A) :=
  match l with
  | [] => []
  | (y, v') :: rest =>
    if String.eqb x y then (y, v) :: rest
    else (y, v') :: assoc_update x v rest
  end.

(** ** List update (functional) *)

Fixpoint list_update {A : Type} (n : nat) (v : A) (l : list A) : list A :=
  match l with
  | [] => []
  | x :: rest =>
    match n with
    | 0 => v :: rest
    | S n' => x :: list_update n' v rest
    end
  end.

(** ** Branch lookup for pattern matching *)

Fixpoint find_branch (tag : string) (branches : list (string * string * expr)) : option (string * expr) :=
  match branches with
  | [] => None
  | (t, x, body) :: rest =>
    if String.eqb tag t then Some (x, body)
    else find_branch tag rest
  end.

(** ** Type equality decidability *)

Lemma ty_eq_dec : forall (t1 t2 : ty), {t1 = t2} + {t1 <> t2}.
Proof.
  fix IH 1.
  intros [| | | | ta tb | ta | fs1 | vs1] [| | | | ta' tb' | ta' | fs2 | vs2];
    try (left; reflexivity); try (right; discriminate).
  - (* TArrow *)
    destruct (IH ta ta'); [| right; congruence].
    destruct (IH tb tb'); [| right; congruence].
    left; congruence.
  - (* TArray *)
    destruct (IH ta ta'); [| right; congruence].
    left; congruence.
  - (* TRecord *)
    enough ({fs1 = fs2} + {fs1 <> fs2}) as [->|];
      [left; reflexivity | right; congruence |].
    revert fs2.
    induction fs1 as [|[s1 t1] fs1' IHfs]; intros [|[s2 t2] fs2'].
    + left; reflexivity.
    + right; discriminate.
    + right; discriminate.
    + destruct (string_dec s1 s2); [subst | right; congruence].
      destruct (IH t1 t2); [subst | right; congruence].
      destruct (IHfs fs2'); [subst | right; congruence].
      left; reflexivity.
  - (* TVariant *)
    enough ({vs1 = vs2} + {vs1 <> vs2}) as [->|];
      [left; reflexivity | right; congruence |].
    revert vs2.
    induction vs1 as [|[s1 t1] vs1' IHvs]; intros [|[s2 t2] vs2'].
    + left; reflexivity.
    + right; discriminate.
    + right; discriminate.
    + destruct (string_dec s1 s2); [subst | right; congruence].
      destruct (IH t1 t2); [subst | right; congruence].
      destruct (IHvs vs2'); [subst | right; congruence].
      left; reflexivity.
Defined.

(** ** Decidable equality for binop *)

Lemma binop_eq_dec : forall (b1 b2 : binop), {b1 = b2} + {b1 <> b2}.
Proof.
  decide equality.
Defined.

(** ** Decidable equality for unop *)

Lemma unop_eq_dec : forall (u1 u2 : unop), {u1 = u2} + {u1 <> u2}.
Proof.
  decide equality.
Defined.
