(* GENERATED: copy of /repo/formal/Determinism.v (From Stdlib -> From Coq; extraction directives commented out) -- do not edit *)
(** * NanoCore: Determinism of Evaluation

    If a well-typed expression evaluates to two different results,
    they must be the same. This proves the evaluation relation is
    a partial function. *)

From Coq Require Import ZArith.
From Coq Require Import Bool.
From Coq Require Import String.
From Coq Require Import List.
Import ListNotations.
From NV.NanoCore Require Import Syntax.
From NV.NanoCore Require Import Semantics.
Open Scope Z_scope.
Open Scope string_scope.

(** ** Helper tactics *)

(** Apply one determinism IH to a matching eval hypothesis.
    Either solves the goal (via discriminate on value mismatch)
    or establishes equalities and substitutes. *)
Ltac det_step :=
  match goal with
  | [ IH : forall _ _, eval ?env ?e _ _ -> _ = _ /\ _ = _,
      H : eval ?env ?e _ _ |- _ ] =>
    let Hv := fresh "Hv" in let He := fresh "He" in
    destruct (IH _ _ H) as [Hv He]; clear IH; clear H;
    try discriminate Hv;
    try discriminate He;
    try (injection Hv; intros; subst; clear Hv);
    try (injection He; intros; subst; clear He);
    try subst
  end.

(** Resolve identical function applications producing Some *)
Ltac det_func :=
  match goal with
  | [ H1 : ?f = Some ?a, H2 : ?f = Some ?b |- _ ] =>
    rewrite H1 in H2; injection H2; intros; subst; clear H2
  end.

(** Contradiction: arith and cmp binops are disjoint *)
Ltac det_arith_cmp_contra :=
  match goal with
  | [ H1 : eval_arith_binop ?op _ _ = Some _,
      H2 : eval_cmp_binop ?op _ _ = Some _ |- _ ] =>
    destruct op; simpl in *; discriminate
  end.

(** Inject constructor equalities *)
Ltac det_inject :=
  repeat match goal with
  | [ H : ?C ?a ?b ?c ?d = ?C ?a' ?b' ?c' ?d' |- _ ] =>
      injection H; intros; subst; clear H
  | [ H : ?C ?a ?b ?c = ?C ?a' ?b' ?c' |- _ ] =>
      injection H; intros; subst; clear H
  | [ H : ?C ?a ?b = ?C ?a' ?b' |- _ ] =>
      injection H; intros; subst; clear H
  | [ H : ?C ?a = ?C ?a' |- _ ] =>
      injection H; intros; subst; clear H
  end.

(** One IH step + resolve non-eval premises.
    Interleaving is needed for rules like E_Match where
    find_branch introduces variables between eval premises:
    the second IH cannot match until find_branch is resolved. *)
Ltac det_step_full :=
  det_step; repeat det_func; det_inject; repeat det_func.

(** Combined solver *)
Ltac det_solve :=
  repeat det_step_full;
  try det_arith_cmp_contra;
  try (exfalso; congruence);
  try (split; reflexivity);
  try (split; congruence).

(** ** Determinism Theorem *)

Theorem eval_deterministic : forall renv e renv' v,
  eval renv e renv' v ->
  forall renv'' v',
  eval renv e renv'' v' ->
  v = v' /\ renv' = renv''.
Proof.
  intros renv e renv' v Heval.
  induction Heval; intros renv'' v' H2;
    inversion H2; subst; clear H2; det_solve.
Qed.
