(* GENERATED: copy of /repo/formal/Semantics.v (From Stdlib -> From Coq; extraction directives commented out) -- do not edit *)
(** * NanoCore: Big-Step Operational Semantics

    This file defines the big-step (natural) evaluation semantics for NanoCore.
    The evaluation relation is:
      eval env e env' v  ===  "expression e evaluates to value v,
                               transforming environment env into env'"

    Key properties:
    - Eager evaluation (call-by-value)
    - Deterministic (each expression has at most one value)
    - Lexical scoping via closures
    - Mutable variables via environment update (store-passing style)
    - While loops via inductive unfolding
*)

From Coq Require Import ZArith.
From Coq Require Import Bool.
From Coq Require Import String.
From Coq Require Import List.
Import ListNotations.
From NV.NanoCore Require Import Syntax.
Open Scope Z_scope.

(** ** Arithmetic operator application *)

Definition eval_arith_binop (op : binop) (n1 n2 : Z) : option val :=
  match op with
  | OpAdd => Some (VInt (n1 + n2))
  | OpSub => Some (VInt (n1 - n2))
  | OpMul => Some (VInt (n1 * n2))
  | OpDiv => if Z.eqb n2 0 then None else Some (VInt (Z.div n1 n2))
  | OpMod => if Z.eqb n2 0 then None else Some (VInt (Z.modulo n1 n2))
  | _ => None
  end.

(** ** Comparison operator application *)

Definition eval_cmp_binop (op : binop) (n1 n2 : Z) : option val :=
  match op with
  | OpEq => Some (VBool (Z.eqb n1 n2))
  | OpNe => Some (VBool (negb (Z.eqb n1 n2)))
  | OpLt => Some (VBool (Z.ltb n1 n2))
  | OpLe => Some (VBool (Z.leb n1 n2))
  | OpGt => Some (VBool (Z.ltb n2 n1))
  | OpGe => Some (VBool (Z.leb n2 n1))
  | _ => None
  end.

(** ** Classify operator kinds *)

Definition is_arith_op (op : binop) : bool :=
  match op with
  | OpAdd | OpSub | OpMul | OpDiv | OpMod => true
  | _ => false
  end.

Definition is_cmp_op (op : binop) : bool :=
  match op with
  | OpEq | OpNe | OpLt | OpLe | OpGt | OpGe => true
  | _ => false
  end.

Definition is_logic_op (op : binop) : bool :=
  match op with
  | OpAnd | OpOr => true
  | _ => false
  end.

Definition is_string_op (op : binop) : bool :=
  match op with
  | OpStrCat => true
  | _ => false
  end.

(** ** Big-step evaluation relation

    [eval env e env' v] means that expression [e] evaluates to value [v]
    in environment [env], producing updated environment [env'].

    Pure expressions leave the environment unchanged (env' = env).
    Mutation (set) and sequencing thread environment changes. *)

Inductive eval : env -> expr -> env -> val -> Prop :=

  (** Integer literal *)
  | E_Int : forall renv n,
      eval renv (EInt n) renv (VInt n)

  (** Boolean literal *)
  | E_Bool : forall renv b,
      eval renv (EBool b) renv (VBool b)

  (** String literal *)
  | E_String : forall renv s,
      eval renv (EString s) renv (VString s)

  (** Unit literal *)
  | E_Unit : forall renv,
      eval renv EUnit renv VUnit

  (** Variable lookup *)
  | E_Var : forall renv x v,
      env_lookup x renv = Some v ->
      eval renv (EVar x) renv v

  (** Arithmetic binary operations: int op int -> int *)
  | E_BinArith : forall renv renv1 renv2 op e1 e2 n1 n2 v,
      eval renv e1 renv1 (VInt n1) ->
      eval renv1 e2 renv2 (VInt n2) ->
      eval_arith_binop op n1 n2 = Some v ->
      eval renv (EBinOp op e1 e2) renv2 v

  (** Comparison operations: int op int -> bool *)
  | E_BinCmp : forall renv renv1 renv2 op e1 e2 n1 n2 v,
      eval renv e1 renv1 (VInt n1) ->
      eval renv1 e2 renv2 (VInt n2) ->
      eval_cmp_binop op n1 n2 = Some v ->
      eval renv (EBinOp op e1 e2) renv2 v

  (** Equality on booleans: bool op bool -> bool *)
  | E_BinEqBool : forall renv renv1 renv2 op e1 e2 b1 b2,
      eval renv e1 renv1 (VBool b1) ->
      eval renv1 e2 renv2 (VBool b2) ->
      op = OpEq ->
      eval renv (EBinOp op e1 e2) renv2 (VBool (Bool.eqb b1 b2))

  (** Inequality on booleans *)
  | E_BinNeBool : forall renv renv1 renv2 op e1 e2 b1 b2,
      eval renv e1 renv1 (VBool b1) ->
      eval renv1 e2 renv2 (VBool b2) ->
      op = OpNe ->
      eval renv (EBinOp op e1 e2) renv2 (VBool (negb (Bool.eqb b1 b2)))

  (** String concatenation *)
  | E_StrCat : forall renv renv1 renv2 e1 e2 s1 s2,
      eval renv e1 renv1 (VString s1) ->
      eval renv1 e2 renv2 (VString s2) ->
      eval renv (EBinOp OpStrCat e1 e2) renv2 (VString (String.append s1 s2))

  (** String equality *)
  | E_BinEqStr : forall renv renv1 renv2 op e1 e2 s1 s2,
      eval renv e1 renv1 (VString s1) ->
      eval renv1 e2 renv2 (VString s2) ->
      op = OpEq ->
      eval renv (EBinOp op e1 e2) renv2 (VBool (String.eqb s1 s2))

  (** String inequality *)
  | E_BinNeStr : forall renv renv1 renv2 op e1 e2 s1 s2,
      eval renv e1 renv1 (VString s1) ->
      eval renv1 e2 renv2 (VString s2) ->
      op = OpNe ->
      eval renv (EBinOp op e1 e2) renv2 (VBool (negb (String.eqb s1 s2)))

  (** Logical AND (short-circuit) *)
  | E_And_True : forall renv renv1 renv2 e1 e2 v2,
      eval renv e1 renv1 (VBool true) ->
      eval renv1 e2 renv2 (VBool v2) ->
      eval renv (EBinOp OpAnd e1 e2) renv2 (VBool v2)

  | E_And_False : forall renv renv1 e1,
      eval renv e1 renv1 (VBool false) ->
      eval renv (EBinOp OpAnd e1 (EBool false)) renv1 (VBool false)

  (** Short-circuit AND: if left is false, result is false regardless of right *)
  | E_And_Short : forall renv renv1 e1 e2,
      eval renv e1 renv1 (VBool false) ->
      eval renv (EBinOp OpAnd e1 e2) renv1 (VBool false)

  (** Logical OR (short-circuit) *)
  | E_Or_False : forall renv renv1 renv2 e1 e2 v2,
      eval renv e1 renv1 (VBool false) ->
      eval renv1 e2 renv2 (VBool v2) ->
      eval renv (EBinOp OpOr e1 e2) renv2 (VBool v2)

  | E_Or_Short : forall renv renv1 e1 e2,
      eval renv e1 renv1 (VBool true) ->
      eval renv (EBinOp OpOr e1 e2) renv1 (VBool true)

  (** Unary negation: -n *)
  | E_Neg : forall renv renv1 e n,
      eval renv e renv1 (VInt n) ->
      eval renv (EUnOp OpNeg e) renv1 (VInt (- n))

  (** Logical not *)
  | E_Not : forall renv renv1 e b,
      eval renv e renv1 (VBool b) ->
      eval renv (EUnOp OpNot e) renv1 (VBool (negb b))

  (** String length *)
  | E_StrLen : forall renv renv1 e s,
      eval renv e renv1 (VString s) ->
      eval renv (EUnOp OpStrLen e) renv1 (VInt (Z.of_nat (String.length s)))

  (** If-then-else: true branch *)
  | E_IfTrue : forall renv renv1 renv2 e1 e2 e3 v,
      eval renv e1 renv1 (VBool true) ->
      eval renv1 e2 renv2 v ->
      eval renv (EIf e1 e2 e3) renv2 v

  (** If-then-else: false branch *)
  | E_IfFalse : forall renv renv1 renv2 e1 e2 e3 v,
      eval renv e1 renv1 (VBool false) ->
      eval renv1 e3 renv2 v ->
      eval renv (EIf e1 e2 e3) renv2 v

  (** Let binding: let x = e1 in e2.
      The body evaluates in the extended environment.
      The output environment pops the let binding, preserving
      any mutations to variables in the enclosing scope. *)
  | E_Let : forall renv renv1 x e1 e2 v1 v2 vx renv_out,
      eval renv e1 renv1 v1 ->
      eval (ECons x v1 renv1) e2 (ECons x vx renv_out) v2 ->
      eval renv (ELet x e1 e2) renv_out v2

  (** Set: mutable variable update *)
  | E_Set : forall renv renv1 x e v v_old,
      eval renv e renv1 v ->
      env_lookup x renv1 = Some v_old ->
      eval renv (ESet x e) (env_update x v renv1) VUnit

  (** Sequence: e1; e2 *)
  | E_Seq : forall renv renv1 renv2 e1 e2 v1 v2,
      eval renv e1 renv1 v1 ->
      eval renv1 e2 renv2 v2 ->
      eval renv (ESeq e1 e2) renv2 v2

  (** While loop: condition true, execute body and loop *)
  | E_WhileTrue : forall renv renv1 renv2 renv3 cond body v_body v,
      eval renv cond renv1 (VBool true) ->
      eval renv1 body renv2 v_body ->
      eval renv2 (EWhile cond body) renv3 v ->
      eval renv (EWhile cond body) renv3 v

  (** While loop: condition false, stop *)
  | E_WhileFalse : forall renv renv1 cond body,
      eval renv cond renv1 (VBool false) ->
      eval renv (EWhile cond body) renv1 VUnit

  (** Lambda abstraction: creates a closure *)
  | E_Lam : forall renv x t body,
      eval renv (ELam x t body) renv (VClos x body renv)

  (** Function application.
      The body evaluates in the closure's environment (lexical scoping).
      Mutations inside the body don't affect the caller's environment.
      The output environment is the caller's env after evaluating
      the function and argument. *)
  | E_App : forall renv renv1 renv2 renv3 e1 e2 x body clos_env v2 v,
      eval renv e1 renv1 (VClos x body clos_env) ->
      eval renv1 e2 renv2 v2 ->
      eval (ECons x v2 clos_env) body renv3 v ->
      eval renv (EApp e1 e2) renv2 v

  (** Array literal: empty *)
  | E_ArrayNil : forall renv,
      eval renv (EArray []) renv (VArray [])

  (** Array literal: evaluate elements left-to-right *)
  | E_ArrayCons : forall renv renv1 renv2 e es v vs,
      eval renv e renv1 v ->
      eval renv1 (EArray es) renv2 (VArray vs) ->
      eval renv (EArray (e :: es)) renv2 (VArray (v :: vs))

  (** Array indexing: (at arr i) *)
  | E_Index : forall renv renv1 renv2 e1 e2 vs n v,
      eval renv e1 renv1 (VArray vs) ->
      eval renv1 e2 renv2 (VInt n) ->
      nth_error vs (Z.to_nat n) = Some v ->
      eval renv (EIndex e1 e2) renv2 v

  (** Array length *)
  | E_ArrayLen : forall renv renv1 e vs,
      eval renv e renv1 (VArray vs) ->
      eval renv (EUnOp OpArrayLen e) renv1 (VInt (Z.of_nat (length vs)))

  (** Record literal: empty *)
  | E_RecordNil : forall renv,
      eval renv (ERecord []) renv (VRecord [])

  (** Record literal: evaluate fields left-to-right *)
  | E_RecordCons : forall renv renv1 renv2 f e es v vs,
      eval renv e renv1 v ->
      eval renv1 (ERecord es) renv2 (VRecord vs) ->
      eval renv (ERecord ((f, e) :: es)) renv2 (VRecord ((f, v) :: vs))

  (** Record field access *)
  | E_Field : forall renv renv1 e f fvs v,
      eval renv e renv1 (VRecord fvs) ->
      assoc_lookup f fvs = Some v ->
      eval renv (EField e f) renv1 v

  (** Record field update: set x.f = e *)
  | E_SetField : forall renv renv1 x f e v fvs v_old,
      eval renv e renv1 v ->
      env_lookup x renv1 = Some (VRecord fvs) ->
      assoc_lookup f fvs = Some v_old ->
      eval renv (ESetField x f e)
           (env_update x (VRecord (assoc_update f v fvs)) renv1) VUnit

  (** Fix: recursive function creates a fix closure *)
  | E_Fix : forall renv f x t1 t2 body,
      eval renv (EFix f x t1 t2 body) renv (VFixClos f x body renv)

  (** Application of fix closure: unrolls one step *)
  | E_AppFix : forall renv renv1 renv2 renv3 e1 e2 f x body clos_env v2 v,
      eval renv e1 renv1 (VFixClos f x body clos_env) ->
      eval renv1 e2 renv2 v2 ->
      eval (ECons x v2 (ECons f (VFixClos f x body clos_env) clos_env)) body renv3 v ->
      eval renv (EApp e1 e2) renv2 v

  (** Variant constructor *)
  | E_Construct : forall renv renv1 tag e v t,
      eval renv e renv1 v ->
      eval renv (EConstruct tag e t) renv1 (VConstruct tag v)

  (** Pattern matching *)
  | E_Match : forall renv renv1 e branches tag v x body vx renv_out v_result,
      eval renv e renv1 (VConstruct tag v) ->
      find_branch tag branches = Some (x, body) ->
      eval (ECons x v renv1) body (ECons x vx renv_out) v_result ->
      eval renv (EMatch e branches) renv_out v_result

  (** Array functional update *)
  | E_ArraySet : forall renv renv1 renv2 renv3 e1 e2 e3 vs n v,
      eval renv e1 renv1 (VArray vs) ->
      eval renv1 e2 renv2 (VInt n) ->
      eval renv2 e3 renv3 v ->
      eval renv (EArraySet e1 e2 e3) renv3 (VArray (list_update (Z.to_nat n) v vs))

  (** Array push *)
  | E_ArrayPush : forall renv renv1 renv2 e1 e2 vs v,
      eval renv e1 renv1 (VArray vs) ->
      eval renv1 e2 renv2 v ->
      eval renv (EArrayPush e1 e2) renv2 (VArray (vs ++ [v]))

  (** String indexing: total, out-of-bounds returns "" *)
  | E_StrIndex : forall renv renv1 renv2 e1 e2 s n,
      eval renv e1 renv1 (VString s) ->
      eval renv1 e2 renv2 (VInt n) ->
      eval renv (EStrIndex e1 e2) renv2
           (VString (String.substring (Z.to_nat n) 1 s)).
