(* Extraction of the language layer (reference semantics; engine models are added as they land). *)
Require Extraction.
Require Import ExtrOcamlBasic.
From NV Require Import Lang.Ast Lang.Ref Back.VmCompile Back.VmExec Back.NatSem Back.NanoCoreBridge Back.NatOrder.
Extraction "../build/extract/ex_lang.ml" run_ref print_Z compile_program run_vm run_nat nanocore_eval_v exact_eval se_program.
