(* Extraction of the C11 model (ExtrOcamlBasic only; N/Z/positive/nat stay Coq datatypes). *)
Require Extraction.
Require Import ExtrOcamlBasic.
From NV Require Import Isa.Codec Isa.Asm gen.IsaTable.
Extraction "../build/extract/ex_c11.ml" encode decode table table_list wf_instrb name_of
  disasm_module disasm_function asm_assemble add_string empty_module print_dec print_sdec strtoll names_ok
  wf_conjuncts wf_conjuncts_fast wf_moduleb.
