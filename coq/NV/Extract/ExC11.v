(* Extraction of the C11 model (ExtrOcamlBasic only; N/Z/positive/nat stay Coq datatypes). *)
Require Extraction.
Require Import ExtrOcamlBasic.
From NV Require Import Isa.Codec gen.IsaTable.
Extraction "../build/extract/ex_c11.ml" encode decode table table_list wf_instrb name_of.
