(* Extraction of the C13 model (ExtrOcamlBasic only; N/Z/positive/nat stay Coq datatypes). *)
Require Extraction.
Require Import ExtrOcamlBasic.
From NV Require Import Nvm.LoaderC Nvm.Verifier Vm.Value Vm.Bounds Vm.Step Vm.Run.
Extraction "../build/extract/ex_c13.ml" pipeline deserializeC verifyC run out_of dump_module crc32 dec_of_Z tag_of cfg_pinned cfg_fixed.
