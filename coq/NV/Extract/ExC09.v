(* Extraction of the C09 models (ExtrOcamlBasic only; N/Z/positive/nat/ascii/string stay Coq datatypes). *)
Require Extraction.
Require Import ExtrOcamlBasic.
From NV Require Import gen.Tokens Front.ExprParser Front.Lexer Front.ImportGraph.
Extraction "../build/extract/ex_c09.ml" tokenize parser_tokens parse kind_code kind_of_code run_guarded run_unguarded.
