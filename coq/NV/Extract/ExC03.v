(* Extraction of the evaluator model, the shadow-test gate and the reference semantics (C03, C06);
   ExtrOcamlBasic only; N/Z/positive/nat stay Coq datatypes. *)
Require Extraction.
Require Import ExtrOcamlBasic.
From NV Require Import Lang.Ast Lang.Ref Back.InterpSem Driver.ShadowGate Back.NamesApart.
Extraction "../build/extract/ex_c03.ml" run_interp nanoc names_apart ref_tests run_ref missing_shadow fail_count test_passed all_passed.
