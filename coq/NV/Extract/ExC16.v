(* Extraction of the C16 model (ExtrOcamlBasic only). *)
Require Extraction.
Require Import ExtrOcamlBasic.
From NV Require Import Proto.CopCodec Proto.CopClient gen.CopConst.
Extraction "../build/extract/ex_c16.ml" run deser_a orphans all_reaped wfb frame ser stderr_report.
