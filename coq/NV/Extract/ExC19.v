(* Extraction of the C19 models (ExtrOcamlBasic only). *)
Require Extraction.
Require Import ExtrOcamlBasic.
From NV Require Import Isa.Codec Nvm.SerializeBuf gen.SerConsts gen.IsaTable.
Extraction "../build/extract/ex_c19.ml" serialize_into total_size crc32 ser_consts add_all first_uses encode_raw table.
