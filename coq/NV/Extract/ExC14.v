(* Extraction of the C14 model (ExtrOcamlBasic only; nat/Z/positive stay Coq datatypes). *)
Require Extraction.
Require Import ExtrOcamlBasic.
From Coq Require Import NArith ZArith.
From NV Require Import Heap.Heap Heap.Ops Heap.Refcount.
(* N.of_nat / Z.of_N are listed only so that the types n and z used by extract/nvio.ml exist in the module *)
Extraction "../build/extract/ex_c14.ml" init_state step step_leaks traps run live_rows inv_b exact_b intern_b live_count N.of_nat Z.of_N.
