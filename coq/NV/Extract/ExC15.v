(* Extraction of the C15 model (ExtrOcamlBasic only; N/positive/nat stay Coq datatypes). *)
Require Extraction.
Require Import ExtrOcamlBasic.
From NV Require Import Proto.CopCodec gen.CopConst.
Extraction "../build/extract/ex_c15.ml" ser ser_buf ser_size deser_a deser_r deser build_request build_request_cap parse_request
  parse_header frame recv_msg parse_reply build_reply call_cop call_inproc transferableb value_eqb REQ_BUF_SIZE.
