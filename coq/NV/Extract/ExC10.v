(* Extraction of the C10 model (ExtrOcamlBasic only; N/Z/positive/nat stay Coq datatypes). *)
Require Extraction.
Require Import ExtrOcamlBasic.
From NV Require Import Nvm.Crc Nvm.Format Driver.ExitStatus.
Extraction "../build/extract/ex_c10.ml" serialize deserialize build crc32 steer_file wf_moduleb stamp exit_status main_return.
