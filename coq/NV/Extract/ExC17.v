(* Extraction of the C17 model parts that are compared with the implementation: the specified CRC-32 (table as initialised
   by any interleaving of crc32_init) and the client loop (ExtrOcamlBasic only). *)
Require Extraction.
Require Import ExtrOcamlBasic.
From NV Require Import Proto.Vmd Proto.Sessions.
Extraction "../build/extract/ex_c17.ml" crc32_spec crc_entry client_observe decode_frames.
