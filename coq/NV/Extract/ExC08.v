(* Extraction of the C08 model (ExtrOcamlBasic only). *)
Require Extraction.
Require Import ExtrOcamlBasic.
From NV Require Import Nvm.LoaderC Vm.Value Vm.Bounds.
Extraction "../build/extract/ex_c08.ml" access legit vm_field cfg_pinned cfg_fixed dec_of_N.
