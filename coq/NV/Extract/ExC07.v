(* Extraction of the C07 model (ExtrOcamlBasic only; N/Z/positive/nat stay Coq datatypes). *)
Require Extraction.
Require Import ExtrOcamlBasic.
From NV Require Import gen.Tokens gen.ParserConsts Front.ExprParser Front.InfixSafe.
Extraction "../build/extract/ex_c07.ml" parse_expression parse fuel_for kind_of_code kind_code
  pp_prefix pp_infix denote nest_prefix infix_class MAXD.
