(* Extraction for C04/C05: the reference type checker, the mutation catalogue, the driver phase machine. *)
Require Extraction.
Require Import ExtrOcamlBasic.
From NV Require Import Lang.Ast Lang.Types Lang.Mutate Driver.Pipeline Back.VmCompile.
Extraction "../build/extract/ex_c04.ml" wt mut earlier_names fn_names global_names run_tool compile_program.
