(* Extraction of the C20 models (ExtrOcamlBasic only; N/Z/positive/nat stay Coq datatypes). *)
Require Extraction.
Require Import ExtrOcamlBasic.
From NV Require Import Runtime.DynArray Runtime.Gc Runtime.FmtSb Runtime.ListRt Runtime.HashMapRt gen.RtParams gen.FmtSbParams gen.ListParams gen.HashMapParams.
Extraction "../build/extract/ex_c20.ml" step dyn_new dyn_new_cap invb rt_params lstep abs gstep gc_empty ginvb rt_gc_header append_cstr append_char sb_new fmtsb_params rstep rl_new rl_with_capacity rabs astep rinvb list_params hstep hnew hkeys amstep hm_params home hash.
