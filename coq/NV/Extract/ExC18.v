(* Extraction of the C18 model: the daemon's per-connection handler and the frame codec (ExtrOcamlBasic only). *)
Require Extraction.
Require Import ExtrOcamlBasic.
From NV Require Import Proto.Vmd Proto.VmdProofs gen.VmdConsts gen.VmdFacts gen.SigpipeSites.
Extraction "../build/extract/ex_c18.ml" client_thread serve recv_header encode_frame decode_frames client_observe
  standalone_observe load_exec_request boot wf_frameb dec_Z vmd_ignores_sigpipe verify_before_execute
  vmd_exit_from_main standalone_exit_from_main real_cfg sigpipe_sites_ok.
