(* Extraction of the C18 model: the daemon's per-connection handler and the frame codec (ExtrOcamlBasic only). *)
Require Extraction.
Require Import ExtrOcamlBasic.
From NV Require Import Proto.Vmd gen.VmdConsts gen.VmdFacts.
Extraction "../build/extract/ex_c18.ml" client_thread serve recv_header encode_frame decode_frames client_observe
  standalone_observe load_exec_request d0 wf_frameb dec_Z vmd_ignores_sigpipe verify_before_execute.
