(* NanoVM values and the value-level helpers of src/nanovm/value.c and heap.c (strings, compare, truthiness, printing).
   Floats and hashmaps are outside the modelled set (an instruction that would create one ends the model run with
   the outcome Unmodelled).  Strings are immutable and compared by content in the C, so they are inline byte lists;
   arrays, structs, unions, tuples and closures are heap cells addressed by location (pointer identity matters:
   val_equal on them is pointer equality, ARR_SET / STRUCT_SET / STORE_UPVALUE mutate in place).
   The model heap never frees a cell: reference counts are the subject of C14, not of this model.
   Definitions only (extracted). *)
From Coq Require Import NArith ZArith List Bool.
From NV Require Import Base.Bytes.
Import ListNotations.
Local Open Scope Z_scope.

Inductive kind := KArr | KStruct | KUnion | KTuple | KClos.
Definition kind_eqb (a b : kind) : bool :=
  match a, b with KArr,KArr | KStruct,KStruct | KUnion,KUnion | KTuple,KTuple | KClos,KClos => true | _,_ => false end.

Inductive value :=
| VVoid | VInt (z : Z) | VU8 (n : N) | VBool (b : bool) | VStr (s : list byte) | VEnum (z : Z)
| VRef (k : kind) (loc : nat) | VOpaque (n : N).

Inductive obj :=
| OArr (ety : N) (els : list value)
| OStruct (def : N) (fs : list value)
| OUnion (def var : N) (fs : list value)
| OTuple (els : list value)
| OClos (fn : N) (caps : list value).

Definition kind_of (o : obj) : kind :=
  match o with OArr _ _ => KArr | OStruct _ _ => KStruct | OUnion _ _ _ => KUnion | OTuple _ => KTuple | OClos _ _ => KClos end.
Definition heap := list obj.

(* NanoValueTag numbers (isa.h) *)
Definition tag_of (v : value) : Z :=
  match v with
  | VVoid => 0 | VInt _ => 1 | VU8 _ => 2 | VBool _ => 4 | VStr _ => 5 | VEnum _ => 9
  | VRef KArr _ => 7 | VRef KStruct _ => 8 | VRef KUnion _ => 10 | VRef KClos _ => 11 | VRef KTuple _ => 12
  | VOpaque _ => 14
  end.

Definition two63 : Z := 9223372036854775808.
Definition two64 : Z := 18446744073709551616.
Definition wrap64 (z : Z) : Z := let r := z mod two64 in if r <? two63 then r else r - two64.
Definition INT64_MIN : Z := - two63.
Definition INT64_MAX : Z := two63 - 1.
Definition u32z (z : Z) : N := Z.to_N (z mod 4294967296).       (* (uint32_t) of an int64 *)

(* C string view: bytes up to the first NUL (strlen / "%s" / strcmp) *)
Fixpoint cstr (s : list byte) : list byte :=
  match s with [] => [] | b :: r => if N.eqb b 0 then [] else b :: cstr r end.

Fixpoint bytes_eq (a b : list byte) : bool :=
  match a, b with [], [] => true | x :: a', y :: b' => N.eqb x y && bytes_eq a' b' | _, _ => false end.

(* memcmp over the common prefix, then length: vmstring_compare; returns -1/0/1 (only the sign is used) *)
Fixpoint bytes_cmp (a b : list byte) : Z :=
  match a, b with
  | [], [] => 0 | [], _ => -1 | _, [] => 1
  | x :: a', y :: b' => if N.ltb x y then -1 else if N.ltb y x then 1 else bytes_cmp a' b'
  end.

Fixpoint is_prefix (p s : list byte) : bool :=
  match p, s with [], _ => true | _, [] => false | x :: p', y :: s' => N.eqb x y && is_prefix p' s' end.
Fixpoint contains (s p : list byte) : bool :=       (* strstr(s, p) != NULL on NUL-free lists *)
  is_prefix p s || match s with [] => false | _ :: r => contains r p end.
(* vmstring_contains: length tests on the stored lengths, strstr on the C views *)
Definition str_contains (h n : list byte) : bool :=
  if Nat.eqb (length n) 0 then true else if Nat.ltb (length h) (length n) then false else contains (cstr h) (cstr n).

(* val_equal *)
Definition val_equal (a b : value) : bool :=
  match a, b with
  | VEnum x, VInt y | VInt x, VEnum y => x =? y
  | VVoid, VVoid => true
  | VInt x, VInt y => x =? y
  | VU8 x, VU8 y => N.eqb x y
  | VBool x, VBool y => Bool.eqb x y
  | VEnum x, VEnum y => x =? y
  | VStr x, VStr y => bytes_eq x y
  | VRef k l, VRef k' l' => kind_eqb k k' && Nat.eqb l l'
  | VOpaque x, VOpaque y => N.eqb x y          (* a.as.obj == b.as.obj: the 8 payload bytes, proxy_id zero-extended *)
  | _, _ => false
  end.

(* val_compare (sign matters only) *)
Definition val_compare (a b : value) : Z :=
  match a, b with
  | VEnum x, VInt y | VInt x, VEnum y | VInt x, VInt y => if x <? y then -1 else if y <? x then 1 else 0
  | VBool x, VBool y => (if x then 1 else 0) - (if y then 1 else 0)
  | VStr x, VStr y => bytes_cmp x y
  | _, _ => if tag_of a =? tag_of b then 0 else tag_of a - tag_of b
  end.

Definition truthy (v : value) : bool :=
  match v with
  | VVoid => false | VInt z => negb (z =? 0) | VU8 n => negb (N.eqb n 0) | VBool b => b | VStr _ => true
  | VEnum z => negb (z =? 0) | VRef _ _ => true | VOpaque n => negb (N.eqb n 0)
  end.

(* decimal text *)
Fixpoint dec_digits (fuel : nat) (n : N) (acc : list byte) : list byte :=
  match fuel with
  | O => acc
  | S k => let acc' := (48 + n mod 10)%N :: acc in if (n <? 10)%N then acc' else dec_digits k (n / 10)%N acc'
  end.
Definition dec_of_N (n : N) : list byte := dec_digits (S (N.to_nat (N.size n))) n [].
Definition dec_of_Z (z : Z) : list byte :=
  match z with Z0 => [48%N] | Zpos p => dec_of_N (Npos p) | Zneg p => 45%N :: dec_of_N (Npos p) end.

(* strtoll(str, NULL, 10) on the C view: skip isspace, optional sign, digits, saturate *)
Definition is_space (b : byte) : bool := N.eqb b 32 || (N.leb 9 b && N.leb b 13).
Fixpoint skip_space (s : list byte) : list byte :=
  match s with b :: r => if is_space b then skip_space r else s | [] => [] end.
Fixpoint digits_val (s : list byte) (acc : Z) : Z :=
  match s with
  | b :: r => if N.leb 48 b && N.leb b 57 then digits_val r (acc * 10 + Z.of_N (b - 48)) else acc
  | [] => acc
  end.
Definition strtoll (s : list byte) : Z :=
  let t := skip_space (cstr s) in
  let '(neg, d) := match t with
                   | 45%N :: r => (true, r) | 43%N :: r => (false, r) | _ => (false, t) end in
  let v := digits_val d 0 in
  if neg then (if v >? two63 then INT64_MIN else - v) else (if v >? INT64_MAX then INT64_MAX else v).

(* printing: val_print.  [fuel] bounds the recursion depth; None = the recursion did not end within the bound. *)
Definition str_true : list byte := [116;114;117;101]%N.
Definition str_false : list byte := [102;97;108;115;101]%N.
Definition str_void : list byte := [118;111;105;100]%N.
Definition sep : list byte := [44;32]%N.

Inductive pres := PCrash | PUnmod | POk (s : list byte).

Section Print.
  Variable h : heap.
  Variable limit : option nat.     (* Some d: repaired val_print prints "..." below depth d;  None: unbounded recursion as in the pinned tree *)
  Fixpoint print_val (fuel : nat) (depth : nat) (v : value) : pres :=
    match fuel with
    | O => PCrash
    | S k =>
      let too_deep := match limit with Some d => Nat.ltb d depth | None => false end in
      if too_deep then POk [46;46;46]%N else
      let fix plist (first : bool) (vs : list value) (always_sep : bool) : pres :=
          match vs with
          | [] => POk []
          | x :: r =>
              match print_val k (S depth) x with
              | POk sx => match plist false r always_sep with
                          | POk sr => POk ((if first && negb always_sep then [] else sep) ++ sx ++ sr)
                          | e => e end
              | e => e
              end
          end in
      match v with
      | VVoid => POk str_void
      | VInt z => POk (dec_of_Z z)
      | VU8 n => POk (dec_of_N n)
      | VBool b => POk (if b then str_true else str_false)
      | VStr s => POk (cstr s)
      | VEnum z => POk (dec_of_Z z)                     (* "%d" of enum_val *)
      | VOpaque n => POk ([111;112;97;113;117;101;40]%N ++ dec_of_N n ++ [41%N])
      | VRef kd l =>
          match (match nth_error h l with Some o => if kind_eqb (kind_of o) kd then Some o else None | None => None end) with
          | None => PCrash
          | Some (OArr _ els) => match plist true els false with POk s => POk ([91%N] ++ s ++ [93%N]) | e => e end
          | Some (OStruct _ fs) => match plist true fs false with POk s => POk ([123%N] ++ s ++ [125%N]) | e => e end
          | Some (OTuple els) => match plist true els false with POk s => POk ([40%N] ++ s ++ [41%N]) | e => e end
          | Some (OUnion _ var fs) =>
              match plist true fs true with
              | POk s => POk ([118;97;114;105;97;110;116;40]%N ++ dec_of_N var ++ s ++ [41%N]) | e => e end
          | Some (OClos _ _) => POk [102;110;40;0;41]%N   (* "fn(%u)" of the low half of the closure pointer: the digits are not modelled (NUL placeholder) *)
          end
      end
    end.
End Print.
