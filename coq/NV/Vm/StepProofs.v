(* Invariant of the VM model and its preservation by every modelled instruction; consequences:
   no Crash / Signal outcome for an accepted module once the repairs fx_div, fx_substr, fx_print are present
   (and with the pinned tree: exactly those three sites are the only sources), traps are final. *)
From Coq Require Import NArith ZArith List Bool Lia.
From NV Require Import Base.Bytes Isa.Codec gen.IsaTable Nvm.LoaderC Nvm.Verifier Vm.Value Vm.Bounds Vm.Step.
Import ListNotations.
Local Open Scope N_scope.

(* ------------------------------------------------------------------ reference validity *)
Definition hk (h : heap) : list kind := map kind_of h.
Definition vok (ks : list kind) (v : value) : Prop :=
  match v with VRef k l => nth_error ks l = Some k | _ => True end.
Definition vals (o : obj) : list value :=
  match o with OArr _ l | OStruct _ l | OUnion _ _ l | OTuple l | OClos _ l => l end.
Definition frame_ok (nfun : N) (ks : list kind) (fr : frame) : Prop :=
  fr_fn fr < nfun /\ match fr_clos fr with Some l => nth_error ks l = Some KClos | None => True end.

Record wf (m : module) (s : state) : Prop := {
  wf_stack : Forall (vok (hk (st_heap s))) (st_stack s);
  wf_glob : Forall (fun p => vok (hk (st_heap s)) (snd p)) (st_globals s);
  wf_heap : Forall (fun o => Forall (vok (hk (st_heap s))) (vals o)) (st_heap s);
  wf_frames : Forall (frame_ok (N.of_nat (length (m_funs m))) (hk (st_heap s))) (st_frames s);
  wf_fn : st_fn s < N.of_nat (length (m_funs m))
}.

Lemma vok_mono ks x v : vok ks v -> vok (ks ++ x) v.
Proof. destruct v; simpl; auto. intros H. rewrite nth_error_app1; [exact H|]. apply nth_error_Some. congruence. Qed.
Lemma Forall_vok_mono ks x l : Forall (vok ks) l -> Forall (vok (ks ++ x)) l.
Proof. intros H; eapply Forall_impl; [|exact H]. intros; apply vok_mono; assumption. Qed.
Lemma frame_ok_mono n ks x fr : frame_ok n ks fr -> frame_ok n (ks ++ x) fr.
Proof.
  intros [H1 H2]; split; [exact H1|]. destruct (fr_clos fr); [|exact I].
  rewrite nth_error_app1; [exact H2|]. apply nth_error_Some. congruence.
Qed.

Lemma hk_app h o : hk (h ++ [o]) = hk h ++ [kind_of o].
Proof. unfold hk. rewrite map_app. reflexivity. Qed.

Lemma set_nth_length {A} (l : list A) i x : length (set_nth l i x) = length l.
Proof. revert i; induction l; intros [|i]; simpl; auto. Qed.
Lemma nth_error_set_nth {A} (l : list A) i j x :
  nth_error (set_nth l i x) j = if Nat.eqb i j then (match nth_error l i with Some _ => Some x | None => None end) else nth_error l j.
Proof.
  revert i j; induction l as [|a l IH]; intros [|i] [|j]; simpl; auto;
    try (destruct (Nat.eqb i j); destruct i; reflexivity).
Qed.
Lemma hk_set_nth h l o : nth_error (hk h) l = Some (kind_of o) -> hk (set_nth h l o) = hk h.
Proof.
  unfold hk. revert l; induction h as [|a h IH]; intros [|l]; simpl; try discriminate.
  - intros [= E]. rewrite E. reflexivity.
  - intros H. rewrite IH; auto.
Qed.
Lemma Forall_set_nth {A} (P : A -> Prop) l i x : Forall P l -> P x -> Forall P (set_nth l i x).
Proof. intros H Hx. revert i; induction H; intros [|i]; simpl; constructor; auto. Qed.

Lemma hget_some s k l o : hget s k l = Some o -> nth_error (st_heap s) l = Some o /\ kind_of o = k.
Proof.
  unfold hget. destruct (nth_error (st_heap s) l) as [o'|]; [|discriminate].
  destruct (kind_eqb (kind_of o') k) eqn:E; [|discriminate]. intros [= <-]. split; [reflexivity|].
  destruct (kind_of o'), k; simpl in E; congruence.
Qed.
Lemma kind_eqb_refl k : kind_eqb k k = true. Proof. destruct k; reflexivity. Qed.
Lemma hget_vok s k l : vok (hk (st_heap s)) (VRef k l) -> exists o, hget s k l = Some o.
Proof.
  simpl. unfold hk, hget. rewrite nth_error_map. destruct (nth_error (st_heap s) l) as [o|]; simpl; [|discriminate].
  intros [= <-]. rewrite kind_eqb_refl. eauto.
Qed.
Lemma hget_clos s l : nth_error (hk (st_heap s)) l = Some KClos -> exists f caps, hget s KClos l = Some (OClos f caps).
Proof.
  intros H. destruct (hget_vok s KClos l H) as [o Ho]. destruct (hget_some _ _ _ _ Ho) as [_ Hk].
  destruct o; try discriminate. eauto.
Qed.

Section Inv.
  Variable m : module.

  Lemma wf_vals s k l o : wf m s -> hget s k l = Some o -> Forall (vok (hk (st_heap s))) (vals o).
  Proof.
    intros W H. apply hget_some in H. destruct H as [H _]. apply nth_error_In in H.
    pose proof (wf_heap m s W) as HH. rewrite Forall_forall in HH. apply HH; exact H.
  Qed.

  Lemma wf_set_stack s k : wf m s -> Forall (vok (hk (st_heap s))) k -> wf m (set_stack s k).
  Proof. intros [A B C D E] H; constructor; simpl; assumption. Qed.
  Lemma wf_set_ip s ip : wf m s -> wf m (set_ip s ip).
  Proof. intros [A B C D E]; constructor; simpl; assumption. Qed.
  Lemma wf_set_out s o : wf m s -> wf m (set_out s o).
  Proof. intros [A B C D E]; constructor; simpl; assumption. Qed.
  Lemma wf_emit s bs : wf m s -> wf m (emit s bs).
  Proof. intros; apply wf_set_out; assumption. Qed.
  Lemma wf_push s v : wf m s -> vok (hk (st_heap s)) v -> wf m (push v s).
  Proof. intros W H. apply wf_set_stack; [exact W|]. constructor; [exact H|apply (wf_stack m s W)]. Qed.
  Lemma wf_set_globals s g : wf m s -> Forall (fun p => vok (hk (st_heap s)) (snd p)) g -> wf m (set_globals s g).
  Proof. intros [A B C D E] H; constructor; simpl; assumption. Qed.
  Lemma wf_set_ctl s fs f ip : wf m s -> Forall (frame_ok (N.of_nat (length (m_funs m))) (hk (st_heap s))) fs ->
    f < N.of_nat (length (m_funs m)) -> wf m (set_ctl s fs f ip).
  Proof. intros [A B C D E] H1 H2; constructor; simpl; assumption. Qed.

  Lemma wf_alloc s o : wf m s -> Forall (vok (hk (st_heap s))) (vals o) ->
    wf m (snd (alloc s o)) /\ vok (hk (st_heap (snd (alloc s o)))) (VRef (kind_of o) (fst (alloc s o))).
  Proof.
    intros [A B C D E] H. unfold alloc; simpl. rewrite hk_app. split.
    - constructor; simpl; rewrite ?hk_app.
      + apply Forall_vok_mono; assumption.
      + eapply Forall_impl; [|exact B]. intros; apply vok_mono; assumption.
      + apply Forall_app; split.
        * eapply Forall_impl; [|exact C]. intros; apply Forall_vok_mono; assumption.
        * constructor; [apply Forall_vok_mono; assumption|constructor].
      + eapply Forall_impl; [|exact D]. intros; apply frame_ok_mono; assumption.
      + assumption.
    - rewrite nth_error_app2 by (unfold hk; rewrite map_length; lia).
      unfold hk; rewrite map_length, PeanoNat.Nat.sub_diag. reflexivity.
  Qed.

  Lemma wf_hset s l o : wf m s -> nth_error (hk (st_heap s)) l = Some (kind_of o) ->
    Forall (vok (hk (st_heap s))) (vals o) -> wf m (hset s l o).
  Proof.
    intros [A B C D E] Hk H. unfold hset. constructor; simpl; rewrite ?(hk_set_nth _ _ _ Hk); try assumption.
    apply Forall_set_nth; assumption.
  Qed.
End Inv.

(* ------------------------------------------------------------------ list helpers preserve Forall *)
Lemma pop_ok (P : value -> Prop) k : P VVoid -> Forall P k -> P (fst (pop k)) /\ Forall P (snd (pop k)).
Proof. intros Hv H. destruct H; simpl; auto. Qed.
Lemma Forall_firstn {A} (P : A -> Prop) n l : Forall P l -> Forall P (firstn n l).
Proof. intros H. revert n; induction H; intros [|n]; simpl; constructor; auto. Qed.
Lemma Forall_skipn {A} (P : A -> Prop) n l : Forall P l -> Forall P (skipn n l).
Proof. intros H. revert n; induction H; intros [|n]; simpl; auto. Qed.
Lemma Forall_repeat {A} (P : A -> Prop) x n : P x -> Forall P (repeat x n).
Proof. intros; induction n; simpl; constructor; auto. Qed.
Lemma Forall_nth_d {A} (P : A -> Prop) l n d : P d -> Forall P l -> P (nth n l d).
Proof. intros Hd H. revert n; induction H; intros [|n]; simpl; auto. Qed.
Lemma Forall_last {A} (P : A -> Prop) l d : P d -> Forall P l -> P (last l d).
Proof. intros Hd H. induction H as [|x l Hx Hl IH]; simpl; auto. destruct l; auto. Qed.
Lemma Forall_removelast {A} (P : A -> Prop) l : Forall P l -> Forall P (removelast l).
Proof. intros H. induction H as [|x l Hx Hl IH]; simpl; auto. destruct l; auto. Qed.
Lemma Forall_remove_nth {A} (P : A -> Prop) l i : Forall P l -> Forall P (remove_nth l i).
Proof. intros H. unfold remove_nth. apply Forall_app; split; [apply Forall_firstn|apply Forall_skipn]; assumption. Qed.
Lemma take_args_ok (P : value -> Prop) n k : P VVoid -> Forall P k ->
  Forall P (fst (take_args n k)) /\ Forall P (snd (take_args n k)).
Proof.
  intros Hv H. unfold take_args; simpl. split.
  - apply Forall_app; split; [apply Forall_repeat; assumption|]. rewrite <- rev_alt. apply Forall_rev, Forall_firstn; assumption.
  - apply Forall_skipn; assumption.
Qed.
Lemma get_bot_ok (P : value -> Prop) k a v : Forall P k -> get_bot k a = Some v -> P v.
Proof.
  unfold get_bot. destruct (a <? N.of_nat (length k)); [|discriminate]. intros H E.
  apply nth_error_In in E. rewrite Forall_forall in H. auto.
Qed.
Lemma set_bot_ok (P : value -> Prop) k a v : Forall P k -> P v -> Forall P (set_bot k a v).
Proof. intros. unfold set_bot. destruct (a <? _); [apply Forall_set_nth|]; assumption. Qed.
Lemma keep_bot_ok (P : value -> Prop) k b : Forall P k -> Forall P (keep_bot k b).
Proof. intros. unfold keep_bot. destruct (b <? _); [apply Forall_skipn|]; assumption. Qed.
Lemma gl_get_ok (P : value -> Prop) g i : P VVoid -> Forall (fun p => P (snd p)) g -> P (gl_get g i).
Proof. intros Hv H. induction H as [|[j v] g Hx Hg IH]; simpl; auto. destruct (j =? i); auto. Qed.
Lemma gl_set_ok (P : value -> Prop) g i v : Forall (fun p => P (snd p)) g -> P v -> Forall (fun p => P (snd p)) (gl_set g i v).
Proof.
  intros H Hv. induction H as [|[j w] g Hx Hg IH]; simpl; [constructor; auto|].
  destruct (j =? i); constructor; auto.
Qed.
Lemma nth_N_ok {A} (P : A -> Prop) l i v : Forall P l -> nth_N l i = Some v -> P v.
Proof.
  unfold nth_N. destruct (i <? _); [|discriminate]. intros H E. apply nth_error_In in E.
  rewrite Forall_forall in H; auto.
Qed.

(* ------------------------------------------------------------------ one instruction keeps the invariant *)
Definition good (m : module) (r : sres) : Prop :=
  match r with
  | SNext s' => wf m s' /\ st_frames s' <> []
  | SDone s' => wf m s'
  | SErr _ _ | SUnmod => True
  | SCrash | SSignal _ => False
  end.

Lemma wf_alloc' m s o : wf m s -> Forall (vok (hk (st_heap s))) (vals o) ->
  wf m (set_heap s (st_heap s ++ [o])) /\ vok (hk (st_heap s ++ [o])) (VRef (kind_of o) (length (st_heap s))).
Proof. intros W H. exact (wf_alloc m s o W H). Qed.

Lemma void_ok ks : vok ks VVoid. Proof. exact I. Qed.

Lemma do_return_good m s fr frs b : wf m s -> st_frames s = fr :: frs -> good m (do_return s fr frs b).
Proof.
  intros W Hf. unfold do_return.
  pose proof (wf_stack m s W) as HS. pose proof (wf_frames m s W) as HF. rewrite Hf in HF.
  apply Forall_inv_tail in HF.
  set (pr := if add32 (fr_base fr) (fr_locals fr) <? N.of_nat (length (st_stack s)) then pop (st_stack s) else (VVoid, st_stack s)).
  assert (P : vok (hk (st_heap s)) (fst pr) /\ Forall (vok (hk (st_heap s))) (snd pr)).
  { unfold pr. destruct (_ <? _); [apply pop_ok; [exact I|exact HS]|split; [exact I|exact HS]]. }
  destruct pr as [result k1]. simpl in P. destruct P as [P1 P2].
  assert (K : Forall (vok (hk (st_heap s))) (result :: keep_bot k1 (fr_base fr))).
  { constructor; [exact P1|apply keep_bot_ok; exact P2]. }
  destruct frs as [|caller rest].
  - simpl. apply wf_set_ctl; [apply wf_set_stack; assumption|constructor|apply (wf_fn m s W)].
  - assert (W' : forall ip, wf m (set_ctl (set_stack s (result :: keep_bot k1 (fr_base fr))) (caller :: rest) (fr_fn caller) ip)).
    { intros ip. apply wf_set_ctl; [apply wf_set_stack; assumption|exact HF|]. apply Forall_inv in HF. apply HF. }
    destruct b; simpl; [apply W'|split; [apply W'|discriminate]].
Qed.

Lemma do_call_good m s callee clos k : wf m s -> Forall (vok (hk (st_heap s))) k ->
  match clos with Some l => nth_error (hk (st_heap s)) l = Some KClos | None => True end ->
  good m (do_call m s callee clos k).
Proof.
  intros W HK HC. unfold do_call. destruct (nth_N (m_funs m) callee) as [f|] eqn:E; [|exact I].
  destruct (VM_MAX_FRAMES <=? _); [exact I|]. simpl. split; [|discriminate].
  assert (Hc : callee < N.of_nat (length (m_funs m))).
  { unfold nth_N in E. destruct (callee <? N.of_nat (length (m_funs m))) eqn:E2; [apply N.ltb_lt; exact E2|discriminate]. }
  apply wf_set_ctl; [apply wf_set_stack; [exact W|]| |exact Hc].
  - apply Forall_app; split; [apply Forall_repeat; exact I|exact HK].
  - simpl. constructor; [split; [exact Hc|exact HC]|apply (wf_frames m s W)].
Qed.

Lemma print_ok h v : Forall (fun o => Forall (vok (hk h)) (vals o)) h ->
  forall fuel depth, (130 <= fuel + depth)%nat -> (1 <= fuel)%nat -> vok (hk h) v ->
  print_val h (Some 128%nat) fuel depth v <> PCrash.
Proof.
  intros HH fuel. revert v. induction fuel as [|f IH]; intros v depth Hs H1 Hv; [lia|].
  cbn [print_val]. destruct (Nat.ltb 128 depth) eqn:Ed; [discriminate|]. apply PeanoNat.Nat.ltb_ge in Ed.
  assert (L : forall vs first asep, Forall (vok (hk h)) vs ->
    (fix plist (first : bool) (vs : list value) (always_sep : bool) {struct vs} : pres :=
       match vs with
       | [] => POk []
       | x :: r => match print_val h (Some 128%nat) f (S depth) x with
                   | POk sx => match plist false r always_sep with
                               | POk sr => POk ((if first && negb always_sep then [] else sep) ++ sx ++ sr)
                               | e => e end
                   | e => e end
       end) first vs asep <> PCrash).
  { induction vs as [|x r IHr]; intros first asep Hvs; [discriminate|].
    inversion Hvs as [|? ? Hx Hr]; subst.
    specialize (IH x (S depth) ltac:(lia) ltac:(lia) Hx).
    destruct (print_val h (Some 128%nat) f (S depth) x); try congruence; try discriminate.
    specialize (IHr false asep Hr). destruct ((fix plist (first0 : bool) (vs : list value) (always_sep : bool) {struct vs} : pres := _) false r asep);
      try congruence; discriminate. }
  destruct v; try discriminate.
  simpl in Hv. unfold hk in Hv. rewrite nth_error_map in Hv.
  destruct (nth_error h loc) as [o|] eqn:En; [|discriminate]. simpl in Hv. injection Hv as Hk.
  rewrite Hk, kind_eqb_refl.
  assert (Ho : Forall (vok (hk h)) (vals o)). { rewrite Forall_forall in HH. apply HH. eapply nth_error_In; eassumption. }
  destruct o; simpl in Ho;
    try (match goal with |- context [(fix plist (first : bool) (vs : list value) (always_sep : bool) {struct vs} : pres := _) ?a ?b ?c] =>
           specialize (L b a c Ho);
           destruct ((fix plist (first : bool) (vs : list value) (always_sep : bool) {struct vs} : pres := _) a b c) end;
         try congruence; discriminate).
  discriminate.
Qed.

Lemma cmp_op_good m s f : wf m s -> st_frames s <> [] -> good m (cmp_op s f).
Proof.
  intros W F. unfold cmp_op. pose proof (wf_stack m s W) as HS.
  destruct (pop_ok _ (st_stack s) (void_ok _) HS) as [_ H1]. destruct (pop (st_stack s)) as [b k1]. simpl in H1.
  destruct (pop_ok _ k1 (void_ok _) H1) as [_ H2]. destruct (pop k1) as [a k2]. simpl in H2.
  simpl. split; [|exact F]. apply wf_set_stack; [exact W|]. constructor; [exact I|exact H2].
Qed.

Lemma arith_op_good c m s o : fx_div c = true -> wf m s -> st_frames s <> [] -> good m (arith_op c s o).
Proof.
  intros Hd W F. unfold arith_op. pose proof (wf_stack m s W) as HS.
  destruct (pop_ok _ (st_stack s) (void_ok _) HS) as [_ H1]. destruct (pop (st_stack s)) as [b0 k1]. simpl in H1.
  destruct (pop_ok _ k1 (void_ok _) H1) as [_ H2]. destruct (pop k1) as [a0 k2]. simpl in H2.
  assert (G : forall v, (match v with VRef _ _ => False | _ => True end) -> good m (SNext (set_stack s (v :: k2)))).
  { intros v Hv. simpl. split; [|exact F]. apply wf_set_stack; [exact W|]. constructor; [|exact H2]. destruct v; try exact I; contradiction. }
  rewrite Hd. cbn [negb andb].
  destruct (as_arith a0) as [| x | | | x | |ka la| ] eqn:Ea;
  destruct (as_arith b0) as [| y | | | y | |kb lb| ] eqn:Eb;
  try destruct ka; try destruct kb; cbn [is_arr orb];
  repeat match goal with
         | |- good _ (if ?b then _ else _) => destruct b
         | |- good _ (match ?k with KArr => _ | _ => _ end) => destruct k
         end; try exact I; try (apply G; exact I).
Qed.

Lemma wf_alloc_wf m s o : wf m s -> Forall (vok (hk (st_heap s))) (vals o) -> wf m (set_heap s (st_heap s ++ [o])).
Proof. intros W H. exact (proj1 (wf_alloc' m s o W H)). Qed.
Lemma wf_alloc_vok m s o k : wf m s -> Forall (vok (hk (st_heap s))) (vals o) -> k = kind_of o ->
  vok (hk (st_heap s ++ [o])) (VRef k (length (st_heap s))).
Proof. intros W H ->. exact (proj2 (wf_alloc' m s o W H)). Qed.

Create HintDb fdb.
#[export] Hint Resolve void_ok Forall_firstn Forall_skipn Forall_repeat Forall_removelast Forall_remove_nth
  Forall_set_nth set_bot_ok keep_bot_ok Forall_rev Forall_cons Forall_nil : fdb.
#[export] Hint Extern 1 (vok _ (nth _ _ _)) => apply Forall_nth_d : fdb.
#[export] Hint Extern 1 (vok _ (last _ _)) => apply Forall_last : fdb.
#[export] Hint Extern 1 (vok ?ks (gl_get _ _)) => apply (gl_get_ok (vok ks)) : fdb.
#[export] Hint Extern 1 (Forall (fun p => vok ?ks (snd p)) (gl_set _ _ _)) => apply (gl_set_ok (vok ks)) : fdb.
#[export] Hint Extern 1 (vok _ _) => exact I : fdb.
#[export] Hint Extern 2 (Forall _ (_ ++ _)) => apply Forall_app; split : fdb.

Ltac stk :=
  match goal with
  | HK : Forall (vok ?ks) ?k |- context [pop ?k] =>
      is_var k; destruct k as [|? k];
      [clear HK; assert (HK : Forall (vok ks) (@nil value)) by constructor
      | let H1 := fresh "Hv" in apply Forall_cons_iff in HK; destruct HK as [H1 HK]]; cbn [pop]
  | HK : Forall (vok ?ks) ?k |- context [match ?k with [] => _ | _ :: _ => _ end] =>
      is_var k; destruct k as [|? k];
      [clear HK; assert (HK : Forall (vok ks) (@nil value)) by constructor
      | let H1 := fresh "Hv" in apply Forall_cons_iff in HK; destruct HK as [H1 HK]]
  end.

Ltac vals_split :=
  match goal with
  | |- context [match ?v with VVoid => _ | VInt _ => _ | VU8 _ => _ | VBool _ => _ | VStr _ => _ | VEnum _ => _ | VRef _ _ => _ | VOpaque _ => _ end] =>
      is_var v; destruct v
  | |- context [match ?k with KArr => _ | KStruct => _ | KUnion => _ | KTuple => _ | KClos => _ end] => is_var k; destruct k
  end.

Ltac wfsolve :=
  repeat first
   [ assumption
   | apply wf_set_ip | apply wf_emit | apply wf_set_globals | apply wf_push | apply wf_set_stack | apply wf_hset | apply wf_alloc_wf ].
Ltac simp_st := cbn [st_heap st_stack st_globals st_frames set_stack set_heap set_ip set_globals set_out vals kind_of fst snd] in *.
Ltac fin :=
  unfold jump_to; cbn [good];
  first [ exact I | assumption
        | split; [ wfsolve; unfold push, emit, hset; simp_st; try assumption;
                   try (eapply wf_alloc_vok; [eassumption| |reflexivity]); simp_st; eauto 7 with fdb
                 | unfold push, emit, hset; simp_st; assumption ] ].

Lemma substr_nocrash slen start len : (slen <=? start) = false ->
  (slen + 1 <? start + (if slen - start <? len then slen - start else len)) = false.
Proof. intros H. apply N.leb_gt in H. apply N.ltb_ge. destruct (slen - start <? len) eqn:E; [|apply N.ltb_ge in E]; lia. Qed.

Section P.
  Variable c : cfg. Variable m : module.
  Hypothesis Hdiv : fx_div c = true.
  Hypothesis Hsub : fx_substr c = true.
  Hypothesis Hpr : fx_print c = true.

Lemma exec_instr_good s0 fr frs ip i n : wf m s0 -> st_frames s0 = fr :: frs -> good m (exec_instr c m s0 fr frs ip i n).
Proof.
  intros W0 F0. unfold exec_instr.
  set (s := set_ip s0 (add32 (st_ip s0) n)).
  assert (W : wf m s) by (apply wf_set_ip; exact W0).
  assert (F : st_frames s = fr :: frs) by exact F0.
  assert (FN : st_frames s <> []) by (rewrite F; discriminate).
  clearbody s. clear W0 F0 s0.
  pose proof (wf_stack m s W) as HK. pose proof (wf_glob m s W) as HG.
  remember (st_stack s) as k eqn:Ek.
  destruct (op i) as [|p]; [|repeat match goal with |- context [match ?q with xI _ => _ | xO _ => _ | xH => _ end] => is_var q; destruct q end].
  all: try exact I.
  all: try (apply arith_op_good; assumption).
  all: try (apply cmp_op_good; assumption).
  all: try (apply do_return_good; assumption).
  all: unfold as_arith.
  all: repeat (first [stk | vals_split]).
  all: try exact I.
  (* heap cells behind the references on the stack *)
  all: repeat match goal with
       | Hv : vok _ (VRef ?K ?l) |- context [hget ?s0 ?K ?l] =>
           let o := fresh "o" in let E := fresh "E" in let Hk := fresh "Hk" in let Ho := fresh "Ho" in
           destruct (hget_vok s0 K l Hv) as [o E]; rewrite E;
           match goal with W : wf _ s0 |- _ => pose proof (wf_vals m s0 K l o W E) as Ho end;
           destruct (hget_some _ _ _ _ E) as [_ Hk]; destruct o; try discriminate Hk; cbn [vals] in Ho
       end.
  (* closure of the current frame *)
  all: try match goal with
       | W : wf _ ?s1, F : st_frames ?s1 = ?fr1 :: _ |- context [match fr_clos ?fr1 with Some _ => _ | None => _ end] =>
           let HF := fresh "HF" in
           pose proof (wf_frames m s1 W) as HF; rewrite F in HF; apply Forall_inv in HF; destruct HF as [_ HF];
           destruct (fr_clos fr1) as [lc|];
           [ let f := fresh "f" in let caps := fresh "caps" in let E := fresh "E" in let Hcaps := fresh "Hcaps" in
             destruct (hget_clos s1 lc HF) as [f [caps E]]; rewrite E;
             pose proof (wf_vals m s1 KClos lc _ W E) as Hcaps; cbn [vals] in Hcaps | ]
       end.
  all: try (apply do_call_good; [assumption|assumption|first [exact I | assumption]]).
  all: repeat match goal with
       | |- context [take_args ?n ?kk] =>
           let Ha := fresh "Ha" in let Hb := fresh "Hb" in
           match goal with HK : Forall (vok ?ks) kk |- _ =>
             destruct (take_args_ok (vok ks) n kk (void_ok _) HK) as [Ha Hb] end;
           destruct (take_args n kk) as [? ?]; cbn [fst snd] in Ha, Hb
       end.
  all: cbv beta iota zeta delta [alloc].
  all: try (rewrite Hsub;
            match goal with
            | |- context [if ?a <=? ?b then _ else if ?a + 1 <? ?b + (if ?a - ?b <? ?l then ?a - ?b else ?l) then SCrash else _] =>
                let E := fresh "E" in destruct (a <=? b) eqn:E; [|rewrite (substr_nocrash a b l E)]
            end).
  all: repeat match goal with
       | |- context [match ?a with AElem _ => _ | AVoid => _ | ANoop => _ | ATrap => _ end] => destruct a
       | |- context [if ?b then _ else _] => destruct b
       end.
  all: try exact I.
  all: try solve [fin].
  all: try (apply do_call_good; [wfsolve | simp_st; assumption | simp_st; first [exact I | assumption]]).
  all: try match goal with
       | |- context [get_bot ?kk ?a] => let E := fresh "E" in destruct (get_bot kk a) eqn:E; [pose proof (get_bot_ok _ _ _ _ HK E)|]
       | |- context [nth_N ?l ?a] => let E := fresh "E" in destruct (nth_N l a) eqn:E; [pose proof (nth_N_ok _ _ _ _ Hcaps E)|]
       end.
  all: try solve [fin].
  all: try (unfold print_limit, print_fuel; rewrite Hpr;
            match goal with |- context [print_val ?h ?lim ?f ?d ?v] =>
              let E := fresh "E" in
              pose proof (print_ok h v (wf_heap m s W) f d ltac:(simpl; lia) ltac:(simpl; lia)) as E;
              destruct (print_val h lim f d v); [exfalso; apply E; [first [exact I|assumption]|reflexivity] | exact I | ] end).
  all: try solve [fin].

Qed.
End P.

(* ------------------------------------------------------------------ a trap is final: non-zero code, nothing more is printed *)
Definition errfinal (s0 : state) (r : sres) : Prop :=
  match r with SErr e s' => e <> 0 /\ st_out s' = st_out s0 | _ => True end.

Lemma do_return_errfinal s0 s fr frs b : errfinal s0 (do_return s fr frs b).
Proof. unfold do_return. destruct (if _ <? _ then _ else _) as [r k]. destruct frs; [exact I|]. destruct b; exact I. Qed.
Lemma do_call_errfinal m s callee clos k : errfinal s (do_call m s callee clos k).
Proof.
  unfold do_call. destruct (nth_N _ _); [|split; [discriminate|reflexivity]].
  destruct (_ <=? _); [split; [discriminate|reflexivity]|exact I].
Qed.
Lemma cmp_op_errfinal s f : errfinal s (cmp_op s f).
Proof. unfold cmp_op. destruct (pop (st_stack s)) as [b k1]. destruct (pop k1) as [a k2]. exact I. Qed.
Lemma arith_op_errfinal c s o : errfinal s (arith_op c s o).
Proof.
  unfold arith_op. destruct (pop (st_stack s)) as [b k1]. destruct (pop k1) as [a k2].
  destruct (as_arith a) as [| | | | | |ka ?| ]; destruct (as_arith b) as [| | | | | |kb ?| ];
  try destruct ka; try destruct kb; cbn [is_arr orb];
  repeat match goal with |- context [if ?b then _ else _] => destruct b end;
  first [exact I | split; [discriminate|reflexivity]].
Qed.

Lemma exec_instr_errfinal c m s0 fr frs ip i n : errfinal s0 (exec_instr c m s0 fr frs ip i n).
Proof.
  unfold exec_instr.
  set (s := set_ip s0 (add32 (st_ip s0) n)).
  assert (O : st_out s = st_out s0) by reflexivity.
  clearbody s.
  assert (T : forall r, errfinal s r -> errfinal s0 r).
  { intros [] H; try exact I. simpl in *. rewrite <- O. exact H. }
  apply T. clear T O s0.
  remember (st_stack s) as k eqn:Ek.
  destruct (op i) as [|p]; [|repeat match goal with |- context [match ?q with xI _ => _ | xO _ => _ | xH => _ end] => is_var q; destruct q end].
  all: try exact I.
  all: try (split; [discriminate|reflexivity]).
  all: try apply arith_op_errfinal.
  all: try apply cmp_op_errfinal.
  all: try apply do_return_errfinal.
  all: unfold as_arith.
  all: repeat match goal with
       | |- context [pop ?kk] => is_var kk; destruct kk as [|? kk]; cbn [pop]
       | |- context [match ?kk with [] => _ | _ :: _ => _ end] => is_var kk; destruct kk as [|? kk]
       | |- context [match ?v with VVoid => _ | VInt _ => _ | VU8 _ => _ | VBool _ => _ | VStr _ => _ | VEnum _ => _ | VRef _ _ => _ | VOpaque _ => _ end] =>
           is_var v; destruct v
       | |- context [match ?kd with KArr => _ | KStruct => _ | KUnion => _ | KTuple => _ | KClos => _ end] => is_var kd; destruct kd
       end.
  all: try exact I.
  all: try (split; [discriminate|reflexivity]).
  all: repeat match goal with
       | |- context [hget ?a ?b ?d] => destruct (hget a b d) as [[]|]
       | |- context [fr_clos ?f] => destruct (fr_clos f)
       end.
  all: try exact I.
  all: try (eapply (do_call_errfinal m (set_stack s _))).
  all: try apply do_call_errfinal.
  all: repeat match goal with
       | |- context [take_args ?a ?b] => destruct (take_args a b) as [? ?]
       end.
  all: cbv beta iota zeta delta [alloc].
  all: repeat match goal with
       | |- context [match ?a with AElem _ => _ | AVoid => _ | ANoop => _ | ATrap => _ end] => destruct a
       | |- context [match ?a with PCrash => _ | PUnmod => _ | POk _ => _ end] => destruct a
       | |- context [match get_bot ?a ?b with Some _ => _ | None => _ end] => destruct (get_bot a b)
       | |- errfinal _ (if ?b then _ else _) => destruct b
       end.
  all: try exact I.
  all: try (split; [discriminate|reflexivity]).
Qed.

(* ------------------------------------------------------------------ C08 at instruction level (repaired VM): out-of-range array operations trap *)
From NV Require Import Vm.BoundsProofs.
Section ArrTrap.
  Variable c : cfg. Variable m : module.
  Hypothesis Harr : fx_arr c = true.
  Variables (s0 : state) (fr : frame) (frs : list frame) (ip n : N) (i : instr).
  Variables (l : nat) (t : N) (els : list value) (k : list value).
  Hypothesis Hh : hget s0 KArr l = Some (OArr t els).

  Lemma hget_ip x : hget (set_ip s0 x) KArr l = Some (OArr t els).
  Proof. exact Hh. Qed.

  Lemma arr_get_traps idx : op i = 83 -> st_stack s0 = VInt idx :: VRef KArr l :: k ->
    legit AGet (N.of_nat (length els)) idx = false ->
    exists s', exec_instr c m s0 fr frs ip i n = SErr E_OOB s' /\ st_out s' = st_out s0.
  Proof.
    intros Ho Hs Hl. unfold exec_instr. rewrite Ho. cbn [st_stack set_ip]. rewrite Hs. cbn [pop]. rewrite hget_ip.
    cbn [aidx_of]. pose proof (oob_traps_guarded c EVm AGet _ idx Harr Hl) as E. simpl in E. rewrite E. eexists; split; reflexivity.
  Qed.
  Lemma arr_set_traps idx v : op i = 84 -> st_stack s0 = v :: VInt idx :: VRef KArr l :: k ->
    legit ASet (N.of_nat (length els)) idx = false ->
    exists s', exec_instr c m s0 fr frs ip i n = SErr E_OOB s' /\ st_out s' = st_out s0.
  Proof.
    intros Ho Hs Hl. unfold exec_instr. rewrite Ho. cbn [st_stack set_ip]. rewrite Hs. cbn [pop]. rewrite hget_ip.
    cbn [aidx_of]. pose proof (oob_traps_guarded c EVm ASet _ idx Harr Hl) as E. simpl in E. rewrite E. eexists; split; reflexivity.
  Qed.
  Lemma arr_remove_traps idx : op i = 87 -> st_stack s0 = VInt idx :: VRef KArr l :: k ->
    legit ARemove (N.of_nat (length els)) idx = false ->
    exists s', exec_instr c m s0 fr frs ip i n = SErr E_OOB s' /\ st_out s' = st_out s0.
  Proof.
    intros Ho Hs Hl. unfold exec_instr. rewrite Ho. cbn [st_stack set_ip]. rewrite Hs. cbn [pop]. rewrite hget_ip.
    cbn [aidx_of]. pose proof (oob_traps_guarded c EVm ARemove _ idx Harr Hl) as E. simpl in E. rewrite E. eexists; split; reflexivity.
  Qed.
End ArrTrap.

Lemma arr_pop_traps c m s0 fr frs ip n i l t k : fx_arr c = true -> op i = 82 -> st_stack s0 = VRef KArr l :: k ->
  hget s0 KArr l = Some (OArr t []) ->
  exists s', exec_instr c m s0 fr frs ip i n = SErr E_OOB s' /\ st_out s' = st_out s0.
Proof.
  intros Harr Ho Hs Hh. unfold exec_instr. rewrite Ho. cbn [st_stack set_ip]. rewrite Hs. cbn [pop].
  change (hget (set_ip s0 (add32 (st_ip s0) n)) KArr l) with (hget s0 KArr l). rewrite Hh.
  unfold vm_arr_pop. rewrite Harr. simpl. eexists; split; reflexivity.
Qed.

(* field / tuple / union index beyond the object's count traps in every cfg *)
Lemma tuple_get_traps c m s0 fr frs ip n i l els k : op i = 113 -> st_stack s0 = VRef KTuple l :: k ->
  hget s0 KTuple l = Some (OTuple els) -> N.of_nat (length els) <= arg i 0 ->
  exists s', exec_instr c m s0 fr frs ip i n = SErr E_OOB s' /\ st_out s' = st_out s0.
Proof.
  intros Ho Hs Hh Hl. unfold exec_instr. rewrite Ho. cbn [st_stack set_ip]. rewrite Hs. cbn [pop].
  change (hget (set_ip s0 (add32 (st_ip s0) n)) KTuple l) with (hget s0 KTuple l). rewrite Hh.
  rewrite (field_oob_traps _ _ Hl). eexists; split; reflexivity.
Qed.
Lemma struct_get_traps c m s0 fr frs ip n i l d fs k : op i = 97 -> st_stack s0 = VRef KStruct l :: k ->
  hget s0 KStruct l = Some (OStruct d fs) -> N.of_nat (length fs) <= arg i 0 ->
  exists s', exec_instr c m s0 fr frs ip i n = SErr E_OOB s' /\ st_out s' = st_out s0.
Proof.
  intros Ho Hs Hh Hl. unfold exec_instr. rewrite Ho. cbn [st_stack set_ip]. rewrite Hs. cbn [pop].
  change (hget (set_ip s0 (add32 (st_ip s0) n)) KStruct l) with (hget s0 KStruct l). rewrite Hh.
  rewrite (field_oob_traps _ _ Hl). eexists; split; reflexivity.
Qed.
Lemma union_field_traps c m s0 fr frs ip n i l d v fs k : op i = 106 -> st_stack s0 = VRef KUnion l :: k ->
  hget s0 KUnion l = Some (OUnion d v fs) -> N.of_nat (length fs) <= arg i 0 ->
  exists s', exec_instr c m s0 fr frs ip i n = SErr E_OOB s' /\ st_out s' = st_out s0.
Proof.
  intros Ho Hs Hh Hl. unfold exec_instr. rewrite Ho. cbn [st_stack set_ip]. rewrite Hs. cbn [pop].
  change (hget (set_ip s0 (add32 (st_ip s0) n)) KUnion l) with (hget s0 KUnion l). rewrite Hh.
  rewrite (field_oob_traps _ _ Hl). eexists; split; reflexivity.
Qed.

(* an instruction that decodes (its opcode is in the table) is never answered with VM_ERR_INVALID_OPCODE *)
Definition not_invalid (r : sres) : Prop := match r with SErr e _ => e <> E_INVALID_OPCODE | _ => True end.

Lemma do_return_ni s fr frs b : not_invalid (do_return s fr frs b).
Proof. unfold do_return. destruct (if _ <? _ then _ else _) as [r k]. destruct frs; [exact I|]. destruct b; exact I. Qed.
Lemma do_call_ni m s callee clos k : not_invalid (do_call m s callee clos k).
Proof. unfold do_call. destruct (nth_N _ _); [|simpl; discriminate]. destruct (_ <=? _); [simpl; discriminate|exact I]. Qed.
Lemma cmp_op_ni s f : not_invalid (cmp_op s f).
Proof. unfold cmp_op. destruct (pop (st_stack s)) as [b k1]. destruct (pop k1) as [a k2]. exact I. Qed.
Lemma arith_op_ni c s o : not_invalid (arith_op c s o).
Proof.
  unfold arith_op. destruct (pop (st_stack s)) as [b k1]. destruct (pop k1) as [a k2].
  destruct (as_arith a) as [| | | | | |ka ?| ]; destruct (as_arith b) as [| | | | | |kb ?| ];
  try destruct ka; try destruct kb; cbn [is_arr orb];
  repeat match goal with |- context [if ?b then _ else _] => destruct b end;
  first [exact I | simpl; discriminate].
Qed.

Lemma exec_instr_not_invalid c m s0 fr frs ip i n : table (op i) <> None -> not_invalid (exec_instr c m s0 fr frs ip i n).
Proof.
  intros HT. unfold exec_instr.
  set (s := set_ip s0 (add32 (st_ip s0) n)). clearbody s.
  remember (st_stack s) as k eqn:Ek.
  destruct (op i) as [|p]; [|repeat match goal with |- context [match ?q with xI _ => _ | xO _ => _ | xH => _ end] => is_var q; destruct q end].
  all: try exact I.
  all: try (exfalso; apply HT; vm_compute; reflexivity).
  all: try (simpl; discriminate).
  all: try apply arith_op_ni.
  all: try apply cmp_op_ni.
  all: try apply do_return_ni.
  all: unfold as_arith.
  all: repeat match goal with
       | |- context [pop ?kk] => is_var kk; destruct kk as [|? kk]; cbn [pop]
       | |- context [match ?kk with [] => _ | _ :: _ => _ end] => is_var kk; destruct kk as [|? kk]
       | |- context [match ?v with VVoid => _ | VInt _ => _ | VU8 _ => _ | VBool _ => _ | VStr _ => _ | VEnum _ => _ | VRef _ _ => _ | VOpaque _ => _ end] =>
           is_var v; destruct v
       | |- context [match ?kd with KArr => _ | KStruct => _ | KUnion => _ | KTuple => _ | KClos => _ end] => is_var kd; destruct kd
       end.
  all: try exact I.
  all: try (simpl; discriminate).
  all: repeat match goal with
       | |- context [hget ?a ?b ?d] => destruct (hget a b d) as [[]|]
       | |- context [fr_clos ?f] => destruct (fr_clos f)
       end.
  all: try exact I.
  all: try apply do_call_ni.
  all: repeat match goal with |- context [take_args ?a ?b] => destruct (take_args a b) as [? ?] end.
  all: cbv beta iota zeta delta [alloc].
  all: repeat match goal with
       | |- context [match ?a with AElem _ => _ | AVoid => _ | ANoop => _ | ATrap => _ end] => destruct a
       | |- context [match ?a with PCrash => _ | PUnmod => _ | POk _ => _ end] => destruct a
       | |- context [match get_bot ?a ?b with Some _ => _ | None => _ end] => destruct (get_bot a b)
       | |- not_invalid (if ?b then _ else _) => destruct b
       end.
  all: try exact I.
  all: try (simpl; discriminate).
Qed.

Lemma decode_in_table T bs i n : decode T bs = Some (i, n) -> T (op i) <> None.
Proof.
  unfold decode. destruct bs as [|o r]; [discriminate|]. destruct (T o) eqn:E; [|discriminate].
  destruct (dec_args l r) as [[vs n']|]; [|discriminate]. intros [= <- <-]. simpl. congruence.
Qed.
Lemma fetch_ok_in_table m start avail i n : fetch m start avail = FOk i n -> table (op i) <> None.
Proof.
  unfold fetch.
  destruct (avail =? 0); [discriminate|].
  destruct (m_cap m <=? start); [discriminate|].
  destruct ((N.of_nat (length (m_code m)) <=? start) && negb (m_cap m =? 4096)); [discriminate|].
  destruct (table _) as [ks|]; [|discriminate].
  destruct (m_cap m <? _); [discriminate|].
  destruct ((N.of_nat (length (m_code m)) <? _) && negb (m_cap m =? 4096)); [discriminate|].
  destruct (decode table _) as [[i' n']|] eqn:E; [|discriminate]. intros [= <- <-]. eapply decode_in_table; eassumption.
Qed.
