(* One instruction of vm_core_execute (src/nanovm/vm.c), with the runtime harness' handling of the
   PRINT / ASSERT traps folded in (vm_call_function prints and re-enters the core at the same state).
   Modelled opcode set = every opcode of the table EXCEPT: PUSH_F64, STR_FROM_FLOAT on a float, CAST_FLOAT,
   the eight HM_* opcodes, arithmetic on arrays (element-wise / broadcast forms of ADD SUB MUL DIV),
   CALL_EXTERN with a valid import index.  Those end the model run with SUnmod.  Printing a closure value ("fn(<pointer bits>)")
   is modelled with a placeholder for the digits.  C behaviours mirrored: stack_pop on empty = void, u32
   arithmetic of stack_base / abs_idx / jump targets, (uint32_t) index casts, INT64_MIN / -1 = SIGFPE,
   the int16 loop counter of CLOSURE_NEW, implicit return when ip reaches code_end.
   Definitions only (extracted). *)
From Coq Require Import NArith ZArith List Bool.
From NV Require Import Base.Bytes Isa.Codec gen.IsaTable Nvm.LoaderC Nvm.Verifier Vm.Value Vm.Bounds.
Import ListNotations.
Local Open Scope N_scope.

Record frame := { fr_fn : N; fr_ret : N; fr_base : N; fr_locals : N; fr_clos : option nat }.
Record state := {
  st_stack : list value;            (* head = top of the operand stack *)
  st_frames : list frame;           (* head = current frame; length = frame_count *)
  st_ip : N; st_fn : N;
  st_globals : list (N * value);    (* association list over the 4096 slots; absent = void (memset 0) *)
  st_heap : heap;
  st_out : list byte                (* stdout, most recent byte first *)
}.

Inductive sres :=
| SNext (s : state)
| SDone (s : state)                 (* TRAP_NONE / TRAP_HALT: vm_call_function returns VM_OK *)
| SErr (code : N) (s : state)       (* TRAP_ERROR / failed assertion: VmResult code *)
| SCrash | SSignal (n : N) | SUnmod.

Definition VM_MAX_FRAMES := 1024.
Definition VM_MAX_GLOBALS := 4096.
Definition E_CALL_DEPTH := 3. Definition E_INVALID_OPCODE := 4. Definition E_TYPE := 5. Definition E_OOB := 6.
Definition E_ASSERT := 8. Definition E_UNDEF_FN := 10. Definition E_NOT_IMPL := 11. Definition E_DECODE := 13.
Definition SIGFPE := 8.

Definition set_stack (s : state) (k : list value) : state :=
  {| st_stack := k; st_frames := st_frames s; st_ip := st_ip s; st_fn := st_fn s; st_globals := st_globals s;
     st_heap := st_heap s; st_out := st_out s |}.
Definition set_heap (s : state) (h : heap) : state :=
  {| st_stack := st_stack s; st_frames := st_frames s; st_ip := st_ip s; st_fn := st_fn s; st_globals := st_globals s;
     st_heap := h; st_out := st_out s |}.
Definition set_ip (s : state) (ip : N) : state :=
  {| st_stack := st_stack s; st_frames := st_frames s; st_ip := ip; st_fn := st_fn s; st_globals := st_globals s;
     st_heap := st_heap s; st_out := st_out s |}.
Definition set_globals (s : state) (g : list (N * value)) : state :=
  {| st_stack := st_stack s; st_frames := st_frames s; st_ip := st_ip s; st_fn := st_fn s; st_globals := g;
     st_heap := st_heap s; st_out := st_out s |}.
Definition set_out (s : state) (o : list byte) : state :=
  {| st_stack := st_stack s; st_frames := st_frames s; st_ip := st_ip s; st_fn := st_fn s; st_globals := st_globals s;
     st_heap := st_heap s; st_out := o |}.
Definition set_ctl (s : state) (fs : list frame) (fnidx ip : N) : state :=
  {| st_stack := st_stack s; st_frames := fs; st_ip := ip; st_fn := fnidx; st_globals := st_globals s;
     st_heap := st_heap s; st_out := st_out s |}.

Definition ssize (s : state) : N := N.of_nat (length (st_stack s)).
Definition push (v : value) (s : state) : state := set_stack s (v :: st_stack s).
Definition pop (k : list value) : value * list value := match k with [] => (VVoid, []) | v :: r => (v, r) end.

(* stack slot counted from the bottom (the C index) *)
Definition get_bot (k : list value) (abs : N) : option value :=
  let n := N.of_nat (length k) in if abs <? n then nth_error k (N.to_nat (n - 1 - abs)) else None.
Fixpoint set_nth {A} (l : list A) (i : nat) (x : A) : list A :=
  match l, i with [], _ => [] | _ :: r, O => x :: r | a :: r, S j => a :: set_nth r j x end.
Definition set_bot (k : list value) (abs : N) (v : value) : list value :=
  let n := N.of_nat (length k) in if abs <? n then set_nth k (N.to_nat (n - 1 - abs)) v else k.
(* keep the bottom [base] slots: while (stack_size > base) pop *)
Definition keep_bot (k : list value) (base : N) : list value :=
  let n := N.of_nat (length k) in if base <? n then skipn (N.to_nat (n - base)) k else k.

(* pop [count] values, C order: elements[count-1-i] = stack_pop(): result in push order, missing ones (empty stack) are void *)
Definition take_args (count : N) (k : list value) : list value * list value :=
  let n := N.of_nat (length k) in
  let m := N.min count n in
  (repeat VVoid (N.to_nat (count - m)) ++ rev_append (firstn (N.to_nat m) k) [], skipn (N.to_nat m) k).   (* rev_append: linear-time reversal *)

Fixpoint gl_get (g : list (N * value)) (i : N) : value :=
  match g with [] => VVoid | (j, v) :: r => if j =? i then v else gl_get r i end.
Fixpoint gl_set (g : list (N * value)) (i : N) (v : value) : list (N * value) :=
  match g with [] => [(i, v)] | (j, w) :: r => if j =? i then (i, v) :: r else (j, w) :: gl_set r i v end.

Definition alloc (s : state) (o : obj) : nat * state := (length (st_heap s), set_heap s (st_heap s ++ [o])).
Definition hget (s : state) (k : kind) (l : nat) : option obj :=
  match nth_error (st_heap s) l with Some o => if kind_eqb (kind_of o) k then Some o else None | None => None end.
Definition hset (s : state) (l : nat) (o : obj) : state := set_heap s (set_nth (st_heap s) l o).

Definition nth_N {A} (l : list A) (i : N) : option A :=
  if i <? N.of_nat (length l) then nth_error l (N.to_nat i) else None.
Definition remove_nth {A} (l : list A) (i : nat) : list A := firstn i l ++ skipn (S i) l.

Definition emit (s : state) (bs : list byte) : state := set_out s (rev_append bs (st_out s)).

(* int coercions used by the arithmetic opcodes *)
Definition as_arith (v : value) : value := match v with VEnum z => VInt z | _ => v end.
Definition is_arr (v : value) : bool := match v with VRef KArr _ => true | _ => false end.
Definition idx_of (v : value) : Z := match v with VInt z => z | _ => 0%Z end.
(* index operand of OP_ARR_GET / SET / REMOVE: the range-checking code also accepts an enum value as its integer *)
Definition aidx_of (c : cfg) (v : value) : Z :=
  match v with VInt z => z | VEnum z => if fx_arr c then z else 0%Z | _ => 0%Z end.

(* implicit / explicit return: pops result and locals, pops the frame *)
Definition do_return (s : state) (fr : frame) (frs : list frame) (falloff : bool) : sres :=
  let k0 := st_stack s in
  let '(result, k1) := if add32 (fr_base fr) (fr_locals fr) <? N.of_nat (length k0) then pop k0 else (VVoid, k0) in
  let k2 := keep_bot k1 (fr_base fr) in
  match frs with
  | [] => SDone (set_ctl (set_stack s (result :: k2)) [] (st_fn s) (st_ip s))
  | caller :: _ =>
      let ip' := if falloff then fr_ret caller else fr_ret fr in
      let s' := set_ctl (set_stack s (result :: k2)) frs (fr_fn caller) ip' in
      if falloff then SDone s' else SNext s'
  end.

(* common tail of CALL / CALL_INDIRECT / CLOSURE_CALL *)
Definition do_call (m : module) (s : state) (callee_idx : N) (clos : option nat) (k : list value) : sres :=
  match nth_N (m_funs m) callee_idx with
  | None => SErr E_UNDEF_FN s
  | Some callee =>
      if VM_MAX_FRAMES <=? N.of_nat (length (st_frames s)) then SErr E_CALL_DEPTH s else
      let n := N.of_nat (length k) in
      let new_base := u32 (n + two32 - f_arity callee) in
      let extra := if f_arity callee <? f_locals callee then f_locals callee - f_arity callee else 0 in
      let fr := {| fr_fn := callee_idx; fr_ret := st_ip s; fr_base := new_base; fr_locals := f_locals callee; fr_clos := clos |} in
      SNext (set_ctl (set_stack s (repeat VVoid (N.to_nat extra) ++ k)) (fr :: st_frames s) callee_idx (f_off callee))
  end.

Definition jump_to (s : state) (instr_start off32 : N) : state :=
  set_ip s (Z.to_N ((Z.of_N instr_start + to_signed 32 off32) mod 4294967296)%Z).

Definition cmp_op (s : state) (f : Z -> bool) : sres :=
  let '(b, k1) := pop (st_stack s) in let '(a, k2) := pop k1 in
  SNext (set_stack s (VBool (f (val_compare a b)) :: k2)).

Definition arith_op (c : cfg) (s : state) (o : N) : sres :=
  let '(b0, k1) := pop (st_stack s) in let '(a0, k2) := pop k1 in
  let a := as_arith a0 in      (* ADD SUB MUL DIV MOD all coerce enum operands to int *)
  let b := as_arith b0 in
  match a, b with
  | VInt x, VInt y =>
      if o =? 32 then SNext (set_stack s (VInt (wrap64 (x + y)) :: k2))
      else if o =? 33 then SNext (set_stack s (VInt (wrap64 (x - y)) :: k2))
      else if o =? 34 then SNext (set_stack s (VInt (wrap64 (x * y)) :: k2))
      else if o =? 35 then
        if (y =? 0)%Z then SNext (set_stack s (VInt 0 :: k2))
        else if negb (fx_div c) && (x =? INT64_MIN)%Z && (y =? -1)%Z then SSignal SIGFPE
        else SNext (set_stack s (VInt (wrap64 (Z.quot x y)) :: k2))
      else
        if (y =? 0)%Z then SNext (set_stack s (VInt 0 :: k2))
        else if negb (fx_div c) && (x =? INT64_MIN)%Z && (y =? -1)%Z then SSignal SIGFPE
        else SNext (set_stack s (VInt (Z.rem x y) :: k2))
  | VStr x, VStr y => if o =? 32 then SNext (set_stack s (VStr (x ++ y) :: k2)) else SErr E_TYPE s
  | _, _ =>
      if o =? 36 then SErr E_TYPE s
      else if is_arr a || is_arr b then
        (* array forms exist for ADD (int/float/string partner), SUB MUL DIV (int/float partner) *)
        match (if is_arr a then b else a) with
        | VRef KArr _ | VInt _ => SUnmod
        | VStr _ => if o =? 32 then SUnmod else SErr E_TYPE s
        | _ => SErr E_TYPE s
        end
      else SErr E_TYPE s
  end.

Definition print_limit (c : cfg) : option nat := if fx_print c then Some 128%nat else None.
(* pinned tree: a chain of references longer than the heap repeats a cell, i.e. the C recursion never ends (stack overflow) *)
Definition print_fuel (c : cfg) (h : heap) : nat := if fx_print c then 132%nat else S (S (length h)).

Definition exec_instr (c : cfg) (m : module) (s0 : state) (fr : frame) (frs : list frame) (instr_start : N) (i : instr) (n : N) : sres :=
  let s := set_ip s0 (add32 (st_ip s0) n) in
  let k := st_stack s in
  let a0 := arg i 0 in let a1 := arg i 1 in let a2 := arg i 2 in
  match op i with
  | 0 => SNext s
  | 1 => SNext (push (VInt (to_signed 64 a0)) s)
  | 2 => SUnmod
  | 3 => SNext (push (VBool (negb (a0 =? 0))) s)
  | 4 => SNext (push (VStr (cstr (match nth_N (m_strings m) a0 with Some x => x | None => [] end))) s)
  | 5 => SNext (push VVoid s)
  | 6 => SNext (push (VU8 a0) s)
  | 7 => SNext (push (match k with v :: _ => v | [] => VVoid end) s)
  | 8 => SNext (set_stack s (snd (pop k)))
  | 9 => match k with a :: b :: r => SNext (set_stack s (b :: a :: r)) | _ => SNext s end
  | 10 => match k with a :: b :: c0 :: r => SNext (set_stack s (b :: c0 :: a :: r)) | _ => SNext s end
  | 16 => let abs := add32 (fr_base fr) a0 in
          match get_bot k abs with Some v => SNext (push v s) | None => SErr E_OOB s end
  | 17 => let abs := add32 (fr_base fr) a0 in
          if abs <? N.of_nat (length k) then
            let '(v, k1) := pop k in SNext (set_stack s (set_bot k1 abs v))
          else SErr E_OOB s
  | 18 => if VM_MAX_GLOBALS <=? a0 then SErr E_OOB s else SNext (push (gl_get (st_globals s) a0) s)
  | 19 => if VM_MAX_GLOBALS <=? a0 then SErr E_OOB s else
          let '(v, k1) := pop k in SNext (set_globals (set_stack s k1) (gl_set (st_globals s) a0 v))
  | 20 => match fr_clos fr with
          | Some l => match hget s KClos l with
                      | Some (OClos _ caps) => SNext (push (match nth_N caps a1 with Some v => v | None => VVoid end) s)
                      | _ => SCrash end
          | None => SNext (push VVoid s)
          end
  | 21 => let '(v, k1) := pop k in
          match fr_clos fr with
          | Some l => match hget s KClos l with
                      | Some (OClos f caps) =>
                          if a1 <? N.of_nat (length caps)
                          then SNext (hset (set_stack s k1) l (OClos f (set_nth caps (N.to_nat a1) v)))
                          else SNext (set_stack s k1)
                      | _ => SCrash end
          | None => SNext (set_stack s k1)
          end
  | 32 | 33 | 34 | 35 | 36 => arith_op c s (op i)
  | 37 => let '(a, k1) := pop k in
          match as_arith a with VInt x => SNext (set_stack s (VInt (wrap64 (- x)) :: k1)) | _ => SErr E_TYPE s end
  | 40 => let '(b, k1) := pop k in let '(a, k2) := pop k1 in SNext (set_stack s (VBool (val_equal a b) :: k2))
  | 41 => let '(b, k1) := pop k in let '(a, k2) := pop k1 in SNext (set_stack s (VBool (negb (val_equal a b)) :: k2))
  | 42 => cmp_op s (fun r => r <? 0)%Z
  | 43 => cmp_op s (fun r => r <=? 0)%Z
  | 44 => cmp_op s (fun r => 0 <? r)%Z
  | 45 => cmp_op s (fun r => 0 <=? r)%Z
  | 48 => let '(b, k1) := pop k in let '(a, k2) := pop k1 in SNext (set_stack s (VBool (truthy a && truthy b) :: k2))
  | 49 => let '(b, k1) := pop k in let '(a, k2) := pop k1 in SNext (set_stack s (VBool (truthy a || truthy b) :: k2))
  | 50 => let '(a, k1) := pop k in SNext (set_stack s (VBool (negb (truthy a)) :: k1))
  | 56 => SNext (jump_to s instr_start a0)
  | 57 => let '(cnd, k1) := pop k in
          SNext (if truthy cnd then jump_to (set_stack s k1) instr_start a0 else set_stack s k1)
  | 58 => let '(cnd, k1) := pop k in
          SNext (if truthy cnd then set_stack s k1 else jump_to (set_stack s k1) instr_start a0)
  | 59 => do_call m s a0 None k
  | 60 => let '(fv, k1) := pop k in
          match fv with
          | VRef KClos l => match hget s KClos l with
                            | Some (OClos f _) => do_call m (set_stack s k1) f (Some l) k1
                            | _ => SCrash end
          | _ => SErr E_TYPE (set_stack s k1)
          end
  | 61 => do_return s fr frs false
  | 62 => if N.of_nat (length (m_imports m)) <=? a0 then SErr E_OOB s else SUnmod
  | 63 => SErr E_OOB s                                   (* linked_module_count = 0 in nano_vm / the probe *)
  | 64 => let '(v, k1) := pop k in
          match v with VStr x => SNext (set_stack s (VInt (Z.of_nat (length x)) :: k1)) | _ => SErr E_TYPE (set_stack s k1) end
  | 65 | 68 | 67 =>
          let '(b, k1) := pop k in let '(a, k2) := pop k1 in
          match a, b with
          | VStr x, VStr y =>
              SNext (set_stack s ((if op i =? 65 then VStr (x ++ y)
                                   else if op i =? 68 then VBool (bytes_eq x y)
                                   else VBool (str_contains x y)) :: k2))
          | _, _ => SErr E_TYPE (set_stack s k2)
          end
  | 66 => let '(lv, k1) := pop k in let '(sv, k2) := pop k1 in let '(str, k3) := pop k2 in
          match str with
          | VStr x =>
              let slen := N.of_nat (length x) in
              let start := u32z (idx_of sv) in let len := u32z (idx_of lv) in
              if slen <=? start then SNext (set_stack s (VStr [] :: k3)) else
              let len' := if fx_substr c then (if slen - start <? len then slen - start else len)
                          else (if slen <? add32 start len then slen - start else len) in
              (* vm_string_new(data + start, len'): fnv1a / memcpy read len' bytes of a (length+1)-byte block *)
              if slen + 1 <? start + len' then SCrash
              else SNext (set_stack s (VStr (firstn (N.to_nat len') (skipn (N.to_nat start) (x ++ [0]))) :: k3))
          | _ => SErr E_TYPE (set_stack s k3)
          end
  | 69 => let '(iv, k1) := pop k in let '(str, k2) := pop k1 in
          match str with
          | VStr x =>
              let cs := cstr x in let idx := idx_of iv in
              let ch := if (0 <=? idx)%Z && (idx <? Z.of_nat (length cs))%Z
                        then Z.of_N (nth (Z.to_nat idx) cs 0) else (-1)%Z in
              SNext (set_stack s (VInt ch :: k2))
          | _ => SErr E_TYPE (set_stack s k2)
          end
  | 70 => let '(v, k1) := pop k in SNext (set_stack s (VStr (dec_of_Z (idx_of v)) :: k1))
  | 71 => let '(v, k1) := pop k in SNext (set_stack s (VStr [48] :: k1))   (* no float value exists in the model: "%g" of 0.0 *)
  | 80 => let '(l, s1) := alloc s (OArr a0 []) in SNext (push (VRef KArr l) s1)
  | 81 => let '(v, k1) := pop k in let '(av, k2) := pop k1 in
          match av with
          | VRef KArr l => match hget s KArr l with
                           | Some (OArr t els) => SNext (hset (set_stack s (av :: k2)) l (OArr t (els ++ [v])))
                           | _ => SCrash end
          | _ => SErr E_TYPE (set_stack s k2)
          end
  | 82 => let '(av, k1) := pop k in
          match av with
          | VRef KArr l =>
              match hget s KArr l with
              | Some (OArr t els) =>
                  match vm_arr_pop c (N.of_nat (length els)) with
                  | AElem _ => SNext (hset (set_stack s (av :: last els VVoid :: k1)) l (OArr t (removelast els)))
                  | ATrap => SErr E_OOB (set_stack s k1)
                  | _ => SNext (set_stack s (av :: VVoid :: k1))
                  end
              | _ => SCrash end
          | _ => SErr E_TYPE (set_stack s k1)
          end
  | 83 => let '(iv, k1) := pop k in let '(av, k2) := pop k1 in
          match av with
          | VRef KArr l =>
              match hget s KArr l with
              | Some (OArr t els) =>
                  match vm_arr_get c (N.of_nat (length els)) (aidx_of c iv) with
                  | AElem j => SNext (set_stack s (nth (N.to_nat j) els VVoid :: k2))
                  | ATrap => SErr E_OOB (set_stack s k2)
                  | _ => SNext (set_stack s (VVoid :: k2))
                  end
              | _ => SCrash end
          | _ => SErr E_TYPE (set_stack s k2)
          end
  | 84 => let '(v, k1) := pop k in let '(iv, k2) := pop k1 in let '(av, k3) := pop k2 in
          match av with
          | VRef KArr l =>
              match hget s KArr l with
              | Some (OArr t els) =>
                  match vm_arr_set c (N.of_nat (length els)) (aidx_of c iv) with
                  | AElem j => SNext (hset (set_stack s (av :: k3)) l (OArr t (set_nth els (N.to_nat j) v)))
                  | ATrap => SErr E_OOB (set_stack s k3)
                  | _ => SNext (set_stack s (av :: k3))
                  end
              | _ => SCrash end
          | _ => SErr E_TYPE (set_stack s k3)
          end
  | 85 => let '(av, k1) := pop k in
          match av with
          | VRef KArr l => match hget s KArr l with
                           | Some (OArr _ els) => SNext (set_stack s (VInt (Z.of_nat (length els)) :: k1))
                           | _ => SCrash end
          | _ => SErr E_TYPE (set_stack s k1)
          end
  | 86 => let '(ev, k1) := pop k in let '(sv, k2) := pop k1 in let '(av, k3) := pop k2 in
          match av with
          | VRef KArr l =>
              match hget s KArr l with
              | Some (OArr t els) =>
                  let len := N.of_nat (length els) in
                  let st0 := u32z (idx_of sv) in
                  let en0 := match ev with VInt z => u32z z | _ => len end in
                  let st1 := if len <=? st0 then len else st0 in
                  let en1 := if len <? en0 then len else en0 in
                  let els' := if en1 <=? st1 then [] else firstn (N.to_nat (en1 - st1)) (skipn (N.to_nat st1) els) in
                  let '(l', s1) := alloc (set_stack s k3) (OArr t els') in SNext (push (VRef KArr l') s1)
              | _ => SCrash end
          | _ => SErr E_TYPE (set_stack s k3)
          end
  | 87 => let '(iv, k1) := pop k in let '(av, k2) := pop k1 in
          match av with
          | VRef KArr l =>
              match hget s KArr l with
              | Some (OArr t els) =>
                  match vm_arr_remove c (N.of_nat (length els)) (aidx_of c iv) with
                  | AElem j => SNext (hset (set_stack s (av :: k2)) l (OArr t (remove_nth els (N.to_nat j))))
                  | ATrap => SErr E_OOB (set_stack s k2)
                  | _ => SNext (set_stack s (av :: k2))
                  end
              | _ => SCrash end
          | _ => SErr E_TYPE (set_stack s k2)
          end
  | 88 => let '(els, k1) := take_args a1 k in
          let '(l, s1) := alloc (set_stack s k1) (OArr a0 els) in SNext (push (VRef KArr l) s1)
  | 96 => let '(l, s1) := alloc s (OStruct a0 []) in SNext (push (VRef KStruct l) s1)
  | 97 => let '(sv, k1) := pop k in
          match sv with
          | VRef KStruct l => match hget s KStruct l with
                              | Some (OStruct _ fs) =>
                                  match vm_field (N.of_nat (length fs)) a0 with
                                  | AElem j => SNext (set_stack s (nth (N.to_nat j) fs VVoid :: k1))
                                  | _ => SErr E_OOB (set_stack s k1) end
                              | _ => SCrash end
          | _ => SErr E_TYPE (set_stack s k1)
          end
  | 98 => let '(v, k1) := pop k in let '(sv, k2) := pop k1 in
          match sv with
          | VRef KStruct l => match hget s KStruct l with
                              | Some (OStruct d fs) =>
                                  match vm_field (N.of_nat (length fs)) a0 with
                                  | AElem j => SNext (hset (set_stack s (sv :: k2)) l (OStruct d (set_nth fs (N.to_nat j) v)))
                                  | _ => SErr E_OOB (set_stack s k2) end
                              | _ => SCrash end
          | _ => SErr E_TYPE (set_stack s k2)
          end
  | 99 => let '(fs, k1) := take_args a1 k in
          let '(l, s1) := alloc (set_stack s k1) (OStruct a0 fs) in SNext (push (VRef KStruct l) s1)
  | 104 => let '(fs, k1) := take_args a2 k in
           let '(l, s1) := alloc (set_stack s k1) (OUnion a0 a1 fs) in SNext (push (VRef KUnion l) s1)
  | 105 => let '(uv, k1) := pop k in
           match uv with
           | VRef KUnion l => match hget s KUnion l with
                              | Some (OUnion _ var _) => SNext (set_stack s (VInt (Z.of_N var) :: k1))
                              | _ => SCrash end
           | _ => SErr E_TYPE (set_stack s k1)
           end
  | 106 => let '(uv, k1) := pop k in
           match uv with
           | VRef KUnion l => match hget s KUnion l with
                              | Some (OUnion _ _ fs) =>
                                  match vm_field (N.of_nat (length fs)) a0 with
                                  | AElem j => SNext (set_stack s (nth (N.to_nat j) fs VVoid :: k1))
                                  | _ => SErr E_OOB (set_stack s k1) end
                              | _ => SCrash end
           | _ => SErr E_TYPE (set_stack s k1)
           end
  | 107 => match k with
           | VRef KUnion l :: _ => match hget s KUnion l with
                                   | Some (OUnion _ var _) => SNext (if var =? a0 then jump_to s instr_start a1 else s)
                                   | _ => SCrash end
           | _ => SNext s
           end
  | 108 => SNext (push (VEnum (Z.of_N a1)) s)
  | 112 => let '(els, k1) := take_args a0 k in
           let '(l, s1) := alloc (set_stack s k1) (OTuple els) in SNext (push (VRef KTuple l) s1)
  | 113 => let '(tv, k1) := pop k in
           match tv with
           | VRef KTuple l => match hget s KTuple l with
                              | Some (OTuple els) =>
                                  match vm_field (N.of_nat (length els)) a0 with
                                  | AElem j => SNext (set_stack s (nth (N.to_nat j) els VVoid :: k1))
                                  | _ => SErr E_OOB (set_stack s k1) end
                              | _ => SCrash end
           | _ => SErr E_TYPE (set_stack s k1)
           end
  | 120 | 121 | 122 | 123 | 124 | 125 | 126 | 127 => SUnmod
  | 128 | 130 | 131 | 162 => SNext s
  | 129 => SNext (set_stack s (snd (pop k)))
  | 136 => let '(v, k1) := pop k in
           SNext (set_stack s (VInt (match v with
                                     | VInt z => z | VBool b => if b then 1 else 0 | VU8 x => Z.of_N x | VEnum z => z
                                     | VStr x => strtoll x | _ => 0 end)%Z :: k1))
  | 137 => SUnmod
  | 138 => let '(v, k1) := pop k in SNext (set_stack s (VBool (truthy v) :: k1))
  | 139 => let '(v, k1) := pop k in
           SNext (set_stack s (VStr (match v with
                                     | VStr x => x | VInt z => dec_of_Z z | VBool b => if b then str_true else str_false
                                     | VEnum z => dec_of_Z z
                                     | _ => [] end) :: k1))
  | 140 => let '(v, k1) := pop k in SNext (set_stack s (VBool (tag_of v =? Z.of_N a0)%Z :: k1))
  | 144 => (* for (int16_t i = (int16_t)(capture_count - 1); i >= 0; i--) captures[i] = stack_pop() *)
           let npop := if (a1 =? 0) || (32768 <? a1) then 0 else a1 in
           let '(popped, k1) := take_args npop k in
           let caps := popped ++ repeat VVoid (N.to_nat (a1 - npop)) in
           let '(l, s1) := alloc (set_stack s k1) (OClos a0 caps) in SNext (push (VRef KClos l) s1)
  | 145 => let '(fv, k1) := pop k in
           match fv with
           | VRef KClos l => match hget s KClos l with
                             | Some (OClos f _) => do_call m (set_stack s k1) f (Some l) k1
                             | _ => SCrash end
           | _ => SErr E_TYPE (set_stack s k1)
           end
  | 160 | 164 =>
           let '(v, k1) := pop k in
           match print_val (st_heap s) (print_limit c) (print_fuel c (st_heap s)) 0 v with
           | POk bs => SNext (emit (set_stack s k1) (if op i =? 164 then bs ++ [10] else bs))
           | PUnmod => SUnmod
           | PCrash => SCrash
           end
  | 161 => let '(v, k1) := pop k in if truthy v then SNext (set_stack s k1) else SErr E_ASSERT (set_stack s k1)
  | 163 => SDone s
  | 176 => SNext (push (VOpaque 0) s)
  | 177 => let '(v, k1) := pop k in
           SNext (set_stack s (VBool (match v with VOpaque x => negb (x =? 0) | _ => false end) :: k1))
  | _ => SErr E_INVALID_OPCODE s
  end.
