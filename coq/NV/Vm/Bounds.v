(* C08: what each engine computes for an array access at (length len, index idx : Z) and for the
   field/tuple index operations.  One function per (engine, access kind), written as the C computes it:
     VM          src/nanovm/vm.c OP_ARR_GET/SET/POP/REMOVE + heap.c vm_array_get/set/pop/remove
                 ((uint32_t) cast of the int64 index, then `index >= length`)
     native      src/runtime/dyn_array.c dyn_array_get_* / set_* / remove_at (assert on the int64 index),
                 dyn_array_pop_* (success flag, ignored by the emitted C)
     interpreter src/eval.c builtin_at / builtin_array_set / builtin_array_pop / builtin_array_remove_at
   Result: which element is touched, or how the operation ends.  Definitions only (extracted). *)
From Coq Require Import NArith ZArith List Bool.
From NV Require Import Base.Bytes Nvm.LoaderC Vm.Value.
Import ListNotations.
Local Open Scope Z_scope.

Inductive acc :=
| AElem (i : N)     (* element i of the object is read / written / removed and the program continues *)
| AVoid             (* no element touched; the operation yields a value (void / 0) and the program continues *)
| ANoop             (* no element touched; nothing written; the program continues *)
| ATrap.            (* the run stops: VM error / assert abort / exit(1); no value produced *)

Inductive engine := EVm | ENative | EInterp.
Inductive akind := AGet | ASet | APop | ARemove.

(* ---- NanoVM ---- *)
Definition in_range (len : N) (idx : Z) : bool := (0 <=? idx) && (idx <? Z.of_N len).
Definition vm_arr_get (c : cfg) (len : N) (idx : Z) : acc :=
  if fx_arr c then (if in_range len idx then AElem (Z.to_N idx) else ATrap)
  else let i := u32z idx in if (i <? len)%N then AElem i else AVoid.
Definition vm_arr_set (c : cfg) (len : N) (idx : Z) : acc :=
  if fx_arr c then (if in_range len idx then AElem (Z.to_N idx) else ATrap)
  else let i := u32z idx in if (i <? len)%N then AElem i else ANoop.
Definition vm_arr_remove (c : cfg) (len : N) (idx : Z) : acc :=
  if fx_arr c then (if in_range len idx then AElem (Z.to_N idx) else ATrap)
  else let i := u32z idx in if (i <? len)%N then AElem i else ANoop.
Definition vm_arr_pop (c : cfg) (len : N) : acc :=
  if (len =? 0)%N then (if fx_arr c then ATrap else AVoid) else AElem (len - 1)%N.

(* STRUCT_GET / STRUCT_SET / UNION_FIELD / TUPLE_GET: u16 operand against the object's count *)
Definition vm_field (count : N) (idx : N) : acc := if (idx <? count)%N then AElem idx else ATrap.

(* ---- native runtime (dyn_array.c): assert(index >= 0 && index < arr->length) -> abort() ---- *)
Definition native_get (len : N) (idx : Z) : acc := if in_range len idx then AElem (Z.to_N idx) else ATrap.
Definition native_set (len : N) (idx : Z) : acc := if in_range len idx then AElem (Z.to_N idx) else ATrap.
Definition native_remove (len : N) (idx : Z) : acc := if in_range len idx then AElem (Z.to_N idx) else ATrap.
(* dyn_array_pop_int: length == 0 -> *success = false; return 0; the transpiled expression ignores _s *)
Definition native_pop (c : cfg) (len : N) : acc := if (len =? 0)%N then (if fx_npop c then ATrap else AVoid) else AElem (len - 1)%N.

(* ---- interpreter (eval.c builtins; run by nanoc for shadow tests) ---- *)
Definition interp_get (len : N) (idx : Z) : acc := if in_range len idx then AElem (Z.to_N idx) else ATrap.   (* exit(1) *)
Definition interp_set (len : N) (idx : Z) : acc := if in_range len idx then AElem (Z.to_N idx) else ATrap.
Definition interp_remove (len : N) (idx : Z) : acc := if in_range len idx then AElem (Z.to_N idx) else ATrap.
(* builtin_array_pop: "Error: array_pop() on empty array", returns void, evaluation continues *)
Definition interp_pop (c : cfg) (len : N) : acc := if (len =? 0)%N then (if fx_ipop c then ATrap else AVoid) else AElem (len - 1)%N.

Definition access (c : cfg) (e : engine) (k : akind) (len : N) (idx : Z) : acc :=
  match e, k with
  | EVm, AGet => vm_arr_get c len idx | EVm, ASet => vm_arr_set c len idx
  | EVm, ARemove => vm_arr_remove c len idx | EVm, APop => vm_arr_pop c len
  | ENative, AGet => native_get len idx | ENative, ASet => native_set len idx
  | ENative, ARemove => native_remove len idx | ENative, APop => native_pop c len
  | EInterp, AGet => interp_get len idx | EInterp, ASet => interp_set len idx
  | EInterp, ARemove => interp_remove len idx | EInterp, APop => interp_pop c len
  end.

(* the access is legitimate: the index (for pop: the last element) exists *)
Definition legit (k : akind) (len : N) (idx : Z) : bool :=
  match k with APop => negb (len =? 0)%N | _ => in_range len idx end.
