(* vm_safe: the dispatch loop, vm_call_function, vm_execute and the whole pipeline never reach Crash / Signal
   (for the modelled opcode set) once the repairs are present; computed witnesses for the pinned tree. *)
From Coq Require Import NArith ZArith List Bool Lia.
From NV Require Import Base.Bytes Isa.Codec gen.IsaTable Nvm.LoaderC Nvm.LoaderCProofs Nvm.Verifier Nvm.VerifierProofs
  Vm.Value Vm.Bounds Vm.Step Vm.StepProofs Vm.Run.
Import ListNotations.
Local Open Scope N_scope.

Definition egood (m : module) (r : eres) : Prop :=
  match r with EDone s _ => wf m s | ECrash | ESignal _ => False | _ => True end.

Section Exec.
  Variable c : cfg. Variable m : module.
  Hypothesis Hdiv : fx_div c = true.
  Hypothesis Hsub : fx_substr c = true.
  Hypothesis Hpr : fx_print c = true.
  Hypothesis Hfit : code_fits m.
  Hypothesis Hrng : Forall (fun f => f_off f + f_len f <= N.of_nat (length (m_code m))) (m_funs m).

  Lemma exec_good fuel : forall s, wf m s -> st_frames s <> [] -> egood m (exec c m fuel s).
  Proof.
    induction fuel as [|k IH]; intros s W F.
    - cbn [exec].
      pose proof (wf_fn m s W) as Hfn.
      destruct (nth_N (m_funs m) (st_fn s)) as [f|] eqn:Ef.
      2:{ unfold nth_N in Ef. apply N.ltb_lt in Hfn. rewrite Hfn in Ef. apply nth_error_None in Ef. apply N.ltb_lt in Hfn. lia. }
      destruct (st_frames s) as [|fr frs] eqn:Efr; [congruence|].
      pose proof (nth_N_ok _ _ _ _ Hrng Ef) as Hr. cbv beta in Hr. destruct Hfit as [Hc1 Hc2].
      rewrite add32_small by (unfold two32; lia).
      destruct (st_ip s <? f_off f + f_len f) eqn:Eip.
      + apply N.ltb_lt in Eip.
        destruct (fetch_inside m (st_ip s) (f_off f + f_len f - st_ip s) Hfit) as [->|[i [n [-> _]]]]; try lia; exact I.
      + pose proof (do_return_good m s fr frs true W Efr) as G. destruct (do_return s fr frs true); simpl in *; tauto.
    - cbn [exec].
      pose proof (wf_fn m s W) as Hfn.
      destruct (nth_N (m_funs m) (st_fn s)) as [f|] eqn:Ef.
      2:{ unfold nth_N in Ef. apply N.ltb_lt in Hfn. rewrite Hfn in Ef. apply nth_error_None in Ef. apply N.ltb_lt in Hfn. lia. }
      destruct (st_frames s) as [|fr frs] eqn:Efr; [congruence|].
      pose proof (nth_N_ok _ _ _ _ Hrng Ef) as Hr. cbv beta in Hr. destruct Hfit as [Hc1 Hc2].
      rewrite add32_small by (unfold two32; lia).
      destruct (st_ip s <? f_off f + f_len f) eqn:Eip.
      + apply N.ltb_lt in Eip.
        destruct (fetch_inside m (st_ip s) (f_off f + f_len f - st_ip s) Hfit) as [->|[i [n [-> _]]]]; try lia; [exact I|].
        pose proof (exec_instr_good c m Hdiv Hsub Hpr s fr frs (st_ip s) i n W Efr) as G.
        destruct (exec_instr c m s fr frs (st_ip s) i n); simpl in G; try exact I; try contradiction.
        * destruct G as [G1 G2]. apply IH; assumption.
        * exact G.
      + pose proof (do_return_good m s fr frs true W Efr) as G. destruct (do_return s fr frs true); simpl in *; tauto.
  Qed.

  Lemma call_function_good fuel s fn_idx : wf m s -> egood m (call_function c m fuel s fn_idx).
  Proof.
    intros W. unfold call_function. destruct (nth_N (m_funs m) fn_idx) as [f|] eqn:E; [|exact I].
    destruct (VM_MAX_FRAMES <=? _); [exact I|].
    assert (Hc : fn_idx < N.of_nat (length (m_funs m))).
    { unfold nth_N in E. destruct (fn_idx <? N.of_nat (length (m_funs m))) eqn:E2; [apply N.ltb_lt; exact E2|discriminate]. }
    apply exec_good; [|simpl; discriminate].
    apply wf_set_ctl; [apply wf_set_stack; [exact W|]| |exact Hc].
    - apply Forall_app; split; [apply Forall_repeat; exact I|apply (wf_stack m s W)].
    - simpl. constructor; [split; [exact Hc|exact I]|apply (wf_frames m s W)].
  Qed.

  Lemma init_wf : 0 < N.of_nat (length (m_funs m)) -> wf m init_state.
  Proof. intros H. constructor; simpl; try constructor. exact H. Qed.

  Lemma run_good fuel : run c m fuel <> Crash /\ forall x, run c m fuel <> Signal x.
  Proof.
    assert (Fin : forall r, egood m r -> finish r <> Crash /\ forall x, finish r <> Signal x).
    { intros [] H; simpl in *; try contradiction; split; try intros ?; discriminate. }
    unfold run. destruct (negb (N.odd (m_flags m))); [split; [|intros ?]; discriminate|].
    destruct (N.of_nat (length (m_funs m)) <=? m_entry m) eqn:E; [split; [|intros ?]; discriminate|].
    apply N.leb_gt in E. assert (W0 : wf m init_state) by (apply init_wf; lia).
    destruct (find_init m (m_funs m) 0) as [i0|].
    - pose proof (call_function_good fuel init_state i0 W0) as G.
      destruct (call_function c m fuel init_state i0) as [s f| | | | |] eqn:E1; try (apply Fin; exact G).
      apply Fin. apply call_function_good. exact G.
    - apply Fin. apply call_function_good. exact W0.
  Qed.
End Exec.

(* the six repairs C13 needs *)
Definition c13_fixed (c : cfg) : bool :=
  fx_sec c && fx_slen c && fx_fnrange c && fx_div c && fx_substr c && fx_print c.

Definition pipe_safe (p : pipe) : Prop :=
  match p with
  | PLoadCrash | PLoadFuel | PVerifyCrash | PVerifyFuel | PVerifyJunk => False
  | PLoadReject | PVerifyReject => True
  | PRun _ o => o <> Crash /\ forall x, o <> Signal x
  end.

Theorem pipeline_safe c data fuel :
  c13_fixed c = true -> bytes_ok data -> N.of_nat (length data) < BIG -> pipe_safe (pipeline c data fuel).
Proof.
  unfold c13_fixed. intros H Hok Hbig.
  repeat (apply andb_true_iff in H; destruct H as [H ?]).
  unfold pipeline.
  destruct (loader_safe_fixed c data H H4 Hok Hbig) as [[L1 L2] L3].
  destruct (deserializeC c data) as [| | |m] eqn:E; try congruence; try exact I.
  specialize (L3 m eq_refl).
  destruct (verifier_safe_fixed c m H3 L3) as [V|V]; rewrite V; [exact I|].
  simpl. apply run_good; try assumption. eapply accept_ranges; eassumption.
Qed.

(* ------------------------------------------------------------------ witnesses for the pinned tree (bytes of whole modules) *)
Definition one_fn_module (code : list byte) (strings : list (list byte)) : list byte :=
  let sp := flat_map (fun s => le_bytes 4 (N.of_nat (length s)) ++ s) strings in
  let ft := le_bytes 4 0 ++ le_bytes 2 0 ++ le_bytes 4 0 ++ le_bytes 4 (N.of_nat (length code)) ++ le_bytes 2 0 ++ le_bytes 2 0 in
  let o1 := 32 + 36 in let o2 := o1 + N.of_nat (length sp) in let o3 := o2 + N.of_nat (length code) in
  let dir := le_bytes 4 2 ++ le_bytes 4 o1 ++ le_bytes 4 (N.of_nat (length sp)) ++
             le_bytes 4 1 ++ le_bytes 4 o2 ++ le_bytes 4 (N.of_nat (length code)) ++
             le_bytes 4 3 ++ le_bytes 4 o3 ++ le_bytes 4 18 in
  mk_file (dir ++ sp ++ code ++ ft) 1 0 3.

Definition push_i64 (z : Z) : list byte := 1 :: le_bytes 8 (of_signed 64 z).
Definition s_main : list byte := [109; 97; 105; 110].
(* PUSH_I64 INT64_MIN; PUSH_I64 -1; DIV; RET *)
Definition w_div : list byte := one_fn_module (push_i64 INT64_MIN ++ push_i64 (-1) ++ [35; 61]) [s_main].
Definition w_mod : list byte := one_fn_module (push_i64 INT64_MIN ++ push_i64 (-1) ++ [36; 61]) [s_main].
(* PUSH_STR 1 ("ab"); PUSH_I64 1; PUSH_I64 -1; STR_SUBSTR; RET *)
Definition w_substr : list byte := one_fn_module ([4; 1; 0; 0; 0] ++ push_i64 1 ++ push_i64 (-1) ++ [66; 61]) [s_main; [97; 98]].
(* ARR_NEW 7; DUP; ARR_PUSH; PRINTLN; RET *)
Definition w_cycle : list byte := one_fn_module [80; 7; 7; 81; 164; 61] [s_main].
(* function range wrap: code_offset 1, code_length 0xFFFFFFFF *)
Definition w_fnrange : list byte :=
  let code := push_i64 0 ++ [61] in
  let sp := le_bytes 4 4 ++ s_main in
  let ft := le_bytes 4 0 ++ le_bytes 2 0 ++ le_bytes 4 1 ++ le_bytes 4 4294967295 ++ le_bytes 2 0 ++ le_bytes 2 0 in
  let dir := le_bytes 4 2 ++ le_bytes 4 68 ++ le_bytes 4 8 ++ le_bytes 4 1 ++ le_bytes 4 76 ++ le_bytes 4 10 ++
             le_bytes 4 3 ++ le_bytes 4 86 ++ le_bytes 4 18 in
  mk_file (dir ++ sp ++ code ++ ft) 1 0 3.

Definition is_run_of (p : pipe) (f : outcome -> bool) : bool := match p with PRun _ o => f o | _ => false end.
Definition is_signal (o : outcome) : bool := match o with Signal _ => true | _ => false end.
Definition is_crash (o : outcome) : bool := match o with Crash => true | _ => false end.

Lemma w_div_signals c : fx_div c = false -> is_run_of (pipeline c w_div 10) is_signal = true.
Proof. destruct c as [a b c0 d e f g h i j]; intros H; simpl in H; subst; destruct a, b, c0, j; vm_compute; reflexivity. Qed.
Lemma w_mod_signals c : fx_div c = false -> is_run_of (pipeline c w_mod 10) is_signal = true.
Proof. destruct c as [a b c0 d e f g h i j]; intros H; simpl in H; subst; destruct a, b, c0, j; vm_compute; reflexivity. Qed.
Lemma w_substr_crashes c : fx_substr c = false -> is_run_of (pipeline c w_substr 10) is_crash = true.
Proof. destruct c as [a b c0 d e f g h i j]; intros H; simpl in H; subst; destruct a, b, c0, j; vm_compute; reflexivity. Qed.
Lemma w_cycle_crashes c : fx_print c = false -> is_run_of (pipeline c w_cycle 10) is_crash = true.
Proof. destruct c as [a b c0 d e f g h i j]; intros H; simpl in H; subst; destruct a, b, c0, j; vm_compute; reflexivity. Qed.
Lemma w_fnrange_crashes c : fx_fnrange c = false -> pipeline c w_fnrange 10 = PVerifyCrash.
Proof. destruct c as [a b c0 d e f g h i j]; intros H; simpl in H; subst; destruct a, b, j; vm_compute; reflexivity. Qed.
Lemma w_sec_pipeline c : fx_sec c = false -> pipeline c w_sec 10 = PLoadCrash.
Proof. intros H. unfold pipeline. rewrite (w_sec_crashes c H). reflexivity. Qed.
Lemma w_slen_pipeline c : fx_slen c = false -> pipeline c w_slen 10 = PLoadCrash.
Proof. intros H. unfold pipeline. rewrite (w_slen_crashes c H). reflexivity. Qed.

Ltac wok := split; [apply bytes_okb_spec; vm_compute; reflexivity | vm_compute; reflexivity].
Lemma w_sec_file : bytes_ok w_sec /\ N.of_nat (length w_sec) < BIG. Proof. wok. Qed.
Lemma w_slen_file : bytes_ok w_slen /\ N.of_nat (length w_slen) < BIG. Proof. wok. Qed.
Lemma w_fnrange_file : bytes_ok w_fnrange /\ N.of_nat (length w_fnrange) < BIG. Proof. wok. Qed.
Lemma w_div_file : bytes_ok w_div /\ N.of_nat (length w_div) < BIG. Proof. wok. Qed.
Lemma w_mod_file : bytes_ok w_mod /\ N.of_nat (length w_mod) < BIG. Proof. wok. Qed.
Lemma w_substr_file : bytes_ok w_substr /\ N.of_nat (length w_substr) < BIG. Proof. wok. Qed.
Lemma w_cycle_file : bytes_ok w_cycle /\ N.of_nat (length w_cycle) < BIG. Proof. wok. Qed.

(* every unrepaired site is reachable: the converse of pipeline_safe *)
Theorem pipeline_unsafe c : c13_fixed c = false ->
  exists data fuel, bytes_ok data /\ N.of_nat (length data) < BIG /\ ~ pipe_safe (pipeline c data fuel).
Proof.
  intros H. unfold c13_fixed in H.
  destruct (fx_sec c) eqn:E1.
  2:{ exists w_sec, 10%nat. destruct w_sec_file as [? ?]. repeat split; try assumption. rewrite (w_sec_pipeline c E1). simpl. tauto. }
  destruct (fx_slen c) eqn:E2.
  2:{ exists w_slen, 10%nat. destruct w_slen_file as [? ?]. repeat split; try assumption. rewrite (w_slen_pipeline c E2). simpl. tauto. }
  destruct (fx_fnrange c) eqn:E3.
  2:{ exists w_fnrange, 10%nat. destruct w_fnrange_file as [? ?]. repeat split; try assumption. rewrite (w_fnrange_crashes c E3). simpl. tauto. }
  destruct (fx_div c) eqn:E4.
  2:{ exists w_div, 10%nat. destruct w_div_file as [? ?]. repeat split; try assumption.
      pose proof (w_div_signals c E4) as S. destruct (pipeline c w_div 10); try discriminate. simpl in *.
      destruct o; try discriminate. intros [_ A]. apply (A n). reflexivity. }
  destruct (fx_substr c) eqn:E5.
  2:{ exists w_substr, 10%nat. destruct w_substr_file as [? ?]. repeat split; try assumption.
      pose proof (w_substr_crashes c E5) as S. destruct (pipeline c w_substr 10); try discriminate. simpl in *.
      destruct o; try discriminate. intros [A _]. apply A. reflexivity. }
  destruct (fx_print c) eqn:E6; [discriminate|].
  exists w_cycle, 10%nat. destruct w_cycle_file as [? ?]. repeat split; try assumption.
  pose proof (w_cycle_crashes c E6) as S. destruct (pipeline c w_cycle 10); try discriminate. simpl in *.
  destruct o; try discriminate. intros [A _]. apply A. reflexivity.
Qed.

(* ------------------------------------------------------------------ a trap ends the run (C08 trap_is_final at run level) *)
Lemma exec_trap_final c m k s f fr frs i n e s' :
  nth_N (m_funs m) (st_fn s) = Some f -> st_frames s = fr :: frs ->
  st_ip s < add32 (f_off f) (f_len f) ->
  fetch m (st_ip s) (add32 (f_off f) (f_len f) - st_ip s) = FOk i n ->
  exec_instr c m s fr frs (st_ip s) i n = SErr e s' ->
  exec c m (S k) s = EErr e s' /\ e <> 0 /\ st_out s' = st_out s /\
  out_of (finish (exec c m (S k) s)) = rev (st_out s).
Proof.
  intros Hf Hfr Hip Hfe He. cbn [exec]. rewrite Hf, Hfr. apply N.ltb_lt in Hip. rewrite Hip, Hfe, He.
  pose proof (exec_instr_errfinal c m s fr frs (st_ip s) i n) as F. rewrite He in F. simpl in F. destruct F as [F1 F2].
  repeat split; try assumption. simpl. rewrite F2. symmetry. apply rev_alt.
Qed.

(* program-level C08 witness: let a = [1,2,3]; println (at a 5); return 0 *)
Definition w_at (idx : Z) : list byte :=
  one_fn_module (push_i64 1 ++ push_i64 2 ++ push_i64 3 ++ [88; 1; 3; 0] ++ push_i64 idx ++ [83; 164] ++ push_i64 0 ++ [61]) [s_main].
Definition finished_with (p : pipe) (ret : Z) (out : list byte) : bool :=
  match p with PRun _ (Finished (VInt z) s) => (z =? ret)%Z && bytes_eq (rev (st_out s)) out | _ => false end.
Definition trapped_with (p : pipe) (code : N) (out : list byte) : bool :=
  match p with PRun _ (VmError e s) => (e =? code) && bytes_eq (rev (st_out s)) out | _ => false end.
Ltac cfg_cases H := match goal with c : cfg |- _ => destruct c as [a b c0 d e f g h i j]; simpl in H; subst; repeat match goal with x : bool |- _ => destruct x end end.
(* pinned VM: the read yields void, "void\n" is printed, main returns 0 *)
Lemma w_at_continues c : fx_arr c = false -> finished_with (pipeline c (w_at 5) 100) 0 [118; 111; 105; 100; 10] = true.
Proof. intros H; cfg_cases H; vm_compute; reflexivity. Qed.
(* pinned VM: index 2^32+1 reads element 1 and prints "2\n" *)
Lemma w_at_wraps c : fx_arr c = false -> finished_with (pipeline c (w_at 4294967297) 100) 0 [50; 10] = true.
Proof. intros H; cfg_cases H; vm_compute; reflexivity. Qed.
(* repaired VM: VM_ERR_OUT_OF_BOUNDS, nothing printed *)
Lemma w_at_traps c : fx_arr c = true -> trapped_with (pipeline c (w_at 5) 100) 6 [] = true /\
                                         trapped_with (pipeline c (w_at 4294967297) 100) 6 [] = true /\
                                         trapped_with (pipeline c (w_at (-1)) 100) 6 [] = true.
Proof. intros H; cfg_cases H; vm_compute; repeat split; reflexivity. Qed.

(* non-vacuity: a well-formed module is loaded, accepted and runs to completion under every cfg *)
Definition w_hello : list byte := one_fn_module (push_i64 7 ++ [164] ++ push_i64 0 ++ [61]) [s_main].
Lemma w_hello_runs : finished_with (pipeline cfg_fixed w_hello 100) 0 [55; 10] = true /\
                     finished_with (pipeline cfg_pinned w_hello 100) 0 [55; 10] = true.
Proof. vm_compute. split; reflexivity. Qed.
