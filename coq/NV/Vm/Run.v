(* vm_execute / vm_call_function / the dispatch loop of vm_core_execute under the instruction budget
   (hook h1: vm_verif_fuel, one unit per decoded instruction, checked after a successful decode), and the
   whole pipeline deserialize -> verify -> execute that nano_vm and probes/vm_probe.c perform.
   Definitions only (extracted). *)
From Coq Require Import NArith ZArith List Bool.
From NV Require Import Base.Bytes Isa.Codec gen.IsaTable Nvm.LoaderC Nvm.Verifier Vm.Value Vm.Bounds Vm.Step.
Import ListNotations.
Local Open Scope N_scope.

Inductive eres :=
| EDone (s : state) (fuel : nat)     (* VM_OK *)
| EErr (code : N) (s : state)
| EFuel (s : state)
| ECrash | ESignal (n : N) | EUnmod.

Fixpoint exec (c : cfg) (m : module) (fuel : nat) (s : state) : eres :=
  match nth_N (m_funs m) (st_fn s) with
  | None => ECrash                                   (* &functions[current_fn] outside the table *)
  | Some f =>
    match st_frames s with
    | [] => ECrash                                   (* &frames[frame_count - 1] with frame_count = 0 *)
    | fr :: frs =>
      let code_end := add32 (f_off f) (f_len f) in
      if st_ip s <? code_end then
        match fetch m (st_ip s) (code_end - st_ip s) with
        | FCrash => ECrash
        | FJunk => EUnmod
        | FBad => EErr E_DECODE s
        | FOk i n =>
            match fuel with
            | O => EFuel s
            | S k =>
                match exec_instr c m s fr frs (st_ip s) i n with
                | SNext s' => exec c m k s'
                | SDone s' => EDone s' k
                | SErr e s' => EErr e s'
                | SCrash => ECrash
                | SSignal x => ESignal x
                | SUnmod => EUnmod
                end
            end
        end
      else
        match do_return s fr frs true with
        | SDone s' | SNext s' => EDone s' fuel
        | SErr e s' => EErr e s'
        | SCrash => ECrash | SSignal x => ESignal x | SUnmod => EUnmod
        end
    end
  end.

Definition call_function (c : cfg) (m : module) (fuel : nat) (s : state) (fn_idx : N) : eres :=
  match nth_N (m_funs m) fn_idx with
  | None => EErr E_UNDEF_FN s
  | Some f =>
      if VM_MAX_FRAMES <=? N.of_nat (length (st_frames s)) then EErr E_CALL_DEPTH s else
      let fr := {| fr_fn := fn_idx; fr_ret := st_ip s; fr_base := ssize s; fr_locals := f_locals f; fr_clos := None |} in
      let s1 := set_stack s (repeat VVoid (N.to_nat (f_locals f)) ++ st_stack s) in
      exec c m fuel (set_ctl s1 (fr :: st_frames s) fn_idx (f_off f))
  end.

Definition init_state : state :=
  {| st_stack := []; st_frames := []; st_ip := 0; st_fn := 0; st_globals := []; st_heap := []; st_out := [] |}.

Definition init_name : list byte := [95;95;105;110;105;116;95;95].   (* "__init__" *)
Fixpoint find_init (m : module) (fs : list fn) (i : N) : option N :=
  match fs with
  | [] => None
  | f :: r => match nth_N (m_strings m) (f_name f) with
              | Some nm => if bytes_eq (cstr nm) init_name then Some i else find_init m r (i + 1)
              | None => find_init m r (i + 1)
              end
  end.

Inductive outcome :=
| Finished (result : value) (s : state)
| VmError (code : N) (s : state)
| OutOfFuel (s : state)
| Crash | Signal (n : N) | Unmodelled.

Definition finish (r : eres) : outcome :=
  match r with
  | EDone s _ => Finished (match st_stack s with v :: _ => v | [] => VVoid end) s
  | EErr e s => VmError e s
  | EFuel s => OutOfFuel s
  | ECrash => Crash | ESignal x => Signal x | EUnmod => Unmodelled
  end.

Definition run (c : cfg) (m : module) (fuel : nat) : outcome :=
  if negb (N.odd (m_flags m)) then VmError E_UNDEF_FN init_state else
  if N.of_nat (length (m_funs m)) <=? m_entry m then VmError E_UNDEF_FN init_state else
  match find_init m (m_funs m) 0 with
  | Some i =>
      match call_function c m fuel init_state i with
      | EDone s fuel' => finish (call_function c m fuel' s (m_entry m))
      | r => finish r
      end
  | None => finish (call_function c m fuel init_state (m_entry m))
  end.

Definition out_of (o : outcome) : list byte :=
  match o with Finished _ s | VmError _ s | OutOfFuel s => rev_append (st_out s) [] | _ => [] end.

(* the pipeline of nano_vm / vm_probe *)
Inductive pipe :=
| PLoadCrash | PLoadFuel | PLoadReject
| PVerifyCrash | PVerifyFuel | PVerifyJunk | PVerifyReject
| PRun (m : module) (o : outcome).

Definition pipeline (c : cfg) (data : list byte) (fuel : nat) : pipe :=
  match deserializeC c data with
  | LCrash => PLoadCrash | LFuel => PLoadFuel | LReject => PLoadReject
  | Loaded m =>
      match verifyC c m with
      | VCrash => PVerifyCrash | VFuel => PVerifyFuel | VJunk => PVerifyJunk | VReject => PVerifyReject
      | VAccept => PRun m (run c m fuel)
      end
  end.
