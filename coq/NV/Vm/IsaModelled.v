(* The instruction table the VM / verifier model (Vm/Step.v, Nvm/Verifier.v) was written against. *)
From Coq Require Import NArith List String.
From NV Require Import Isa.Codec.
Import ListNotations.
Local Open Scope N_scope.
Local Open Scope string_scope.

(* the instruction table this model was written against (opcode numbers, names, operand kinds).  Properties_C13.v checks that the
   table regenerated from the current isa.c equals it: a changed isa.c means exec_instr / instr_bad must be revisited. *)
Definition modelled_table : list (N * (string * list okind)) := [
  (0, ("NOP", []));
  (1, ("PUSH_I64", [KI64]));
  (2, ("PUSH_F64", [KF64]));
  (3, ("PUSH_BOOL", [KU8]));
  (4, ("PUSH_STR", [KU32]));
  (5, ("PUSH_VOID", []));
  (6, ("PUSH_U8", [KU8]));
  (7, ("DUP", []));
  (8, ("POP", []));
  (9, ("SWAP", []));
  (10, ("ROT3", []));
  (16, ("LOAD_LOCAL", [KU16]));
  (17, ("STORE_LOCAL", [KU16]));
  (18, ("LOAD_GLOBAL", [KU32]));
  (19, ("STORE_GLOBAL", [KU32]));
  (20, ("LOAD_UPVALUE", [KU16; KU16]));
  (21, ("STORE_UPVALUE", [KU16; KU16]));
  (32, ("ADD", []));
  (33, ("SUB", []));
  (34, ("MUL", []));
  (35, ("DIV", []));
  (36, ("MOD", []));
  (37, ("NEG", []));
  (40, ("EQ", []));
  (41, ("NE", []));
  (42, ("LT", []));
  (43, ("LE", []));
  (44, ("GT", []));
  (45, ("GE", []));
  (48, ("AND", []));
  (49, ("OR", []));
  (50, ("NOT", []));
  (56, ("JMP", [KI32]));
  (57, ("JMP_TRUE", [KI32]));
  (58, ("JMP_FALSE", [KI32]));
  (59, ("CALL", [KU32]));
  (60, ("CALL_INDIRECT", []));
  (61, ("RET", []));
  (62, ("CALL_EXTERN", [KU32]));
  (63, ("CALL_MODULE", [KU32; KU32]));
  (64, ("STR_LEN", []));
  (65, ("STR_CONCAT", []));
  (66, ("STR_SUBSTR", []));
  (67, ("STR_CONTAINS", []));
  (68, ("STR_EQ", []));
  (69, ("STR_CHAR_AT", []));
  (70, ("STR_FROM_INT", []));
  (71, ("STR_FROM_FLOAT", []));
  (80, ("ARR_NEW", [KU8]));
  (81, ("ARR_PUSH", []));
  (82, ("ARR_POP", []));
  (83, ("ARR_GET", []));
  (84, ("ARR_SET", []));
  (85, ("ARR_LEN", []));
  (86, ("ARR_SLICE", []));
  (87, ("ARR_REMOVE", []));
  (88, ("ARR_LITERAL", [KU8; KU16]));
  (96, ("STRUCT_NEW", [KU32]));
  (97, ("STRUCT_GET", [KU16]));
  (98, ("STRUCT_SET", [KU16]));
  (99, ("STRUCT_LITERAL", [KU32; KU16]));
  (104, ("UNION_CONSTRUCT", [KU32; KU16; KU16]));
  (105, ("UNION_TAG", []));
  (106, ("UNION_FIELD", [KU16]));
  (107, ("MATCH_TAG", [KU16; KI32]));
  (108, ("ENUM_VAL", [KU32; KU16]));
  (112, ("TUPLE_NEW", [KU16]));
  (113, ("TUPLE_GET", [KU16]));
  (120, ("HM_NEW", [KU8; KU8]));
  (121, ("HM_GET", []));
  (122, ("HM_SET", []));
  (123, ("HM_HAS", []));
  (124, ("HM_DELETE", []));
  (125, ("HM_KEYS", []));
  (126, ("HM_VALUES", []));
  (127, ("HM_LEN", []));
  (128, ("GC_RETAIN", []));
  (129, ("GC_RELEASE", []));
  (130, ("GC_SCOPE_ENTER", []));
  (131, ("GC_SCOPE_EXIT", []));
  (136, ("CAST_INT", []));
  (137, ("CAST_FLOAT", []));
  (138, ("CAST_BOOL", []));
  (139, ("CAST_STRING", []));
  (140, ("TYPE_CHECK", [KU8]));
  (144, ("CLOSURE_NEW", [KU32; KU16]));
  (145, ("CLOSURE_CALL", []));
  (160, ("PRINT", []));
  (161, ("ASSERT", []));
  (162, ("DEBUG_LINE", [KU32]));
  (163, ("HALT", []));
  (164, ("PRINTLN", []));
  (176, ("OPAQUE_NULL", []));
  (177, ("OPAQUE_VALID", []))
].

