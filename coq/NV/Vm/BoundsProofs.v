(* C08 proofs over Vm/Bounds.v: per engine and access kind, for EVERY idx : Z and every length. *)
From Coq Require Import NArith ZArith List Bool Lia.
From NV Require Import Base.Bytes Nvm.LoaderC Vm.Value Vm.Bounds.
Import ListNotations.
Local Open Scope Z_scope.

(* which (engine, kind) pairs trap on every illegitimate access, as a function of the repairs present *)
Definition guarded (c : cfg) (e : engine) (k : akind) : bool :=
  match e, k with
  | EVm, _ => fx_arr c
  | ENative, APop => fx_npop c
  | EInterp, APop => fx_ipop c
  | _, _ => true
  end.

Lemma oob_traps_guarded c e k len idx :
  guarded c e k = true -> legit k len idx = false -> access c e k len idx = ATrap.
Proof.
  destruct e, k; simpl; unfold vm_arr_get, vm_arr_set, vm_arr_remove, vm_arr_pop, native_get, native_set, native_remove,
    native_pop, interp_get, interp_set, interp_remove, interp_pop; intros G L; rewrite ?G, ?L; try reflexivity;
  destruct (len =? 0)%N; simpl in L; try discriminate; reflexivity.
Qed.

(* an access that is not refused touches exactly the requested element when the index is legitimate
   (array lengths are uint32_t in the VM; the native/interpreter lengths are int64) *)
Lemma in_range_u32 len idx : (len < 4294967296)%N -> in_range len idx = true ->
  u32z idx = Z.to_N idx /\ (Z.to_N idx <? len)%N = true.
Proof.
  unfold in_range; intros Hl H. apply andb_true_iff in H; destruct H as [L1 L2]. apply Z.leb_le in L1; apply Z.ltb_lt in L2.
  unfold u32z. rewrite Z.mod_small by lia. split; [reflexivity|apply N.ltb_lt; lia].
Qed.
Lemma legit_access c e k len idx : (len < 4294967296)%N ->
  legit k len idx = true -> access c e k len idx = AElem (match k with APop => (len - 1)%N | _ => Z.to_N idx end).
Proof.
  intros Hl. unfold legit. destruct k; intros L.
  1,2,4: destruct (in_range_u32 len idx Hl L) as [U V];
         destruct e; simpl; unfold vm_arr_get, vm_arr_set, vm_arr_remove, native_get, native_set, native_remove,
           interp_get, interp_set, interp_remove; rewrite ?L, ?U, ?V; destruct (fx_arr c); reflexivity.
  apply negb_true_iff in L.
  destruct e; simpl; unfold vm_arr_pop, native_pop, interp_pop; rewrite L; reflexivity.
Qed.

(* never outside the object: whatever element an access touches exists *)
Lemma access_in_object c e k len idx i : access c e k len idx = AElem i -> (i < len)%N.
Proof.
  destruct e, k; simpl; unfold vm_arr_get, vm_arr_set, vm_arr_remove, vm_arr_pop, native_get, native_set, native_remove,
    native_pop, interp_get, interp_set, interp_remove, interp_pop, in_range;
  repeat match goal with |- context [if ?b then _ else _] => let E := fresh in destruct b eqn:E end;
  intros [= <-]; try discriminate;
  repeat match goal with
         | H : (_ <? _)%N = true |- _ => apply N.ltb_lt in H
         | H : (_ =? _)%N = false |- _ => apply N.eqb_neq in H
         | H : (_ && _) = true |- _ => apply andb_true_iff in H; destruct H
         | H : (_ <=? _) = true |- _ => apply Z.leb_le in H
         | H : (_ <? _) = true |- _ => apply Z.ltb_lt in H
         end; lia.
Qed.

(* ---- the unguarded forms are refuted: computed witnesses ---- *)
Lemma vm_get_yields_void c : fx_arr c = false -> access c EVm AGet 3 5 = AVoid.
Proof. intros H; simpl; unfold vm_arr_get; rewrite H; reflexivity. Qed.
Lemma vm_get_wraps c : fx_arr c = false -> access c EVm AGet 3 4294967297 = AElem 1.
Proof. intros H; simpl; unfold vm_arr_get; rewrite H; reflexivity. Qed.
Lemma vm_set_wraps c : fx_arr c = false -> access c EVm ASet 3 (-4294967294) = AElem 2.
Proof. intros H; simpl; unfold vm_arr_set; rewrite H; reflexivity. Qed.
Lemma vm_set_noop c : fx_arr c = false -> access c EVm ASet 3 3 = ANoop.
Proof. intros H; simpl; unfold vm_arr_set; rewrite H; reflexivity. Qed.
Lemma vm_remove_noop c : fx_arr c = false -> access c EVm ARemove 3 (-1) = ANoop.
Proof. intros H; simpl; unfold vm_arr_remove; rewrite H; reflexivity. Qed.
Lemma vm_pop_void c idx : fx_arr c = false -> access c EVm APop 0 idx = AVoid.
Proof. intros H; simpl; unfold vm_arr_pop; rewrite H; reflexivity. Qed.
Lemma native_pop_void c idx : fx_npop c = false -> access c ENative APop 0 idx = AVoid.
Proof. intros H; simpl; unfold native_pop; rewrite H; reflexivity. Qed.
Lemma interp_pop_void c idx : fx_ipop c = false -> access c EInterp APop 0 idx = AVoid.
Proof. intros H; simpl; unfold interp_pop; rewrite H; reflexivity. Qed.

Lemma unguarded_refuted c e k : guarded c e k = false ->
  exists len idx, legit k len idx = false /\ access c e k len idx <> ATrap.
Proof.
  destruct e, k; intros G; simpl in G; try discriminate.
  - exists 3%N, 5; split; [reflexivity|]. rewrite (vm_get_yields_void c G); discriminate.
  - exists 3%N, 3; split; [reflexivity|]. rewrite (vm_set_noop c G); discriminate.
  - exists 0%N, 0; split; [reflexivity|]. rewrite (vm_pop_void c 0 G); discriminate.
  - exists 3%N, (-1); split; [reflexivity|]. rewrite (vm_remove_noop c G); discriminate.
  - exists 0%N, 0; split; [reflexivity|]. rewrite (native_pop_void c 0 G); discriminate.
  - exists 0%N, 0; split; [reflexivity|]. rewrite (interp_pop_void c 0 G); discriminate.
Qed.

(* field / tuple / union index *)
Lemma field_oob_traps count idx : (count <= idx)%N -> vm_field count idx = ATrap.
Proof. intros H; unfold vm_field. destruct (idx <? count)%N eqn:E; [apply N.ltb_lt in E; lia|reflexivity]. Qed.
Lemma field_in_object count idx i : vm_field count idx = AElem i -> (i < count)%N /\ i = idx.
Proof. unfold vm_field. destruct (idx <? count)%N eqn:E; [|discriminate]. intros [= <-]. apply N.ltb_lt in E. auto. Qed.
