(* Model of nvm_verify (src/nanoisa/verifier.c) and of the instruction fetch shared with the VM
   (isa_decode on a window of the module's code buffer).  The code buffer is the C object
   mod->code: code_size logical bytes inside an allocation of m_cap bytes (calloc(4096) at
   nvm_module_new, doubled by realloc).  A read at index >= m_cap is FCrash; a read in
   [code_size, cap) yields 0 when the block is still the calloc'ed one (cap = 4096) and is
   indeterminate (FJunk: the model does not determine the outcome) after a realloc.
   Definitions only (extracted). *)
From Coq Require Import NArith ZArith List Bool.
From NV Require Import Base.Bytes Isa.Codec gen.IsaTable Nvm.LoaderC.
Import ListNotations.
Local Open Scope N_scope.

(* opcode numbers used by the verifier / VM; tied to the generated table by Examples in Properties_C13.v *)
Definition OP_PUSH_STR := 4.
Definition OP_LOAD_LOCAL := 16. Definition OP_STORE_LOCAL := 17.
Definition OP_LOAD_UPVALUE := 20. Definition OP_STORE_UPVALUE := 21.
Definition OP_JMP := 56. Definition OP_JMP_TRUE := 57. Definition OP_JMP_FALSE := 58.
Definition OP_CALL := 59. Definition OP_CALL_EXTERN := 62.
Definition OP_MATCH_TAG := 107. Definition OP_CLOSURE_NEW := 144.

Inductive fres := FCrash | FJunk | FBad | FOk (i : instr) (n : N).

(* number of bytes isa_decode touches: opcode byte + the operands that fit into [avail] (it stops at the first that does not) *)
Fixpoint ops_extent (ks : list okind) (pos avail : N) : N :=
  match ks with
  | [] => pos
  | k :: r => let sz := N.of_nat (ksize k) in if avail <? pos + sz then pos else ops_extent r (pos + sz) avail
  end.

Fixpoint pad0 (n : nat) (l : list byte) : list byte :=
  match n with O => [] | S k => match l with [] => 0 :: pad0 k [] | b :: r => b :: pad0 k r end end.

Definition fetch (m : module) (start avail : N) : fres :=
  let csz := N.of_nat (length (m_code m)) in
  let cap := m_cap m in
  if avail =? 0 then FBad else
  if cap <=? start then FCrash else
  if (csz <=? start) && negb (cap =? 4096) then FJunk else
  let rest := if start <? csz then skipn (N.to_nat start) (m_code m) else [] in
  let b0 := match rest with b :: _ => b | [] => 0 end in
  match table b0 with
  | None => FBad
  | Some ks =>
      let ext := ops_extent ks 1 avail in
      if cap <? start + ext then FCrash else
      if (csz <? start + ext) && negb (cap =? 4096) then FJunk else
      match decode table (pad0 (N.to_nat ext) rest) with
      | Some (i, n) => FOk i (N.of_nat n)
      | None => FBad
      end
  end.

Inductive vres := VCrash | VJunk | VFuel | VReject | VAccept.

Definition arg (i : instr) (k : nat) : N := nth k (args i) 0.

(* per-instruction operand checks of verify_function; true = reject *)
Definition jump_bad (pos : N) (off32 : N) (code_end : N) : bool :=
  let target := (Z.of_N pos + to_signed 32 off32)%Z in
  (target <? 0)%Z || (code_end <? u32 (Z.to_N target)).
Definition instr_bad (m : module) (f : fn) (pos : N) (i : instr) : bool :=
  let o := op i in
  if (o =? OP_JMP) || (o =? OP_JMP_TRUE) || (o =? OP_JMP_FALSE) then jump_bad pos (arg i 0) (f_len f)
  else if o =? OP_MATCH_TAG then jump_bad pos (arg i 1) (f_len f)
  else if (o =? OP_CALL) || (o =? OP_CLOSURE_NEW) then N.of_nat (length (m_funs m)) <=? arg i 0
  else if o =? OP_PUSH_STR then N.of_nat (length (m_strings m)) <=? arg i 0
  else if o =? OP_CALL_EXTERN then N.of_nat (length (m_imports m)) <=? arg i 0
  else if (o =? OP_LOAD_LOCAL) || (o =? OP_STORE_LOCAL) then f_locals f <=? arg i 0
  else if (o =? OP_LOAD_UPVALUE) || (o =? OP_STORE_UPVALUE) then f_upvals f <=? arg i 0
  else false.

Fixpoint verify_fn (fuel : nat) (m : module) (f : fn) (pos : N) : vres :=
  match fuel with
  | O => VFuel
  | S k =>
    if pos <? f_len f then
      match fetch m (f_off f + pos) (f_len f - pos) with
      | FCrash => VCrash
      | FJunk => VJunk
      | FBad => VReject
      | FOk i n => if instr_bad m f pos i then VReject else verify_fn k m f (add32 pos n)
      end
    else VAccept
  end.

Definition fn_struct_bad (c : cfg) (m : module) (f : fn) : bool :=
  let csz := N.of_nat (length (m_code m)) in
  (csz <? f_off f) ||
  (if fx_fnrange c then csz <? f_off f + f_len f else csz <? add32 (f_off f) (f_len f)) ||
  (N.of_nat (length (m_strings m)) <=? f_name f).
Definition imp_struct_bad (m : module) (i : imp) : bool :=
  let ns := N.of_nat (length (m_strings m)) in (ns <=? i_mod i) || (ns <=? i_fn i).

Definition verify_structure (c : cfg) (m : module) : bool :=   (* true = ok *)
  negb ((N.odd (m_flags m)) && (N.of_nat (length (m_funs m)) <=? m_entry m)) &&
  negb (existsb (fn_struct_bad c m) (m_funs m)) &&
  negb (existsb (imp_struct_bad m) (m_imports m)).

Fixpoint verify_fns (m : module) (fs : list fn) : vres :=
  match fs with
  | [] => VAccept
  | f :: r => match verify_fn (S (N.to_nat (m_cap m))) m f 0 with VAccept => verify_fns m r | x => x end
  end.

Definition verifyC (c : cfg) (m : module) : vres :=
  if verify_structure c m then verify_fns m (m_funs m) else VReject.
