(* Proofs about the verifier model: the u32 wrap witness, memory safety + termination of the repaired verifier,
   and "what the verifier walked decodes" (sweep_decodes). *)
From Coq Require Import NArith ZArith List Bool Lia.
From NV Require Import Base.Bytes Isa.Codec Isa.CodecProofs gen.IsaTable Nvm.LoaderC Nvm.LoaderCProofs Nvm.Verifier.
Import ListNotations.
Local Open Scope N_scope.

(* ------------------------------------------------------------------ witness: code_offset + code_length wraps *)
Definition w_fn_module : module :=
  {| m_flags := 1; m_entry := 0; m_strings := [[109; 97; 105; 110]];
     m_funs := [{| f_name := 0; f_arity := 0; f_off := 1; f_len := 4294967295; f_locals := 0; f_upvals := 0 |}];
     m_code := [1; 0; 0; 0; 0; 0; 0; 0; 0; 61]; m_cap := 4096; m_imports := []; m_debug := [] |}.
Lemma w_fn_crashes c : fx_fnrange c = false -> verifyC c w_fn_module = VCrash.
Proof. destruct c as [a b c0 d e f g h i j]; intros H; simpl in H; subst. vm_compute. reflexivity. Qed.

(* ------------------------------------------------------------------ the code buffer of a loaded module *)

Lemma dec_args_len ks : forall bs vs n, dec_args ks bs = Some (vs, n) -> (n <= length bs)%nat.
Proof.
  induction ks as [|k ks IH]; intros bs vs n; cbn [dec_args].
  - intros [= <- <-]; lia.
  - destruct (Nat.ltb (length bs) (ksize k)) eqn:E; [discriminate|]. apply PeanoNat.Nat.ltb_ge in E.
    destruct (dec_args ks (skipn (ksize k) bs)) as [[vs' n']|] eqn:E2; [|discriminate].
    intros [= <- <-]. apply IH in E2. rewrite skipn_length in E2. lia.
Qed.
Lemma decode_len T bs i n : decode T bs = Some (i, n) -> (1 <= n <= length bs)%nat.
Proof.
  unfold decode. destruct bs as [|o r]; [discriminate|]. destruct (T o); [|discriminate].
  destruct (dec_args l r) as [[vs n']|] eqn:E; [|discriminate]. intros [= <- <-]. apply dec_args_len in E. simpl. lia.
Qed.

Lemma pad0_length n : forall l, length (pad0 n l) = n.
Proof. induction n; intros [|b r]; simpl; auto. Qed.

Lemma ops_extent_le ks : forall pos avail, pos <= avail -> ops_extent ks pos avail <= avail.
Proof.
  induction ks as [|k ks IH]; intros pos avail H; cbn [ops_extent]; [exact H|].
  destruct (avail <? pos + N.of_nat (ksize k)) eqn:E; [exact H|]. apply N.ltb_ge in E. apply IH; exact E.
Qed.
Lemma ops_extent_ge ks : forall pos avail, pos <= ops_extent ks pos avail.
Proof.
  induction ks as [|k ks IH]; intros pos avail; cbn [ops_extent]; [lia|].
  destruct (avail <? pos + N.of_nat (ksize k)); [lia|]. specialize (IH (pos + N.of_nat (ksize k)) avail). lia.
Qed.

(* a fetch whose window lies inside the logical code never faults and consumes between 1 and avail bytes *)
Lemma fetch_inside m start avail :
  code_fits m -> 0 < avail -> start + avail <= N.of_nat (length (m_code m)) ->
  fetch m start avail = FBad \/ exists i n, fetch m start avail = FOk i n /\ 1 <= n <= avail.
Proof.
  intros [Hc Hcap] Ha Hw. unfold fetch.
  destruct (avail =? 0) eqn:E0; [apply N.eqb_eq in E0; lia|].
  destruct (m_cap m <=? start) eqn:E1; [apply N.leb_le in E1; lia|].
  destruct (N.of_nat (length (m_code m)) <=? start) eqn:E2; [apply N.leb_le in E2; lia|]. cbn [andb].
  destruct (start <? N.of_nat (length (m_code m))) eqn:E3; [|apply N.ltb_ge in E3; lia].
  set (rest := skipn (N.to_nat start) (m_code m)).
  destruct (table match rest with b :: _ => b | [] => 0 end) as [ks|]; [|left; reflexivity].
  pose proof (ops_extent_le ks 1 avail ltac:(lia)) as Hext.
  destruct (m_cap m <? start + ops_extent ks 1 avail) eqn:E4; [apply N.ltb_lt in E4; lia|].
  destruct (N.of_nat (length (m_code m)) <? start + ops_extent ks 1 avail) eqn:E5; [apply N.ltb_lt in E5; lia|]. cbn [andb].
  destruct (decode table (pad0 (N.to_nat (ops_extent ks 1 avail)) rest)) as [[i n]|] eqn:E6; [|left; reflexivity].
  right. exists i, (N.of_nat n). split; [reflexivity|]. apply decode_len in E6. rewrite pad0_length in E6. lia.
Qed.

Definition vsafe (r : vres) : Prop := r = VReject \/ r = VAccept.

Lemma verify_fn_safe m f : code_fits m -> f_off f + f_len f <= N.of_nat (length (m_code m)) ->
  forall fuel pos, pos <= f_len f -> f_len f - pos < N.of_nat fuel -> vsafe (verify_fn fuel m f pos).
Proof.
  intros Hc Hr. induction fuel as [|k IH]; intros pos Hp Hf; [lia|].
  cbn [verify_fn]. destruct (pos <? f_len f) eqn:E; [|right; reflexivity]. apply N.ltb_lt in E.
  destruct (fetch_inside m (f_off f + pos) (f_len f - pos) Hc) as [->|[i [n [-> Hn]]]]; [lia|lia|left; reflexivity|].
  destruct (instr_bad m f pos i); [left; reflexivity|].
  destruct Hc as [Hc1 Hc2].
  rewrite add32_small by (unfold two32; lia). apply IH; lia.
Qed.

Lemma verify_fns_safe m : code_fits m -> forall fs,
  Forall (fun f => f_off f + f_len f <= N.of_nat (length (m_code m))) fs -> vsafe (verify_fns m fs).
Proof.
  intros Hc fs H. induction H as [|f r Hf Hr IH]; cbn [verify_fns]; [right; reflexivity|].
  destruct (verify_fn_safe m f Hc Hf (S (N.to_nat (m_cap m))) 0) as [->| ->]; [lia| |left; reflexivity|exact IH].
  destruct Hc. lia.
Qed.

Lemma structure_ranges c m : fx_fnrange c = true -> verify_structure c m = true ->
  Forall (fun f => f_off f + f_len f <= N.of_nat (length (m_code m))) (m_funs m).
Proof.
  intros Hfx H. unfold verify_structure in H. apply andb_true_iff in H; destruct H as [H _].
  apply andb_true_iff in H; destruct H as [_ H]. apply negb_true_iff in H.
  apply Forall_forall. intros f Hin.
  assert (B : fn_struct_bad c m f = false).
  { destruct (fn_struct_bad c m f) eqn:E; [|reflexivity].
    assert (existsb (fn_struct_bad c m) (m_funs m) = true) by (apply existsb_exists; eauto). congruence. }
  unfold fn_struct_bad in B. rewrite Hfx in B.
  apply orb_false_iff in B; destruct B as [B _]. apply orb_false_iff in B; destruct B as [_ B].
  apply N.ltb_ge in B. exact B.
Qed.

Theorem verifier_safe_fixed c m : fx_fnrange c = true -> code_fits m ->
  verifyC c m = VReject \/ verifyC c m = VAccept.
Proof.
  intros Hfx Hc. unfold verifyC. destruct (verify_structure c m) eqn:E; [|left; reflexivity].
  apply verify_fns_safe; [exact Hc|]. eapply structure_ranges; eassumption.
Qed.


(* ------------------------------------------------------------------ sweep_decodes *)
(* the positions verify_function visits in function f *)
Inductive on_sweep (m : module) (f : fn) : N -> Prop :=
| sw0 : on_sweep m f 0
| sw_next pos i n : on_sweep m f pos -> pos < f_len f ->
    fetch m (f_off f + pos) (f_len f - pos) = FOk i n -> on_sweep m f (add32 pos n).

Lemma verify_fn_step fuel m f pos : verify_fn fuel m f pos = VAccept -> pos < f_len f ->
  exists i n, fetch m (f_off f + pos) (f_len f - pos) = FOk i n /\ instr_bad m f pos i = false /\
              exists fuel', verify_fn fuel' m f (add32 pos n) = VAccept.
Proof.
  destruct fuel as [|k]; cbn [verify_fn]; [discriminate|]. intros H Hp.
  apply N.ltb_lt in Hp. rewrite Hp in H.
  destruct (fetch m (f_off f + pos) (f_len f - pos)) as [| | |i n]; try discriminate.
  destruct (instr_bad m f pos i) eqn:B; [discriminate|]. exists i, n. repeat split; eauto.
Qed.

Lemma sweep_accepts m f fuel : verify_fn fuel m f 0 = VAccept ->
  forall pos, on_sweep m f pos -> exists fuel', verify_fn fuel' m f pos = VAccept.
Proof.
  intros H0 pos Hs. induction Hs as [|pos i n Hs [fuel' IH] Hp Hf]; [eauto|].
  destruct (verify_fn_step fuel' m f pos IH Hp) as [i' [n' [Hf' [_ [fuel'' Hn]]]]].
  rewrite Hf in Hf'. injection Hf' as <- <-. eauto.
Qed.

Theorem sweep_decodes_fn m f fuel : verify_fn fuel m f 0 = VAccept ->
  forall pos, on_sweep m f pos -> pos < f_len f ->
  exists i n, fetch m (f_off f + pos) (f_len f - pos) = FOk i n /\ instr_bad m f pos i = false.
Proof.
  intros H0 pos Hs Hp. destruct (sweep_accepts m f fuel H0 pos Hs) as [fuel' H].
  destruct (verify_fn_step fuel' m f pos H Hp) as [i [n [Hf [Hb _]]]]. eauto.
Qed.

Lemma verify_fns_each m : forall fs, verify_fns m fs = VAccept ->
  forall f, In f fs -> verify_fn (S (N.to_nat (m_cap m))) m f 0 = VAccept.
Proof.
  induction fs as [|g r IH]; cbn [verify_fns]; intros H f [].
  - subst g. destruct (verify_fn _ m f 0); try discriminate. reflexivity.
  - destruct (verify_fn _ m g 0); try discriminate. apply IH; assumption.
Qed.

Theorem sweep_decodes c m : verifyC c m = VAccept ->
  forall f, In f (m_funs m) -> forall pos, on_sweep m f pos -> pos < f_len f ->
  exists i n, fetch m (f_off f + pos) (f_len f - pos) = FOk i n /\ instr_bad m f pos i = false.
Proof.
  unfold verifyC. destruct (verify_structure c m); [|discriminate]. intros H f Hin.
  eapply sweep_decodes_fn. eapply verify_fns_each; eassumption.
Qed.

(* what acceptance gives the VM: every function's code range lies inside the code buffer *)
Lemma accept_ranges c m : fx_fnrange c = true -> verifyC c m = VAccept ->
  Forall (fun f => f_off f + f_len f <= N.of_nat (length (m_code m))) (m_funs m).
Proof.
  unfold verifyC. intros Hfx. destruct (verify_structure c m) eqn:E; [|discriminate]. intros _.
  eapply structure_ranges; eassumption.
Qed.
