(* Proofs about NV.Nvm.SerializeBuf: independence of the serializer's output from the buffer's initial contents,
   of isa_encode's output from the unused parts of a DecodedInstruction, and of string indices from anything but
   the order of first insertion. *)
From Coq Require Import NArith Arith PeanoNat List Bool Lia.
From NV Require Import Base.Bytes Isa.Codec Nvm.SerializeBuf.
Import ListNotations.

(* ------------------------------------------------------------------ write / poke *)
Lemma write_len pl : forall buf b', write pl buf = Some b' -> length b' = length buf.
Proof.
  induction pl as [|o pr IH]; intros buf b' H; simpl in H.
  - inversion H; reflexivity.
  - destruct buf as [|b r]; [discriminate|]. destruct (write pr r) eqn:E; [|discriminate].
    inversion H; subst. simpl. f_equal. eapply IH; eauto.
Qed.
Lemma write_some pl : forall buf, (length pl <= length buf)%nat -> exists b', write pl buf = Some b'.
Proof.
  induction pl as [|o pr IH]; intros buf H; simpl.
  - eexists; reflexivity.
  - destruct buf as [|b r]; [simpl in H; lia|]. destruct (IH r ltac:(simpl in H; lia)) as [r' E]. rewrite E. eexists; reflexivity.
Qed.
Lemma write_nth pl : forall buf b' i, write pl buf = Some b' ->
  nth_error b' i = match nth_error pl i with Some (Some x) => Some x | _ => nth_error buf i end.
Proof.
  induction pl as [|o pr IH]; intros buf b' i H; simpl in H.
  - inversion H; subst. destruct i; reflexivity.
  - destruct buf as [|b r]; [discriminate|]. destruct (write pr r) eqn:E; [|discriminate].
    inversion H; subst. destruct i; simpl.
    + destruct o; reflexivity.
    + eapply IH; eauto.
Qed.
Lemma poke_len : forall pos buf pl b', poke buf pos pl = Some b' -> length b' = length buf.
Proof.
  induction pos as [|p IH]; intros buf pl b' H; simpl in H.
  - eapply write_len; eauto.
  - destruct buf as [|b r].
    + destruct pl; inversion H; reflexivity.
    + destruct (poke r p pl) eqn:E; [|discriminate]. inversion H; subst. simpl. f_equal. eapply IH; eauto.
Qed.
Lemma poke_some : forall pos buf pl, (pos + length pl <= length buf)%nat -> exists b', poke buf pos pl = Some b'.
Proof.
  induction pos as [|p IH]; intros buf pl H; simpl.
  - apply write_some. lia.
  - destruct buf as [|b r]; [simpl in H; lia|].
    destruct (IH r pl ltac:(simpl in H; lia)) as [r' E]. rewrite E. eexists; reflexivity.
Qed.
Lemma poke_nth : forall pos buf pl b' i, poke buf pos pl = Some b' ->
  nth_error b' i = if Nat.ltb i pos then nth_error buf i
                   else match nth_error pl (i - pos) with Some (Some x) => Some x | _ => nth_error buf i end.
Proof.
  induction pos as [|p IH]; intros buf pl b' i H; simpl in H.
  - rewrite Nat.sub_0_r. simpl. eapply write_nth; eauto.
  - destruct buf as [|b r].
    + destruct pl; inversion H; subst. destruct (Nat.ltb i (S p)); [reflexivity|].
      destruct (i - S p)%nat; reflexivity.
    + destruct (poke r p pl) eqn:E; [|discriminate]. inversion H; subst.
      destruct i; [reflexivity|]. simpl nth_error. rewrite (IH _ _ _ i E).
      change (Nat.ltb (S i) (S p)) with (Nat.ltb i p). reflexivity.
Qed.

Definition hit (pos : nat) (pl : payload) (i : nat) : Prop :=
  (pos <= i)%nat /\ exists x, nth_error pl (i - pos) = Some (Some x).

Lemma poke_agree pos pl b1 b2 b1' b2' i :
  poke b1 pos pl = Some b1' -> poke b2 pos pl = Some b2' ->
  (nth_error b1 i = nth_error b2 i \/ hit pos pl i) -> nth_error b1' i = nth_error b2' i.
Proof.
  intros H1 H2 H. rewrite (poke_nth _ _ _ _ i H1), (poke_nth _ _ _ _ i H2).
  destruct (Nat.ltb i pos) eqn:E.
  - destruct H as [H|[H _]]; [exact H|]. apply Nat.ltb_lt in E. lia.
  - destruct H as [H|[_ [x Hx]]].
    + destruct (nth_error pl (i - pos)) as [[x|]|]; auto.
    + rewrite Hx. reflexivity.
Qed.

(* ------------------------------------------------------------------ exec *)
Definition covered (plan : list (nat * payload)) (i : nat) : Prop :=
  exists pos pl, In (pos, pl) plan /\ hit pos pl i.

Lemma exec_len : forall plan b b', exec b plan = Some b' -> length b' = length b.
Proof.
  induction plan as [|[pos pl] r IH]; intros b b' H; simpl in H.
  - inversion H; reflexivity.
  - destruct (poke b pos pl) eqn:E; [|discriminate]. rewrite (IH _ _ H). eapply poke_len; eauto.
Qed.
Lemma exec_some : forall plan b, (forall pos pl, In (pos, pl) plan -> (pos + length pl <= length b)%nat) ->
  exists b', exec b plan = Some b'.
Proof.
  induction plan as [|[pos pl] r IH]; intros b H; simpl.
  - eexists; reflexivity.
  - destruct (poke_some pos b pl (H _ _ (or_introl eq_refl))) as [b1 E]. rewrite E.
    apply IH. intros p q Hin. rewrite (poke_len _ _ _ _ E). apply H. right; exact Hin.
Qed.
Lemma exec_agree : forall plan b1 b2 b1' b2' i,
  exec b1 plan = Some b1' -> exec b2 plan = Some b2' ->
  (nth_error b1 i = nth_error b2 i \/ covered plan i) -> nth_error b1' i = nth_error b2' i.
Proof.
  induction plan as [|[pos pl] r IH]; intros b1 b2 b1' b2' i H1 H2 H; simpl in H1, H2.
  - inversion H1; inversion H2; subst. destruct H as [H|(p & q & [] & _)]. exact H.
  - destruct (poke b1 pos pl) as [c1|] eqn:E1; [|discriminate].
    destruct (poke b2 pos pl) as [c2|] eqn:E2; [|discriminate].
    apply (IH c1 c2 b1' b2' i H1 H2).
    destruct H as [H|(p & q & [Hin|Hin] & Hh)].
    + left. eapply poke_agree; eauto.
    + inversion Hin; subst. left. eapply poke_agree; eauto.
    + right. exists p, q. auto.
Qed.
Lemma exec_app : forall p1 p2 b, exec b (p1 ++ p2) = match exec b p1 with Some b' => exec b' p2 | None => None end.
Proof.
  induction p1 as [|[pos pl] r IH]; intros p2 b; simpl; auto. destruct (poke b pos pl); auto.
Qed.

(* ------------------------------------------------------------------ payload facts *)
Definition complete (pl : payload) : Prop := forall j, (j < length pl)%nat -> exists x, nth_error pl j = Some (Some x).

Lemma full_len bs : length (full bs) = length bs.
Proof. apply map_length. Qed.
Lemma full_complete bs : complete (full bs).
Proof.
  intros j Hj. unfold full in *. rewrite map_length in Hj.
  destruct (nth_error bs j) eqn:E.
  - exists b. rewrite nth_error_map, E. reflexivity.
  - apply nth_error_None in E. lia.
Qed.
Lemma complete_app a b : complete a -> complete b -> complete (a ++ b).
Proof.
  intros Ha Hb j Hj. rewrite app_length in Hj.
  destruct (Nat.ltb j (length a)) eqn:E.
  - apply Nat.ltb_lt in E. rewrite nth_error_app1 by exact E. apply Ha; exact E.
  - apply Nat.ltb_ge in E. rewrite nth_error_app2 by exact E. apply Hb. lia.
Qed.
Lemma complete_nil : complete [].
Proof. intros j Hj. simpl in Hj. lia. Qed.
Lemma u32_len v : length (u32 v) = 4%nat.
Proof. unfold u32. rewrite full_len, le_bytes_length. reflexivity. Qed.
Lemma u16_len v : length (u16 v) = 2%nat.
Proof. unfold u16. rewrite full_len, le_bytes_length. reflexivity. Qed.
Lemma u32_complete v : complete (u32 v).
Proof. apply full_complete. Qed.
Lemma u16_complete v : complete (u16 v).
Proof. apply full_complete. Qed.
Lemma complete_flat_map {A} (f : A -> payload) l : (forall x, In x l -> complete (f x)) -> complete (flat_map f l).
Proof.
  induction l as [|x r IH]; intros H; simpl; [apply complete_nil|].
  apply complete_app; [apply H; left; reflexivity|apply IH; intros y Hy; apply H; right; exact Hy].
Qed.
Lemma flat_map_len_const {A} (f : A -> payload) l n : (forall x, In x l -> length (f x) = n) ->
  length (flat_map f l) = (length l * n)%nat.
Proof.
  induction l as [|x r IH]; intros H; simpl; auto.
  rewrite app_length. rewrite IH by (intros y Hy; apply H; right; exact Hy). rewrite (H x (or_introl eq_refl)). reflexivity.
Qed.

Lemma hit_complete pos pl i : complete pl -> (pos <= i < pos + length pl)%nat -> hit pos pl i.
Proof. intros C H. split; [lia|]. apply C. lia. Qed.

(* ------------------------------------------------------------------ the section plan *)
Definition sec_ok (s : N * nat * payload) : Prop := snd (fst s) = length (snd s) /\ complete (snd s).
Definition sum_sz (secs : list (N * nat * payload)) : nat := fold_right (fun s a => (snd (fst s) + a)%nat) 0%nat secs.

Lemma dir_entry_len ty a b : length (u32 ty ++ u32 a ++ u32 b) = 12%nat.
Proof. rewrite !app_length, !u32_len. reflexivity. Qed.
Lemma dir_entry_complete ty a b : complete (u32 ty ++ u32 a ++ u32 b).
Proof. repeat apply complete_app; apply u32_complete. Qed.

Lemma cov_secs : forall secs d p i, Forall sec_ok secs ->
  ((d <= i < d + 12 * length secs)%nat \/ (p <= i < p + sum_sz secs)%nat) -> covered (plan_secs d p secs) i.
Proof.
  induction secs as [|[[ty sz] pl] r IH]; intros d p i Hok H.
  - simpl in H. lia.
  - inversion Hok as [|? ? [Hsz Hc] Hr]; subst. simpl in Hsz, Hc. cbn [plan_secs].
    cbn [length sum_sz fold_right fst snd] in H.
    destruct (Nat.ltb i (d + 12)) eqn:E1; [destruct (Nat.leb d i) eqn:E0|].
    + apply Nat.ltb_lt in E1. apply Nat.leb_le in E0.
      exists d, (u32 ty ++ u32 (N.of_nat p) ++ u32 (N.of_nat sz)). split; [left; reflexivity|].
      apply hit_complete; [apply dir_entry_complete|rewrite dir_entry_len; lia].
    + apply Nat.ltb_lt in E1. apply Nat.leb_gt in E0.
      (* i < d: must be in the data range *)
      destruct H as [H|H]; [lia|].
      destruct (Nat.ltb i (p + sz)) eqn:E2.
      * apply Nat.ltb_lt in E2. exists p, pl. split; [right; left; reflexivity|].
        apply hit_complete; [exact Hc|lia].
      * apply Nat.ltb_ge in E2.
        destruct (IH (d + 4 + 4 + 4)%nat (p + sz)%nat i Hr ltac:(right; fold (sum_sz r) in H; lia)) as (q & ql & Hin & Hh).
        exists q, ql. split; [right; right; exact Hin|exact Hh].
    + apply Nat.ltb_ge in E1.
      destruct (Nat.leb p i && Nat.ltb i (p + sz)) eqn:E2.
      * apply andb_true_iff in E2. destruct E2 as [A B]. apply Nat.leb_le in A. apply Nat.ltb_lt in B.
        exists p, pl. split; [right; left; reflexivity|]. apply hit_complete; [exact Hc|lia].
      * assert (Hrest : ((d + 4 + 4 + 4 <= i < d + 4 + 4 + 4 + 12 * length r)%nat \/ (p + sz <= i < p + sz + sum_sz r)%nat)).
        { apply andb_false_iff in E2. fold (sum_sz r) in H.
          destruct H as [H|H]; [left; lia|].
          destruct E2 as [E2|E2]; [apply Nat.leb_gt in E2; lia|apply Nat.ltb_ge in E2; right; lia]. }
        destruct (IH _ _ i Hr Hrest) as (q & ql & Hin & Hh).
        exists q, ql. split; [right; right; exact Hin|exact Hh].
Qed.

Lemma bounds_secs : forall secs d p T, Forall sec_ok secs ->
  (d + 12 * length secs <= T)%nat -> (p + sum_sz secs <= T)%nat ->
  forall pos pl, In (pos, pl) (plan_secs d p secs) -> (pos + length pl <= T)%nat.
Proof.
  induction secs as [|[[ty sz] pl0] r IH]; intros d p T Hok Hd Hp pos pl Hin.
  - destruct Hin.
  - inversion Hok as [|? ? [Hsz Hc] Hr]; subst. simpl in Hsz. cbn [plan_secs] in Hin.
    cbn [length sum_sz fold_right fst snd] in Hd, Hp. fold (sum_sz r) in Hp.
    destruct Hin as [Hin|[Hin|Hin]].
    + injection Hin as <- <-. simpl length. lia.
    + injection Hin as <- <-. lia.
    + eapply (IH (d + 4 + 4 + 4)%nat (p + sz)%nat T Hr); eauto; lia.
Qed.

(* ------------------------------------------------------------------ the module's sections under the constants *)
Definition consts_ok (K : consts) : Prop :=
  c_header K = 32%nat /\ c_sec_entry K = 12%nat /\ c_fn_entry K = 18%nat /\ c_dbg_entry K = 8%nat /\
  c_imp_base K = 11%nat /\ length (c_magic K) = 4%nat.

(* every import carries its parameter types (what nvm_add_import stores whenever param_count > 0 and a pointer is given) *)
Definition imp_complete (i : imp_entry) : Prop :=
  i_pcount i = 0%N \/ exists ts, i_ptypes i = Some ts /\ length ts = N.to_nat (i_pcount i).
Definition imports_complete (m : nvm_module) : Prop := Forall imp_complete (m_imps m).

Lemma strings_ok ss : sz_strings ss = length (pl_strings ss) /\ complete (pl_strings ss).
Proof.
  split.
  - unfold sz_strings, pl_strings. induction ss as [|s r IH]; [reflexivity|].
    cbn [fold_right flat_map]. rewrite !app_length, u32_len, full_len. lia.
  - apply complete_flat_map. intros s _. apply complete_app; [apply u32_complete|apply full_complete].
Qed.
Lemma pl_fn_len f : length (pl_fn f) = 18%nat.
Proof. unfold pl_fn. rewrite !app_length, !u32_len, !u16_len. reflexivity. Qed.
Lemma fns_ok K fs : c_fn_entry K = 18%nat -> sz_fns K fs = length (pl_fns fs) /\ complete (pl_fns fs).
Proof.
  intros E. split.
  - unfold sz_fns, pl_fns. rewrite E. symmetry. apply flat_map_len_const. intros; apply pl_fn_len.
  - apply complete_flat_map. intros f _. unfold pl_fn.
    repeat apply complete_app; try apply u32_complete; apply u16_complete.
Qed.
Lemma dbg_ok K ds : c_dbg_entry K = 8%nat -> sz_dbg K ds = length (pl_dbg ds) /\ complete (pl_dbg ds).
Proof.
  intros E. split.
  - unfold sz_dbg, pl_dbg. rewrite E. symmetry. apply flat_map_len_const. intros. rewrite app_length, !u32_len. reflexivity.
  - apply complete_flat_map. intros d _. apply complete_app; apply u32_complete.
Qed.
Lemma imp_ok i : imp_complete i -> length (pl_imp i) = (11 + N.to_nat (i_pcount i))%nat /\ complete (pl_imp i).
Proof.
  intros [Z|(ts & E & L)]; unfold pl_imp.
  - rewrite Z. simpl N.to_nat. split.
    + rewrite !app_length, !u32_len, u16_len. destruct (i_ptypes i); simpl; rewrite ?firstn_O; reflexivity.
    + repeat apply complete_app; try apply u32_complete; try apply u16_complete.
      * intros j Hj. destruct j; [eexists; reflexivity|simpl in Hj; lia].
      * destruct (i_ptypes i); simpl; apply complete_nil.
  - rewrite E. rewrite firstn_all2 by lia. rewrite L, Nat.sub_diag. simpl repeat. rewrite app_nil_r. split.
    + rewrite !app_length, !u32_len, u16_len, full_len. simpl. lia.
    + repeat apply complete_app; try apply u32_complete; try apply u16_complete; try apply full_complete.
      intros j Hj. destruct j; [eexists; reflexivity|simpl in Hj; lia].
Qed.
Lemma imps_ok K is_ : c_imp_base K = 11%nat -> Forall imp_complete is_ ->
  sz_imps K is_ = length (pl_imps is_) /\ complete (pl_imps is_).
Proof.
  intros E H. split.
  - unfold sz_imps, pl_imps. induction H as [|i r Hi Hr IH]; [reflexivity|].
    cbn [fold_right flat_map]. rewrite app_length. destruct (imp_ok i Hi) as [L _]. rewrite L, E. rewrite E in IH. lia.
  - apply complete_flat_map. intros i Hi. rewrite Forall_forall in H. apply (imp_ok i (H i Hi)).
Qed.

Lemma sections_ok K m : consts_ok K -> imports_complete m -> Forall sec_ok (sections K m).
Proof.
  intros (_ & _ & Ef & Ed & Ei & _) Him. unfold sections.
  apply Forall_app; split.
  - destruct (nonempty (m_strings m)); constructor; [|constructor]. exact (strings_ok _).
  - apply Forall_app; split.
    + destruct (nonempty (m_code m)); constructor; [|constructor]. split; [symmetry; apply full_len|apply full_complete].
    + apply Forall_app; split.
      * destruct (nonempty (m_fns m)); constructor; [|constructor]. exact (fns_ok K _ Ef).
      * apply Forall_app; split.
        -- destruct (nonempty (m_dbg m)); constructor; [|constructor]. exact (dbg_ok K _ Ed).
        -- destruct (nonempty (m_imps m)); constructor; [|constructor]. exact (imps_ok K _ Ei Him).
Qed.

(* ------------------------------------------------------------------ header plan *)
Lemma cov_header K m ns so sl i : length (c_magic K) = 4%nat -> (i < 28)%nat -> covered (plan_header K m ns so sl) i.
Proof.
  intros Hm Hi. unfold plan_header, covered.
  assert (Hc : forall p pl, In (p, pl) (plan_header K m ns so sl) -> (p <= i < p + length pl)%nat -> complete pl ->
               exists pos q, In (pos, q) (plan_header K m ns so sl) /\ hit pos q i).
  { intros p pl Hin Hr C. exists p, pl. split; [exact Hin|apply hit_complete; auto]. }
  unfold plan_header in Hc.
  destruct (Nat.ltb i 4) eqn:E0.
  { apply Nat.ltb_lt in E0. apply (Hc 0%nat (full (c_magic K))); [simpl; auto|rewrite full_len; lia|apply full_complete]. }
  apply Nat.ltb_ge in E0.
  destruct (Nat.ltb i 8) eqn:E1.
  { apply Nat.ltb_lt in E1. apply (Hc 4%nat (u32 (c_version K))); [simpl; auto|rewrite u32_len; lia|apply u32_complete]. }
  apply Nat.ltb_ge in E1.
  destruct (Nat.ltb i 12) eqn:E2.
  { apply Nat.ltb_lt in E2. apply (Hc 8%nat (u32 (m_flags m))); [simpl; auto|rewrite u32_len; lia|apply u32_complete]. }
  apply Nat.ltb_ge in E2.
  destruct (Nat.ltb i 16) eqn:E3.
  { apply Nat.ltb_lt in E3. apply (Hc 12%nat (u32 (m_entry m))); [simpl; auto|rewrite u32_len; lia|apply u32_complete]. }
  apply Nat.ltb_ge in E3.
  destruct (Nat.ltb i 20) eqn:E4.
  { apply Nat.ltb_lt in E4. apply (Hc 16%nat (u32 (N.of_nat ns))); [simpl; auto 6|rewrite u32_len; lia|apply u32_complete]. }
  apply Nat.ltb_ge in E4.
  destruct (Nat.ltb i 24) eqn:E5.
  { apply Nat.ltb_lt in E5. apply (Hc 20%nat (u32 (N.of_nat so))); [simpl; auto 7|rewrite u32_len; lia|apply u32_complete]. }
  apply Nat.ltb_ge in E5.
  apply (Hc 24%nat (u32 (N.of_nat sl))); [simpl; auto 8|rewrite u32_len; lia|apply u32_complete].
Qed.
Lemma bounds_header K m ns so sl T : length (c_magic K) = 4%nat -> (28 <= T)%nat ->
  forall pos pl, In (pos, pl) (plan_header K m ns so sl) -> (pos + length pl <= T)%nat.
Proof.
  intros Hm HT pos pl Hin. unfold plan_header in Hin. simpl in Hin.
  repeat (destruct Hin as [Hin|Hin]; [inversion Hin; subst; rewrite ?full_len, ?u32_len; lia|]). destruct Hin.
Qed.

Lemma covered_app_l p1 p2 i : covered p1 i -> covered (p1 ++ p2) i.
Proof. intros (a & b & Hin & H). exists a, b. split; [apply in_or_app; left; exact Hin|exact H]. Qed.
Lemma covered_app_r p1 p2 i : covered p2 i -> covered (p1 ++ p2) i.
Proof. intros (a & b & Hin & H). exists a, b. split; [apply in_or_app; right; exact Hin|exact H]. Qed.

Lemma nth_error_ext {A} : forall (a b : list A), (forall i, nth_error a i = nth_error b i) -> a = b.
Proof.
  induction a as [|x r IH]; intros [|y s] H; auto.
  - specialize (H 0%nat); discriminate.
  - specialize (H 0%nat); discriminate.
  - pose proof (H 0%nat) as H0. simpl in H0. inversion H0; subst. f_equal. apply IH. intros i. exact (H (S i)).
Qed.
Lemma nth_error_skipn {A} : forall n (l : list A) j, nth_error (skipn n l) j = nth_error l (n + j).
Proof. induction n as [|n IH]; intros [|x r] j; simpl; auto. destruct j; reflexivity. Qed.

(* ------------------------------------------------------------------ serialize_ignores_buffer *)
Section Main.
Variable crc : list byte -> N.

Theorem serialize_ignores_buffer K m init1 init2 :
  consts_ok K -> imports_complete m ->
  length init1 = total_size K m -> length init2 = total_size K m ->
  serialize_into crc K init1 m = serialize_into crc K init2 m /\
  exists out, serialize_into crc K init1 m = Some out /\ length out = total_size K m.
Proof.
  intros CK IM L1 L2. pose proof CK as (Eh & Es & Ef & Ed & Ei & Em).
  pose proof (sections_ok K m CK IM) as Hok.
  unfold serialize_into.
  set (secs := sections K m) in *.
  set (data0 := (c_header K + length secs * c_sec_entry K)%nat).
  set (so := if nonempty (m_strings m) then data0 else 0%nat).
  set (sl := if nonempty (m_strings m) then sz_strings (m_strings m) else 0%nat).
  set (plan := plan_secs (c_header K) data0 secs ++ plan_header K m (length secs) so sl).
  assert (HT : total_size K m = (32 + 12 * length secs + sum_sz secs)%nat).
  { unfold total_size. fold secs. rewrite Eh, Es. unfold sum_sz. lia. }
  assert (Hd0 : data0 = (32 + 12 * length secs)%nat) by (unfold data0; rewrite Eh, Es; lia).
  assert (Hb : forall b : list byte, length b = total_size K m -> forall pos pl, In (pos, pl) plan -> (pos + length pl <= length b)%nat).
  { intros b Lb pos pl Hin. unfold plan in Hin. apply in_app_or in Hin. rewrite Lb, HT. destruct Hin as [Hin|Hin].
    - eapply (bounds_secs secs (c_header K) data0); eauto; rewrite ?Eh, ?Hd0; lia.
    - eapply bounds_header; eauto. lia. }
  destruct (exec_some plan init1 (Hb init1 L1)) as [b1 E1].
  destruct (exec_some plan init2 (Hb init2 L2)) as [b2 E2].
  rewrite E1, E2.
  pose proof (exec_len _ _ _ E1) as Lb1. pose proof (exec_len _ _ _ E2) as Lb2.
  assert (Hcov : forall i, (i < 28 \/ 32 <= i < total_size K m)%nat -> nth_error b1 i = nth_error b2 i).
  { intros i Hi. apply (exec_agree plan init1 init2 b1 b2 i E1 E2). right. unfold plan.
    destruct Hi as [Hi|Hi].
    - apply covered_app_r. apply cov_header; auto.
    - apply covered_app_l. apply cov_secs; auto. rewrite Eh, Hd0. rewrite HT in Hi. lia. }
  assert (Hskip : skipn (c_header K) b1 = skipn (c_header K) b2).
  { apply nth_error_ext. intros j. rewrite !nth_error_skipn. rewrite Eh.
    destruct (Nat.ltb (32 + j) (total_size K m)) eqn:E.
    - apply Nat.ltb_lt in E. apply Hcov. lia.
    - apply Nat.ltb_ge in E. rewrite (proj2 (nth_error_None b1 _)) by lia. rewrite (proj2 (nth_error_None b2 _)) by lia. reflexivity. }
  rewrite Hskip.
  set (cw := u32 (crc (skipn (c_header K) b2))).
  destruct (poke_some 28 b1 cw ltac:(unfold cw; rewrite u32_len, Lb1, L1, HT; lia)) as [o1 P1].
  destruct (poke_some 28 b2 cw ltac:(unfold cw; rewrite u32_len, Lb2, L2, HT; lia)) as [o2 P2].
  rewrite P1, P2. split.
  - f_equal. apply nth_error_ext. intros i.
    apply (poke_agree 28 cw b1 b2 o1 o2 i P1 P2).
    destruct (Nat.ltb i 28) eqn:A; [left; apply Hcov; apply Nat.ltb_lt in A; lia|]. apply Nat.ltb_ge in A.
    destruct (Nat.ltb i 32) eqn:B.
    + apply Nat.ltb_lt in B. right. apply hit_complete; [apply u32_complete|unfold cw; rewrite u32_len; lia].
    + apply Nat.ltb_ge in B. left.
      destruct (Nat.ltb i (total_size K m)) eqn:C.
      * apply Nat.ltb_lt in C. apply Hcov. lia.
      * apply Nat.ltb_ge in C. rewrite (proj2 (nth_error_None b1 _)) by lia. rewrite (proj2 (nth_error_None b2 _)) by lia. reflexivity.
  - exists o1. split; [reflexivity|]. rewrite (poke_len _ _ _ _ P1), Lb1. exact L1.
Qed.

(* consequence: the calloc'ed buffer of the C is one instance *)
Corollary serialize_is_any_buffer K m init :
  consts_ok K -> imports_complete m -> length init = total_size K m ->
  serialize_into crc K init m = serialize crc K m.
Proof.
  intros CK IM L. unfold serialize.
  apply (serialize_ignores_buffer K m init (repeat 0%N (total_size K m)) CK IM L). apply repeat_length.
Qed.
End Main.

(* ------------------------------------------------------------------ pool_order_is_first_use *)
Lemma bytes_eqb_eq a : forall b, bytes_eqb a b = true <-> a = b.
Proof.
  induction a as [|x r IH]; intros [|y s]; simpl; split; intros H; try reflexivity; try discriminate.
  - apply andb_true_iff in H. destruct H as [H1 H2]. apply N.eqb_eq in H1. apply IH in H2. subst; reflexivity.
  - inversion H; subst. apply andb_true_iff; split; [apply N.eqb_refl|apply IH; reflexivity].
Qed.

Lemma find_str_none pool s i : find_str pool s i = None <-> existsb (fun x => bytes_eqb x s) pool = false.
Proof.
  revert i; induction pool as [|x r IH]; intros i; simpl; [tauto|].
  destruct (bytes_eqb x s); simpl; [split; discriminate|apply IH].
Qed.
Lemma find_str_some pool s : forall i k, find_str pool s i = Some k ->
  (i <= k)%nat /\ nth_error pool (k - i) = Some s /\ existsb (fun x => bytes_eqb x s) pool = true.
Proof.
  induction pool as [|x r IH]; intros i k H; simpl in H; [discriminate|].
  destruct (bytes_eqb x s) eqn:E.
  - inversion H; subst. apply bytes_eqb_eq in E. subst. rewrite Nat.sub_diag. simpl. rewrite (proj2 (bytes_eqb_eq s s) eq_refl). auto.
  - destruct (IH _ _ H) as (A & B & C). split; [lia|]. split.
    + replace (k - i)%nat with (S (k - S i)) by lia. exact B.
    + simpl. rewrite E. exact C.
Qed.

Lemma find_str_app_some pool s suf : forall n k, find_str pool s n = Some k -> find_str (pool ++ suf) s n = Some k.
Proof.
  induction pool as [|x q IH]; intros n k F; simpl in *; [discriminate|]. destruct (bytes_eqb x s); auto.
Qed.
Lemma find_str_app_new pool s suf : existsb (fun x => bytes_eqb x s) pool = false ->
  forall n, find_str ((pool ++ [s]) ++ suf) s n = Some (n + length pool)%nat.
Proof.
  induction pool as [|x q IH]; intros F n; simpl in *.
  - rewrite (proj2 (bytes_eqb_eq s s) eq_refl). f_equal. lia.
  - destruct (bytes_eqb x s) eqn:E; [discriminate|]. simpl in F. rewrite (IH F (S n)). f_equal. lia.
Qed.

(* the pool after any sequence of nvm_add_string calls is [pool0 ++ the new strings in order of first use];
   every call returns the position of its string in that final pool *)
Lemma add_all_spec : forall ss pool p is_,
  add_all pool ss = (p, is_) ->
  p = pool ++ first_uses pool ss /\
  length is_ = length ss /\
  forall j s, nth_error ss j = Some s -> exists k, nth_error is_ j = Some k /\ find_str p s 0 = Some k.
Proof.
  induction ss as [|s r IH]; intros pool p is_ H; simpl in H.
  - inversion H; subst. simpl. rewrite app_nil_r. repeat split; auto. intros [|j] s Hs; discriminate.
  - unfold add_string in H. destruct (find_str pool s 0) as [k|] eqn:F.
    + destruct (add_all pool r) as [p2 is2] eqn:R. inversion H; subst.
      destruct (IH _ _ _ R) as (A & B & C). destruct (find_str_some _ _ _ _ F) as (_ & Hn & Hex).
      simpl. rewrite Hex. split; [exact A|]. split; [simpl; f_equal; exact B|].
      intros [|j] s0 Hs; simpl in Hs.
      * inversion Hs; subst. exists k. split; [reflexivity|].
        try rewrite A. apply find_str_app_some. exact F.
      * apply C; exact Hs.
    + destruct (add_all (pool ++ [s]) r) as [p2 is2] eqn:R. inversion H; subst.
      destruct (IH _ _ _ R) as (A & B & C). apply find_str_none in F.
      simpl. rewrite F. split; [rewrite A, <- app_assoc; reflexivity|]. split; [simpl; f_equal; exact B|].
      intros [|j] s0 Hs; simpl in Hs.
      * inversion Hs; subst. exists (length pool). split; [reflexivity|].
        try rewrite A. apply (find_str_app_new pool s0 _ F 0%nat).
      * apply C; exact Hs.
Qed.

Theorem pool_order_is_first_use ss1 ss2 p1 i1 p2 i2 :
  add_all [] ss1 = (p1, i1) -> add_all [] ss2 = (p2, i2) ->
  first_uses [] ss1 = first_uses [] ss2 ->
  p1 = p2 /\
  forall j1 j2 s, nth_error ss1 j1 = Some s -> nth_error ss2 j2 = Some s -> nth_error i1 j1 = nth_error i2 j2.
Proof.
  intros H1 H2 E.
  destruct (add_all_spec _ _ _ _ H1) as (A1 & _ & C1). destruct (add_all_spec _ _ _ _ H2) as (A2 & _ & C2).
  simpl in A1, A2. assert (P : p1 = p2) by (rewrite A1, A2, E; reflexivity). split; [exact P|].
  intros j1 j2 s S1 S2. destruct (C1 _ _ S1) as (k1 & N1 & F1). destruct (C2 _ _ S2) as (k2 & N2 & F2).
  rewrite N1, N2. rewrite P in F1. rewrite F1 in F2. exact F2.
Qed.

Theorem pool_is_first_uses ss p is_ : add_all [] ss = (p, is_) -> p = first_uses [] ss.
Proof. intros H. destruct (add_all_spec _ _ _ _ H) as (A & _). exact A. Qed.

(* ------------------------------------------------------------------ encode_ignores_padding *)
Local Open Scope N_scope.
Lemma le_bytes_low k : forall v w, v mod 256 ^ N.of_nat k = w mod 256 ^ N.of_nat k -> le_bytes k v = le_bytes k w.
Proof.
  induction k as [|k IH]; intros v w H; [reflexivity|].
  rewrite Nat2N.inj_succ, N.pow_succ_r' in H. cbn [le_bytes].
  assert (P : (0 < 256 ^ N.of_nat k)%N) by (apply N.neq_0_lt_0, N.pow_nonzero; discriminate).
  assert (Hm : forall x, (x mod (256 * 256 ^ N.of_nat k)) mod 256 = x mod 256).
  { intros x. rewrite N.mod_mul_r by lia. rewrite N.mul_comm, N.mod_add by lia. apply N.mod_mod. lia. }
  assert (Hd : forall x, (x mod (256 * 256 ^ N.of_nat k)) / 256 = (x / 256) mod 256 ^ N.of_nat k).
  { intros x. rewrite N.mod_mul_r by lia. rewrite N.mul_comm, N.div_add by lia.
    rewrite (N.div_small (x mod 256) 256) by (apply N.mod_lt; lia). reflexivity. }
  f_equal.
  - rewrite <- (Hm v), <- (Hm w), H. reflexivity.
  - apply IH. rewrite <- (Hd v), <- (Hd w), H. reflexivity.
Qed.

Lemma enc_args_low ks : forall a b, same_low ks a b -> enc_args ks (firstn (length ks) a) = enc_args ks (firstn (length ks) b).
Proof.
  induction ks as [|k r IH]; intros a b H; [reflexivity|].
  destruct a as [|x a']; destruct b as [|y b']; simpl in H; try contradiction.
  destruct H as [H1 H2]. cbn [length firstn enc_args]. rewrite (IH _ _ H2). rewrite (le_bytes_low _ _ _ H1). reflexivity.
Qed.

Theorem encode_ignores_padding T r1 r2 :
  r_op r1 = r_op r2 ->
  (forall ks, T (r_op r1) = Some ks -> same_low ks (r_slots r1) (r_slots r2)) ->
  encode_raw T r1 = encode_raw T r2.
Proof.
  intros Eo H. unfold encode_raw. rewrite <- Eo. destruct (T (r_op r1)) as [ks|] eqn:Et; [|reflexivity].
  unfold encode. cbn [op args]. rewrite Et. rewrite (enc_args_low ks _ _ (H ks eq_refl)). reflexivity.
Qed.
