(* nvm_serialize (src/nanoisa/nvm_format.c) as a sequence of writes INTO a buffer whose initial contents are
   arbitrary, nvm_add_string (the string pool), and emit_op's view of a DecodedInstruction with junk in the
   parts isa_encode must not read.  Self-contained (C19); definitions only (extracted).

   The buffer is a byte list of the size the C computes; every write is a [poke] at the offset the C computes from its
   own size constants ([consts], instantiated by NV.gen.SerConsts from nvm_format.h) -- NOT at "the end of what was
   written so far".  The helper functions write what they write (field widths as in the C); the cursor [data_pos]
   advances by the size computed from the constants, exactly as in nvm_serialize.  A [poke] that leaves the buffer is
   [None] (heap overflow).  Import parameter types may be absent (import_param_types[i] == NULL): the C then skips the
   memcpy and those bytes keep whatever the buffer held: a payload is a list of [option byte], [None] = not written. *)
From Coq Require Import NArith List Bool.
From NV Require Import Base.Bytes Isa.Codec.
Import ListNotations.
Local Open Scope N_scope.

Record consts := {
  c_header : nat;          (* NVM_HEADER_SIZE *)
  c_sec_entry : nat;       (* NVM_SECTION_ENTRY_SIZE *)
  c_fn_entry : nat;        (* NVM_FUNCTION_ENTRY_SIZE *)
  c_dbg_entry : nat;       (* NVM_DEBUG_ENTRY_SIZE *)
  c_imp_base : nat;        (* NVM_IMPORT_ENTRY_BASE_SIZE *)
  c_magic : list byte;     (* NVM_MAGIC_0..3 *)
  c_version : N;
  c_t_code : N; c_t_strings : N; c_t_functions : N; c_t_debug : N; c_t_imports : N
}.

Record fn_entry := { f_name : N; f_arity : N; f_off : N; f_len : N; f_locals : N; f_upvals : N }.
Record dbg_entry := { g_off : N; g_line : N }.
Record imp_entry := { i_mod : N; i_fn : N; i_pcount : N; i_ret : N; i_ptypes : option (list byte) }.
Record nvm_module := {
  m_flags : N; m_entry : N;
  m_strings : list (list byte);
  m_code : list byte;
  m_fns : list fn_entry;
  m_dbg : list dbg_entry;
  m_imps : list imp_entry
}.

Definition payload := list (option byte).
Definition full (bs : list byte) : payload := map Some bs.
Definition u16 (v : N) : payload := full (le_bytes 2 v).
Definition u32 (v : N) : payload := full (le_bytes 4 v).

(* ---- what the helpers write ---- *)
(* serialize_string_pool: [u32 length][bytes] per string *)
Definition pl_strings (ss : list (list byte)) : payload :=
  flat_map (fun s => u32 (N.of_nat (length s)) ++ full s) ss.
(* serialize_functions: 4+2+4+4+2+2 *)
Definition pl_fn (f : fn_entry) : payload :=
  u32 (f_name f) ++ u16 (f_arity f) ++ u32 (f_off f) ++ u32 (f_len f) ++ u16 (f_locals f) ++ u16 (f_upvals f).
Definition pl_fns (fs : list fn_entry) : payload := flat_map pl_fn fs.
Definition pl_dbg (ds : list dbg_entry) : payload := flat_map (fun d => u32 (g_off d) ++ u32 (g_line d)) ds.
(* serialize_imports: 4+4+2+1, then memcpy(param_count bytes) only if the pointer is non-NULL; pos += param_count anyway *)
Definition pl_imp (i : imp_entry) : payload :=
  u32 (i_mod i) ++ u32 (i_fn i) ++ u16 (i_pcount i) ++ [Some (i_ret i mod 256)] ++
  match i_ptypes i with
  | Some ts => full (firstn (N.to_nat (i_pcount i)) ts) ++ repeat None (N.to_nat (i_pcount i) - length ts)
  | None => repeat None (N.to_nat (i_pcount i))
  end.
Definition pl_imps (is_ : list imp_entry) : payload := flat_map pl_imp is_.

(* ---- the sizes nvm_serialize computes from the constants ---- *)
Definition sz_strings (ss : list (list byte)) : nat := fold_right (fun s a => (4 + length s + a)%nat) 0%nat ss.
Definition sz_fns (K : consts) (fs : list fn_entry) : nat := (length fs * c_fn_entry K)%nat.
Definition sz_dbg (K : consts) (ds : list dbg_entry) : nat := (length ds * c_dbg_entry K)%nat.
Definition sz_imps (K : consts) (is_ : list imp_entry) : nat :=
  fold_right (fun i a => (c_imp_base K + N.to_nat (i_pcount i) + a)%nat) 0%nat is_.

(* present sections in the order nvm_serialize emits them: (type, computed size, what is written) *)
Definition nonempty {A} (l : list A) : bool := match l with [] => false | _ => true end.
Definition sections (K : consts) (m : nvm_module) : list (N * nat * payload) :=
  (if nonempty (m_strings m) then [(c_t_strings K, sz_strings (m_strings m), pl_strings (m_strings m))] else []) ++
  (if nonempty (m_code m) then [(c_t_code K, length (m_code m), full (m_code m))] else []) ++
  (if nonempty (m_fns m) then [(c_t_functions K, sz_fns K (m_fns m), pl_fns (m_fns m))] else []) ++
  (if nonempty (m_dbg m) then [(c_t_debug K, sz_dbg K (m_dbg m), pl_dbg (m_dbg m))] else []) ++
  (if nonempty (m_imps m) then [(c_t_imports K, sz_imps K (m_imps m), pl_imps (m_imps m))] else []).

Definition total_size (K : consts) (m : nvm_module) : nat :=
  let secs := sections K m in
  (c_header K + length secs * c_sec_entry K + fold_right (fun s a => (snd (fst s) + a)%nat) 0%nat secs)%nat.

(* ---- writes ---- *)
Fixpoint write (pl : payload) (buf : list byte) : option (list byte) :=
  match pl, buf with
  | [], _ => Some buf
  | o :: pr, b :: r => match write pr r with
                       | Some r' => Some (match o with Some x => x | None => b end :: r')
                       | None => None
                       end
  | _ :: _, [] => None
  end.
Fixpoint poke (buf : list byte) (pos : nat) (pl : payload) {struct pos} : option (list byte) :=
  match pos with
  | O => write pl buf
  | S p => match buf with
           | b :: r => match poke r p pl with Some r' => Some (b :: r') | None => None end
           | [] => match pl with [] => Some [] | _ => None end
           end
  end.

(* a plan is the list of writes in program order *)
Fixpoint exec (buf : list byte) (plan : list (nat * payload)) : option (list byte) :=
  match plan with
  | [] => Some buf
  | (pos, pl) :: r => match poke buf pos pl with Some b' => exec b' r | None => None end
  end.

(* directory entry + section data, two cursors; dir_pos += 4 three times, data_pos += computed size *)
Fixpoint plan_secs (dir_pos data_pos : nat) (secs : list (N * nat * payload)) : list (nat * payload) :=
  match secs with
  | [] => []
  | (ty, sz, pl) :: r =>
      (dir_pos, u32 ty ++ u32 (N.of_nat data_pos) ++ u32 (N.of_nat sz)) :: (data_pos, pl) ::
      plan_secs (dir_pos + 4 + 4 + 4) (data_pos + sz) r
  end.

(* header fields written after the sections: magic, version, flags, entry point, section count, string pool offset/length *)
Definition plan_header (K : consts) (m : nvm_module) (nsec : nat) (str_off str_len : nat) : list (nat * payload) :=
  [ (0%nat, full (c_magic K)); (4%nat, u32 (c_version K)); (8%nat, u32 (m_flags m)); (12%nat, u32 (m_entry m));
    (16%nat, u32 (N.of_nat nsec)); (20%nat, u32 (N.of_nat str_off)); (24%nat, u32 (N.of_nat str_len)) ].

Section WithCrc.
Variable crc : list byte -> N.

Definition serialize_into (K : consts) (init : list byte) (m : nvm_module) : option (list byte) :=
  let secs := sections K m in
  let dir_size := (length secs * c_sec_entry K)%nat in
  let data0 := (c_header K + dir_size)%nat in
  let has_str := nonempty (m_strings m) in
  let str_off := if has_str then data0 else 0%nat in
  let str_len := if has_str then sz_strings (m_strings m) else 0%nat in
  match exec init (plan_secs (c_header K) data0 secs ++ plan_header K m (length secs) str_off str_len) with
  | Some b1 => poke b1 28 (u32 (crc (skipn (c_header K) b1)))
  | None => None
  end.
End WithCrc.

(* the C's buffer: calloc(1, total_size) *)
Definition serialize (crc : list byte -> N) (K : consts) (m : nvm_module) : option (list byte) :=
  serialize_into crc K (repeat 0 (total_size K m)) m.

(* CRC-32 (reflected polynomial 0xEDB88320), bitwise; only used to run the extracted model against real files *)
Fixpoint crc_bits (n : nat) (c : N) : N :=
  match n with O => c | S k => crc_bits k (if N.odd c then N.lxor (N.shiftr c 1) 3988292384 else N.shiftr c 1) end.
Definition crc_step (c : N) (b : byte) : N := crc_bits 8 (N.lxor c (b mod 256)).
Definition crc32 (bs : list byte) : N := N.lxor (fold_left crc_step bs 4294967295) 4294967295.

(* ---------------------------------------------------------------------------------------------
   nvm_add_string: linear search for an equal (length, bytes) entry, else append; returns the index *)
Fixpoint bytes_eqb (a b : list byte) : bool :=
  match a, b with [], [] => true | x :: a', y :: b' => N.eqb x y && bytes_eqb a' b' | _, _ => false end.
Fixpoint find_str (pool : list (list byte)) (s : list byte) (i : nat) : option nat :=
  match pool with [] => None | x :: r => if bytes_eqb x s then Some i else find_str r s (S i) end.
Definition add_string (pool : list (list byte)) (s : list byte) : list (list byte) * nat :=
  match find_str pool s 0 with Some i => (pool, i) | None => (pool ++ [s], length pool) end.
(* a compilation's sequence of nvm_add_string calls: final pool and the index each call returned *)
Fixpoint add_all (pool : list (list byte)) (ss : list (list byte)) : list (list byte) * list nat :=
  match ss with
  | [] => (pool, [])
  | s :: r => let (p1, i) := add_string pool s in let (p2, is_) := add_all p1 r in (p2, i :: is_)
  end.
(* the sequence of distinct strings in order of first use *)
Fixpoint first_uses (seen : list (list byte)) (ss : list (list byte)) : list (list byte) :=
  match ss with
  | [] => []
  | s :: r => if existsb (fun x => bytes_eqb x s) seen then first_uses seen r else s :: first_uses (seen ++ [s]) r
  end.

(* ---------------------------------------------------------------------------------------------
   emit_op / isa_encode: the DecodedInstruction on the C stack.  Besides the opcode it holds operand_count,
   MAX_OPERANDS union slots of 8 bytes, operand_types[] and byte_length.  isa_encode reads the opcode and, for the
   table's operand kinds only, the typed member of slot i (its low ksize bytes). *)
Record raw_instr := { r_op : N; r_count : N; r_slots : list N; r_types : list N; r_bytelen : N }.
Definition encode_raw (T : table_t) (r : raw_instr) : option (list byte) :=
  match T (r_op r) with
  | None => None
  | Some ks => encode T {| op := r_op r; args := firstn (length ks) (r_slots r) |}
  end.
(* two raw instructions that differ only where isa_encode does not look *)
Fixpoint same_low (ks : list okind) (a b : list N) : Prop :=
  match ks, a, b with
  | [], _, _ => True
  | k :: ks', x :: a', y :: b' => x mod 256 ^ N.of_nat (ksize k) = y mod 256 ^ N.of_nat (ksize k) /\ same_low ks' a' b'
  | _ :: _, _, _ => False
  end.
