(* CRC of the .nvm container: executable model of crc32_init / nvm_crc32 (src/nanoisa/nvm_format.c).
   Everything is parametric in (poly, init, xorout); the instance is NV.gen.NvmConsts (regenerated from the
   source: clang AST literals + the table dumped from the repo's own crc32_init).
   Registers are unbounded N; the C keeps them in uint32_t -- the proofs show they stay below 2^32.
   No proofs in this file (it is extracted). *)
From Coq Require Import NArith List Bool.
From NV Require Import Base.Bytes.
Import ListNotations.
Local Open Scope N_scope.

(* one turn of the inner loop of crc32_init:  if (crc & 1) crc = (crc >> 1) ^ POLY; else crc >>= 1; *)
Definition Zs (poly s : N) : N :=
  if N.odd s then N.lxor (N.shiftr s 1) poly else N.shiftr s 1.

Fixpoint Zs_iter (poly : N) (k : nat) (s : N) : N :=
  match k with O => s | S k' => Zs_iter poly k' (Zs poly s) end.

(* crc32_table[i]: eight turns starting from i *)
Definition tab_entry (poly i : N) : N := Zs_iter poly 8 i.

(* the 256-entry table as a list (what crc32_init leaves in crc32_table) *)
Fixpoint upto (n : nat) : list N :=
  match n with O => [] | S n' => upto n' ++ [N.of_nat n'] end.
Definition table_list (poly : N) : list N := map (tab_entry poly) (upto 256).

(* the same table as a depth-8 binary tree indexed by the bits of i (fast lookup for the extracted model) *)
Inductive ttree := TLeaf (v : N) | TNode (l r : ttree).
Fixpoint tbuild (d : nat) (f : N -> N) (base : N) : ttree :=
  match d with
  | O => TLeaf (f base)
  | S d' => TNode (tbuild d' f base) (tbuild d' f (base + 2 ^ N.of_nat d'))
  end.
Fixpoint tlook (d : nat) (t : ttree) (i : N) : N :=
  match t, d with
  | TLeaf v, _ => v
  | TNode l r, S d' => if N.testbit i (N.of_nat d') then tlook d' r i else tlook d' l i
  | TNode _ _, O => 0
  end.
Definition table_tree (poly : N) : ttree := tbuild 8 (tab_entry poly) 0.

(* body of the loop of nvm_crc32:  crc = (crc >> 8) ^ crc32_table[(crc ^ data[i]) & 0xFF]; *)
Definition step_byte_tab (t : ttree) (crc b : N) : N :=
  N.lxor (N.shiftr crc 8) (tlook 8 t (N.land (N.lxor crc b) 255)).

(* nvm_crc32, table form *)
Definition crc_tab_with (t : ttree) (init xorout : N) (bs : list byte) : N :=
  N.lxor (fold_left (step_byte_tab t) bs init) xorout.
Definition crc_tab (poly init xorout : N) (bs : list byte) : N :=
  crc_tab_with (table_tree poly) init xorout bs.

(* bit-serial form: one message bit enters at bit 0, then one turn *)
Definition stepb (poly s : N) (b : bool) : N := Zs poly (N.lxor s (if b then 1 else 0)).
Definition reg_bits (poly : N) (s : N) (bits : list bool) : N := fold_left (stepb poly) bits s.
Definition crc_bits (poly init xorout : N) (bits : list bool) : N :=
  N.lxor (reg_bits poly init bits) xorout.

(* bit order of the CRC: least significant bit of each byte first *)
Fixpoint bits_of (k : nat) (n : N) : list bool :=
  match k with O => [] | S k' => N.odd n :: bits_of k' (N.div2 n) end.
Definition bits_of_bytes (bs : list byte) : list bool := flat_map (bits_of 8) bs.
Fixpoint N_of_bits (bits : list bool) : N :=
  match bits with [] => 0 | b :: r => (if b then 1 else 0) + 2 * N_of_bits r end.

(* byte-wise bitwise form (no table): crc ^= b, eight turns *)
Definition step_byte_bitwise (poly crc b : N) : N := Zs_iter poly 8 (N.lxor crc b).
Definition crc_bytes_bitwise (poly init xorout : N) (bs : list byte) : N :=
  N.lxor (fold_left (step_byte_bitwise poly) bs init) xorout.

(* running the register backwards (used to compute CRC-preserving tails; poly must have bit 31 set) *)
Definition Zs_inv (poly y : N) : N :=
  if N.testbit y 31 then N.lor (N.shiftl (N.lxor y poly) 1) 1 else N.shiftl y 1.
Fixpoint Zs_inv_iter (poly : N) (k : nat) (y : N) : N :=
  match k with O => y | S k' => Zs_inv_iter poly k' (Zs_inv poly y) end.

(* four bytes t such that the register after [bs ++ t] equals the register after [bs]:
   reg(bs ++ t) = Zs^32 (reg bs xor word t), so word t = reg bs xor Zs^-32 (reg bs) *)
Definition steer_tail (poly init : N) (bs : list byte) : list byte :=
  let s := fold_left (step_byte_bitwise poly) bs init in
  le_bytes 4 (N.lxor s (Zs_inv_iter poly 32 s)).

(* statement vocabulary: the byte strings a and b, read as bit strings in the CRC's bit order, agree outside one
   window of at most 32 consecutive bits and differ inside it *)
Definition burst_le32 (a b : list byte) : Prop :=
  exists pre b1 b2 post,
    bits_of_bytes a = pre ++ b1 ++ post /\ bits_of_bytes b = pre ++ b2 ++ post /\
    length b1 = length b2 /\ (length b1 <= 32)%nat /\ b1 <> b2.
