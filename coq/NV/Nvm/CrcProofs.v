(* Proofs about the CRC model, for an arbitrary polynomial with poly < 2^32 and bit 31 set. *)
From Coq Require Import NArith List Lia Bool Ring.
From NV Require Import Base.Bytes Nvm.Crc.
Import ListNotations.
Local Open Scope N_scope.

(* ---------------------------------------------------------------- generic bit facts *)
Lemma odd_lxor a b : N.odd (N.lxor a b) = xorb (N.odd a) (N.odd b).
Proof. rewrite <- !N.bit0_odd. apply N.lxor_spec. Qed.

Lemma lt_pow2_bits a n : a < 2 ^ n -> forall m, n <= m -> N.testbit a m = false.
Proof.
  intros H m Hm. destruct (N.eq_dec a 0) as [->|Hz]; [apply N.bits_0|].
  apply N.bits_above_log2. apply N.lt_le_trans with n; [|exact Hm].
  apply N.log2_lt_pow2; lia.
Qed.

Lemma bits_lt_pow2 a n : (forall m, n <= m -> N.testbit a m = false) -> a < 2 ^ n.
Proof.
  intros H. destruct (N.eq_dec a 0) as [->|Hz].
  - apply N.neq_0_lt_0. apply N.pow_nonzero. lia.
  - apply N.log2_lt_pow2; [lia|].
    destruct (N.lt_ge_cases (N.log2 a) n) as [L|L]; [exact L|].
    specialize (H _ L). rewrite N.bit_log2 in H by exact Hz. discriminate.
Qed.

Lemma lxor_lt_pow2 a b n : a < 2 ^ n -> b < 2 ^ n -> N.lxor a b < 2 ^ n.
Proof.
  intros Ha Hb. apply bits_lt_pow2. intros m Hm.
  rewrite N.lxor_spec, (lt_pow2_bits a n Ha m Hm), (lt_pow2_bits b n Hb m Hm). reflexivity.
Qed.

Lemma shiftr_lt_pow2 a n k : a < 2 ^ n -> N.shiftr a k < 2 ^ n.
Proof.
  intros Ha. apply bits_lt_pow2. intros m Hm. rewrite N.shiftr_spec by lia.
  apply (lt_pow2_bits a n Ha). lia.
Qed.

Lemma lxor_neq_0 a b : a <> b -> N.lxor a b <> 0.
Proof. intros H E. apply H. apply N.lxor_eq. exact E. Qed.

(* ---------------------------------------------------------------- the register turn *)
Section Poly.
Variable poly : N.
Hypothesis poly_lt : poly < 2 ^ 32.
Hypothesis poly_b31 : N.testbit poly 31 = true.

Notation Zs := (Zs poly).
Notation Zs_iter := (Zs_iter poly).

Lemma Zs_0 : Zs 0 = 0.
Proof. reflexivity. Qed.

Lemma Zs_lin a b : Zs (N.lxor a b) = N.lxor (Zs a) (Zs b).
Proof.
  unfold Crc.Zs. rewrite odd_lxor, N.shiftr_lxor.
  destruct (N.odd a), (N.odd b); cbn [xorb].
  - rewrite N.lxor_assoc, (N.lxor_comm poly), !N.lxor_assoc, N.lxor_nilpotent, N.lxor_0_r. reflexivity.
  - rewrite !N.lxor_assoc. f_equal. apply N.lxor_comm.
  - rewrite N.lxor_assoc. reflexivity.
  - reflexivity.
Qed.

Lemma Zs_lt a : a < 2 ^ 32 -> Zs a < 2 ^ 32.
Proof.
  intros Ha. unfold Crc.Zs. destruct (N.odd a).
  - apply lxor_lt_pow2; [apply shiftr_lt_pow2; exact Ha|exact poly_lt].
  - apply shiftr_lt_pow2; exact Ha.
Qed.

Lemma Zs_bit31 x : x < 2 ^ 32 -> N.testbit (Zs x) 31 = N.odd x.
Proof.
  intros Hx. unfold Crc.Zs. destruct (N.odd x) eqn:E.
  - rewrite N.lxor_spec, N.shiftr_spec by lia. change (31 + 1) with 32.
    rewrite (lt_pow2_bits x 32 Hx 32) by lia. rewrite poly_b31. reflexivity.
  - rewrite N.shiftr_spec by lia. change (31 + 1) with 32. apply (lt_pow2_bits x 32 Hx). lia.
Qed.

Lemma Zs_inj a b : a < 2 ^ 32 -> b < 2 ^ 32 -> Zs a = Zs b -> a = b.
Proof.
  intros Ha Hb H.
  assert (Ho : N.odd a = N.odd b) by (rewrite <- !Zs_bit31 by assumption; now rewrite H).
  unfold Crc.Zs in H. rewrite Ho in H.
  assert (Hs : N.shiftr a 1 = N.shiftr b 1).
  { destruct (N.odd b); [|exact H].
    apply (f_equal (fun z => N.lxor z poly)) in H.
    rewrite !N.lxor_assoc, !N.lxor_nilpotent, !N.lxor_0_r in H. exact H. }
  apply N.bits_inj. intros [|p].
  - rewrite !N.bit0_odd. exact Ho.
  - assert (Hk : forall x, N.testbit x (N.pos p) = N.testbit (N.shiftr x 1) (N.pos p - 1)).
    { intro x. rewrite N.shiftr_spec by lia. f_equal. lia. }
    rewrite !Hk, Hs. reflexivity.
Qed.

Lemma Zs_iter_0 k : Zs_iter k 0 = 0.
Proof. induction k; simpl; [reflexivity|exact IHk]. Qed.

Lemma Zs_iter_lin k : forall a b, Zs_iter k (N.lxor a b) = N.lxor (Zs_iter k a) (Zs_iter k b).
Proof. induction k as [|k IH]; intros a b; simpl; [reflexivity|]. rewrite Zs_lin. apply IH. Qed.

Lemma Zs_iter_lt k : forall a, a < 2 ^ 32 -> Zs_iter k a < 2 ^ 32.
Proof. induction k as [|k IH]; intros a Ha; simpl; [exact Ha|]. apply IH. apply Zs_lt. exact Ha. Qed.

Lemma Zs_iter_inj k : forall a b, a < 2 ^ 32 -> b < 2 ^ 32 -> Zs_iter k a = Zs_iter k b -> a = b.
Proof.
  induction k as [|k IH]; intros a b Ha Hb H; simpl in H; [exact H|].
  apply Zs_inj; try assumption. apply IH; try assumption; apply Zs_lt; assumption.
Qed.

Lemma Zs_iter_nonzero k a : a < 2 ^ 32 -> a <> 0 -> Zs_iter k a <> 0.
Proof.
  intros Ha Hn E. apply Hn. apply (Zs_iter_inj k); [exact Ha|reflexivity|]. rewrite Zs_iter_0. exact E.
Qed.

Lemma Zs_iter_app j k a : Zs_iter (j + k) a = Zs_iter k (Zs_iter j a).
Proof. revert a; induction j as [|j IH]; intros a; simpl; [reflexivity|]. apply IH. Qed.

(* ---------------------------------------------------------------- feeding bits *)
Lemma b2n_lt (b : bool) : (if b then 1 else 0) < 2.
Proof. destruct b; lia. Qed.

Lemma add_bit_lxor (b : bool) v : (if b then 1 else 0) + 2 * v = N.lxor (if b then 1 else 0) (2 * v).
Proof.
  apply N.add_nocarry_lxor. apply N.bits_inj. intros n. rewrite N.land_spec, N.bits_0.
  destruct (N.eq_dec n 0) as [->|Hn].
  - rewrite N.testbit_even_0. apply andb_false_r.
  - rewrite (lt_pow2_bits _ 1); [reflexivity| |lia]. change (2 ^ 1) with 2. apply b2n_lt.
Qed.

Lemma Zs_double v : Zs (2 * v) = v.
Proof.
  unfold Crc.Zs. rewrite N.odd_mul, N.odd_2. cbn [andb].
  rewrite N.shiftr_div_pow2. change (2 ^ 1) with 2. rewrite N.mul_comm. apply N.div_mul. lia.
Qed.

(* the register after feeding a bit string = L turns of (start xor the bits laid out LSB-first) *)
Lemma feed bits : forall s, reg_bits poly s bits = Zs_iter (length bits) (N.lxor s (N_of_bits bits)).
Proof.
  induction bits as [|b r IH]; intros s.
  - simpl. rewrite N.lxor_0_r. reflexivity.
  - unfold reg_bits in *. cbn [fold_left length N_of_bits Crc.Zs_iter]. rewrite IH.
    f_equal. unfold stepb. rewrite add_bit_lxor.
    rewrite <- N.lxor_assoc, (Zs_lin (N.lxor s (if b then 1 else 0))), Zs_double. reflexivity.
Qed.

Lemma reg_bits_app s a b : reg_bits poly s (a ++ b) = reg_bits poly (reg_bits poly s a) b.
Proof. unfold reg_bits. apply fold_left_app. Qed.

Lemma reg_bits_diff bits s1 s2 :
  N.lxor (reg_bits poly s1 bits) (reg_bits poly s2 bits) = Zs_iter (length bits) (N.lxor s1 s2).
Proof.
  rewrite !feed, <- Zs_iter_lin. f_equal.
  rewrite N.lxor_assoc, (N.lxor_comm (N_of_bits bits)), N.lxor_assoc, N.lxor_nilpotent, N.lxor_0_r. reflexivity.
Qed.

Lemma N_of_bits_lt bits : N_of_bits bits < 2 ^ N.of_nat (length bits).
Proof.
  induction bits as [|b r IH]; [simpl; lia|].
  cbn [N_of_bits length]. rewrite Nat2N.inj_succ, N.pow_succ_r'. pose proof (b2n_lt b). lia.
Qed.

Lemma N_of_bits_inj a : forall b, length a = length b -> N_of_bits a = N_of_bits b -> a = b.
Proof.
  induction a as [|x a IH]; intros [|y b] L E; simpl in L; try discriminate; [reflexivity|].
  cbn [N_of_bits] in E.
  assert (x = y) by (destruct x, y; try reflexivity; lia). subst y.
  f_equal. apply IH; [lia|]. destruct x; lia.
Qed.

(* ---------------------------------------------------------------- the burst theorem *)
(* two bit strings that differ only inside a window of at most 32 consecutive bits never have the same CRC *)
Theorem crc_burst init xorout pre b1 b2 post :
  length b1 = length b2 -> (length b1 <= 32)%nat -> b1 <> b2 ->
  crc_bits poly init xorout (pre ++ b1 ++ post) <> crc_bits poly init xorout (pre ++ b2 ++ post).
Proof.
  intros HL H32 Hne E. unfold crc_bits in E.
  apply (f_equal (fun z => N.lxor z xorout)) in E.
  rewrite !N.lxor_assoc, !N.lxor_nilpotent, !N.lxor_0_r in E.
  rewrite !reg_bits_app in E.
  set (s := reg_bits poly init pre) in *.
  apply N.lxor_eq_0_iff in E. rewrite reg_bits_diff in E.
  revert E. apply Zs_iter_nonzero.
  - rewrite !feed, <- HL, <- Zs_iter_lin. apply Zs_iter_lt.
    rewrite N.lxor_assoc, (N.lxor_comm (N_of_bits b1)), N.lxor_assoc, <- (N.lxor_assoc s s), N.lxor_nilpotent, N.lxor_0_l.
    apply lxor_lt_pow2.
    + apply N.lt_le_trans with (2 ^ N.of_nat (length b2)); [apply N_of_bits_lt|].
      apply N.pow_le_mono_r; lia.
    + apply N.lt_le_trans with (2 ^ N.of_nat (length b1)); [apply N_of_bits_lt|].
      apply N.pow_le_mono_r; lia.
  - rewrite !feed, <- HL, <- Zs_iter_lin.
    rewrite N.lxor_assoc, (N.lxor_comm (N_of_bits b1)), N.lxor_assoc, <- (N.lxor_assoc s s), N.lxor_nilpotent, N.lxor_0_l.
    apply Zs_iter_nonzero.
    + apply lxor_lt_pow2.
      * apply N.lt_le_trans with (2 ^ N.of_nat (length b2)); [apply N_of_bits_lt|]. apply N.pow_le_mono_r; lia.
      * apply N.lt_le_trans with (2 ^ N.of_nat (length b1)); [apply N_of_bits_lt|]. apply N.pow_le_mono_r; lia.
    + apply lxor_neq_0. intros Eq. apply Hne. symmetry. apply N_of_bits_inj; [lia|exact Eq].
Qed.

(* ---------------------------------------------------------------- table form = bitwise form *)
Lemma tlook_tbuild f d : forall base i, tlook d (tbuild d f base) i = f (base + i mod 2 ^ N.of_nat d).
Proof.
  induction d as [|d IH]; intros base i.
  - simpl. rewrite N.mod_1_r, N.add_0_r. reflexivity.
  - cbn [tbuild tlook]. rewrite Nat2N.inj_succ, N.pow_succ_r'.
    assert (P : 2 ^ N.of_nat d <> 0) by (apply N.pow_nonzero; lia).
    rewrite (N.mul_comm 2), N.mod_mul_r by lia.
    rewrite N.testbit_eqb, !IH.
    assert (B : (i / 2 ^ N.of_nat d) mod 2 < 2) by (apply N.mod_upper_bound; discriminate).
    set (x := (i / 2 ^ N.of_nat d) mod 2) in *. clearbody x.
    set (r := i mod 2 ^ N.of_nat d). clearbody r.
    set (w := 2 ^ N.of_nat d) in *. clearbody w.
    destruct (N.eqb_spec x 1) as [E|E].
    + subst x. f_equal. lia.
    + assert (x = 0) by lia. subst x. f_equal. lia.
Qed.

Lemma table_lookup i : i < 256 -> tlook 8 (table_tree poly) i = tab_entry poly i.
Proof.
  intros H. unfold table_tree. rewrite tlook_tbuild. change (2 ^ N.of_nat 8) with 256.
  rewrite N.mod_small by exact H. reflexivity.
Qed.

Lemma Zs_iter_shiftl k : forall y, Zs_iter k (N.shiftl y (N.of_nat k)) = y.
Proof.
  induction k as [|k IH]; intros y.
  - simpl. apply N.shiftl_0_r.
  - rewrite Nat2N.inj_succ. cbn [Crc.Zs_iter]. rewrite N.shiftl_succ_r, Zs_double. apply IH.
Qed.

Lemma split_low8 x : x = N.lxor (N.shiftl (N.shiftr x 8) 8) (N.land x 255).
Proof.
  apply N.bits_inj. intros n. rewrite N.lxor_spec, N.land_spec. change 255 with (N.ones 8).
  destruct (N.lt_ge_cases n 8) as [L|L].
  - rewrite N.shiftl_spec_low by exact L. rewrite N.ones_spec_low by exact L.
    rewrite andb_true_r. symmetry. apply xorb_false_l.
  - rewrite N.shiftl_spec_high' by exact L. rewrite N.shiftr_spec by lia.
    rewrite N.ones_spec_high by exact L. rewrite andb_false_r, xorb_false_r. f_equal. lia.
Qed.

Lemma land255_lt x : N.land x 255 < 256.
Proof. change 255 with (N.ones 8). rewrite N.land_ones. apply N.mod_upper_bound. discriminate. Qed.

Lemma step_tab_eq crc b : b < 256 ->
  step_byte_tab (table_tree poly) crc b = step_byte_bitwise poly crc b.
Proof.
  intros Hb. unfold step_byte_tab, step_byte_bitwise.
  rewrite table_lookup by apply land255_lt.
  set (x := N.lxor crc b).
  rewrite (split_low8 x) at 2. rewrite Zs_iter_lin.
  change 8 with (N.of_nat 8) at 3. rewrite Zs_iter_shiftl. unfold tab_entry.
  f_equal. unfold x. rewrite N.shiftr_lxor.
  replace (N.shiftr b 8) with 0; [symmetry; apply N.lxor_0_r|].
  symmetry. apply N.bits_inj. intros n. rewrite N.bits_0, N.shiftr_spec by lia.
  apply (lt_pow2_bits b 8 Hb). lia.
Qed.

Lemma fold_tab_eq bs : bytes_ok bs -> forall s,
  fold_left (step_byte_tab (table_tree poly)) bs s = fold_left (step_byte_bitwise poly) bs s.
Proof.
  induction 1 as [|b r Hb Hr IH]; intros s; [reflexivity|].
  cbn [fold_left]. rewrite step_tab_eq by exact Hb. apply IH.
Qed.

Theorem crc_tab_eq_bytes_bitwise init xorout bs : bytes_ok bs ->
  crc_tab poly init xorout bs = crc_bytes_bitwise poly init xorout bs.
Proof. intros H. unfold crc_tab, crc_tab_with, crc_bytes_bitwise. rewrite fold_tab_eq by exact H. reflexivity. Qed.

(* bytes as bits, LSB first *)
Lemma N_of_bits_bits_of k : forall n, N_of_bits (bits_of k n) = n mod 2 ^ N.of_nat k.
Proof.
  induction k as [|k IH]; intros n.
  - simpl. rewrite N.mod_1_r. reflexivity.
  - cbn [bits_of N_of_bits]. rewrite IH, Nat2N.inj_succ, N.pow_succ_r'.
    assert (P : 2 ^ N.of_nat k <> 0) by (apply N.pow_nonzero; lia).
    rewrite N.mod_mul_r by lia. rewrite N.div2_div. f_equal.
    rewrite <- N.bit0_mod, N.bit0_odd. destruct (N.odd n); reflexivity.
Qed.

Lemma bits_of_length k : forall n, length (bits_of k n) = k.
Proof. induction k; intros; simpl; auto. Qed.

Lemma step_bitwise_bits crc b : b < 256 -> step_byte_bitwise poly crc b = reg_bits poly crc (bits_of 8 b).
Proof.
  intros Hb. rewrite feed, bits_of_length, N_of_bits_bits_of. change (2 ^ N.of_nat 8) with 256.
  rewrite N.mod_small by exact Hb. reflexivity.
Qed.

Lemma reg_bits_bytes bs : bytes_ok bs -> forall s,
  fold_left (step_byte_bitwise poly) bs s = reg_bits poly s (bits_of_bytes bs).
Proof.
  induction 1 as [|b r Hb Hr IH]; intros s; [reflexivity|].
  cbn [fold_left]. unfold bits_of_bytes. cbn [flat_map]. rewrite reg_bits_app.
  rewrite <- step_bitwise_bits by exact Hb. apply IH.
Qed.

(* nvm_crc32 (table driven, byte at a time) is the bit-serial CRC of the message bits, LSB of each byte first *)
Theorem crc_table_eq_bitwise init xorout bs : bytes_ok bs ->
  crc_tab poly init xorout bs = crc_bits poly init xorout (bits_of_bytes bs).
Proof.
  intros H. rewrite crc_tab_eq_bytes_bitwise by exact H.
  unfold crc_bytes_bitwise, crc_bits. rewrite reg_bits_bytes by exact H. reflexivity.
Qed.

Lemma bits_of_bytes_app a b : bits_of_bytes (a ++ b) = bits_of_bytes a ++ bits_of_bytes b.
Proof. unfold bits_of_bytes. apply flat_map_app. Qed.

Lemma bits_of_bytes_length bs : length (bits_of_bytes bs) = (8 * length bs)%nat.
Proof.
  induction bs as [|b r IH]; [reflexivity|].
  unfold bits_of_bytes in *. cbn [flat_map]. rewrite app_length, bits_of_length, IH. simpl. lia.
Qed.

Lemma bits_of_bytes_inj a : forall b, bytes_ok a -> bytes_ok b -> length a = length b ->
  bits_of_bytes a = bits_of_bytes b -> a = b.
Proof.
  induction a as [|x a IH]; intros [|y b] Ha Hb L E; simpl in L; try discriminate; [reflexivity|].
  inversion Ha as [|? ? Hx Ha']; inversion Hb as [|? ? Hy Hb']; subst.
  unfold bits_of_bytes in E. cbn [flat_map] in E.
  assert (E1 : bits_of 8 x = bits_of 8 y).
  { apply (f_equal (firstn 8)) in E.
    rewrite !firstn_app, !bits_of_length in E. simpl (8 - 8)%nat in E. simpl (firstn 0 _) in E.
    rewrite !app_nil_r in E. rewrite <- (bits_of_length 8 x) in E at 1.
    rewrite <- (bits_of_length 8 y) in E at 2. rewrite !firstn_all in E. exact E. }
  assert (E2 : flat_map (bits_of 8) a = flat_map (bits_of 8) b).
  { rewrite E1 in E. apply app_inv_head in E. exact E. }
  f_equal.
  - apply (f_equal N_of_bits) in E1. rewrite !N_of_bits_bits_of in E1. change (2 ^ N.of_nat 8) with 256 in E1.
    rewrite !N.mod_small in E1 by assumption. exact E1.
  - apply IH; try assumption. lia.
Qed.

(* bursts on byte strings, in the CRC's own bit order *)
Theorem crc_tab_burst init xorout a b : bytes_ok a -> bytes_ok b -> burst_le32 a b ->
  crc_tab poly init xorout a <> crc_tab poly init xorout b.
Proof.
  intros Ha Hb (pre & b1 & b2 & post & Ea & Eb & HL & H32 & Hne).
  rewrite !crc_table_eq_bitwise by assumption. rewrite Ea, Eb. apply crc_burst; assumption.
Qed.

(* special case: any change confined to at most four consecutive bytes *)
Lemma bytes4_is_burst p x y q : bytes_ok x -> bytes_ok y ->
  length x = length y -> (length x <= 4)%nat -> x <> y -> burst_le32 (p ++ x ++ q) (p ++ y ++ q).
Proof.
  intros Hx Hy HL H4 Hne.
  exists (bits_of_bytes p), (bits_of_bytes x), (bits_of_bytes y), (bits_of_bytes q).
  rewrite !bits_of_bytes_app, !bits_of_bytes_length. repeat split; try lia.
  intros E. apply Hne. apply bits_of_bytes_inj; assumption.
Qed.

(* special case: one flipped bit (bit k of byte x) *)
Lemma flip_is_burst p x q k : x < 256 -> k < 8 ->
  burst_le32 (p ++ [x] ++ q) (p ++ [N.lxor x (2 ^ k)] ++ q).
Proof.
  intros Hx Hk. apply bytes4_is_burst; simpl; try lia.
  - constructor; [exact Hx|constructor].
  - constructor; [|constructor]. change 256 with (2 ^ 8). apply lxor_lt_pow2; [exact Hx|].
    apply N.pow_lt_mono_r; lia.
  - intros E. inversion E as [E1].
    apply (f_equal (N.lxor x)) in E1. rewrite N.lxor_nilpotent, <- N.lxor_assoc, N.lxor_nilpotent, N.lxor_0_l in E1.
    symmetry in E1. revert E1. apply N.pow_nonzero. lia.
Qed.

(* ---------------------------------------------------------------- running the register backwards *)
Lemma Zs_Zs_inv y : Zs (Zs_inv poly y) = y.
Proof.
  unfold Zs_inv. destruct (N.testbit y 31).
  - unfold Crc.Zs.
    assert (O : N.odd (N.lor (N.shiftl (N.lxor y poly) 1) 1) = true).
    { rewrite <- N.bit0_odd, N.lor_spec. rewrite orb_true_r. reflexivity. }
    rewrite O. rewrite N.shiftr_lor, N.shiftr_shiftl_l by lia. simpl (1 - 1). rewrite N.shiftl_0_r.
    change (N.shiftr 1 1) with 0. rewrite N.lor_0_r.
    rewrite N.lxor_assoc, N.lxor_nilpotent, N.lxor_0_r. reflexivity.
  - rewrite N.shiftl_mul_pow2. change (2 ^ 1) with 2. rewrite N.mul_comm. apply Zs_double.
Qed.

Lemma Zs_inv_lt y : y < 2 ^ 32 -> Zs_inv poly y < 2 ^ 32.
Proof.
  intros Hy. unfold Zs_inv. destruct (N.testbit y 31) eqn:T.
  - apply bits_lt_pow2. intros m Hm. rewrite N.lor_spec.
    rewrite (lt_pow2_bits 1 1) by (simpl; lia). rewrite orb_false_r.
    rewrite N.shiftl_spec_high' by lia. rewrite N.lxor_spec.
    destruct (N.eq_dec m 32) as [->|Hn].
    + change (32 - 1) with 31. rewrite T, poly_b31. reflexivity.
    + rewrite (lt_pow2_bits y 32 Hy), (lt_pow2_bits poly 32 poly_lt) by lia. reflexivity.
  - apply bits_lt_pow2. intros m Hm. rewrite N.shiftl_spec_high' by lia.
    destruct (N.eq_dec m 32) as [->|Hn]; [exact T|].
    apply (lt_pow2_bits y 32 Hy). lia.
Qed.

Lemma Zs_iter_succ_r k a : Zs_iter (S k) a = Zs (Zs_iter k a).
Proof. replace (S k) with (k + 1)%nat by lia. rewrite Zs_iter_app. reflexivity. Qed.

Lemma Zs_iter_inv k : forall y, Zs_iter k (Zs_inv_iter poly k y) = y.
Proof.
  induction k as [|k IH]; intros y; [reflexivity|].
  rewrite Zs_iter_succ_r. cbn [Zs_inv_iter]. rewrite IH. apply Zs_Zs_inv.
Qed.

Lemma Zs_inv_iter_lt k : forall y, y < 2 ^ 32 -> Zs_inv_iter poly k y < 2 ^ 32.
Proof. induction k as [|k IH]; intros y Hy; simpl; [exact Hy|]. apply IH. apply Zs_inv_lt. exact Hy. Qed.

Lemma fold_bitwise_lt bs : bytes_ok bs -> forall s, s < 2 ^ 32 ->
  fold_left (step_byte_bitwise poly) bs s < 2 ^ 32.
Proof.
  induction 1 as [|b r Hb Hr IH]; intros s Hs; [exact Hs|].
  cbn [fold_left]. apply IH. unfold step_byte_bitwise. apply Zs_iter_lt.
  apply lxor_lt_pow2; [exact Hs|]. apply N.lt_trans with 256; [exact Hb|reflexivity].
Qed.

Lemma N_of_bits_app a b : N_of_bits (a ++ b) = N_of_bits a + 2 ^ N.of_nat (length a) * N_of_bits b.
Proof.
  induction a as [|x a IH]; [cbn [app N_of_bits length N.of_nat]; rewrite N.pow_0_r; ring|].
  cbn [app N_of_bits length]. rewrite IH, Nat2N.inj_succ, N.pow_succ_r'. ring.
Qed.

Lemma N_of_bits_bytes bs : bytes_ok bs -> N_of_bits (bits_of_bytes bs) = of_le bs.
Proof.
  induction 1 as [|b r Hb Hr IH]; [reflexivity|].
  unfold bits_of_bytes in *. cbn [flat_map of_le]. rewrite N_of_bits_app, bits_of_length, N_of_bits_bits_of, IH.
  change (2 ^ N.of_nat 8) with 256. rewrite N.mod_small by exact Hb. reflexivity.
Qed.

(* the four bytes computed by steer_tail leave the CRC unchanged: CRC-32 does not see an appended tail of this form *)
Theorem steer_tail_keeps_crc init xorout bs : init < 2 ^ 32 -> bytes_ok bs ->
  crc_tab poly init xorout (bs ++ steer_tail poly init bs) = crc_tab poly init xorout bs
  /\ length (steer_tail poly init bs) = 4%nat /\ bytes_ok (steer_tail poly init bs).
Proof.
  intros Hi Hb.
  assert (Hok : bytes_ok (steer_tail poly init bs)) by apply le_bytes_ok.
  split; [|split; [apply le_bytes_length|exact Hok]].
  rewrite !crc_tab_eq_bytes_bitwise; [|exact Hb|apply bytes_ok_app; split; assumption].
  unfold crc_bytes_bitwise. f_equal. rewrite fold_left_app.
  unfold steer_tail. set (s := fold_left (step_byte_bitwise poly) bs init).
  assert (Hs : s < 2 ^ 32) by (apply fold_bitwise_lt; assumption).
  set (w := N.lxor s (Zs_inv_iter poly 32 s)).
  assert (Hw : w < 2 ^ 32) by (apply lxor_lt_pow2; [exact Hs|apply Zs_inv_iter_lt; exact Hs]).
  rewrite reg_bits_bytes by apply le_bytes_ok.
  rewrite feed, bits_of_bytes_length, le_bytes_length, N_of_bits_bytes by apply le_bytes_ok.
  rewrite of_le_le_bytes by exact Hw.
  unfold w. rewrite <- N.lxor_assoc, N.lxor_nilpotent, N.lxor_0_l.
  change (8 * 4)%nat with 32%nat. apply Zs_iter_inv.
Qed.

(* the register never leaves 32 bits, whatever the bytes are (the index is masked) *)
Lemma tab_entry_lt i : i < 256 -> tab_entry poly i < 2 ^ 32.
Proof. intros H. unfold tab_entry. apply Zs_iter_lt. apply N.lt_trans with 256; [exact H|reflexivity]. Qed.

Lemma fold_tab_lt bs : forall s, s < 2 ^ 32 -> fold_left (step_byte_tab (table_tree poly)) bs s < 2 ^ 32.
Proof.
  induction bs as [|b r IH]; intros s Hs; [exact Hs|].
  cbn [fold_left]. apply IH. unfold step_byte_tab. apply lxor_lt_pow2.
  - apply shiftr_lt_pow2. exact Hs.
  - rewrite table_lookup by apply land255_lt. apply tab_entry_lt. apply land255_lt.
Qed.

Lemma crc_tab_lt init xorout bs : init < 2 ^ 32 -> xorout < 2 ^ 32 -> crc_tab poly init xorout bs < 2 ^ 32.
Proof. intros Hi Hx. unfold crc_tab, crc_tab_with. apply lxor_lt_pow2; [apply fold_tab_lt; exact Hi|exact Hx]. Qed.

End Poly.
