(* The .nvm container: executable model of nvm_serialize / nvm_deserialize / nvm_add_string and the other
   module-building calls of src/nanoisa/nvm_format.c.  The model follows what the C does:
   - serialize: section presence by count, order STRINGS, CODE, FUNCTIONS, DEBUG, IMPORTS; header written last;
     CRC over everything after the 32-byte header.  Sizes are ideal integers (the C computes them in uint32_t and
     overruns its buffer when the total reaches 2^32; wf_module excludes that).
   - deserialize0 (= nvm_deserialize of the pinned tree; [deserialize] adds the optional trailing-bytes check, see below):
     size >= 32, then magic / version / section_count <= 16, THEN the CRC, then the directory bound,
     then the sections one by one.  The section bound and the string-length bound are compared without wrap-around
     (repair b493bae); the loop heads `pos + K <= sec_size` still add in uint32_t and are made modulo 2^32 here ([fits]);
     when such a wrapped comparison lets through a range that really ends outside the section the outcome is [Crash]
     (needs a section of >= 2^32-18 bytes; refined by property C13).  Strings go through add_string (de-duplication)
     as in the C.  A table section must consist of whole entries (repair 919fdcf): an entry that overruns its section, or
     bytes left over after the last entry, set `malformed` and the file is refused ([PBad]).
   - header magic/version are not fields of the model module: nvm_module_new and nvm_deserialize both leave the
     constants there and nvm_serialize never reads them.
   - malloc/realloc failure paths are not modelled.
   Wire constants are literals here; Properties_C10.C10_wire_constants compares them with NV.gen.NvmConsts.
   No proofs in this file (it is extracted). *)
From Coq Require Import NArith List Bool.
From NV Require Import Base.Bytes Nvm.Crc gen.NvmConsts.
Import ListNotations.
Local Open Scope N_scope.

Definition u32 (x : N) : N := x mod 4294967296.
Definition len {A} (l : list A) : N := N.of_nat (length l).
Definition le16 : N -> list byte := le_bytes 2.
Definition le32 : N -> list byte := le_bytes 4.

Definition MAGIC : list byte := [78; 86; 77; 1].
Definition VERSION : N := 1.
Definition SEC_CODE : N := 1.
Definition SEC_STRINGS : N := 2.
Definition SEC_FUNCTIONS : N := 3.
Definition SEC_IMPORTS : N := 8.
Definition SEC_DEBUG : N := 9.
Definition MAX_SECTIONS : N := 16.

Record fn_entry := mkFn { fn_name : N; fn_arity : N; fn_off : N; fn_len : N; fn_locals : N; fn_upv : N }.
Record imp_entry := mkImp { im_mod : N; im_fn : N; im_pc : N; im_ret : N; im_params : list byte }.
Record header := mkHdr { h_flags : N; h_entry : N; h_nsec : N; h_spoff : N; h_splen : N; h_crc : N }.
Definition sec_entry := (N * N * N)%type.   (* type, offset, size *)
Record module := mkMod {
  m_hdr : header;
  m_secs : list sec_entry;
  m_strings : list (list byte);
  m_funcs : list fn_entry;
  m_code : list byte;
  m_debug : list (N * N);
  m_imports : list imp_entry }.

Definition empty_header : header := mkHdr 0 0 0 0 0 0.
Definition empty_module : module := mkMod empty_header [] [] [] [] [] [].

(* ---------------------------------------------------------------- module building (the nvm_* API) *)
Fixpoint bytes_eqb (a b : list byte) : bool :=
  match a, b with [] , [] => true | x :: a', y :: b' => N.eqb x y && bytes_eqb a' b' | _, _ => false end.
Fixpoint mem_string (s : list byte) (ss : list (list byte)) : bool :=
  match ss with [] => false | t :: r => bytes_eqb t s || mem_string s r end.
(* nvm_add_string: an equal string already in the pool is not added again *)
Definition add_string (ss : list (list byte)) (s : list byte) : list (list byte) :=
  if mem_string s ss then ss else ss ++ [s].

Definition set_strings m ss := mkMod (m_hdr m) (m_secs m) ss (m_funcs m) (m_code m) (m_debug m) (m_imports m).
Definition set_funcs m fs := mkMod (m_hdr m) (m_secs m) (m_strings m) fs (m_code m) (m_debug m) (m_imports m).
Definition set_code m c := mkMod (m_hdr m) (m_secs m) (m_strings m) (m_funcs m) c (m_debug m) (m_imports m).
Definition set_debug m d := mkMod (m_hdr m) (m_secs m) (m_strings m) (m_funcs m) (m_code m) d (m_imports m).
Definition set_imports m i := mkMod (m_hdr m) (m_secs m) (m_strings m) (m_funcs m) (m_code m) (m_debug m) i.
Definition add_sec m e := mkMod (m_hdr m) (m_secs m ++ [e]) (m_strings m) (m_funcs m) (m_code m) (m_debug m) (m_imports m).
Definition set_hdr m h := mkMod h (m_secs m) (m_strings m) (m_funcs m) (m_code m) (m_debug m) (m_imports m).

Inductive build_op :=
| OpString (s : list byte)          (* nvm_add_string *)
| OpCode (c : list byte)            (* nvm_append_code *)
| OpFunc (f : fn_entry)             (* nvm_add_function *)
| OpDebug (off line : N)            (* nvm_add_debug_entry *)
| OpImport (i : imp_entry).         (* nvm_add_import *)
Definition apply_op (m : module) (o : build_op) : module :=
  match o with
  | OpString s => set_strings m (add_string (m_strings m) s)
  | OpCode c => set_code m (m_code m ++ c)
  | OpFunc f => set_funcs m (m_funcs m ++ [f])
  | OpDebug o l => set_debug m (m_debug m ++ [(o, l)])
  | OpImport i => set_imports m (m_imports m ++ [i])
  end.
Definition build (flags entry : N) (ops : list build_op) : module :=
  fold_left apply_op ops (set_hdr empty_module (mkHdr flags entry 0 0 0 0)).

(* ---------------------------------------------------------------- serialize *)
Definition crc_table : ttree := table_tree crc_poly.
Definition crc32 (bs : list byte) : N := crc_tab_with crc_table crc_init crc_xorout bs.

Definition ser_string (s : list byte) : list byte := le32 (len s) ++ s.
Definition ser_strings (ss : list (list byte)) : list byte := flat_map ser_string ss.
Definition ser_fn (f : fn_entry) : list byte :=
  le32 (fn_name f) ++ le16 (fn_arity f) ++ le32 (fn_off f) ++ le32 (fn_len f) ++ le16 (fn_locals f) ++ le16 (fn_upv f).
Definition ser_fns (fs : list fn_entry) : list byte := flat_map ser_fn fs.
Definition ser_dbg (d : N * N) : list byte := le32 (fst d) ++ le32 (snd d).
Definition ser_dbgs (ds : list (N * N)) : list byte := flat_map ser_dbg ds.
(* import_param_types[i] == NULL (modelled as []) leaves the calloc'ed zeros in place *)
Definition ser_params (pc : N) (ps : list byte) : list byte :=
  match ps with [] => repeat 0 (N.to_nat pc) | _ => ps end.
Definition ser_imp (i : imp_entry) : list byte :=
  le32 (im_mod i) ++ le32 (im_fn i) ++ le16 (im_pc i) ++ le_bytes 1 (im_ret i) ++ ser_params (im_pc i) (im_params i).
Definition ser_imps (is : list imp_entry) : list byte := flat_map ser_imp is.

Definition is_nil {A} (l : list A) : bool := match l with [] => true | _ => false end.
Definition opt_sec {A} (l : list A) (ty : N) (payload : list byte) : list (N * list byte) :=
  if is_nil l then [] else [(ty, payload)].
(* sections in the order nvm_serialize writes them; present iff the corresponding count is > 0 *)
Definition payloads (m : module) : list (N * list byte) :=
  opt_sec (m_strings m) SEC_STRINGS (ser_strings (m_strings m)) ++
  opt_sec (m_code m) SEC_CODE (m_code m) ++
  opt_sec (m_funcs m) SEC_FUNCTIONS (ser_fns (m_funcs m)) ++
  opt_sec (m_debug m) SEC_DEBUG (ser_dbgs (m_debug m)) ++
  opt_sec (m_imports m) SEC_IMPORTS (ser_imps (m_imports m)).

Fixpoint layout (off : N) (ps : list (N * list byte)) : list sec_entry :=
  match ps with [] => [] | (ty, d) :: r => (ty, off, len d) :: layout (off + len d) r end.
Definition dir_words (lay : list sec_entry) : list N :=
  flat_map (fun e : sec_entry => [fst (fst e); snd (fst e); snd e]) lay.
Definition words_bytes (ws : list N) : list byte := flat_map le32 ws.

Definition data_offset (ps : list (N * list byte)) : N := 32 + 12 * len ps.
Definition body_bytes (ps : list (N * list byte)) : list byte :=
  words_bytes (dir_words (layout (data_offset ps) ps)) ++ flat_map snd ps.
Definition sp_fields (m : module) : N * N :=
  if is_nil (m_strings m) then (0, 0) else (data_offset (payloads m), len (ser_strings (m_strings m))).
Definition header_words (m : module) : list N :=
  [VERSION; h_flags (m_hdr m); h_entry (m_hdr m); len (payloads m); fst (sp_fields m); snd (sp_fields m);
   crc32 (body_bytes (payloads m))].
Definition serialize (m : module) : list byte :=
  MAGIC ++ words_bytes (header_words m) ++ body_bytes (payloads m).

(* the header and directory nvm_deserialize leaves in the module it returns for serialize m *)
Definition stamp (m : module) : module :=
  let ps := payloads m in
  mkMod (mkHdr (h_flags (m_hdr m)) (h_entry (m_hdr m)) (len ps) (fst (sp_fields m)) (snd (sp_fields m))
               (crc32 (body_bytes ps)))
        (layout (data_offset ps) ps)
        (m_strings m) (m_funcs m) (m_code m) (m_debug m) (m_imports m).

(* ---------------------------------------------------------------- deserialize *)
Inductive load_result := Loaded (m : module) | Refused | Crash | OutOfFuel.
(* result of one entry loop: POk = every entry read and the section used up; PBad = `malformed` (an entry overruns the
   section, or bytes are left over after the last entry): the file is refused *)
Inductive pres (A : Type) := POk (a : A) | PBad | PCrash | PFuel.
Arguments POk {A} a. Arguments PBad {A}. Arguments PCrash {A}. Arguments PFuel {A}.

(* `end_ <= limit` evaluated in uint32_t (the loop heads `pos + K <= sec_size` still add in uint32_t):
   NoFit = the C sees it does not fit; Wrapped = the C thinks it fits but it does not *)
Inductive fit := Fits | NoFit | Wrapped.
Definition fits (end_ limit : N) : fit :=
  if limit <? u32 end_ then NoFit else if limit <? end_ then Wrapped else Fits.

Definition rd (k : nat) (data : list byte) (off : N) : N := of_le (firstn k (skipn (N.to_nat off) data)).
Definition rd32 := rd 4.
Definition rd16 := rd 2.
Definition rd8 := rd 1.
Definition slice (data : list byte) (off n : N) : list byte := firstn (N.to_nat n) (skipn (N.to_nat off) data).

(* after a loop: `if (pos != sec_size) malformed = true;` *)
Definition loop_end {A} (pos sz : N) (acc : A) : pres A := if pos =? sz then POk acc else PBad.

Fixpoint parse_strings (fuel : nat) (sec : list byte) (sz pos : N) (ss : list (list byte)) : pres (list (list byte)) :=
  match fuel with O => PFuel | S f =>
    match fits (pos + 4) sz with
    | NoFit => loop_end pos sz ss | Wrapped => PCrash
    | Fits =>
        let slen := rd32 sec pos in
        let pos1 := u32 (pos + 4) in
        if sz - pos1 <? slen then PBad      (* if (slen > sec_size - pos) { malformed = true; break; } -- no wrap-around *)
        else parse_strings f sec sz (u32 (pos1 + slen)) (add_string ss (slice sec pos1 slen))
    end
  end.

Fixpoint parse_functions (fuel : nat) (sec : list byte) (sz pos : N) (fs : list fn_entry) : pres (list fn_entry) :=
  match fuel with O => PFuel | S f =>
    match fits (pos + 18) sz with
    | NoFit => loop_end pos sz fs | Wrapped => PCrash
    | Fits =>
        let e := mkFn (rd32 sec pos) (rd16 sec (pos + 4)) (rd32 sec (pos + 6)) (rd32 sec (pos + 10))
                      (rd16 sec (pos + 14)) (rd16 sec (pos + 16)) in
        parse_functions f sec sz (u32 (pos + 18)) (fs ++ [e])
    end
  end.

Fixpoint parse_debug (fuel : nat) (sec : list byte) (sz pos : N) (ds : list (N * N)) : pres (list (N * N)) :=
  match fuel with O => PFuel | S f =>
    match fits (pos + 8) sz with
    | NoFit => loop_end pos sz ds | Wrapped => PCrash
    | Fits => parse_debug f sec sz (u32 (pos + 8)) (ds ++ [(rd32 sec pos, rd32 sec (pos + 4))])
    end
  end.

Fixpoint parse_imports (fuel : nat) (sec : list byte) (sz pos : N) (is : list imp_entry) : pres (list imp_entry) :=
  match fuel with O => PFuel | S f =>
    match fits (pos + 11) sz with
    | NoFit => loop_end pos sz is | Wrapped => PCrash
    | Fits =>
        let md := rd32 sec pos in let fnn := rd32 sec (pos + 4) in
        let pc := rd16 sec (pos + 8) in let rt := rd8 sec (pos + 10) in
        let pos1 := u32 (pos + 11) in
        match fits (pos1 + pc) sz with
        | NoFit => PBad              (* if (pos + param_count > sec_size) { malformed = true; break; } *)
        | Wrapped => PCrash
        | Fits => parse_imports f sec sz (u32 (pos1 + pc)) (is ++ [mkImp md fnn pc rt (slice sec pos1 pc)])
        end
    end
  end.

Definition pmap {A B} (f : A -> B) (r : pres A) : pres B :=
  match r with POk a => POk (f a) | PBad => PBad | PCrash => PCrash | PFuel => PFuel end.

(* the switch in the section loop *)
Definition apply_section (ty : N) (sec : list byte) (sz : N) (m : module) : pres module :=
  let fuel := S (length sec) in
  if ty =? SEC_STRINGS then pmap (set_strings m) (parse_strings fuel sec sz 0 (m_strings m))
  else if ty =? SEC_CODE then POk (set_code m (m_code m ++ sec))
  else if ty =? SEC_FUNCTIONS then pmap (set_funcs m) (parse_functions fuel sec sz 0 (m_funcs m))
  else if ty =? SEC_DEBUG then pmap (set_debug m) (parse_debug fuel sec sz 0 (m_debug m))
  else if ty =? SEC_IMPORTS then pmap (set_imports m) (parse_imports fuel sec sz 0 (m_imports m))
  else POk m.

Fixpoint load_sections (n : nat) (i : N) (data : list byte) (size : N) (m : module) : load_result :=
  match n with O => Loaded m | S n' =>
    let d := 32 + i * 12 in
    let ty := rd32 data d in let off := rd32 data (d + 4) in let sz := rd32 data (d + 8) in
    if size <? off + sz then Refused           (* (uint64_t)sec_offset + sec_size > size: free, return NULL -- no wrap-around *)
    else
      match apply_section ty (slice data off sz) sz (add_sec m (ty, off, sz)) with
      | POk m2 => load_sections n' (i + 1) data size m2
      | PBad => Refused                        (* if (malformed) { nvm_module_free(mod); return NULL; } *)
      | PCrash => Crash
      | PFuel => OutOfFuel
      end
  end.

Definition header_of (data : list byte) : header :=
  mkHdr (rd32 data 8) (rd32 data 12) (rd32 data 16) (rd32 data 20) (rd32 data 24) (rd32 data 28).

Definition deserialize0 (data : list byte) : load_result :=
  let size := len data in
  if size <? 32 then Refused else
  let h := header_of data in
  if negb (bytes_eqb (firstn 4 data) MAGIC) then Refused else
  if negb (rd32 data 4 =? VERSION) then Refused else
  if MAX_SECTIONS <? h_nsec h then Refused else
  if negb (crc32 (skipn 32 data) =? h_crc h) then Refused else
  if size <? u32 (32 + u32 (h_nsec h * 12)) then Refused else
  load_sections (N.to_nat (h_nsec h)) 0 data size (set_hdr empty_module h).

(* Optional last step, present in the source only after the repair proposed in proposed_fixes/C12-reject-trailing-bytes.diff:
   data_end = max (dir_end, every sections[i].offset + sections[i].size) computed in uint32_t; data_end != size -> NULL.
   [reject_trailing] is generated: tools/gen/gen_nvmconsts.py asks the real loader whether it accepts a valid file followed
   by a CRC-preserving tail. *)
Definition data_end (dir_end : N) (secs : list sec_entry) : N :=
  fold_left (fun acc (e : sec_entry) => let se := u32 (snd (fst e) + snd e) in if acc <? se then se else acc) secs dir_end.
Definition deserialize (data : list byte) : load_result :=
  match deserialize0 data with
  | Loaded m =>
      if reject_trailing && negb (data_end (u32 (32 + u32 (h_nsec (m_hdr m) * 12))) (m_secs m) =? len data)
      then Refused else Loaded m
  | r => r
  end.

(* ---------------------------------------------------------------- well-formed modules (what the API produces) *)
Fixpoint nodup_strings (ss : list (list byte)) : bool :=
  match ss with [] => true | s :: r => negb (mem_string s r) && nodup_strings r end.
Definition wf_fn (f : fn_entry) : bool :=
  (fn_name f <? 2 ^ 32) && (fn_arity f <? 2 ^ 16) && (fn_off f <? 2 ^ 32) && (fn_len f <? 2 ^ 32) &&
  (fn_locals f <? 2 ^ 16) && (fn_upv f <? 2 ^ 16).
Definition wf_imp (i : imp_entry) : bool :=
  (im_mod i <? 2 ^ 32) && (im_fn i <? 2 ^ 32) && (im_pc i <? 2 ^ 16) && (im_ret i <? 256) &&
  bytes_okb (im_params i) && (len (im_params i) =? im_pc i).
Definition wf_dbg (d : N * N) : bool := (fst d <? 2 ^ 32) && (snd d <? 2 ^ 32).
Definition wf_moduleb (m : module) : bool :=
  (h_flags (m_hdr m) <? 2 ^ 32) && (h_entry (m_hdr m) <? 2 ^ 32) &&
  nodup_strings (m_strings m) && forallb bytes_okb (m_strings m) &&
  bytes_okb (m_code m) && forallb wf_fn (m_funcs m) && forallb wf_dbg (m_debug m) && forallb wf_imp (m_imports m) &&
  (len (serialize m) <? 2 ^ 32).
Definition wf_module (m : module) : Prop := wf_moduleb m = true.

(* CRC-preserving four-byte tail for a file (see Crc.steer_tail) *)
Definition steer_file (f : list byte) : list byte := steer_tail crc_poly crc_init (skipn 32 f).
