(* Proofs about the .nvm container model: round trip, refusal of damaged files, acceptance of CRC-steered tails. *)
From Coq Require Import NArith PeanoNat List Lia Bool.
From NV Require Import Base.Bytes Nvm.Crc Nvm.CrcProofs Nvm.Format gen.NvmConsts.
Import ListNotations.
Local Open Scope N_scope.

(* ---------------------------------------------------------------- arithmetic helpers *)
Lemma len_app {A} (a b : list A) : len (a ++ b) = len a + len b.
Proof. unfold len. rewrite app_length. lia. Qed.
Lemma len_nil {A} : len (@nil A) = 0.
Proof. reflexivity. Qed.
Lemma len_cons {A} (x : A) l : len (x :: l) = 1 + len l.
Proof. unfold len. cbn [length]. lia. Qed.
Lemma to_nat_len {A} (l : list A) : N.to_nat (len l) = length l.
Proof. unfold len. apply Nat2N.id. Qed.

Lemma u32_small x : x < 2 ^ 32 -> u32 x = x.
Proof. intros H. unfold u32. apply N.mod_small. exact H. Qed.

Lemma fits_small e limit : e < 2 ^ 32 -> fits e limit = if limit <? e then NoFit else Fits.
Proof.
  intros H. unfold fits. rewrite u32_small by exact H.
  destruct (limit <? e); reflexivity.
Qed.
Lemma fits_yes e limit : e < 2 ^ 32 -> e <= limit -> fits e limit = Fits.
Proof. intros H L. rewrite fits_small by exact H. destruct (N.ltb_spec limit e); [lia|reflexivity]. Qed.
Lemma fits_no e limit : e < 2 ^ 32 -> limit < e -> fits e limit = NoFit.
Proof. intros H L. rewrite fits_small by exact H. destruct (N.ltb_spec limit e); [reflexivity|lia]. Qed.

(* ---------------------------------------------------------------- reading fields back *)
Lemma skipn_app_len {A} (a b : list A) n : length a = n -> skipn n (a ++ b) = b.
Proof. intros <-. rewrite skipn_app, skipn_all, Nat.sub_diag. reflexivity. Qed.
Lemma firstn_app_len {A} (a b : list A) n : length a = n -> firstn n (a ++ b) = a.
Proof. intros <-. rewrite firstn_app, firstn_all, Nat.sub_diag. simpl. apply app_nil_r. Qed.

Lemma rd_at k pre x post off :
  N.to_nat off = length pre -> x < 256 ^ N.of_nat k -> rd k (pre ++ le_bytes k x ++ post) off = x.
Proof.
  intros Ho Hx. unfold rd. rewrite skipn_app_len by (symmetry; exact Ho).
  rewrite firstn_app_len by apply le_bytes_length. apply of_le_le_bytes. exact Hx.
Qed.

Lemma slice_at (pre mid post : list byte) off n :
  N.to_nat off = length pre -> N.to_nat n = length mid -> slice (pre ++ mid ++ post) off n = mid.
Proof.
  intros Ho Hn. unfold slice. rewrite skipn_app_len by (symmetry; exact Ho).
  apply firstn_app_len. symmetry. exact Hn.
Qed.

(* a run of little-endian fields *)
Definition ser_fields (fs : list (nat * N)) : list byte := flat_map (fun p => le_bytes (fst p) (snd p)) fs.
Fixpoint rd_fields (ws : list nat) (data : list byte) (off : N) : list N :=
  match ws with [] => [] | w :: r => rd w data off :: rd_fields r data (off + N.of_nat w) end.
Definition field_ok (p : nat * N) : Prop := snd p < 256 ^ N.of_nat (fst p).

Lemma rd_fields_ser fs : forall pre post off,
  N.to_nat off = length pre -> Forall field_ok fs ->
  rd_fields (map fst fs) (pre ++ ser_fields fs ++ post) off = map snd fs.
Proof.
  induction fs as [|[w x] r IH]; intros pre post off Ho Hok; [reflexivity|].
  inversion Hok as [|? ? H1 H2]; subst. cbn [map rd_fields fst snd ser_fields flat_map].
  rewrite <- app_assoc. f_equal.
  - apply rd_at; assumption.
  - rewrite (app_assoc pre). apply (IH (pre ++ le_bytes w x)); [|exact H2].
    rewrite app_length, le_bytes_length. lia.
Qed.

Lemma ser_fields_length fs : length (ser_fields fs) = fold_right (fun p a => (fst p + a)%nat) 0%nat fs.
Proof.
  induction fs as [|[w x] r IH]; [reflexivity|].
  cbn [ser_fields flat_map fold_right fst snd]. rewrite app_length, le_bytes_length. f_equal. exact IH.
Qed.

Lemma words_bytes_fields ws : words_bytes ws = ser_fields (map (fun w => (4%nat, w)) ws).
Proof. unfold words_bytes, ser_fields. rewrite flat_map_concat_map, flat_map_concat_map, map_map. reflexivity. Qed.

Lemma words_bytes_length ws : length (words_bytes ws) = (4 * length ws)%nat.
Proof.
  induction ws as [|w r IH]; [reflexivity|].
  unfold words_bytes in *. cbn [flat_map]. rewrite app_length, IH. unfold le32. rewrite le_bytes_length. simpl. lia.
Qed.
Lemma words_bytes_app a b : words_bytes (a ++ b) = words_bytes a ++ words_bytes b.
Proof. unfold words_bytes. apply flat_map_app. Qed.

(* word number j of a run of 32-bit words that starts at byte |pre| *)
Lemma rd32_word ws : forall pre post j off,
  Forall (fun w => w < 2 ^ 32) ws -> (j < length ws)%nat ->
  N.to_nat off = (length pre + 4 * j)%nat ->
  rd32 (pre ++ words_bytes ws ++ post) off = nth j ws 0.
Proof.
  induction ws as [|w r IH]; intros pre post j off Hok Hj Ho; [simpl in Hj; lia|].
  inversion Hok as [|? ? H1 H2]; subst.
  unfold words_bytes. cbn [flat_map]. fold (words_bytes r). rewrite <- app_assoc.
  destruct j as [|j].
  - cbn [nth]. unfold rd32, le32. apply rd_at; [lia|exact H1].
  - cbn [nth]. rewrite (app_assoc pre). apply IH; [exact H2|simpl in Hj; lia|].
    rewrite app_length. unfold le32. rewrite le_bytes_length. lia.
Qed.

(* ---------------------------------------------------------------- entry parsers undo entry writers *)
Ltac pow_norm :=
  change (256 ^ N.of_nat 4) with 4294967296 in *; change (256 ^ N.of_nat 2) with 65536 in *;
  change (256 ^ N.of_nat 1) with 256 in *; change (2 ^ 32) with 4294967296 in *; change (2 ^ 16) with 65536 in *.

Definition fn_fields (f : fn_entry) : list (nat * N) :=
  [(4%nat, fn_name f); (2%nat, fn_arity f); (4%nat, fn_off f); (4%nat, fn_len f); (2%nat, fn_locals f); (2%nat, fn_upv f)].
Lemma ser_fn_fields f : ser_fn f = ser_fields (fn_fields f).
Proof. unfold ser_fn, ser_fields, fn_fields, le32, le16. cbn [flat_map fst snd]. rewrite app_nil_r. reflexivity. Qed.
Lemma ser_fn_length f : length (ser_fn f) = 18%nat.
Proof. rewrite ser_fn_fields, ser_fields_length. reflexivity. Qed.
Lemma wf_fn_fields f : wf_fn f = true -> Forall field_ok (fn_fields f).
Proof.
  unfold wf_fn. rewrite !andb_true_iff, !N.ltb_lt. intros [[[[[H1 H2] H3] H4] H5] H6].
  unfold fn_fields. repeat constructor; unfold field_ok; cbn [fst snd]; pow_norm; assumption.
Qed.

Lemma parse_functions_ser rest : forall pre acc fuel,
  (length rest < fuel)%nat -> Forall (fun f => wf_fn f = true) rest ->
  len (pre ++ ser_fns rest) + 32 < 2 ^ 32 ->
  parse_functions fuel (pre ++ ser_fns rest) (len (pre ++ ser_fns rest)) (len pre) acc = POk (acc ++ rest).
Proof.
  induction rest as [|f0 r IH]; intros pre acc fuel Hf Hok Hsz; (destruct fuel as [|fuel]; [simpl in Hf; lia|]).
  - cbn [parse_functions ser_fns flat_map]. rewrite !app_nil_r in *.
    rewrite fits_no by lia. unfold loop_end. rewrite N.eqb_refl. reflexivity.
  - inversion Hok as [|? ? Hw Hr]; subst.
    assert (E : ser_fns (f0 :: r) = ser_fn f0 ++ ser_fns r) by reflexivity.
    rewrite E in *. clear E.
    assert (L18 : len (ser_fn f0) = 18) by (unfold len; rewrite ser_fn_length; reflexivity).
    assert (Lall : len (pre ++ ser_fn f0 ++ ser_fns r) = len pre + 18 + len (ser_fns r))
      by (rewrite !len_app, L18; lia).
    cbn [parse_functions]. rewrite fits_yes by lia.
    pose proof (rd_fields_ser (fn_fields f0) pre (ser_fns r) (len pre) (to_nat_len pre) (wf_fn_fields f0 Hw)) as R.
    rewrite <- ser_fn_fields in R.
    remember (pre ++ ser_fn f0 ++ ser_fns r) as sec eqn:Esec.
    cbn [fn_fields map fst snd rd_fields] in R.
    change (N.of_nat 4) with 4 in R. change (N.of_nat 2) with 2 in R.
    rewrite <- !N.add_assoc in R.
    change (4 + 2) with 6 in R. change (4 + (2 + 4)) with 10 in R. change (4 + (2 + (4 + 4))) with 14 in R.
    change (4 + (2 + (4 + (4 + 2)))) with 16 in R.
    injection R as R1 R2 R3 R4 R5 R6.
    unfold rd32, rd16. rewrite R1, R2, R3, R4, R5, R6.
    rewrite u32_small by lia.
    replace (mkFn (fn_name f0) (fn_arity f0) (fn_off f0) (fn_len f0) (fn_locals f0) (fn_upv f0)) with f0 by (destruct f0; reflexivity).
    replace (len pre + 18) with (len (pre ++ ser_fn f0)) by (rewrite len_app, L18; reflexivity).
    subst sec. rewrite (app_assoc pre). rewrite IH.
    + rewrite <- app_assoc. reflexivity.
    + simpl in Hf. lia.
    + exact Hr.
    + rewrite <- app_assoc. exact Hsz.
Qed.

Definition dbg_fields (d : N * N) : list (nat * N) := [(4%nat, fst d); (4%nat, snd d)].
Lemma ser_dbg_fields d : ser_dbg d = ser_fields (dbg_fields d).
Proof. unfold ser_dbg, ser_fields, dbg_fields, le32. cbn [flat_map fst snd]. rewrite app_nil_r. reflexivity. Qed.
Lemma ser_dbg_length d : length (ser_dbg d) = 8%nat.
Proof. rewrite ser_dbg_fields, ser_fields_length. reflexivity. Qed.
Lemma wf_dbg_fields d : wf_dbg d = true -> Forall field_ok (dbg_fields d).
Proof.
  unfold wf_dbg. rewrite !andb_true_iff, !N.ltb_lt. intros [H1 H2].
  unfold dbg_fields. repeat constructor; unfold field_ok; cbn [fst snd]; pow_norm; assumption.
Qed.

Lemma parse_debug_ser rest : forall pre acc fuel,
  (length rest < fuel)%nat -> Forall (fun d => wf_dbg d = true) rest ->
  len (pre ++ ser_dbgs rest) + 32 < 2 ^ 32 ->
  parse_debug fuel (pre ++ ser_dbgs rest) (len (pre ++ ser_dbgs rest)) (len pre) acc = POk (acc ++ rest).
Proof.
  induction rest as [|d0 r IH]; intros pre acc fuel Hf Hok Hsz; (destruct fuel as [|fuel]; [simpl in Hf; lia|]).
  - cbn [parse_debug ser_dbgs flat_map]. rewrite !app_nil_r in *.
    rewrite fits_no by lia. unfold loop_end. rewrite N.eqb_refl. reflexivity.
  - inversion Hok as [|? ? Hw Hr]; subst.
    assert (E : ser_dbgs (d0 :: r) = ser_dbg d0 ++ ser_dbgs r) by reflexivity.
    rewrite E in *. clear E.
    assert (L8 : len (ser_dbg d0) = 8) by (unfold len; rewrite ser_dbg_length; reflexivity).
    assert (Lall : len (pre ++ ser_dbg d0 ++ ser_dbgs r) = len pre + 8 + len (ser_dbgs r))
      by (rewrite !len_app, L8; lia).
    cbn [parse_debug]. rewrite fits_yes by lia.
    pose proof (rd_fields_ser (dbg_fields d0) pre (ser_dbgs r) (len pre) (to_nat_len pre) (wf_dbg_fields d0 Hw)) as R.
    rewrite <- ser_dbg_fields in R.
    remember (pre ++ ser_dbg d0 ++ ser_dbgs r) as sec eqn:Esec.
    cbn [dbg_fields map fst snd rd_fields] in R. change (N.of_nat 4) with 4 in R.
    injection R as R1 R2.
    unfold rd32. rewrite R1, R2.
    rewrite u32_small by lia.
    replace (fst d0, snd d0) with d0 by (destruct d0; reflexivity).
    replace (len pre + 8) with (len (pre ++ ser_dbg d0)) by (rewrite len_app, L8; reflexivity).
    subst sec. rewrite (app_assoc pre). rewrite IH.
    + rewrite <- app_assoc. reflexivity.
    + simpl in Hf. lia.
    + exact Hr.
    + rewrite <- app_assoc. exact Hsz.
Qed.

(* strings: the pool is rebuilt through add_string, so the written pool must be duplicate free *)
Lemma bytes_eqb_refl a : bytes_eqb a a = true.
Proof. induction a as [|x a IH]; [reflexivity|]. simpl. rewrite N.eqb_refl. exact IH. Qed.
Lemma bytes_eqb_eq a : forall b, bytes_eqb a b = true -> a = b.
Proof.
  induction a as [|x a IH]; intros [|y b] H; simpl in H; try discriminate; [reflexivity|].
  apply andb_true_iff in H. destruct H as [H1 H2]. apply N.eqb_eq in H1. subst. f_equal. apply IH. exact H2.
Qed.
Lemma bytes_eqb_sym a : forall b, bytes_eqb a b = bytes_eqb b a.
Proof.
  induction a as [|x a IH]; intros [|y b]; simpl; try reflexivity.
  rewrite N.eqb_sym, IH. reflexivity.
Qed.
Lemma mem_string_app s a b : mem_string s (a ++ b) = mem_string s a || mem_string s b.
Proof. induction a as [|t a IH]; [reflexivity|]. simpl. rewrite IH. apply orb_assoc. Qed.

Lemma nodup_app_mem acc : forall s r, nodup_strings (acc ++ s :: r) = true -> mem_string s acc = false.
Proof.
  induction acc as [|a acc IH]; intros s r H; [reflexivity|].
  cbn [app nodup_strings] in H. apply andb_true_iff in H. destruct H as [H1 H2].
  cbn [mem_string]. rewrite (IH s r H2), orb_false_r.
  apply negb_true_iff in H1. rewrite mem_string_app in H1. apply orb_false_iff in H1. destruct H1 as [_ H1].
  cbn [mem_string] in H1. apply orb_false_iff in H1. destruct H1 as [H1 _].
  rewrite bytes_eqb_sym. exact H1.
Qed.

Lemma ser_strings_count ss : (length ss <= length (ser_strings ss))%nat.
Proof.
  induction ss as [|s r IH]; [simpl; lia|].
  unfold ser_strings in *. cbn [flat_map length]. unfold ser_string at 1.
  rewrite !app_length. unfold le32. rewrite le_bytes_length. lia.
Qed.

Lemma parse_strings_ser rest : forall pre acc fuel,
  (length rest < fuel)%nat -> nodup_strings (acc ++ rest) = true ->
  len (pre ++ ser_strings rest) + 32 < 2 ^ 32 ->
  parse_strings fuel (pre ++ ser_strings rest) (len (pre ++ ser_strings rest)) (len pre) acc = POk (acc ++ rest).
Proof.
  induction rest as [|s0 r IH]; intros pre acc fuel Hf Hnd Hsz; (destruct fuel as [|fuel]; [simpl in Hf; lia|]).
  - cbn [parse_strings ser_strings flat_map]. rewrite !app_nil_r in *.
    rewrite fits_no by lia. unfold loop_end. rewrite N.eqb_refl. reflexivity.
  - assert (E : ser_strings (s0 :: r) = le32 (len s0) ++ s0 ++ ser_strings r).
    { unfold ser_strings. cbn [flat_map]. unfold ser_string. rewrite <- app_assoc. reflexivity. }
    rewrite E in *. clear E.
    assert (L4 : len (le32 (len s0)) = 4) by (unfold len, le32; rewrite le_bytes_length; reflexivity).
    assert (Lall : len (pre ++ le32 (len s0) ++ s0 ++ ser_strings r) = len pre + 4 + len s0 + len (ser_strings r))
      by (rewrite !len_app, L4; lia).
    cbn [parse_strings]. rewrite fits_yes by lia.
    assert (R : rd32 (pre ++ le32 (len s0) ++ s0 ++ ser_strings r) (len pre) = len s0).
    { unfold rd32, le32. apply rd_at; [apply to_nat_len|]. pow_norm. lia. }
    rewrite R. rewrite (u32_small (len pre + 4)) by lia.
    rewrite (proj2 (N.ltb_ge _ _)) by lia.
    assert (Sl : slice (pre ++ le32 (len s0) ++ s0 ++ ser_strings r) (len pre + 4) (len s0) = s0).
    { rewrite (app_assoc pre). apply slice_at; [|apply to_nat_len].
      rewrite app_length. unfold le32. rewrite le_bytes_length, N2Nat.inj_add, to_nat_len. reflexivity. }
    rewrite Sl. rewrite u32_small by lia.
    unfold add_string. rewrite (nodup_app_mem acc s0 r Hnd).
    replace (len pre + 4 + len s0) with (len ((pre ++ le32 (len s0)) ++ s0)) by (rewrite !len_app, L4; reflexivity).
    rewrite (app_assoc pre), (app_assoc (pre ++ le32 (len s0))). rewrite IH.
    + rewrite <- app_assoc. reflexivity.
    + simpl in Hf. lia.
    + rewrite <- app_assoc. exact Hnd.
    + rewrite <- !app_assoc. exact Hsz.
Qed.

Definition imp_fields (i : imp_entry) : list (nat * N) :=
  [(4%nat, im_mod i); (4%nat, im_fn i); (2%nat, im_pc i); (1%nat, im_ret i)].
Lemma ser_imp_fields i : ser_imp i = ser_fields (imp_fields i) ++ ser_params (im_pc i) (im_params i).
Proof. unfold ser_imp, ser_fields, imp_fields, le32, le16. cbn [flat_map fst snd]. rewrite app_nil_r, <- !app_assoc. reflexivity. Qed.
Lemma wf_imp_fields i : wf_imp i = true -> Forall field_ok (imp_fields i).
Proof.
  unfold wf_imp. rewrite !andb_true_iff, !N.ltb_lt. intros [[[[[H1 H2] H3] H4] H5] H6].
  unfold imp_fields. repeat constructor; unfold field_ok; cbn [fst snd]; pow_norm; assumption.
Qed.
Lemma wf_imp_params i : wf_imp i = true -> ser_params (im_pc i) (im_params i) = im_params i /\ len (im_params i) = im_pc i /\ im_pc i < 65536.
Proof.
  unfold wf_imp. rewrite !andb_true_iff, !N.ltb_lt, N.eqb_eq. intros [[[[[H1 H2] H3] H4] H5] H6].
  split; [|split; [exact H6|pow_norm; exact H3]].
  unfold ser_params. destruct (im_params i) eqn:E; [|reflexivity].
  rewrite <- H6. reflexivity.
Qed.

Lemma ser_imps_count is : (length is <= length (ser_imps is))%nat.
Proof.
  induction is as [|s r IH]; [simpl; lia|].
  unfold ser_imps in *. cbn [flat_map length]. rewrite ser_imp_fields.
  rewrite !app_length, ser_fields_length. simpl. lia.
Qed.

Lemma parse_imports_ser rest : forall pre acc fuel,
  (length rest < fuel)%nat -> Forall (fun i => wf_imp i = true) rest ->
  len (pre ++ ser_imps rest) + 32 < 2 ^ 32 ->
  parse_imports fuel (pre ++ ser_imps rest) (len (pre ++ ser_imps rest)) (len pre) acc = POk (acc ++ rest).
Proof.
  induction rest as [|i0 r IH]; intros pre acc fuel Hf Hok Hsz; (destruct fuel as [|fuel]; [simpl in Hf; lia|]).
  - cbn [parse_imports ser_imps flat_map]. rewrite !app_nil_r in *.
    rewrite fits_no by lia. unfold loop_end. rewrite N.eqb_refl. reflexivity.
  - inversion Hok as [|? ? Hw Hr]; subst.
    destruct (wf_imp_params i0 Hw) as [Ep [Lp Hpc]].
    assert (E : ser_imps (i0 :: r) = ser_fields (imp_fields i0) ++ im_params i0 ++ ser_imps r).
    { unfold ser_imps. cbn [flat_map]. rewrite ser_imp_fields, Ep, <- app_assoc. reflexivity. }
    rewrite E in *. clear E.
    assert (L11 : len (ser_fields (imp_fields i0)) = 11) by (unfold len; rewrite ser_fields_length; reflexivity).
    assert (Lall : len (pre ++ ser_fields (imp_fields i0) ++ im_params i0 ++ ser_imps r)
                   = len pre + 11 + im_pc i0 + len (ser_imps r)) by (rewrite !len_app, L11, Lp; lia).
    cbn [parse_imports]. rewrite fits_yes by lia.
    pose proof (rd_fields_ser (imp_fields i0) pre (im_params i0 ++ ser_imps r) (len pre) (to_nat_len pre) (wf_imp_fields i0 Hw)) as R.
    remember (pre ++ ser_fields (imp_fields i0) ++ im_params i0 ++ ser_imps r) as sec eqn:Esec.
    cbn [imp_fields map fst snd rd_fields] in R.
    change (N.of_nat 4) with 4 in R. change (N.of_nat 2) with 2 in R.
    rewrite <- !N.add_assoc in R. change (4 + 4) with 8 in R. change (4 + (4 + 2)) with 10 in R.
    injection R as R1 R2 R3 R4.
    unfold rd32, rd16, rd8. rewrite R1, R2, R3, R4.
    rewrite (u32_small (len pre + 11)) by lia. rewrite fits_yes by lia.
    assert (Sl : slice sec (len pre + 11) (im_pc i0) = im_params i0).
    { subst sec. rewrite (app_assoc pre). apply slice_at; [|rewrite <- Lp; apply to_nat_len].
      rewrite app_length, ser_fields_length, N2Nat.inj_add, to_nat_len. reflexivity. }
    rewrite Sl. rewrite u32_small by lia.
    replace (mkImp (im_mod i0) (im_fn i0) (im_pc i0) (im_ret i0) (im_params i0)) with i0 by (destruct i0; reflexivity).
    replace (len pre + 11 + im_pc i0) with (len ((pre ++ ser_fields (imp_fields i0)) ++ im_params i0))
      by (rewrite !len_app, L11, Lp; reflexivity).
    subst sec. rewrite (app_assoc pre), (app_assoc (pre ++ ser_fields (imp_fields i0))). rewrite IH.
    + rewrite <- app_assoc. reflexivity.
    + simpl in Hf. lia.
    + exact Hr.
    + rewrite <- !app_assoc. exact Hsz.
Qed.

Lemma ser_fns_count fs : (length fs <= length (ser_fns fs))%nat.
Proof.
  induction fs as [|s r IH]; [simpl; lia|].
  unfold ser_fns in *. cbn [flat_map length]. rewrite app_length, ser_fn_length. lia.
Qed.
Lemma ser_dbgs_count ds : (length ds <= length (ser_dbgs ds))%nat.
Proof.
  induction ds as [|s r IH]; [simpl; lia|].
  unfold ser_dbgs in *. cbn [flat_map length]. rewrite app_length, ser_dbg_length. lia.
Qed.

(* ---------------------------------------------------------------- the section loop *)
Definition plen (ps : list (N * list byte)) : N := len (flat_map snd ps).
Lemma plen_app a b : plen (a ++ b) = plen a + plen b.
Proof. unfold plen. rewrite flat_map_app. apply len_app. Qed.
Lemma plen_cons ty d r : plen ((ty, d) :: r) = len d + plen r.
Proof. unfold plen. cbn [flat_map snd]. apply len_app. Qed.
Lemma plen_nil : plen [] = 0.
Proof. reflexivity. Qed.

(* what the loop computes when the directory is the one nvm_serialize writes for [ps] and the payload bytes are
   readable wherever they lie inside the buffer *)
Fixpoint spec_load (size off : N) (ps : list (N * list byte)) (m : module) : load_result :=
  match ps with
  | [] => Loaded m
  | (ty, d) :: r =>
      if size <? off + len d then Refused else
      match apply_section ty d (len d) (add_sec m (ty, off, len d)) with
      | POk m2 => spec_load size (off + len d) r m2
      | PBad => Refused
      | PCrash => Crash
      | PFuel => OutOfFuel
      end
  end.

Lemma layout_app a : forall off b, layout off (a ++ b) = layout off a ++ layout (off + plen a) b.
Proof.
  induction a as [|[ty d] a IH]; intros off b.
  - cbn [app layout]. rewrite plen_nil, N.add_0_r. reflexivity.
  - cbn [app layout]. rewrite IH, plen_cons, N.add_assoc. reflexivity.
Qed.
Lemma layout_length ps : forall off, length (layout off ps) = length ps.
Proof. induction ps as [|[ty d] r IH]; intros off; [reflexivity|]. cbn [layout length]. rewrite IH. reflexivity. Qed.
Lemma dir_words_app a b : dir_words (a ++ b) = dir_words a ++ dir_words b.
Proof. unfold dir_words. apply flat_map_app. Qed.
Lemma dir_words_length l : length (dir_words l) = (3 * length l)%nat.
Proof. induction l as [|e r IH]; [reflexivity|]. unfold dir_words in *. cbn [flat_map length app]. rewrite IH. lia. Qed.

Section Loop.
Variable data : list byte.
Variable ps : list (N * list byte).
Let size := len data.
Let doff := data_offset ps.
Variable hdr tailbytes : list byte.
Hypothesis NOWRAP : doff + plen ps < 2 ^ 32.
Hypothesis TYOK : Forall (fun p => fst p < 2 ^ 32) ps.
Hypothesis HDR : length hdr = 32%nat.
Hypothesis DIR : data = hdr ++ words_bytes (dir_words (layout doff ps)) ++ tailbytes.
Hypothesis PAY : forall done ty d rest, ps = done ++ (ty, d) :: rest ->
  doff + plen done + len d <= size -> slice data (doff + plen done) (len d) = d.

Lemma load_sections_spec : forall rest done m, ps = done ++ rest ->
  load_sections (length rest) (len done) data size m = spec_load size (doff + plen done) rest m.
Proof.
  induction rest as [|[ty d] r IH]; intros done m E; [reflexivity|].
  assert (Hty : ty < 2 ^ 32).
  { rewrite E in TYOK. apply Forall_app in TYOK. destruct TYOK as [_ T]. inversion T; subst. assumption. }
  assert (Hpl : plen ps = plen done + len d + plen r) by (rewrite E, plen_app, plen_cons; lia).
  set (off := doff + plen done).
  (* the three directory words of entry number |done| *)
  assert (W : words_bytes (dir_words (layout doff ps)) =
              words_bytes (dir_words (layout doff done)) ++ (le32 ty ++ le32 off ++ le32 (len d)) ++
              words_bytes (dir_words (layout (off + len d) r))).
  { rewrite E, layout_app. cbn [layout]. rewrite dir_words_app, words_bytes_app. f_equal. }
  set (pre := hdr ++ words_bytes (dir_words (layout doff done))).
  assert (Lpre : length pre = (32 + 12 * length done)%nat).
  { unfold pre. rewrite app_length, HDR, words_bytes_length, dir_words_length, layout_length. lia. }
  assert (D : data = pre ++ le32 ty ++ le32 off ++ le32 (len d) ++ words_bytes (dir_words (layout (off + len d) r)) ++ tailbytes).
  { rewrite DIR, W. unfold pre. rewrite <- !app_assoc. reflexivity. }
  assert (Pos0 : N.to_nat (32 + len done * 12) = length pre).
  { rewrite Lpre. unfold len. lia. }
  assert (R1 : rd32 data (32 + len done * 12) = ty).
  { rewrite D. unfold rd32, le32. apply rd_at; [exact Pos0|pow_norm; exact Hty]. }
  assert (R2 : rd32 data (32 + len done * 12 + 4) = off).
  { rewrite D. rewrite (app_assoc pre). unfold rd32, le32. apply rd_at.
    - rewrite app_length, le_bytes_length. lia.
    - pow_norm. unfold off. lia. }
  assert (R3 : rd32 data (32 + len done * 12 + 8) = len d).
  { rewrite D. rewrite (app_assoc pre), (app_assoc (pre ++ _)). unfold rd32, le32. apply rd_at.
    - rewrite !app_length, !le_bytes_length. lia.
    - pow_norm. lia. }
  cbn [length load_sections]. rewrite R1, R2, R3. cbn [spec_load].
  destruct (N.ltb_spec size (off + len d)) as [Hlt|Hge]; [reflexivity|].
  pose proof (PAY done ty d r E Hge) as P. fold off in P. rewrite P.
  destruct (apply_section ty d (len d) (add_sec m (ty, off, len d))) as [m2| | |]; try reflexivity.
  replace (len done + 1) with (len (done ++ [(ty, d)])) by (rewrite len_app; reflexivity).
  rewrite IH.
  - rewrite plen_app, plen_cons, plen_nil. f_equal. unfold off. lia.
  - rewrite <- app_assoc. exact E.
Qed.
End Loop.

(* ---------------------------------------------------------------- one section at a time *)
Lemma apply_strings m ss : nodup_strings (m_strings m ++ ss) = true -> len (ser_strings ss) + 32 < 2 ^ 32 ->
  apply_section SEC_STRINGS (ser_strings ss) (len (ser_strings ss)) m = POk (set_strings m (m_strings m ++ ss)).
Proof.
  intros Hn Hs. unfold apply_section. change (SEC_STRINGS =? SEC_STRINGS) with true. cbv iota.
  pose proof (parse_strings_ser ss [] (m_strings m) (S (length (ser_strings ss)))) as P.
  cbn [app] in P. change (len (@nil byte)) with 0 in P. rewrite P; [reflexivity| |exact Hn|exact Hs].
  pose proof (ser_strings_count ss). lia.
Qed.
Lemma apply_code m c : apply_section SEC_CODE c (len c) m = POk (set_code m (m_code m ++ c)).
Proof. reflexivity. Qed.
Lemma apply_fns m fs : Forall (fun f => wf_fn f = true) fs -> len (ser_fns fs) + 32 < 2 ^ 32 ->
  apply_section SEC_FUNCTIONS (ser_fns fs) (len (ser_fns fs)) m = POk (set_funcs m (m_funcs m ++ fs)).
Proof.
  intros Hn Hs. unfold apply_section.
  change (SEC_FUNCTIONS =? SEC_STRINGS) with false. change (SEC_FUNCTIONS =? SEC_CODE) with false.
  change (SEC_FUNCTIONS =? SEC_FUNCTIONS) with true. cbv iota.
  pose proof (parse_functions_ser fs [] (m_funcs m) (S (length (ser_fns fs)))) as P.
  cbn [app] in P. change (len (@nil byte)) with 0 in P. rewrite P; [reflexivity| |exact Hn|exact Hs].
  pose proof (ser_fns_count fs). lia.
Qed.
Lemma apply_dbgs m ds : Forall (fun d => wf_dbg d = true) ds -> len (ser_dbgs ds) + 32 < 2 ^ 32 ->
  apply_section SEC_DEBUG (ser_dbgs ds) (len (ser_dbgs ds)) m = POk (set_debug m (m_debug m ++ ds)).
Proof.
  intros Hn Hs. unfold apply_section.
  change (SEC_DEBUG =? SEC_STRINGS) with false. change (SEC_DEBUG =? SEC_CODE) with false.
  change (SEC_DEBUG =? SEC_FUNCTIONS) with false. change (SEC_DEBUG =? SEC_DEBUG) with true. cbv iota.
  pose proof (parse_debug_ser ds [] (m_debug m) (S (length (ser_dbgs ds)))) as P.
  cbn [app] in P. change (len (@nil byte)) with 0 in P. rewrite P; [reflexivity| |exact Hn|exact Hs].
  pose proof (ser_dbgs_count ds). lia.
Qed.
Lemma apply_imps m is : Forall (fun i => wf_imp i = true) is -> len (ser_imps is) + 32 < 2 ^ 32 ->
  apply_section SEC_IMPORTS (ser_imps is) (len (ser_imps is)) m = POk (set_imports m (m_imports m ++ is)).
Proof.
  intros Hn Hs. unfold apply_section.
  change (SEC_IMPORTS =? SEC_STRINGS) with false. change (SEC_IMPORTS =? SEC_CODE) with false.
  change (SEC_IMPORTS =? SEC_FUNCTIONS) with false. change (SEC_IMPORTS =? SEC_DEBUG) with false.
  change (SEC_IMPORTS =? SEC_IMPORTS) with true. cbv iota.
  pose proof (parse_imports_ser is [] (m_imports m) (S (length (ser_imps is)))) as P.
  cbn [app] in P. change (len (@nil byte)) with 0 in P. rewrite P; [reflexivity| |exact Hn|exact Hs].
  pose proof (ser_imps_count is). lia.
Qed.

(* ---------------------------------------------------------------- well-formedness unpacked *)
Lemma forallb_Forall {A} (f : A -> bool) l : forallb f l = true -> Forall (fun x => f x = true) l.
Proof. intros H. apply Forall_forall. apply forallb_forall. exact H. Qed.

Lemma data_offset_ge ps : 32 <= data_offset ps.
Proof. unfold data_offset. lia. Qed.

Lemma serialize_len m : len (serialize m) = data_offset (payloads m) + plen (payloads m).
Proof.
  unfold serialize, body_bytes. rewrite !len_app. unfold len at 1 2 3.
  rewrite !words_bytes_length, dir_words_length, layout_length. cbn [length MAGIC header_words].
  unfold data_offset, plen, len. lia.
Qed.

Record wf_parts (m : module) : Prop := {
  wp_flags : h_flags (m_hdr m) < 2 ^ 32;
  wp_entry : h_entry (m_hdr m) < 2 ^ 32;
  wp_nodup : nodup_strings (m_strings m) = true;
  wp_strs : Forall (fun s => bytes_okb s = true) (m_strings m);
  wp_code : bytes_okb (m_code m) = true;
  wp_fns : Forall (fun f => wf_fn f = true) (m_funcs m);
  wp_dbg : Forall (fun d => wf_dbg d = true) (m_debug m);
  wp_imp : Forall (fun i => wf_imp i = true) (m_imports m);
  wp_size : data_offset (payloads m) + plen (payloads m) < 2 ^ 32 }.

Lemma wf_unpack m : wf_module m -> wf_parts m.
Proof.
  unfold wf_module, wf_moduleb. rewrite !andb_true_iff, !N.ltb_lt.
  intros [[[[[[[[H1 H2] H3] H4] H5] H6] H7] H8] H9].
  constructor; try assumption; try (apply forallb_Forall; assumption).
  rewrite <- serialize_len. exact H9.
Qed.

(* ---------------------------------------------------------------- the whole payload list of a well-formed module *)
Definition loaded_of (h : header) (off : N) (m : module) : module :=
  mkMod h (layout off (payloads m)) (m_strings m) (m_funcs m) (m_code m) (m_debug m) (m_imports m).

Ltac sl_bound := rewrite ?plen_cons, ?plen_nil in *; lia.
Ltac sl_step :=
  cbn [spec_load];
  match goal with |- context [?size <? ?e] => rewrite (proj2 (N.ltb_ge size e)) by sl_bound end;
  first [ rewrite apply_strings by (first [assumption | sl_bound])
        | rewrite apply_fns by (first [assumption | sl_bound])
        | rewrite apply_dbgs by (first [assumption | sl_bound])
        | rewrite apply_imps by (first [assumption | sl_bound])
        | rewrite apply_code ].

Lemma spec_load_payloads m h size off : wf_parts m -> 32 <= off ->
  off + plen (payloads m) < 2 ^ 32 -> off + plen (payloads m) <= size ->
  spec_load size off (payloads m) (set_hdr empty_module h) = Loaded (loaded_of h off m).
Proof.
  intros [_ _ Hnd _ _ Hf Hd Hi _] Hoff Hlt Hsz.
  unfold loaded_of, payloads in *.
  destruct (m_strings m) as [|s ss]; destruct (m_code m) as [|c cs]; destruct (m_funcs m) as [|f fs];
    destruct (m_debug m) as [|d ds]; destruct (m_imports m) as [|i is];
    cbn [opt_sec is_nil app] in *; repeat sl_step; reflexivity.
Qed.

(* ---------------------------------------------------------------- facts about the generated CRC parameters *)
Lemma poly_lt_gen : crc_poly < 2 ^ 32. Proof. vm_compute. reflexivity. Qed.
Lemma poly_b31_gen : N.testbit crc_poly 31 = true. Proof. vm_compute. reflexivity. Qed.
Lemma init_lt_gen : crc_init < 2 ^ 32. Proof. vm_compute. reflexivity. Qed.
Lemma xorout_lt_gen : crc_xorout < 2 ^ 32. Proof. vm_compute. reflexivity. Qed.
Lemma crc32_eq bs : crc32 bs = crc_tab crc_poly crc_init crc_xorout bs.
Proof. reflexivity. Qed.
Lemma crc32_lt bs : crc32 bs < 2 ^ 32.
Proof. rewrite crc32_eq. apply (crc_tab_lt crc_poly poly_lt_gen); [exact init_lt_gen|exact xorout_lt_gen]. Qed.

(* ---------------------------------------------------------------- what deserialize0 checks before the sections *)
Definition pre_checks (data : list byte) : Prop :=
  32 <= len data /\ bytes_eqb (firstn 4 data) MAGIC = true /\ rd32 data 4 = VERSION /\
  h_nsec (header_of data) <= MAX_SECTIONS /\ crc32 (skipn 32 data) = h_crc (header_of data) /\
  u32 (32 + u32 (h_nsec (header_of data) * 12)) <= len data.

Lemma deserialize_inv data :
  deserialize0 data = Refused \/
  (pre_checks data /\
   deserialize0 data = load_sections (N.to_nat (h_nsec (header_of data))) 0 data (len data) (set_hdr empty_module (header_of data))).
Proof.
  unfold deserialize0, pre_checks.
  destruct (N.ltb_spec (len data) 32); [left; reflexivity|].
  destruct (bytes_eqb (firstn 4 data) MAGIC); [|left; reflexivity]. cbn [negb].
  destruct (N.eqb_spec (rd32 data 4) VERSION); [|left; reflexivity]. cbn [negb].
  destruct (N.ltb_spec MAX_SECTIONS (h_nsec (header_of data))); [left; reflexivity|].
  destruct (N.eqb_spec (crc32 (skipn 32 data)) (h_crc (header_of data))); [|left; reflexivity]. cbn [negb].
  destruct (N.ltb_spec (len data) (u32 (32 + u32 (h_nsec (header_of data) * 12)))); [left; reflexivity|].
  right. repeat split; assumption.
Qed.

Theorem load_rejects_short0 data : len data < 32 -> deserialize0 data = Refused.
Proof. intros H. unfold deserialize0. destruct (N.ltb_spec (len data) 32); [reflexivity|lia]. Qed.

Theorem load_rejects_magic0 data : firstn 4 data <> MAGIC -> deserialize0 data = Refused.
Proof.
  intros H. destruct (deserialize_inv data) as [E|[(_ & M & _) _]]; [exact E|].
  exfalso. apply H. apply bytes_eqb_eq. exact M.
Qed.

Theorem load_rejects_version0 data : rd32 data 4 <> VERSION -> deserialize0 data = Refused.
Proof.
  intros H. destruct (deserialize_inv data) as [E|[(_ & _ & V & _) _]]; [exact E|]. contradiction.
Qed.

Theorem load_rejects_section_count0 data : MAX_SECTIONS < h_nsec (header_of data) -> deserialize0 data = Refused.
Proof.
  intros H. destruct (deserialize_inv data) as [E|[(_ & _ & _ & S & _) _]]; [exact E|]. lia.
Qed.

Theorem load_rejects_bad_crc0 data : crc32 (skipn 32 data) <> h_crc (header_of data) -> deserialize0 data = Refused.
Proof.
  intros H. destruct (deserialize_inv data) as [E|[(_ & _ & _ & _ & C & _) _]]; [exact E|]. contradiction.
Qed.

(* the header fields depend on the first 32 bytes only *)
Lemma rd_firstn k data off n : (N.to_nat off + k <= n)%nat -> rd k (firstn n data) off = rd k data off.
Proof.
  intros H. unfold rd. f_equal. rewrite skipn_firstn_comm, firstn_firstn. f_equal. lia.
Qed.
Lemma header_of_firstn data : header_of (firstn 32 data) = header_of data.
Proof. unfold header_of, rd32. rewrite !rd_firstn by (simpl; lia). reflexivity. Qed.

(* ---------------------------------------------------------------- damage after the header *)
Theorem load_rejects_burst0 f f' m :
  deserialize0 f = Loaded m -> bytes_ok f -> bytes_ok f' ->
  firstn 32 f' = firstn 32 f -> burst_le32 (skipn 32 f) (skipn 32 f') ->
  deserialize0 f' = Refused.
Proof.
  intros HL Hok Hok' Hh Hb.
  destruct (deserialize_inv f) as [E|[(_ & _ & _ & _ & C & _) _]]; [rewrite E in HL; discriminate|].
  apply load_rejects_bad_crc0.
  rewrite <- (header_of_firstn f'), Hh, header_of_firstn, <- C, !crc32_eq.
  apply not_eq_sym.
  apply (crc_tab_burst crc_poly poly_lt_gen poly_b31_gen); [| |exact Hb]; apply bytes_ok_skipn; assumption.
Qed.

(* any change confined to at most four consecutive bytes after the header *)
Theorem load_rejects_bytes40 hdr p x y q m :
  length hdr = 32%nat -> deserialize0 (hdr ++ p ++ x ++ q) = Loaded m ->
  bytes_ok (hdr ++ p ++ x ++ q) -> bytes_ok y -> length x = length y -> (length x <= 4)%nat -> x <> y ->
  deserialize0 (hdr ++ p ++ y ++ q) = Refused.
Proof.
  intros Hh HL Hok Hy HLn H4 Hne.
  assert (Hx : bytes_ok x).
  { apply bytes_ok_app in Hok. destruct Hok as [_ Hok]. apply bytes_ok_app in Hok. destruct Hok as [_ Hok].
    apply bytes_ok_app in Hok. tauto. }
  apply (load_rejects_burst0 _ _ m HL Hok).
  - apply bytes_ok_app in Hok. destruct Hok as [H1 Hok]. apply bytes_ok_app in Hok. destruct Hok as [H2 Hok].
    apply bytes_ok_app in Hok. destruct Hok as [_ H4']. repeat (apply bytes_ok_app; split); assumption.
  - rewrite !firstn_app_len by exact Hh. reflexivity.
  - rewrite !skipn_app_len by exact Hh.
    apply (bytes4_is_burst crc_poly poly_lt_gen); assumption.
Qed.

(* one flipped bit after the header *)
Theorem load_rejects_bitflip0 hdr p x q k m :
  length hdr = 32%nat -> deserialize0 (hdr ++ p ++ [x] ++ q) = Loaded m -> bytes_ok (hdr ++ p ++ [x] ++ q) -> k < 8 ->
  deserialize0 (hdr ++ p ++ [N.lxor x (2 ^ k)] ++ q) = Refused.
Proof.
  intros Hh HL Hok Hk.
  assert (Hx : x < 256).
  { apply bytes_ok_app in Hok. destruct Hok as [_ Hok]. apply bytes_ok_app in Hok. destruct Hok as [_ Hok].
    inversion Hok; assumption. }
  apply (load_rejects_bytes40 hdr p [x] _ q m Hh HL Hok); simpl; try lia.
  - constructor; [|constructor]. change 256 with (2 ^ 8). apply lxor_lt_pow2; [exact Hx|]. apply N.pow_lt_mono_r; lia.
  - intros E. inversion E as [E1].
    apply (f_equal (N.lxor x)) in E1. rewrite N.lxor_nilpotent, <- N.lxor_assoc, N.lxor_nilpotent, N.lxor_0_l in E1.
    symmetry in E1. revert E1. apply N.pow_nonzero. lia.
Qed.

(* ---------------------------------------------------------------- files whose header and directory are those of serialize m *)
Lemma opt_sec_length {A} (l : list A) ty p : (length (opt_sec l ty p) <= 1)%nat.
Proof. unfold opt_sec. destruct (is_nil l); simpl; lia. Qed.
Lemma payloads_count m : (length (payloads m) <= 5)%nat.
Proof.
  unfold payloads. rewrite !app_length.
  pose proof (opt_sec_length (m_strings m) SEC_STRINGS (ser_strings (m_strings m))).
  pose proof (opt_sec_length (m_code m) SEC_CODE (m_code m)).
  pose proof (opt_sec_length (m_funcs m) SEC_FUNCTIONS (ser_fns (m_funcs m))).
  pose proof (opt_sec_length (m_debug m) SEC_DEBUG (ser_dbgs (m_debug m))).
  pose proof (opt_sec_length (m_imports m) SEC_IMPORTS (ser_imps (m_imports m))). lia.
Qed.
Lemma opt_sec_types {A} (l : list A) ty p : ty < 2 ^ 32 -> Forall (fun q : N * list byte => fst q < 2 ^ 32) (opt_sec l ty p).
Proof. intros H. unfold opt_sec. destruct (is_nil l); repeat constructor. exact H. Qed.
Lemma payloads_types m : Forall (fun p => fst p < 2 ^ 32) (payloads m).
Proof. unfold payloads. repeat (apply Forall_app; split); apply opt_sec_types; reflexivity. Qed.

Lemma sp_fields_ok m : wf_parts m -> fst (sp_fields m) < 2 ^ 32 /\ snd (sp_fields m) < 2 ^ 32.
Proof.
  intros W. pose proof (wp_size m W) as S. unfold sp_fields.
  destruct (m_strings m) as [|s ss] eqn:E; cbn [is_nil fst snd]; [split; reflexivity|].
  split; [lia|].
  unfold payloads in S. rewrite E in S. cbn [opt_sec is_nil app] in S. rewrite plen_cons in S. lia.
Qed.

Lemma header_words_ok m : wf_parts m -> Forall (fun w => w < 2 ^ 32) (header_words m).
Proof.
  intros W. destruct (sp_fields_ok m W) as [S1 S2]. unfold header_words.
  apply Forall_cons; [reflexivity|].
  apply Forall_cons; [apply (wp_flags m W)|].
  apply Forall_cons; [apply (wp_entry m W)|].
  apply Forall_cons; [pose proof (payloads_count m); unfold len; pow_norm; lia|].
  apply Forall_cons; [exact S1|].
  apply Forall_cons; [exact S2|].
  apply Forall_cons; [apply crc32_lt|]. apply Forall_nil.
Qed.

Lemma firstn_app_ge {A} (a b : list A) n : (length a <= n)%nat -> firstn n (a ++ b) = a ++ firstn (n - length a) b.
Proof. intros H. rewrite firstn_app, firstn_all2 by exact H. reflexivity. Qed.

Lemma slice_skip_pre (pre X : list byte) a p l : N.to_nat a = length pre -> slice (pre ++ X) (a + p) l = slice X p l.
Proof.
  intros H. unfold slice. rewrite N2Nat.inj_add, H, skipn_app, skipn_all2 by lia. cbn [app]. f_equal. f_equal. lia.
Qed.

Lemma slice_agree (X Y : list byte) K a l : firstn K X = firstn K Y -> (a + l <= K)%nat ->
  firstn l (skipn a X) = firstn l (skipn a Y).
Proof.
  intros E H.
  assert (G : forall Z : list byte, firstn l (skipn a Z) = firstn l (skipn a (firstn K Z))).
  { intros Z. rewrite skipn_firstn_comm, firstn_firstn. f_equal. lia. }
  rewrite (G X), (G Y), E. reflexivity.
Qed.

Definition hdr_of_m (m : module) : header :=
  mkHdr (h_flags (m_hdr m)) (h_entry (m_hdr m)) (len (payloads m)) (fst (sp_fields m)) (snd (sp_fields m))
        (crc32 (body_bytes (payloads m))).
Definition dir_bytes_of (m : module) : list byte :=
  words_bytes (dir_words (layout (data_offset (payloads m)) (payloads m))).
Definition pay_bytes_of (m : module) : list byte := flat_map snd (payloads m).

Lemma serialize_split m : serialize m = MAGIC ++ words_bytes (header_words m) ++ dir_bytes_of m ++ pay_bytes_of m.
Proof. reflexivity. Qed.

Lemma hdr32_length m : length (MAGIC ++ words_bytes (header_words m)) = 32%nat.
Proof. rewrite app_length, words_bytes_length. reflexivity. Qed.

Lemma hdr32_le m n : (32 <= n)%nat -> (length (MAGIC ++ words_bytes (header_words m)) <= n)%nat.
Proof. intros H. rewrite hdr32_length. exact H. Qed.

Lemma dir_bytes_length m : length (dir_bytes_of m) = (12 * length (payloads m))%nat.
Proof. unfold dir_bytes_of. rewrite words_bytes_length, dir_words_length, layout_length. lia. Qed.

Lemma len_file m (X : list byte) :
  len (MAGIC ++ words_bytes (header_words m) ++ dir_bytes_of m ++ X) = data_offset (payloads m) + len X.
Proof.
  rewrite (app_assoc MAGIC), len_app, (len_app (dir_bytes_of m)). unfold len.
  rewrite hdr32_length, dir_bytes_length. unfold data_offset, len. lia.
Qed.

(* the master lemma: header + directory of serialize m, followed by bytes X that agree with the payload bytes on a
   prefix of length K which covers every section that lies inside the buffer *)
Lemma deserialize_master m X K : wf_parts m ->
  firstn K X = firstn K (pay_bytes_of m) ->
  (K = length X \/ length (pay_bytes_of m) <= K)%nat ->
  crc32 (dir_bytes_of m ++ X) = crc32 (body_bytes (payloads m)) ->
  let data := MAGIC ++ words_bytes (header_words m) ++ dir_bytes_of m ++ X in
  deserialize0 data = spec_load (len data) (data_offset (payloads m)) (payloads m) (set_hdr empty_module (hdr_of_m m)).
Proof.
  intros W HX HK HC data.
  pose proof (header_words_ok m W) as HW.
  pose proof (payloads_count m) as P5.
  assert (Ldata : len data = data_offset (payloads m) + len X).
  { unfold data. rewrite (app_assoc MAGIC), len_app, (len_app (dir_bytes_of m)). unfold len.
    rewrite hdr32_length, dir_bytes_length. unfold data_offset, len. lia. }
  (* header fields *)
  assert (R : forall j, (j < 7)%nat -> rd32 data (4 + 4 * N.of_nat j) = nth j (header_words m) 0).
  { intros j Hj. unfold data. apply rd32_word; [exact HW|exact Hj|]. cbn [length MAGIC]. lia. }
  assert (Hh : header_of data = hdr_of_m m).
  { unfold header_of, hdr_of_m.
    f_equal; [exact (R 1%nat ltac:(lia))|exact (R 2%nat ltac:(lia))|exact (R 3%nat ltac:(lia))
             |exact (R 4%nat ltac:(lia))|exact (R 5%nat ltac:(lia))|exact (R 6%nat ltac:(lia))]. }
  assert (Hv : rd32 data 4 = VERSION) by (exact (R 0%nat ltac:(lia))).
  assert (Hs : skipn 32 data = dir_bytes_of m ++ X).
  { unfold data. rewrite (app_assoc MAGIC). apply skipn_app_len. apply hdr32_length. }
  unfold deserialize0. fold data.
  rewrite (proj2 (N.ltb_ge (len data) 32)) by (unfold data_offset in Ldata; lia).
  change (firstn 4 data) with MAGIC. change (bytes_eqb MAGIC MAGIC) with true. cbn [negb].
  rewrite Hv, N.eqb_refl. cbn [negb]. rewrite Hh. cbn [h_nsec h_crc hdr_of_m].
  rewrite (proj2 (N.ltb_ge MAX_SECTIONS (len (payloads m)))) by (unfold len, MAX_SECTIONS; lia).
  rewrite Hs, HC, N.eqb_refl. cbn [negb].
  rewrite (u32_small (len (payloads m) * 12)) by (unfold len; pow_norm; lia).
  rewrite u32_small by (unfold len; pow_norm; lia).
  rewrite (proj2 (N.ltb_ge (len data) (32 + len (payloads m) * 12))) by (unfold data_offset in Ldata; lia).
  rewrite to_nat_len.
  assert (NOWRAP : data_offset (payloads m) + plen (payloads m) < 2 ^ 32) by apply (wp_size m W).
  assert (DIR : data = (MAGIC ++ words_bytes (header_words m)) ++
                       words_bytes (dir_words (layout (data_offset (payloads m)) (payloads m))) ++ X).
  { unfold data. rewrite <- app_assoc. reflexivity. }
  assert (PAY : forall done ty d rest, payloads m = done ++ (ty, d) :: rest ->
            data_offset (payloads m) + plen done + len d <= len data ->
            slice data (data_offset (payloads m) + plen done) (len d) = d).
  { intros done ty d rest Eps Hfit.
    assert (Epay : pay_bytes_of m = flat_map snd done ++ d ++ flat_map snd rest).
    { unfold pay_bytes_of. rewrite Eps, flat_map_app. cbn [flat_map snd]. reflexivity. }
    assert (Lpre : N.to_nat (data_offset (payloads m)) = length ((MAGIC ++ words_bytes (header_words m)) ++ dir_bytes_of m)).
    { rewrite app_length, hdr32_length, dir_bytes_length. unfold data_offset, len. lia. }
    replace data with (((MAGIC ++ words_bytes (header_words m)) ++ dir_bytes_of m) ++ X)
      by (unfold data; rewrite <- !app_assoc; reflexivity).
    rewrite slice_skip_pre by exact Lpre.
    unfold slice.
    assert (Hin : (N.to_nat (plen done) + N.to_nat (len d) <= K)%nat).
    { rewrite Ldata in Hfit. unfold plen in *. rewrite !to_nat_len.
      destruct HK as [HK|HK].
      - rewrite HK. unfold len in Hfit. lia.
      - rewrite Epay, !app_length in HK. lia. }
    rewrite (slice_agree X (pay_bytes_of m) K _ _ HX Hin).
    rewrite Epay. unfold plen. rewrite !to_nat_len. rewrite skipn_app_len by reflexivity.
    apply firstn_app_len. reflexivity. }
  pose proof (load_sections_spec data (payloads m) (MAGIC ++ words_bytes (header_words m)) X
                NOWRAP (payloads_types m) (hdr32_length m) DIR PAY (payloads m) [] (set_hdr empty_module (hdr_of_m m)) eq_refl) as LS.
  rewrite plen_nil, N.add_0_r in LS. exact LS.
Qed.

(* ---------------------------------------------------------------- C10: round trip *)
Theorem deserialize_serialize0 m : wf_module m -> deserialize0 (serialize m) = Loaded (stamp m).
Proof.
  intros Wf. pose proof (wf_unpack m Wf) as W.
  rewrite serialize_split.
  rewrite (deserialize_master m (pay_bytes_of m) (length (pay_bytes_of m)) W eq_refl (or_introl eq_refl) eq_refl).
  rewrite <- serialize_split, serialize_len.
  rewrite (spec_load_payloads m (hdr_of_m m) _ _ W (data_offset_ge _) (wp_size m W) (N.le_refl _)).
  reflexivity.
Qed.

Theorem serialize_stamp m : serialize (stamp m) = serialize m.
Proof. reflexivity. Qed.

Theorem serialize_idempotent0 m m' : wf_module m -> deserialize0 (serialize m) = Loaded m' -> serialize m' = serialize m.
Proof. intros Wf H. rewrite (deserialize_serialize0 m Wf) in H. inversion H. apply serialize_stamp. Qed.

(* the loaded module differs from the one written only in the header/directory fields nvm_serialize computes *)
Theorem roundtrip_fields0 m m' : wf_module m -> deserialize0 (serialize m) = Loaded m' ->
  m_strings m' = m_strings m /\ m_funcs m' = m_funcs m /\ m_code m' = m_code m /\ m_debug m' = m_debug m /\
  m_imports m' = m_imports m /\ h_flags (m_hdr m') = h_flags (m_hdr m) /\ h_entry (m_hdr m') = h_entry (m_hdr m).
Proof. intros Wf H. rewrite (deserialize_serialize0 m Wf) in H. inversion H. repeat split; reflexivity. Qed.

(* ---------------------------------------------------------------- C12: truncation *)
Lemma spec_load_trunc ps : forall big n off m m',
  spec_load big off ps m = Loaded m' -> off + plen ps <= big -> off <= n -> n < off + plen ps ->
  spec_load n off ps m = Refused.
Proof.
  induction ps as [|[ty d] r IH]; intros big n off m m' HB Hbig Hoff Hn.
  - rewrite plen_nil in Hn. lia.
  - rewrite plen_cons in *. cbn [spec_load] in *.
    destruct (N.ltb_spec big (off + len d)); [lia|].
    destruct (N.ltb_spec n (off + len d)); [reflexivity|].
    destruct (apply_section ty d (len d) (add_sec m (ty, off, len d))) as [m2| | |]; try discriminate.
    apply (IH big n (off + len d) m2 m' HB); lia.
Qed.

Lemma header_read m rest : wf_parts m ->
  let data := MAGIC ++ words_bytes (header_words m) ++ rest in
  header_of data = hdr_of_m m /\ skipn 32 data = rest /\ len data = 32 + len rest.
Proof.
  intros W data. pose proof (header_words_ok m W) as HW.
  assert (R : forall j, (j < 7)%nat -> rd32 data (4 + 4 * N.of_nat j) = nth j (header_words m) 0).
  { intros j Hj. unfold data. apply rd32_word; [exact HW|exact Hj|]. cbn [length MAGIC]. lia. }
  split; [|split].
  - unfold header_of, hdr_of_m.
    f_equal; [exact (R 1%nat ltac:(lia))|exact (R 2%nat ltac:(lia))|exact (R 3%nat ltac:(lia))
             |exact (R 4%nat ltac:(lia))|exact (R 5%nat ltac:(lia))|exact (R 6%nat ltac:(lia))].
  - unfold data. rewrite (app_assoc MAGIC). apply skipn_app_len. apply hdr32_length.
  - unfold data. rewrite (app_assoc MAGIC), len_app. unfold len at 1. rewrite hdr32_length. reflexivity.
Qed.

Theorem load_rejects_truncation0 m n : wf_module m -> (n < length (serialize m))%nat ->
  deserialize0 (firstn n (serialize m)) = Refused.
Proof.
  intros Wf Hn. pose proof (wf_unpack m Wf) as W.
  assert (Ln : len (firstn n (serialize m)) = N.of_nat n) by (unfold len; rewrite firstn_length; f_equal; lia).
  destruct (Nat.lt_ge_cases n 32) as [H32|H32].
  { apply load_rejects_short0. rewrite Ln. lia. }
  assert (LF : length (serialize m) = N.to_nat (data_offset (payloads m) + plen (payloads m)))
    by (rewrite <- serialize_len; symmetry; apply to_nat_len).
  assert (E1 : firstn n (serialize m) =
               MAGIC ++ words_bytes (header_words m) ++ firstn (n - 32) (dir_bytes_of m ++ pay_bytes_of m)).
  { rewrite serialize_split, (app_assoc MAGIC (words_bytes (header_words m)) (dir_bytes_of m ++ pay_bytes_of m)).
    rewrite firstn_app_ge by (apply hdr32_le; exact H32).
    pose proof (hdr32_length m) as HL. cbv beta in HL. rewrite HL, <- app_assoc. reflexivity. }
  rewrite E1 in *. clear E1.
  destruct (deserialize_inv (MAGIC ++ words_bytes (header_words m) ++ firstn (n - 32) (dir_bytes_of m ++ pay_bytes_of m)))
    as [E|[(_ & _ & _ & _ & C & D) _]]; [exact E|].
  destruct (header_read m (firstn (n - 32) (dir_bytes_of m ++ pay_bytes_of m)) W) as (Hh & Hs & Hl).
  rewrite Hh in *. cbn [h_nsec h_crc hdr_of_m] in *. rewrite Hs in C.
  pose proof (payloads_count m) as P5.
  rewrite (u32_small (len (payloads m) * 12)) in D by (unfold len; pow_norm; lia).
  rewrite u32_small in D by (unfold len; pow_norm; lia).
  (* the directory is complete *)
  assert (Hdir : (12 * length (payloads m) <= n - 32)%nat).
  { rewrite Ln in D. unfold len in D. lia. }
  set (X := firstn (n - 32 - 12 * length (payloads m)) (pay_bytes_of m)).
  assert (E2 : firstn (n - 32) (dir_bytes_of m ++ pay_bytes_of m) = dir_bytes_of m ++ X).
  { rewrite firstn_app_ge by (rewrite dir_bytes_length; exact Hdir). rewrite dir_bytes_length. reflexivity. }
  rewrite E2 in *. clear E2.
  assert (LX : length X = (n - 32 - 12 * length (payloads m))%nat).
  { unfold X. rewrite firstn_length. unfold pay_bytes_of in *. unfold plen, data_offset, len in LF. lia. }
  rewrite (deserialize_master m X (length X) W); [| |left; reflexivity|exact C].
  - apply (spec_load_trunc (payloads m) (data_offset (payloads m) + plen (payloads m)) _ _ _ (loaded_of (hdr_of_m m) (data_offset (payloads m)) m)).
    + apply spec_load_payloads; [exact W|apply data_offset_ge|apply (wp_size m W)|apply N.le_refl].
    + apply N.le_refl.
    + rewrite len_file. lia.
    + rewrite len_file. assert (len X = N.of_nat (n - 32 - 12 * length (payloads m))) by (unfold len; rewrite LX; reflexivity).
      unfold data_offset, plen, len in *. lia.
  - rewrite LX. unfold X. rewrite firstn_firstn. f_equal. lia.
Qed.

(* ---------------------------------------------------------------- serialized bytes are bytes *)
Lemma bytes_ok_flat_map {A} (f : A -> list byte) l : Forall (fun x => bytes_ok (f x)) l -> bytes_ok (flat_map f l).
Proof.
  induction 1 as [|x r Hx Hr IH]; [constructor|]. cbn [flat_map]. apply bytes_ok_app. split; assumption.
Qed.
Lemma words_bytes_ok ws : bytes_ok (words_bytes ws).
Proof. apply bytes_ok_flat_map. apply Forall_forall. intros x _. apply le_bytes_ok. Qed.
Lemma bytes_ok_repeat0 n : bytes_ok (repeat 0 n).
Proof. induction n; constructor; [reflexivity|assumption]. Qed.

Lemma payloads_ok m : wf_parts m -> bytes_ok (pay_bytes_of m).
Proof.
  intros [_ _ _ Hs Hc _ _ Hi _]. unfold pay_bytes_of, payloads. rewrite !flat_map_app.
  repeat (apply bytes_ok_app; split); unfold opt_sec;
    match goal with |- context [is_nil ?l] => destruct (is_nil l) end; try constructor; cbn [flat_map snd]; rewrite app_nil_r.
  - apply bytes_ok_flat_map. eapply Forall_impl; [|exact Hs]. intros s Hs'. unfold ser_string.
    apply bytes_ok_app. split; [apply le_bytes_ok|apply bytes_okb_spec; exact Hs'].
  - apply bytes_okb_spec. exact Hc.
  - apply bytes_ok_flat_map. apply Forall_forall. intros f _. unfold ser_fn.
    repeat (apply bytes_ok_app; split); apply le_bytes_ok.
  - apply bytes_ok_flat_map. apply Forall_forall. intros d _. unfold ser_dbg.
    repeat (apply bytes_ok_app; split); apply le_bytes_ok.
  - apply bytes_ok_flat_map. eapply Forall_impl; [|exact Hi]. intros i Hw. unfold ser_imp.
    repeat (apply bytes_ok_app; split); try apply le_bytes_ok.
    unfold ser_params. destruct (im_params i) eqn:E; [apply bytes_ok_repeat0|].
    rewrite <- E. apply bytes_okb_spec. unfold wf_imp in Hw. rewrite !andb_true_iff in Hw. tauto.
Qed.

Lemma body_ok m : wf_parts m -> bytes_ok (body_bytes (payloads m)).
Proof. intros W. unfold body_bytes. apply bytes_ok_app. split; [apply words_bytes_ok|apply (payloads_ok m W)]. Qed.

Theorem serialize_ok m : wf_module m -> bytes_ok (serialize m).
Proof.
  intros Wf. pose proof (wf_unpack m Wf) as W. unfold serialize.
  apply bytes_ok_app. split; [repeat constructor|]. apply bytes_ok_app. split; [apply words_bytes_ok|apply body_ok; exact W].
Qed.

(* ---------------------------------------------------------------- C12: an appended tail that the loader does not see *)
Theorem load_accepts_steered_extension0 m : wf_module m ->
  deserialize0 (serialize m ++ steer_file (serialize m)) = Loaded (stamp m).
Proof.
  intros Wf. pose proof (wf_unpack m Wf) as W.
  assert (Hb : skipn 32 (serialize m) = body_bytes (payloads m)).
  { unfold serialize. rewrite (app_assoc MAGIC). apply skipn_app_len. apply hdr32_length. }
  unfold steer_file. rewrite Hb.
  set (t := steer_tail crc_poly crc_init (body_bytes (payloads m))).
  destruct (steer_tail_keeps_crc crc_poly poly_lt_gen poly_b31_gen crc_init crc_xorout (body_bytes (payloads m))
              init_lt_gen (body_ok m W)) as (Hc & Ht & _).
  fold t in Hc, Ht.
  rewrite serialize_split, <- !app_assoc.
  rewrite (deserialize_master m (pay_bytes_of m ++ t) (length (pay_bytes_of m)) W).
  - rewrite len_file.
    rewrite (spec_load_payloads m (hdr_of_m m) _ _ W (data_offset_ge _) (wp_size m W)); [reflexivity|].
    rewrite len_app. unfold plen, pay_bytes_of. lia.
  - rewrite firstn_app_len by reflexivity. rewrite firstn_all. reflexivity.
  - right. apply Nat.le_refl.
  - rewrite app_assoc. rewrite !crc32_eq. exact Hc.
Qed.

(* ---------------------------------------------------------------- C12: all or nothing *)
Lemma apply_section_keeps ty sec sz m m2 : apply_section ty sec sz m = POk m2 ->
  m_hdr m2 = m_hdr m /\ m_secs m2 = m_secs m.
Proof.
  unfold apply_section.
  repeat match goal with
         | |- context [if ?c then _ else _] => destruct c
         | |- context [pmap _ ?r] => destruct r; cbn [pmap]
         end;
    intros HH; inversion HH; split; reflexivity.
Qed.

Definition sec_checked (size : N) (e : sec_entry) : Prop := u32 (snd (fst e) + snd e) <= size.

(* ---------------------------------------------------------------- C12: a table section that loads consists of whole entries *)
Lemma firstn_plus {A} (a b : nat) : forall l : list A, firstn (a + b) l = firstn a l ++ firstn b (skipn a l).
Proof. induction a as [|a IH]; intros [|x l]; cbn; try reflexivity; [destruct b; reflexivity|]. f_equal. apply IH. Qed.

Lemma skipn_add {A} (a b : nat) : forall l : list A, skipn (a + b) l = skipn b (skipn a l).
Proof. induction a as [|a IH]; intros [|x l]; cbn; try reflexivity; [destruct b; reflexivity|apply IH]. Qed.
Lemma skipn_to_nat_add data off w : skipn (N.to_nat (off + N.of_nat w)) data = skipn w (skipn (N.to_nat off) data) :> list byte.
Proof. rewrite <- skipn_add. f_equal. lia. Qed.

Definition sumw (ws : list nat) : nat := fold_right Nat.add 0%nat ws.

(* re-writing the fields just read gives back the bytes they were read from *)
Lemma ser_rd_fields ws : forall (data : list byte) off, bytes_ok data ->
  (N.to_nat off + sumw ws <= length data)%nat ->
  ser_fields (combine ws (rd_fields ws data off)) = firstn (sumw ws) (skipn (N.to_nat off) data).
Proof.
  induction ws as [|w r IH]; intros data off Hok Hlen; [reflexivity|].
  cbn [rd_fields combine ser_fields flat_map fst snd sumw fold_right] in *. fold (sumw r) in *.
  fold (ser_fields (combine r (rd_fields r data (off + N.of_nat w)))).
  rewrite IH by (try exact Hok; lia). rewrite skipn_to_nat_add, firstn_plus. f_equal.
  unfold rd. set (X := firstn w (skipn (N.to_nat off) data)).
  assert (LX : length X = w) by (unfold X; rewrite firstn_length, skipn_length; lia).
  rewrite <- LX at 1. apply le_bytes_of_le. unfold X. apply bytes_ok_firstn, bytes_ok_skipn, Hok.
Qed.

Lemma skipn_split (data : list byte) off k : skipn (N.to_nat off) data = firstn k (skipn (N.to_nat off) data) ++ skipn (N.to_nat (off + N.of_nat k)) data.
Proof. rewrite skipn_to_nat_add. symmetry. apply firstn_skipn. Qed.

Lemma fits_inv e limit : e < 2 ^ 32 \/ limit < 2 ^ 32 -> fits e limit = Fits -> e <= limit /\ u32 e = e.
Proof.
  intros B. unfold fits. destruct (N.ltb_spec limit (u32 e)); [discriminate|].
  destruct (N.ltb_spec limit e); [discriminate|]. intros _. split; [assumption|]. apply u32_small. lia.
Qed.

Lemma loop_end_inv {A} pos sz (acc r : A) : loop_end pos sz acc = POk r -> pos = sz /\ r = acc.
Proof. unfold loop_end. destruct (N.eqb_spec pos sz); [|discriminate]. intros H; inversion H. split; congruence. Qed.

Lemma skipn_len_nil (sec : list byte) : skipn (N.to_nat (len sec)) sec = [].
Proof. rewrite to_nat_len. apply skipn_all. Qed.

Lemma parse_functions_complete fuel : forall sec pos acc r, bytes_ok sec -> len sec < 2 ^ 32 ->
  parse_functions fuel sec (len sec) pos acc = POk r -> pos <= len sec ->
  exists fs, skipn (N.to_nat pos) sec = ser_fns fs /\ r = acc ++ fs.
Proof.
  induction fuel as [|fuel IH]; intros sec pos acc r Hok Hlt H Hpos; [discriminate|].
  cbn [parse_functions] in H.
  destruct (fits (pos + 18) (len sec)) eqn:F; try discriminate.
  - destruct (fits_inv _ _ (or_intror Hlt) F) as [Hle Hu]. rewrite Hu in H.
    destruct (IH _ _ _ _ Hok Hlt H Hle) as (fs & E1 & E2).
    eexists (_ :: fs). split; [|rewrite E2, <- app_assoc; reflexivity].
    change (ser_fns (?e :: fs)) with (ser_fn e ++ ser_fns fs). rewrite <- E1.
    rewrite (skipn_split sec pos 18). change (N.of_nat 18) with 18. f_equal.
    pose proof (ser_rd_fields [4;2;4;4;2;2]%nat sec pos Hok) as R.
    cbn [sumw fold_right Nat.add] in R. rewrite <- R by (unfold len in Hle; lia).
    cbn [rd_fields combine]. change (N.of_nat 4) with 4. change (N.of_nat 2) with 2.
    rewrite <- !N.add_assoc. change (4 + 2) with 6. change (4 + (2 + 4)) with 10. change (4 + (2 + (4 + 4))) with 14.
    change (4 + (2 + (4 + (4 + 2)))) with 16.
    rewrite ser_fn_fields. reflexivity.
  - apply loop_end_inv in H. destruct H as [-> ->]. exists []. rewrite skipn_len_nil, app_nil_r. split; reflexivity.
Qed.

Lemma parse_debug_complete fuel : forall sec pos acc r, bytes_ok sec -> len sec < 2 ^ 32 ->
  parse_debug fuel sec (len sec) pos acc = POk r -> pos <= len sec ->
  exists ds, skipn (N.to_nat pos) sec = ser_dbgs ds /\ r = acc ++ ds.
Proof.
  induction fuel as [|fuel IH]; intros sec pos acc r Hok Hlt H Hpos; [discriminate|].
  cbn [parse_debug] in H.
  destruct (fits (pos + 8) (len sec)) eqn:F; try discriminate.
  - destruct (fits_inv _ _ (or_intror Hlt) F) as [Hle Hu]. rewrite Hu in H.
    destruct (IH _ _ _ _ Hok Hlt H Hle) as (ds & E1 & E2).
    eexists (_ :: ds). split; [|rewrite E2, <- app_assoc; reflexivity].
    change (ser_dbgs (?e :: ds)) with (ser_dbg e ++ ser_dbgs ds). rewrite <- E1.
    rewrite (skipn_split sec pos 8). change (N.of_nat 8) with 8. f_equal.
    pose proof (ser_rd_fields [4;4]%nat sec pos Hok) as R.
    cbn [sumw fold_right Nat.add] in R. rewrite <- R by (unfold len in Hle; lia).
    cbn [rd_fields combine]. change (N.of_nat 4) with 4.
    rewrite ser_dbg_fields. reflexivity.
  - apply loop_end_inv in H. destruct H as [-> ->]. exists []. rewrite skipn_len_nil, app_nil_r. split; reflexivity.
Qed.

Lemma parse_strings_complete fuel : forall sec pos acc r, bytes_ok sec -> len sec < 2 ^ 32 ->
  parse_strings fuel sec (len sec) pos acc = POk r -> pos <= len sec ->
  exists ss, skipn (N.to_nat pos) sec = ser_strings ss /\ r = fold_left add_string ss acc.
Proof.
  induction fuel as [|fuel IH]; intros sec pos acc r Hok Hlt H Hpos; [discriminate|].
  cbn [parse_strings] in H.
  destruct (fits (pos + 4) (len sec)) eqn:F; try discriminate.
  - destruct (fits_inv _ _ (or_intror Hlt) F) as [Hle Hu]. rewrite Hu in H.
    set (slen := rd32 sec pos) in *.
    destruct (N.ltb_spec (len sec - (pos + 4)) slen) as [|Hs]; [discriminate|].
    rewrite u32_small in H by lia.
    destruct (IH _ _ _ _ Hok Hlt H ltac:(lia)) as (ss & E1 & E2).
    exists (slice sec (pos + 4) slen :: ss). split; [|exact E2].
    assert (Lsl : length (slice sec (pos + 4) slen) = N.to_nat slen).
    { unfold slice. rewrite firstn_length, skipn_length. unfold len in *. lia. }
    change (ser_strings (?e :: ss)) with (ser_string e ++ ser_strings ss). unfold ser_string.
    rewrite <- E1, <- app_assoc.
    rewrite (skipn_split sec pos 4). change (N.of_nat 4) with 4. f_equal.
    + pose proof (ser_rd_fields [4]%nat sec pos Hok) as R.
      cbn [sumw fold_right Nat.add] in R. rewrite <- R by (unfold len in Hle; lia).
      cbn [rd_fields combine ser_fields flat_map fst snd]. rewrite app_nil_r. unfold le32. f_equal.
      unfold len. rewrite Lsl, N2Nat.id. reflexivity.
    + replace (pos + 4 + slen) with (pos + 4 + N.of_nat (N.to_nat slen)) by lia.
      rewrite (skipn_split sec (pos + 4) (N.to_nat slen)). reflexivity.
  - apply loop_end_inv in H. destruct H as [-> ->]. exists []. rewrite skipn_len_nil. split; reflexivity.
Qed.

Lemma parse_imports_complete fuel : forall sec pos acc r, bytes_ok sec -> len sec < 2 ^ 32 ->
  parse_imports fuel sec (len sec) pos acc = POk r -> pos <= len sec ->
  exists is, skipn (N.to_nat pos) sec = ser_imps is /\ r = acc ++ is /\ Forall (fun i => len (im_params i) = im_pc i) is.
Proof.
  induction fuel as [|fuel IH]; intros sec pos acc r Hok Hlt H Hpos; [discriminate|].
  cbn [parse_imports] in H.
  destruct (fits (pos + 11) (len sec)) eqn:F; try discriminate.
  - destruct (fits_inv _ _ (or_intror Hlt) F) as [Hle Hu]. rewrite Hu in H.
    set (pc := rd16 sec (pos + 8)) in *.
    destruct (fits (pos + 11 + pc) (len sec)) eqn:F2; try discriminate.
    destruct (fits_inv _ _ (or_intror Hlt) F2) as [Hle2 Hu2]. rewrite Hu2 in H.
    destruct (IH _ _ _ _ Hok Hlt H Hle2) as (is & E1 & E2 & E3).
    assert (Lsl : length (slice sec (pos + 11) pc) = N.to_nat pc).
    { unfold slice. rewrite firstn_length, skipn_length. unfold len in *. lia. }
    eexists (_ :: is). split; [|split; [rewrite E2, <- app_assoc; reflexivity|]].
    + change (ser_imps (?e :: is)) with (ser_imp e ++ ser_imps is). rewrite ser_imp_fields. cbn [im_pc im_params imp_fields im_mod im_fn im_ret].
      rewrite <- E1, <- app_assoc.
      rewrite (skipn_split sec pos 11). change (N.of_nat 11) with 11. f_equal.
      * pose proof (ser_rd_fields [4;4;2;1]%nat sec pos Hok) as R.
        cbn [sumw fold_right Nat.add] in R. rewrite <- R by (unfold len in Hle; lia).
        cbn [rd_fields combine]. change (N.of_nat 4) with 4. change (N.of_nat 2) with 2.
        rewrite <- !N.add_assoc. change (4 + 4) with 8. change (4 + (4 + 2)) with 10. reflexivity.
      * replace (pos + 11 + pc) with (pos + 11 + N.of_nat (N.to_nat pc)) by lia.
        rewrite (skipn_split sec (pos + 11) (N.to_nat pc)). f_equal.
        fold pc.
        assert (SP : ser_params pc (slice sec (pos + 11) pc) = slice sec (pos + 11) pc).
        { unfold ser_params. destruct (slice sec (pos + 11) pc) eqn:Es; [|reflexivity].
          simpl in Lsl. replace (N.to_nat pc) with 0%nat by lia. reflexivity. }
        rewrite SP. reflexivity.
    + constructor; [|exact E3]. cbn [im_params im_pc]. fold pc. unfold len. rewrite Lsl. apply N2Nat.id.
  - apply loop_end_inv in H. destruct H as [-> ->]. exists []. rewrite skipn_len_nil, app_nil_r. repeat split. constructor.
Qed.

(* what "complete" means for the bytes of one section, by section type *)
Definition table_complete (ty : N) (sec : list byte) : Prop :=
  if ty =? SEC_STRINGS then exists ss, sec = ser_strings ss
  else if ty =? SEC_FUNCTIONS then exists fs, sec = ser_fns fs
  else if ty =? SEC_DEBUG then exists ds, sec = ser_dbgs ds
  else if ty =? SEC_IMPORTS then exists is, sec = ser_imps is /\ Forall (fun i => len (im_params i) = im_pc i) is
  else True.
(* the section lies inside the file and is a sequence of whole entries with nothing left over *)
Definition section_complete (data : list byte) (e : sec_entry) : Prop :=
  snd (fst e) + snd e <= len data /\ table_complete (fst (fst e)) (slice data (snd (fst e)) (snd e)).

Lemma apply_section_complete ty sec m m2 : bytes_ok sec -> len sec < 2 ^ 32 ->
  apply_section ty sec (len sec) m = POk m2 -> table_complete ty sec.
Proof.
  intros Hok Hlt. unfold apply_section, table_complete.
  destruct (N.eqb_spec ty SEC_STRINGS) as [E|_].
  { destruct (parse_strings _ _ _ _ _) eqn:P; cbn [pmap]; try discriminate. intros _.
    destruct (parse_strings_complete _ _ _ _ _ Hok Hlt P (N.le_0_l _)) as (ss & Es & _). exists ss. exact Es. }
  destruct (N.eqb_spec ty SEC_CODE) as [E|_]; [subst ty; intros _; exact I|].
  destruct (N.eqb_spec ty SEC_FUNCTIONS) as [E|_].
  { destruct (parse_functions _ _ _ _ _) eqn:P; cbn [pmap]; try discriminate. intros _.
    destruct (parse_functions_complete _ _ _ _ _ Hok Hlt P (N.le_0_l _)) as (fs & Es & _). exists fs. exact Es. }
  destruct (N.eqb_spec ty SEC_DEBUG) as [E|_].
  { destruct (parse_debug _ _ _ _ _) eqn:P; cbn [pmap]; try discriminate. intros _.
    destruct (parse_debug_complete _ _ _ _ _ Hok Hlt P (N.le_0_l _)) as (ds & Es & _). exists ds. exact Es. }
  destruct (N.eqb_spec ty SEC_IMPORTS) as [E|_].
  { destruct (parse_imports _ _ _ _ _) eqn:P; cbn [pmap]; try discriminate. intros _.
    destruct (parse_imports_complete _ _ _ _ _ Hok Hlt P (N.le_0_l _)) as (is & Es & _ & Ef). exists is. split; assumption. }
  intros _. exact I.
Qed.

Lemma load_sections_basic n : forall i data size m m', load_sections n i data size m = Loaded m' ->
  m_hdr m' = m_hdr m /\ exists es, m_secs m' = m_secs m ++ es /\ length es = n /\ Forall (sec_checked size) es.
Proof.
  induction n as [|n IH]; intros i data size m m' H.
  - inversion H. split; [reflexivity|]. exists []. rewrite app_nil_r. repeat split. constructor.
  - cbn [load_sections] in H.
    set (ty := rd32 data (32 + i * 12)) in *. set (off := rd32 data (32 + i * 12 + 4)) in *.
    set (sz := rd32 data (32 + i * 12 + 8)) in *.
    destruct (N.ltb_spec size (off + sz)) as [|Hfit]; [discriminate|].
    destruct (apply_section ty (slice data off sz) sz (add_sec m (ty, off, sz))) as [m2| | |] eqn:A; try discriminate.
    destruct (apply_section_keeps _ _ _ _ _ A) as [K1 K2].
    destruct (IH _ _ _ _ _ H) as [H1 (es & H2 & H3 & H4)].
    split; [rewrite H1, K1; reflexivity|].
    exists ((ty, off, sz) :: es). rewrite H2, K2. cbn [add_sec m_secs]. rewrite <- app_assoc.
    repeat split; [simpl; lia|]. constructor; [|exact H4].
    unfold sec_checked, u32. cbn [fst snd]. assert (U : (off + sz) mod 4294967296 <= off + sz) by (apply N.mod_le; discriminate). lia.
Qed.

Lemma rd32_lt (data : list byte) off : bytes_ok data -> rd32 data off < 2 ^ 32.
Proof.
  intros Hok. unfold rd32, rd. set (X := firstn 4 (skipn (N.to_nat off) data)).
  assert (B : of_le X < 256 ^ N.of_nat (length X)) by (apply of_le_bound; unfold X; apply bytes_ok_firstn, bytes_ok_skipn, Hok).
  apply N.lt_le_trans with (256 ^ N.of_nat (length X)); [exact B|].
  change (2 ^ 32) with (256 ^ 4). apply N.pow_le_mono_r; [discriminate|].
  unfold X. rewrite firstn_length. lia.
Qed.

Lemma slice_len (data : list byte) off sz : off + sz <= len data -> len (slice data off sz) = sz.
Proof. intros H. unfold len, slice in *. rewrite firstn_length, skipn_length. lia. Qed.

Lemma u32_le x : u32 x <= x.
Proof. unfold u32. apply N.mod_le. discriminate. Qed.

Lemma load_sections_all n : forall i data size m m', bytes_ok data -> size = len data ->
  load_sections n i data size m = Loaded m' ->
  m_hdr m' = m_hdr m /\ exists es, m_secs m' = m_secs m ++ es /\ length es = n /\
  Forall (sec_checked size) es /\ Forall (section_complete data) es.
Proof.
  induction n as [|n IH]; intros i data size m m' Hok Hsz H.
  - inversion H. split; [reflexivity|]. exists []. rewrite app_nil_r. repeat split; constructor.
  - cbn [load_sections] in H.
    set (ty := rd32 data (32 + i * 12)) in *. set (off := rd32 data (32 + i * 12 + 4)) in *.
    set (sz := rd32 data (32 + i * 12 + 8)) in *.
    destruct (N.ltb_spec size (off + sz)) as [|Hfit]; [discriminate|].
    destruct (apply_section ty (slice data off sz) sz (add_sec m (ty, off, sz))) as [m2| | |] eqn:A; try discriminate.
    destruct (apply_section_keeps _ _ _ _ _ A) as [K1 K2].
    destruct (IH _ _ _ _ _ Hok Hsz H) as [H1 (es & H2 & H3 & H4 & H5)].
    split; [rewrite H1, K1; reflexivity|].
    exists ((ty, off, sz) :: es). rewrite H2, K2. cbn [add_sec m_secs]. rewrite <- app_assoc.
    repeat split; [simpl; lia| |].
    + constructor; [|exact H4]. unfold sec_checked. cbn [fst snd]. pose proof (u32_le (off + sz)). lia.
    + constructor; [|exact H5]. unfold section_complete. cbn [fst snd]. rewrite <- Hsz. split; [exact Hfit|].
      assert (Ls : len (slice data off sz) = sz) by (apply slice_len; rewrite <- Hsz; exact Hfit).
      rewrite <- Ls in A at 2.
      apply (apply_section_complete ty _ (add_sec m (ty, off, sz)) m2); [unfold slice; apply bytes_ok_firstn, bytes_ok_skipn, Hok| |exact A].
      rewrite Ls. apply rd32_lt. exact Hok.
Qed.

(* a module comes back only if magic, version, section count, checksum and directory bound were right AND every
   one of the announced sections passed its bounds check; in every other case nothing is returned *)
Theorem load_all_or_nothing0 data m : deserialize0 data = Loaded m ->
  pre_checks data /\ m_hdr m = header_of data /\
  length (m_secs m) = N.to_nat (h_nsec (header_of data)) /\ Forall (sec_checked (len data)) (m_secs m).
Proof.
  intros H. destruct (deserialize_inv data) as [E|[P E]]; [rewrite E in H; discriminate|].
  rewrite E in H. destruct (load_sections_basic _ _ _ _ _ _ H) as [H1 (es & H2 & H3 & H4)].
  cbn [set_hdr empty_module m_hdr m_secs app] in *.
  split; [exact P|]. split; [exact H1|]. rewrite H2. split; assumption.
Qed.

(* a loaded file's sections are complete: each lies inside the file, every entry lies inside its section and no byte
   of a table section is left over (the section bytes ARE the serialisation of a list of entries) *)
Theorem load_complete_sections0 data m : bytes_ok data -> deserialize0 data = Loaded m ->
  Forall (section_complete data) (m_secs m).
Proof.
  intros Hok H. destruct (deserialize_inv data) as [E|[P E]]; [rewrite E in H; discriminate|].
  rewrite E in H. destruct (load_sections_all _ _ _ _ _ _ Hok eq_refl H) as [_ (es & H2 & _ & _ & H5)].
  cbn [set_hdr empty_module m_secs app] in H2. rewrite H2. exact H5.
Qed.

Theorem extension_refuted_general0 m : wf_module m ->
  length (steer_file (serialize m)) = 4%nat /\
  deserialize0 (serialize m ++ steer_file (serialize m)) = Loaded (stamp m).
Proof.
  intros W. split; [|exact (load_accepts_steered_extension0 m W)].
  unfold steer_file, steer_tail. apply le_bytes_length.
Qed.

(* ---------------------------------------------------------------- the API keeps the string pool duplicate free *)
Lemma nodup_snoc ss : forall s, nodup_strings ss = true -> mem_string s ss = false -> nodup_strings (ss ++ [s]) = true.
Proof.
  induction ss as [|a ss IH]; intros s Hn Hm; [reflexivity|].
  cbn [app nodup_strings mem_string] in *. apply andb_true_iff in Hn. destruct Hn as [H1 H2].
  apply orb_false_iff in Hm. destruct Hm as [M1 M2].
  apply andb_true_iff. split; [|apply IH; assumption].
  apply negb_true_iff. rewrite mem_string_app. apply negb_true_iff in H1. rewrite H1. cbn [mem_string orb].
  rewrite orb_false_r, bytes_eqb_sym. exact M1.
Qed.

Lemma add_string_nodup ss s : nodup_strings ss = true -> nodup_strings (add_string ss s) = true.
Proof.
  intros H. unfold add_string. destruct (mem_string s ss) eqn:E; [exact H|]. apply nodup_snoc; assumption.
Qed.

Lemma apply_op_nodup m o : nodup_strings (m_strings m) = true -> nodup_strings (m_strings (apply_op m o)) = true.
Proof. intros H. destruct o; cbn; try exact H. apply add_string_nodup. exact H. Qed.

Theorem build_nodup flags entry ops : nodup_strings (m_strings (build flags entry ops)) = true.
Proof.
  unfold build. generalize (set_hdr empty_module (mkHdr flags entry 0 0 0 0)) (eq_refl : nodup_strings (m_strings (set_hdr empty_module (mkHdr flags entry 0 0 0 0))) = true).
  induction ops as [|o r IH]; intros m Hm; [exact Hm|]. cbn [fold_left]. apply IH. apply apply_op_nodup. exact Hm.
Qed.


(* ================================================================ the loader with the optional trailing-bytes check *)
Lemma deserialize_refused data : deserialize0 data = Refused -> deserialize data = Refused.
Proof. intros H. unfold deserialize. rewrite H. reflexivity. Qed.

Lemma deserialize_loaded data m : deserialize data = Loaded m -> deserialize0 data = Loaded m.
Proof.
  unfold deserialize. destruct (deserialize0 data) as [m0| | |]; try discriminate.
  destruct (reject_trailing && _); [discriminate|]. intros H. exact H.
Qed.

Lemma deserialize_loaded_end data m : deserialize data = Loaded m -> reject_trailing = true ->
  data_end (u32 (32 + u32 (h_nsec (m_hdr m) * 12))) (m_secs m) = len data.
Proof.
  intros H R. pose proof (deserialize_loaded data m H) as H0. unfold deserialize in H. rewrite H0, R in H.
  cbn [andb] in H. destruct (N.eqb_spec (data_end (u32 (32 + u32 (h_nsec (m_hdr m) * 12))) (m_secs m)) (len data)) as [E|E];
    [exact E|discriminate].
Qed.

Lemma data_end_layout ps : forall off acc, acc <= off -> off + plen ps < 2 ^ 32 ->
  data_end acc (layout off ps) = if is_nil ps then acc else off + plen ps.
Proof.
  induction ps as [|[ty d] r IH]; intros off acc Ha Hs; [reflexivity|].
  rewrite plen_cons in *. unfold data_end in *. cbn [layout fold_left fst snd is_nil].
  rewrite u32_small by lia.
  set (acc' := if acc <? off + len d then off + len d else acc).
  assert (Ea : acc' = off + len d) by (unfold acc'; destruct (N.ltb_spec acc (off + len d)); lia).
  rewrite Ea. rewrite IH by lia.
  destruct r as [|x r']; cbn [is_nil]; [rewrite plen_nil; lia|lia].
Qed.

Lemma data_end_stamp m : wf_parts m ->
  data_end (u32 (32 + u32 (h_nsec (m_hdr (stamp m)) * 12))) (m_secs (stamp m)) = len (serialize m).
Proof.
  intros W. pose proof (payloads_count m) as P5. pose proof (wp_size m W) as S.
  cbn [stamp m_hdr h_nsec m_secs].
  rewrite (u32_small (len (payloads m) * 12)) by (unfold len; pow_norm; lia).
  rewrite u32_small by (unfold len; pow_norm; lia).
  rewrite serialize_len.
  replace (32 + len (payloads m) * 12) with (data_offset (payloads m)) by (unfold data_offset; lia).
  rewrite data_end_layout by (try apply N.le_refl; exact S).
  destruct (payloads m); cbn [is_nil]; [rewrite plen_nil; lia|reflexivity].
Qed.

Lemma deserialize_of_stamp m data : wf_parts m -> deserialize0 data = Loaded (stamp m) ->
  deserialize data = if reject_trailing && negb (len (serialize m) =? len data) then Refused else Loaded (stamp m).
Proof. intros W H. unfold deserialize. rewrite H, (data_end_stamp m W). reflexivity. Qed.

(* ---- C10 *)
Theorem deserialize_serialize m : wf_module m -> deserialize (serialize m) = Loaded (stamp m).
Proof.
  intros Wf. rewrite (deserialize_of_stamp m _ (wf_unpack m Wf) (deserialize_serialize0 m Wf)).
  rewrite N.eqb_refl, andb_false_r. reflexivity.
Qed.

Theorem serialize_idempotent m m' : wf_module m -> deserialize (serialize m) = Loaded m' -> serialize m' = serialize m.
Proof. intros Wf H. rewrite (deserialize_serialize m Wf) in H. inversion H. apply serialize_stamp. Qed.

Theorem roundtrip_fields m m' : wf_module m -> deserialize (serialize m) = Loaded m' ->
  m_strings m' = m_strings m /\ m_funcs m' = m_funcs m /\ m_code m' = m_code m /\ m_debug m' = m_debug m /\
  m_imports m' = m_imports m /\ h_flags (m_hdr m') = h_flags (m_hdr m) /\ h_entry (m_hdr m') = h_entry (m_hdr m).
Proof. intros Wf H. rewrite (deserialize_serialize m Wf) in H. inversion H. repeat split; reflexivity. Qed.

(* ---- C12: refusals carry over *)
Theorem load_rejects_short data : len data < 32 -> deserialize data = Refused.
Proof. intros H. apply deserialize_refused, load_rejects_short0, H. Qed.
Theorem load_rejects_magic data : firstn 4 data <> MAGIC -> deserialize data = Refused.
Proof. intros H. apply deserialize_refused, load_rejects_magic0, H. Qed.
Theorem load_rejects_version data : rd32 data 4 <> VERSION -> deserialize data = Refused.
Proof. intros H. apply deserialize_refused, load_rejects_version0, H. Qed.
Theorem load_rejects_section_count data : MAX_SECTIONS < h_nsec (header_of data) -> deserialize data = Refused.
Proof. intros H. apply deserialize_refused, load_rejects_section_count0, H. Qed.

Theorem load_rejects_burst f f' m :
  deserialize f = Loaded m -> bytes_ok f -> bytes_ok f' ->
  firstn 32 f' = firstn 32 f -> burst_le32 (skipn 32 f) (skipn 32 f') ->
  deserialize f' = Refused.
Proof.
  intros HL Hok Hok' Hh Hb. apply deserialize_refused.
  exact (load_rejects_burst0 f f' m (deserialize_loaded f m HL) Hok Hok' Hh Hb).
Qed.

Theorem load_rejects_bytes4 hdr p x y q m :
  length hdr = 32%nat -> deserialize (hdr ++ p ++ x ++ q) = Loaded m ->
  bytes_ok (hdr ++ p ++ x ++ q) -> bytes_ok y -> length x = length y -> (length x <= 4)%nat -> x <> y ->
  deserialize (hdr ++ p ++ y ++ q) = Refused.
Proof.
  intros Hh HL Hok Hy HLn H4 Hne. apply deserialize_refused.
  exact (load_rejects_bytes40 hdr p x y q m Hh (deserialize_loaded _ m HL) Hok Hy HLn H4 Hne).
Qed.

Theorem load_rejects_bitflip hdr p x q k m :
  length hdr = 32%nat -> deserialize (hdr ++ p ++ [x] ++ q) = Loaded m -> bytes_ok (hdr ++ p ++ [x] ++ q) -> k < 8 ->
  deserialize (hdr ++ p ++ [N.lxor x (2 ^ k)] ++ q) = Refused.
Proof.
  intros Hh HL Hok Hk. apply deserialize_refused.
  exact (load_rejects_bitflip0 hdr p x q k m Hh (deserialize_loaded _ m HL) Hok Hk).
Qed.

Theorem load_rejects_truncation m n : wf_module m -> (n < length (serialize m))%nat ->
  deserialize (firstn n (serialize m)) = Refused.
Proof. intros Wf Hn. apply deserialize_refused, load_rejects_truncation0; assumption. Qed.

Theorem load_all_or_nothing data m : deserialize data = Loaded m ->
  pre_checks data /\ m_hdr m = header_of data /\
  length (m_secs m) = N.to_nat (h_nsec (header_of data)) /\ Forall (sec_checked (len data)) (m_secs m).
Proof. intros H. exact (load_all_or_nothing0 data m (deserialize_loaded data m H)). Qed.

(* ---- C12: appended tails.  Whatever follows a serialized module, the pinned loader either refuses (checksum) or
   returns exactly the module, never anything else *)
Lemma ext_loaded0 m tail : wf_module m ->
  crc32 (skipn 32 (serialize m ++ tail)) = crc32 (body_bytes (payloads m)) ->
  deserialize0 (serialize m ++ tail) = Loaded (stamp m).
Proof.
  intros Wf HC. pose proof (wf_unpack m Wf) as W.
  rewrite serialize_split, <- !app_assoc in *.
  assert (Hs : skipn 32 (MAGIC ++ words_bytes (header_words m) ++ dir_bytes_of m ++ pay_bytes_of m ++ tail)
               = dir_bytes_of m ++ pay_bytes_of m ++ tail).
  { rewrite (app_assoc MAGIC). apply skipn_app_len. apply hdr32_length. }
  rewrite Hs in HC.
  rewrite (deserialize_master m (pay_bytes_of m ++ tail) (length (pay_bytes_of m)) W).
  - rewrite len_file.
    rewrite (spec_load_payloads m (hdr_of_m m) _ _ W (data_offset_ge _) (wp_size m W)); [reflexivity|].
    rewrite len_app. unfold plen, pay_bytes_of. lia.
  - rewrite firstn_app_len by reflexivity. rewrite firstn_all. reflexivity.
  - right. apply Nat.le_refl.
  - exact HC.
Qed.

Lemma ext_cases0 m tail : wf_module m ->
  deserialize0 (serialize m ++ tail) = Refused \/ deserialize0 (serialize m ++ tail) = Loaded (stamp m).
Proof.
  intros Wf. pose proof (wf_unpack m Wf) as W.
  destruct (deserialize_inv (serialize m ++ tail)) as [E|[(_ & _ & _ & _ & C & _) _]]; [left; exact E|].
  right. apply ext_loaded0; [exact Wf|].
  rewrite C. rewrite serialize_split, <- !app_assoc.
  destruct (header_read m (dir_bytes_of m ++ pay_bytes_of m ++ tail) W) as (Hh & _ & _).
  rewrite Hh. reflexivity.
Qed.

(* with the trailing-bytes check in the source: every non-empty tail is refused *)
Theorem load_rejects_extension m tail : reject_trailing = true -> wf_module m -> tail <> [] ->
  deserialize (serialize m ++ tail) = Refused.
Proof.
  intros R Wf Ht. destruct (ext_cases0 m tail Wf) as [E|E]; [apply deserialize_refused; exact E|].
  rewrite (deserialize_of_stamp m _ (wf_unpack m Wf) E), R. cbn [andb].
  destruct (N.eqb_spec (len (serialize m)) (len (serialize m ++ tail))) as [L|L]; [|reflexivity].
  exfalso. rewrite len_app in L. destruct tail; [contradiction Ht; reflexivity|]. rewrite len_cons in L. lia.
Qed.

(* without it (the pinned tree): every well-formed module has a four-byte tail that goes unnoticed *)
Theorem extension_refuted_general m : reject_trailing = false -> wf_module m ->
  length (steer_file (serialize m)) = 4%nat /\
  deserialize (serialize m ++ steer_file (serialize m)) = Loaded (stamp m).
Proof.
  intros R Wf. destruct (extension_refuted_general0 m Wf) as [L E]. split; [exact L|].
  rewrite (deserialize_of_stamp m _ (wf_unpack m Wf) E), R. reflexivity.
Qed.

Theorem load_complete_sections data m : bytes_ok data -> deserialize data = Loaded m ->
  Forall (section_complete data) (m_secs m).
Proof. intros Hok H. exact (load_complete_sections0 data m Hok (deserialize_loaded data m H)). Qed.
