(* C-arithmetic model of nvm_deserialize (src/nanoisa/nvm_format.c) for property C13.
   - every uint32_t expression is computed mod 2^32 exactly where the C computes it in uint32_t;
   - pointer arithmetic (data + sec_offset + pos) is NOT wrapped (64-bit pointers);
   - every read of the input buffer is checked against its real size: a read the C would perform
     outside [0,size) is the distinguished outcome LCrash (ASan: heap-buffer-overflow / SEGV);
   - the growth of the code buffer (nvm_append_code: capacity doubling in uint32_t) is modelled,
     capacity 0 after doubling (realloc(p,0): freed block kept in mod->code) is LCrash.
   The model is parametrised by [cfg]: each boolean says whether one candidate repair
   (proposed_fixes/C13-*.diff) is present in the source; [cfg_pinned] is the unchanged tree.
   The check compares the real code with the model at the cfg that tools/gen/gen_c13cfg.py reads
   off the current source (NV.gen.C13Cfg.cur).  Definitions only (extracted). *)
From Coq Require Import NArith ZArith List Bool.
From NV Require Import Base.Bytes.
Import ListNotations.
Local Open Scope N_scope.

Record cfg := {
  fx_sec    : bool;  (* nvm_format.c: section bounds test without u32 wrap *)
  fx_slen   : bool;  (* nvm_format.c: string length test without u32 wrap *)
  fx_fnrange: bool;  (* verifier.c: code_offset+code_length test without u32 wrap *)
  fx_div    : bool;  (* vm.c: INT64_MIN / -1 and % -1 guarded *)
  fx_substr : bool;  (* heap.c vm_string_substr: start+len test without u32 wrap *)
  fx_print  : bool;  (* value.c val_print: recursion depth bounded *)
  fx_arr    : bool;  (* vm.c OP_ARR_GET/SET/POP/REMOVE: out-of-range traps (C08) *)
  fx_npop   : bool;  (* transpiler: emitted array_pop aborts when dyn_array_pop_* reports failure (C08) *)
  fx_ipop   : bool;  (* eval.c builtin_array_pop: empty array is a runtime error (C08) *)
  fx_strict : bool   (* nvm_format.c: a table section must consist of whole entries (an overrunning entry or left-over bytes refuse the file) *)
}.
Definition cfg_pinned : cfg := Build_cfg false false false false false false false false false false.
Definition cfg_fixed  : cfg := Build_cfg true true true true true true true true true true.

Definition two32 : N := 4294967296.
Definition u32 (x : N) : N := x mod two32.
Definition add32 (a b : N) : N := u32 (a + b).
Definition mul32 (a b : N) : N := u32 (a * b).

(* ---- CRC32 exactly as nvm_crc32: table entry i = 8 shift/xor steps of i ---- *)
Definition crc_step (c : N) : N :=
  if N.odd c then N.lxor (N.shiftr c 1) 3988292384 (* 0xEDB88320 *) else N.shiftr c 1.
Definition crc_table (i : N) : N :=
  crc_step (crc_step (crc_step (crc_step (crc_step (crc_step (crc_step (crc_step i))))))).
Definition crc_feed (crc : N) (b : byte) : N :=
  N.lxor (N.shiftr crc 8) (crc_table (N.land (N.lxor crc b) 255)).
Definition crc32 (bs : list byte) : N := N.lxor (fold_left crc_feed bs 4294967295) 4294967295.

(* ---- checked reads of the input buffer ---- *)
Definition rd (data : list byte) (size off n : N) : option (list byte) :=
  if off + n <=? size then Some (firstn (N.to_nat n) (skipn (N.to_nat off) data)) else None.
Definition rd_u32 data size off := match rd data size off 4 with Some b => Some (of_le b) | None => None end.
Definition rd_u16 data size off := match rd data size off 2 with Some b => Some (of_le b) | None => None end.
Definition rd_u8  data size off := match rd data size off 1 with Some b => Some (of_le b) | None => None end.

Record fn := { f_name : N; f_arity : N; f_off : N; f_len : N; f_locals : N; f_upvals : N }.
Record imp := { i_mod : N; i_fn : N; i_pc : N; i_ret : N; i_ptypes : list byte }.
Record module := {
  m_flags : N; m_entry : N;
  m_strings : list (list byte);
  m_funs : list fn;
  m_code : list byte;          (* the code_size logical bytes *)
  m_cap : N;                   (* code_capacity; bytes in [code_size,cap) are zero iff cap = 4096 (calloc), indeterminate after a realloc *)
  m_imports : list imp;
  m_debug : list (N * N)
}.

Inductive lres := LCrash | LFuel | LReject | Loaded (m : module).

Definition empty_module (flags entry : N) : module :=
  {| m_flags := flags; m_entry := entry; m_strings := []; m_funs := []; m_code := []; m_cap := 4096;
     m_imports := []; m_debug := [] |}.

Fixpoint bytes_eqb (a b : list byte) : bool :=
  match a, b with [], [] => true | x :: a', y :: b' => N.eqb x y && bytes_eqb a' b' | _, _ => false end.

(* nvm_add_string: deduplicating append *)
Definition add_string (m : module) (s : list byte) : module :=
  if existsb (bytes_eqb s) (m_strings m) then m else
  {| m_flags := m_flags m; m_entry := m_entry m; m_strings := m_strings m ++ [s]; m_funs := m_funs m;
     m_code := m_code m; m_cap := m_cap m; m_imports := m_imports m; m_debug := m_debug m |}.
Definition add_fn (m : module) (f : fn) : module :=
  {| m_flags := m_flags m; m_entry := m_entry m; m_strings := m_strings m; m_funs := m_funs m ++ [f];
     m_code := m_code m; m_cap := m_cap m; m_imports := m_imports m; m_debug := m_debug m |}.
Definition add_imp (m : module) (i : imp) : module :=
  {| m_flags := m_flags m; m_entry := m_entry m; m_strings := m_strings m; m_funs := m_funs m;
     m_code := m_code m; m_cap := m_cap m; m_imports := m_imports m ++ [i]; m_debug := m_debug m |}.
Definition add_debug (m : module) (d : N * N) : module :=
  {| m_flags := m_flags m; m_entry := m_entry m; m_strings := m_strings m; m_funs := m_funs m;
     m_code := m_code m; m_cap := m_cap m; m_imports := m_imports m; m_debug := m_debug m ++ [d] |}.
Definition set_code (m : module) (c : list byte) (cap : N) : module :=
  {| m_flags := m_flags m; m_entry := m_entry m; m_strings := m_strings m; m_funs := m_funs m;
     m_code := c; m_cap := cap; m_imports := m_imports m; m_debug := m_debug m |}.

(* nvm_append_code: while (code_size + size > cap) cap *= 2   (all uint32_t) *)
Fixpoint grow_cap (fuel : nat) (cap need : N) : option N :=
  if need <=? cap then Some cap else
  match fuel with
  | O => None
  | S k => let cap' := mul32 cap 2 in if cap' =? 0 then None else grow_cap k cap' need
  end.

Definition append_code (data : list byte) (size : N) (m : module) (off n : N) : option module :=
  let csz := N.of_nat (length (m_code m)) in
  match grow_cap 40 (m_cap m) (add32 csz n) with
  | None => None
  | Some cap =>
      match rd data size off n with
      | None => None
      | Some bs => Some (set_code m (m_code m ++ bs) cap)
      end
  end.

(* after the entry loop of a table section: repaired loader refuses left-over bytes (pos != sec_size) *)
Definition tail_ok (c : cfg) (pos ssz : N) (m : module) : lres :=
  if fx_strict c && negb (pos =? ssz) then LReject else Loaded m.

(* STRINGS: while (pos + 4 <= sec_size) { slen = u32 at pos; pos += 4; if (pos + slen > sec_size) break; add; pos += slen } *)
Fixpoint load_strings (c : cfg) (fuel : nat) (data : list byte) (size base ssz pos : N) (m : module) : lres :=
  match fuel with
  | O => LFuel
  | S k =>
    if add32 pos 4 <=? ssz then
      match rd_u32 data size (base + pos) with
      | None => LCrash
      | Some slen =>
        let pos1 := add32 pos 4 in
        let over := if fx_slen c then (ssz - pos1 <? slen) (* slen > sec_size - pos, pos <= sec_size *)
                    else (ssz <? add32 pos1 slen) in
        if over then (if fx_strict c then LReject else Loaded m) else
        match rd data size (base + pos1) slen with
        | None => LCrash                       (* memcmp/memcpy of slen bytes leaves the buffer (or malloc(slen+1) wrapped to 0) *)
        | Some s => load_strings c k data size base ssz (add32 pos1 slen) (add_string m s)
        end
      end
    else tail_ok c pos ssz m
  end.

Fixpoint load_funs (c : cfg) (fuel : nat) (data : list byte) (size base ssz pos : N) (m : module) : lres :=
  match fuel with
  | O => LFuel
  | S k =>
    if add32 pos 18 <=? ssz then
      match rd_u32 data size (base + pos), rd_u16 data size (base + add32 pos 4), rd_u32 data size (base + add32 pos 6),
            rd_u32 data size (base + add32 pos 10), rd_u16 data size (base + add32 pos 14), rd_u16 data size (base + add32 pos 16) with
      | Some a, Some b, Some c0, Some d, Some e, Some f =>
          load_funs c k data size base ssz (add32 pos 18)
            (add_fn m {| f_name := a; f_arity := b; f_off := c0; f_len := d; f_locals := e; f_upvals := f |})
      | _, _, _, _, _, _ => LCrash
      end
    else tail_ok c pos ssz m
  end.

Fixpoint load_debug (c : cfg) (fuel : nat) (data : list byte) (size base ssz pos : N) (m : module) : lres :=
  match fuel with
  | O => LFuel
  | S k =>
    if add32 pos 8 <=? ssz then
      match rd_u32 data size (base + pos), rd_u32 data size (base + add32 pos 4) with
      | Some a, Some b => load_debug c k data size base ssz (add32 pos 8) (add_debug m (a, b))
      | _, _ => LCrash
      end
    else tail_ok c pos ssz m
  end.

(* IMPORTS: while (pos + 11 <= sec_size) { 4,4,2,1 bytes; if (pos + param_count > sec_size) break; copy param_count bytes } *)
Fixpoint load_imports (c : cfg) (fuel : nat) (data : list byte) (size base ssz pos : N) (m : module) : lres :=
  match fuel with
  | O => LFuel
  | S k =>
    if add32 pos 11 <=? ssz then
      match rd_u32 data size (base + pos), rd_u32 data size (base + add32 pos 4),
            rd_u16 data size (base + add32 pos 8), rd_u8 data size (base + add32 pos 10) with
      | Some a, Some b, Some pc, Some rt =>
          let pos1 := add32 pos 11 in
          if ssz <? add32 pos1 pc then (if fx_strict c then LReject else Loaded m) else
          match rd data size (base + pos1) pc with
          | None => LCrash
          | Some pts => load_imports c k data size base ssz (add32 pos1 pc)
                          (add_imp m {| i_mod := a; i_fn := b; i_pc := pc; i_ret := rt; i_ptypes := pts |})
          end
      | _, _, _, _ => LCrash
      end
    else tail_ok c pos ssz m
  end.

Definition SEC_CODE := 1. Definition SEC_STRINGS := 2. Definition SEC_FUNCTIONS := 3.
Definition SEC_IMPORTS := 8. Definition SEC_DEBUG := 9.

Definition load_section (c : cfg) (data : list byte) (size : N) (m : module) (ty off ssz : N) : lres :=
  let fuel := S (length data) in
  if ty =? SEC_STRINGS then load_strings c fuel data size off ssz 0 m
  else if ty =? SEC_CODE then match append_code data size m off ssz with Some m' => Loaded m' | None => LCrash end
  else if ty =? SEC_FUNCTIONS then load_funs c fuel data size off ssz 0 m
  else if ty =? SEC_DEBUG then load_debug c fuel data size off ssz 0 m
  else if ty =? SEC_IMPORTS then load_imports c fuel data size off ssz 0 m
  else Loaded m.

(* the section directory loop, i = 0 .. section_count-1; [dend] accumulates max(dir_end, offset_i + size_i) in uint32_t for the
   trailing-bytes test that follows the loop ("nothing may follow the last section": data_end != size -> NULL) *)
Fixpoint load_dir (c : cfg) (n : nat) (data : list byte) (size : N) (i : N) (m : module) (dend : N) : lres :=
  match n with
  | O => if dend =? size then Loaded m else LReject
  | S k =>
    let d := 32 + i * 12 in
    match rd_u32 data size d, rd_u32 data size (d + 4), rd_u32 data size (d + 8) with
    | Some ty, Some off, Some ssz =>
        let bad := if fx_sec c then (size <? off + ssz) else (size <? add32 off ssz) in
        if bad then LReject else
        match load_section c data size m ty off ssz with
        | Loaded m' => load_dir c k data size (i + 1) m' (N.max dend (add32 off ssz))
        | r => r
        end
    | _, _, _ => LCrash
    end
  end.

Definition deserializeC (c : cfg) (data : list byte) : lres :=
  let size := N.of_nat (length data) in
  if size <? 32 then LReject else
  match rd data size 0 4, rd_u32 data size 4, rd_u32 data size 8, rd_u32 data size 12,
        rd_u32 data size 16, rd_u32 data size 28 with
  | Some magic, Some ver, Some flags, Some entry, Some nsec, Some sum =>
      if negb (bytes_eqb magic [78; 86; 77; 1]) then LReject else
      if negb (ver =? 1) then LReject else
      if 16 <? nsec then LReject else
      if negb (crc32 (skipn 32 data) =? sum) then LReject else
      if size <? add32 32 (mul32 nsec 12) then LReject else
      load_dir c (N.to_nat nsec) data size 0 (empty_module flags entry) (add32 32 (mul32 nsec 12))
  | _, _, _, _, _, _ => LCrash
  end.

(* canonical byte dump of a loaded module (what the probe prints a CRC of) *)
Definition dump_fn (f : fn) : list byte :=
  le_bytes 4 (f_name f) ++ le_bytes 2 (f_arity f) ++ le_bytes 4 (f_off f) ++ le_bytes 4 (f_len f) ++
  le_bytes 2 (f_locals f) ++ le_bytes 2 (f_upvals f).
Definition dump_imp (i : imp) : list byte :=
  le_bytes 4 (i_mod i) ++ le_bytes 4 (i_fn i) ++ le_bytes 2 (i_pc i) ++ le_bytes 1 (i_ret i) ++ i_ptypes i.
Definition dump_module (m : module) : list byte :=
  le_bytes 4 (m_flags m) ++ le_bytes 4 (m_entry m) ++
  le_bytes 4 (N.of_nat (length (m_strings m))) ++
  flat_map (fun s => le_bytes 4 (N.of_nat (length s)) ++ s) (m_strings m) ++
  le_bytes 4 (N.of_nat (length (m_funs m))) ++ flat_map dump_fn (m_funs m) ++
  le_bytes 4 (N.of_nat (length (m_code m))) ++ m_code m ++ le_bytes 4 (m_cap m) ++
  le_bytes 4 (N.of_nat (length (m_imports m))) ++ flat_map dump_imp (m_imports m) ++
  le_bytes 4 (N.of_nat (length (m_debug m))) ++ flat_map (fun d => le_bytes 4 (fst d) ++ le_bytes 4 (snd d)) (m_debug m).
