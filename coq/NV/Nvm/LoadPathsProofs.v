(* A session's verdict depends only on the bytes of this request; damage is refused on every path after any history. *)
From Coq Require Import NArith List Bool.
From NV Require Import Base.Bytes Nvm.Crc Nvm.Format Nvm.FormatProofs Nvm.LoadPaths gen.LoadPaths.
Import ListNotations.

Lemma loaders_ok_true : loaders_ok = true.
Proof. vm_compute. reflexivity. Qed.

Lemma path_fact p : path_deserializes_received p = true.
Proof.
  pose proof loaders_ok_true as H. unfold loaders_ok in H.
  apply andb_true_iff in H. destruct H as [H _]. apply andb_true_iff in H. destruct H as [H _].
  rewrite forallb_forall in H. apply H. destruct p; simpl; tauto.
Qed.

Theorem verdict_is_deserialize p history req : session_verdict p history req = Some (deserialize req).
Proof. unfold session_verdict. rewrite path_fact. reflexivity. Qed.

Theorem verdict_ignores_history p h1 h2 req : session_verdict p h1 req = session_verdict p h2 req.
Proof. rewrite !verdict_is_deserialize. reflexivity. Qed.

Theorem damaged_refused_after_any_history p history f f' m :
  deserialize f = Loaded m -> bytes_ok f -> bytes_ok f' ->
  firstn 32 f' = firstn 32 f -> burst_le32 (skipn 32 f) (skipn 32 f') ->
  session_verdict p history f' = Some Refused.
Proof.
  intros HL Hok Hok' Hh Hb. rewrite verdict_is_deserialize. f_equal.
  exact (load_rejects_burst f f' m HL Hok Hok' Hh Hb).
Qed.

Theorem truncated_refused_after_any_history p history m n :
  wf_module m -> (n < length (serialize m))%nat ->
  session_verdict p history (firstn n (serialize m)) = Some Refused.
Proof. intros W Hn. rewrite verdict_is_deserialize. f_equal. exact (load_rejects_truncation m n W Hn). Qed.
