(* The places that load a .nvm image and what a loading session answers.
   A process that loads images (standalone nano_vm, one nano_vmd serving many sessions, a nano_cop that may be sent INIT
   again, the wrapper executable with its embedded array) has served a list [history] of earlier requests when the
   request [req] arrives.  The structural facts NV.gen.LoadPaths (clang AST of the four handlers, rule D1-D3 of
   tools/gen/gen_loadpaths.py) say that the module a session runs can only be nvm_deserialize(bytes received in this
   session); where the fact holds the verdict is [deserialize req], whatever the history was.  Where it does not hold
   (a cache, a module kept in a global ...) the model does not pretend to know the verdict: [None].
   No proofs in this file. *)
From Coq Require Import List Bool.
From NV Require Import Base.Bytes Nvm.Format gen.LoadPaths.
Import ListNotations.

Inductive load_path := PNanoVm | PDaemon | PCop | PWrapper.
Definition all_load_paths : list load_path := [PNanoVm; PDaemon; PCop; PWrapper].

Definition path_deserializes_received (p : load_path) : bool :=
  match p with
  | PNanoVm => nano_vm_deserializes_received
  | PDaemon => vmd_deserializes_received
  | PCop => cop_deserializes_received
  | PWrapper => wrapper_deserializes_received
  end.

(* the two paths that EXECUTE received bytes must also run the verifier between loading and vm_init *)
Definition loaders_ok : bool :=
  forallb path_deserializes_received all_load_paths && nano_vm_verifies && vmd_verifies.

Definition session_verdict (p : load_path) (history : list (list byte)) (req : list byte) : option load_result :=
  if path_deserializes_received p then Some (deserialize req) else None.
