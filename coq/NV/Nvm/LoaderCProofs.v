(* Proofs about the C-arithmetic loader model: witnesses of the u32 wraps, and memory safety + termination of the
   loader once the two bounds tests are done without wrap (cfg bits fx_sec, fx_slen). *)
From Coq Require Import NArith ZArith List Bool Lia.
From NV Require Import Base.Bytes Nvm.LoaderC.
Import ListNotations.
Local Open Scope N_scope.

(* ------------------------------------------------------------------ witnesses *)
Definition mk_file (rest : list byte) (flags entry nsec : N) : list byte :=
  [78; 86; 77; 1] ++ le_bytes 4 1 ++ le_bytes 4 flags ++ le_bytes 4 entry ++ le_bytes 4 nsec ++ le_bytes 4 0 ++ le_bytes 4 0 ++
  le_bytes 4 (crc32 rest) ++ rest.

(* one STRINGS section at offset 0xFFFFFFF0 with size 0x20: 0xFFFFFFF0 + 0x20 = 0x10 (mod 2^32) <= file size *)
Definition w_sec : list byte := mk_file (le_bytes 4 2 ++ le_bytes 4 4294967280 ++ le_bytes 4 32) 0 0 1.
(* one STRINGS section [44,48) holding the length 0xFFFFFFFF: pos + slen = 4 + 0xFFFFFFFF = 3 (mod 2^32) <= 4 *)
Definition w_slen : list byte := mk_file (le_bytes 4 2 ++ le_bytes 4 44 ++ le_bytes 4 4 ++ [255; 255; 255; 255]) 0 0 1.

Lemma w_sec_crashes c : fx_sec c = false -> deserializeC c w_sec = LCrash.
Proof. destruct c as [a b c0 d e f g h i j]; intros H; simpl in H; subst; destruct b, j; vm_compute; reflexivity. Qed.
Lemma w_slen_crashes c : fx_slen c = false -> deserializeC c w_slen = LCrash.
Proof. destruct c as [a b c0 d e f g h i j]; intros H; simpl in H; subst; destruct a, j; vm_compute; reflexivity. Qed.
Lemma w_sec_ok : bytes_ok w_sec /\ length w_sec = 44%nat.
Proof. split; [apply bytes_okb_spec|]; vm_compute; reflexivity. Qed.
Lemma w_slen_ok : bytes_ok w_slen /\ length w_slen = 48%nat.
Proof. split; [apply bytes_okb_spec|]; vm_compute; reflexivity. Qed.

(* ------------------------------------------------------------------ safety of the repaired loader *)
Definition lsafe (r : lres) : Prop := r <> LCrash /\ r <> LFuel.
Lemma tail_ok_safe c pos ssz m : lsafe (tail_ok c pos ssz m).
Proof. unfold tail_ok. destruct (_ && _); split; discriminate. Qed.
Lemma tail_ok_loaded c pos ssz m m' : tail_ok c pos ssz m = Loaded m' -> m' = m.
Proof. unfold tail_ok. destruct (_ && _); [discriminate|]. intros [= <-]; reflexivity. Qed.

Lemma u32_small x : x < two32 -> u32 x = x.
Proof. intros; unfold u32; apply N.mod_small; assumption. Qed.
Lemma add32_small a b : a + b < two32 -> add32 a b = a + b.
Proof. intros; unfold add32; apply u32_small; assumption. Qed.

Lemma rd_ok data size off n : off + n <= size -> exists bs, rd data size off n = Some bs.
Proof. intros H; unfold rd. apply N.leb_le in H; rewrite H; eauto. Qed.
Lemma rd_u32_ok data size off : off + 4 <= size -> exists v, rd_u32 data size off = Some v.
Proof. intros H; unfold rd_u32; destruct (rd_ok data size off 4 H) as [b ->]; eauto. Qed.
Lemma rd_u16_ok data size off : off + 2 <= size -> exists v, rd_u16 data size off = Some v.
Proof. intros H; unfold rd_u16; destruct (rd_ok data size off 2 H) as [b ->]; eauto. Qed.
Lemma rd_u8_ok data size off : off + 1 <= size -> exists v, rd_u8 data size off = Some v.
Proof. intros H; unfold rd_u8; destruct (rd_ok data size off 1 H) as [b ->]; eauto. Qed.

(* values read from a byte buffer are bounded *)
Lemma rd_len data size off n bs : size = N.of_nat (length data) -> rd data size off n = Some bs -> length bs = N.to_nat n.
Proof.
  intros Hs; unfold rd; destruct (off + n <=? size) eqn:E; [|discriminate]; intros [= <-].
  apply N.leb_le in E. rewrite firstn_length, skipn_length. lia.
Qed.
Lemma rd_bytes_ok data size off n bs : bytes_ok data -> rd data size off n = Some bs -> bytes_ok bs.
Proof.
  intros Hd; unfold rd; destruct (off + n <=? size); [|discriminate]; intros [= <-].
  apply bytes_ok_firstn, bytes_ok_skipn, Hd.
Qed.
Lemma rd_u16_bound data size off v : size = N.of_nat (length data) -> bytes_ok data -> rd_u16 data size off = Some v -> v < 65536.
Proof.
  intros Hs Hd; unfold rd_u16; destruct (rd data size off 2) as [bs|] eqn:E; [|discriminate]; intros [= <-].
  pose proof (of_le_bound bs (rd_bytes_ok _ _ _ _ _ Hd E)) as B. rewrite (rd_len _ _ _ _ _ Hs E) in B. exact B.
Qed.

Definition BIG : N := 134217728.   (* 2^27: nano_vm refuses files above 100 MiB *)

Section Safe.
  Variable c : cfg.
  Variable data : list byte.
  Variable size : N.
  Hypothesis Hsize : size = N.of_nat (length data).
  Hypothesis Hbig : size < BIG.
  Hypothesis Hok : bytes_ok data.
  Hypothesis Hslen : fx_slen c = true.

  Lemma load_strings_safe fuel base ssz : base + ssz <= size ->
    forall pos m, pos <= ssz -> ssz - pos < N.of_nat fuel -> lsafe (load_strings c fuel data size base ssz pos m).
  Proof.
    intros Hb. induction fuel as [|k IH]; intros pos m Hp Hf; [lia|].
    cbn [load_strings]. unfold BIG in *.
    rewrite (add32_small pos 4) by (unfold two32; lia).
    destruct (pos + 4 <=? ssz) eqn:E; [|apply tail_ok_safe]. apply N.leb_le in E.
    destruct (rd_u32_ok data size (base + pos)) as [slen ->]; [lia|].
    rewrite Hslen.
    destruct (ssz - (pos + 4) <? slen) eqn:E2; [destruct (fx_strict c); split; discriminate|]. apply N.ltb_ge in E2.
    destruct (rd_ok data size (base + (pos + 4)) slen) as [s ->]; [lia|].
    rewrite (add32_small (pos + 4) slen) by (unfold two32; lia).
    apply IH; lia.
  Qed.

  Lemma load_funs_safe fuel base ssz : base + ssz <= size ->
    forall pos m, pos <= ssz -> ssz - pos < N.of_nat fuel -> lsafe (load_funs c fuel data size base ssz pos m).
  Proof.
    intros Hb. induction fuel as [|k IH]; intros pos m Hp Hf; [lia|].
    cbn [load_funs]. unfold BIG in *.
    rewrite !(add32_small pos) by (unfold two32; lia).
    destruct (pos + 18 <=? ssz) eqn:E; [|apply tail_ok_safe]. apply N.leb_le in E.
    destruct (rd_u32_ok data size (base + pos)) as [v1 ->]; [lia|].
    destruct (rd_u16_ok data size (base + (pos + 4))) as [v2 ->]; [lia|].
    destruct (rd_u32_ok data size (base + (pos + 6))) as [v3 ->]; [lia|].
    destruct (rd_u32_ok data size (base + (pos + 10))) as [v4 ->]; [lia|].
    destruct (rd_u16_ok data size (base + (pos + 14))) as [v5 ->]; [lia|].
    destruct (rd_u16_ok data size (base + (pos + 16))) as [v6 ->]; [lia|].
    apply IH; lia.
  Qed.

  Lemma load_debug_safe fuel base ssz : base + ssz <= size ->
    forall pos m, pos <= ssz -> ssz - pos < N.of_nat fuel -> lsafe (load_debug c fuel data size base ssz pos m).
  Proof.
    intros Hb. induction fuel as [|k IH]; intros pos m Hp Hf; [lia|].
    cbn [load_debug]. unfold BIG in *.
    rewrite !(add32_small pos) by (unfold two32; lia).
    destruct (pos + 8 <=? ssz) eqn:E; [|apply tail_ok_safe]. apply N.leb_le in E.
    destruct (rd_u32_ok data size (base + pos)) as [v1 ->]; [lia|].
    destruct (rd_u32_ok data size (base + (pos + 4))) as [v2 ->]; [lia|].
    apply IH; lia.
  Qed.

  Lemma load_imports_safe fuel base ssz : base + ssz <= size ->
    forall pos m, pos <= ssz -> ssz - pos < N.of_nat fuel -> lsafe (load_imports c fuel data size base ssz pos m).
  Proof.
    intros Hb. induction fuel as [|k IH]; intros pos m Hp Hf; [lia|].
    cbn [load_imports]. unfold BIG in *.
    rewrite !(add32_small pos) by (unfold two32; lia).
    destruct (pos + 11 <=? ssz) eqn:E; [|apply tail_ok_safe]. apply N.leb_le in E.
    destruct (rd_u32_ok data size (base + pos)) as [v1 ->]; [lia|].
    destruct (rd_u32_ok data size (base + (pos + 4))) as [v2 ->]; [lia|].
    destruct (rd_u16_ok data size (base + (pos + 8))) as [pc Epc]; [lia|]. rewrite Epc.
    destruct (rd_u8_ok data size (base + (pos + 10))) as [v4 ->]; [lia|].
    pose proof (rd_u16_bound _ _ _ _ Hsize Hok Epc) as Bpc.
    rewrite (add32_small (pos + 11) pc) by (unfold two32; lia).
    destruct (ssz <? pos + 11 + pc) eqn:E2; [destruct (fx_strict c); split; discriminate|]. apply N.ltb_ge in E2.
    destruct (rd_ok data size (base + (pos + 11)) pc) as [s ->]; [lia|].
    apply IH; lia.
  Qed.

  (* code buffer: capacity is 2^k (12 <= k <= 31), total code so far bounded *)
  Definition cap_ok (cap : N) : Prop := exists k, cap = 2 ^ k /\ 12 <= k <= 31.
  Lemma grow_cap_ok fuel cap need : cap_ok cap -> need <= 2147483648 ->
    (forall k, cap = 2 ^ k -> 31 - k < N.of_nat fuel) ->
    exists cap', grow_cap fuel cap need = Some cap' /\ cap_ok cap'.
  Proof.
    revert cap. induction fuel as [|f IH]; intros cap [k [-> Hk]] Hn Hf.
    - specialize (Hf k eq_refl). lia.
    - cbn [grow_cap]. destruct (need <=? 2 ^ k) eqn:E; [eexists; split; [reflexivity|exists k; auto]|].
      apply N.leb_gt in E.
      assert (k < 31). { destruct (N.eq_dec k 31) as [->|]; [change (2^31) with 2147483648 in E; lia|lia]. }
      assert (E2 : mul32 (2 ^ k) 2 = 2 ^ (k + 1)).
      { unfold mul32. rewrite N.pow_add_r. change (2^1) with 2. apply u32_small. unfold two32.
        change 4294967296 with (2 ^ 32). replace (2 ^ k * 2) with (2 ^ (k + 1)) by (rewrite N.pow_add_r; reflexivity).
        apply N.pow_lt_mono_r; lia. }
      rewrite E2.
      destruct (2 ^ (k + 1) =? 0) eqn:E3.
      { apply N.eqb_eq in E3. pose proof (N.pow_nonzero 2 (k + 1)). lia. }
      apply IH; [exists (k + 1); split; [reflexivity|lia] | exact Hn |].
      intros k' Hk'. apply N.pow_inj_r in Hk'; [|lia]. subst k'. specialize (Hf k eq_refl). lia.
  Qed.

  Definition m_ok (i : N) (m : module) : Prop :=
    cap_ok (m_cap m) /\ N.of_nat (length (m_code m)) <= i * size /\ N.of_nat (length (m_code m)) <= m_cap m.

  Lemma grow_cap_ge fuel : forall cap need cap', grow_cap fuel cap need = Some cap' -> need <= cap'.
  Proof.
    induction fuel as [|k IH]; intros cap need cap'; cbn [grow_cap];
      destruct (need <=? cap) eqn:E; try (intros [= <-]; apply N.leb_le; exact E); try discriminate.
    destruct (mul32 cap 2 =? 0); [discriminate|]. apply IH.
  Qed.

  Lemma append_code_safe i m off n : i < 16 -> m_ok i m -> off + n <= size ->
    exists m', append_code data size m off n = Some m' /\ m_ok (i + 1) m'.
  Proof.
    intros Hi [Hc [Hl Hfit]] Hb. unfold append_code, BIG in *.
    assert (Hsum : N.of_nat (length (m_code m)) + n <= 16 * size).
    { assert (H1 : (i + 1) * size <= 16 * size) by (apply N.mul_le_mono_r; lia).
      rewrite N.mul_add_distr_r, N.mul_1_l in H1. lia. }
    rewrite add32_small by (unfold two32; lia).
    destruct (grow_cap_ok 40 (m_cap m) (N.of_nat (length (m_code m)) + n) Hc) as [cap' [G Hc']]; [lia| |].
    { intros k Hk. destruct Hc as [k0 [E0 ?]]. rewrite E0 in Hk. apply N.pow_inj_r in Hk; [|lia]. change (N.of_nat 40) with 40. lia. }
    rewrite G. pose proof (grow_cap_ge _ _ _ _ G) as Hge.
    unfold rd. destruct (off + n <=? size) eqn:E; [|apply N.leb_gt in E; lia].
    eexists; split; [reflexivity|]. split; [exact Hc'|].
    cbn [set_code m_code m_cap]. rewrite app_length, firstn_length, skipn_length.
    apply N.leb_le in E. rewrite N.mul_add_distr_r, N.mul_1_l. lia.
  Qed.

  Lemma add_string_ok i m s : m_ok i (add_string m s) <-> m_ok i m.
  Proof. unfold add_string, m_ok; destruct (existsb _ _); simpl; tauto. Qed.

  (* all section loaders keep cap/code unchanged except append_code *)
  Lemma load_strings_mok fuel base ssz pos m i m' : m_ok i m -> load_strings c fuel data size base ssz pos m = Loaded m' -> m_ok i m'.
  Proof.
    revert pos m. induction fuel as [|k IH]; intros pos m H; cbn [load_strings]; [discriminate|].
    destruct (add32 pos 4 <=? ssz); [|intros E; apply tail_ok_loaded in E; subst; exact H].
    destruct (rd_u32 _ _ _); [|discriminate].
    destruct (if fx_slen c then _ else _); [destruct (fx_strict c); [discriminate|intros [= <-]; exact H]|].
    destruct (rd _ _ _ _); [|discriminate]. apply IH. apply add_string_ok; exact H.
  Qed.
  Lemma load_funs_mok fuel base ssz pos m i m' : m_ok i m -> load_funs c fuel data size base ssz pos m = Loaded m' -> m_ok i m'.
  Proof.
    revert pos m. induction fuel as [|k IH]; intros pos m H; cbn [load_funs]; [discriminate|].
    destruct (add32 pos 18 <=? ssz); [|intros E; apply tail_ok_loaded in E; subst; exact H].
    repeat (match goal with |- context [match ?x with Some _ => _ | None => _ end] => destruct x end); try discriminate.
    apply IH. exact H.
  Qed.
  Lemma load_debug_mok fuel base ssz pos m i m' : m_ok i m -> load_debug c fuel data size base ssz pos m = Loaded m' -> m_ok i m'.
  Proof.
    revert pos m. induction fuel as [|k IH]; intros pos m H; cbn [load_debug]; [discriminate|].
    destruct (add32 pos 8 <=? ssz); [|intros E; apply tail_ok_loaded in E; subst; exact H].
    repeat (match goal with |- context [match ?x with Some _ => _ | None => _ end] => destruct x end); try discriminate.
    apply IH. exact H.
  Qed.
  Lemma load_imports_mok fuel base ssz pos m i m' : m_ok i m -> load_imports c fuel data size base ssz pos m = Loaded m' -> m_ok i m'.
  Proof.
    revert pos m. induction fuel as [|k IH]; intros pos m H; cbn [load_imports]; [discriminate|].
    destruct (add32 pos 11 <=? ssz); [|intros E; apply tail_ok_loaded in E; subst; exact H].
    repeat (match goal with |- context [match ?x with Some _ => _ | None => _ end] => destruct x end); try discriminate;
      try (destruct (ssz <? _)); try (destruct (fx_strict c)); try discriminate; try (intros [= <-]; exact H); try (apply IH; exact H).
  Qed.

  Lemma m_ok_mono i j m : i <= j -> m_ok i m -> m_ok j m.
  Proof. intros Hij [H1 [H2 H3]]; split; [exact H1|]. split; [|exact H3]. etransitivity; [exact H2|]. apply N.mul_le_mono_r; exact Hij. Qed.

  Lemma load_section_safe i m ty off ssz : i < 16 -> m_ok i m -> off + ssz <= size ->
    lsafe (load_section c data size m ty off ssz) /\
    (forall m', load_section c data size m ty off ssz = Loaded m' -> m_ok (i + 1) m').
  Proof.
    intros Hi Hm Hb. unfold load_section.
    assert (Hfuel : ssz - 0 < N.of_nat (S (length data))) by lia.
    destruct (ty =? SEC_STRINGS).
    { split; [apply load_strings_safe; [exact Hb|lia|exact Hfuel]|].
      intros m' E. eapply m_ok_mono; [|eapply load_strings_mok; eassumption]. lia. }
    destruct (ty =? SEC_CODE).
    { destruct (append_code_safe i m off ssz Hi Hm Hb) as [m1 [-> Hm1]].
      split; [split; discriminate|]. intros m' [= <-]. exact Hm1. }
    destruct (ty =? SEC_FUNCTIONS).
    { split; [apply load_funs_safe; [exact Hb|lia|exact Hfuel]|].
      intros m' E. eapply m_ok_mono; [|eapply load_funs_mok; eassumption]. lia. }
    destruct (ty =? SEC_DEBUG).
    { split; [apply load_debug_safe; [exact Hb|lia|exact Hfuel]|].
      intros m' E. eapply m_ok_mono; [|eapply load_debug_mok; eassumption]. lia. }
    destruct (ty =? SEC_IMPORTS).
    { split; [apply load_imports_safe; [exact Hb|lia|exact Hfuel]|].
      intros m' E. eapply m_ok_mono; [|eapply load_imports_mok; eassumption]. lia. }
    split; [split; discriminate|]. intros m' [= <-]. eapply m_ok_mono; [|exact Hm]. lia.
  Qed.

  Hypothesis Hsec : fx_sec c = true.

  Lemma load_dir_safe n : forall i m dend, i + N.of_nat n <= 16 -> 32 + (i + N.of_nat n) * 12 <= size -> m_ok i m ->
    lsafe (load_dir c n data size i m dend) /\ (forall m', load_dir c n data size i m dend = Loaded m' -> m_ok 16 m').
  Proof.
    induction n as [|k IH]; intros i m dend Hn Hd Hm.
    { cbn [load_dir]. destruct (dend =? size); [|split; [split; discriminate|discriminate]].
      split; [split; discriminate|]. intros m' [= <-]. eapply m_ok_mono; [|exact Hm]. simpl in Hn. lia. }
    cbn [load_dir].
    destruct (rd_u32_ok data size (32 + i * 12)) as [ty ->]; [lia|].
    destruct (rd_u32_ok data size (32 + i * 12 + 4)) as [off ->]; [lia|].
    destruct (rd_u32_ok data size (32 + i * 12 + 8)) as [ssz ->]; [lia|].
    rewrite Hsec. destruct (size <? off + ssz) eqn:E; [split; [split; discriminate|discriminate]|]. apply N.ltb_ge in E.
    destruct (load_section_safe i m ty off ssz) as [[S1 S2] S3]; [lia|exact Hm|exact E|].
    destruct (load_section c data size m ty off ssz) as [| | |m'] eqn:E2; try (split; [split; congruence|discriminate]).
    apply IH; [lia|lia|]. apply S3; reflexivity.
  Qed.
End Safe.

Definition code_fits (m : module) : Prop := N.of_nat (length (m_code m)) <= m_cap m /\ m_cap m <= 2147483648.

Theorem loader_safe_fixed c data :
  fx_sec c = true -> fx_slen c = true -> bytes_ok data -> N.of_nat (length data) < BIG ->
  (deserializeC c data <> LCrash /\ deserializeC c data <> LFuel) /\
  (forall m, deserializeC c data = Loaded m -> code_fits m).
Proof.
  intros Hsec Hslen Hok Hbig. unfold deserializeC.
  set (size := N.of_nat (length data)) in *.
  destruct (size <? 32) eqn:E; [split; [split; discriminate|discriminate]|]. apply N.ltb_ge in E.
  destruct (rd_ok data size 0 4) as [magic ->]; [lia|].
  destruct (rd_u32_ok data size 4) as [ver ->]; [lia|].
  destruct (rd_u32_ok data size 8) as [flags ->]; [lia|].
  destruct (rd_u32_ok data size 12) as [entry ->]; [lia|].
  destruct (rd_u32_ok data size 16) as [nsec ->]; [lia|].
  destruct (rd_u32_ok data size 28) as [sum ->]; [lia|].
  destruct (negb (bytes_eqb magic _)); [split; [split; discriminate|discriminate]|].
  destruct (negb (ver =? 1)); [split; [split; discriminate|discriminate]|].
  destruct (16 <? nsec) eqn:E16; [split; [split; discriminate|discriminate]|]. apply N.ltb_ge in E16.
  destruct (negb (crc32 _ =? sum)); [split; [split; discriminate|discriminate]|].
  assert (Em : mul32 nsec 12 = nsec * 12) by (unfold mul32; apply u32_small; unfold two32; lia).
  rewrite Em, add32_small by (unfold two32; lia).
  destruct (size <? 32 + nsec * 12) eqn:E3; [split; [split; discriminate|discriminate]|]. apply N.ltb_ge in E3.
  destruct (load_dir_safe c data size eq_refl Hbig Hok Hslen Hsec (N.to_nat nsec) 0 (empty_module flags entry) (32 + nsec * 12)) as [S1 S2];
    rewrite ?N2Nat.id; try lia.
  { split; [exists 12; split; [reflexivity|lia]|simpl; lia]. }
  split; [exact S1|]. intros m Hm. destruct (S2 m Hm) as [[k [Hk1 Hk2]] [_ Hf]].
  split; [exact Hf|]. rewrite Hk1. change 2147483648 with (2 ^ 31). apply N.pow_le_mono_r; lia.
Qed.

(* ------------------------------------------------------------------ the strict loader refuses ragged table sections *)
Lemma tail_ok_strict c pos ssz m m' : fx_strict c = true -> tail_ok c pos ssz m = Loaded m' -> pos = ssz.
Proof.
  unfold tail_ok. intros ->. destruct (pos =? ssz) eqn:E; simpl; [intros _; apply N.eqb_eq; exact E|discriminate].
Qed.

Theorem strict_funs_whole c data size base ssz : fx_strict c = true -> ssz + 18 < two32 ->
  forall fuel pos m m', pos <= ssz -> load_funs c fuel data size base ssz pos m = Loaded m' -> (ssz - pos) mod 18 = 0.
Proof.
  intros Hs Hb. induction fuel as [|k IH]; intros pos m m' Hp; cbn [load_funs]; [discriminate|].
  rewrite !(add32_small pos) by lia.
  destruct (pos + 18 <=? ssz) eqn:E.
  - apply N.leb_le in E.
    repeat (match goal with |- context [match ?x with Some _ => _ | None => _ end] => destruct x end); try discriminate.
    intros H. apply IH in H; [|lia]. replace (ssz - pos) with ((ssz - (pos + 18)) + 1 * 18) by lia.
    rewrite N.mod_add by lia. exact H.
  - intros H. apply (tail_ok_strict c _ _ _ _ Hs) in H. subst. rewrite N.sub_diag. reflexivity.
Qed.

Theorem strict_debug_whole c data size base ssz : fx_strict c = true -> ssz + 8 < two32 ->
  forall fuel pos m m', pos <= ssz -> load_debug c fuel data size base ssz pos m = Loaded m' -> (ssz - pos) mod 8 = 0.
Proof.
  intros Hs Hb. induction fuel as [|k IH]; intros pos m m' Hp; cbn [load_debug]; [discriminate|].
  rewrite !(add32_small pos) by lia.
  destruct (pos + 8 <=? ssz) eqn:E.
  - apply N.leb_le in E.
    repeat (match goal with |- context [match ?x with Some _ => _ | None => _ end] => destruct x end); try discriminate.
    intros H. apply IH in H; [|lia]. replace (ssz - pos) with ((ssz - (pos + 8)) + 1 * 8) by lia.
    rewrite N.mod_add by lia. exact H.
  - intros H. apply (tail_ok_strict c _ _ _ _ Hs) in H. subst. rewrite N.sub_diag. reflexivity.
Qed.
