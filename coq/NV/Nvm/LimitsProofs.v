(* The loader model accepts every module at, just below and just above each declared limit. *)
From Coq Require Import NArith List Bool.
From NV Require Import Base.Bytes Nvm.Format Nvm.FormatProofs Nvm.Limits gen.NvmLimits.
Import ListNotations.

Lemma limit_modules_wf : forallb wf_moduleb limit_modules = true.
Proof. vm_compute. reflexivity. Qed.

Lemma limit_modules_counts :
  map (fun m => length (m_funcs m)) (map fn_module functions_boundaries) = map N.to_nat functions_boundaries /\
  map (fun m => length (m_strings m)) (map str_module strings_boundaries) = map N.to_nat strings_boundaries /\
  map (fun m => length (m_imports m)) (map imp_module imports_boundaries) = map N.to_nat imports_boundaries.
Proof. vm_compute. repeat split; reflexivity. Qed.

Theorem declared_limits_roundtrip m : In m limit_modules -> deserialize (serialize m) = Loaded (stamp m).
Proof.
  intros H. apply deserialize_serialize. unfold wf_module.
  pose proof limit_modules_wf as W. rewrite forallb_forall in W. apply W. exact H.
Qed.
