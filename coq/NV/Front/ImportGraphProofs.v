(* Proofs about NV.Front.ImportGraph: the repaired import loader terminates on every finite import graph (measure: files of the
   graph not yet in the module cache), the loader of the pinned tree does not; acceptance means every loaded module has an AST. *)
From Coq Require Import List Arith Bool Lia.
Import ListNotations.
From NV Require Import Front.ImportGraph.

(* ------------------------------------------------------------------ the cache *)
Definition cle (c c' : cache) : Prop := forall k, centry c k <> None -> centry c' k <> None.

Lemma cle_refl : forall c, cle c c.
Proof. intros c k H; exact H. Qed.

Lemma cle_trans : forall a b c, cle a b -> cle b c -> cle a c.
Proof. intros a b c H1 H2 k H; apply H2, H1, H. Qed.

Lemma centry_app : forall c m k,
  centry (c ++ [(m, false)]) k = match centry c k with Some a => Some a | None => if Nat.eqb m k then Some false else None end.
Proof.
  induction c as [|[k0 a0] r IH]; intros m k; simpl.
  - reflexivity.
  - destruct (Nat.eqb k0 k); [reflexivity | apply IH].
Qed.

Lemma centry_mark_self : forall c m, centry (cache_mark c m) m <> None.
Proof.
  intros c m. unfold cache_mark. destruct (centry c m) eqn:E.
  - rewrite E; discriminate.
  - rewrite centry_app, E, Nat.eqb_refl; discriminate.
Qed.

Lemma cle_mark : forall c m, cle c (cache_mark c m).
Proof.
  intros c m k H. unfold cache_mark. destruct (centry c m) eqn:E; [exact H|].
  rewrite centry_app. destruct (centry c k); [discriminate | congruence].
Qed.

Lemma centry_set_self : forall c m, centry (cache_set_ast c m) m = Some true.
Proof.
  induction c as [|[k a] r IH]; intros m; simpl.
  - rewrite Nat.eqb_refl; reflexivity.
  - destruct (Nat.eqb k m) eqn:E; simpl; rewrite E; [reflexivity | apply IH].
Qed.

Lemma centry_set_other : forall c m k, k <> m -> centry (cache_set_ast c m) k = centry c k.
Proof.
  induction c as [|[k0 a] r IH]; intros m k Hne; simpl.
  - destruct (Nat.eqb m k) eqn:E; [apply Nat.eqb_eq in E; congruence | reflexivity].
  - destruct (Nat.eqb k0 m) eqn:E; simpl.
    + apply Nat.eqb_eq in E; subst k0. destruct (Nat.eqb m k) eqn:E2; [apply Nat.eqb_eq in E2; congruence | reflexivity].
    + destruct (Nat.eqb k0 k); [reflexivity | apply IH; exact Hne].
Qed.

Lemma cle_set : forall c m, cle c (cache_set_ast c m).
Proof.
  intros c m k H. destruct (Nat.eq_dec k m) as [->|Hne].
  - rewrite centry_set_self; discriminate.
  - rewrite centry_set_other by exact Hne; exact H.
Qed.

(* ------------------------------------------------------------------ the measure *)
Lemma filter_len_mono : forall (p q : modid -> bool) l, (forall x, q x = true -> p x = true) ->
  length (filter q l) <= length (filter p l).
Proof.
  intros p q l H. induction l as [|x r IH]; simpl; [lia|].
  destruct (q x) eqn:Q.
  - rewrite (H x Q); simpl; lia.
  - destruct (p x); simpl; lia.
Qed.

Lemma filter_len_strict : forall (p q : modid -> bool) l m, (forall x, q x = true -> p x = true) ->
  In m l -> p m = true -> q m = false -> length (filter q l) < length (filter p l).
Proof.
  intros p q l m H. induction l as [|x r IH]; simpl; intros Hin Pm Qm; [contradiction|].
  destruct Hin as [->|Hin].
  - rewrite Pm, Qm; simpl. pose proof (filter_len_mono p q r H); lia.
  - specialize (IH Hin Pm Qm). destruct (q x) eqn:Q.
    + rewrite (H x Q); simpl; lia.
    + destruct (p x); simpl; lia.
Qed.

Definition notin (c : cache) (k : modid) : bool := match centry c k with None => true | Some _ => false end.

Lemma uncached_mono : forall g c c', cle c c' -> uncached g c' <= uncached g c.
Proof.
  intros g c c' H. unfold uncached. apply filter_len_mono. intros x Hx.
  destruct (centry c x) eqn:E; [|reflexivity].
  exfalso. assert (centry c' x <> None) by (apply H; rewrite E; discriminate).
  destruct (centry c' x); [discriminate | congruence].
Qed.

Lemma uncached_strict : forall g c c' m, cle c c' -> In m (map fst g) -> centry c m = None -> centry c' m <> None ->
  uncached g c' < uncached g c.
Proof.
  intros g c c' m H Hin E E'. unfold uncached.
  apply filter_len_strict with (m := m); auto.
  - intros x Hx. destruct (centry c x) eqn:Ex; [|reflexivity].
    exfalso. assert (centry c' x <> None) by (apply H; rewrite Ex; discriminate).
    destruct (centry c' x); [discriminate | congruence].
  - rewrite E; reflexivity.
  - destruct (centry c' m); [reflexivity | congruence].
Qed.

Lemma lookup_in : forall g m ds, lookup g m = Some ds -> In m (map fst g).
Proof.
  induction g as [|[k d] r IH]; simpl; intros m ds H; [discriminate|].
  destruct (Nat.eqb k m) eqn:E; [left; apply Nat.eqb_eq; exact E | right; eapply IH; exact H].
Qed.

Lemma uncached_nil : forall g, uncached g [] = length g.
Proof.
  intros g. unfold uncached. simpl.
  induction g as [|[k d] r IH]; simpl; [reflexivity | f_equal; exact IH].
Qed.

(* ------------------------------------------------------------------ the cache only grows *)
Lemma process_cle : forall (ld : modid -> cache -> result), (forall m c c', ld m c = Done c' -> cle c c') ->
  forall deps c c', process_with ld deps c = Done c' -> cle c c'.
Proof.
  intros ld H. induction deps as [|d ds IH]; simpl; intros c c' E.
  - injection E as <-; apply cle_refl.
  - destruct (ld d c) as [c1| |] eqn:L; try discriminate.
    eapply cle_trans; [eapply H; exact L | eapply IH; exact E].
Qed.

Lemma load_cle : forall guard g fuel m c c', load guard g fuel m c = Done c' -> cle c c'.
Proof.
  intros guard g. induction fuel as [|f IH]; simpl; intros m c c' E; [discriminate|].
  destruct (lookup g m) as [deps|]; [|discriminate].
  assert (B : forall c1, match process_with (load guard g f) deps c1 with Done c2 => Done (cache_set_ast c2 m) | r => r end = Done c' ->
                         cle c1 c').
  { intros c1 E1. destruct (process_with (load guard g f) deps c1) as [c2| |] eqn:P; try discriminate.
    injection E1 as <-. eapply cle_trans; [eapply process_cle; [exact IH | exact P] | apply cle_set]. }
  destruct (centry c m) as [[|]|] eqn:Ec.
  - injection E as <-; apply cle_refl.
  - destruct guard; [discriminate|]. eapply cle_trans; [apply cle_mark | apply B; exact E].
  - eapply cle_trans; [apply cle_mark | apply B; exact E].
Qed.

(* ------------------------------------------------------------------ totality of the repaired loader *)
Lemma process_total : forall g f (ld : modid -> cache -> result),
  (forall m c c', ld m c = Done c' -> cle c c') ->
  (forall m c, uncached g c < f -> ld m c <> NoFuel) ->
  forall deps c, uncached g c < f -> process_with ld deps c <> NoFuel.
Proof.
  intros g f ld Hcle Htot. induction deps as [|d ds IH]; simpl; intros c Hc; [discriminate|].
  destruct (ld d c) as [c1| |] eqn:L.
  - apply IH. pose proof (uncached_mono g c c1 (Hcle _ _ _ L)). lia.
  - discriminate.
  - exfalso; eapply Htot; eauto.
Qed.

Lemma load_total : forall g fuel m c, uncached g c < fuel -> load true g fuel m c <> NoFuel.
Proof.
  intros g. induction fuel as [|f IH]; intros m c Hc; [lia|]. simpl.
  destruct (lookup g m) as [deps|] eqn:Lk; [|discriminate].
  destruct (centry c m) as [[|]|] eqn:Ec; try discriminate.
  assert (Hlt : uncached g (cache_mark c m) < f).
  { pose proof (uncached_strict g c (cache_mark c m) m (cle_mark c m) (lookup_in _ _ _ Lk) Ec (centry_mark_self c m)). lia. }
  pose proof (process_total g f (load true g f) (load_cle true g f) IH deps (cache_mark c m) Hlt) as P.
  destruct (process_with (load true g f) deps (cache_mark c m)); [discriminate | discriminate | congruence].
Qed.

(* the whole import phase of a program, on every finite graph, for every program file *)
Theorem run_total : forall g main, run_guarded g main <> NoFuel.
Proof.
  intros g main. unfold run_guarded, run. destruct (lookup g main) as [deps|]; [|discriminate].
  apply process_total with (g := g) (f := S (length g)).
  - apply load_cle.
  - intros m c H. apply load_total; exact H.
  - rewrite uncached_nil; lia.
Qed.

(* more fuel never changes an answer that is not NoFuel: the verdict of run_guarded is THE verdict *)
Lemma process_fuel_mono : forall (ld ld' : modid -> cache -> result),
  (forall m c, ld m c <> NoFuel -> ld' m c = ld m c) ->
  forall deps c, process_with ld deps c <> NoFuel -> process_with ld' deps c = process_with ld deps c.
Proof.
  intros ld ld' H. induction deps as [|d ds IH]; simpl; intros c E; [reflexivity|].
  destruct (ld d c) as [c1| |] eqn:L.
  - rewrite (H d c) by (rewrite L; discriminate). rewrite L. apply IH; exact E.
  - rewrite (H d c) by (rewrite L; discriminate). rewrite L. reflexivity.
  - congruence.
Qed.

Lemma load_fuel_mono : forall guard g fuel m c, load guard g fuel m c <> NoFuel -> load guard g (S fuel) m c = load guard g fuel m c.
Proof.
  intros guard g. induction fuel as [|f IH]; intros m c E; [simpl in E; congruence|].
  remember (S f) as sf. simpl. subst sf. simpl in E. simpl.
  destruct (lookup g m) as [deps|]; [|reflexivity].
  assert (B : forall c1, match process_with (load guard g f) deps c1 with Done c2 => Done (cache_set_ast c2 m) | r => r end <> NoFuel ->
              match process_with (load guard g (S f)) deps c1 with Done c2 => Done (cache_set_ast c2 m) | r => r end =
              match process_with (load guard g f) deps c1 with Done c2 => Done (cache_set_ast c2 m) | r => r end).
  { intros c1 E1. rewrite (process_fuel_mono (load guard g f) (load guard g (S f))); [reflexivity | exact IH |].
    destruct (process_with (load guard g f) deps c1); [discriminate | discriminate | congruence]. }
  destruct (centry c m) as [[|]|]; try reflexivity.
  - destruct guard; [reflexivity | apply B; exact E].
  - apply B; exact E.
Qed.

(* ------------------------------------------------------------------ the loader of the pinned tree: re-entry is not noticed *)
Lemma unguarded_reentry_diverges : forall g m ds, lookup g m = Some (m :: ds) ->
  forall fuel c, centry c m = Some false -> load false g fuel m c = NoFuel.
Proof.
  intros g m ds Lk. induction fuel as [|f IH]; intros c Ec; [reflexivity|]. simpl.
  rewrite Lk, Ec. unfold cache_mark; rewrite Ec. simpl. rewrite (IH c Ec). reflexivity.
Qed.

Lemma unguarded_first_entry_diverges : forall g m ds, lookup g m = Some (m :: ds) ->
  forall fuel c, centry c m = None -> load false g fuel m c = NoFuel.
Proof.
  intros g m ds Lk fuel c Ec. destruct fuel as [|f]; [reflexivity|].
  cbn [load]. rewrite Lk, Ec. unfold cache_mark; rewrite Ec. cbn [process_with].
  rewrite (unguarded_reentry_diverges g m ds Lk f (c ++ [(m, false)])); [reflexivity|].
  rewrite centry_app, Ec, Nat.eqb_refl. reflexivity.
Qed.

Theorem unguarded_self_import_diverges : forall fuel, run false [(0, [0])] fuel 0 = NoFuel.
Proof.
  intros fuel. unfold run. cbn [lookup Nat.eqb process_with].
  rewrite (unguarded_first_entry_diverges [(0, [0])] 0 [] eq_refl fuel [] eq_refl). reflexivity.
Qed.

(* two files importing each other: a.nano (0, the program) <-> b.nano (1) *)
Lemma unguarded_two_cycle_aux : forall fuel c, centry c 0 = Some false -> centry c 1 = Some false ->
  load false [(0, [1]); (1, [0])] fuel 0 c = NoFuel /\ load false [(0, [1]); (1, [0])] fuel 1 c = NoFuel.
Proof.
  induction fuel as [|f IH]; intros c E0 E1; [split; reflexivity|].
  destruct (IH c E0 E1) as [H0 H1]. split; simpl.
  - rewrite E0. unfold cache_mark; rewrite E0. simpl. rewrite H1. reflexivity.
  - rewrite E1. unfold cache_mark; rewrite E1. simpl. rewrite H0. reflexivity.
Qed.

Theorem unguarded_two_cycle_diverges : forall fuel, run false [(0, [1]); (1, [0])] fuel 0 = NoFuel.
Proof.
  intros fuel. unfold run. cbn [lookup Nat.eqb process_with].
  destruct fuel as [|f]; [reflexivity|].                  (* load b: marked, its import a.nano is loaded as a module *)
  cbn [load lookup Nat.eqb centry cache_mark app process_with].
  destruct f as [|f]; [reflexivity|].                     (* load a: marked, its import b.nano: entry without AST, not consulted *)
  cbn [load lookup Nat.eqb centry cache_mark app process_with].
  destruct (unguarded_two_cycle_aux f [(1, false); (0, false)] eq_refl eq_refl) as [_ H1].
  match goal with |- context [load ?a ?b ?c ?d ?e] => replace (load a b c d e) with NoFuel by (symmetry; exact H1) end.
  reflexivity.
Qed.

(* ------------------------------------------------------------------ acceptance *)
Lemma load_done_has_ast : forall g fuel m c c', load true g fuel m c = Done c' -> has_ast c' m = true.
Proof.
  intros g fuel m c c' E. destruct fuel as [|f]; simpl in E; [discriminate|].
  destruct (lookup g m) as [deps|]; [|discriminate].
  unfold has_ast.
  destruct (centry c m) as [[|]|] eqn:Ec.
  - injection E as <-. rewrite Ec; reflexivity.
  - discriminate.
  - destruct (process_with (load true g f) deps (cache_mark c m)); try discriminate.
    injection E as <-. rewrite centry_set_self; reflexivity.
Qed.

(* ------------------------------------------------------------------ acceptance is sound: complete and acyclic *)
(* every module with an AST is a file of the graph, all its imports have an AST, and a rank strictly decreases along imports *)
Definition sound (g : graph) (c : cache) (rank : modid -> nat) : Prop :=
  forall k, has_ast c k = true ->
  exists ds, lookup g k = Some ds /\ forall d, In d ds -> has_ast c d = true /\ rank d < rank k.

Lemma has_ast_mark : forall c m k, has_ast (cache_mark c m) k = has_ast c k.
Proof.
  intros c m k. unfold has_ast, cache_mark. destruct (centry c m) eqn:E; [reflexivity|].
  rewrite centry_app. destruct (centry c k) eqn:Ek; [reflexivity|].
  destruct (Nat.eqb m k); reflexivity.
Qed.

Lemma has_ast_set : forall c m k, has_ast (cache_set_ast c m) k = if Nat.eqb k m then true else has_ast c k.
Proof.
  intros c m k. unfold has_ast. destruct (Nat.eqb k m) eqn:E.
  - apply Nat.eqb_eq in E; subst k. rewrite centry_set_self; reflexivity.
  - apply Nat.eqb_neq in E. rewrite centry_set_other by exact E. reflexivity.
Qed.

(* an AST is never taken away *)
Lemma process_ast_mono : forall (ld : modid -> cache -> result),
  (forall m c c', ld m c = Done c' -> forall k, has_ast c k = true -> has_ast c' k = true) ->
  forall deps c c', process_with ld deps c = Done c' -> forall k, has_ast c k = true -> has_ast c' k = true.
Proof.
  intros ld H. induction deps as [|d ds IH]; simpl; intros c c' E k Hk.
  - injection E as <-; exact Hk.
  - destruct (ld d c) as [c1| |] eqn:L; try discriminate. eapply IH; [exact E | eapply H; eauto].
Qed.

Lemma load_ast_mono : forall g fuel m c c', load true g fuel m c = Done c' -> forall k, has_ast c k = true -> has_ast c' k = true.
Proof.
  intros g. induction fuel as [|f IH]; simpl; intros m c c' E k Hk; [discriminate|].
  destruct (lookup g m) as [deps|]; [|discriminate].
  destruct (centry c m) as [[|]|] eqn:Ec.
  - injection E as <-; exact Hk.
  - discriminate.
  - destruct (process_with (load true g f) deps (cache_mark c m)) as [c2| |] eqn:P; try discriminate.
    injection E as <-. rewrite has_ast_set. destruct (Nat.eqb k m); [reflexivity|].
    eapply process_ast_mono; [exact IH | exact P | rewrite has_ast_mark; exact Hk].
Qed.

(* a module in progress stays in progress until its own load returns (any attempt to load it is the Cycle diagnostic) *)
Lemma process_progress_kept : forall (ld : modid -> cache -> result),
  (forall m c c', ld m c = Done c' -> forall k, centry c k = Some false -> centry c' k = Some false) ->
  forall deps c c', process_with ld deps c = Done c' -> forall k, centry c k = Some false -> centry c' k = Some false.
Proof.
  intros ld H. induction deps as [|d ds IH]; simpl; intros c c' E k Hk.
  - injection E as <-; exact Hk.
  - destruct (ld d c) as [c1| |] eqn:L; try discriminate. eapply IH; [exact E | eapply H; eauto].
Qed.

Lemma load_progress_kept : forall g fuel m c c', load true g fuel m c = Done c' ->
  forall k, centry c k = Some false -> centry c' k = Some false.
Proof.
  intros g. induction fuel as [|f IH]; simpl; intros m c c' E k Hk; [discriminate|].
  destruct (lookup g m) as [deps|]; [|discriminate].
  destruct (centry c m) as [[|]|] eqn:Ec.
  - injection E as <-; exact Hk.
  - discriminate.
  - destruct (process_with (load true g f) deps (cache_mark c m)) as [c2| |] eqn:P; try discriminate.
    injection E as <-.
    assert (Hne : k <> m) by (intros ->; congruence).
    rewrite centry_set_other by exact Hne.
    eapply process_progress_kept; [exact IH | exact P |].
    unfold cache_mark; rewrite Ec. rewrite centry_app, Hk. reflexivity.
Qed.

Lemma process_deps_loaded : forall g f deps c c', process_with (load true g f) deps c = Done c' ->
  forall d, In d deps -> has_ast c' d = true.
Proof.
  intros g f. induction deps as [|d0 ds IH]; simpl; intros c c' E d Hin; [contradiction|].
  destruct (load true g f d0 c) as [c1| |] eqn:L; try discriminate.
  destruct Hin as [<-|Hin].
  - eapply process_ast_mono; [apply load_ast_mono | exact E | eapply load_done_has_ast; exact L].
  - eapply IH; eauto.
Qed.

Lemma list_max_ge : forall l x, In x l -> x <= list_max l.
Proof.
  induction l as [|y r IH]; simpl; intros x H; [contradiction|].
  destruct H as [->|H]; [lia | specialize (IH x H); lia].
Qed.

Lemma process_sound : forall g (ld : modid -> cache -> result),
  (forall m c c', ld m c = Done c' -> (exists rank, sound g c rank) -> exists rank', sound g c' rank') ->
  forall deps c c', process_with ld deps c = Done c' -> (exists rank, sound g c rank) -> exists rank', sound g c' rank'.
Proof.
  intros g ld H. induction deps as [|d ds IH]; simpl; intros c c' E HS.
  - injection E as <-; exact HS.
  - destruct (ld d c) as [c1| |] eqn:L; try discriminate. eapply IH; [exact E | eapply H; eauto].
Qed.

Lemma load_sound : forall g fuel m c c', load true g fuel m c = Done c' ->
  (exists rank, sound g c rank) -> exists rank', sound g c' rank'.
Proof.
  intros g. induction fuel as [|f IH]; simpl; intros m c c' E HS; [discriminate|].
  destruct (lookup g m) as [deps|] eqn:Lk; [|discriminate].
  destruct (centry c m) as [[|]|] eqn:Ec.
  - injection E as <-; exact HS.
  - discriminate.
  - destruct (process_with (load true g f) deps (cache_mark c m)) as [c2| |] eqn:P; try discriminate.
    injection E as <-.
    assert (S1 : exists rank, sound g (cache_mark c m) rank).
    { destruct HS as [rank HS]. exists rank. intros k Hk. rewrite has_ast_mark in Hk.
      destruct (HS k Hk) as [ds [Hl Hd]]. exists ds; split; [exact Hl|].
      intros d Hin. rewrite has_ast_mark. apply Hd; exact Hin. }
    destruct (process_sound g (load true g f) IH deps _ _ P S1) as [rank2 S2].
    assert (Hm2 : has_ast c2 m = false).
    { unfold has_ast. erewrite (process_progress_kept (load true g f) (load_progress_kept g f) deps _ _ P m); [reflexivity|].
      unfold cache_mark; rewrite Ec. rewrite centry_app, Ec, Nat.eqb_refl. reflexivity. }
    exists (fun k => if Nat.eqb k m then S (list_max (map rank2 deps)) else rank2 k).
    intros k Hk. rewrite has_ast_set in Hk. destruct (Nat.eqb k m) eqn:Ekm.
    + apply Nat.eqb_eq in Ekm; subst k. exists deps; split; [exact Lk|].
      intros d Hin. pose proof (process_deps_loaded g f deps _ _ P d Hin) as Hd.
      assert (Hdm : Nat.eqb d m = false) by (apply Nat.eqb_neq; intros ->; congruence).
      rewrite has_ast_set, Hdm. split; [exact Hd|].
      pose proof (list_max_ge (map rank2 deps) (rank2 d) (in_map rank2 deps d Hin)). lia.
    + destruct (S2 k Hk) as [ds [Hl Hd]]. exists ds; split; [exact Hl|].
      intros d Hin. destruct (Hd d Hin) as [Ha Hr].
      assert (Hdm : Nat.eqb d m = false) by (apply Nat.eqb_neq; intros ->; congruence).
      rewrite has_ast_set, Hdm. split; [exact Ha | exact Hr].
Qed.

(* acceptance of the import phase: every import of the program is loaded; every loaded module is a file of the graph whose own imports
   are all loaded; and a rank strictly decreases along every import edge between loaded modules -- so there is no import cycle *)
Theorem run_accept_sound : forall g main deps c, lookup g main = Some deps -> run_guarded g main = Done c ->
  (forall d, In d deps -> has_ast c d = true) /\ exists rank, sound g c rank.
Proof.
  intros g main deps c Lk E. unfold run_guarded, run in E. rewrite Lk in E. split.
  - intros d Hin. eapply process_deps_loaded; eauto.
  - eapply (process_sound g (load true g (S (length g))) (load_sound g (S (length g)))); [exact E|].
    exists (fun _ => 0). intros k Hk. unfold has_ast in Hk. simpl in Hk. discriminate.
Qed.

(* consequence: no accepted import phase contains a module that (transitively, through loaded modules) imports itself *)
Corollary sound_no_self_import : forall g c rank k ds, sound g c rank -> has_ast c k = true -> lookup g k = Some ds -> ~ In k ds.
Proof.
  intros g c rank k ds S Hk Lk Hin. destruct (S k Hk) as [ds' [Lk' Hd]].
  rewrite Lk in Lk'. injection Lk' as <-. destruct (Hd k Hin) as [_ Hr]. lia.
Qed.
