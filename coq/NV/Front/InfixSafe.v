(* Which surface trees does the infix spelling of ExprParser.pp_infix denote correctly on the parser as it is NOW?
   DEFINITIONS ONLY (extracted: the correspondence uses [infix_class] to name the defect class of a tree).

   One node-local condition is left; a tree is [infix_safe] when every node meets it:
     ok_group : a parenthesised group does not begin with a unary operator     (2 * (-a + 1)  parses the group as the
                                                                                 prefix form (- (a + 1)))
   This is the open language question of finding c07:infix:group-leading-unary: `(- a + 1)` is also the legal prefix form
   "negate (a + 1)".  The three other conditions of the first version (postfix form on a right operand, postfix form on a
   unary operand, UPPERCASE variable left of '<') are gone with the parser fixes 1b19ab4 and afe9379. *)
From Coq Require Import NArith ZArith List Bool.
From NV Require Import gen.Tokens gen.ParserConsts Front.ExprParser.
Import ListNotations.

Definition is_postfix (s : sx) : bool := match s with SField _ _ | STIdx _ _ => true | _ => false end.

(* the printed form begins with a unary operator token *)
Fixpoint lead_un (s : sx) : bool :=
  match s with SUn _ _ => true | SBin _ a _ => lead_un a | _ => false end.

(* the printed form ends with the identifier token of a variable that parse_primary reads *)
Fixpoint last_var (s : sx) : option bytes :=
  match s with
  | SVar x => Some x
  | SBin _ _ b => if is_bin b then None else last_var b
  | SUn _ a => if is_bin a then None else last_var a
  | _ => None
  end.

Definition is_lt (k : kind) : bool := match k with K_LT => true | _ => false end.
Definition upper_opt (o : option bytes) : bool := match o with Some x => is_upper x | None => false end.
Definition bad_group (s : sx) : bool := is_bin s && lead_un s.

Definition ok_group (s : sx) : bool :=
  match s with
  | SBin _ _ b => negb (bad_group b)
  | SUn _ a => negb (bad_group a)
  | SField a _ | STIdx a _ => negb (bad_group a)
  | SCall _ args => forallb (fun a => negb (bad_group a)) args
  | _ => true
  end.

Fixpoint forall_sub (P : sx -> bool) (s : sx) : bool :=
  P s &&
  match s with
  | SBin _ a b => forall_sub P a && forall_sub P b
  | SUn _ a | SField a _ | STIdx a _ => forall_sub P a
  | SCall _ args => (fix go (l : list sx) : bool := match l with [] => true | a :: r => forall_sub P a && go r end) args
  | _ => true
  end.

Definition node_ok (s : sx) : bool := ok_group s.
Definition infix_safe (s : sx) : bool := forall_sub node_ok s.

Inductive iclass : Set := CSafe | CGroupUnary.
Definition infix_class (s : sx) : iclass := if infix_safe s then CSafe else CGroupUnary.

(* well-formed surface tree: binary nodes carry one of the 13 infix operators, unary nodes '-' or 'not' *)
Definition is_unary_op (k : kind) : bool := match k with K_MINUS | K_NOT => true | _ => false end.
Definition wf_node (s : sx) : bool :=
  match s with SBin op _ _ => is_infix_binary_op op | SUn op _ => is_unary_op op | _ => true end.
Definition wf_sx (s : sx) : bool := forall_sub wf_node s.

(* nesting of parse_expression activations the infix spelling needs *)
Fixpoint nest_infix (s : sx) : nat :=
  match s with
  | SNum _ | SBool _ | SVar _ => 1
  | SBin _ a b => Nat.max (nest_infix a) (if is_bin b then S (nest_infix b) else nest_infix b)
  | SUn _ a => S (if is_bin a then S (nest_infix a) else nest_infix a)      (* enter_nested: the operand counts a level *)
  | SField a _ | STIdx a _ => if is_bin a || is_un a then S (nest_infix a) else nest_infix a
  | SCall _ args =>
      S (fold_right (fun a m => Nat.max (if starts_with_minus (pp_infix a) then S (nest_infix a) else nest_infix a) m) 1 args)
  end.
