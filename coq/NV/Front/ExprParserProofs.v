(* Proofs about the expression-parser model NV/Front/ExprParser.v (lemmas only; the property theorems that cite
   them are in NV/Props/Properties_C07.v).
   Contents: 1. (in ExprParserMono.v) fuel monotonicity: the model's answer does not depend on the fuel once it is not OutOfFuel;
             2. round trip of the prefix spelling, with an explicit fuel bound (so it holds for [parse] as extracted);
             3. round trip of the infix spelling for [infix_safe] trees ("for every sufficiently large fuel");
             4. the four witnesses that refute the unrestricted infix round trip on the parser as it is. *)
From Coq Require Import NArith ZArith List Bool Lia Arith.
From NV Require Import gen.Tokens gen.ParserConsts Front.ExprParser Front.InfixSafe Front.ExprParserMono.
Import ListNotations.

(* ================================================================ 2. prefix spelling *)
Section SxInd.
  Variable P : sx -> Prop.
  Hypothesis HN : forall z, P (SNum z).
  Hypothesis HB : forall b, P (SBool b).
  Hypothesis HV : forall x, P (SVar x).
  Hypothesis HO : forall op a b, P a -> P b -> P (SBin op a b).
  Hypothesis HU : forall op a, P a -> P (SUn op a).
  Hypothesis HF : forall a f, P a -> P (SField a f).
  Hypothesis HI : forall a i, P a -> P (STIdx a i).
  Hypothesis HC : forall f args, Forall P args -> P (SCall f args).
  Fixpoint sx_ind' (s : sx) : P s :=
    match s with
    | SNum z => HN z | SBool b => HB b | SVar x => HV x
    | SBin op a b => HO op a b (sx_ind' a) (sx_ind' b)
    | SUn op a => HU op a (sx_ind' a)
    | SField a f => HF a f (sx_ind' a)
    | STIdx a i => HI a i (sx_ind' a)
    | SCall f args => HC f args ((fix go (l : list sx) : Forall P l := match l with [] => Forall_nil P | a :: r => Forall_cons a (sx_ind' a) (go r) end) args)
    end.
End SxInd.

Lemma run_S f c : run (S f) c = body (run f) c. Proof. reflexivity. Qed.

(* ---------------------------------------------------------------- token facts *)
Definition arg_start (c : pk) : bool :=
  match c with P_NUMBER | P_TRUE | P_FALSE | P_IDENT | P_LPAREN => true | _ => false end.
Definition stop_c (c : pk) : bool :=
  match c with P_DOT | P_LT | P_MINUS | P_INFIX | P_LBRACE | P_DCOLON => false | _ => true end.
(* what may follow an identifier that parse_primary reads, so that it is read as a plain variable *)
Definition vfo (ts : list token) : bool :=
  match curc ts with
  | P_LBRACE | P_DCOLON | P_LT => false
  | P_DOT => match peek ts 1, peek ts 2 with P_IDENT, P_LBRACE => false | _, _ => true end
  | _ => true
  end.

Lemma stop_vfo ts : stop_c (curc ts) = true -> vfo ts = true.
Proof. unfold vfo. destruct (curc ts); simpl; congruence. Qed.

Lemma pp_prefix_first s : exists t r, pp_prefix s = t :: r /\ arg_start (pclass (tk t)) = true.
Proof.
  induction s using sx_ind'; cbn [pp_prefix]; try (eexists; eexists; split; [reflexivity|reflexivity]).
  - destruct b; eexists; eexists; split; reflexivity.
  - destruct IHs as (t & r & E & A). rewrite E. eexists; eexists; split; [reflexivity|exact A].
  - destruct IHs as (t & r & E & A). rewrite E. eexists; eexists; split; [reflexivity|exact A].
Qed.

Lemma ident_plain x rest err :
  vfo rest = true ->
  ident_body (Tok K_IDENTIFIER x) (Tok K_IDENTIFIER x :: rest) rest err = Ok (Some (EVar x)) rest err.
Proof.
  unfold vfo, ident_body. cbv zeta.
  change (peek (Tok K_IDENTIFIER x :: rest) 1) with (curc rest).
  change (peek (Tok K_IDENTIFIER x :: rest) 2) with (peek rest 1).
  change (peek (Tok K_IDENTIFIER x :: rest) 3) with (peek rest 2).
  change (tv (Tok K_IDENTIFIER x)) with x.
  destruct (curc rest) eqn:E1; try discriminate; try (intros _; cbn; destruct (is_upper x); reflexivity).
  (* DOT *)
  destruct (peek rest 1) eqn:E2; try (intros _; cbn; destruct (is_upper x); reflexivity).
  destruct (peek rest 2) eqn:E3; try discriminate; intros _; cbn;
    destruct (is_upper (peekv (Tok K_IDENTIFIER x :: rest) 2)); reflexivity.
Qed.

(* ---------------------------------------------------------------- the postfix loop *)
Lemma dots_stop e ts err : curc ts <> P_DOT -> dots e ts err = DCont e ts err.
Proof.
  destruct ts as [|t r]; [reflexivity|]. unfold curc; cbn [cur dots]. intros H.
  destruct (pclass (tk t)); try reflexivity. congruence.
Qed.
Lemma dots_field e f rest err :
  curc rest <> P_LBRACE -> dots e (T K_DOT :: Tok K_IDENTIFIER f :: rest) err = dots (EField e f) rest err.
Proof.
  intros H. cbn [dots T tk pclass tv]. destruct (curc rest); try reflexivity. congruence.
Qed.
Lemma dots_tidx e i rest err :
  dots e (T K_DOT :: Tok K_NUMBER i :: rest) err = dots (ETIdx e (wrap32 (atoll i))) rest err.
Proof. reflexivity. Qed.

(* ---------------------------------------------------------------- fuel the prefix spelling needs *)
Fixpoint fpp (s : sx) : nat :=
  match s with
  | SNum _ | SBool _ | SVar _ => 1
  | SBin _ a b => 8 + fpp a + fpp b
  | SUn _ a => 6 + fpp a
  | SField a _ | STIdx a _ => fpp a
  | SCall _ args => 4 + fold_right (fun a m => 2 + fpp a + m) 1 args
  end.

Definition Hp (s : sx) : Prop :=
  forall f d rest err, fpp s <= f -> d + nest_prefix s <= S MAXD -> vfo rest = true ->
  exists c st, run f (CPrim d (pp_prefix s ++ rest) err) = Ok (Some c) (st ++ rest) err /\
               (forall rest2 e2, curc rest2 <> P_LBRACE -> dots c (st ++ rest2) e2 = dots (denote s) rest2 e2).

Definition Ep (s : sx) : Prop :=
  forall f d rest err, S (fpp s) <= f -> d + nest_prefix s <= MAXD -> stop_c (curc rest) = true ->
  run f (CExpr d (pp_prefix s ++ rest) err) = Ok (Some (denote s)) rest err.

Lemma fpp_pos s : 1 <= fpp s.
Proof. induction s using sx_ind'; cbn [fpp]; lia. Qed.

Lemma nest_prefix_pos s : 1 <= nest_prefix s.
Proof. induction s using sx_ind'; cbn [nest_prefix]; lia. Qed.

Lemma stop_not_infix ts : stop_c (curc ts) = true -> is_infix_binary_op (cur ts) = false.
Proof. unfold is_infix_binary_op, curc. destruct (pclass (cur ts)); simpl; congruence. Qed.

Lemma Ep_of_Hp s : Hp s -> Ep s.
Proof.
  intros H f d rest err Hf Hd Hstop.
  destruct f as [|f]; [lia|]. rewrite run_S. cbn [body]. unfold expression_body.
  replace (Nat.ltb MAXD (S d)) with false.
  2:{ symmetry. apply Nat.ltb_ge. pose proof (nest_prefix_pos s). lia. }
  destruct (pp_prefix_first s) as (t & r & E & A).
  assert (Hc : curc (pp_prefix s ++ rest) = pclass (tk t)) by (rewrite E; reflexivity).
  destruct (H f (S d) rest err ltac:(lia) ltac:(lia) (stop_vfo _ Hstop)) as (c & st & Hprim & Hdots).
  rewrite Hprim.
  assert (Hloop : run f (CLoop (S d) c (st ++ rest) err) = Ok (Some (denote s)) rest err).
  { pose proof (fpp_pos s). destruct f as [|f]; [lia|]. rewrite run_S. cbn [body]. unfold loop_body.
    rewrite Hdots by (destruct (curc rest); simpl in Hstop; congruence).
    rewrite dots_stop by (destruct (curc rest); simpl in Hstop; congruence).
    rewrite (stop_not_infix _ Hstop). reflexivity. }
  rewrite Hc. destruct (pclass (tk t)); simpl in A; try discriminate; exact Hloop.
Qed.

Lemma forall_sub_call P f args :
  forall_sub P (SCall f args) = P (SCall f args) && forallb (forall_sub P) args.
Proof.
  cbn [forall_sub]. apply f_equal. induction args as [|a r IH]; [reflexivity|]. cbn [forallb]. rewrite <- IH. reflexivity.
Qed.

Lemma infix_is_prefix op : is_infix_binary_op op = true -> is_prefix_operator op = true.
Proof. unfold is_infix_binary_op, is_prefix_operator, is_prefix_operator_c. destruct (pclass op); simpl; congruence. Qed.
Lemma infix_not_rparen op : is_infix_binary_op op = true -> pclass op <> P_RPAREN.
Proof. unfold is_infix_binary_op. destruct (pclass op); simpl; congruence. Qed.
Lemma unary_is_prefix op : is_unary_op op = true -> is_prefix_operator op = true.
Proof. destruct op; intros H; try discriminate H; reflexivity. Qed.
Lemma unary_not_rparen op : is_unary_op op = true -> pclass op <> P_RPAREN.
Proof. destruct op; intros H; try discriminate H; discriminate. Qed.

Lemma arg_start_stop c : arg_start c = true -> stop_c c = true.
Proof. destruct c; simpl; congruence. Qed.
Lemma arg_start_not_end ts : arg_start (curc ts) = true -> at_rparen_or_eof ts = false.
Proof. unfold at_rparen_or_eof. destruct (curc ts); simpl; congruence. Qed.

Lemma curc_pp_prefix s rest : arg_start (curc (pp_prefix s ++ rest)) = true.
Proof. destruct (pp_prefix_first s) as (t & r & E & A). rewrite E. exact A. Qed.

Lemma length_app_neq (A : Type) (l r : list A) : l <> [] -> Nat.eqb (length r) (length (l ++ r)) = false.
Proof. intros H. apply Nat.eqb_neq. rewrite app_length. destruct l; [congruence|]. simpl. lia. Qed.
Lemma pp_prefix_nonempty s : pp_prefix s <> [].
Proof. destruct (pp_prefix_first s) as (t & r & E & _). rewrite E. discriminate. Qed.

(* the two argument loops over the printed arguments *)
Definition need_list (args : list sx) : nat := fold_right (fun a m => 2 + fpp a + m) 1 args.
Definition nest_list (args : list sx) (z : nat) : nat := fold_right (fun a m => Nat.max (nest_prefix a) m) z args.

Lemma nest_list_le args z a : In a args -> nest_prefix a <= nest_list args z.
Proof. induction args as [|b r IH]; [intros []|]. intros [->|H]; cbn; [lia|]. specialize (IH H). unfold nest_list in IH. lia. Qed.
Lemma nest_list_base args z : z <= nest_list args z.
Proof. induction args; cbn; [lia|]. unfold nest_list in *. lia. Qed.

Lemma fail_list args : Forall Ep args ->
  forall g d mk acc rest err, need_list args <= g -> (forall a, In a args -> d + nest_prefix a <= MAXD) ->
  run g (CFail d mk acc (flat_map pp_prefix args ++ T K_RPAREN :: rest) err) = Ok (Some (mk (acc ++ map denote args))) rest err.
Proof.
  induction 1 as [|a r Ha Hr IH]; intros g d mk acc rest err Hg Hd.
  - cbn in Hg. destruct g; [lia|]. rewrite app_nil_r. reflexivity.
  - cbn [need_list fold_right] in Hg. destruct g as [|g]; [lia|]. rewrite run_S. cbn [body]. unfold fail_body.
    cbn [flat_map]. rewrite <- app_assoc.
    rewrite arg_start_not_end by apply curc_pp_prefix.
    rewrite (Ha g d _ err); [| fold (need_list r) in Hg; lia | apply Hd; left; reflexivity |].
    + cbn [map]. rewrite IH; [| fold (need_list r) in Hg; lia | intros; apply Hd; right; assumption].
      rewrite <- app_assoc. reflexivity.
    + destruct r as [|b r']; [reflexivity|]. cbn [flat_map]. rewrite <- app_assoc. apply arg_start_stop, curc_pp_prefix.
Qed.

Lemma nofail_list args : Forall Ep args ->
  forall g d mk acc rest err, need_list args <= g -> (forall a, In a args -> d + nest_prefix a <= MAXD) ->
  run g (CNoFail d mk acc (flat_map pp_prefix args ++ T K_RPAREN :: rest) err) = Ok (Some (mk (acc ++ map denote args))) rest err.
Proof.
  induction 1 as [|a r Ha Hr IH]; intros g d mk acc rest err Hg Hd.
  - cbn in Hg. destruct g; [lia|]. rewrite app_nil_r. reflexivity.
  - cbn [need_list fold_right] in Hg. destruct g as [|g]; [lia|]. rewrite run_S. cbn [body]. unfold nofail_body.
    cbn [flat_map]. rewrite <- app_assoc.
    rewrite arg_start_not_end by apply curc_pp_prefix.
    rewrite (Ha g d _ err); [| fold (need_list r) in Hg; lia | apply Hd; left; reflexivity |].
    + rewrite length_app_neq by apply pp_prefix_nonempty.
      cbn [map opt_expr]. rewrite IH; [| fold (need_list r) in Hg; lia | intros; apply Hd; right; assumption].
      rewrite <- app_assoc. reflexivity.
    + destruct r as [|b r']; [reflexivity|]. cbn [flat_map]. rewrite <- app_assoc. apply arg_start_stop, curc_pp_prefix.
Qed.

Lemma pp_bin_app op a b rest :
  pp_prefix (SBin op a b) ++ rest = T K_LPAREN :: T op :: flat_map pp_prefix [a; b] ++ T K_RPAREN :: rest.
Proof. cbn [pp_prefix flat_map app]. rewrite app_nil_r, <- !app_assoc. reflexivity. Qed.
Lemma pp_un_app op a rest :
  pp_prefix (SUn op a) ++ rest = T K_LPAREN :: T op :: flat_map pp_prefix [a] ++ T K_RPAREN :: rest.
Proof. cbn [pp_prefix flat_map app]. rewrite app_nil_r, <- !app_assoc. reflexivity. Qed.
Lemma pp_call_app f args rest :
  pp_prefix (SCall f args) ++ rest = T K_LPAREN :: Tok K_IDENTIFIER f :: flat_map pp_prefix args ++ T K_RPAREN :: rest.
Proof. cbn [pp_prefix app]. rewrite <- !app_assoc. reflexivity. Qed.

Lemma vfo_dot_ident f rest : vfo rest = true -> vfo (T K_DOT :: Tok K_IDENTIFIER f :: rest) = true.
Proof. unfold vfo, peek, curc. cbn [skipn cur tk T pclass]. destruct (pclass (cur rest)); intros H; try reflexivity; discriminate H. Qed.

Lemma Hp_var x : Hp (SVar x).
Proof.
  intros f0 d rest err Hf Hd Hv.
  cbn in Hf. destruct f0; [lia|]. exists (EVar x), []. split; [|intros; reflexivity].
  rewrite run_S. cbn [body pp_prefix app]. unfold primary_body. cbn [tk pclass]. apply ident_plain, Hv.
Qed.

Lemma Hp_all s : wf_sx s = true -> Hp s.
Proof.
  induction s using sx_ind'; intros Hwf f0 d rest err Hf Hd Hv.
  - (* SNum *) cbn in Hf. destruct f0; [lia|]. exists (ENum (atoll z)), []. split; [reflexivity|intros; reflexivity].
  - (* SBool *) cbn in Hf. destruct f0; [lia|]. exists (EBool b), []. split; [destruct b; reflexivity|intros; reflexivity].
  - (* SVar *) apply Hp_var; assumption.
  - (* SBin *)
    unfold wf_sx in Hwf. cbn [forall_sub wf_node] in Hwf. apply andb_prop in Hwf as [Hop Hwf]. apply andb_prop in Hwf as [Hwa Hwb].
    specialize (IHs1 Hwa). specialize (IHs2 Hwb).
    cbn [fpp] in Hf. cbn [nest_prefix] in Hd.
    exists (denote (SBin op s1 s2)), []. split; [|intros; reflexivity].
    rewrite pp_bin_app.
    destruct f0 as [|f1]; [lia|]. rewrite run_S. cbn [body]. unfold primary_body. cbn [tk T pclass curc cur].
    pose proof (infix_not_rparen _ Hop) as Hnr. pose proof (infix_is_prefix _ Hop) as Hpo.
    assert (Hgo : run f1 (CPrefix d (Tok K_LPAREN [] :: Tok op [] :: flat_map pp_prefix [s1; s2] ++ Tok K_RPAREN [] :: rest) err)
                  = Ok (Some (EOp op [denote s1; denote s2])) rest err).
    { destruct f1 as [|f2]; [lia|]. rewrite run_S. cbn [body]. unfold prefix_op_body. cbv zeta. cbn [curc cur tk pclass adv]. rewrite Hpo.
      rewrite nofail_list; [reflexivity | | |].
      - constructor; [apply Ep_of_Hp, IHs1|constructor; [apply Ep_of_Hp, IHs2|constructor]].
      - cbn. lia.
      - intros a [<-|[<-|[]]]; lia. }
    rewrite Hpo. unfold curc. cbn [cur tk T]. destruct (pclass op) eqn:Eop; try congruence; exact Hgo.
  - (* SUn *)
    unfold wf_sx in Hwf. cbn [forall_sub wf_node] in Hwf. apply andb_prop in Hwf as [Hop Hwa].
    specialize (IHs Hwa). cbn [fpp] in Hf. cbn [nest_prefix] in Hd.
    exists (denote (SUn op s)), []. split; [|intros; reflexivity].
    rewrite pp_un_app.
    destruct f0 as [|f1]; [lia|]. rewrite run_S. cbn [body]. unfold primary_body. cbn [tk T pclass curc cur].
    pose proof (unary_not_rparen _ Hop) as Hnr. pose proof (unary_is_prefix _ Hop) as Hpo.
    assert (Hgo : run f1 (CPrefix d (Tok K_LPAREN [] :: Tok op [] :: flat_map pp_prefix [s] ++ Tok K_RPAREN [] :: rest) err)
                  = Ok (Some (EOp op [denote s])) rest err).
    { destruct f1 as [|f2]; [lia|]. rewrite run_S. cbn [body]. unfold prefix_op_body. cbv zeta. cbn [curc cur tk pclass adv]. rewrite Hpo.
      rewrite nofail_list; [reflexivity | | |].
      - constructor; [apply Ep_of_Hp, IHs|constructor].
      - cbn. lia.
      - intros a [<-|[]]; lia. }
    rewrite Hpo. unfold curc. cbn [cur tk T]. destruct (pclass op) eqn:Eop; try congruence; exact Hgo.
  - (* SField *)
    unfold wf_sx in Hwf. cbn [forall_sub wf_node] in Hwf. simpl in Hwf.
    specialize (IHs Hwf). cbn [fpp] in Hf. cbn [nest_prefix] in Hd.
    cbn [pp_prefix]. rewrite <- app_assoc.
    destruct (IHs f0 d ([T K_DOT; Tok K_IDENTIFIER f] ++ rest) err Hf Hd) as (c & st & Hprim & Hdots).
    { apply vfo_dot_ident, Hv. }
    exists c, (st ++ [T K_DOT; Tok K_IDENTIFIER f]). split.
    + rewrite Hprim. rewrite <- app_assoc. reflexivity.
    + intros rest2 e2 H2. rewrite <- app_assoc. cbn [app]. rewrite Hdots by (cbn; discriminate).
      cbn [denote]. apply dots_field, H2.
  - (* STIdx *)
    unfold wf_sx in Hwf. cbn [forall_sub wf_node] in Hwf. simpl in Hwf.
    specialize (IHs Hwf). cbn [fpp] in Hf. cbn [nest_prefix] in Hd.
    cbn [pp_prefix]. rewrite <- app_assoc.
    destruct (IHs f0 d ([T K_DOT; Tok K_NUMBER i] ++ rest) err Hf Hd) as (c & st & Hprim & Hdots).
    { reflexivity. }
    exists c, (st ++ [T K_DOT; Tok K_NUMBER i]). split.
    + rewrite Hprim. rewrite <- app_assoc. reflexivity.
    + intros rest2 e2 H2. rewrite <- app_assoc. cbn [app]. rewrite Hdots by (cbn; discriminate).
      cbn [denote]. apply dots_tidx.
  - (* SCall *)
    unfold wf_sx in Hwf. rewrite forall_sub_call in Hwf. cbn [wf_node andb] in Hwf.
    assert (HE : Forall Ep args).
    { rewrite Forall_forall in *. intros a Ha. apply Ep_of_Hp, H; [exact Ha|]. rewrite forallb_forall in Hwf. apply Hwf, Ha. }
    cbn [fpp] in Hf. fold (need_list args) in Hf. cbn [nest_prefix] in Hd. fold (nest_list args 1) in Hd.
    exists (denote (SCall f args)), []. split; [|intros; reflexivity].
    rewrite pp_call_app.
    destruct f0 as [|f1]; [lia|]. rewrite run_S. cbn [body]. unfold primary_body. cbn [tk T pclass curc cur].
    cbn [is_prefix_operator is_prefix_operator_c is_infix_c pclass]. unfold paren_body.
    (* the callee identifier, read by parse_expression *)
    assert (Hid : run f1 (CExpr d (Tok K_IDENTIFIER f :: flat_map pp_prefix args ++ Tok K_RPAREN [] :: rest) err)
                  = Ok (Some (EVar f)) (flat_map pp_prefix args ++ Tok K_RPAREN [] :: rest) err).
    { apply (Ep_of_Hp (SVar f)) with (rest := flat_map pp_prefix args ++ Tok K_RPAREN [] :: rest).
      - apply Hp_var.
      - cbn. lia.
      - cbn [nest_prefix]. pose proof (nest_list_base args 1). lia.
      - destruct args as [|a r]; [reflexivity|]. cbn [flat_map]. rewrite <- app_assoc. apply arg_start_stop, curc_pp_prefix. }
    unfold T. rewrite Hid.
    destruct args as [|a r].
    + reflexivity.
    + assert (Hst : arg_start (curc (flat_map pp_prefix (a :: r) ++ Tok K_RPAREN [] :: rest)) = true)
        by (cbn [flat_map]; rewrite <- app_assoc; apply curc_pp_prefix).
      assert (Hfl : run f1 (CFail d (fun a0 => ECall f a0) [] (flat_map pp_prefix (a :: r) ++ T K_RPAREN :: rest) err)
                    = Ok (Some (ECall f ([] ++ map denote (a :: r)))) rest err).
      { apply fail_list; [exact HE | lia |].
        intros b Hb. pose proof (nest_list_le (a :: r) 1 b Hb). lia. }
      unfold T in Hfl.
      destruct (curc (flat_map pp_prefix (a :: r) ++ Tok K_RPAREN [] :: rest)); simpl in Hst; try discriminate; exact Hfl.
Qed.

(* ================================================================ 3. infix spelling *)
(* ---------------------------------------------------------------- "for every sufficiently large fuel" *)
Definition ev (c : call) (r : res) : Prop := exists n, forall f, n <= f -> run f c = r.

Lemma ev_body c r : (exists n, forall f, n <= f -> body (run f) c = r) -> ev c r.
Proof. intros [n H]. exists (S n). intros f Hf. destruct f; [lia|]. rewrite run_S. apply H. lia. Qed.

Lemma ev_det c r r' : ev c r -> ev c r' -> r = r'.
Proof. intros [n H] [n' H']. rewrite <- (H (n + n')), <- (H' (n + n')) by lia. reflexivity. Qed.

(* ---------------------------------------------------------------- the printed forms *)
Definition rhs (s : sx) : list token := if is_bin s then paren (pp_infix s) else pp_infix s.
Definition obj (s : sx) : list token := if is_bin s || is_un s then paren (pp_infix s) else pp_infix s.
Definition argp (s : sx) : list token := let l := pp_infix s in if starts_with_minus l then paren l else l.

Lemma pp_infix_bin op a b : pp_infix (SBin op a b) = pp_infix a ++ T op :: rhs b. Proof. reflexivity. Qed.
Lemma pp_infix_un op a : pp_infix (SUn op a) = T op :: rhs a. Proof. reflexivity. Qed.
Lemma pp_infix_field a f : pp_infix (SField a f) = obj a ++ [T K_DOT; Tok K_IDENTIFIER f]. Proof. reflexivity. Qed.
Lemma pp_infix_tidx a i : pp_infix (STIdx a i) = obj a ++ [T K_DOT; Tok K_NUMBER i]. Proof. reflexivity. Qed.
Lemma pp_infix_call f args : pp_infix (SCall f args) = T K_LPAREN :: Tok K_IDENTIFIER f :: flat_map argp args ++ [T K_RPAREN]. Proof. reflexivity. Qed.

(* first token *)
Definition first_ok (c : pk) : bool := match c with P_NUMBER | P_TRUE | P_FALSE | P_IDENT | P_LPAREN | P_MINUS | P_NOT => true | _ => false end.

Lemma pp_infix_first s : wf_sx s = true ->
  exists t r, pp_infix s = t :: r /\ first_ok (pclass (tk t)) = true /\
              (lead_un s = false -> arg_start (pclass (tk t)) = true).
Proof.
  induction s using sx_ind'; intros Hwf.
  - eexists; eexists; split; [reflexivity|split; [reflexivity|reflexivity]].
  - destruct b; eexists; eexists; split; try reflexivity; split; reflexivity.
  - eexists; eexists; split; [reflexivity|split; [reflexivity|reflexivity]].
  - unfold wf_sx in Hwf. cbn [forall_sub wf_node] in Hwf. apply andb_prop in Hwf as [Hop Hwf]. apply andb_prop in Hwf as [Hwa Hwb].
    destruct (IHs1 Hwa) as (t & r & E & A & B). rewrite pp_infix_bin, E. eexists; eexists; split; [reflexivity|split; [exact A|exact B]].
  - unfold wf_sx in Hwf. cbn [forall_sub wf_node] in Hwf. apply andb_prop in Hwf as [Hop Hwa].
    rewrite pp_infix_un. eexists; eexists; split; [reflexivity|split].
    + destruct op; try discriminate Hop; reflexivity.
    + discriminate.
  - unfold wf_sx in Hwf. cbn [forall_sub wf_node] in Hwf. simpl in Hwf.
    rewrite pp_infix_field. unfold obj. destruct (is_bin s || is_un s) eqn:Eb.
    + eexists; eexists; split; [reflexivity|split; reflexivity].
    + destruct (IHs Hwf) as (t & r & E & A & B). rewrite E. eexists; eexists; split; [reflexivity|split; [exact A|]].
      intros _. apply B. destruct s; try reflexivity; discriminate Eb.
  - unfold wf_sx in Hwf. cbn [forall_sub wf_node] in Hwf. simpl in Hwf.
    rewrite pp_infix_tidx. unfold obj. destruct (is_bin s || is_un s) eqn:Eb.
    + eexists; eexists; split; [reflexivity|split; reflexivity].
    + destruct (IHs Hwf) as (t & r & E & A & B). rewrite E. eexists; eexists; split; [reflexivity|split; [exact A|]].
      intros _. apply B. destruct s; try reflexivity; discriminate Eb.
  - rewrite pp_infix_call. eexists; eexists; split; [reflexivity|split; reflexivity].
Qed.

(* ---------------------------------------------------------------- what may follow *)
Definition followv (o : option bytes) (ts : list token) : bool :=
  match curc ts with
  | P_LBRACE | P_DCOLON => false
  | P_LT => negb (upper_opt o)
  | P_DOT => match peek ts 1, peek ts 2 with P_IDENT, P_LBRACE => false | _, _ => true end
  | _ => true
  end.
Definition follow (s : sx) (ts : list token) : bool := followv (last_var s) ts.
Definition rhs_var (s : sx) : option bytes := if is_bin s then None else last_var s.

Lemma stop_followv o ts : stop_c (curc ts) = true -> followv o ts = true.
Proof. unfold followv. destruct (curc ts); simpl; congruence. Qed.
Lemma followv_not_lbrace o ts : followv o ts = true -> curc ts <> P_LBRACE.
Proof. unfold followv. destruct (curc ts); congruence. Qed.
Lemma followv_dot_ident o f R : curc R <> P_LBRACE -> followv o (T K_DOT :: Tok K_IDENTIFIER f :: R) = true.
Proof. unfold followv, peek, curc. cbn [skipn cur tk T pclass]. destruct (pclass (cur R)); congruence. Qed.
Lemma followv_dot_num o i R : followv o (T K_DOT :: Tok K_NUMBER i :: R) = true.
Proof. reflexivity. Qed.
Lemma followv_rparen o R : followv o (T K_RPAREN :: R) = true.
Proof. reflexivity. Qed.
Lemma pclass_lt op : pclass op = P_LT -> is_lt op = true.
Proof. destruct op; simpl; congruence. Qed.
Lemma followv_op o op R : is_infix_binary_op op = true -> is_lt op && upper_opt o = false -> followv o (T op :: R) = true.
Proof.
  unfold followv, is_infix_binary_op, curc. cbn [cur tk T]. intros H1 H2.
  destruct (pclass op) eqn:E; try reflexivity; try discriminate H1.
  rewrite (pclass_lt _ E) in H2. simpl in H2. rewrite H2. reflexivity.
Qed.

Lemma ident_follow x rest err :
  followv (Some x) rest = true ->
  ident_body (Tok K_IDENTIFIER x) (Tok K_IDENTIFIER x :: rest) rest err = Ok (Some (EVar x)) rest err.
Proof.
  unfold followv, ident_body. cbv zeta.
  change (peek (Tok K_IDENTIFIER x :: rest) 1) with (curc rest).
  change (peek (Tok K_IDENTIFIER x :: rest) 2) with (peek rest 1).
  change (peek (Tok K_IDENTIFIER x :: rest) 3) with (peek rest 2).
  change (tv (Tok K_IDENTIFIER x)) with x. cbn [upper_opt].
  destruct (curc rest) eqn:E1; try discriminate; try (intros _; cbn; destruct (is_upper x); reflexivity).
  - (* DOT *)
    destruct (peek rest 1) eqn:E2; try (intros _; cbn; destruct (is_upper x); reflexivity).
    destruct (peek rest 2) eqn:E3; try discriminate; intros _; cbn;
      destruct (is_upper (peekv (Tok K_IDENTIFIER x :: rest) 2)); reflexivity.
  - (* LT *) intros H. cbn. destruct (is_upper x); [discriminate H|reflexivity].
Qed.

(* ---------------------------------------------------------------- decomposition of wf / safe *)
Lemma safe_bin op a b : infix_safe (SBin op a b) = true ->
  infix_safe a = true /\ infix_safe b = true /\ is_postfix b = false /\ bad_group b = false /\ is_lt op && upper_opt (last_var a) = false.
Proof.
  unfold infix_safe. cbn [forall_sub]. unfold node_ok at 1. cbn [ok_right ok_unary ok_group ok_lt].
  rewrite !andb_true_iff, !negb_true_iff. tauto.
Qed.
Lemma safe_un op a : infix_safe (SUn op a) = true ->
  infix_safe a = true /\ is_postfix a = false /\ bad_group a = false.
Proof.
  unfold infix_safe. cbn [forall_sub]. unfold node_ok at 1. cbn [ok_right ok_unary ok_group ok_lt].
  rewrite !andb_true_iff, !negb_true_iff. tauto.
Qed.
Lemma safe_field a f : infix_safe (SField a f) = true -> infix_safe a = true /\ bad_group a = false.
Proof.
  unfold infix_safe. cbn [forall_sub]. unfold node_ok at 1. cbn [ok_right ok_unary ok_group ok_lt].
  rewrite !andb_true_iff, !negb_true_iff. tauto.
Qed.
Lemma safe_tidx a i : infix_safe (STIdx a i) = true -> infix_safe a = true /\ bad_group a = false.
Proof.
  unfold infix_safe. cbn [forall_sub]. unfold node_ok at 1. cbn [ok_right ok_unary ok_group ok_lt].
  rewrite !andb_true_iff, !negb_true_iff. tauto.
Qed.
Lemma safe_call f args : infix_safe (SCall f args) = true ->
  forallb infix_safe args = true /\ forallb (fun a => negb (bad_group a)) args = true.
Proof.
  unfold infix_safe. rewrite forall_sub_call. unfold node_ok at 1. cbn [ok_right ok_unary ok_group ok_lt].
  rewrite !andb_true_iff. tauto.
Qed.
Lemma wf_bin op a b : wf_sx (SBin op a b) = true -> is_infix_binary_op op = true /\ wf_sx a = true /\ wf_sx b = true.
Proof. unfold wf_sx. cbn [forall_sub wf_node]. rewrite !andb_true_iff. tauto. Qed.
Lemma wf_un op a : wf_sx (SUn op a) = true -> is_unary_op op = true /\ wf_sx a = true.
Proof. unfold wf_sx. cbn [forall_sub wf_node]. rewrite !andb_true_iff. tauto. Qed.
Lemma wf_field a f : wf_sx (SField a f) = true -> wf_sx a = true.
Proof. unfold wf_sx. cbn [forall_sub wf_node]. rewrite !andb_true_iff. tauto. Qed.
Lemma wf_tidx a i : wf_sx (STIdx a i) = true -> wf_sx a = true.
Proof. unfold wf_sx. cbn [forall_sub wf_node]. rewrite !andb_true_iff. tauto. Qed.
Lemma wf_call f args : wf_sx (SCall f args) = true -> forallb wf_sx args = true.
Proof. unfold wf_sx. rewrite forall_sub_call. cbn [wf_node]. rewrite !andb_true_iff. tauto. Qed.

(* ---------------------------------------------------------------- statements *)
Definition nest_rhs (s : sx) : nat := if is_bin s then S (nest_infix s) else nest_infix s.

Definition HI (s : sx) : Prop :=
  forall d rest err, d + nest_infix s <= S MAXD -> follow s rest = true ->
  exists c st, ev (CPrim d (pp_infix s ++ rest) err) (Ok (Some c) (st ++ rest) err) /\
               forall R e r, follow s R = true -> ev (CLoop d (denote s) R e) r -> ev (CLoop d c (st ++ R) e) r.

Definition PIrhs (s : sx) : Prop :=
  forall d rest err, d + nest_rhs s <= S MAXD -> followv (rhs_var s) rest = true ->
  ev (CPrim d (rhs s ++ rest) err) (Ok (Some (denote s)) rest err).

Definition PGun (s : sx) : Prop :=
  forall d rest err, d + S (nest_infix s) <= S MAXD ->
  ev (CPrim d (paren (pp_infix s) ++ rest) err) (Ok (Some (denote s)) rest err).

Definition EI (s : sx) : Prop :=
  forall d rest err, d + nest_infix s <= MAXD -> stop_c (curc rest) = true ->
  ev (CExpr d (pp_infix s ++ rest) err) (Ok (Some (denote s)) rest err).

(* ---------------------------------------------------------------- generic steps *)
Lemma ev_loop_stop d x rest err : stop_c (curc rest) = true -> ev (CLoop d x rest err) (Ok (Some x) rest err).
Proof.
  intros H. apply ev_body. exists 0. intros f _. cbn [body]. unfold loop_body.
  rewrite dots_stop by (destruct (curc rest); simpl in H; congruence).
  rewrite (stop_not_infix _ H). reflexivity.
Qed.

Lemma first_ok_not_if c : first_ok c = true -> match c with P_IF | P_CONDMATCH => False | _ => True end.
Proof. destruct c; simpl; intros; try exact I; discriminate. Qed.

(* parse_expression = parse_primary when the loop has nothing to do *)
Lemma E_of_P d ts x rest err :
  S d <= MAXD -> first_ok (curc ts) = true -> stop_c (curc rest) = true ->
  ev (CPrim (S d) ts err) (Ok (Some x) rest err) -> ev (CExpr d ts err) (Ok (Some x) rest err).
Proof.
  intros Hd Hf Hs [n Hn]. destruct (ev_loop_stop (S d) x rest err Hs) as [m Hm].
  apply ev_body. exists (n + m). intros f Hle. cbn [body]. unfold expression_body.
  replace (Nat.ltb MAXD (S d)) with false by (symmetry; apply Nat.ltb_ge; lia).
  rewrite Hn by lia. rewrite Hm by lia.
  destruct (curc ts); simpl in Hf; try discriminate; reflexivity.
Qed.

Lemma nest_infix_pos s : 1 <= nest_infix s.
Proof.
  induction s using sx_ind'; cbn [nest_infix]; try lia;
    repeat match goal with |- context [if ?b then _ else _] => destruct b end; lia.
Qed.

Lemma EI_of_HI s : wf_sx s = true -> HI s -> EI s.
Proof.
  intros Hwf H d rest err Hd Hs.
  pose proof (nest_infix_pos s) as Hpos.
  destruct (H (S d) rest err ltac:(lia) (stop_followv _ _ Hs)) as (c & st & [n Hn] & Heq).
  destruct (Heq rest err _ (stop_followv _ _ Hs) (ev_loop_stop (S d) (denote s) rest err Hs)) as [m Hm].
  destruct (pp_infix_first s Hwf) as (t & r & E & A & _).
  apply ev_body. exists (n + m). intros f Hle. cbn [body]. unfold expression_body.
  replace (Nat.ltb MAXD (S d)) with false by (symmetry; apply Nat.ltb_ge; lia).
  rewrite Hn by lia. rewrite Hm by lia.
  rewrite E. cbn [app]. change (curc (t :: r ++ rest)) with (pclass (tk t)). destruct (pclass (tk t)); simpl in A; try discriminate; reflexivity.
Qed.

Lemma loop_field_eq g d x f R e : curc R <> P_LBRACE ->
  run (S g) (CLoop d x (T K_DOT :: Tok K_IDENTIFIER f :: R) e) = run (S g) (CLoop d (EField x f) R e).
Proof. intros H. rewrite !run_S. cbn [body]. unfold loop_body. rewrite dots_field by exact H. reflexivity. Qed.
Lemma loop_tidx_eq g d x i R e :
  run (S g) (CLoop d x (T K_DOT :: Tok K_NUMBER i :: R) e) = run (S g) (CLoop d (ETIdx x (wrap32 (atoll i))) R e).
Proof. rewrite !run_S. cbn [body]. unfold loop_body. rewrite dots_tidx. reflexivity. Qed.

Lemma ev_loop_field d x f R e r : curc R <> P_LBRACE ->
  ev (CLoop d (EField x f) R e) r -> ev (CLoop d x (T K_DOT :: Tok K_IDENTIFIER f :: R) e) r.
Proof.
  intros H [n Hn]. exists (S n). intros g Hg. destruct g; [lia|]. rewrite loop_field_eq by exact H. apply Hn. lia.
Qed.
Lemma ev_loop_tidx d x i R e r :
  ev (CLoop d (ETIdx x (wrap32 (atoll i))) R e) r -> ev (CLoop d x (T K_DOT :: Tok K_NUMBER i :: R) e) r.
Proof.
  intros [n Hn]. exists (S n). intros g Hg. destruct g; [lia|]. rewrite loop_tidx_eq. apply Hn. lia.
Qed.

(* one infix step of the loop *)
Lemma ev_loop_bin d x op b R e r :
  is_infix_binary_op op = true ->
  ev (CPrim d (b ++ R) e) (Ok (Some (snd x)) R e) ->
  ev (CLoop d (EOp op [fst x; snd x]) R e) r ->
  ev (CLoop d (fst x) (T op :: b ++ R) e) r.
Proof.
  intros Hop [n Hn] [m Hm]. apply ev_body. exists (n + m). intros f Hf. cbn [body]. unfold loop_body.
  rewrite dots_stop.
  2:{ unfold curc. cbn [cur tk T]. unfold is_infix_binary_op in Hop. destruct (pclass op); simpl in Hop; congruence. }
  cbn [cur tk T adv]. rewrite Hop. rewrite Hn by lia. apply Hm. lia.
Qed.

Lemma paren_app l rest : paren l ++ rest = T K_LPAREN :: l ++ T K_RPAREN :: rest.
Proof. unfold paren. cbn [app]. rewrite <- app_assoc. reflexivity. Qed.

(* '(' e ')' where e is a binary operation that does not begin with a unary operator: grouping *)
Lemma group_bin s d rest err :
  wf_sx s = true -> is_bin s = true -> lead_un s = false -> EI s -> d + S (nest_infix s) <= S MAXD ->
  ev (CPrim d (paren (pp_infix s) ++ rest) err) (Ok (Some (denote s)) rest err).
Proof.
  intros Hwf Hb Hl HE Hd. rewrite paren_app.
  destruct (HE d (T K_RPAREN :: rest) err ltac:(lia) eq_refl) as [n Hn].
  destruct (pp_infix_first s Hwf) as (t & r & E & _ & A). specialize (A Hl).
  apply ev_body. exists n. intros f Hf. cbn [body]. unfold primary_body. cbn [tk T pclass].
  assert (Hc : curc (pp_infix s ++ T K_RPAREN :: rest) = pclass (tk t)) by (rewrite E; reflexivity).
  assert (Hp : is_prefix_operator (cur (pp_infix s ++ T K_RPAREN :: rest)) = false).
  { rewrite E. cbn [app cur]. unfold is_prefix_operator, is_prefix_operator_c. destruct (pclass (tk t)); simpl in A; try discriminate; reflexivity. }
  rewrite Hp. unfold paren_body. rewrite Hn by lia. cbn [curc cur tk T pclass adv].
  destruct s; try discriminate Hb. cbn [denote].
  rewrite Hc. destruct (pclass (tk t)); simpl in A; try discriminate; reflexivity.
Qed.

(* argument loops, one step *)
Lemma ev_nofail_end d mk acc rest err : ev (CNoFail d mk acc (T K_RPAREN :: rest) err) (Ok (Some (mk acc)) rest err).
Proof. apply ev_body. exists 0. intros. reflexivity. Qed.
Lemma ev_fail_end d mk acc rest err : ev (CFail d mk acc (T K_RPAREN :: rest) err) (Ok (Some (mk acc)) rest err).
Proof. apply ev_body. exists 0. intros. reflexivity. Qed.

Lemma ev_nofail_step d mk acc l R err a r :
  l <> [] -> at_rparen_or_eof (l ++ R) = false ->
  ev (CExpr d (l ++ R) err) (Ok (Some a) R err) ->
  ev (CNoFail d mk (acc ++ [a]) R err) r -> ev (CNoFail d mk acc (l ++ R) err) r.
Proof.
  intros Hl He [n Hn] [m Hm]. apply ev_body. exists (n + m). intros f Hf. cbn [body]. unfold nofail_body.
  rewrite He, Hn by lia. rewrite length_app_neq by exact Hl. cbn [opt_expr]. apply Hm. lia.
Qed.
Lemma ev_fail_step d mk acc l R err a r :
  at_rparen_or_eof (l ++ R) = false ->
  ev (CExpr d (l ++ R) err) (Ok (Some a) R err) ->
  ev (CFail d mk (acc ++ [a]) R err) r -> ev (CFail d mk acc (l ++ R) err) r.
Proof.
  intros He [n Hn] [m Hm]. apply ev_body. exists (n + m). intros f Hf. cbn [body]. unfold fail_body.
  rewrite He, Hn by lia. apply Hm. lia.
Qed.

Lemma first_ok_not_end ts : first_ok (curc ts) = true -> at_rparen_or_eof ts = false.
Proof. unfold at_rparen_or_eof. destruct (curc ts); simpl; congruence. Qed.

Lemma pp_infix_nonempty s : wf_sx s = true -> pp_infix s <> [].
Proof. intros H. destruct (pp_infix_first s H) as (t & r & E & _). rewrite E. discriminate. Qed.
Lemma curc_pp_infix s rest : wf_sx s = true -> first_ok (curc (pp_infix s ++ rest)) = true.
Proof. intros H. destruct (pp_infix_first s H) as (t & r & E & A & _). rewrite E. exact A. Qed.

Lemma rhs_nonempty s : wf_sx s = true -> rhs s <> [].
Proof. intros H. unfold rhs. destruct (is_bin s); [discriminate|apply pp_infix_nonempty, H]. Qed.
Lemma curc_rhs s rest : wf_sx s = true -> first_ok (curc (rhs s ++ rest)) = true.
Proof. intros H. unfold rhs. destruct (is_bin s); [reflexivity|apply curc_pp_infix, H]. Qed.

(* parse_expression on a right-operand form followed by a stop token *)
Definition ERhs (s : sx) : Prop :=
  forall d rest err, d + nest_rhs s <= MAXD -> stop_c (curc rest) = true ->
  ev (CExpr d (rhs s ++ rest) err) (Ok (Some (denote s)) rest err).

Lemma ERhs_of s : wf_sx s = true -> (is_bin s = true -> PIrhs s) -> EI s -> ERhs s.
Proof.
  intros Hwf HP HE d rest err Hd Hs. unfold rhs, nest_rhs in *. destruct (is_bin s) eqn:Eb.
  - apply E_of_P; [lia | reflexivity | exact Hs |].
    specialize (HP eq_refl (S d) rest err). unfold rhs, nest_rhs, rhs_var in HP. rewrite Eb in HP. apply HP; [lia|].
    apply stop_followv, Hs.
  - apply HE; assumption.
Qed.

(* '(' op e ')' with op unary: the prefix form with one argument *)
Lemma group_un op a d rest err :
  is_unary_op op = true -> wf_sx a = true -> ERhs a -> d + S (nest_rhs a) <= S MAXD ->
  ev (CPrim d (paren (T op :: rhs a) ++ rest) err) (Ok (Some (EOp op [denote a])) rest err).
Proof.
  intros Hop Hwf HE Hd. rewrite paren_app. cbn [app].
  pose proof (unary_not_rparen _ Hop) as Hnr. pose proof (unary_is_prefix _ Hop) as Hpo.
  assert (Hnf : ev (CNoFail d (fun x => EOp op x) [] (rhs a ++ T K_RPAREN :: rest) err) (Ok (Some (EOp op [denote a])) rest err)).
  { eapply ev_nofail_step; [apply rhs_nonempty, Hwf | apply first_ok_not_end, curc_rhs, Hwf | apply HE; [lia|reflexivity] |].
    cbn [app]. apply ev_nofail_end. }
  destruct Hnf as [n Hn].
  apply ev_body. exists (S n). intros f Hf. destruct f as [|f]; [lia|].
  cbn [body]. unfold primary_body. cbn [tk T pclass]. unfold curc at 1. cbn [cur tk T]. rewrite Hpo.
  rewrite run_S. cbn [body]. unfold prefix_op_body. cbv zeta. cbn [curc cur tk T pclass adv]. rewrite Hpo.
  rewrite Hn by lia. destruct (pclass op) eqn:E; try congruence; reflexivity.
Qed.

Definition argnest (a : sx) : nat := if starts_with_minus (pp_infix a) then S (nest_infix a) else nest_infix a.
Definition EArg (a : sx) : Prop :=
  forall d rest err, d + argnest a <= MAXD -> stop_c (curc rest) = true ->
  ev (CExpr d (argp a ++ rest) err) (Ok (Some (denote a)) rest err).

Definition arg_first (c : pk) : bool := match c with P_NUMBER | P_TRUE | P_FALSE | P_IDENT | P_LPAREN | P_NOT => true | _ => false end.
Lemma argp_first a rest : wf_sx a = true -> arg_first (curc (argp a ++ rest)) = true.
Proof.
  intros Hwf. unfold argp. cbv zeta. destruct (starts_with_minus (pp_infix a)) eqn:E; [reflexivity|].
  destruct (pp_infix_first a Hwf) as (t & r & Et & A & _). rewrite Et in *. unfold starts_with_minus, curc in E. cbn [cur] in E.
  cbn [app]. unfold curc. cbn [cur]. destruct (pclass (tk t)); simpl in A; try discriminate; try reflexivity.
Qed.
Lemma arg_first_stop c : arg_first c = true -> stop_c c = true.
Proof. destruct c; simpl; congruence. Qed.
Lemma arg_first_not_end ts : arg_first (curc ts) = true -> at_rparen_or_eof ts = false.
Proof. unfold at_rparen_or_eof. destruct (curc ts); simpl; congruence. Qed.

Definition anest_list (args : list sx) : nat := fold_right (fun a m => Nat.max (argnest a) m) 1 args.
Lemma anest_list_le args a : In a args -> argnest a <= anest_list args.
Proof. induction args as [|b r IH]; [intros []|]. intros [->|H]; cbn; [lia|]. specialize (IH H). unfold anest_list in IH. lia. Qed.
Lemma anest_list_base args : 1 <= anest_list args.
Proof. induction args; cbn; [lia|]. unfold anest_list in *. lia. Qed.

Lemma fail_list_infix args : Forall EArg args -> Forall (fun a => wf_sx a = true) args ->
  forall d mk acc rest err, (forall a, In a args -> d + argnest a <= MAXD) ->
  ev (CFail d mk acc (flat_map argp args ++ T K_RPAREN :: rest) err) (Ok (Some (mk (acc ++ map denote args))) rest err).
Proof.
  induction 1 as [|a r Ha Hr IH]; intros Hwf d mk acc rest err Hd.
  - cbn [flat_map map app]. rewrite app_nil_r. apply ev_fail_end.
  - inversion Hwf as [|? ? Hwa Hwr]; subst. cbn [flat_map map]. rewrite <- app_assoc.
    eapply ev_fail_step.
    + apply arg_first_not_end, argp_first, Hwa.
    + apply Ha; [apply Hd; left; reflexivity|].
      destruct r as [|b r']; [reflexivity|]. inversion Hwr; subst. cbn [flat_map]. rewrite <- app_assoc. apply arg_first_stop, argp_first. assumption.
    + replace (acc ++ denote a :: map denote r) with ((acc ++ [denote a]) ++ map denote r) by (rewrite <- app_assoc; reflexivity).
      apply IH; [exact Hwr | intros; apply Hd; right; assumption].
Qed.

Lemma nest_infix_call f args : nest_infix (SCall f args) = S (anest_list args).
Proof. reflexivity. Qed.

Definition Q (s : sx) : Prop :=
  wf_sx s = true -> infix_safe s = true ->
  HI s /\ (is_postfix s = false -> bad_group s = false -> PIrhs s) /\ (is_un s = true -> PGun s).

Lemma HI_of_prim s :
  (forall d rest err, d + nest_infix s <= S MAXD -> follow s rest = true ->
     ev (CPrim d (pp_infix s ++ rest) err) (Ok (Some (denote s)) rest err)) -> HI s.
Proof.
  intros H d rest err Hd Hf. exists (denote s), []. split; [apply H; assumption|]. intros R e r _ Hr. exact Hr.
Qed.

Lemma EArg_of a : wf_sx a = true -> infix_safe a = true -> bad_group a = false -> Q a -> EArg a.
Proof.
  intros Hwf Hsafe Hbg HQ d rest err Hd Hs. destruct (HQ Hwf Hsafe) as (HH & HP & HG).
  unfold argp, argnest in *. cbv zeta. destruct (starts_with_minus (pp_infix a)) eqn:E.
  - (* starts with '-': a is a unary node, printed in parentheses *)
    assert (Hl : lead_un a = true).
    { destruct (lead_un a) eqn:El; [reflexivity|]. destruct (pp_infix_first a Hwf) as (t & r & Et & _ & A). specialize (A El).
      rewrite Et in E. unfold starts_with_minus, curc in E. cbn [cur] in E. destruct (pclass (tk t)); simpl in A; discriminate. }
    assert (Hu : is_un a = true).
    { unfold bad_group in Hbg. rewrite Hl, andb_true_r in Hbg. destruct a; try discriminate; reflexivity. }
    apply E_of_P; [lia | reflexivity | exact Hs |]. apply HG; [exact Hu | lia].
  - apply (EI_of_HI a Hwf HH); assumption.
Qed.

Lemma Q_all s : Q s.
Proof.
  induction s using sx_ind'; intros Hwf Hsafe.
  - (* SNum *)
    assert (HPr : forall d rest err, ev (CPrim d (pp_infix (SNum z) ++ rest) err) (Ok (Some (denote (SNum z))) rest err)).
    { intros. apply ev_body. exists 0. intros. reflexivity. }
    split; [apply HI_of_prim; intros; apply HPr|]. split; [|discriminate]. intros _ _ d rest err _ _. apply HPr.
  - (* SBool *)
    assert (HPr : forall d rest err, ev (CPrim d (pp_infix (SBool b) ++ rest) err) (Ok (Some (denote (SBool b))) rest err)).
    { intros. apply ev_body. exists 0. intros. destruct b; reflexivity. }
    split; [apply HI_of_prim; intros; apply HPr|]. split; [|discriminate]. intros _ _ d rest err _ _. apply HPr.
  - (* SVar *)
    assert (HPr : forall d rest err, followv (Some x) rest = true -> ev (CPrim d (pp_infix (SVar x) ++ rest) err) (Ok (Some (denote (SVar x))) rest err)).
    { intros d rest err Hf. apply ev_body. exists 0. intros. cbn [body pp_infix app]. unfold primary_body. cbn [tk pclass]. apply ident_follow, Hf. }
    split; [apply HI_of_prim; intros; apply HPr; assumption|]. split; [|discriminate]. intros _ _ d rest err _ Hf. apply HPr, Hf.
  - (* SBin *)
    destruct (wf_bin _ _ _ Hwf) as (Hop & Hwa & Hwb). destruct (safe_bin _ _ _ Hsafe) as (Hsa & Hsb & Hpb & Hgb & Hlt).
    destruct (IHs1 Hwa Hsa) as (HIa & _ & _). destruct (IHs2 Hwb Hsb) as (HIb & HPb & _). specialize (HPb Hpb Hgb).
    assert (HH : HI (SBin op s1 s2)).
    { intros d rest err Hd Hf. cbn [nest_infix] in Hd. fold (nest_rhs s2) in Hd.
      rewrite pp_infix_bin. rewrite <- app_assoc. cbn [app].
      destruct (HIa d (T op :: rhs s2 ++ rest) err ltac:(lia)) as (c & st & Hprim & Heq).
      { apply followv_op; assumption. }
      exists c, (st ++ T op :: rhs s2). split; [rewrite <- app_assoc; exact Hprim|].
      intros R e r HfR Hr. rewrite <- app_assoc. cbn [app]. apply Heq; [apply followv_op; assumption|].
      apply (ev_loop_bin d (denote s1, denote s2) op (rhs s2) R e r Hop); [|exact Hr].
      apply HPb; [lia|]. exact HfR. }
    split; [exact HH|]. split; [|discriminate].
    intros _ Hbg d rest err Hd _. unfold rhs, nest_rhs in *. cbn [is_bin] in *.
    apply group_bin; [exact Hwf | reflexivity | | apply EI_of_HI; assumption | exact Hd].
    unfold bad_group in Hbg. cbn [is_bin andb] in Hbg. exact Hbg.
  - (* SUn *)
    destruct (wf_un _ _ Hwf) as (Hop & Hwa). destruct (safe_un _ _ Hsafe) as (Hsa & Hpa & Hga).
    destruct (IHs Hwa Hsa) as (HIa & HPa & _). specialize (HPa Hpa Hga).
    assert (HPr : forall d rest err, d + nest_infix (SUn op s) <= S MAXD -> follow (SUn op s) rest = true ->
                  ev (CPrim d (pp_infix (SUn op s) ++ rest) err) (Ok (Some (denote (SUn op s))) rest err)).
    { intros d rest err Hd Hf. cbn [nest_infix] in Hd. fold (nest_rhs s) in Hd. rewrite pp_infix_un. cbn [app].
      destruct (HPa d rest err Hd Hf) as [n Hn].
      apply ev_body. exists n. intros f Hle. cbn [body]. unfold primary_body. cbn [tk T]. rewrite Hn by lia.
      destruct op; try discriminate Hop; reflexivity. }
    split; [apply HI_of_prim, HPr|]. split.
    + intros _ _ d rest err Hd Hf. unfold rhs, nest_rhs, rhs_var in *. cbn [is_bin] in *. apply HPr; assumption.
    + intros _ d rest err Hd. rewrite pp_infix_un. cbn [nest_infix] in Hd. fold (nest_rhs s) in Hd.
      apply group_un; [exact Hop | exact Hwa | | exact Hd].
      apply ERhs_of; [exact Hwa | intros _; exact HPa | apply EI_of_HI; assumption].
  - (* SField *)
    pose proof (wf_field _ _ Hwf) as Hwa. destruct (safe_field _ _ Hsafe) as (Hsa & Hga).
    destruct (IHs Hwa Hsa) as (HIa & HPa & HGa).
    split; [|split; discriminate].
    intros d rest err Hd Hf. cbn [nest_infix] in Hd. rewrite pp_infix_field. unfold obj. rewrite <- app_assoc. cbn [app].
    pose proof (followv_not_lbrace _ _ Hf) as Hnl.
    destruct (is_bin s || is_un s) eqn:Epar.
    + (* parenthesised object *)
      assert (Hprim : ev (CPrim d (paren (pp_infix s) ++ T K_DOT :: Tok K_IDENTIFIER f :: rest) err)
                         (Ok (Some (denote s)) (T K_DOT :: Tok K_IDENTIFIER f :: rest) err)).
      { destruct (is_bin s) eqn:Eb.
        - specialize (HPa ltac:(destruct s; try discriminate; reflexivity) Hga d (T K_DOT :: Tok K_IDENTIFIER f :: rest) err).
          unfold rhs, nest_rhs, rhs_var in HPa. rewrite Eb in HPa. apply HPa; [exact Hd|apply followv_dot_ident, Hnl].
        - cbn [orb] in Epar. apply HGa; [exact Epar|exact Hd]. }
      exists (denote s), [T K_DOT; Tok K_IDENTIFIER f]. split; [exact Hprim|].
      intros R e r HfR Hr. cbn [app]. apply ev_loop_field; [apply (followv_not_lbrace _ _ HfR)|exact Hr].
    + destruct (HIa d (T K_DOT :: Tok K_IDENTIFIER f :: rest) err Hd) as (c & st & Hprim & Heq).
      { apply followv_dot_ident, Hnl. }
      exists c, (st ++ [T K_DOT; Tok K_IDENTIFIER f]). split; [rewrite <- app_assoc; exact Hprim|].
      intros R e r HfR Hr. rewrite <- app_assoc. cbn [app].
      pose proof (followv_not_lbrace _ _ HfR) as HnR.
      apply Heq; [apply followv_dot_ident, HnR|]. apply ev_loop_field; [exact HnR|exact Hr].
  - (* STIdx *)
    pose proof (wf_tidx _ _ Hwf) as Hwa. destruct (safe_tidx _ _ Hsafe) as (Hsa & Hga).
    destruct (IHs Hwa Hsa) as (HIa & HPa & HGa).
    split; [|split; discriminate].
    intros d rest err Hd Hf. cbn [nest_infix] in Hd. rewrite pp_infix_tidx. unfold obj. rewrite <- app_assoc. cbn [app].
    destruct (is_bin s || is_un s) eqn:Epar.
    + assert (Hprim : ev (CPrim d (paren (pp_infix s) ++ T K_DOT :: Tok K_NUMBER i :: rest) err)
                         (Ok (Some (denote s)) (T K_DOT :: Tok K_NUMBER i :: rest) err)).
      { destruct (is_bin s) eqn:Eb.
        - specialize (HPa ltac:(destruct s; try discriminate; reflexivity) Hga d (T K_DOT :: Tok K_NUMBER i :: rest) err).
          unfold rhs, nest_rhs, rhs_var in HPa. rewrite Eb in HPa. apply HPa; [exact Hd|reflexivity].
        - cbn [orb] in Epar. apply HGa; [exact Epar|exact Hd]. }
      exists (denote s), [T K_DOT; Tok K_NUMBER i]. split; [exact Hprim|].
      intros R e r HfR Hr. cbn [app]. apply ev_loop_tidx. exact Hr.
    + destruct (HIa d (T K_DOT :: Tok K_NUMBER i :: rest) err Hd) as (c & st & Hprim & Heq).
      { reflexivity. }
      exists c, (st ++ [T K_DOT; Tok K_NUMBER i]). split; [rewrite <- app_assoc; exact Hprim|].
      intros R e r HfR Hr. rewrite <- app_assoc. cbn [app].
      apply Heq; [reflexivity|]. apply ev_loop_tidx. exact Hr.
  - (* SCall *)
    pose proof (wf_call _ _ Hwf) as Hwargs. destruct (safe_call _ _ Hsafe) as (Hsargs & Hgargs).
    rewrite forallb_forall in Hwargs, Hsargs, Hgargs.
    assert (HEA : Forall EArg args).
    { rewrite Forall_forall in *. intros a Ha. apply EArg_of; [apply Hwargs, Ha | apply Hsargs, Ha | | apply H, Ha].
      specialize (Hgargs a Ha). apply negb_true_iff in Hgargs. exact Hgargs. }
    assert (HWA : Forall (fun a => wf_sx a = true) args) by (rewrite Forall_forall; exact Hwargs).
    assert (HPr : forall d rest err, d + nest_infix (SCall f args) <= S MAXD ->
                  ev (CPrim d (pp_infix (SCall f args) ++ rest) err) (Ok (Some (denote (SCall f args))) rest err)).
    { intros d rest err Hd. rewrite nest_infix_call in Hd.
      rewrite pp_infix_call. cbn [app]. rewrite <- app_assoc. cbn [app].
      pose proof (anest_list_base args) as Hb1.
      assert (Hid : ev (CExpr d (Tok K_IDENTIFIER f :: flat_map argp args ++ T K_RPAREN :: rest) err)
                       (Ok (Some (EVar f)) (flat_map argp args ++ T K_RPAREN :: rest) err)).
      { assert (Hst : stop_c (curc (flat_map argp args ++ T K_RPAREN :: rest)) = true).
        { destruct args as [|a r]; [reflexivity|]. cbn [flat_map]. rewrite <- app_assoc. apply arg_first_stop, argp_first.
          apply Hwargs. left; reflexivity. }
        apply E_of_P; [lia | reflexivity | exact Hst |].
        apply ev_body. exists 0. intros. cbn [body]. unfold primary_body. cbn [tk pclass]. apply ident_follow, stop_followv, Hst. }
      destruct Hid as [n Hn].
      assert (Hfl : ev (CFail d (fun a0 => ECall f a0) [] (flat_map argp args ++ T K_RPAREN :: rest) err)
                       (Ok (Some (ECall f ([] ++ map denote args))) rest err)).
      { apply fail_list_infix; [exact HEA | exact HWA |]. intros a Ha. pose proof (anest_list_le args a Ha). lia. }
      destruct Hfl as [m Hm].
      apply ev_body. exists (n + m). intros g Hg. cbn [body]. unfold primary_body. cbn [tk T pclass curc cur].
      cbn [is_prefix_operator is_prefix_operator_c is_infix_c pclass]. unfold paren_body. rewrite Hn by lia.
      destruct args as [|a r]; [reflexivity|].
      assert (Hst : arg_first (curc (flat_map argp (a :: r) ++ T K_RPAREN :: rest)) = true).
      { cbn [flat_map]. rewrite <- app_assoc. apply argp_first. apply Hwargs. left; reflexivity. }
      rewrite Hm by lia. cbn [denote app].
      destruct (curc (flat_map argp (a :: r) ++ T K_RPAREN :: rest)); simpl in Hst; try discriminate; reflexivity. }
    split; [apply HI_of_prim; intros; apply HPr; assumption|]. split; [|discriminate].
    intros _ _ d rest err Hd _. unfold rhs, nest_rhs in *. cbn [is_bin] in *. apply HPr, Hd.
Qed.

(* ================================================================ 4. consequences *)
Lemma ev_run c r f : ev c r -> run f c <> OutOfFuel -> run f c = r.
Proof.
  intros [n H] Hf. rewrite <- (H (n + f)) by lia. symmetry. apply (run_mono f (n + f)); [lia|exact Hf].
Qed.

Lemma parse_stable ts r : parse ts = r -> r <> OutOfFuel ->
  forall fuel, fuel_for ts <= fuel -> parse_expression fuel 0 ts false = r.
Proof.
  unfold parse, parse_expression. intros H Hr fuel Hle. rewrite <- H. apply (run_mono _ _ Hle). rewrite H. exact Hr.
Qed.

(* the fuel [parse] supplies is enough for the prefix spelling *)
Lemma need_list_bound args :
  Forall (fun a => fpp a + 2 <= 10 * length (pp_prefix a)) args -> need_list args <= 1 + 10 * length (flat_map pp_prefix args).
Proof.
  induction 1 as [|a r Ha Hr IH]; [cbn; lia|]. cbn [need_list fold_right flat_map]. fold (need_list r). rewrite app_length. lia.
Qed.
Lemma fpp_bound s : fpp s + 2 <= 10 * length (pp_prefix s).
Proof.
  induction s using sx_ind'; cbn [fpp pp_prefix].
  - cbn; lia.
  - destruct b; cbn; lia.
  - cbn; lia.
  - cbn [length]. rewrite !app_length. cbn [length]. lia.
  - cbn [length]. rewrite !app_length. cbn [length]. lia.
  - rewrite app_length. cbn [length]. lia.
  - rewrite app_length. cbn [length]. lia.
  - fold (need_list args). pose proof (need_list_bound args H). cbn [length]. rewrite app_length. cbn [length]. lia.
Qed.

Lemma prefix_roundtrip s rest :
  wf_sx s = true -> nest_prefix s <= MAXD -> stop_c (curc rest) = true ->
  forall fuel, S (fpp s) <= fuel -> parse_expression fuel 0 (pp_prefix s ++ rest) false = Ok (Some (denote s)) rest false.
Proof.
  intros Hwf Hn Hs fuel Hf. apply (Ep_of_Hp s (Hp_all s Hwf)); [exact Hf | lia | exact Hs].
Qed.

Lemma prefix_roundtrip_parse s rest :
  wf_sx s = true -> nest_prefix s <= MAXD -> stop_c (curc rest) = true ->
  parse (pp_prefix s ++ rest) = Ok (Some (denote s)) rest false.
Proof.
  intros Hwf Hn Hs. apply prefix_roundtrip; try assumption.
  unfold fuel_for. rewrite app_length. pose proof (fpp_bound s). lia.
Qed.

Lemma infix_roundtrip s rest :
  wf_sx s = true -> infix_safe s = true -> nest_infix s <= MAXD -> stop_c (curc rest) = true ->
  exists n, forall fuel, n <= fuel -> parse_expression fuel 0 (pp_infix s ++ rest) false = Ok (Some (denote s)) rest false.
Proof.
  intros Hwf Hsafe Hn Hs. destruct (Q_all s Hwf Hsafe) as (HH & _ & _).
  apply (EI_of_HI s Hwf HH 0 rest false); [lia|exact Hs].
Qed.

Lemma infix_roundtrip_parse s rest :
  wf_sx s = true -> infix_safe s = true -> nest_infix s <= MAXD -> stop_c (curc rest) = true ->
  parse (pp_infix s ++ rest) <> OutOfFuel -> parse (pp_infix s ++ rest) = Ok (Some (denote s)) rest false.
Proof.
  intros Hwf Hsafe Hn Hs Hf. apply ev_run; [|exact Hf]. apply (infix_roundtrip s rest Hwf Hsafe Hn Hs).
Qed.

(* --- left associativity, postfix on the left operand, unary on the left operand: instances of the round trip *)
Definition is_atom (s : sx) : bool := match s with SNum _ | SBool _ | SVar _ => true | _ => false end.
Definition lt_ok (op : kind) (x : sx) : bool := negb (is_lt op && upper_opt (last_var x)).

Lemma safe_left_assoc op1 op2 a b c :
  is_atom a = true -> is_atom b = true -> is_atom c = true -> lt_ok op1 a = true -> lt_ok op2 b = true ->
  infix_safe (SBin op2 (SBin op1 a b) c) = true.
Proof.
  unfold lt_ok. intros Ha Hb Hc H1 H2.
  destruct a; try discriminate Ha; destruct b; try discriminate Hb; destruct c; try discriminate Hc;
    unfold infix_safe; cbn [forall_sub node_ok ok_right ok_unary ok_group ok_lt is_postfix bad_group is_bin lead_un last_var andb negb] in *;
    rewrite ?H1, ?H2; reflexivity.
Qed.

Lemma wf_left_assoc op1 op2 a b c :
  is_atom a = true -> is_atom b = true -> is_atom c = true -> is_infix_binary_op op1 = true -> is_infix_binary_op op2 = true ->
  wf_sx (SBin op2 (SBin op1 a b) c) = true.
Proof.
  intros Ha Hb Hc H1 H2.
  destruct a; try discriminate Ha; destruct b; try discriminate Hb; destruct c; try discriminate Hc;
    unfold wf_sx; cbn [forall_sub wf_node]; rewrite H1, H2; reflexivity.
Qed.

Lemma nest_left_assoc op1 op2 a b c :
  is_atom a = true -> is_atom b = true -> is_atom c = true -> nest_infix (SBin op2 (SBin op1 a b) c) = 1.
Proof.
  intros Ha Hb Hc. destruct a; try discriminate Ha; destruct b; try discriminate Hb; destruct c; try discriminate Hc; reflexivity.
Qed.

Lemma MAXD_pos : 1 <= MAXD.
Proof. unfold MAXD, MAX_RECURSION_DEPTH. lia. Qed.

Lemma left_assoc op1 op2 a b c rest :
  is_atom a = true -> is_atom b = true -> is_atom c = true ->
  is_infix_binary_op op1 = true -> is_infix_binary_op op2 = true -> lt_ok op1 a = true -> lt_ok op2 b = true ->
  stop_c (curc rest) = true ->
  exists n, forall fuel, n <= fuel ->
    parse_expression fuel 0 (pp_infix a ++ T op1 :: pp_infix b ++ T op2 :: pp_infix c ++ rest) false
    = Ok (Some (EOp op2 [EOp op1 [denote a; denote b]; denote c])) rest false.
Proof.
  intros Ha Hb Hc H1 H2 L1 L2 Hs.
  destruct (infix_roundtrip (SBin op2 (SBin op1 a b) c) rest) as [n Hn].
  - apply wf_left_assoc; assumption.
  - apply safe_left_assoc; assumption.
  - rewrite nest_left_assoc by assumption. apply MAXD_pos.
  - exact Hs.
  - exists n. intros fuel Hf. specialize (Hn fuel Hf). cbn [denote] in Hn. rewrite <- Hn. f_equal.
    rewrite !pp_infix_bin. unfold rhs.
    replace (is_bin b) with false by (destruct b; try discriminate Hb; reflexivity).
    replace (is_bin c) with false by (destruct c; try discriminate Hc; reflexivity).
    repeat (rewrite <- ?app_assoc; cbn [app]). reflexivity.
Qed.

Lemma notations_agree s rest :
  wf_sx s = true -> infix_safe s = true -> nest_infix s <= MAXD -> nest_prefix s <= MAXD -> stop_c (curc rest) = true ->
  exists n, forall fuel, n <= fuel ->
    parse_expression fuel 0 (pp_infix s ++ rest) false = parse_expression fuel 0 (pp_prefix s ++ rest) false.
Proof.
  intros Hwf Hsafe Hni Hnp Hs. destruct (infix_roundtrip s rest Hwf Hsafe Hni Hs) as [n Hn].
  exists (n + S (fpp s)). intros fuel Hf. rewrite Hn by lia. symmetry. apply prefix_roundtrip; try assumption. lia.
Qed.

Lemma unary_operand u op a b rest :
  is_atom a = true -> is_atom b = true -> is_unary_op u = true -> is_infix_binary_op op = true ->
  lt_ok op a = true -> stop_c (curc rest) = true ->
  (exists n, forall fuel, n <= fuel ->
     parse_expression fuel 0 (pp_infix a ++ T op :: T u :: pp_infix b ++ rest) false
     = Ok (Some (EOp op [denote a; EOp u [denote b]])) rest false) /\
  (exists n, forall fuel, n <= fuel ->
     parse_expression fuel 0 (T u :: pp_infix a ++ T op :: pp_infix b ++ rest) false
     = Ok (Some (EOp op [EOp u [denote a]; denote b])) rest false).
Proof.
  unfold lt_ok. intros Ha Hb Hu Hop Hlt Hs. split.
  - destruct (infix_roundtrip (SBin op a (SUn u b)) rest) as [n Hn].
    + destruct a; try discriminate Ha; destruct b; try discriminate Hb; unfold wf_sx; cbn [forall_sub wf_node]; rewrite Hop, Hu; reflexivity.
    + destruct a; try discriminate Ha; destruct b; try discriminate Hb; unfold infix_safe;
        cbn [forall_sub node_ok ok_right ok_unary ok_group ok_lt is_postfix bad_group is_bin lead_un last_var andb negb] in *; rewrite ?Hlt; reflexivity.
    + destruct a; try discriminate Ha; destruct b; try discriminate Hb; cbn; apply MAXD_pos.
    + exact Hs.
    + exists n. intros fuel Hf. specialize (Hn fuel Hf). cbn [denote] in Hn. rewrite <- Hn. f_equal.
      rewrite pp_infix_bin. unfold rhs. cbn [is_bin]. rewrite pp_infix_un. unfold rhs.
      replace (is_bin b) with false by (destruct b; try discriminate Hb; reflexivity).
      repeat (rewrite <- ?app_assoc; cbn [app]). reflexivity.
  - destruct (infix_roundtrip (SBin op (SUn u a) b) rest) as [n Hn].
    + destruct a; try discriminate Ha; destruct b; try discriminate Hb; unfold wf_sx; cbn [forall_sub wf_node]; rewrite Hop, Hu; reflexivity.
    + destruct a; try discriminate Ha; destruct b; try discriminate Hb; unfold infix_safe;
        cbn [forall_sub node_ok ok_right ok_unary ok_group ok_lt is_postfix bad_group is_bin lead_un last_var andb negb] in *; rewrite ?Hlt; reflexivity.
    + destruct a; try discriminate Ha; destruct b; try discriminate Hb; cbn; apply MAXD_pos.
    + exact Hs.
    + exists n. intros fuel Hf. specialize (Hn fuel Hf). cbn [denote] in Hn. rewrite <- Hn. f_equal.
      rewrite pp_infix_bin, pp_infix_un. unfold rhs.
      replace (is_bin a) with false by (destruct a; try discriminate Ha; reflexivity).
      replace (is_bin b) with false by (destruct b; try discriminate Hb; reflexivity).
      repeat (rewrite <- ?app_assoc; cbn [app]). reflexivity.
Qed.

Lemma postfix_left op p x i b rest :
  is_atom b = true -> is_infix_binary_op op = true -> stop_c (curc rest) = true ->
  (exists n, forall fuel, n <= fuel ->
     parse_expression fuel 0 (Tok K_IDENTIFIER p :: T K_DOT :: Tok K_IDENTIFIER x :: T op :: pp_infix b ++ rest) false
     = Ok (Some (EOp op [EField (EVar p) x; denote b])) rest false) /\
  (exists n, forall fuel, n <= fuel ->
     parse_expression fuel 0 (Tok K_IDENTIFIER p :: T K_DOT :: Tok K_NUMBER i :: T op :: pp_infix b ++ rest) false
     = Ok (Some (EOp op [ETIdx (EVar p) (wrap32 (atoll i)); denote b])) rest false).
Proof.
  intros Hb Hop Hs. split.
  - destruct (infix_roundtrip (SBin op (SField (SVar p) x) b) rest) as [n Hn].
    + destruct b; try discriminate Hb; unfold wf_sx; cbn [forall_sub wf_node]; rewrite Hop; reflexivity.
    + destruct b; try discriminate Hb; unfold infix_safe;
        cbn [forall_sub node_ok ok_right ok_unary ok_group ok_lt is_postfix bad_group is_bin lead_un last_var upper_opt andb negb];
        rewrite ?andb_false_r; reflexivity.
    + destruct b; try discriminate Hb; cbn; apply MAXD_pos.
    + exact Hs.
    + exists n. intros fuel Hf. specialize (Hn fuel Hf). cbn [denote] in Hn. rewrite <- Hn. f_equal.
      rewrite pp_infix_bin. unfold rhs. replace (is_bin b) with false by (destruct b; try discriminate Hb; reflexivity).
      cbn [pp_infix is_bin is_un orb]. repeat (rewrite <- ?app_assoc; cbn [app]). reflexivity.
  - destruct (infix_roundtrip (SBin op (STIdx (SVar p) i) b) rest) as [n Hn].
    + destruct b; try discriminate Hb; unfold wf_sx; cbn [forall_sub wf_node]; rewrite Hop; reflexivity.
    + destruct b; try discriminate Hb; unfold infix_safe;
        cbn [forall_sub node_ok ok_right ok_unary ok_group ok_lt is_postfix bad_group is_bin lead_un last_var upper_opt andb negb];
        rewrite ?andb_false_r; reflexivity.
    + destruct b; try discriminate Hb; cbn; apply MAXD_pos.
    + exact Hs.
    + exists n. intros fuel Hf. specialize (Hn fuel Hf). cbn [denote] in Hn. rewrite <- Hn. f_equal.
      rewrite pp_infix_bin. unfold rhs. replace (is_bin b) with false by (destruct b; try discriminate Hb; reflexivity).
      cbn [pp_infix is_bin is_un orb]. repeat (rewrite <- ?app_assoc; cbn [app]). reflexivity.
Qed.

(* ================================================================ 5. witnesses against the unrestricted infix round trip *)
Definition b_1 : bytes := [49%N]. Definition b_2 : bytes := [50%N]. Definition b_6 : bytes := [54%N].
Definition b_a : bytes := [97%N]. Definition b_p : bytes := [112%N]. Definition b_x : bytes := [120%N].
Definition b_MAXV : bytes := [77%N; 65%N; 88%N; 86%N].
Definition w_postfix_right : sx := SBin K_PLUS (SNum b_1) (SField (SVar b_p) b_x).
Definition w_postfix_unary : sx := SUn K_MINUS (SField (SVar b_p) b_x).
Definition w_group_unary : sx := SBin K_STAR (SNum b_2) (SBin K_PLUS (SUn K_MINUS (SVar b_a)) (SNum b_1)).
Definition w_upper_lt : sx := SBin K_LT (SVar b_MAXV) (SNum b_6).

Lemma refuted_postfix_right :
  wf_sx w_postfix_right = true /\ nest_infix w_postfix_right <= MAXD /\
  denote w_postfix_right = EOp K_PLUS [ENum 1; EField (EVar b_p) b_x] /\
  forall fuel, fuel_for (pp_infix w_postfix_right) <= fuel ->
    parse_expression fuel 0 (pp_infix w_postfix_right) false = Ok (Some (EField (EOp K_PLUS [ENum 1; EVar b_p]) b_x)) [] false.
Proof.
  split; [reflexivity|]. split; [cbn; apply MAXD_pos|]. split; [reflexivity|].
  apply parse_stable; [vm_compute; reflexivity|discriminate].
Qed.
Lemma refuted_postfix_unary :
  wf_sx w_postfix_unary = true /\ denote w_postfix_unary = EOp K_MINUS [EField (EVar b_p) b_x] /\
  forall fuel, fuel_for (pp_infix w_postfix_unary) <= fuel ->
    parse_expression fuel 0 (pp_infix w_postfix_unary) false = Ok (Some (EField (EOp K_MINUS [EVar b_p]) b_x)) [] false.
Proof.
  split; [reflexivity|]. split; [reflexivity|]. apply parse_stable; [vm_compute; reflexivity|discriminate].
Qed.
Lemma refuted_group_unary :
  wf_sx w_group_unary = true /\ denote w_group_unary = EOp K_STAR [ENum 2; EOp K_PLUS [EOp K_MINUS [EVar b_a]; ENum 1]] /\
  forall fuel, fuel_for (pp_infix w_group_unary) <= fuel ->
    parse_expression fuel 0 (pp_infix w_group_unary) false
    = Ok (Some (EOp K_STAR [ENum 2; EOp K_MINUS [EOp K_PLUS [EVar b_a; ENum 1]]])) [] false.
Proof.
  split; [reflexivity|]. split; [reflexivity|]. apply parse_stable; [vm_compute; reflexivity|discriminate].
Qed.
Lemma refuted_upper_lt :
  wf_sx w_upper_lt = true /\
  forall fuel, fuel_for (pp_infix w_upper_lt) <= fuel -> parse_expression fuel 0 (pp_infix w_upper_lt) false = Generic.
Proof.
  split; [reflexivity|]. apply parse_stable; [vm_compute; reflexivity|discriminate].
Qed.

Definition infix_ops : list kind :=
  [K_PLUS; K_MINUS; K_STAR; K_SLASH; K_PERCENT; K_EQ; K_NE; K_LT; K_LE; K_GT; K_GE; K_AND; K_OR].
Definition res_is (r : res) (e : expr) : bool :=
  match r with Ok (Some x) [] false => expr_eqb x e | _ => false end.
Fixpoint ladder (n : nat) (inner : list token) : list token :=
  match n with O => inner | S m => T K_LPAREN :: ladder m inner ++ [T K_RPAREN] end.
(* n nested prefix forms  (+ 1 (+ 1 ... inner ...))  *)
Fixpoint pladder (n : nat) (inner : list token) : list token :=
  match n with O => inner | S m => T K_LPAREN :: T K_PLUS :: Tok K_NUMBER b_1 :: pladder m inner ++ [T K_RPAREN] end.
