(* Proofs about the expression-parser model NV/Front/ExprParser.v (lemmas only; the property theorems that cite
   them are in NV/Props/Properties_C07.v).
   Contents: 1. (in ExprParserMono.v) fuel monotonicity: the model's answer does not depend on the fuel once it is not OutOfFuel;
             2. round trip of the prefix spelling, with an explicit fuel bound (so it holds for [parse] as extracted);
             3. round trip of the infix spelling for [infix_safe] trees ("for every sufficiently large fuel");
             4. consequences; 5. the witness that still refutes the unrestricted infix round trip (group-leading unary),
                and the former witnesses, which the fixed parser now reads as denoted. *)
From Coq Require Import NArith ZArith List Bool Lia Arith.
From NV Require Import gen.Tokens gen.ParserConsts Front.ExprParser Front.InfixSafe Front.ExprParserMono.
Import ListNotations.
Arguments generic_args_ahead : simpl never.

(* ================================================================ 2. prefix spelling *)
Section SxInd.
  Variable P : sx -> Prop.
  Hypothesis HN : forall z, P (SNum z).
  Hypothesis HB : forall b, P (SBool b).
  Hypothesis HV : forall x, P (SVar x).
  Hypothesis HO : forall op a b, P a -> P b -> P (SBin op a b).
  Hypothesis HU : forall op a, P a -> P (SUn op a).
  Hypothesis HF : forall a f, P a -> P (SField a f).
  Hypothesis HI : forall a i, P a -> P (STIdx a i).
  Hypothesis HC : forall f args, Forall P args -> P (SCall f args).
  Fixpoint sx_ind' (s : sx) : P s :=
    match s with
    | SNum z => HN z | SBool b => HB b | SVar x => HV x
    | SBin op a b => HO op a b (sx_ind' a) (sx_ind' b)
    | SUn op a => HU op a (sx_ind' a)
    | SField a f => HF a f (sx_ind' a)
    | STIdx a i => HI a i (sx_ind' a)
    | SCall f args => HC f args ((fix go (l : list sx) : Forall P l := match l with [] => Forall_nil P | a :: r => Forall_cons a (sx_ind' a) (go r) end) args)
    end.
End SxInd.

Lemma run_S f c : run (S f) c = body (run f) c. Proof. reflexivity. Qed.

(* ---------------------------------------------------------------- token facts *)
Definition arg_start (c : pk) : bool :=
  match c with P_NUMBER | P_TRUE | P_FALSE | P_IDENT | P_LPAREN => true | _ => false end.
Definition stop_c (c : pk) : bool :=
  match c with P_DOT | P_LT | P_MINUS | P_INFIX | P_LBRACE | P_DCOLON => false | _ => true end.
(* what may follow an identifier that parse_primary reads, so that it is read as a plain variable *)
Definition vfo (ts : list token) : bool :=
  match curc ts with
  | P_LBRACE | P_DCOLON | P_LT => false
  | P_DOT => match peek ts 1, peek ts 2 with P_IDENT, P_LBRACE => false | _, _ => true end
  | _ => true
  end.

Lemma stop_vfo ts : stop_c (curc ts) = true -> vfo ts = true.
Proof. unfold vfo. destruct (curc ts); simpl; congruence. Qed.

Lemma pp_prefix_first s : exists t r, pp_prefix s = t :: r /\ arg_start (pclass (tk t)) = true.
Proof.
  induction s using sx_ind'; cbn [pp_prefix]; try (eexists; eexists; split; [reflexivity|reflexivity]).
  - destruct b; eexists; eexists; split; reflexivity.
  - destruct IHs as (t & r & E & A). rewrite E. eexists; eexists; split; [reflexivity|exact A].
  - destruct IHs as (t & r & E & A). rewrite E. eexists; eexists; split; [reflexivity|exact A].
Qed.

Lemma ident_plain x rest err :
  vfo rest = true ->
  ident_body (Tok K_IDENTIFIER x) (Tok K_IDENTIFIER x :: rest) rest err = Ok (Some (EVar x)) rest err.
Proof.
  unfold vfo, ident_body. cbv zeta.
  change (peek (Tok K_IDENTIFIER x :: rest) 1) with (curc rest).
  change (peek (Tok K_IDENTIFIER x :: rest) 2) with (peek rest 1).
  change (peek (Tok K_IDENTIFIER x :: rest) 3) with (peek rest 2).
  change (tv (Tok K_IDENTIFIER x)) with x.
  destruct (curc rest) eqn:E1; try discriminate; try (intros _; cbn; destruct (is_upper x); reflexivity).
  (* DOT *)
  destruct (peek rest 1) eqn:E2; try (intros _; cbn; destruct (is_upper x); reflexivity).
  destruct (peek rest 2) eqn:E3; try discriminate; intros _; cbn;
    destruct (is_upper (peekv (Tok K_IDENTIFIER x :: rest) 2)); reflexivity.
Qed.

(* ---------------------------------------------------------------- the postfix loop *)
Lemma dots_stop e ts err : curc ts <> P_DOT -> dots e ts err = DCont e ts err.
Proof.
  destruct ts as [|t r]; [reflexivity|]. unfold curc; cbn [cur dots]. intros H.
  destruct (pclass (tk t)); try reflexivity. congruence.
Qed.
Lemma dots_field e f rest err :
  curc rest <> P_LBRACE -> dots e (T K_DOT :: Tok K_IDENTIFIER f :: rest) err = dots (EField e f) rest err.
Proof.
  intros H. cbn [dots T tk pclass tv]. destruct (curc rest); try reflexivity. congruence.
Qed.
Lemma dots_tidx e i rest err :
  dots e (T K_DOT :: Tok K_NUMBER i :: rest) err = dots (ETIdx e (wrap32 (atoll i))) rest err.
Proof. reflexivity. Qed.

(* ---------------------------------------------------------------- fuel the prefix spelling needs *)
Fixpoint fpp (s : sx) : nat :=
  match s with
  | SNum _ | SBool _ | SVar _ => 1
  | SBin _ a b => 8 + fpp a + fpp b
  | SUn _ a => 6 + fpp a
  | SField a _ | STIdx a _ => fpp a
  | SCall _ args => 4 + fold_right (fun a m => 2 + fpp a + m) 1 args
  end.

Definition Hp (s : sx) : Prop :=
  forall f d rest err, fpp s <= f -> d + nest_prefix s <= S MAXD -> vfo rest = true ->
  exists c st, run f (CPrim d (pp_prefix s ++ rest) err) = Ok (Some c) (st ++ rest) err /\
               (forall rest2 e2, curc rest2 <> P_LBRACE -> dots c (st ++ rest2) e2 = dots (denote s) rest2 e2).

Definition Ep (s : sx) : Prop :=
  forall f d rest err, S (fpp s) <= f -> d + nest_prefix s <= MAXD -> stop_c (curc rest) = true ->
  run f (CExpr d (pp_prefix s ++ rest) err) = Ok (Some (denote s)) rest err.

Lemma fpp_pos s : 1 <= fpp s.
Proof. induction s using sx_ind'; cbn [fpp]; lia. Qed.

Lemma nest_prefix_pos s : 1 <= nest_prefix s.
Proof. induction s using sx_ind'; cbn [nest_prefix]; lia. Qed.

Lemma stop_not_infix ts : stop_c (curc ts) = true -> is_infix_binary_op (cur ts) = false.
Proof. unfold is_infix_binary_op, curc. destruct (pclass (cur ts)); simpl; congruence. Qed.

Lemma Ep_of_Hp s : Hp s -> Ep s.
Proof.
  intros H f d rest err Hf Hd Hstop.
  destruct f as [|f]; [lia|]. rewrite run_S. cbn [body]. unfold expression_body.
  replace (Nat.ltb MAXD (S d)) with false.
  2:{ symmetry. apply Nat.ltb_ge. pose proof (nest_prefix_pos s). lia. }
  destruct (pp_prefix_first s) as (t & r & E & A).
  assert (Hc : curc (pp_prefix s ++ rest) = pclass (tk t)) by (rewrite E; reflexivity).
  destruct (H f (S d) rest err ltac:(lia) ltac:(lia) (stop_vfo _ Hstop)) as (c & st & Hprim & Hdots).
  rewrite Hprim.
  assert (Hloop : run f (CLoop (S d) c (st ++ rest) err) = Ok (Some (denote s)) rest err).
  { pose proof (fpp_pos s). destruct f as [|f]; [lia|]. rewrite run_S. cbn [body]. unfold loop_body.
    rewrite Hdots by (destruct (curc rest); simpl in Hstop; congruence).
    rewrite dots_stop by (destruct (curc rest); simpl in Hstop; congruence).
    rewrite (stop_not_infix _ Hstop). reflexivity. }
  rewrite Hc. destruct (pclass (tk t)); simpl in A; try discriminate; exact Hloop.
Qed.

Lemma forall_sub_call P f args :
  forall_sub P (SCall f args) = P (SCall f args) && forallb (forall_sub P) args.
Proof.
  cbn [forall_sub]. apply f_equal. induction args as [|a r IH]; [reflexivity|]. cbn [forallb]. rewrite <- IH. reflexivity.
Qed.

Lemma infix_is_prefix op : is_infix_binary_op op = true -> is_prefix_operator op = true.
Proof. unfold is_infix_binary_op, is_prefix_operator, is_prefix_operator_c. destruct (pclass op); simpl; congruence. Qed.
Lemma infix_not_rparen op : is_infix_binary_op op = true -> pclass op <> P_RPAREN.
Proof. unfold is_infix_binary_op. destruct (pclass op); simpl; congruence. Qed.
Lemma unary_is_prefix op : is_unary_op op = true -> is_prefix_operator op = true.
Proof. destruct op; intros H; try discriminate H; reflexivity. Qed.
Lemma unary_not_rparen op : is_unary_op op = true -> pclass op <> P_RPAREN.
Proof. destruct op; intros H; try discriminate H; discriminate. Qed.

Lemma arg_start_stop c : arg_start c = true -> stop_c c = true.
Proof. destruct c; simpl; congruence. Qed.
Lemma arg_start_not_end ts : arg_start (curc ts) = true -> at_rparen_or_eof ts = false.
Proof. unfold at_rparen_or_eof. destruct (curc ts); simpl; congruence. Qed.

Lemma curc_pp_prefix s rest : arg_start (curc (pp_prefix s ++ rest)) = true.
Proof. destruct (pp_prefix_first s) as (t & r & E & A). rewrite E. exact A. Qed.

Lemma length_app_neq (A : Type) (l r : list A) : l <> [] -> Nat.eqb (length r) (length (l ++ r)) = false.
Proof. intros H. apply Nat.eqb_neq. rewrite app_length. destruct l; [congruence|]. simpl. lia. Qed.
Lemma pp_prefix_nonempty s : pp_prefix s <> [].
Proof. destruct (pp_prefix_first s) as (t & r & E & _). rewrite E. discriminate. Qed.

(* the two argument loops over the printed arguments *)
Definition need_list (args : list sx) : nat := fold_right (fun a m => 2 + fpp a + m) 1 args.
Definition nest_list (args : list sx) (z : nat) : nat := fold_right (fun a m => Nat.max (nest_prefix a) m) z args.

Lemma nest_list_le args z a : In a args -> nest_prefix a <= nest_list args z.
Proof. induction args as [|b r IH]; [intros []|]. intros [->|H]; cbn; [lia|]. specialize (IH H). unfold nest_list in IH. lia. Qed.
Lemma nest_list_base args z : z <= nest_list args z.
Proof. induction args; cbn; [lia|]. unfold nest_list in *. lia. Qed.

Lemma fail_list args : Forall Ep args ->
  forall g d mk acc rest err, need_list args <= g -> (forall a, In a args -> d + nest_prefix a <= MAXD) ->
  run g (CFail d mk acc (flat_map pp_prefix args ++ T K_RPAREN :: rest) err) = Ok (Some (mk (acc ++ map denote args))) rest err.
Proof.
  induction 1 as [|a r Ha Hr IH]; intros g d mk acc rest err Hg Hd.
  - cbn in Hg. destruct g; [lia|]. rewrite app_nil_r. reflexivity.
  - cbn [need_list fold_right] in Hg. destruct g as [|g]; [lia|]. rewrite run_S. cbn [body]. unfold fail_body.
    cbn [flat_map]. rewrite <- app_assoc.
    rewrite arg_start_not_end by apply curc_pp_prefix.
    rewrite (Ha g d _ err); [| fold (need_list r) in Hg; lia | apply Hd; left; reflexivity |].
    + cbn [map]. rewrite IH; [| fold (need_list r) in Hg; lia | intros; apply Hd; right; assumption].
      rewrite <- app_assoc. reflexivity.
    + destruct r as [|b r']; [reflexivity|]. cbn [flat_map]. rewrite <- app_assoc. apply arg_start_stop, curc_pp_prefix.
Qed.

Lemma nofail_list args : Forall Ep args ->
  forall g d mk acc rest err, need_list args <= g -> (forall a, In a args -> d + nest_prefix a <= MAXD) ->
  run g (CNoFail d mk acc (flat_map pp_prefix args ++ T K_RPAREN :: rest) err) = Ok (Some (mk (acc ++ map denote args))) rest err.
Proof.
  induction 1 as [|a r Ha Hr IH]; intros g d mk acc rest err Hg Hd.
  - cbn in Hg. destruct g; [lia|]. rewrite app_nil_r. reflexivity.
  - cbn [need_list fold_right] in Hg. destruct g as [|g]; [lia|]. rewrite run_S. cbn [body]. unfold nofail_body.
    cbn [flat_map]. rewrite <- app_assoc.
    rewrite arg_start_not_end by apply curc_pp_prefix.
    rewrite (Ha g d _ err); [| fold (need_list r) in Hg; lia | apply Hd; left; reflexivity |].
    + cbn [map]. rewrite IH; [| fold (need_list r) in Hg; lia | intros; apply Hd; right; assumption].
      rewrite <- app_assoc. reflexivity.
    + destruct r as [|b r']; [reflexivity|]. cbn [flat_map]. rewrite <- app_assoc. apply arg_start_stop, curc_pp_prefix.
Qed.

Lemma pp_bin_app op a b rest :
  pp_prefix (SBin op a b) ++ rest = T K_LPAREN :: T op :: flat_map pp_prefix [a; b] ++ T K_RPAREN :: rest.
Proof. cbn [pp_prefix flat_map app]. rewrite app_nil_r, <- !app_assoc. reflexivity. Qed.
Lemma pp_un_app op a rest :
  pp_prefix (SUn op a) ++ rest = T K_LPAREN :: T op :: flat_map pp_prefix [a] ++ T K_RPAREN :: rest.
Proof. cbn [pp_prefix flat_map app]. rewrite app_nil_r, <- !app_assoc. reflexivity. Qed.
Lemma pp_call_app f args rest :
  pp_prefix (SCall f args) ++ rest = T K_LPAREN :: Tok K_IDENTIFIER f :: flat_map pp_prefix args ++ T K_RPAREN :: rest.
Proof. cbn [pp_prefix app]. rewrite <- !app_assoc. reflexivity. Qed.

Lemma vfo_dot_ident f rest : vfo rest = true -> vfo (T K_DOT :: Tok K_IDENTIFIER f :: rest) = true.
Proof. unfold vfo, peek, curc. cbn [skipn cur tk T pclass]. destruct (pclass (cur rest)); intros H; try reflexivity; discriminate H. Qed.

Lemma Hp_var x : Hp (SVar x).
Proof.
  intros f0 d rest err Hf Hd Hv.
  cbn in Hf. destruct f0; [lia|]. exists (EVar x), []. split; [|intros; reflexivity].
  rewrite run_S. cbn [body pp_prefix app]. unfold primary_body. cbn [tk pclass]. apply ident_plain, Hv.
Qed.

Lemma Hp_all s : wf_sx s = true -> Hp s.
Proof.
  induction s using sx_ind'; intros Hwf f0 d rest err Hf Hd Hv.
  - (* SNum *) cbn in Hf. destruct f0; [lia|]. exists (ENum (atoll z)), []. split; [reflexivity|intros; reflexivity].
  - (* SBool *) cbn in Hf. destruct f0; [lia|]. exists (EBool b), []. split; [destruct b; reflexivity|intros; reflexivity].
  - (* SVar *) apply Hp_var; assumption.
  - (* SBin *)
    unfold wf_sx in Hwf. cbn [forall_sub wf_node] in Hwf. apply andb_prop in Hwf as [Hop Hwf]. apply andb_prop in Hwf as [Hwa Hwb].
    specialize (IHs1 Hwa). specialize (IHs2 Hwb).
    cbn [fpp] in Hf. cbn [nest_prefix] in Hd.
    exists (denote (SBin op s1 s2)), []. split; [|intros; reflexivity].
    rewrite pp_bin_app.
    destruct f0 as [|f1]; [lia|]. rewrite run_S. cbn [body]. unfold primary_body. cbn [tk T pclass curc cur].
    pose proof (infix_not_rparen _ Hop) as Hnr. pose proof (infix_is_prefix _ Hop) as Hpo.
    assert (Hgo : run f1 (CPrefix d (Tok K_LPAREN [] :: Tok op [] :: flat_map pp_prefix [s1; s2] ++ Tok K_RPAREN [] :: rest) err)
                  = Ok (Some (EOp op [denote s1; denote s2])) rest err).
    { destruct f1 as [|f2]; [lia|]. rewrite run_S. cbn [body]. unfold prefix_op_body. cbv zeta. cbn [curc cur tk pclass adv]. rewrite Hpo.
      rewrite nofail_list; [reflexivity | | |].
      - constructor; [apply Ep_of_Hp, IHs1|constructor; [apply Ep_of_Hp, IHs2|constructor]].
      - cbn. lia.
      - intros a [<-|[<-|[]]]; lia. }
    rewrite Hpo. unfold curc. cbn [cur tk T]. destruct (pclass op) eqn:Eop; try congruence; exact Hgo.
  - (* SUn *)
    unfold wf_sx in Hwf. cbn [forall_sub wf_node] in Hwf. apply andb_prop in Hwf as [Hop Hwa].
    specialize (IHs Hwa). cbn [fpp] in Hf. cbn [nest_prefix] in Hd.
    exists (denote (SUn op s)), []. split; [|intros; reflexivity].
    rewrite pp_un_app.
    destruct f0 as [|f1]; [lia|]. rewrite run_S. cbn [body]. unfold primary_body. cbn [tk T pclass curc cur].
    pose proof (unary_not_rparen _ Hop) as Hnr. pose proof (unary_is_prefix _ Hop) as Hpo.
    assert (Hgo : run f1 (CPrefix d (Tok K_LPAREN [] :: Tok op [] :: flat_map pp_prefix [s] ++ Tok K_RPAREN [] :: rest) err)
                  = Ok (Some (EOp op [denote s])) rest err).
    { destruct f1 as [|f2]; [lia|]. rewrite run_S. cbn [body]. unfold prefix_op_body. cbv zeta. cbn [curc cur tk pclass adv]. rewrite Hpo.
      rewrite nofail_list; [reflexivity | | |].
      - constructor; [apply Ep_of_Hp, IHs|constructor].
      - cbn. lia.
      - intros a [<-|[]]; lia. }
    rewrite Hpo. unfold curc. cbn [cur tk T]. destruct (pclass op) eqn:Eop; try congruence; exact Hgo.
  - (* SField *)
    unfold wf_sx in Hwf. cbn [forall_sub wf_node] in Hwf. simpl in Hwf.
    specialize (IHs Hwf). cbn [fpp] in Hf. cbn [nest_prefix] in Hd.
    cbn [pp_prefix]. rewrite <- app_assoc.
    destruct (IHs f0 d ([T K_DOT; Tok K_IDENTIFIER f] ++ rest) err Hf Hd) as (c & st & Hprim & Hdots).
    { apply vfo_dot_ident, Hv. }
    exists c, (st ++ [T K_DOT; Tok K_IDENTIFIER f]). split.
    + rewrite Hprim. rewrite <- app_assoc. reflexivity.
    + intros rest2 e2 H2. rewrite <- app_assoc. cbn [app]. rewrite Hdots by (cbn; discriminate).
      cbn [denote]. apply dots_field, H2.
  - (* STIdx *)
    unfold wf_sx in Hwf. cbn [forall_sub wf_node] in Hwf. simpl in Hwf.
    specialize (IHs Hwf). cbn [fpp] in Hf. cbn [nest_prefix] in Hd.
    cbn [pp_prefix]. rewrite <- app_assoc.
    destruct (IHs f0 d ([T K_DOT; Tok K_NUMBER i] ++ rest) err Hf Hd) as (c & st & Hprim & Hdots).
    { reflexivity. }
    exists c, (st ++ [T K_DOT; Tok K_NUMBER i]). split.
    + rewrite Hprim. rewrite <- app_assoc. reflexivity.
    + intros rest2 e2 H2. rewrite <- app_assoc. cbn [app]. rewrite Hdots by (cbn; discriminate).
      cbn [denote]. apply dots_tidx.
  - (* SCall *)
    unfold wf_sx in Hwf. rewrite forall_sub_call in Hwf. cbn [wf_node andb] in Hwf.
    assert (HE : Forall Ep args).
    { rewrite Forall_forall in *. intros a Ha. apply Ep_of_Hp, H; [exact Ha|]. rewrite forallb_forall in Hwf. apply Hwf, Ha. }
    cbn [fpp] in Hf. fold (need_list args) in Hf. cbn [nest_prefix] in Hd. fold (nest_list args 1) in Hd.
    exists (denote (SCall f args)), []. split; [|intros; reflexivity].
    rewrite pp_call_app.
    destruct f0 as [|f1]; [lia|]. rewrite run_S. cbn [body]. unfold primary_body. cbn [tk T pclass curc cur].
    cbn [is_prefix_operator is_prefix_operator_c is_infix_c pclass]. unfold paren_body.
    (* the callee identifier, read by parse_expression *)
    assert (Hid : run f1 (CExpr d (Tok K_IDENTIFIER f :: flat_map pp_prefix args ++ Tok K_RPAREN [] :: rest) err)
                  = Ok (Some (EVar f)) (flat_map pp_prefix args ++ Tok K_RPAREN [] :: rest) err).
    { apply (Ep_of_Hp (SVar f)) with (rest := flat_map pp_prefix args ++ Tok K_RPAREN [] :: rest).
      - apply Hp_var.
      - cbn. lia.
      - cbn [nest_prefix]. pose proof (nest_list_base args 1). lia.
      - destruct args as [|a r]; [reflexivity|]. cbn [flat_map]. rewrite <- app_assoc. apply arg_start_stop, curc_pp_prefix. }
    unfold T. rewrite Hid.
    destruct args as [|a r].
    + reflexivity.
    + assert (Hst : arg_start (curc (flat_map pp_prefix (a :: r) ++ Tok K_RPAREN [] :: rest)) = true)
        by (cbn [flat_map]; rewrite <- app_assoc; apply curc_pp_prefix).
      assert (Hfl : run f1 (CFail d (fun a0 => ECall f a0) [] (flat_map pp_prefix (a :: r) ++ T K_RPAREN :: rest) err)
                    = Ok (Some (ECall f ([] ++ map denote (a :: r)))) rest err).
      { apply fail_list; [exact HE | lia |].
        intros b Hb. pose proof (nest_list_le (a :: r) 1 b Hb). lia. }
      unfold T in Hfl.
      destruct (curc (flat_map pp_prefix (a :: r) ++ Tok K_RPAREN [] :: rest)); simpl in Hst; try discriminate; exact Hfl.
Qed.

(* ================================================================ 3. infix spelling *)
(* ---------------------------------------------------------------- "for every sufficiently large fuel" *)
Definition ev (c : call) (r : res) : Prop := exists n, forall f, n <= f -> run f c = r.

Lemma ev_body c r : (exists n, forall f, n <= f -> body (run f) c = r) -> ev c r.
Proof. intros [n H]. exists (S n). intros f Hf. destruct f; [lia|]. rewrite run_S. apply H. lia. Qed.

Lemma ev_det c r r' : ev c r -> ev c r' -> r = r'.
Proof. intros [n H] [n' H']. rewrite <- (H (n + n')), <- (H' (n + n')) by lia. reflexivity. Qed.

(* ---------------------------------------------------------------- the printed forms *)
Definition rhs (s : sx) : list token := if is_bin s then paren (pp_infix s) else pp_infix s.
Definition obj (s : sx) : list token := if is_bin s || is_un s then paren (pp_infix s) else pp_infix s.
Definition argp (s : sx) : list token := let l := pp_infix s in if starts_with_minus l then paren l else l.

Lemma pp_infix_bin op a b : pp_infix (SBin op a b) = pp_infix a ++ T op :: rhs b. Proof. reflexivity. Qed.
Lemma pp_infix_un op a : pp_infix (SUn op a) = T op :: rhs a. Proof. reflexivity. Qed.
Lemma pp_infix_field a f : pp_infix (SField a f) = obj a ++ [T K_DOT; Tok K_IDENTIFIER f]. Proof. reflexivity. Qed.
Lemma pp_infix_tidx a i : pp_infix (STIdx a i) = obj a ++ [T K_DOT; Tok K_NUMBER i]. Proof. reflexivity. Qed.
Lemma pp_infix_call f args : pp_infix (SCall f args) = T K_LPAREN :: Tok K_IDENTIFIER f :: flat_map argp args ++ [T K_RPAREN]. Proof. reflexivity. Qed.

(* first token *)
Definition first_ok (c : pk) : bool := match c with P_NUMBER | P_TRUE | P_FALSE | P_IDENT | P_LPAREN | P_MINUS | P_NOT => true | _ => false end.

Lemma pp_infix_first s : wf_sx s = true ->
  exists t r, pp_infix s = t :: r /\ first_ok (pclass (tk t)) = true /\
              (lead_un s = false -> arg_start (pclass (tk t)) = true).
Proof.
  induction s using sx_ind'; intros Hwf.
  - eexists; eexists; split; [reflexivity|split; [reflexivity|reflexivity]].
  - destruct b; eexists; eexists; split; try reflexivity; split; reflexivity.
  - eexists; eexists; split; [reflexivity|split; [reflexivity|reflexivity]].
  - unfold wf_sx in Hwf. cbn [forall_sub wf_node] in Hwf. apply andb_prop in Hwf as [Hop Hwf]. apply andb_prop in Hwf as [Hwa Hwb].
    destruct (IHs1 Hwa) as (t & r & E & A & B). rewrite pp_infix_bin, E. eexists; eexists; split; [reflexivity|split; [exact A|exact B]].
  - unfold wf_sx in Hwf. cbn [forall_sub wf_node] in Hwf. apply andb_prop in Hwf as [Hop Hwa].
    rewrite pp_infix_un. eexists; eexists; split; [reflexivity|split].
    + destruct op; try discriminate Hop; reflexivity.
    + discriminate.
  - unfold wf_sx in Hwf. cbn [forall_sub wf_node] in Hwf. simpl in Hwf.
    rewrite pp_infix_field. unfold obj. destruct (is_bin s || is_un s) eqn:Eb.
    + eexists; eexists; split; [reflexivity|split; reflexivity].
    + destruct (IHs Hwf) as (t & r & E & A & B). rewrite E. eexists; eexists; split; [reflexivity|split; [exact A|]].
      intros _. apply B. destruct s; try reflexivity; discriminate Eb.
  - unfold wf_sx in Hwf. cbn [forall_sub wf_node] in Hwf. simpl in Hwf.
    rewrite pp_infix_tidx. unfold obj. destruct (is_bin s || is_un s) eqn:Eb.
    + eexists; eexists; split; [reflexivity|split; reflexivity].
    + destruct (IHs Hwf) as (t & r & E & A & B). rewrite E. eexists; eexists; split; [reflexivity|split; [exact A|]].
      intros _. apply B. destruct s; try reflexivity; discriminate Eb.
  - rewrite pp_infix_call. eexists; eexists; split; [reflexivity|split; reflexivity].
Qed.

(* ---------------------------------------------------------------- generic_args_ahead: false unless some '>' is directly followed by '.' *)
Definition is_gt_tok (t : token) : bool := match tk t with K_GT => true | _ => false end.
Definition is_dot_tok (t : token) : bool := match pclass (tk t) with P_DOT => true | _ => false end.
Fixpoint gd_free (ts : list token) : bool :=
  match ts with
  | a :: r => match r with b :: _ => negb (is_gt_tok a && is_dot_tok b) | [] => true end && gd_free r
  | [] => true
  end.
Fixpoint ends_gt (l : list token) : bool :=
  match l with [] => false | a :: r => match r with [] => is_gt_tok a | _ :: _ => ends_gt r end end.

Lemma gd_free_tl t r : gd_free (t :: r) = true -> gd_free r = true.
Proof. cbn [gd_free]. intros H. apply andb_prop in H as [_ H]. exact H. Qed.

Lemma gclass_gt k : gclass k = G_GT -> k = K_GT.
Proof. destruct k; cbn; intros H; try discriminate H; reflexivity. Qed.

Lemma ga_false n d ts : gd_free ts = true -> generic_ahead n d ts = false.
Proof.
  revert d ts. induction n as [|n IH]; intros d ts H; [reflexivity|].
  destruct ts as [|t r]; [reflexivity|]. cbn [generic_ahead].
  pose proof (gd_free_tl _ _ H) as Hr.
  destruct (gclass (tk t)) eqn:G; try reflexivity; try (apply IH, Hr).
  destruct (Z.eqb (d - 1) 0); [|apply IH, Hr].
  apply gclass_gt in G. destruct r as [|b r']; [reflexivity|].
  cbn [gd_free] in H. apply andb_prop in H as [H _]. unfold is_gt_tok in H. rewrite G in H. cbn in H.
  unfold is_dot_tok in H. unfold peek, curc. cbn [skipn cur].
  destruct (pclass (tk b)); try reflexivity. discriminate H.
Qed.

Lemma gd_app a b : gd_free a = true -> gd_free b = true -> ends_gt a = false -> gd_free (a ++ b) = true.
Proof.
  induction a as [|x a IH]; intros Ha Hb He; [exact Hb|].
  destruct a as [|y a'].
  - cbn [app]. cbn [ends_gt] in He. destruct b as [|z b']; [reflexivity|]. cbn [gd_free]. rewrite He. cbn. exact Hb.
  - cbn [app gd_free] in *. apply andb_prop in Ha as [H1 H2]. rewrite H1. cbn [andb]. apply IH; [exact H2|exact Hb|exact He].
Qed.
Lemma ends_gt_app a b : b <> [] -> ends_gt (a ++ b) = ends_gt b.
Proof.
  intros Hb. induction a as [|x a IH]; [reflexivity|]. cbn [app ends_gt]. destruct (a ++ b) eqn:E.
  - destruct a; destruct b; try discriminate; congruence.
  - exact IH.
Qed.

(* "good segment": no '>' '.' pair inside, does not end with '>' *)
Definition G (l : list token) : Prop := gd_free l = true /\ ends_gt l = false.
Lemma G_app a b : G a -> G b -> G (a ++ b).
Proof.
  intros [A1 A2] [B1 B2]. split; [apply gd_app; assumption|].
  destruct b as [|z b']; [rewrite app_nil_r; exact A2|]. rewrite ends_gt_app by discriminate. exact B2.
Qed.
Lemma G_rest a rest : G a -> gd_free rest = true -> gd_free (a ++ rest) = true.
Proof. intros [A1 A2] H. apply gd_app; assumption. Qed.
Lemma G_cons t l : l <> [] -> (is_gt_tok t && is_dot_tok (hd t l)) = false -> G l -> G (t :: l).
Proof.
  intros Hne Hp [L1 L2]. destruct l as [|b l']; [congruence|]. split.
  - cbn [gd_free]. cbn [hd] in Hp. rewrite Hp. cbn. exact L1.
  - cbn [ends_gt]. exact L2.
Qed.
Lemma G_single t : is_gt_tok t = false -> G [t].
Proof. intros H. split; [reflexivity|exact H]. Qed.
Lemma G_paren l : G l -> G (paren l).
Proof.
  intros Hl. unfold paren. change (T K_LPAREN :: l ++ [T K_RPAREN]) with ([T K_LPAREN] ++ l ++ [T K_RPAREN]).
  apply G_app; [apply G_single; reflexivity|]. apply G_app; [exact Hl|apply G_single; reflexivity].
Qed.
Lemma gd_cons_nongt t rest : is_gt_tok t = false -> gd_free rest = true -> gd_free (t :: rest) = true.
Proof. intros Ht H. apply (G_rest [t] rest (G_single t Ht) H). Qed.

Lemma first_ok_not_dot t : first_ok (pclass (tk t)) = true -> is_dot_tok t = false.
Proof. unfold is_dot_tok. destruct (pclass (tk t)); cbn; congruence. Qed.

Lemma G_pp_infix s : wf_sx s = true -> G (pp_infix s).
Proof.
  induction s using sx_ind'; intros Hwf.
  - apply G_single; reflexivity.
  - destruct b; apply G_single; reflexivity.
  - apply G_single; reflexivity.
  - unfold wf_sx in Hwf. cbn [forall_sub wf_node] in Hwf. apply andb_prop in Hwf as [Hop Hwf]. apply andb_prop in Hwf as [Hwa Hwb].
    rewrite pp_infix_bin. apply G_app; [apply IHs1, Hwa|].
    assert (Hr : G (rhs s2)) by (unfold rhs; destruct (is_bin s2); [apply G_paren|]; apply IHs2, Hwb).
    assert (Hf : exists t r, rhs s2 = t :: r /\ is_dot_tok t = false).
    { unfold rhs. destruct (is_bin s2); [eexists; eexists; split; reflexivity|].
      destruct (pp_infix_first s2 Hwb) as (t & r & E & A & _). exists t, r. split; [exact E|apply first_ok_not_dot, A]. }
    destruct Hf as (t & r & E & Hd). apply G_cons; [rewrite E; discriminate | rewrite E; cbn [hd]; rewrite Hd; apply andb_false_r | exact Hr].
  - unfold wf_sx in Hwf. cbn [forall_sub wf_node] in Hwf. apply andb_prop in Hwf as [Hop Hwa].
    rewrite pp_infix_un.
    assert (Hr : G (rhs s)) by (unfold rhs; destruct (is_bin s); [apply G_paren|]; apply IHs, Hwa).
    assert (Hne : rhs s <> []).
    { unfold rhs. destruct (is_bin s); [discriminate|]. destruct (pp_infix_first s Hwa) as (t & r & E & _). rewrite E. discriminate. }
    apply G_cons; [exact Hne | destruct op; try discriminate Hop; reflexivity | exact Hr].
  - unfold wf_sx in Hwf. cbn [forall_sub wf_node] in Hwf. simpl in Hwf.
    rewrite pp_infix_field. apply G_app.
    + unfold obj. destruct (is_bin s || is_un s); [apply G_paren|]; apply IHs, Hwf.
    + split; reflexivity.
  - unfold wf_sx in Hwf. cbn [forall_sub wf_node] in Hwf. simpl in Hwf.
    rewrite pp_infix_tidx. apply G_app.
    + unfold obj. destruct (is_bin s || is_un s); [apply G_paren|]; apply IHs, Hwf.
    + split; reflexivity.
  - unfold wf_sx in Hwf. rewrite forall_sub_call in Hwf. cbn [wf_node andb] in Hwf. rewrite forallb_forall in Hwf.
    rewrite pp_infix_call.
    change (T K_LPAREN :: Tok K_IDENTIFIER f :: flat_map argp args ++ [T K_RPAREN])
      with ([T K_LPAREN; Tok K_IDENTIFIER f] ++ flat_map argp args ++ [T K_RPAREN]).
    apply G_app; [split; reflexivity|]. apply G_app; [|apply G_single; reflexivity].
    induction args as [|a r IHr]; [split; reflexivity|]. cbn [flat_map]. inversion H; subst. apply G_app.
    + unfold argp. cbv zeta. destruct (starts_with_minus (pp_infix a)); [apply G_paren|]; apply H2, Hwf; left; reflexivity.
    + apply IHr; [exact H3|]. intros x Hx. apply Hwf. right; exact Hx.
Qed.

Lemma G_rhs s : wf_sx s = true -> G (rhs s).
Proof. intros H. unfold rhs. destruct (is_bin s); [apply G_paren|]; apply G_pp_infix, H. Qed.
Lemma G_argp s : wf_sx s = true -> G (argp s).
Proof. intros H. unfold argp. cbv zeta. destruct (starts_with_minus (pp_infix s)); [apply G_paren|]; apply G_pp_infix, H. Qed.
Lemma G_flat_argp l : Forall (fun a => wf_sx a = true) l -> G (flat_map argp l).
Proof. induction 1; [split; reflexivity|]. cbn [flat_map]. apply G_app; [apply G_argp; assumption|assumption]. Qed.

(* ---------------------------------------------------------------- what may follow *)
Definition followv (o : option bytes) (ts : list token) : bool :=
  match curc ts with
  | P_LBRACE | P_DCOLON => false
  | P_LT => negb (upper_opt o && generic_args_ahead ts)
  | P_DOT => match peek ts 1, peek ts 2 with P_IDENT, P_LBRACE => false | _, _ => true end
  | _ => true
  end.
Definition is_dot_c (c : pk) : bool := match c with P_DOT => true | _ => false end.
(* after a form that ends in an operand read by parse_operand a '.' would be taken by that operand *)
Definition follow (s : sx) (ts : list token) : bool :=
  followv (last_var s) ts && negb ((is_bin s || is_un s) && is_dot_c (curc ts)).
Definition rhs_var (s : sx) : option bytes := if is_bin s then None else last_var s.

Lemma stop_followv o ts : stop_c (curc ts) = true -> followv o ts = true.
Proof. unfold followv. destruct (curc ts); simpl; congruence. Qed.
Lemma stop_follow s ts : stop_c (curc ts) = true -> follow s ts = true.
Proof. intros H. unfold follow. rewrite (stop_followv _ _ H). destruct (curc ts); simpl in *; try discriminate; rewrite ?andb_false_r; reflexivity. Qed.
Lemma followv_not_lbrace o ts : followv o ts = true -> curc ts <> P_LBRACE.
Proof. unfold followv. destruct (curc ts); congruence. Qed.
Lemma follow_fst s ts : follow s ts = true -> followv (last_var s) ts = true.
Proof. unfold follow. intros H. apply andb_prop in H as [H _]. exact H. Qed.
Lemma follow_not_dot s ts : follow s ts = true -> is_bin s || is_un s = true -> curc ts <> P_DOT.
Proof. unfold follow. intros H Hb. apply andb_prop in H as [_ H]. rewrite Hb in H. destruct (curc ts); cbn in H; congruence. Qed.
Lemma follow_plain s ts : is_bin s || is_un s = false -> followv (last_var s) ts = true -> follow s ts = true.
Proof. intros Hb H. unfold follow. rewrite H, Hb. reflexivity. Qed.
Lemma followv_dot_ident o f R : curc R <> P_LBRACE -> followv o (T K_DOT :: Tok K_IDENTIFIER f :: R) = true.
Proof. unfold followv, peek, curc. cbn [skipn cur tk T pclass]. destruct (pclass (cur R)); congruence. Qed.
Lemma followv_dot_num o i R : followv o (T K_DOT :: Tok K_NUMBER i :: R) = true.
Proof. reflexivity. Qed.
Lemma followv_rparen o R : followv o (T K_RPAREN :: R) = true.
Proof. reflexivity. Qed.
Lemma followv_op o op R : is_infix_binary_op op = true -> gd_free (T op :: R) = true -> followv o (T op :: R) = true.
Proof.
  unfold followv, is_infix_binary_op, curc. cbn [cur tk T]. intros H1 H2.
  destruct (pclass op) eqn:E; try reflexivity; try discriminate H1.
  unfold generic_args_ahead. rewrite (ga_false 256 0 _ H2). rewrite andb_false_r. reflexivity.
Qed.
Lemma follow_op s op R : is_infix_binary_op op = true -> gd_free (T op :: R) = true -> follow s (T op :: R) = true.
Proof.
  intros H1 H2. unfold follow. rewrite followv_op by assumption. unfold curc. cbn [cur tk T].
  unfold is_infix_binary_op in H1. destruct (pclass op); cbn in H1; try discriminate H1; rewrite ?andb_false_r; reflexivity.
Qed.

Lemma ident_follow x rest err :
  followv (Some x) rest = true ->
  ident_body (Tok K_IDENTIFIER x) (Tok K_IDENTIFIER x :: rest) rest err = Ok (Some (EVar x)) rest err.
Proof.
  unfold followv, ident_body. cbv zeta.
  change (peek (Tok K_IDENTIFIER x :: rest) 1) with (curc rest).
  change (peek (Tok K_IDENTIFIER x :: rest) 2) with (peek rest 1).
  change (peek (Tok K_IDENTIFIER x :: rest) 3) with (peek rest 2).
  change (tv (Tok K_IDENTIFIER x)) with x. cbn [upper_opt].
  destruct (curc rest) eqn:E1; try discriminate; try (intros _; cbn; destruct (is_upper x); reflexivity).
  - (* DOT *)
    destruct (peek rest 1) eqn:E2; try (intros _; cbn; destruct (is_upper x); reflexivity).
    destruct (peek rest 2) eqn:E3; try discriminate; intros _; cbn;
      destruct (is_upper (peekv (Tok K_IDENTIFIER x :: rest) 2)); reflexivity.
  - (* LT *) intros H. cbn. apply negb_true_iff in H. rewrite H. destruct (is_upper x); reflexivity.
Qed.

(* ---------------------------------------------------------------- decomposition of wf / safe *)
Lemma safe_bin op a b : infix_safe (SBin op a b) = true ->
  infix_safe a = true /\ infix_safe b = true /\ bad_group b = false.
Proof.
  unfold infix_safe. cbn [forall_sub]. unfold node_ok at 1. cbn [ok_group].
  rewrite !andb_true_iff, !negb_true_iff. tauto.
Qed.
Lemma safe_un op a : infix_safe (SUn op a) = true -> infix_safe a = true /\ bad_group a = false.
Proof.
  unfold infix_safe. cbn [forall_sub]. unfold node_ok at 1. cbn [ok_group].
  rewrite !andb_true_iff, !negb_true_iff. tauto.
Qed.
Lemma safe_field a f : infix_safe (SField a f) = true -> infix_safe a = true /\ bad_group a = false.
Proof.
  unfold infix_safe. cbn [forall_sub]. unfold node_ok at 1. cbn [ok_group].
  rewrite !andb_true_iff, !negb_true_iff. tauto.
Qed.
Lemma safe_tidx a i : infix_safe (STIdx a i) = true -> infix_safe a = true /\ bad_group a = false.
Proof.
  unfold infix_safe. cbn [forall_sub]. unfold node_ok at 1. cbn [ok_group].
  rewrite !andb_true_iff, !negb_true_iff. tauto.
Qed.
Lemma safe_call f args : infix_safe (SCall f args) = true ->
  forallb infix_safe args = true /\ forallb (fun a => negb (bad_group a)) args = true.
Proof.
  unfold infix_safe. rewrite forall_sub_call. unfold node_ok at 1. cbn [ok_group].
  rewrite !andb_true_iff. tauto.
Qed.
Lemma wf_bin op a b : wf_sx (SBin op a b) = true -> is_infix_binary_op op = true /\ wf_sx a = true /\ wf_sx b = true.
Proof. unfold wf_sx. cbn [forall_sub wf_node]. rewrite !andb_true_iff. tauto. Qed.
Lemma wf_un op a : wf_sx (SUn op a) = true -> is_unary_op op = true /\ wf_sx a = true.
Proof. unfold wf_sx. cbn [forall_sub wf_node]. rewrite !andb_true_iff. tauto. Qed.
Lemma wf_field a f : wf_sx (SField a f) = true -> wf_sx a = true.
Proof. unfold wf_sx. cbn [forall_sub wf_node]. rewrite !andb_true_iff. tauto. Qed.
Lemma wf_tidx a i : wf_sx (STIdx a i) = true -> wf_sx a = true.
Proof. unfold wf_sx. cbn [forall_sub wf_node]. rewrite !andb_true_iff. tauto. Qed.
Lemma wf_call f args : wf_sx (SCall f args) = true -> forallb wf_sx args = true.
Proof. unfold wf_sx. rewrite forall_sub_call. cbn [wf_node]. rewrite !andb_true_iff. tauto. Qed.

(* ---------------------------------------------------------------- the operand's own postfix loop *)
Lemma odots_stop e ts : curc ts <> P_DOT -> odots e ts = (e, ts).
Proof.
  destruct ts as [|t r]; [reflexivity|]. unfold curc; cbn [cur odots]. intros H.
  destruct (pclass (tk t)); try reflexivity. congruence.
Qed.
Lemma odots_field e f rest : curc rest <> P_LBRACE ->
  odots e (T K_DOT :: Tok K_IDENTIFIER f :: rest) = odots (EField e f) rest.
Proof. intros H. cbn [odots T tk pclass tv]. destruct (curc rest); try reflexivity. congruence. Qed.
Lemma odots_tidx e i rest : odots e (T K_DOT :: Tok K_NUMBER i :: rest) = odots (ETIdx e (wrap32 (atoll i))) rest.
Proof. reflexivity. Qed.

(* ---------------------------------------------------------------- statements *)
Definition nest_rhs (s : sx) : nat := if is_bin s then S (nest_infix s) else nest_infix s.

(* parse_primary on the printed form leaves [st]; the loop of parse_expression, resp. the postfix loop of parse_operand,
   then carries [c] over [st] to what the tree denotes *)
Definition HI (s : sx) : Prop :=
  forall d rest err, d + nest_infix s <= S MAXD -> follow s rest = true -> gd_free rest = true ->
  exists c st, ev (CPrim d (pp_infix s ++ rest) err) (Ok (Some c) (st ++ rest) err) /\
               (forall R e r, follow s R = true -> gd_free R = true ->
                              ev (CLoop d (denote s) R e) r -> ev (CLoop d c (st ++ R) e) r) /\
               (is_bin s = false -> forall R, curc R <> P_LBRACE -> odots c (st ++ R) = odots (denote s) R).

(* the form as a right / unary operand (parenthesised when it is a binary operation), read by parse_operand *)
Definition POp (s : sx) : Prop :=
  forall d R e, d + nest_rhs s <= S MAXD -> followv (rhs_var s) R = true -> curc R <> P_DOT -> gd_free R = true ->
  ev (COperand d (rhs s ++ R) e) (Ok (Some (denote s)) R e).

Definition PGun (s : sx) : Prop :=
  forall d rest err, d + S (nest_infix s) <= S MAXD -> gd_free rest = true ->
  ev (CPrim d (paren (pp_infix s) ++ rest) err) (Ok (Some (denote s)) rest err).

Definition EI (s : sx) : Prop :=
  forall d rest err, d + nest_infix s <= MAXD -> stop_c (curc rest) = true -> gd_free rest = true ->
  ev (CExpr d (pp_infix s ++ rest) err) (Ok (Some (denote s)) rest err).

(* ---------------------------------------------------------------- generic steps *)
Lemma ev_loop_stop d x rest err : stop_c (curc rest) = true -> ev (CLoop d x rest err) (Ok (Some x) rest err).
Proof.
  intros H. apply ev_body. exists 0. intros f _. cbn [body]. unfold loop_body.
  rewrite dots_stop by (destruct (curc rest); simpl in H; congruence).
  rewrite (stop_not_infix _ H). reflexivity.
Qed.

(* parse_expression = parse_primary when the loop has nothing to do *)
Lemma E_of_P d ts x rest err :
  S d <= MAXD -> first_ok (curc ts) = true -> stop_c (curc rest) = true ->
  ev (CPrim (S d) ts err) (Ok (Some x) rest err) -> ev (CExpr d ts err) (Ok (Some x) rest err).
Proof.
  intros Hd Hf Hs [n Hn]. destruct (ev_loop_stop (S d) x rest err Hs) as [m Hm].
  apply ev_body. exists (n + m). intros f Hle. cbn [body]. unfold expression_body.
  replace (Nat.ltb MAXD (S d)) with false by (symmetry; apply Nat.ltb_ge; lia).
  rewrite Hn by lia. rewrite Hm by lia.
  destruct (curc ts); simpl in Hf; try discriminate; reflexivity.
Qed.

Lemma nest_infix_pos s : 1 <= nest_infix s.
Proof.
  induction s using sx_ind'; cbn [nest_infix]; try lia;
    repeat match goal with |- context [if ?b then _ else _] => destruct b end; lia.
Qed.
Lemma nest_rhs_pos s : 1 <= nest_rhs s.
Proof. unfold nest_rhs. pose proof (nest_infix_pos s). destruct (is_bin s); lia. Qed.

Lemma EI_of_HI s : wf_sx s = true -> HI s -> EI s.
Proof.
  intros Hwf H d rest err Hd Hs Hg.
  pose proof (nest_infix_pos s) as Hpos.
  destruct (H (S d) rest err ltac:(lia) (stop_follow _ _ Hs) Hg) as (c & st & [n Hn] & Heq & _).
  destruct (Heq rest err _ (stop_follow _ _ Hs) Hg (ev_loop_stop (S d) (denote s) rest err Hs)) as [m Hm].
  destruct (pp_infix_first s Hwf) as (t & r & E & A & _).
  apply ev_body. exists (n + m). intros f Hle. cbn [body]. unfold expression_body.
  replace (Nat.ltb MAXD (S d)) with false by (symmetry; apply Nat.ltb_ge; lia).
  rewrite Hn by lia. rewrite Hm by lia.
  rewrite E. cbn [app]. change (curc (t :: r ++ rest)) with (pclass (tk t)). destruct (pclass (tk t)); simpl in A; try discriminate; reflexivity.
Qed.

Lemma loop_field_eq g d x f R e : curc R <> P_LBRACE ->
  run (S g) (CLoop d x (T K_DOT :: Tok K_IDENTIFIER f :: R) e) = run (S g) (CLoop d (EField x f) R e).
Proof. intros H. rewrite !run_S. cbn [body]. unfold loop_body. rewrite dots_field by exact H. reflexivity. Qed.
Lemma loop_tidx_eq g d x i R e :
  run (S g) (CLoop d x (T K_DOT :: Tok K_NUMBER i :: R) e) = run (S g) (CLoop d (ETIdx x (wrap32 (atoll i))) R e).
Proof. rewrite !run_S. cbn [body]. unfold loop_body. rewrite dots_tidx. reflexivity. Qed.

Lemma ev_loop_field d x f R e r : curc R <> P_LBRACE ->
  ev (CLoop d (EField x f) R e) r -> ev (CLoop d x (T K_DOT :: Tok K_IDENTIFIER f :: R) e) r.
Proof.
  intros H [n Hn]. exists (S n). intros g Hg. destruct g; [lia|]. rewrite loop_field_eq by exact H. apply Hn. lia.
Qed.
Lemma ev_loop_tidx d x i R e r :
  ev (CLoop d (ETIdx x (wrap32 (atoll i))) R e) r -> ev (CLoop d x (T K_DOT :: Tok K_NUMBER i :: R) e) r.
Proof.
  intros [n Hn]. exists (S n). intros g Hg. destruct g; [lia|]. rewrite loop_tidx_eq. apply Hn. lia.
Qed.

(* one infix step of the loop: the right operand is read by parse_operand *)
Lemma ev_loop_bin d x op b R e r :
  is_infix_binary_op op = true ->
  ev (COperand d (b ++ R) e) (Ok (Some (snd x)) R e) ->
  ev (CLoop d (EOp op [fst x; snd x]) R e) r ->
  ev (CLoop d (fst x) (T op :: b ++ R) e) r.
Proof.
  intros Hop [n Hn] [m Hm]. apply ev_body. exists (n + m). intros f Hf. cbn [body]. unfold loop_body.
  rewrite dots_stop.
  2:{ unfold curc. cbn [cur tk T]. unfold is_infix_binary_op in Hop. destruct (pclass op); simpl in Hop; congruence. }
  cbn [cur tk T adv]. rewrite Hop. rewrite Hn by lia. apply Hm. lia.
Qed.

(* parse_operand = parse_primary when no '.' follows *)
Lemma O_of_P d ts x R e : curc R <> P_DOT ->
  ev (CPrim d ts e) (Ok (Some x) R e) -> ev (COperand d ts e) (Ok (Some x) R e).
Proof.
  intros Hd [n Hn]. apply ev_body. exists n. intros f Hf. cbn [body]. unfold operand_body.
  rewrite Hn by lia. rewrite odots_stop by exact Hd. reflexivity.
Qed.

Lemma paren_app l rest : paren l ++ rest = T K_LPAREN :: l ++ T K_RPAREN :: rest.
Proof. unfold paren. cbn [app]. rewrite <- app_assoc. reflexivity. Qed.

(* '(' e ')' where e is a binary operation that does not begin with a unary operator: grouping *)
Lemma group_bin s d rest err :
  wf_sx s = true -> is_bin s = true -> lead_un s = false -> EI s -> d + S (nest_infix s) <= S MAXD -> gd_free rest = true ->
  ev (CPrim d (paren (pp_infix s) ++ rest) err) (Ok (Some (denote s)) rest err).
Proof.
  intros Hwf Hb Hl HE Hd Hg. rewrite paren_app.
  destruct (HE d (T K_RPAREN :: rest) err ltac:(lia) eq_refl (gd_cons_nongt (T K_RPAREN) rest eq_refl Hg)) as [n Hn].
  destruct (pp_infix_first s Hwf) as (t & r & E & _ & A). specialize (A Hl).
  apply ev_body. exists n. intros f Hf. cbn [body]. unfold primary_body. cbn [tk T pclass].
  assert (Hc : curc (pp_infix s ++ T K_RPAREN :: rest) = pclass (tk t)) by (rewrite E; reflexivity).
  assert (Hp : is_prefix_operator (cur (pp_infix s ++ T K_RPAREN :: rest)) = false).
  { rewrite E. cbn [app cur]. unfold is_prefix_operator, is_prefix_operator_c. destruct (pclass (tk t)); simpl in A; try discriminate; reflexivity. }
  rewrite Hp. unfold paren_body. rewrite Hn by lia. cbn [curc cur tk T pclass adv].
  destruct s; try discriminate Hb. cbn [denote].
  rewrite Hc. destruct (pclass (tk t)); simpl in A; try discriminate; reflexivity.
Qed.

(* argument loops, one step *)
Lemma ev_nofail_end d mk acc rest err : ev (CNoFail d mk acc (T K_RPAREN :: rest) err) (Ok (Some (mk acc)) rest err).
Proof. apply ev_body. exists 0. intros. reflexivity. Qed.
Lemma ev_fail_end d mk acc rest err : ev (CFail d mk acc (T K_RPAREN :: rest) err) (Ok (Some (mk acc)) rest err).
Proof. apply ev_body. exists 0. intros. reflexivity. Qed.

Lemma ev_nofail_step d mk acc l R err a r :
  at_rparen_or_eof (l ++ R) = false ->
  ev (CExpr d (l ++ R) err) (Ok (Some a) R err) ->
  ev (CNoFail d mk (acc ++ [a]) R err) r -> ev (CNoFail d mk acc (l ++ R) err) r.
Proof.
  intros He [n Hn] [m Hm]. apply ev_body. exists (n + m). intros f Hf. cbn [body]. unfold nofail_body.
  rewrite He, Hn by lia. apply Hm. lia.
Qed.
Lemma ev_fail_step d mk acc l R err a r :
  at_rparen_or_eof (l ++ R) = false ->
  ev (CExpr d (l ++ R) err) (Ok (Some a) R err) ->
  ev (CFail d mk (acc ++ [a]) R err) r -> ev (CFail d mk acc (l ++ R) err) r.
Proof.
  intros He [n Hn] [m Hm]. apply ev_body. exists (n + m). intros f Hf. cbn [body]. unfold fail_body.
  rewrite He, Hn by lia. apply Hm. lia.
Qed.

Lemma first_ok_not_end ts : first_ok (curc ts) = true -> at_rparen_or_eof ts = false.
Proof. unfold at_rparen_or_eof. destruct (curc ts); simpl; congruence. Qed.

Lemma pp_infix_nonempty s : wf_sx s = true -> pp_infix s <> [].
Proof. intros H. destruct (pp_infix_first s H) as (t & r & E & _). rewrite E. discriminate. Qed.
Lemma curc_pp_infix s rest : wf_sx s = true -> first_ok (curc (pp_infix s ++ rest)) = true.
Proof. intros H. destruct (pp_infix_first s H) as (t & r & E & A & _). rewrite E. exact A. Qed.
Lemma curc_rhs s rest : wf_sx s = true -> first_ok (curc (rhs s ++ rest)) = true.
Proof. intros H. unfold rhs. destruct (is_bin s); [reflexivity|apply curc_pp_infix, H]. Qed.

(* parse_expression on a right-operand form followed by a stop token *)
Definition ERhs (s : sx) : Prop :=
  forall d rest err, d + nest_rhs s <= MAXD -> stop_c (curc rest) = true -> gd_free rest = true ->
  ev (CExpr d (rhs s ++ rest) err) (Ok (Some (denote s)) rest err).

Lemma ERhs_of s : wf_sx s = true -> bad_group s = false -> EI s -> ERhs s.
Proof.
  intros Hwf Hbg HE d rest err Hd Hs Hg. unfold rhs, nest_rhs in *. destruct (is_bin s) eqn:Eb.
  - apply E_of_P; [lia | reflexivity | exact Hs |].
    apply group_bin; [exact Hwf | exact Eb | | exact HE | lia | exact Hg].
    unfold bad_group in Hbg. rewrite Eb in Hbg. exact Hbg.
  - apply HE; assumption.
Qed.

(* '(' op e ')' with op unary: the prefix form with one argument *)
Lemma group_un op a d rest err :
  is_unary_op op = true -> wf_sx a = true -> ERhs a -> d + S (nest_rhs a) <= S MAXD -> gd_free rest = true ->
  ev (CPrim d (paren (T op :: rhs a) ++ rest) err) (Ok (Some (EOp op [denote a])) rest err).
Proof.
  intros Hop Hwf HE Hd Hg. rewrite paren_app. cbn [app].
  pose proof (unary_not_rparen _ Hop) as Hnr. pose proof (unary_is_prefix _ Hop) as Hpo.
  assert (Hnf : ev (CNoFail d (fun x => EOp op x) [] (rhs a ++ T K_RPAREN :: rest) err) (Ok (Some (EOp op [denote a])) rest err)).
  { eapply ev_nofail_step; [apply first_ok_not_end, curc_rhs, Hwf | apply HE; [lia|reflexivity|apply gd_cons_nongt; [reflexivity|exact Hg]] |].
    cbn [app]. apply ev_nofail_end. }
  destruct Hnf as [n Hn].
  apply ev_body. exists (S n). intros f Hf. destruct f as [|f]; [lia|].
  cbn [body]. unfold primary_body. cbn [tk T pclass]. unfold curc at 1. cbn [cur tk T]. rewrite Hpo.
  rewrite run_S. cbn [body]. unfold prefix_op_body. cbv zeta. cbn [curc cur tk T pclass adv]. rewrite Hpo.
  rewrite Hn by lia. destruct (pclass op) eqn:E; try congruence; reflexivity.
Qed.

Definition argnest (a : sx) : nat := if starts_with_minus (pp_infix a) then S (nest_infix a) else nest_infix a.
Definition EArg (a : sx) : Prop :=
  forall d rest err, d + argnest a <= MAXD -> stop_c (curc rest) = true -> gd_free rest = true ->
  ev (CExpr d (argp a ++ rest) err) (Ok (Some (denote a)) rest err).

Definition arg_first (c : pk) : bool := match c with P_NUMBER | P_TRUE | P_FALSE | P_IDENT | P_LPAREN | P_NOT => true | _ => false end.
Lemma argp_first a rest : wf_sx a = true -> arg_first (curc (argp a ++ rest)) = true.
Proof.
  intros Hwf. unfold argp. cbv zeta. destruct (starts_with_minus (pp_infix a)) eqn:E; [reflexivity|].
  destruct (pp_infix_first a Hwf) as (t & r & Et & A & _). rewrite Et in *. unfold starts_with_minus, curc in E. cbn [cur] in E.
  cbn [app]. unfold curc. cbn [cur]. destruct (pclass (tk t)); simpl in A; try discriminate; try reflexivity.
Qed.
Lemma arg_first_stop c : arg_first c = true -> stop_c c = true.
Proof. destruct c; simpl; congruence. Qed.
Lemma arg_first_not_end ts : arg_first (curc ts) = true -> at_rparen_or_eof ts = false.
Proof. unfold at_rparen_or_eof. destruct (curc ts); simpl; congruence. Qed.

Definition anest_list (args : list sx) : nat := fold_right (fun a m => Nat.max (argnest a) m) 1 args.
Lemma anest_list_le args a : In a args -> argnest a <= anest_list args.
Proof. induction args as [|b r IH]; [intros []|]. intros [->|H]; cbn; [lia|]. specialize (IH H). unfold anest_list in IH. lia. Qed.
Lemma anest_list_base args : 1 <= anest_list args.
Proof. induction args; cbn; [lia|]. unfold anest_list in *. lia. Qed.

Lemma gd_args r rest : Forall (fun a => wf_sx a = true) r -> gd_free rest = true -> gd_free (flat_map argp r ++ T K_RPAREN :: rest) = true.
Proof. intros Hw Hg. apply G_rest; [apply G_flat_argp, Hw|apply gd_cons_nongt; [reflexivity|exact Hg]]. Qed.

Lemma fail_list_infix args : Forall EArg args -> Forall (fun a => wf_sx a = true) args ->
  forall d mk acc rest err, (forall a, In a args -> d + argnest a <= MAXD) -> gd_free rest = true ->
  ev (CFail d mk acc (flat_map argp args ++ T K_RPAREN :: rest) err) (Ok (Some (mk (acc ++ map denote args))) rest err).
Proof.
  induction 1 as [|a r Ha Hr IH]; intros Hwf d mk acc rest err Hd Hg.
  - cbn [flat_map map app]. rewrite app_nil_r. apply ev_fail_end.
  - inversion Hwf as [|? ? Hwa Hwr]; subst. cbn [flat_map map]. rewrite <- app_assoc.
    eapply ev_fail_step.
    + apply arg_first_not_end, argp_first, Hwa.
    + apply Ha; [apply Hd; left; reflexivity| |apply gd_args; assumption].
      destruct r as [|b r']; [reflexivity|]. inversion Hwr; subst. cbn [flat_map]. rewrite <- app_assoc. apply arg_first_stop, argp_first. assumption.
    + replace (acc ++ denote a :: map denote r) with ((acc ++ [denote a]) ++ map denote r) by (rewrite <- app_assoc; reflexivity).
      apply IH; [exact Hwr | intros; apply Hd; right; assumption | exact Hg].
Qed.

Lemma nest_infix_call f args : nest_infix (SCall f args) = S (anest_list args).
Proof. reflexivity. Qed.

Definition Q (s : sx) : Prop :=
  wf_sx s = true -> infix_safe s = true ->
  HI s /\ (bad_group s = false -> POp s) /\ (is_un s = true -> PGun s).

(* a form that parse_primary reads completely *)
Lemma HI_of_prim s :
  (forall d rest err, d + nest_infix s <= S MAXD -> follow s rest = true -> gd_free rest = true ->
     ev (CPrim d (pp_infix s ++ rest) err) (Ok (Some (denote s)) rest err)) -> HI s.
Proof.
  intros H d rest err Hd Hf Hg. exists (denote s), []. split; [apply H; assumption|]. split.
  - intros R e r _ _ Hr. exact Hr.
  - intros _ R _. reflexivity.
Qed.

(* a non-binary form as operand: parse_primary, then the operand's postfix loop takes what parse_primary left *)
Lemma POp_of_HI s : is_bin s = false -> HI s -> POp s.
Proof.
  intros Hb H d R e Hd Hf Hnd Hg. unfold rhs, nest_rhs, rhs_var in *. rewrite Hb in Hd, Hf |- *.
  assert (Hfo : follow s R = true).
  { unfold follow. rewrite Hf. destruct (curc R); try congruence; rewrite ?andb_false_r; reflexivity. }
  destruct (H d R e Hd Hfo Hg) as (c & st & [n Hn] & _ & Hod).
  apply ev_body. exists n. intros f Hle. cbn [body]. unfold operand_body. rewrite Hn by lia.
  rewrite (Hod Hb R (followv_not_lbrace _ _ Hf)). rewrite odots_stop by exact Hnd. reflexivity.
Qed.

Lemma EArg_of a : wf_sx a = true -> infix_safe a = true -> bad_group a = false -> Q a -> EArg a.
Proof.
  intros Hwf Hsafe Hbg HQ d rest err Hd Hs Hg. destruct (HQ Hwf Hsafe) as (HH & HP & HG).
  unfold argp, argnest in *. cbv zeta. destruct (starts_with_minus (pp_infix a)) eqn:E.
  - (* starts with '-': a is a unary node, printed in parentheses *)
    assert (Hl : lead_un a = true).
    { destruct (lead_un a) eqn:El; [reflexivity|]. destruct (pp_infix_first a Hwf) as (t & r & Et & _ & A). specialize (A El).
      rewrite Et in E. unfold starts_with_minus, curc in E. cbn [cur] in E. destruct (pclass (tk t)); simpl in A; discriminate. }
    assert (Hu : is_un a = true).
    { unfold bad_group in Hbg. rewrite Hl, andb_true_r in Hbg. destruct a; try discriminate; reflexivity. }
    apply E_of_P; [lia | reflexivity | exact Hs |]. apply HG; [exact Hu | lia | exact Hg].
  - apply (EI_of_HI a Hwf HH); assumption.
Qed.

Lemma Q_all s : Q s.
Proof.
  induction s using sx_ind'; intros Hwf Hsafe.
  - (* SNum *)
    assert (HPr : forall d rest err, ev (CPrim d (pp_infix (SNum z) ++ rest) err) (Ok (Some (denote (SNum z))) rest err)).
    { intros. apply ev_body. exists 0. intros. reflexivity. }
    assert (HH : HI (SNum z)) by (apply HI_of_prim; intros; apply HPr).
    split; [exact HH|]. split; [|discriminate]. intros _. apply POp_of_HI; [reflexivity|exact HH].
  - (* SBool *)
    assert (HPr : forall d rest err, ev (CPrim d (pp_infix (SBool b) ++ rest) err) (Ok (Some (denote (SBool b))) rest err)).
    { intros. apply ev_body. exists 0. intros. destruct b; reflexivity. }
    assert (HH : HI (SBool b)) by (apply HI_of_prim; intros; apply HPr).
    split; [exact HH|]. split; [|discriminate]. intros _. apply POp_of_HI; [reflexivity|exact HH].
  - (* SVar *)
    assert (HH : HI (SVar x)).
    { apply HI_of_prim. intros d rest err _ Hf _. apply ev_body. exists 0. intros. cbn [body pp_infix app]. unfold primary_body. cbn [tk pclass].
      apply ident_follow. apply follow_fst in Hf. exact Hf. }
    split; [exact HH|]. split; [|discriminate]. intros _. apply POp_of_HI; [reflexivity|exact HH].
  - (* SBin *)
    destruct (wf_bin _ _ _ Hwf) as (Hop & Hwa & Hwb). destruct (safe_bin _ _ _ Hsafe) as (Hsa & Hsb & Hgb).
    destruct (IHs1 Hwa Hsa) as (HIa & _ & _). destruct (IHs2 Hwb Hsb) as (HIb & HPb & _). specialize (HPb Hgb).
    assert (HH : HI (SBin op s1 s2)).
    { intros d rest err Hd Hf Hg. cbn [nest_infix] in Hd. fold (nest_rhs s2) in Hd.
      rewrite pp_infix_bin. rewrite <- app_assoc. cbn [app].
      assert (Hg1 : forall R, gd_free R = true -> gd_free (T op :: rhs s2 ++ R) = true).
      { intros R HR. change (T op :: rhs s2 ++ R) with ((T op :: rhs s2) ++ R). apply G_rest; [|exact HR].
        pose proof (G_pp_infix (SBin op (SNum []) s2)) as HG. rewrite pp_infix_bin in HG. cbn [pp_infix app] in HG.
        assert (Hw : wf_sx (SBin op (SNum []) s2) = true) by (unfold wf_sx in *; cbn [forall_sub wf_node]; rewrite Hop; cbn; exact Hwb).
        destruct (HG Hw) as [G1 G2]. split.
        - apply (gd_free_tl _ _ G1).
        - destruct (rhs s2) eqn:Er; [cbn in G2 |- *; exact G2|]. cbn [ends_gt] in G2 |- *. exact G2. }
      destruct (HIa d (T op :: rhs s2 ++ rest) err ltac:(lia)) as (c & st & Hprim & Heq & _).
      { apply follow_op; [exact Hop|apply Hg1, Hg]. }
      { apply Hg1, Hg. }
      exists c, (st ++ T op :: rhs s2). split; [rewrite <- app_assoc; exact Hprim|]. split; [|discriminate].
      intros R e r HfR HgR Hr. rewrite <- app_assoc. cbn [app]. apply Heq; [apply follow_op; [exact Hop|apply Hg1, HgR] | apply Hg1, HgR |].
      apply (ev_loop_bin d (denote s1, denote s2) op (rhs s2) R e r Hop); [|exact Hr].
      apply HPb; [lia | | apply (follow_not_dot _ _ HfR); reflexivity | exact HgR].
      apply follow_fst in HfR. exact HfR. }
    split; [exact HH|]. split; [|discriminate].
    intros Hbg d R e Hd _ Hnd Hg. unfold rhs, nest_rhs in *. cbn [is_bin] in *.
    apply O_of_P; [exact Hnd|].
    apply group_bin; [exact Hwf | reflexivity | | apply EI_of_HI; assumption | exact Hd | exact Hg].
    unfold bad_group in Hbg. cbn [is_bin andb] in Hbg. exact Hbg.
  - (* SUn *)
    destruct (wf_un _ _ Hwf) as (Hop & Hwa). destruct (safe_un _ _ Hsafe) as (Hsa & Hga).
    destruct (IHs Hwa Hsa) as (HIa & HPa & _). specialize (HPa Hga).
    assert (HPr : forall d rest err, d + nest_infix (SUn op s) <= S MAXD -> follow (SUn op s) rest = true -> gd_free rest = true ->
                  ev (CPrim d (pp_infix (SUn op s) ++ rest) err) (Ok (Some (denote (SUn op s))) rest err)).
    { intros d rest err Hd Hf Hg. cbn [nest_infix] in Hd. fold (nest_rhs s) in Hd. rewrite pp_infix_un. cbn [app].
      pose proof (nest_rhs_pos s) as Hp1.
      destruct (HPa (S d) rest err ltac:(lia)) as [n Hn].
      { apply follow_fst in Hf. exact Hf. }
      { apply (follow_not_dot _ _ Hf). reflexivity. }
      { exact Hg. }
      apply ev_body. exists n. intros f Hle. cbn [body]. unfold primary_body. cbn [tk T].
      replace (Nat.ltb MAXD (S d)) with false by (symmetry; apply Nat.ltb_ge; lia).
      rewrite Hn by lia.
      destruct op; try discriminate Hop; reflexivity. }
    assert (HH : HI (SUn op s)) by (apply HI_of_prim, HPr).
    split; [exact HH|]. split.
    + intros _. apply POp_of_HI; [reflexivity|exact HH].
    + intros _ d rest err Hd Hg. rewrite pp_infix_un. cbn [nest_infix] in Hd. fold (nest_rhs s) in Hd.
      apply group_un; [exact Hop | exact Hwa | | lia | exact Hg].
      apply ERhs_of; [exact Hwa | exact Hga | apply EI_of_HI; assumption].
  - (* SField *)
    pose proof (wf_field _ _ Hwf) as Hwa. destruct (safe_field _ _ Hsafe) as (Hsa & Hga).
    destruct (IHs Hwa Hsa) as (HIa & HPa & HGa).
    assert (HH : HI (SField s f)).
    { intros d rest err Hd Hf Hg. cbn [nest_infix] in Hd. rewrite pp_infix_field. unfold obj. rewrite <- app_assoc. cbn [app].
      apply follow_fst in Hf. pose proof (followv_not_lbrace _ _ Hf) as Hnl.
      assert (Hg2 : forall R, gd_free R = true -> gd_free (T K_DOT :: Tok K_IDENTIFIER f :: R) = true).
      { intros R HR. apply gd_cons_nongt; [reflexivity|]. apply gd_cons_nongt; [reflexivity|exact HR]. }
      destruct (is_bin s || is_un s) eqn:Epar.
      + (* parenthesised object *)
        assert (Hprim : ev (CPrim d (paren (pp_infix s) ++ T K_DOT :: Tok K_IDENTIFIER f :: rest) err)
                           (Ok (Some (denote s)) (T K_DOT :: Tok K_IDENTIFIER f :: rest) err)).
        { destruct (is_bin s) eqn:Eb.
          - apply group_bin; [exact Hwa | exact Eb | | apply EI_of_HI; assumption | exact Hd | apply Hg2, Hg].
            unfold bad_group in Hga. rewrite Eb in Hga. exact Hga.
          - cbn [orb] in Epar. apply HGa; [exact Epar | exact Hd | apply Hg2, Hg]. }
        exists (denote s), [T K_DOT; Tok K_IDENTIFIER f]. split; [exact Hprim|]. split.
        * intros R e r HfR _ Hr. cbn [app]. apply follow_fst in HfR. apply ev_loop_field; [apply (followv_not_lbrace _ _ HfR)|exact Hr].
        * intros _ R HR. cbn [app denote]. apply odots_field, HR.
      + assert (Hbs : is_bin s = false) by (destruct (is_bin s); [discriminate Epar|reflexivity]).
        destruct (HIa d (T K_DOT :: Tok K_IDENTIFIER f :: rest) err Hd) as (c & st & Hprim & Heq & Hod).
        { apply follow_plain; [exact Epar|apply followv_dot_ident, Hnl]. }
        { apply Hg2, Hg. }
        exists c, (st ++ [T K_DOT; Tok K_IDENTIFIER f]). split; [rewrite <- app_assoc; exact Hprim|]. split.
        * intros R e r HfR HgR Hr. rewrite <- app_assoc. cbn [app]. apply follow_fst in HfR.
          pose proof (followv_not_lbrace _ _ HfR) as HnR.
          apply Heq; [apply follow_plain; [exact Epar|apply followv_dot_ident, HnR] | apply Hg2, HgR |].
          apply ev_loop_field; [exact HnR|exact Hr].
        * intros _ R HR. rewrite <- app_assoc. cbn [app denote]. rewrite (Hod Hbs) by (cbn; discriminate). apply odots_field, HR. }
    split; [exact HH|]. split; [|discriminate]. intros _. apply POp_of_HI; [reflexivity|exact HH].
  - (* STIdx *)
    pose proof (wf_tidx _ _ Hwf) as Hwa. destruct (safe_tidx _ _ Hsafe) as (Hsa & Hga).
    destruct (IHs Hwa Hsa) as (HIa & HPa & HGa).
    assert (HH : HI (STIdx s i)).
    { intros d rest err Hd Hf Hg. cbn [nest_infix] in Hd. rewrite pp_infix_tidx. unfold obj. rewrite <- app_assoc. cbn [app].
      assert (Hg2 : forall R, gd_free R = true -> gd_free (T K_DOT :: Tok K_NUMBER i :: R) = true).
      { intros R HR. apply gd_cons_nongt; [reflexivity|]. apply gd_cons_nongt; [reflexivity|exact HR]. }
      destruct (is_bin s || is_un s) eqn:Epar.
      + assert (Hprim : ev (CPrim d (paren (pp_infix s) ++ T K_DOT :: Tok K_NUMBER i :: rest) err)
                           (Ok (Some (denote s)) (T K_DOT :: Tok K_NUMBER i :: rest) err)).
        { destruct (is_bin s) eqn:Eb.
          - apply group_bin; [exact Hwa | exact Eb | | apply EI_of_HI; assumption | exact Hd | apply Hg2, Hg].
            unfold bad_group in Hga. rewrite Eb in Hga. exact Hga.
          - cbn [orb] in Epar. apply HGa; [exact Epar | exact Hd | apply Hg2, Hg]. }
        exists (denote s), [T K_DOT; Tok K_NUMBER i]. split; [exact Hprim|]. split.
        * intros R e r _ _ Hr. cbn [app]. apply ev_loop_tidx. exact Hr.
        * intros _ R _. reflexivity.
      + assert (Hbs : is_bin s = false) by (destruct (is_bin s); [discriminate Epar|reflexivity]).
        destruct (HIa d (T K_DOT :: Tok K_NUMBER i :: rest) err Hd) as (c & st & Hprim & Heq & Hod).
        { apply follow_plain; [exact Epar|reflexivity]. }
        { apply Hg2, Hg. }
        exists c, (st ++ [T K_DOT; Tok K_NUMBER i]). split; [rewrite <- app_assoc; exact Hprim|]. split.
        * intros R e r _ HgR Hr. rewrite <- app_assoc. cbn [app].
          apply Heq; [apply follow_plain; [exact Epar|reflexivity] | apply Hg2, HgR |]. apply ev_loop_tidx. exact Hr.
        * intros _ R HR. rewrite <- app_assoc. cbn [app denote]. rewrite (Hod Hbs) by (cbn; discriminate). reflexivity. }
    split; [exact HH|]. split; [|discriminate]. intros _. apply POp_of_HI; [reflexivity|exact HH].
  - (* SCall *)
    pose proof (wf_call _ _ Hwf) as Hwargs. destruct (safe_call _ _ Hsafe) as (Hsargs & Hgargs).
    rewrite forallb_forall in Hwargs, Hsargs, Hgargs.
    assert (HEA : Forall EArg args).
    { rewrite Forall_forall in *. intros a Ha. apply EArg_of; [apply Hwargs, Ha | apply Hsargs, Ha | | apply H, Ha].
      specialize (Hgargs a Ha). apply negb_true_iff in Hgargs. exact Hgargs. }
    assert (HWA : Forall (fun a => wf_sx a = true) args) by (rewrite Forall_forall; exact Hwargs).
    assert (HPr : forall d rest err, d + nest_infix (SCall f args) <= S MAXD -> gd_free rest = true ->
                  ev (CPrim d (pp_infix (SCall f args) ++ rest) err) (Ok (Some (denote (SCall f args))) rest err)).
    { intros d rest err Hd Hg. rewrite nest_infix_call in Hd.
      rewrite pp_infix_call. cbn [app]. rewrite <- app_assoc. cbn [app].
      pose proof (anest_list_base args) as Hb1.
      assert (Hid : ev (CExpr d (Tok K_IDENTIFIER f :: flat_map argp args ++ T K_RPAREN :: rest) err)
                       (Ok (Some (EVar f)) (flat_map argp args ++ T K_RPAREN :: rest) err)).
      { assert (Hst : stop_c (curc (flat_map argp args ++ T K_RPAREN :: rest)) = true).
        { destruct args as [|a r]; [reflexivity|]. cbn [flat_map]. rewrite <- app_assoc. apply arg_first_stop, argp_first.
          apply Hwargs. left; reflexivity. }
        apply E_of_P; [lia | reflexivity | exact Hst |].
        apply ev_body. exists 0. intros. cbn [body]. unfold primary_body. cbn [tk pclass]. apply ident_follow, stop_followv, Hst. }
      destruct Hid as [n Hn].
      assert (Hfl : ev (CFail d (fun a0 => ECall f a0) [] (flat_map argp args ++ T K_RPAREN :: rest) err)
                       (Ok (Some (ECall f ([] ++ map denote args))) rest err)).
      { apply fail_list_infix; [exact HEA | exact HWA | | exact Hg]. intros a Ha. pose proof (anest_list_le args a Ha). lia. }
      destruct Hfl as [m Hm].
      apply ev_body. exists (n + m). intros g Hgf. cbn [body]. unfold primary_body. cbn [tk T pclass curc cur].
      cbn [is_prefix_operator is_prefix_operator_c is_infix_c pclass]. unfold paren_body. rewrite Hn by lia.
      destruct args as [|a r]; [reflexivity|].
      assert (Hst : arg_first (curc (flat_map argp (a :: r) ++ T K_RPAREN :: rest)) = true).
      { cbn [flat_map]. rewrite <- app_assoc. apply argp_first. apply Hwargs. left; reflexivity. }
      rewrite Hm by lia. cbn [denote app].
      destruct (curc (flat_map argp (a :: r) ++ T K_RPAREN :: rest)); simpl in Hst; try discriminate; reflexivity. }
    assert (HH : HI (SCall f args)) by (apply HI_of_prim; intros; apply HPr; assumption).
    split; [exact HH|]. split; [|discriminate]. intros _. apply POp_of_HI; [reflexivity|exact HH].
Qed.

(* ================================================================ 4. consequences *)
Lemma ev_run c r f : ev c r -> run f c <> OutOfFuel -> run f c = r.
Proof.
  intros [n H] Hf. rewrite <- (H (n + f)) by lia. symmetry. apply (run_mono f (n + f)); [lia|exact Hf].
Qed.

Lemma parse_stable ts r : parse ts = r -> r <> OutOfFuel ->
  forall fuel, fuel_for ts <= fuel -> parse_expression fuel 0 ts false = r.
Proof.
  unfold parse, parse_expression. intros H Hr fuel Hle. rewrite <- H. apply (run_mono _ _ Hle). rewrite H. exact Hr.
Qed.

(* the fuel [parse] supplies is enough for the prefix spelling *)
Lemma need_list_bound args :
  Forall (fun a => fpp a + 2 <= 10 * length (pp_prefix a)) args -> need_list args <= 1 + 10 * length (flat_map pp_prefix args).
Proof.
  induction 1 as [|a r Ha Hr IH]; [cbn; lia|]. cbn [need_list fold_right flat_map]. fold (need_list r). rewrite app_length. lia.
Qed.
Lemma fpp_bound s : fpp s + 2 <= 10 * length (pp_prefix s).
Proof.
  induction s using sx_ind'; cbn [fpp pp_prefix].
  - cbn; lia.
  - destruct b; cbn; lia.
  - cbn; lia.
  - cbn [length]. rewrite !app_length. cbn [length]. lia.
  - cbn [length]. rewrite !app_length. cbn [length]. lia.
  - rewrite app_length. cbn [length]. lia.
  - rewrite app_length. cbn [length]. lia.
  - fold (need_list args). pose proof (need_list_bound args H). cbn [length]. rewrite app_length. cbn [length]. lia.
Qed.

Lemma prefix_roundtrip s rest :
  wf_sx s = true -> nest_prefix s <= MAXD -> stop_c (curc rest) = true ->
  forall fuel, S (fpp s) <= fuel -> parse_expression fuel 0 (pp_prefix s ++ rest) false = Ok (Some (denote s)) rest false.
Proof.
  intros Hwf Hn Hs fuel Hf. apply (Ep_of_Hp s (Hp_all s Hwf)); [exact Hf | lia | exact Hs].
Qed.

Lemma prefix_roundtrip_parse s rest :
  wf_sx s = true -> nest_prefix s <= MAXD -> stop_c (curc rest) = true ->
  parse (pp_prefix s ++ rest) = Ok (Some (denote s)) rest false.
Proof.
  intros Hwf Hn Hs. apply prefix_roundtrip; try assumption.
  unfold fuel_for. rewrite app_length. pose proof (fpp_bound s). lia.
Qed.

Lemma infix_roundtrip s rest :
  wf_sx s = true -> infix_safe s = true -> nest_infix s <= MAXD -> stop_c (curc rest) = true -> gd_free rest = true ->
  exists n, forall fuel, n <= fuel -> parse_expression fuel 0 (pp_infix s ++ rest) false = Ok (Some (denote s)) rest false.
Proof.
  intros Hwf Hsafe Hn Hs Hg. destruct (Q_all s Hwf Hsafe) as (HH & _ & _).
  apply (EI_of_HI s Hwf HH 0 rest false); [lia|exact Hs|exact Hg].
Qed.

Lemma infix_roundtrip_parse s rest :
  wf_sx s = true -> infix_safe s = true -> nest_infix s <= MAXD -> stop_c (curc rest) = true -> gd_free rest = true ->
  parse (pp_infix s ++ rest) <> OutOfFuel -> parse (pp_infix s ++ rest) = Ok (Some (denote s)) rest false.
Proof.
  intros Hwf Hsafe Hn Hs Hg Hf. apply ev_run; [|exact Hf]. apply (infix_roundtrip s rest Hwf Hsafe Hn Hs Hg).
Qed.

Lemma notations_agree s rest :
  wf_sx s = true -> infix_safe s = true -> nest_infix s <= MAXD -> nest_prefix s <= MAXD -> stop_c (curc rest) = true ->
  gd_free rest = true ->
  exists n, forall fuel, n <= fuel ->
    parse_expression fuel 0 (pp_infix s ++ rest) false = parse_expression fuel 0 (pp_prefix s ++ rest) false.
Proof.
  intros Hwf Hsafe Hni Hnp Hs Hg. destruct (infix_roundtrip s rest Hwf Hsafe Hni Hs Hg) as [n Hn].
  exists (n + S (fpp s)). intros fuel Hf. rewrite Hn by lia. symmetry. apply prefix_roundtrip; try assumption. lia.
Qed.

(* --- instances of the round trip: left associativity, unary and postfix binding on either side, UPPERCASE < *)
Definition is_atom (s : sx) : bool := match s with SNum _ | SBool _ | SVar _ => true | _ => false end.

Lemma MAXD_ge2 : 2 <= MAXD.
Proof. unfold MAXD, MAX_RECURSION_DEPTH. lia. Qed.
Lemma atom_not_bin a : is_atom a = true -> is_bin a = false.
Proof. destruct a; try discriminate; reflexivity. Qed.

Ltac atoms :=
  repeat match goal with
  | H : is_atom ?a = true |- _ => destruct a; try discriminate H; clear H
  end.

Lemma left_assoc op1 op2 a b c rest :
  is_atom a = true -> is_atom b = true -> is_atom c = true ->
  is_infix_binary_op op1 = true -> is_infix_binary_op op2 = true ->
  stop_c (curc rest) = true -> gd_free rest = true ->
  exists n, forall fuel, n <= fuel ->
    parse_expression fuel 0 (pp_infix a ++ T op1 :: pp_infix b ++ T op2 :: pp_infix c ++ rest) false
    = Ok (Some (EOp op2 [EOp op1 [denote a; denote b]; denote c])) rest false.
Proof.
  intros Ha Hb Hc H1 H2 Hs Hg.
  destruct (infix_roundtrip (SBin op2 (SBin op1 a b) c) rest) as [n Hn]; try assumption.
  - atoms; unfold wf_sx; cbn [forall_sub wf_node]; rewrite H1, H2; reflexivity.
  - atoms; reflexivity.
  - atoms; cbn; pose proof MAXD_ge2; lia.
  - exists n. intros fuel Hf. specialize (Hn fuel Hf). cbn [denote] in Hn. rewrite <- Hn. f_equal.
    rewrite !pp_infix_bin. unfold rhs. rewrite (atom_not_bin b Hb), (atom_not_bin c Hc).
    repeat (rewrite <- ?app_assoc; cbn [app]). reflexivity.
Qed.

Lemma unary_operand u op a b rest :
  is_atom a = true -> is_atom b = true -> is_unary_op u = true -> is_infix_binary_op op = true ->
  stop_c (curc rest) = true -> gd_free rest = true ->
  (exists n, forall fuel, n <= fuel ->
     parse_expression fuel 0 (pp_infix a ++ T op :: T u :: pp_infix b ++ rest) false
     = Ok (Some (EOp op [denote a; EOp u [denote b]])) rest false) /\
  (exists n, forall fuel, n <= fuel ->
     parse_expression fuel 0 (T u :: pp_infix a ++ T op :: pp_infix b ++ rest) false
     = Ok (Some (EOp op [EOp u [denote a]; denote b])) rest false).
Proof.
  intros Ha Hb Hu Hop Hs Hg. pose proof (atom_not_bin a Ha) as Hna. pose proof (atom_not_bin b Hb) as Hnb. split.
  - destruct (infix_roundtrip (SBin op a (SUn u b)) rest) as [n Hn]; try assumption.
    + atoms; unfold wf_sx; cbn [forall_sub wf_node]; rewrite Hop, Hu; reflexivity.
    + atoms; reflexivity.
    + atoms; cbn; pose proof MAXD_ge2; lia.
    + exists n. intros fuel Hf. specialize (Hn fuel Hf). cbn [denote] in Hn. rewrite <- Hn. f_equal.
      rewrite pp_infix_bin. unfold rhs. cbn [is_bin]. rewrite pp_infix_un. unfold rhs. rewrite Hnb.
      repeat (rewrite <- ?app_assoc; cbn [app]). reflexivity.
  - destruct (infix_roundtrip (SBin op (SUn u a) b) rest) as [n Hn]; try assumption.
    + atoms; unfold wf_sx; cbn [forall_sub wf_node]; rewrite Hop, Hu; reflexivity.
    + atoms; reflexivity.
    + atoms; cbn; pose proof MAXD_ge2; lia.
    + exists n. intros fuel Hf. specialize (Hn fuel Hf). cbn [denote] in Hn. rewrite <- Hn. f_equal.
      rewrite pp_infix_bin, pp_infix_un. unfold rhs. rewrite Hna, Hnb.
      repeat (rewrite <- ?app_assoc; cbn [app]). reflexivity.
Qed.

(* postfix forms bind tighter than any infix or unary operator, on both sides *)
Lemma postfix_binds op u p x i a rest :
  is_atom a = true -> is_infix_binary_op op = true -> is_unary_op u = true -> stop_c (curc rest) = true -> gd_free rest = true ->
  (exists n, forall fuel, n <= fuel ->
     parse_expression fuel 0 (Tok K_IDENTIFIER p :: T K_DOT :: Tok K_IDENTIFIER x :: T op :: pp_infix a ++ rest) false
     = Ok (Some (EOp op [EField (EVar p) x; denote a])) rest false) /\
  (exists n, forall fuel, n <= fuel ->
     parse_expression fuel 0 (pp_infix a ++ T op :: Tok K_IDENTIFIER p :: T K_DOT :: Tok K_IDENTIFIER x :: rest) false
     = Ok (Some (EOp op [denote a; EField (EVar p) x])) rest false) /\
  (exists n, forall fuel, n <= fuel ->
     parse_expression fuel 0 (pp_infix a ++ T op :: Tok K_IDENTIFIER p :: T K_DOT :: Tok K_NUMBER i :: rest) false
     = Ok (Some (EOp op [denote a; ETIdx (EVar p) (wrap32 (atoll i))])) rest false) /\
  (exists n, forall fuel, n <= fuel ->
     parse_expression fuel 0 (T u :: Tok K_IDENTIFIER p :: T K_DOT :: Tok K_IDENTIFIER x :: rest) false
     = Ok (Some (EOp u [EField (EVar p) x])) rest false).
Proof.
  intros Ha Hop Hu Hs Hg. pose proof (atom_not_bin a Ha) as Hna. repeat split.
  - destruct (infix_roundtrip (SBin op (SField (SVar p) x) a) rest) as [n Hn]; try assumption.
    + atoms; unfold wf_sx; cbn [forall_sub wf_node]; rewrite Hop; reflexivity.
    + atoms; reflexivity.
    + atoms; cbn; pose proof MAXD_ge2; lia.
    + exists n. intros fuel Hf. specialize (Hn fuel Hf). cbn [denote] in Hn. rewrite <- Hn. f_equal.
      rewrite pp_infix_bin. unfold rhs. rewrite Hna. cbn [pp_infix is_bin is_un orb]. repeat (rewrite <- ?app_assoc; cbn [app]). reflexivity.
  - destruct (infix_roundtrip (SBin op a (SField (SVar p) x)) rest) as [n Hn]; try assumption.
    + atoms; unfold wf_sx; cbn [forall_sub wf_node]; rewrite Hop; reflexivity.
    + atoms; reflexivity.
    + atoms; cbn; pose proof MAXD_ge2; lia.
    + exists n. intros fuel Hf. specialize (Hn fuel Hf). cbn [denote] in Hn. rewrite <- Hn. f_equal.
      rewrite pp_infix_bin. unfold rhs. cbn [pp_infix is_bin is_un orb]. repeat (rewrite <- ?app_assoc; cbn [app]). reflexivity.
  - destruct (infix_roundtrip (SBin op a (STIdx (SVar p) i)) rest) as [n Hn]; try assumption.
    + atoms; unfold wf_sx; cbn [forall_sub wf_node]; rewrite Hop; reflexivity.
    + atoms; reflexivity.
    + atoms; cbn; pose proof MAXD_ge2; lia.
    + exists n. intros fuel Hf. specialize (Hn fuel Hf). cbn [denote] in Hn. rewrite <- Hn. f_equal.
      rewrite pp_infix_bin. unfold rhs. cbn [pp_infix is_bin is_un orb]. repeat (rewrite <- ?app_assoc; cbn [app]). reflexivity.
  - destruct (infix_roundtrip (SUn u (SField (SVar p) x)) rest) as [n Hn]; try assumption.
    + unfold wf_sx; cbn [forall_sub wf_node]; rewrite Hu; reflexivity.
    + reflexivity.
    + cbn; pose proof MAXD_ge2; lia.
    + exists n. intros fuel Hf. specialize (Hn fuel Hf). cbn [denote] in Hn. rewrite <- Hn. f_equal.
Qed.

(* an UPPERCASE variable left of '<' is an ordinary operand (unless the input really continues `< types > . Name`) *)
Lemma upper_lt X b rest :
  is_atom b = true -> stop_c (curc rest) = true -> gd_free rest = true ->
  exists n, forall fuel, n <= fuel ->
    parse_expression fuel 0 (Tok K_IDENTIFIER X :: T K_LT :: pp_infix b ++ rest) false
    = Ok (Some (EOp K_LT [EVar X; denote b])) rest false.
Proof.
  intros Hb Hs Hg. pose proof (atom_not_bin b Hb) as Hnb.
  destruct (infix_roundtrip (SBin K_LT (SVar X) b) rest) as [n Hn]; try assumption.
  - atoms; reflexivity.
  - atoms; reflexivity.
  - atoms; cbn; pose proof MAXD_ge2; lia.
  - exists n. intros fuel Hf. specialize (Hn fuel Hf). cbn [denote] in Hn. rewrite <- Hn. f_equal.
    rewrite pp_infix_bin. unfold rhs. rewrite Hnb. reflexivity.
Qed.

(* ================================================================ 5. witnesses *)
Definition b_1 : bytes := [49%N]. Definition b_2 : bytes := [50%N]. Definition b_6 : bytes := [54%N].
Definition b_a : bytes := [97%N]. Definition b_p : bytes := [112%N]. Definition b_x : bytes := [120%N].
Definition b_MAXV : bytes := [77%N; 65%N; 88%N; 86%N].
(* the three inputs the unfixed parser misread (findings fixed by 1b19ab4 / afe9379), kept as regression witnesses *)
Definition w_postfix_right : sx := SBin K_PLUS (SNum b_1) (SField (SVar b_p) b_x).
Definition w_postfix_unary : sx := SUn K_MINUS (SField (SVar b_p) b_x).
Definition w_upper_lt : sx := SBin K_LT (SVar b_MAXV) (SNum b_6).
(* the input that is still misread: open finding c07:infix:group-leading-unary *)
Definition w_group_unary : sx := SBin K_STAR (SNum b_2) (SBin K_PLUS (SUn K_MINUS (SVar b_a)) (SNum b_1)).

Lemma refuted_group_unary :
  wf_sx w_group_unary = true /\ denote w_group_unary = EOp K_STAR [ENum 2; EOp K_PLUS [EOp K_MINUS [EVar b_a]; ENum 1]] /\
  forall fuel, fuel_for (pp_infix w_group_unary) <= fuel ->
    parse_expression fuel 0 (pp_infix w_group_unary) false
    = Ok (Some (EOp K_STAR [ENum 2; EOp K_MINUS [EOp K_PLUS [EVar b_a; ENum 1]]])) [] false.
Proof.
  split; [reflexivity|]. split; [reflexivity|]. apply parse_stable; [vm_compute; reflexivity|discriminate].
Qed.

Definition infix_ops : list kind :=
  [K_PLUS; K_MINUS; K_STAR; K_SLASH; K_PERCENT; K_EQ; K_NE; K_LT; K_LE; K_GT; K_GE; K_AND; K_OR].
Definition res_is (r : res) (e : expr) : bool :=
  match r with Ok (Some x) [] false => expr_eqb x e | _ => false end.
Fixpoint ladder (n : nat) (inner : list token) : list token :=
  match n with O => inner | S m => T K_LPAREN :: ladder m inner ++ [T K_RPAREN] end.
(* n nested prefix forms  (+ 1 (+ 1 ... inner ...))  *)
Fixpoint pladder (n : nat) (inner : list token) : list token :=
  match n with O => inner | S m => T K_LPAREN :: T K_PLUS :: Tok K_NUMBER b_1 :: pladder m inner ++ [T K_RPAREN] end.
(* n unary minus signs in front of inner *)
Fixpoint uladder (n : nat) (inner : list token) : list token :=
  match n with O => inner | S m => T K_MINUS :: uladder m inner end.
