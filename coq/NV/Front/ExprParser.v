(* Executable model of the expression parser of /repo/src/parser.c
     parse_expression  parse_operand  parse_primary  parse_prefix_op
   over the token stream the real tokenizer produces.  DEFINITIONS ONLY (this file is extracted).
   Models the parser AFTER the fix: commits 1b19ab4 (parse_operand), afe9379 (generic_args_ahead), ca1fd81 (argument
   loops test their result; unary operands count a nesting level).

   What is modelled, statement for statement: the recursion-depth counter of parse_expression, the postfix ('.') loop
   and the infix loop of parse_expression (the right operand is read by parse_operand = parse_primary followed by the
   operand's own .field / .N forms), unary '-' / 'not' in parse_primary (enter_nested, operand = parse_operand),
   literals, identifiers (an UPPERCASE identifier followed by '<' is a generic instantiation only when
   generic_args_ahead finds `< types > . IDENT`), '(' forms: () , prefix operator forms, tuples, zero-argument calls,
   module-qualified calls, grouping, calls with arguments; the argument loops of parse_prefix_op (a failed argument
   ends the form with NULL); the sticky error flag (parser_error called at least once <-> error_count > 0 <->
   parse_program returns NULL).

   What is not modelled: every path that needs '{' '[' 'if' 'cond' 'match' 'unsafe' '::' or a float literal yields
   [Unsupported]; a generic instantiation that generic_args_ahead accepts yields [Generic] (parse_generic_type_args /
   parse_type_with_element are not modelled).  AST positions (line/column) are not modelled.

   Token list convention: the list holds the tokens BEFORE the terminating TOKEN_EOF; [] = "cursor on
   EOF"; advance on [] stays (parser.c:advance never moves past the last token). *)
From Coq Require Import NArith ZArith List Bool.
From NV Require Import gen.Tokens gen.ParserConsts.
Import ListNotations.

Definition bytes := list N.

Record token : Set := Tok { tk : kind; tv : bytes }.

(* ---------------------------------------------------------------- AST (the shapes ASTNode takes here) *)
Inductive expr : Set :=
| ENum (z : Z)                                  (* AST_NUMBER   as.number = atoll(value) *)
| EBool (b : bool)                              (* AST_BOOL *)
| EStr (s : bytes)                              (* AST_STRING *)
| EVar (x : bytes)                              (* AST_IDENTIFIER *)
| EOp (op : kind) (args : list expr)            (* AST_PREFIX_OP  op, args (prefix, infix and unary forms) *)
| ECall (f : bytes) (args : list expr)          (* AST_CALL name *)
| ECallE (f : expr) (args : list expr)          (* AST_CALL func_expr *)
| EModCall (m f : bytes) (args : list expr)     (* AST_MODULE_QUALIFIED_CALL *)
| EField (e : expr) (f : bytes)                 (* AST_FIELD_ACCESS *)
| ETIdx (e : expr) (i : Z)                      (* AST_TUPLE_INDEX  index = (int)atoll(value) *)
| ETuple (es : list expr).                      (* AST_TUPLE_LITERAL *)

(* boolean equality of ASTs (used to state computed tables) *)
Fixpoint bytes_eqb (a b : bytes) : bool :=
  match a, b with [], [] => true | x :: a', y :: b' => N.eqb x y && bytes_eqb a' b' | _, _ => false end.
Fixpoint expr_eqb (a b : expr) {struct a} : bool :=
  let fix list_eqb (l m : list expr) {struct l} : bool :=
      match l, m with [], [] => true | x :: l', y :: m' => expr_eqb x y && list_eqb l' m' | _, _ => false end in
  match a, b with
  | ENum x, ENum y => Z.eqb x y
  | EBool x, EBool y => Bool.eqb x y
  | EStr x, EStr y => bytes_eqb x y
  | EVar x, EVar y => bytes_eqb x y
  | EOp o l, EOp o' l' => kind_eqb o o' && list_eqb l l'
  | ECall f l, ECall f' l' => bytes_eqb f f' && list_eqb l l'
  | ECallE f l, ECallE f' l' => expr_eqb f f' && list_eqb l l'
  | EModCall m f l, EModCall m' f' l' => bytes_eqb m m' && bytes_eqb f f' && list_eqb l l'
  | EField e f, EField e' f' => expr_eqb e e' && bytes_eqb f f'
  | ETIdx e i, ETIdx e' i' => expr_eqb e e' && Z.eqb i i'
  | ETuple l, ETuple l' => list_eqb l l'
  | _, _ => false
  end.

Inductive res : Set :=
| Ok (e : option expr) (ts : list token) (err : bool)   (* returned node (None = NULL), cursor, error flag *)
| Unsupported     (* path outside the modelled fragment *)
| Generic         (* parse_generic_type_args entered (generic_args_ahead succeeded) *)
| OutOfFuel.

(* ---------------------------------------------------------------- token classes
   The parser distinguishes only these classes of the 74 token kinds; classifying once keeps the
   case analyses of the model (and of its proofs) small.  [pclass] is total over the generated [kind]. *)
Inductive pk : Set :=
| P_EOF | P_NUMBER | P_STRING | P_TRUE | P_FALSE | P_IDENT | P_SET | P_LPAREN | P_RPAREN | P_COMMA | P_DOT
| P_LBRACE | P_DCOLON
| P_LT            (* infix operator, and start of generic arguments after an uppercase identifier *)
| P_MINUS         (* infix and unary *)
| P_INFIX         (* + * / % == != <= > >= and or *)
| P_NOT
| P_IF            (* starts an if-expression; also in the "looks like a code block" set *)
| P_CONDMATCH     (* cond, match *)
| P_CODEKW        (* return let while for: the "looks like a code block" set of :1492 *)
| P_UNSUP         (* float  [  unsafe : primaries outside the model *)
| P_OTHER.

Definition pclass (k : kind) : pk :=
  match k with
  | K_EOF => P_EOF | K_NUMBER => P_NUMBER | K_STRING => P_STRING | K_TRUE => P_TRUE | K_FALSE => P_FALSE
  | K_IDENTIFIER => P_IDENT | K_SET => P_SET | K_LPAREN => P_LPAREN | K_RPAREN => P_RPAREN | K_COMMA => P_COMMA
  | K_DOT => P_DOT | K_LBRACE => P_LBRACE | K_DOUBLE_COLON => P_DCOLON
  | K_LT => P_LT | K_MINUS => P_MINUS
  | K_PLUS | K_STAR | K_SLASH | K_PERCENT | K_EQ | K_NE | K_LE | K_GT | K_GE | K_AND | K_OR => P_INFIX
  | K_NOT => P_NOT | K_IF => P_IF | K_COND | K_MATCH => P_CONDMATCH
  | K_RETURN | K_LET | K_WHILE | K_FOR => P_CODEKW
  | K_FLOAT | K_LBRACKET | K_UNSAFE => P_UNSUP
  | _ => P_OTHER
  end.

(* ---------------------------------------------------------------- cursor helpers *)
Definition cur (ts : list token) : kind := match ts with [] => K_EOF | t :: _ => tk t end.
Definition curc (ts : list token) : pk := pclass (cur ts).
Definition adv (ts : list token) : list token := match ts with [] => [] | _ :: r => r end.
Definition peek (ts : list token) (k : nat) : pk := curc (skipn k ts).
Definition peekv (ts : list token) (k : nat) : bytes := match skipn k ts with [] => [] | t :: _ => tv t end.

(* is_infix_binary_op (:1039) *)
Definition is_infix_c (c : pk) : bool := match c with P_LT | P_MINUS | P_INFIX => true | _ => false end.
Definition is_infix_binary_op (k : kind) : bool := is_infix_c (pclass k).
(* the operator test of parse_prefix_op (:1064) and of parse_primary's '(' case (:1799): the 13 + NOT *)
Definition is_prefix_operator_c (c : pk) : bool := match c with P_NOT => true | _ => is_infix_c c end.
Definition is_prefix_operator (k : kind) : bool := is_prefix_operator_c (pclass k).

Definition is_upper (b : bytes) : bool :=
  match b with c :: _ => (N.leb 65 c) && (N.leb c 90) | [] => false end.

Definition is_rparen (ts : list token) : bool := match curc ts with P_RPAREN => true | _ => false end.
Definition is_comma (ts : list token) : bool := match curc ts with P_COMMA => true | _ => false end.
Definition at_rparen_or_eof (ts : list token) : bool := match curc ts with P_RPAREN | P_EOF => true | _ => false end.

(* ---------------------------------------------------------------- atoll / (int) *)
Local Open Scope Z_scope.
Fixpoint digits_val (acc : Z) (bs : bytes) : Z :=
  match bs with
  | b :: r => if (N.leb 48 b && N.leb b 57)%bool then digits_val (acc * 10 + (Z.of_N b - 48)) r else acc
  | [] => acc end.
Definition sat64 (v : Z) : Z :=
  if v <? - 9223372036854775808 then - 9223372036854775808
  else if 9223372036854775807 <? v then 9223372036854775807 else v.
(* glibc atoll = strtoll(s, NULL, 10): optional sign, digits, saturating *)
Definition atoll (bs : bytes) : Z :=
  sat64 match bs with
        | 45%N :: r => - digits_val 0 r
        | 43%N :: r => digits_val 0 r
        | _ => digits_val 0 bs end.
Definition wrap32 (v : Z) : Z :=
  let m := v mod 4294967296 in if m <? 2147483648 then m else m - 4294967296.
Local Close Scope Z_scope.

(* ---------------------------------------------------------------- the postfix loop  (parser.c:2308) *)
Inductive dres : Set :=
| DCont (e : expr) (ts : list token) (err : bool)    (* the while loop ended normally *)
| DRet (e : expr) (ts : list token) (err : bool)     (* "Expected field name ..." : parse_expression returns expr *)
| DUnsup.

Definition looks_like_union (e : expr) (field : bytes) : bool :=
  match e with EVar x => is_upper x && is_upper field | _ => false end.

Fixpoint dots (e : expr) (ts : list token) (err : bool) {struct ts} : dres :=
  match ts with
  | t :: ts1 =>
      match pclass (tk t) with
      | P_DOT =>
          match ts1 with
          | t1 :: ts2 =>
              match pclass (tk t1) with
              | P_NUMBER => dots (ETIdx e (wrap32 (atoll (tv t1)))) ts2 err
              | P_IDENT =>
                  match curc ts2 with
                  | P_LBRACE => if looks_like_union e (tv t1) then DUnsup else dots (EField e (tv t1)) ts2 err
                  | _ => dots (EField e (tv t1)) ts2 err
                  end
              | _ => DRet e ts1 true
              end
          | [] => DRet e ts1 true
          end
      | _ => DCont e ts err
      end
  | [] => DCont e ts err
  end.

(* ---------------------------------------------------------------- the postfix loop of parse_operand
   while (expr && match(DOT)): next = peek 1, after = peek 2;  .N -> tuple index;  not an identifier -> stop (the '.'
   is NOT consumed);  Name.Variant { with both uppercase -> stop (union construction is left to parse_expression);
   otherwise field access.  Never reports an error. *)
Fixpoint odots (e : expr) (ts : list token) {struct ts} : expr * list token :=
  match ts with
  | t :: ts1 =>
      match pclass (tk t) with
      | P_DOT =>
          match ts1 with
          | t1 :: ts2 =>
              match pclass (tk t1) with
              | P_NUMBER => odots (ETIdx e (wrap32 (atoll (tv t1)))) ts2
              | P_IDENT =>
                  match curc ts2 with
                  | P_LBRACE => if looks_like_union e (tv t1) then (e, ts) else odots (EField e (tv t1)) ts2
                  | _ => odots (EField e (tv t1)) ts2
                  end
              | _ => (e, ts)
              end
          | [] => (e, ts)
          end
      | _ => (e, ts)
      end
  | [] => (e, ts)
  end.

(* ---------------------------------------------------------------- generic_args_ahead (pure look-ahead, at most 256 tokens)
   entered with the cursor on '<'; depth is a C int *)
Inductive gk : Set := G_LT | G_GT | G_TYPE | G_STOP.
Definition gclass (k : kind) : gk :=
  match k with
  | K_LT => G_LT | K_GT => G_GT
  | K_IDENTIFIER | K_COMMA | K_DOT | K_ARRAY | K_TYPE_INT | K_TYPE_U8 | K_TYPE_FLOAT | K_TYPE_BOOL | K_TYPE_STRING
  | K_TYPE_BSTRING | K_TYPE_VOID | K_LPAREN | K_RPAREN | K_FN | K_ARROW => G_TYPE
  | _ => G_STOP
  end.
Fixpoint generic_ahead (n : nat) (depth : Z) (ts : list token) {struct n} : bool :=
  match n with
  | O => false
  | S n' =>
      match ts with
      | [] => false                                   (* EOF: default case *)
      | t :: r =>
          match gclass (tk t) with
          | G_LT => generic_ahead n' (depth + 1)%Z r
          | G_GT =>
              if Z.eqb (depth - 1)%Z 0%Z
              then match peek r 0, peek r 1 with P_DOT, P_IDENT => true | _, _ => false end
              else generic_ahead n' (depth - 1)%Z r
          | G_TYPE => generic_ahead n' depth r
          | G_STOP => false
          end
      end
  end.


Definition generic_args_ahead (ts : list token) : bool := generic_ahead 256 0 ts.

(* ---------------------------------------------------------------- the parser *)
Definition MAXD : nat := MAX_RECURSION_DEPTH.

(* The seven mutually recursive C functions / loops are written as non-recursive bodies over [self], the
   function that performs a recursive activation; [run] ties the knot by structural recursion on the fuel.
   (One Fixpoint over a sum of call descriptions instead of a 7-way mutual Fixpoint: same computation,
   and the one-step unfolding equations are immediate.) *)
Inductive call : Type :=
| CExpr (d : nat) (ts : list token) (err : bool)                       (* parse_expression; d = recursion_depth on entry *)
| CPrim (d : nat) (ts : list token) (err : bool)                       (* parse_primary;    d = current recursion_depth *)
| COperand (d : nat) (ts : list token) (err : bool)                    (* parse_operand;    d = current recursion_depth *)
| CLoop (d : nat) (x : expr) (ts : list token) (err : bool)            (* the for(;;) of parse_expression *)
| CPrefix (d : nat) (ts : list token) (err : bool)                     (* parse_prefix_op, cursor on '(' *)
| CNoFail (d : nat) (mk : list expr -> expr) (acc : list expr) (ts : list token) (err : bool)   (* argument loops of parse_prefix_op *)
| CFail (d : nat) (mk : list expr -> expr) (acc : list expr) (ts : list token) (err : bool)     (* argument loop :1976 *)
| CTuple (d : nat) (acc : list expr) (ts : list token) (err : bool).   (* tuple element loop :1836 *)

Section Bodies.
  Variable self : call -> res.

  Definition expression_body (d : nat) (ts : list token) (err : bool) : res :=
    if Nat.ltb MAXD (S d) then Ok None ts true                       (* :2265 depth guard, returns NULL *)
    else match curc ts with
         | P_IF | P_CONDMATCH => Unsupported
         | _ =>
             match self (CPrim (S d) ts err) with
             | Ok (Some x) ts1 e1 => self (CLoop (S d) x ts1 e1)
             | r => r                                                 (* NULL primary -> NULL *)
             end
         end.

  (* for (;;) { while (match DOT) ...; if infix op: right = parse_operand; expr = Bin; continue; break } *)
  Definition loop_body (d : nat) (x : expr) (ts : list token) (err : bool) : res :=
    match dots x ts err with
    | DUnsup => Unsupported
    | DRet x1 ts1 e1 => Ok (Some x1) ts1 e1
    | DCont x1 ts1 e1 =>
        if is_infix_binary_op (cur ts1) then
          match self (COperand d (adv ts1) e1) with
          | Ok (Some r) ts2 e2 => self (CLoop d (EOp (cur ts1) [x1; r]) ts2 e2)
          | Ok None ts2 _ => Ok (Some x1) ts2 true                    (* error, returns the LEFT expr *)
          | o => o
          end
        else Ok (Some x1) ts1 e1
    end.

  Definition ident_body (t : token) (ts ts1 : list token) (err : bool) : res :=
    let next := peek ts 1 in
    let is_qualified := match next, peek ts 2 with P_DOT, P_IDENT => true | _, _ => false end in
    let looks_like_struct := if is_qualified then is_upper (peekv ts 2) else is_upper (tv t) in
    let after_brace := if is_qualified then peek ts 3 else peek ts 2 in
    let looks_like_code_block :=
      match after_brace with P_IF | P_CODEKW => true | _ => false end in
    let has_lbrace :=
      match next with P_LBRACE => true | _ => is_qualified && match peek ts 3 with P_LBRACE => true | _ => false end end in
    if has_lbrace && looks_like_struct && negb looks_like_code_block then Unsupported   (* struct literal *)
    else match curc ts1 with
         | P_DCOLON => Unsupported                            (* qualified name a::b *)
         | P_LT => if is_upper (tv t) && generic_args_ahead ts1 then Generic else Ok (Some (EVar (tv t))) ts1 err
         | _ => Ok (Some (EVar (tv t))) ts1 err
         end.

  (* '(' not followed by ')' or an operator: first expression, then tuple / zero-argument call / grouping / call *)
  Definition paren_body (d : nat) (ts1 : list token) (err : bool) : res :=
    match self (CExpr d ts1 err) with
    | Ok None ts2 _ => Ok None ts2 true                   (* "Failed to parse expression after '('" *)
    | Ok (Some first) ts2 e2 =>
        match curc ts2 with
        | P_COMMA => self (CTuple d [first] ts2 e2)
        | P_RPAREN =>
            match first with
            | EVar x => Ok (Some (ECall x [])) (adv ts2) e2
            | EField (EVar m) fld => Ok (Some (EModCall m fld [])) (adv ts2) e2
            | _ => Ok (Some first) (adv ts2) e2           (* grouping *)
            end
        | _ =>
            match first with
            | EVar x => self (CFail d (fun a => ECall x a) [] ts2 e2)
            | EField (EVar m) fld => self (CFail d (fun a => EModCall m fld a) [] ts2 e2)
            | EField _ _ => Ok None ts2 true              (* "Complex field access not supported" *)
            | ECall _ _ | ECallE _ _ => self (CFail d (fun a => ECallE first a) [] ts2 e2)
            | _ => Ok None ts2 true                       (* "Function call requires identifier ..." *)
            end
        end
    | r => r
    end.

  (* parse_operand: parse_primary, then the operand's own postfix forms *)
  Definition operand_body (d : nat) (ts : list token) (err : bool) : res :=
    match self (CPrim d ts err) with
    | Ok (Some x) ts1 e1 => let (y, ts2) := odots x ts1 in Ok (Some y) ts2 e1
    | r => r
    end.

  Definition primary_body (d : nat) (ts : list token) (err : bool) : res :=
    match ts with
    | [] => Ok None ts true                                           (* EOF: default case, error *)
    | t :: ts1 =>
        match pclass (tk t) with
        | P_NOT | P_MINUS =>
            if Nat.ltb MAXD (S d) then Ok None ts1 true               (* enter_nested: "Unary operators nested deeper ..." *)
            else match self (COperand (S d) ts1 err) with
                 | Ok (Some x) ts2 e2 => Ok (Some (EOp (tk t) [x])) ts2 e2
                 | r => r
                 end
        | P_NUMBER => Ok (Some (ENum (atoll (tv t)))) ts1 err
        | P_STRING => Ok (Some (EStr (tv t))) ts1 err
        | P_TRUE => Ok (Some (EBool true)) ts1 err
        | P_FALSE => Ok (Some (EBool false)) ts1 err
        | P_UNSUP | P_LBRACE => Unsupported
        | P_IDENT | P_SET => ident_body t ts ts1 err
        | P_LPAREN =>
            match curc ts1 with
            | P_RPAREN => Ok (Some (ETuple [])) (adv ts1) err         (* () *)
            | _ =>
              if is_prefix_operator (cur ts1) then self (CPrefix d ts err)
              else paren_body d ts1 err
            end
        | _ => Ok None ts true                                        (* default: error, cursor unchanged *)
        end
    end.

  (* entered with the cursor on '(' *)
  Definition prefix_op_body (d : nat) (ts : list token) (err : bool) : res :=
    match curc ts with
    | P_LPAREN =>
        let ts1 := adv ts in
        if is_prefix_operator (cur ts1) then self (CNoFail d (fun a => EOp (cur ts1) a) [] (adv ts1) err)
        else match curc ts1 with
             | P_IDENT =>
                 match peek ts1 1 with
                 | P_DOT =>
                     match self (CExpr d ts1 err) with
                     | Ok x ts2 e2 => if is_rparen ts2 then Ok x (adv ts2) e2 else Ok None ts2 true
                     | r => r
                     end
                 | _ => self (CNoFail d (fun a => ECall (peekv ts1 0) a) [] (adv ts1) err)
                 end
             | _ => Ok None ts1 true                                  (* "Invalid prefix operation" *)
             end
    | _ => Ok None ts true                                            (* expect '(' failed *)
    end.

  (* parse_prefix_op: while (!match(RPAREN) && !match(EOF)) { arg = parse_expression(p); if (!arg) { free; return NULL; } args[count++] = arg; }
     (no parser_error of its own on that path: the flag is whatever the failed sub-parser left) *)
  Definition nofail_body (d : nat) (mk : list expr -> expr) (acc : list expr) (ts : list token) (err : bool) : res :=
    if at_rparen_or_eof ts then
      if is_rparen ts then Ok (Some (mk acc)) (adv ts) err else Ok None ts true
    else
      match self (CExpr d ts err) with
      | Ok (Some a) ts1 e1 => self (CNoFail d mk (acc ++ [a]) ts1 e1)
      | Ok None ts1 e1 => Ok None ts1 e1
      | r => r
      end.

  (* while (...) { args[count] = parse_expression(p); if (!args[count]) { error; return NULL; } count++; }   (:1976) *)
  Definition fail_body (d : nat) (mk : list expr -> expr) (acc : list expr) (ts : list token) (err : bool) : res :=
    if at_rparen_or_eof ts then
      if is_rparen ts then Ok (Some (mk acc)) (adv ts) err else Ok None ts true
    else
      match self (CExpr d ts err) with
      | Ok (Some a) ts1 e1 => self (CFail d mk (acc ++ [a]) ts1 e1)
      | Ok None ts1 _ => Ok None ts1 true
      | r => r
      end.

  (* while (match(COMMA)) { advance; if (match(RPAREN)) break; e = parse_expression; if (!e) return NULL; }  expect ')'  (:1836) *)
  Definition tuple_body (d : nat) (acc : list expr) (ts : list token) (err : bool) : res :=
    if is_comma ts then
      let ts1 := adv ts in
      if is_rparen ts1 then Ok (Some (ETuple acc)) (adv ts1) err
      else match self (CExpr d ts1 err) with
           | Ok (Some a) ts2 e2 => self (CTuple d (acc ++ [a]) ts2 e2)
           | Ok None ts2 _ => Ok None ts2 true
           | r => r
           end
    else if is_rparen ts then Ok (Some (ETuple acc)) (adv ts) err
    else Ok None ts true.

  Definition body (c : call) : res :=
    match c with
    | CExpr d ts err => expression_body d ts err
    | CPrim d ts err => primary_body d ts err
    | COperand d ts err => operand_body d ts err
    | CLoop d x ts err => loop_body d x ts err
    | CPrefix d ts err => prefix_op_body d ts err
    | CNoFail d mk acc ts err => nofail_body d mk acc ts err
    | CFail d mk acc ts err => fail_body d mk acc ts err
    | CTuple d acc ts err => tuple_body d acc ts err
    end.
End Bodies.

Fixpoint run (fuel : nat) (c : call) {struct fuel} : res :=
  match fuel with O => OutOfFuel | S f => body (run f) c end.

Definition parse_expression (fuel d : nat) (ts : list token) (err : bool) : res := run fuel (CExpr d ts err).
Definition parse_primary (fuel d : nat) (ts : list token) (err : bool) : res := run fuel (CPrim d ts err).
Definition infix_loop (fuel d : nat) (x : expr) (ts : list token) (err : bool) : res := run fuel (CLoop d x ts err).

(* enough fuel for any input: every call consumes a token or is one of a bounded number of
   calls between two consumptions (ExprParserProofs.fuel_monotone makes the exact value irrelevant) *)
Definition fuel_for (ts : list token) : nat := 16 * length ts + 16.
Definition parse (ts : list token) : res := parse_expression (fuel_for ts) 0 ts false.

(* ================================================================ surface trees and the two printers *)
Inductive sx : Set :=
| SNum (z : bytes)                   (* the digits as written (optionally with a leading '-': the lexer makes it one token) *)
| SBool (b : bool)
| SVar (x : bytes)
| SBin (op : kind) (a b : sx)        (* op among the 13 infix binary operators *)
| SUn (op : kind) (a : sx)           (* op = K_MINUS or K_NOT *)
| SField (a : sx) (f : bytes)
| STIdx (a : sx) (i : bytes)
| SCall (f : bytes) (args : list sx).

(* the AST the notation is meant to denote *)
Fixpoint denote (s : sx) : expr :=
  match s with
  | SNum z => ENum (atoll z)
  | SBool b => EBool b
  | SVar x => EVar x
  | SBin op a b => EOp op [denote a; denote b]
  | SUn op a => EOp op [denote a]
  | SField a f => EField (denote a) f
  | STIdx a i => ETIdx (denote a) (wrap32 (atoll i))
  | SCall f args => ECall f (map denote args)
  end.

Definition T (k : kind) : token := Tok k [].

(* fully parenthesised prefix spelling:  (op a b)  (- a)  (f a ...)  a.f  a.0 *)
Fixpoint pp_prefix (s : sx) : list token :=
  match s with
  | SNum z => [Tok K_NUMBER z]
  | SBool true => [T K_TRUE]
  | SBool false => [T K_FALSE]
  | SVar x => [Tok K_IDENTIFIER x]
  | SBin op a b => T K_LPAREN :: T op :: pp_prefix a ++ pp_prefix b ++ [T K_RPAREN]
  | SUn op a => T K_LPAREN :: T op :: pp_prefix a ++ [T K_RPAREN]
  | SField a f => pp_prefix a ++ [T K_DOT; Tok K_IDENTIFIER f]
  | STIdx a i => pp_prefix a ++ [T K_DOT; Tok K_NUMBER i]
  | SCall f args => T K_LPAREN :: Tok K_IDENTIFIER f :: flat_map pp_prefix args ++ [T K_RPAREN]
  end.

Definition is_bin (s : sx) : bool := match s with SBin _ _ _ => true | _ => false end.
Definition is_un (s : sx) : bool := match s with SUn _ _ => true | _ => false end.
Definition paren (l : list token) : list token := T K_LPAREN :: l ++ [T K_RPAREN].
Definition starts_with_minus (l : list token) : bool := match curc l with P_MINUS => true | _ => false end.

(* the spelling SPECIFICATION.md 4.3 describes: left to right, no precedence, "use parentheses to control
   grouping": a right operand / unary operand that is itself a binary operation is parenthesised, a postfix
   form is written directly after its object (parenthesised when the object is an operator form),
   calls stay in prefix form, a call argument that would start with '-' is parenthesised (otherwise it would
   read as a subtraction from the previous argument). *)
Fixpoint pp_infix (s : sx) : list token :=
  match s with
  | SNum z => [Tok K_NUMBER z]
  | SBool true => [T K_TRUE]
  | SBool false => [T K_FALSE]
  | SVar x => [Tok K_IDENTIFIER x]
  | SBin op a b => pp_infix a ++ T op :: (if is_bin b then paren (pp_infix b) else pp_infix b)
  | SUn op a => T op :: (if is_bin a then paren (pp_infix a) else pp_infix a)
  | SField a f => (if is_bin a || is_un a then paren (pp_infix a) else pp_infix a) ++ [T K_DOT; Tok K_IDENTIFIER f]
  | STIdx a i => (if is_bin a || is_un a then paren (pp_infix a) else pp_infix a) ++ [T K_DOT; Tok K_NUMBER i]
  | SCall f args =>
      T K_LPAREN :: Tok K_IDENTIFIER f ::
        flat_map (fun a => let l := pp_infix a in if starts_with_minus l then paren l else l) args ++ [T K_RPAREN]
  end.

(* nesting of parse_expression activations the prefix spelling needs *)
Fixpoint nest_prefix (s : sx) : nat :=
  match s with
  | SNum _ | SBool _ | SVar _ => 1
  | SBin _ a b => S (Nat.max (nest_prefix a) (nest_prefix b))
  | SUn _ a => S (nest_prefix a)
  | SField a _ | STIdx a _ => nest_prefix a
  | SCall _ args => S (fold_right (fun a m => Nat.max (nest_prefix a) m) 1 args)
  end.
