(* Cursor loops of a recursive-descent parser: summaries, the progress rule, and why progress means termination.
   DEFINITIONS ONLY (summary types used by the generated NV/gen/ParserLoops.v, the progress rule, the loop semantics);
   the generic theorems are in RecoveryLoopsProofs.v.

   A loop iteration is summarised by the set of ways its body can reach the back edge or leave the loop:
     PExit      break / return / the loop test is decided false by what the path knows
     PAdv       the cursor has certainly moved forward (effective advance, successful expect, successful sub-parser)
     PAdvMaybe  advance() was called, but the current token could have been EOF (advance is a no-op there)
     PStuck     the back edge can be reached with the cursor where it was (e.g. an untested sub-parser failure)
     PUnknown   the translator could not classify the path
   [l_guard_excl_eof]: the loop test is false whenever the cursor is on EOF. *)
From Coq Require Import List String Arith Lia Bool.
Import ListNotations.

Inductive path : Set := PExit | PAdv | PAdvMaybe | PStuck | PUnknown.
Inductive lkind : Set := LCounted | LCursor.
Record loop_summary : Set := mkLoop {
  l_fn : string; l_ord : nat; l_line : nat; l_kind : lkind; l_guard_excl_eof : bool; l_paths : list path }.

Definition path_ok (g : bool) (p : path) : bool :=
  match p with PExit | PAdv => true | PAdvMaybe => g | PStuck | PUnknown => false end.
Definition progresses (l : loop_summary) : bool :=
  match l_kind l with LCounted => true | LCursor => forallb (path_ok (l_guard_excl_eof l)) (l_paths l) end.

Definition loop_key (l : loop_summary) : string * nat := (l_fn l, l_ord l).
Definition key_eqb (a b : string * nat) : bool := String.eqb (fst a) (fst b) && Nat.eqb (snd a) (snd b).
Definition flagged (ls : list loop_summary) : list (string * nat) :=
  map loop_key (filter (fun l => negb (progresses l)) ls).
Fixpoint keys_eqb (a b : list (string * nat)) : bool :=
  match a, b with [] , [] => true | x :: a', y :: b' => key_eqb x y && keys_eqb a' b' | _, _ => false end.
Definition without (ex : list (string * nat)) (ls : list loop_summary) : list loop_summary :=
  filter (fun l => negb (existsb (key_eqb (loop_key l)) ex)) ls.

(* ---------------------------------------------------------------- call graph: ranks certify acyclicity *)
Definition graph := list (string * list string).
Definition mem (x : string) (l : list string) : bool := existsb (String.eqb x) l.
Definition restrict (keep : string -> bool) (g : graph) : graph :=
  map (fun e => (fst e, filter keep (snd e))) (filter (fun e => keep (fst e)) g).
(* Kahn: repeatedly give the next rank to every node all of whose successors are already ranked *)
Definition ranked (r : list (string * nat)) (x : string) : bool := existsb (fun e => String.eqb (fst e) x) r.
Fixpoint kahn (fuel : nat) (g : graph) (r : list (string * nat)) : list (string * nat) :=
  match fuel with
  | O => r
  | S f =>
      let ready := filter (fun e => negb (ranked r (fst e)) && forallb (ranked r) (snd e)) g in
      match ready with
      | [] => r
      | _ => kahn f g (r ++ map (fun e => (fst e, List.length g - fuel)) ready)
      end
  end.
Fixpoint rank_of (r : list (string * nat)) (x : string) : option nat :=
  match r with [] => None | (y, n) :: t => if String.eqb y x then Some n else rank_of t x end.
(* every node is ranked and every edge goes to a strictly smaller rank *)
Definition ranks_ok (g : graph) (r : list (string * nat)) : bool :=
  forallb (fun e => match rank_of r (fst e) with
                    | None => false
                    | Some n => forallb (fun c => match rank_of r c with Some m => Nat.ltb m n | None => false end) (snd e)
                    end) g.
Definition acyclic (g : graph) : bool := ranks_ok g (kahn (List.length g) g []).
(* nodes that lie on a cycle or reach one: those Kahn cannot rank *)
Definition unranked (g : graph) : list string :=
  let r := kahn (List.length g) g [] in map fst (filter (fun e => negb (ranked r (fst e))) g).
(* nodes on a cycle: unranked nodes that reach themselves within the unranked subgraph *)
Fixpoint reach (fuel : nat) (g : graph) (frontier seen : list string) : list string :=
  match fuel with
  | O => seen
  | S f =>
      let next := flat_map (fun x => match find (fun e => String.eqb (fst e) x) g with Some e => snd e | None => [] end) frontier in
      let fresh := filter (fun y => negb (mem y seen)) next in
      match fresh with [] => seen | _ => reach f g (nodup string_dec fresh) (seen ++ nodup string_dec fresh) end
  end.
Definition on_cycle (g : graph) : list string :=
  filter (fun x => mem x (reach (List.length g) g [x] [])) (map fst g).
Fixpoint strs_eqb (a b : list string) : bool :=
  match a, b with [], [] => true | x :: a', y :: b' => String.eqb x y && strs_eqb a' b' | _, _ => false end.

(* ================================================================ semantics of a cursor loop (definitions) *)
Section CursorLoopDefs.
  Variable State : Type.
  Variable pos : State -> nat.          (* token cursor *)
  Variable N : nat.                     (* index of the EOF token: pos s <= N always *)
  Variable guard : State -> bool.       (* the loop test *)
  Variable step : State -> option State.  (* one execution of the body from a state where the test holds; None = left the loop *)

  (* run at most n iterations; None = the loop has terminated *)
  Fixpoint loop (n : nat) (s : State) : option State :=
    match n with
    | O => Some s
    | S m => if guard s then match step s with None => None | Some s' => loop m s' end else None
    end.

  (* every iteration either moves the cursor forward or leaves the loop test false *)
  Definition progress_hyp : Prop :=
    forall s s', guard s = true -> step s = Some s' -> pos s < pos s' \/ guard s' = false.

  (* what a path kind of the summary means for one iteration *)
  Definition sem (p : path) (s : State) (r : option State) : Prop :=
    match p with
    | PExit => r = None
    | PAdv => exists s', r = Some s' /\ pos s < pos s'
    | PAdvMaybe => exists s', r = Some s' /\ (pos s < pos s' \/ pos s' = N)     (* effective, or the cursor sits on EOF *)
    | PStuck | PUnknown => True
    end.
End CursorLoopDefs.

(* call chains of a graph *)
Section ChainDefs.
  Variable g : graph.
  Definition edge (x y : string) : Prop := exists e, In e g /\ fst e = x /\ In y (snd e).
  Fixpoint chain (l : list string) : Prop :=
    match l with
    | [] => True
    | x :: t => match t with [] => (exists e, In e g /\ fst e = x) | y :: _ => edge x y /\ chain t end
    end.
End ChainDefs.
