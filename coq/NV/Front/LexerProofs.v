(* Proofs about the tokenizer model NV/Front/Lexer.v: it is total (the fuel it is given always suffices), every
   iteration of its main loop consumes at least one byte, the token stream ends with the only EOF token and has at most
   one token per source byte. *)
From Coq Require Import NArith ZArith List Bool String Ascii Lia.
From NV Require Import gen.Tokens Front.ExprParser Front.Lexer.
Import ListNotations.
Local Open Scope N_scope.

Lemma span_rest_le p r : (List.length (snd (span p r)) <= List.length r)%nat.
Proof.
  induction r as [|c t IH]; cbn; [lia|]. destruct (p c); cbn; [|lia].
  destruct (span p t) as [a b]. cbn in *. lia.
Qed.

Lemma skip_block_le r i line ls : (List.length (fst (fst (fst (skip_block r i line ls)))) <= List.length r)%nat.
Proof.
  revert i line ls. induction r as [|c t IH]; intros; cbn; [lia|].
  destruct (N.eqb c 42 && N.eqb (hd0 t) 47).
  - cbn. destruct t; cbn; lia.
  - destruct (N.eqb c 10); specialize (IH (i + 1)); [specialize (IH (line + 1) (i + 1))|specialize (IH line ls)]; cbn in *; lia.
Qed.

Lemma string_body_le f r : (List.length (snd (string_body f r)) <= List.length r)%nat.
Proof.
  revert r. induction f as [|f IH]; intros r; cbn; [lia|].
  destruct r as [|c t]; cbn; [lia|].
  destruct (N.eqb c 34); cbn; [lia|].
  destruct (N.eqb c 92 && negb (N.eqb (hd0 t) 0)).
  - destruct t as [|d t']; cbn; [lia|]. specialize (IH t'). destruct (string_body f t') as [a b]. cbn in *. lia.
  - specialize (IH t). destruct (string_body f t) as [a b]. cbn in *. lia.
Qed.

Lemma span_head p c t : p c = true -> (List.length (snd (span p (c :: t))) <= List.length t)%nat.
Proof.
  intros H. cbn [span]. rewrite H. pose proof (span_rest_le p t). destruct (span p t) as [a b]. cbn in *. lia.
Qed.

Definition step_rest (s : step) : option bytes :=
  match s with SSkip r _ _ _ _ => Some r | SEmit _ r _ _ _ => Some r | SFail => None end.

Lemma tl_le (A : Type) (l : list A) : (List.length (tl l) <= List.length l)%nat.
Proof. destruct l; cbn; lia. Qed.

(* one pass of the loop body never returns more input than the tail it was given: the cursor moves by >= 1 *)
Lemma lex_step_shrinks c t i line ls col r' :
  step_rest (lex_step c t i line ls col) = Some r' -> (List.length r' <= List.length t)%nat.
Proof.
  unfold lex_step.
  destruct (is_space c).
  { destruct (N.eqb c 10); cbn; intros H; inversion H; subst; lia. }
  destruct (N.eqb c 35) eqn:E35.
  { apply N.eqb_eq in E35. subst c.
    pose proof (span_head (fun x => negb (N.eqb x 10)) 35 t eq_refl) as Hs.
    destruct (span (fun x => negb (N.eqb x 10)) (35 :: t)) as [cm r0]. cbn in *. intros H; inversion H; subst. exact Hs. }
  destruct (N.eqb c 47 && N.eqb (hd0 t) 42).
  { pose proof (skip_block_le (tl t) (i + 2) line ls) as Hs. pose proof (tl_le _ t) as Htl.
    destruct (skip_block (tl t) (i + 2) line ls) as [[[r0 i0] l0] s0]. cbn in *. intros H; inversion H; subst. lia. }
  destruct (N.eqb c 39).
  { destruct t as [|d t1]; [discriminate|]. destruct (N.eqb d 92).
    - destruct t1 as [|e t2]; [discriminate|]. destruct (N.eqb (hd0 t2) 39); [|discriminate].
      cbn. intros H; inversion H; subst. pose proof (tl_le _ t2) as Htl. cbn. lia.
    - destruct (N.eqb (hd0 t1) 39); [|discriminate]. cbn. intros H; inversion H; subst. pose proof (tl_le _ t1) as Htl. cbn. lia. }
  destruct (N.eqb c 34).
  { pose proof (string_body_le (S (List.length t)) t) as Hs.
    destruct (string_body (S (List.length t)) t) as [body r0]. cbn in Hs.
    destruct r0 as [|q r2]; [discriminate|]. destruct (N.eqb q 34); [|discriminate]. cbn in *. intros H; inversion H; subst. lia. }
  destruct (is_digit c || (N.eqb c 45 && is_digit (hd0 t))) eqn:Enum.
  { assert (Hr1 : forall sign r0, (sign, r0) = (if N.eqb c 45 then ([c], t) else ([], c :: t)) ->
                   (List.length (snd (span is_digit r0)) <= List.length t)%nat).
    { intros sign r0 Heq. destruct (N.eqb c 45) eqn:E45; inversion Heq; subst.
      - apply span_rest_le.
      - apply span_head. cbn in Enum. rewrite orb_false_r in Enum. exact Enum. }
    destruct (if N.eqb c 45 then ([c], t) else ([], c :: t)) as [sign r0] eqn:Es. specialize (Hr1 sign r0 eq_refl).
    destruct (span is_digit r0) as [ds r1]. cbn in Hr1.
    destruct r1 as [|dot r2]; [cbn; intros H; inversion H; subst; cbn; lia|].
    destruct (N.eqb dot 46 && is_digit (hd0 r2)).
    - pose proof (span_rest_le is_digit r2) as H3. destruct (span is_digit r2) as [fs r3]. cbn in *. intros H; inversion H; subst. lia.
    - cbn. intros H; inversion H; subst. exact Hr1. }
  destruct (is_ident_start c) eqn:Eid.
  { assert (Hc : is_ident_char c = true).
    { unfold is_ident_start, is_ident_char in *. destruct (is_alpha c); [reflexivity|]. cbn in *. rewrite Eid. apply orb_true_r. }
    pose proof (span_head is_ident_char c t Hc) as Hs.
    destruct (span is_ident_char (c :: t)) as [id r1]. cbn in *. intros H; inversion H; subst. exact Hs. }
  destruct (op2 c (hd0 t)) as [[k n]|].
  { destruct n as [|n]; [cbn; intros H; inversion H; subst; lia|].
    destruct n as [n|n|]; try (cbn; intros H; inversion H; subst; lia).
    destruct n; try (cbn; intros H; inversion H; subst; lia).
    cbn. intros H; inversion H; subst. apply tl_le. }
  destruct (op1 c); cbn; intros H; inversion H; subst; lia.
Qed.

(* the fuel tokenize supplies always suffices *)
Lemma lex_loop_total f r i line ls col acc : (List.length r < f)%nat -> lex_loop f r i line ls col acc <> LFuel.
Proof.
  revert r i line ls col acc. induction f as [|f IH]; intros r i line ls col acc Hlt; [lia|].
  cbn [lex_loop]. destruct r as [|c t]; [discriminate|].
  pose proof (lex_step_shrinks c t i line ls col) as Hs.
  destruct (lex_step c t i line ls col) as [r' i' l' s' c'|tok r' i' l' s'|]; cbn in Hs.
  - specialize (Hs r' eq_refl). apply IH. cbn in Hlt. lia.
  - specialize (Hs r' eq_refl). apply IH. cbn in Hlt. lia.
  - discriminate.
Qed.

Theorem tokenize_total src : tokenize src <> LFuel.
Proof. unfold tokenize. apply lex_loop_total. lia. Qed.

(* no token produced inside the loop is EOF *)
Lemma kw_lookup_not_eof b l : forallb (fun e => negb (kind_eqb (snd e) K_EOF)) l = true -> kw_lookup b l <> K_EOF.
Proof.
  induction l as [|[s k] t IH]; cbn; [discriminate|]. intros H. apply andb_prop in H as [Hk Ht].
  destruct (bytes_eqb (bytes_of_string s) b); [|apply IH, Ht].
  intros ->. discriminate Hk.
Qed.
Lemma keyword_not_eof b : keyword_or_identifier b <> K_EOF.
Proof. apply kw_lookup_not_eof. vm_compute. reflexivity. Qed.

Lemma op2_not_eof c d k n : op2 c d = Some (k, n) -> k <> K_EOF.
Proof.
  unfold op2. repeat match goal with |- context [if ?b then _ else _] => destruct b end; intros H; inversion H; subst; discriminate.
Qed.
Lemma op1_not_eof c k : op1 c = Some k -> k <> K_EOF.
Proof.
  unfold op1. intros H.
  repeat match type of H with context [match ?x with _ => _ end] => destruct x; try discriminate H end;
    inversion H; subst; discriminate.
Qed.

Lemma lex_step_emit_not_eof c t i line ls col tok r' i' l' s' :
  lex_step c t i line ls col = SEmit tok r' i' l' s' -> lk tok <> K_EOF.
Proof.
  unfold lex_step.
  destruct (is_space c). { destruct (N.eqb c 10); discriminate. }
  destruct (N.eqb c 35). { destruct (span _ _); discriminate. }
  destruct (N.eqb c 47 && N.eqb (hd0 t) 42). { destruct (skip_block _ _ _ _) as [[[? ?] ?] ?]; discriminate. }
  destruct (N.eqb c 39).
  { destruct t as [|d t1]; [discriminate|]. destruct (N.eqb d 92).
    - destruct t1 as [|e t2]; [discriminate|]. destruct (N.eqb (hd0 t2) 39); [|discriminate]. intros H; inversion H; subst; discriminate.
    - destruct (N.eqb (hd0 t1) 39); [|discriminate]. intros H; inversion H; subst; discriminate. }
  destruct (N.eqb c 34).
  { destruct (string_body _ _) as [body r0]. destruct r0 as [|q r2]; [discriminate|]. destruct (N.eqb q 34); [|discriminate].
    intros H; inversion H; subst; discriminate. }
  destruct (is_digit c || (N.eqb c 45 && is_digit (hd0 t))).
  { destruct (if N.eqb c 45 then ([c], t) else ([], c :: t)) as [sign r0]. destruct (span is_digit r0) as [ds r1].
    destruct r1 as [|dot r2]; [intros H; inversion H; subst; discriminate|].
    destruct (N.eqb dot 46 && is_digit (hd0 r2)).
    - destruct (span is_digit r2). intros H; inversion H; subst; discriminate.
    - intros H; inversion H; subst; discriminate. }
  destruct (is_ident_start c).
  { destruct (span is_ident_char (c :: t)) as [id r1]. intros H; inversion H; subst. cbn. apply keyword_not_eof. }
  destruct (op2 c (hd0 t)) as [[k n]|] eqn:E2.
  { pose proof (op2_not_eof _ _ _ _ E2). destruct n as [|n]; [intros H0; inversion H0; subst; assumption|].
    destruct n as [n|n|]; try (intros H0; inversion H0; subst; assumption).
    destruct n; intros H0; inversion H0; subst; assumption. }
  destruct (op1 c) eqn:E1; [|discriminate]. intros H; inversion H; subst. cbn. apply (op1_not_eof _ _ E1).
Qed.

(* shape of a successful result: the tokens produced by the loop (none of them EOF, at most one per byte consumed),
   then exactly one EOF token *)
Lemma lex_loop_shape f r i line ls col acc toks :
  lex_loop f r i line ls col acc = LOk toks ->
  exists body l c, toks = rev acc ++ body ++ [LTok K_EOF None l c] /\ Forall (fun t => lk t <> K_EOF) body /\
                   (List.length body <= List.length r)%nat.
Proof.
  revert r i line ls col acc toks. induction f as [|f IH]; intros r i line ls col acc toks H; [discriminate|].
  cbn [lex_loop] in H. destruct r as [|c t].
  - inversion H; subst. exists [], line, col. cbn [rev]. split; [reflexivity|split; [constructor|cbn; lia]].
  - pose proof (lex_step_shrinks c t i line ls col) as Hs.
    destruct (lex_step c t i line ls col) as [r' i' l' s' c'|tok r' i' l' s'|] eqn:E; cbn in Hs; [| |discriminate].
    + specialize (Hs r' eq_refl). destruct (IH _ _ _ _ _ _ _ H) as (body & l & c0 & Ht & Hf & Hl).
      exists body, l, c0. split; [exact Ht|split; [exact Hf|cbn; lia]].
    + specialize (Hs r' eq_refl). destruct (IH _ _ _ _ _ _ _ H) as (body & l & c0 & Ht & Hf & Hl).
      exists (tok :: body), l, c0. split; [|split].
      * rewrite Ht. cbn [rev]. rewrite <- app_assoc. reflexivity.
      * constructor; [eapply lex_step_emit_not_eof; exact E|exact Hf].
      * cbn. lia.
Qed.

Theorem tokenize_shape src toks : tokenize src = LOk toks ->
  exists body l c, toks = body ++ [LTok K_EOF None l c] /\ Forall (fun t => lk t <> K_EOF) body /\
                   (List.length body <= List.length src)%nat.
Proof.
  unfold tokenize. intros H. destruct (lex_loop_shape _ _ _ _ _ _ _ _ H) as (body & l & c & Ht & Hf & Hl).
  exists body, l, c. split; [exact Ht|split; [exact Hf|]].
  unfold cstring in Hl. pose proof (span_rest_le (fun x => negb (N.eqb x 0)) src).
  assert (Hp : forall p (r : bytes), (List.length (fst (span p r)) <= List.length r)%nat).
  { intros p r. induction r as [|x r IH]; cbn; [lia|]. destruct (p x); cbn; [|lia]. destruct (span p r); cbn in *; lia. }
  specialize (Hp (fun x => negb (N.eqb x 0)) src). lia.
Qed.
