(* Executable model of tokenize() of /repo/src/lexer.c:83 over the bytes of the source string (the bytes before the
   terminating NUL).  DEFINITIONS ONLY (extracted).

   Every read of the C code is explicit: [r] is the suffix starting at source[i]; source[i+1] is [hd0 (tl r)], which is
   the terminator (0) when r has one element -- the C code only ever reads source[i+1] when source[i] is not the
   terminator, so no read goes past it (checked on the real code by the ASan build with exact-size buffers).
   isspace/isdigit/isalpha/isalnum are the "C" locale tables; bytes >= 128 belong to none of them (glibc).
   Token value NULL is [None].  line / column as the C code computes them (column = i - line_start + 1).
   tokenize returns NULL (after a diagnostic) on an unterminated character literal / string: [LNull]. *)
From Coq Require Import NArith ZArith List Bool String Ascii.
From NV Require Import gen.Tokens Front.ExprParser.
Import ListNotations.
Local Open Scope N_scope.

Record ltoken : Set := LTok { lk : kind; lv : option bytes; lline : N; lcol : N }.
Inductive lres : Set := LOk (toks : list ltoken) | LNull | LFuel.

Definition hd0 (r : bytes) : N := match r with [] => 0 | c :: _ => c end.
Definition is_space (c : N) : bool := (N.leb 9 c && N.leb c 13) || N.eqb c 32.
Definition is_digit (c : N) : bool := N.leb 48 c && N.leb c 57.
Definition is_alpha (c : N) : bool := (N.leb 65 c && N.leb c 90) || (N.leb 97 c && N.leb c 122).
Definition is_ident_start (c : N) : bool := is_alpha c || N.eqb c 95.
Definition is_ident_char (c : N) : bool := is_alpha c || is_digit c || N.eqb c 95.

Fixpoint bytes_of_string (s : string) : bytes :=
  match s with EmptyString => [] | String a t => N_of_ascii a :: bytes_of_string t end.

(* keyword_or_identifier (lexer.c:23), in the order of the strcmp chain *)
Definition keywords : list (string * kind) :=
  [("module", K_MODULE); ("pub", K_PUB); ("from", K_FROM); ("use", K_USE); ("extern", K_EXTERN); ("fn", K_FN); ("let", K_LET);
   ("mut", K_MUT); ("set", K_SET); ("if", K_IF); ("else", K_ELSE); ("cond", K_COND); ("while", K_WHILE); ("for", K_FOR);
   ("in", K_IN); ("return", K_RETURN); ("break", K_BREAK); ("continue", K_CONTINUE); ("assert", K_ASSERT); ("shadow", K_SHADOW);
   ("requires", K_REQUIRES); ("ensures", K_ENSURES); ("array", K_ARRAY); ("struct", K_STRUCT); ("enum", K_ENUM); ("union", K_UNION);
   ("match", K_MATCH); ("opaque", K_OPAQUE); ("import", K_IMPORT); ("unsafe", K_UNSAFE); ("resource", K_RESOURCE); ("as", K_AS);
   ("true", K_TRUE); ("false", K_FALSE); ("int", K_TYPE_INT); ("u8", K_TYPE_U8); ("byte", K_TYPE_U8); ("float", K_TYPE_FLOAT);
   ("bool", K_TYPE_BOOL); ("string", K_TYPE_STRING); ("void", K_TYPE_VOID); ("bstring", K_TYPE_BSTRING);
   ("and", K_AND); ("or", K_OR); ("not", K_NOT)]%string.
Fixpoint kw_lookup (b : bytes) (l : list (string * kind)) : kind :=
  match l with
  | [] => K_IDENTIFIER
  | (s, k) :: t => if bytes_eqb (bytes_of_string s) b then k else kw_lookup b t
  end.
Definition keyword_or_identifier (b : bytes) : kind := kw_lookup b keywords.

(* splits off the longest prefix whose bytes satisfy p: (prefix, rest) *)
Fixpoint span (p : N -> bool) (r : bytes) : bytes * bytes :=
  match r with
  | c :: t => if p c then let (a, b) := span p t in (c :: a, b) else ([], r)
  | [] => ([], [])
  end.

(* decimal text of a C int *)
Fixpoint pos_digits (fuel : nat) (n : N) (acc : bytes) : bytes :=
  match fuel with
  | O => acc
  | S f => let acc' := (48 + n mod 10) :: acc in if N.ltb n 10 then acc' else pos_digits f (n / 10) acc'
  end.
Definition dec_of_Z (z : Z) : bytes :=
  match z with
  | Z0 => [48]
  | Zpos p => pos_digits 20 (Npos p) []
  | Zneg p => 45 :: pos_digits 20 (Npos p) []
  end.

(* the block comment body: while (source[i] != 0) { if star-slash: skip 2, break; if newline: line++, line_start = i+1; i++ } *)
Fixpoint skip_block (r : bytes) (i line ls : N) : bytes * N * N * N :=
  match r with
  | [] => ([], i, line, ls)
  | c :: t =>
      if N.eqb c 42 && N.eqb (hd0 t) 47 then (tl t, i + 2, line, ls)
      else if N.eqb c 10 then skip_block t (i + 1) (line + 1) (i + 1)
      else skip_block t (i + 1) line ls
  end.

(* the string body: while (c != 0 && c != QUOTE) { if (c == BACKSLASH && source[i+1] != 0) i += 2 else i++ }: (content, rest at the stop) *)
Fixpoint string_body (fuel : nat) (r : bytes) : bytes * bytes :=
  match fuel with
  | O => ([], r)
  | S f =>
      match r with
      | [] => ([], [])
      | c :: t =>
          if N.eqb c 34 then ([], r)
          else if N.eqb c 92 && negb (N.eqb (hd0 t) 0) then
                 match t with
                 | d :: t' => let (a, b) := string_body f t' in (c :: d :: a, b)
                 | [] => ([c], [])            (* unreachable: hd0 t <> 0 *)
                 end
               else let (a, b) := string_body f t in (c :: a, b)
      end
  end.

Inductive step : Set :=
| SSkip (r : bytes) (i line ls col : N)                 (* nothing emitted; col = value of `column` afterwards *)
| SEmit (t : ltoken) (r : bytes) (i line ls : N)
| SFail.                                                (* free(tokens); return NULL *)

Definition op2 (c d : N) : option (kind * N) :=      (* two-character operators, with the number of bytes consumed *)
  if N.eqb c 58 && N.eqb d 58 then Some (K_DOUBLE_COLON, 2)
  else if N.eqb c 45 && N.eqb d 62 then Some (K_ARROW, 2)
  else if N.eqb c 61 && N.eqb d 62 then Some (K_ARROW, 2)
  else if N.eqb c 61 && N.eqb d 61 then Some (K_EQ, 2)
  else if N.eqb c 61 then Some (K_ASSIGN, 1)            (* '=' not followed by '=' or '>' *)
  else if N.eqb c 33 && N.eqb d 61 then Some (K_NE, 2)
  else if N.eqb c 60 && N.eqb d 61 then Some (K_LE, 2)
  else if N.eqb c 62 && N.eqb d 61 then Some (K_GE, 2)
  else None.
Definition op1 (c : N) : option kind :=
  match c with
  | 40 => Some K_LPAREN | 41 => Some K_RPAREN | 123 => Some K_LBRACE | 125 => Some K_RBRACE | 91 => Some K_LBRACKET
  | 93 => Some K_RBRACKET | 44 => Some K_COMMA | 58 => Some K_COLON | 46 => Some K_DOT | 43 => Some K_PLUS | 45 => Some K_MINUS
  | 42 => Some K_STAR | 47 => Some K_SLASH | 37 => Some K_PERCENT | 60 => Some K_LT | 62 => Some K_GT
  | _ => None
  end.

Definition escape_value (c : N) : Z :=
  match c with
  | 110 => 10 | 116 => 9 | 114 => 13 | 48 => 0 | 92 => 92 | 39 => 39 | 34 => 34
  | _ => if N.ltb c 128 then Z.of_N c else (Z.of_N c - 256)%Z          (* char_value = source[i], plain char is signed *)
  end.

(* one pass of the while loop body, entered with r = c :: t, c <> 0 *)
Definition lex_step (c : N) (t : bytes) (i line ls col : N) : step :=
  if is_space c then
    if N.eqb c 10 then SSkip t (i + 1) (line + 1) (i + 1) 1 else SSkip t (i + 1) line ls col
  else if N.eqb c 35 then
    let (cm, r') := span (fun x => negb (N.eqb x 10)) (c :: t) in SSkip r' (i + N.of_nat (List.length cm)) line ls col
  else if N.eqb c 47 && N.eqb (hd0 t) 42 then
    match skip_block (tl t) (i + 2) line ls with (r', i', line', ls') => SSkip r' i' line' ls' col end
  else
    let column := i - ls + 1 in
    if N.eqb c 39 then
      (* character literal *)
      match t with
      | [] => SFail                                                    (* "Unterminated character literal" *)
      | d :: t1 =>
          if N.eqb d 92 then
            match t1 with
            | [] => SFail                                              (* "Incomplete escape sequence" *)
            | e :: t2 =>
                if N.eqb (hd0 t2) 39 then SEmit (LTok K_NUMBER (Some (dec_of_Z (escape_value e))) line column) (tl t2) (i + 4) line ls
                else SFail
            end
          else
            if N.eqb (hd0 t1) 39 then SEmit (LTok K_NUMBER (Some (dec_of_Z (Z.of_N d))) line column) (tl t1) (i + 3) line ls
            else SFail
      end
    else if N.eqb c 34 then
      let (body, r') := string_body (S (List.length t)) t in
      match r' with
      | q :: r2 => if N.eqb q 34 then SEmit (LTok K_STRING (Some body) line column) r2 (i + 2 + N.of_nat (List.length body)) line ls else SFail
      | [] => SFail                                                    (* "Unterminated string" *)
      end
    else if is_digit c || (N.eqb c 45 && is_digit (hd0 t)) then
      let (sign, r0) := if N.eqb c 45 then ([c], t) else ([], c :: t) in
      let (ds, r1) := span is_digit r0 in
      match r1 with
      | dot :: r2 =>
          if N.eqb dot 46 && is_digit (hd0 r2) then
            let (fs, r3) := span is_digit r2 in
            let txt := sign ++ ds ++ dot :: fs in
            SEmit (LTok K_FLOAT (Some txt) line column) r3 (i + N.of_nat (List.length txt)) line ls
          else let txt := sign ++ ds in SEmit (LTok K_NUMBER (Some txt) line column) r1 (i + N.of_nat (List.length txt)) line ls
      | [] => let txt := sign ++ ds in SEmit (LTok K_NUMBER (Some txt) line column) r1 (i + N.of_nat (List.length txt)) line ls
      end
    else if is_ident_start c then
      let (id, r1) := span is_ident_char (c :: t) in
      SEmit (LTok (keyword_or_identifier id) (Some id) line column) r1 (i + N.of_nat (List.length id)) line ls
    else
      match op2 c (hd0 t) with
      | Some (k, 2) => SEmit (LTok k None line column) (tl t) (i + 2) line ls
      | Some (k, _) => SEmit (LTok k None line column) t (i + 1) line ls
      | None =>
          match op1 c with
          | Some k => SEmit (LTok k None line column) t (i + 1) line ls
          | None => SSkip t (i + 1) line ls column                      (* "Unknown character": message, i++ *)
          end
      end.

Fixpoint lex_loop (fuel : nat) (r : bytes) (i line ls col : N) (acc : list ltoken) : lres :=
  match fuel with
  | O => LFuel
  | S f =>
      match r with
      | [] => LOk (rev (LTok K_EOF None line col :: acc))
      | c :: t =>
          match lex_step c t i line ls col with
          | SSkip r' i' line' ls' col' => lex_loop f r' i' line' ls' col' acc
          | SEmit tok r' i' line' ls' => lex_loop f r' i' line' ls' (lcol tok) (tok :: acc)
          | SFail => LNull
          end
      end
  end.

(* the C string ends at the first NUL *)
Definition cstring (src : bytes) : bytes := fst (span (fun x => negb (N.eqb x 0)) src).
Definition tokenize (src : bytes) : lres := let s := cstring src in lex_loop (S (List.length s)) s 0 1 0 1 [].

(* the token stream the parser model reads: kinds and values, without the final EOF *)
Definition parser_tokens (l : list ltoken) : list token :=
  map (fun t => Tok (lk t) (match lv t with Some v => v | None => [] end)) (removelast l).
