(* Generic theorems about cursor loops and call graphs (definitions in RecoveryLoops.v):
   a loop whose every iteration exits, advances the cursor or leaves the test false terminates within N + 2 iterations;
   a loop summary that passes the progress rule implies that hypothesis; counted loops; ranks bound call chains. *)
From Coq Require Import List String Arith Lia Bool.
From NV Require Import Front.RecoveryLoops.
Import ListNotations.

Section CursorLoop.
  Variable State : Type.
  Variable pos : State -> nat.
  Variable N : nat.
  Variable guard : State -> bool.
  Variable step : State -> option State.
  Hypothesis pos_le : forall s, pos s <= N.
  Notation loop := (loop State guard step).
  Notation progress_hyp := (progress_hyp State pos guard step).
  Notation sem := (sem State pos N).

  Lemma loop_more n m s : loop n s = None -> n <= m -> loop m s = None.
  Proof.
    revert m s. induction n as [|n IH]; intros m s H Hle; [discriminate|].
    destruct m as [|m]; [lia|]. cbn in *. destruct (guard s); [|reflexivity].
    destruct (step s) as [s'|]; [|reflexivity]. apply IH; [exact H|lia].
  Qed.

  Theorem loop_terminates : progress_hyp -> forall s, loop (N - pos s + 2) s = None.
  Proof.
    intros H s. remember (N - pos s) as k eqn:Ek. revert s Ek.
    induction k as [k IH] using lt_wf_ind. intros s Ek.
    replace (k + 2) with (S (k + 1)) by lia. cbn [RecoveryLoops.loop].
    destruct (guard s) eqn:G; [|reflexivity]. destruct (step s) as [s'|] eqn:E; [|reflexivity].
    destruct (H s s' G E) as [Hlt|Hg].
    - pose proof (pos_le s'). apply loop_more with (n := N - pos s' + 2); [|lia]. apply (IH (N - pos s')); [lia|reflexivity].
    - replace (k + 1) with (S k) by lia. cbn [RecoveryLoops.loop]. rewrite Hg. reflexivity.
  Qed.

  Corollary loop_terminates_bound : progress_hyp -> forall s, loop (N + 2) s = None.
  Proof. intros H s. apply loop_more with (n := N - pos s + 2); [apply loop_terminates, H|lia]. Qed.

  (* a loop whose summary passes the rule terminates, whatever its body does within the summary *)
  Theorem summary_terminates : forall l,
    l_kind l = LCursor -> progresses l = true ->
    (forall s, guard s = true -> exists p, In p (l_paths l) /\ sem p s (step s)) ->
    (l_guard_excl_eof l = true -> forall s, pos s = N -> guard s = false) ->
    forall s, loop (N + 2) s = None.
  Proof.
    intros l Hk Hp Hsem Hg. apply loop_terminates_bound. intros s s' G E.
    destruct (Hsem s G) as (p & Hin & Hs). unfold progresses in Hp. rewrite Hk in Hp.
    rewrite forallb_forall in Hp. specialize (Hp p Hin). rewrite E in Hs.
    destruct p; cbn in Hp, Hs; try discriminate.
    - destruct Hs as (s2 & Heq & Hlt). injection Heq as <-. left; exact Hlt.
    - destruct Hs as (s2 & Heq & [Hlt|Heof]); injection Heq as <-; [left; exact Hlt|right; apply Hg; [exact Hp|exact Heof]].
  Qed.
End CursorLoop.

(* counted loops: i runs up to a bound that the body does not change *)
Theorem counted_loop_terminates : forall bound i,
  loop nat (fun i => Nat.ltb i bound) (fun i => Some (S i)) (bound + 2) i = None.
Proof.
  intros bound i.
  apply (loop_terminates_bound nat (fun i => Nat.min i bound) bound (fun i => Nat.ltb i bound) (fun i => Some (S i))).
  - intros s. apply Nat.le_min_r.
  - intros s s' G E. inversion E; subst. left. apply Nat.ltb_lt in G. lia.
Qed.

(* a rank that strictly decreases along every edge bounds every call chain *)
Section Ranks.
  Variable g : graph.
  Variable r : list (string * nat).
  Hypothesis ok : ranks_ok g r = true.

  Lemma edge_rank x y : edge g x y -> exists n m, rank_of r x = Some n /\ rank_of r y = Some m /\ m < n.
  Proof.
    intros (e & Hin & Hx & Hy). unfold ranks_ok in ok. rewrite forallb_forall in ok. specialize (ok e Hin).
    rewrite Hx in ok. destruct (rank_of r x) as [n|]; [|discriminate]. rewrite forallb_forall in ok. specialize (ok y Hy).
    destruct (rank_of r y) as [m|]; [|discriminate]. apply Nat.ltb_lt in ok. eauto.
  Qed.

  (* a chain starting at rank n has at most n + 1 nodes *)
  Theorem chain_bounded : forall l x n, chain g (x :: l) -> rank_of r x = Some n -> List.length (x :: l) <= S n.
  Proof.
    induction l as [|y t IH]; intros x n Hc Hr; [cbn; lia|].
    cbn [chain] in Hc. destruct Hc as [He Hc]. destruct (edge_rank x y He) as (n' & m & Hn & Hm & Hlt).
    rewrite Hr in Hn. inversion Hn; subst. specialize (IH y m Hc Hm). cbn [List.length] in *. lia.
  Qed.
End Ranks.
