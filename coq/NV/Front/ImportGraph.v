(* C09 -- import processing (src/module.c: process_imports / load_module_internal and its module cache) as a state machine over an
   arbitrary finite import graph.  Definitions only (extracted into nvref_c09); the proofs are in ImportGraphProofs.v.

   What is modelled (names of module.c in brackets):
     - the module cache [ModuleCache]: a list of entries (path, has-AST).  [cache_module] appends (path, no AST) unless the path is
       already there; [cache_module_with_ast] sets the AST of the first entry with that path (appends one if there is none);
       [get_cached_module_ast] reads the first entry with that path.
     - [process_imports]: the imports of a file in source order; the first failure ends everything (the callers return false up to
       main(), which exits).  An import whose file does not exist is the diagnostic "Module file ... not found".
     - [load_module_internal]: a module with an AST in the cache is finished (nothing to do); otherwise the module is marked
       (entry without AST), its own imports are processed, and then its AST is stored.
       guard = true  : the REPAIRED loader (proposed_fixes/C09-circular-import.diff): an entry without AST met on entry = this module
                       is still being loaded further up = diagnostic "Circular import".
       guard = false : the loader of the pinned tree: the entry without AST is written ("Mark module as loading to prevent circular
                       imports") but never consulted -- the module is read and its imports are processed again.
   What is abstracted: a module is a number (the resolved path string); lexing/parsing/type checking of a module body do not appear
   (their totality is the subject of the other parts of Properties_C09); a graph lists the files that exist with their imports. *)
From Coq Require Import List Arith Bool.
Import ListNotations.

Definition modid := nat.
Definition graph := list (modid * list modid).      (* existing files with their imports in source order; first entry wins *)

Fixpoint lookup (g : graph) (m : modid) : option (list modid) :=
  match g with
  | [] => None
  | (k, ds) :: r => if Nat.eqb k m then Some ds else lookup r m
  end.

Definition cache := list (modid * bool).            (* (path, AST present) in insertion order *)

Fixpoint centry (c : cache) (m : modid) : option bool :=
  match c with
  | [] => None
  | (k, a) :: r => if Nat.eqb k m then Some a else centry r m
  end.

Definition cache_mark (c : cache) (m : modid) : cache :=          (* cache_module *)
  match centry c m with Some _ => c | None => c ++ [(m, false)] end.

Fixpoint cache_set_ast (c : cache) (m : modid) : cache :=         (* cache_module_with_ast *)
  match c with
  | [] => [(m, true)]
  | (k, a) :: r => if Nat.eqb k m then (k, true) :: r else (k, a) :: cache_set_ast r m
  end.

Inductive diag := Cycle (m : modid) | Missing (m : modid).
Inductive result := Done (c : cache) | Diag (d : diag) | NoFuel.

(* process_imports over the import list of one file; ld = load_module_internal *)
Fixpoint process_with (ld : modid -> cache -> result) (deps : list modid) (c : cache) : result :=
  match deps with
  | [] => Done c
  | d :: ds => match ld d c with
               | Done c' => process_with ld ds c'
               | r => r
               end
  end.

Fixpoint load (guard : bool) (g : graph) (fuel : nat) (m : modid) (c : cache) : result :=
  match fuel with
  | O => NoFuel
  | S f =>
    match lookup g m with
    | None => Diag (Missing m)                                   (* process_imports: fopen test before load_module_internal *)
    | Some deps =>
      let body := fun c1 => match process_with (load guard g f) deps c1 with
                            | Done c2 => Done (cache_set_ast c2 m)
                            | r => r
                            end in
      match centry c m with
      | Some true => Done c                                       (* cached AST: already loaded *)
      | Some false => if guard then Diag (Cycle m) else body (cache_mark c m)
      | None => body (cache_mark c m)
      end
    end
  end.

(* the program file itself is read by main(), not through load_module_internal: its imports are processed with an empty cache *)
Definition run (guard : bool) (g : graph) (fuel : nat) (main : modid) : result :=
  match lookup g main with
  | None => Diag (Missing main)
  | Some deps => process_with (load guard g fuel) deps []
  end.

(* enough fuel for every graph (theorem run_total): one more than the number of files *)
Definition run_guarded (g : graph) (main : modid) : result := run true g (S (length g)) main.
Definition run_unguarded (g : graph) (main : modid) : result := run false g (S (length g)) main.

(* the measure: files of the graph that are not yet in the cache *)
Definition uncached (g : graph) (c : cache) : nat :=
  length (filter (fun k => match centry c k with None => true | Some _ => false end) (map fst g)).

Definition has_ast (c : cache) (m : modid) : bool := match centry c m with Some true => true | _ => false end.
Definition in_progress (c : cache) : list modid := map fst (filter (fun e => negb (snd e)) c).
