(* Fuel monotonicity of the expression-parser model: once [run f c] is not OutOfFuel, every larger fuel gives the
   same answer.  (Separate file: the case analysis over all parser paths takes about a minute to check.) *)
From Coq Require Import NArith ZArith List Bool Lia Arith.
From NV Require Import gen.Tokens gen.ParserConsts Front.ExprParser.
Import ListNotations.

(* ================================================================ 1. fuel monotonicity *)
Definition refines (s s' : call -> res) : Prop := forall c, s c <> OutOfFuel -> s' c = s c.

Ltac head t := lazymatch t with
  | match ?X with _ => _ end => head X
  | _ => t end.

Ltac mono_step s H :=
  lazymatch goal with
  | |- ?L <> OutOfFuel -> _ =>
      let X := head L in
      lazymatch X with
      | s ?c => let HX := fresh "HX" in
                pose proof (H c) as HX; destruct (s c) eqn:?;
                [ rewrite HX by discriminate | rewrite HX by discriminate | rewrite HX by discriminate | ]; clear HX; cbv iota beta
      | _ => destruct X eqn:?; cbv iota beta
      end
  end.

Ltac mono s H := repeat first [ solve [intros _; reflexivity] | solve [intros C; exfalso; apply C; reflexivity] | solve [apply H] | mono_step s H ].

Lemma body_mono s s' : refines s s' -> refines (body s) (body s').
Proof.
  intros H c. destruct c; cbv [body].
  - cbv [expression_body]. mono s H.
  - cbv [primary_body ident_body paren_body]. cbv zeta. mono s H.
  - cbv [operand_body]. mono s H.
  - cbv [loop_body]. mono s H.
  - cbv [prefix_op_body]. cbv zeta. mono s H.
  - cbv [nofail_body]. mono s H.
  - cbv [fail_body]. mono s H.
  - cbv [tuple_body]. cbv zeta. mono s H.
Qed.

Lemma run_mono f f' : f <= f' -> refines (run f) (run f').
Proof.
  revert f'. induction f as [|f IH]; intros f' Hle c Hc.
  - exfalso. apply Hc. reflexivity.
  - destruct f' as [|f']; [lia|]. cbn [run] in *. apply body_mono; [apply IH; lia | exact Hc].
Qed.

