(* C14 -- model of the NanoVM reference-counted heap (src/nanovm/heap.c).  Definitions only (extracted).

   heap      = list of cells indexed by allocation ordinal (ids are never reused: a freed cell stays [Freed]),
               plus the string intern table of VmHeap (key = string content, abstracted to a number).
   cell      = Live rc obj | Freed          rc = VmHeapHeader.ref_count
   obj       = kind + the NanoValue slots the object owns (array elements[0..length), struct/union fields,
               tuple elements, closure captures; none for strings)
   value     = VRef id (tag STRING/ARRAY/STRUCT/UNION/TUPLE/HASHMAP/FUNCTION-closure with a non-NULL pointer)
             | VNon    (everything vm_retain/vm_release ignore: int, float, bool, u8, enum, void, opaque, NULL)
   A C access to freed memory (vm_retain / vm_release / field access through a dangling pointer) is the
   outcome [UAF]; it is never "modelled away".                                                            *)
From Coq Require Import List Arith Bool ZArith Lia.
Import ListNotations.

Notation id := nat (only parsing).
Inductive value := VRef (i : id) | VNon.
Inductive kind := KStr (key : nat) | KArr | KStruct | KUnion | KTuple | KClos | KMap.
Record obj := Obj { okind : kind; ovals : list value }.
Inductive cell := Live (rc : nat) (o : obj) | Freed.
Record heap := Heap { cells : list cell; intern : list (nat * id) }.

Inductive res (A : Type) :=
| Ok (a : A)
| UAF            (* the C code would touch a freed / never allocated object *)
| OutOfFuel      (* release worklist ran out of fuel (excluded by the measure sum_rc) *)
| Stuck.         (* ill-formed micro-code (register file underflow, wrong kind); never the C code's behaviour *)
Arguments Ok {A} a. Arguments UAF {A}. Arguments OutOfFuel {A}. Arguments Stuck {A}.

Definition bind {A B} (r : res A) (f : A -> res B) : res B :=
  match r with Ok a => f a | UAF => UAF | OutOfFuel => OutOfFuel | Stuck => Stuck end.

Definition vref (v : value) : list id := match v with VRef i => [i] | VNon => [] end.
Definition refs (vs : list value) : list id := flat_map vref vs.
Definition cell_refs (c : cell) : list id := match c with Live _ o => refs (ovals o) | Freed => [] end.
Definition heap_refs (h : heap) : list id := flat_map cell_refs (cells h).

Fixpoint upd {A} (l : list A) (i : nat) (x : A) : list A :=
  match l, i with
  | [], _ => []
  | _ :: t, O => x :: t
  | a :: t, S j => a :: upd t j x
  end.

Definition get (h : heap) (i : id) : option cell := nth_error (cells h) i.
Definition set_cell (h : heap) (i : id) (c : cell) : heap := Heap (upd (cells h) i c) (intern h).
Definition rcof (h : heap) (i : id) : nat := match get h i with Some (Live rc _) => rc | _ => 0 end.
Definition is_live (h : heap) (i : id) : bool := match get h i with Some (Live _ _) => true | _ => false end.

Definition cell_rc (c : cell) : nat := match c with Live rc _ => rc | Freed => 0 end.
Definition sum_rc (h : heap) : nat := fold_right (fun c a => cell_rc c + a) 0 (cells h).
Definition live_count (h : heap) : nat := fold_right (fun c a => match c with Live _ _ => S a | Freed => a end) 0 (cells h).

Definition empty_heap : heap := Heap [] [].

(* vm_retain: ref_count++ through the pointer *)
Definition retain (h : heap) (i : id) : res heap :=
  match get h i with
  | Some (Live rc o) => Ok (set_cell h i (Live (S rc) o))
  | _ => UAF
  end.
Definition retain_v (h : heap) (v : value) : res heap := match v with VRef i => retain h i | VNon => Ok h end.

(* removal from the intern table when a string dies (heap.c:88; the C moves the last entry into the hole, the
   table is only ever searched by content and contents are unique, so order is irrelevant) *)
Fixpoint intern_remove (t : list (nat * id)) (i : id) : list (nat * id) :=
  match t with
  | [] => []
  | (k, j) :: r => if Nat.eqb j i then r else (k, j) :: intern_remove r i
  end.
Fixpoint intern_find (t : list (nat * id)) (key : nat) : option id :=
  match t with
  | [] => None
  | (k, j) :: r => if Nat.eqb k key then Some j else intern_find r key
  end.

Definition free_cell (h : heap) (i : id) (o : obj) : heap :=
  Heap (upd (cells h) i Freed)
       (match okind o with KStr _ => intern_remove (intern h) i | _ => intern h end).

(* vm_release as a depth-first worklist: take the first reference; ref_count == 0 -> return (heap.c:74);
   decrement; at zero the object's own references are released first-to-last (release_array & co. recurse
   before the next sibling), then it is freed.  One structural recursion on fuel. *)
Fixpoint release_wl (fuel : nat) (h : heap) (wl : list id) : res heap :=
  match wl with
  | [] => Ok h
  | i :: wl' =>
    match fuel with
    | O => OutOfFuel
    | S f =>
      match get h i with
      | Some (Live rc o) =>
        match rc with
        | O => release_wl f h wl'
        | S O => release_wl f (free_cell h i o) (refs (ovals o) ++ wl')
        | S rc' => release_wl f (set_cell h i (Live rc' o)) wl'
        end
      | _ => UAF
      end
    end
  end.

Definition release (h : heap) (i : id) : res heap := release_wl (S (sum_rc h)) h [i].
Definition release_v (h : heap) (v : value) : res heap := match v with VRef i => release h i | VNon => Ok h end.
Definition release_list (h : heap) (l : list id) : res heap := release_wl (S (sum_rc h)) h l.

(* allocation: fresh id = number of cells so far, ref_count = 1 *)
Definition alloc (h : heap) (o : obj) : heap * id :=
  (Heap (cells h ++ [Live 1 o]) (intern h), length (cells h)).

(* vm_string_new: intern hit -> ref_count++ and share; miss -> allocate and enter into the table *)
Definition str_new (h : heap) (key : nat) : res (heap * id) :=
  match intern_find (intern h) key with
  | Some i => bind (retain h i) (fun h' => Ok (h', i))
  | None => let i := length (cells h) in
            Ok (Heap (cells h ++ [Live 1 (Obj (KStr key) [])]) ((key, i) :: intern h), i)
  end.

Definition kind_is_str (k : kind) : bool := match k with KStr _ => true | _ => false end.
Definition kind_eqb (a b : kind) : bool :=
  match a, b with
  | KStr _, KStr _ => true | KArr, KArr => true | KStruct, KStruct => true | KUnion, KUnion => true
  | KTuple, KTuple => true | KClos, KClos => true | KMap, KMap => true | _, _ => false
  end.
(* NanoValueTag of the object kinds (isa.h), for the trace comparison *)
Definition kind_tag (k : kind) : nat :=
  match k with KStr _ => 5 | KArr => 7 | KStruct => 8 | KUnion => 10 | KTuple => 12 | KClos => 11 | KMap => 13 end.
