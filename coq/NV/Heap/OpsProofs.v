(* C14 -- every micro-op preserves the invariant, never touches freed memory under it, and - unless it forgets a
   reference - preserves each object's excess  ref_count - in-degree  exactly. *)
From Coq Require Import List Arith Bool ZArith Lia.
From NV Require Import Heap.Heap Heap.Ops Heap.Refcount Heap.HeapProofs.
Import ListNotations.
Arguments cnt : simpl never.
Arguments refs : simpl never.

Definition excess_le (m m' : mstate) : Prop :=
  forall x, rcof (hp m) x + indeg m' x <= rcof (hp m') x + indeg m x.
Definition excess_eq (m m' : mstate) : Prop :=
  forall x, rcof (hp m) x + indeg m' x = rcof (hp m') x + indeg m x.

Lemma excess_eq_le : forall m m', excess_eq m m' -> excess_le m m'.
Proof. intros m m' H x. specialize (H x). lia. Qed.

Lemma indeg_unfold : forall m x,
  indeg m x = cnt x (refs (stack m)) + cnt x (refs (globals m)) + cnt x (frame_refs (frames m))
              + cnt x (refs (regs m)) + cnt x (heap_refs (hp m)).
Proof. intros. unfold indeg, roots. rewrite !cnt_app. lia. Qed.

Lemma Inv_indeg : forall m, Inv m -> forall x, indeg m x <= rcof (hp m) x.
Proof. intros m [_ P] x. specialize (P x). unfold indeg. rewrite cnt_nil in P. lia. Qed.

Lemma Inv_of_excess : forall m m', Inv m -> heap_wf (hp m') -> excess_le m m' -> Inv m'.
Proof.
  intros m m' I W E. split; auto. intros x. rewrite cnt_nil.
  pose proof (Inv_indeg m I x). specialize (E x). unfold indeg in *. lia.
Qed.
Lemma ExactInv_of_excess : forall m m', ExactInv m -> heap_wf (hp m') -> excess_eq m m' -> ExactInv m'.
Proof.
  intros m m' [_ P] W E. split; auto. intros x. rewrite cnt_nil.
  specialize (P x). specialize (E x). rewrite cnt_nil in P. unfold indeg in *. lia.
Qed.
Lemma ExactInv_Inv : forall m, ExactInv m -> Inv m.
Proof. intros m [W P]. split; auto. intros x. specialize (P x). lia. Qed.

Lemma cnt_vref_ref : forall x i, cnt x (vref (VRef i)) = cnt x [i].
Proof. reflexivity. Qed.
Lemma cnt_vref_non : forall x, cnt x (vref VNon) = 0.
Proof. reflexivity. Qed.

Lemma live_of_root : forall m i, Inv m -> 1 <= indeg m i -> 1 <= rcof (hp m) i.
Proof. intros. pose proof (Inv_indeg m H i). lia. Qed.

(* what one micro-op guarantees *)
Definition uop_spec (u : uop) (m : mstate) : Prop :=
  run_uop u m = Stuck \/
  exists m', run_uop u m = Ok m' /\ heap_wf (hp m') /\ excess_le m m' /\
             (uop_leaks u m = false -> excess_eq m m') /\ freed_mono (hp m) (hp m').

Ltac ok_eq m' := right; exists m'; split; [reflexivity|]; split; [try assumption|]; split; [apply excess_eq_le|intros _]; [| |split].
Ltac iu := rewrite !indeg_unfold; cbn [stack globals frames regs hp set_stack set_regs set_hp].
Ltac cn := rewrite ?refs_app, ?cnt_app, ?cnt_refs_cons, ?refs_nil, ?refs_repeat_non, ?cnt_nil, ?cnt_vref_non, ?cnt_vref_ref in *.

(* a state that differs only in its roots, with the same multiset of root references *)
Lemma same_heap_spec : forall u m m', run_uop u m = Ok m' -> hp m' = hp m -> Inv m ->
  (forall x, cnt x (roots m') = cnt x (roots m)) -> uop_spec u m.
Proof.
  intros u m m' R H I C. right. exists m'. split; auto. rewrite H. destruct I as [W _].
  split; auto.
  assert (E: excess_eq m m'). { intros x. unfold indeg. rewrite H, C. lia. }
  split. apply excess_eq_le; auto. split; auto. apply freed_mono_refl.
Qed.

Lemma roots_cnt : forall m x, cnt x (roots m) =
  cnt x (refs (stack m)) + cnt x (refs (globals m)) + cnt x (frame_refs (frames m)) + cnt x (refs (regs m)).
Proof. intros. unfold roots. rewrite !cnt_app. lia. Qed.

Lemma spec_pop : forall m, Inv m -> uop_spec UPop m.
Proof.
  intros m I. destruct (stack m) eqn:Hs.
  - eapply same_heap_spec; [simpl; rewrite Hs; reflexivity|reflexivity|auto|].
    intros x. rewrite !roots_cnt. cbn [stack globals frames regs set_regs]. rewrite Hs. cn. lia.
  - eapply same_heap_spec; [simpl; rewrite Hs; reflexivity|reflexivity|auto|].
    intros x. rewrite !roots_cnt. cbn [stack globals frames regs]. rewrite Hs. cn. lia.
Qed.

Lemma spec_push : forall m, Inv m -> uop_spec UPush m.
Proof.
  intros m I. destruct (regs m) eqn:Hs.
  - left. simpl. rewrite Hs. reflexivity.
  - eapply same_heap_spec; [simpl; rewrite Hs; reflexivity|reflexivity|auto|].
    intros x. rewrite !roots_cnt. cbn [stack globals frames regs]. rewrite Hs. cn. lia.
Qed.

Lemma spec_pushnon : forall m, Inv m -> uop_spec UPushNon m.
Proof.
  intros m I. eapply same_heap_spec; [reflexivity|reflexivity|auto|].
  intros x. rewrite !roots_cnt. cbn [stack globals frames regs set_stack]. cn. lia.
Qed.

Lemma spec_drop : forall m, Inv m -> uop_spec UDrop m.
Proof.
  intros m I. destruct (regs m) eqn:Hs.
  - left. simpl. rewrite Hs. reflexivity.
  - right. exists (set_regs m l). split. simpl. rewrite Hs. reflexivity.
    destruct I as [W P]. split; auto.
    split. { intros x. iu. rewrite Hs. cn. lia. }
    split. { simpl. rewrite Hs. destruct v; try discriminate. intros _ x. iu. rewrite Hs. cn. lia. }
    apply freed_mono_refl.
Qed.

Lemma rot_cnt : forall l k r x, rot l k = Some r -> cnt x (refs r) = cnt x (refs l).
Proof.
  unfold rot. intros l k r x H. destruct (nth_error l k) eqn:E; try discriminate. inversion H; subst.
  pose proof (nth_error_some_lt _ _ _ _ E).
  rewrite (cnt_refs_remove_at x l k H0). rewrite (nth_error_nth _ _ VNon E). cn. lia.
Qed.

Lemma spec_rot : forall k m, Inv m -> uop_spec (URot k) m.
Proof.
  intros k m I. destruct (rot (regs m) k) eqn:Hs.
  - eapply same_heap_spec; [simpl; rewrite Hs; reflexivity|reflexivity|auto|].
    intros x. rewrite !roots_cnt. cbn [stack globals frames regs set_regs]. rewrite (rot_cnt _ _ _ x Hs). lia.
  - left. simpl. rewrite Hs. reflexivity.
Qed.

Lemma spec_swap : forall m, Inv m -> uop_spec USwap m.
Proof.
  intros m I. destruct (stack m) as [|a [|b s]] eqn:Hs;
  (eapply same_heap_spec; [simpl; rewrite Hs; reflexivity|reflexivity|auto|]); auto.
  intros x. rewrite !roots_cnt. cbn [stack globals frames regs set_stack]. rewrite Hs. cn. lia.
Qed.
Lemma spec_rot3 : forall m, Inv m -> uop_spec URot3 m.
Proof.
  intros m I. destruct (stack m) as [|a [|b [|c s]]] eqn:Hs;
  (eapply same_heap_spec; [simpl; rewrite Hs; reflexivity|reflexivity|auto|]); auto.
  intros x. rewrite !roots_cnt. cbn [stack globals frames regs set_stack]. rewrite Hs. cn. lia.
Qed.

Lemma spec_swapabs : forall a m, Inv m -> uop_spec (USwapAbs a) m.
Proof.
  intros a m I. destruct (regs m) eqn:Hs.
  - left. simpl. rewrite Hs. reflexivity.
  - destruct (a <? length (stack m)) eqn:L.
    + apply Nat.ltb_lt in L.
      eapply same_heap_spec; [simpl; rewrite Hs, (proj2 (Nat.ltb_lt _ _) L); reflexivity|reflexivity|auto|].
      intros x. rewrite !roots_cnt. cbn [stack globals frames regs]. rewrite Hs.
      assert (P: length (stack m) - 1 - a < length (stack m)) by lia.
      pose proof (cnt_refs_upd x (stack m) _ v P). cn. lia.
    + left. simpl. rewrite Hs, L. reflexivity.
Qed.

Lemma refs_pad : forall l n, refs (pad l n) = refs l.
Proof. intros. unfold pad. rewrite refs_app, refs_repeat_non, app_nil_r. reflexivity. Qed.
Lemma pad_length : forall l n, n <= length (pad l n).
Proof. intros. unfold pad. rewrite app_length, repeat_length. lia. Qed.

Lemma spec_swapglobal : forall g m, Inv m -> uop_spec (USwapGlobal g) m.
Proof.
  intros g m I. destruct (regs m) eqn:Hs.
  - left. simpl. rewrite Hs. reflexivity.
  - eapply same_heap_spec; [simpl; rewrite Hs; reflexivity|reflexivity|auto|].
    intros x. rewrite !roots_cnt. cbn [stack globals frames regs]. rewrite Hs.
    pose proof (pad_length (globals m) (S g)).
    assert (P: g < length (pad (globals m) (S g))) by lia.
    pose proof (cnt_refs_upd x _ _ v P). rewrite refs_pad in H0. cn. lia.
Qed.

Lemma frame_refs_cons : forall f fs, frame_refs (f :: fs) = match fclos f with Some c => [c] | None => [] end ++ frame_refs fs.
Proof. reflexivity. Qed.
Arguments frame_refs : simpl never.

Lemma spec_enter : forall n m, Inv m -> uop_spec (UEnter n) m.
Proof.
  intros n m I. eapply same_heap_spec; [reflexivity|reflexivity|auto|].
  intros x. rewrite !roots_cnt. cbn [stack globals frames regs]. rewrite frame_refs_cons. cbn [fclos]. cn. lia.
Qed.

Lemma spec_call : forall a n w m, Inv m -> uop_spec (UCall a n w) m.
Proof.
  intros a n w m I. destruct (a <=? length (stack m)) eqn:L; [|left; simpl; rewrite L; reflexivity].
  destruct w.
  - destruct (regs m) as [|[c|] r] eqn:Hs; try (left; simpl; rewrite L, Hs; reflexivity).
    eapply same_heap_spec; [simpl; rewrite L, Hs; reflexivity|reflexivity|auto|].
    intros x. rewrite !roots_cnt. cbn [stack globals frames regs]. rewrite frame_refs_cons. cbn [fclos]. rewrite Hs. cn. lia.
  - eapply same_heap_spec; [simpl; rewrite L; reflexivity|reflexivity|auto|].
    intros x. rewrite !roots_cnt. cbn [stack globals frames regs]. rewrite frame_refs_cons. cbn [fclos]. cn. lia.
Qed.

(* ------------------------------------------------------------------ dup + retain of a value that is among the roots *)
Lemma dup_root_spec : forall u m v,
  Inv m -> (forall x, cnt x (vref v) <= cnt x (roots m)) ->
  run_uop u m = bind (retain_v (hp m) v) (fun h => Ok (M (stack m) (globals m) (frames m) (v :: regs m) h)) ->
  uop_leaks u m = false -> uop_spec u m.
Proof.
  intros u m v I C R NL. destruct v as [i|].
  - assert (L: 1 <= rcof (hp m) i).
    { apply live_of_root; auto. unfold indeg. specialize (C i). rewrite cnt_vref_ref, cnt_one_eq in C. lia. }
    destruct I as [W P].
    destruct (retain_ok _ _ W L) as [h' [Rt [W' [C1 [C2 [Mo _]]]]]].
    right. exists (M (stack m) (globals m) (frames m) (VRef i :: regs m) h').
    split. { rewrite R. simpl. rewrite Rt. reflexivity. }
    split; auto.
    assert (E: excess_eq m (M (stack m) (globals m) (frames m) (VRef i :: regs m) h')).
    { intros x. iu. rewrite C1, C2. cn. lia. }
    split. apply excess_eq_le; auto. split; auto.
  - right. exists (M (stack m) (globals m) (frames m) (VNon :: regs m) (hp m)).
    split. { rewrite R. reflexivity. }
    destruct I as [W P]. split; auto.
    assert (E: excess_eq m (M (stack m) (globals m) (frames m) (VNon :: regs m) (hp m))).
    { intros x. iu. cn. lia. }
    split. apply excess_eq_le; auto. split; auto. apply freed_mono_refl.
Qed.

Lemma spec_dupstack : forall off m, Inv m -> uop_spec (UDupStack off) m.
Proof.
  intros off m I. eapply dup_root_spec with (v := nth off (stack m) VNon); auto.
  intros x. rewrite roots_cnt. pose proof (cnt_refs_nth_le x (stack m) off). lia.
Qed.
Lemma spec_dupabs : forall a m, Inv m -> uop_spec (UDupAbs a) m.
Proof.
  intros a m I. destruct (a <? length (stack m)) eqn:L; [|left; simpl; rewrite L; reflexivity].
  eapply dup_root_spec with (v := nth (length (stack m) - 1 - a) (stack m) VNon); auto.
  - intros x. rewrite roots_cnt. pose proof (cnt_refs_nth_le x (stack m) (length (stack m) - 1 - a)). lia.
  - simpl. rewrite L. reflexivity.
Qed.
Lemma spec_dupglobal : forall g m, Inv m -> uop_spec (UDupGlobal g) m.
Proof.
  intros g m I. eapply dup_root_spec with (v := nth g (globals m) VNon); auto.
  intros x. rewrite roots_cnt. pose proof (cnt_refs_nth_le x (globals m) g). lia.
Qed.
Lemma spec_dupreg : forall k m, Inv m -> uop_spec (UDupReg k) m.
Proof.
  intros k m I. destruct (nth_error (regs m) k) eqn:E; [|left; simpl; rewrite E; reflexivity].
  eapply dup_root_spec with (v := v); auto.
  - intros x. rewrite roots_cnt. pose proof (cnt_refs_nth_le x (regs m) k). rewrite (nth_error_nth _ _ VNon E) in H. lia.
  - simpl. rewrite E. reflexivity.
Qed.

(* ------------------------------------------------------------------ release *)
Lemma spec_release : forall m, Inv m -> uop_spec URelease m.
Proof.
  intros m I. destruct (regs m) as [|v r] eqn:Hs; [left; simpl; rewrite Hs; reflexivity|].
  destruct v as [i|].
  - destruct I as [W P].
    set (m1 := M (stack m) (globals m) (frames m) r (hp m)).
    assert (P1: PInv (hp m) (roots m1) [i]).
    { intros x. specialize (P x). rewrite !roots_cnt in *. unfold m1. cbn [stack globals frames regs] in *. rewrite Hs in P. cn. lia. }
    destruct (release_list_ok _ _ _ W P1) as [h' [Rl [W' [C Mo]]]].
    right. exists (M (stack m) (globals m) (frames m) r h').
    split. { simpl. rewrite Hs. simpl. unfold release. unfold release_list in Rl. rewrite Rl. reflexivity. }
    split; auto.
    assert (E: excess_eq m (M (stack m) (globals m) (frames m) r h')).
    { intros x. iu. rewrite Hs. specialize (C x). cn. lia. }
    split. apply excess_eq_le; auto. split; auto.
  - right. exists (M (stack m) (globals m) (frames m) r (hp m)).
    split. { simpl. rewrite Hs. reflexivity. }
    destruct I as [W P]. split; auto.
    assert (E: excess_eq m (M (stack m) (globals m) (frames m) r (hp m))).
    { intros x. iu. rewrite Hs. cn. lia. }
    split. apply excess_eq_le; auto. split; auto. apply freed_mono_refl.
Qed.

(* ------------------------------------------------------------------ allocation *)
Lemma spec_alloc : forall k n m, Inv m -> uop_spec (UAlloc k n) m.
Proof.
  intros k n m I. destruct ((n <=? length (regs m)) && negb (kind_is_str k)) eqn:C; [|left; simpl; rewrite C; reflexivity].
  apply andb_true_iff in C. destruct C as [C1 C2]. apply negb_true_iff in C2.
  destruct I as [W P].
  destruct (alloc (hp m) (Obj k (firstn n (regs m)))) as [h' i] eqn:A.
  destruct (alloc_ok _ (Obj k (firstn n (regs m))) _ _ W C2 A) as [W' [Ei [R1 [R2 Mo]]]].
  right. exists (M (stack m) (globals m) (frames m) (VRef i :: skipn n (regs m)) h').
  split. { unfold run_uop. rewrite C1, C2. cbn [andb negb]. rewrite A. reflexivity. }
  split; auto.
  assert (E: excess_eq m (M (stack m) (globals m) (frames m) (VRef i :: skipn n (regs m)) h')).
  { intros x. iu. rewrite R1, R2. cbn [ovals]. pose proof (cnt_refs_firstn_skipn x n (regs m)). cn. lia. }
  split. apply excess_eq_le; auto. split; auto.
Qed.

Lemma spec_strnew : forall key m, Inv m -> uop_spec (UStrNew key) m.
Proof.
  intros key m [W P]. destruct (str_new_ok _ key W) as [h' [i [Sn [W' [R1 [R2 Mo]]]]]].
  right. exists (M (stack m) (globals m) (frames m) (VRef i :: regs m) h').
  split. { simpl. rewrite Sn. reflexivity. }
  split; auto.
  assert (E: excess_eq m (M (stack m) (globals m) (frames m) (VRef i :: regs m) h')).
  { intros x. iu. rewrite R1, R2. cn. lia. }
  split. apply excess_eq_le; auto. split; auto.
Qed.

(* ------------------------------------------------------------------ containers *)
Lemma root_live : forall m c, Inv m -> 1 <= cnt c (roots m) ->
  exists rc o, get (hp m) c = Some (Live rc o).
Proof.
  intros m c I H. assert (L: 1 <= rcof (hp m) c). { apply live_of_root; auto. unfold indeg. lia. }
  destruct (rcof_pos_live _ _ L) as [rc [o [G _]]]. eauto.
Qed.

(* field_dup on a live container *)
Lemma field_dup_ok : forall m c j, Inv m -> 1 <= cnt c (roots m) ->
  exists h' v, field_dup (hp m) c j = Ok (h', v) /\ heap_wf h' /\
    (forall x, rcof h' x = rcof (hp m) x + cnt x (vref v)) /\
    (forall x, cnt x (heap_refs h') = cnt x (heap_refs (hp m))) /\ freed_mono (hp m) h'.
Proof.
  intros m c j I H. destruct (root_live _ _ I H) as [rc [o G]].
  unfold field_dup. rewrite G. set (v := nth j (ovals o) VNon).
  destruct v as [i|] eqn:V.
  - assert (L: 1 <= rcof (hp m) i).
    { apply live_of_root; auto. unfold indeg.
      pose proof (cell_refs_le_heap i _ _ _ G). simpl in H0.
      pose proof (cnt_refs_nth_le i (ovals o) j). fold v in H1. rewrite V, cnt_vref_ref, cnt_one_eq in H1. lia. }
    destruct I as [W P]. destruct (retain_ok _ _ W L) as [h' [Rt [W' [C1 [C2 [Mo _]]]]]].
    exists h', (VRef i). simpl. rewrite Rt. simpl. split; auto.
  - destruct I as [W P]. exists (hp m), VNon. simpl. split; auto. split; auto.
    split. intros; rewrite cnt_vref_non; lia. split; auto. apply freed_mono_refl.
Qed.

Lemma spec_fielddup : forall j m, Inv m -> uop_spec (UFieldDup j) m.
Proof.
  intros j m I. destruct (regs m) as [|[c|] r] eqn:Hs; try (left; simpl; rewrite Hs; reflexivity).
  assert (H: 1 <= cnt c (roots m)). { rewrite roots_cnt, Hs. cn. rewrite cnt_one_eq. lia. }
  destruct (field_dup_ok m c j I H) as [h' [v [F [W' [R1 [R2 Mo]]]]]].
  right. exists (M (stack m) (globals m) (frames m) (v :: VRef c :: r) h').
  split. { simpl. rewrite Hs, F. reflexivity. }
  split; auto.
  assert (E: excess_eq m (M (stack m) (globals m) (frames m) (v :: VRef c :: r) h')).
  { intros x. iu. rewrite Hs, R1, R2. cn. lia. }
  split. apply excess_eq_le; auto. split; auto.
Qed.

Lemma spec_dupupvalue : forall j m, Inv m -> uop_spec (UDupUpvalue j) m.
Proof.
  intros j m I. destruct (cur_clos m) as [c|] eqn:Hc; [|left; simpl; rewrite Hc; reflexivity].
  assert (H: 1 <= cnt c (roots m)).
  { rewrite roots_cnt. unfold cur_clos in Hc. destruct (frames m) as [|f fs]; try discriminate.
    rewrite frame_refs_cons, Hc. cn. rewrite cnt_one_eq. lia. }
  destruct (field_dup_ok m c j I H) as [h' [v [F [W' [R1 [R2 Mo]]]]]].
  right. exists (M (stack m) (globals m) (frames m) (v :: regs m) h').
  split. { simpl. rewrite Hc, F. reflexivity. }
  split; auto.
  assert (E: excess_eq m (M (stack m) (globals m) (frames m) (v :: regs m) h')).
  { intros x. iu. rewrite R1, R2. cn. lia. }
  split. apply excess_eq_le; auto. split; auto.
Qed.

Lemma field_swap_ok : forall m c j v, Inv m -> 1 <= cnt c (roots m) ->
  field_swap (hp m) c j v = Stuck \/
  exists h' old, field_swap (hp m) c j v = Ok (h', old) /\ heap_wf h' /\
    (forall x, rcof h' x = rcof (hp m) x) /\
    (forall x, cnt x (heap_refs h') + cnt x (vref old) = cnt x (heap_refs (hp m)) + cnt x (vref v)) /\
    freed_mono (hp m) h'.
Proof.
  intros m c j v I H. destruct (root_live _ _ I H) as [rc [[k vs] G]].
  unfold field_swap. rewrite G.
  destruct ((j <? length vs) && negb (kind_is_str k)) eqn:C; [|left; reflexivity].
  apply andb_true_iff in C. destruct C as [C1 C2]. apply negb_true_iff in C2. apply Nat.ltb_lt in C1.
  destruct I as [W P].
  destruct (set_vals_ok (hp m) c rc k vs (upd vs j v) W G C2) as [W' [R1 [R2 Mo]]].
  right. eexists. exists (nth j vs VNon). split. reflexivity. split; auto. split; auto. split; auto.
  intros x. specialize (R2 x). pose proof (cnt_refs_upd x vs j v C1). lia.
Qed.

Lemma spec_fieldswap : forall j m, Inv m -> uop_spec (UFieldSwap j) m.
Proof.
  intros j m I. destruct (regs m) as [|v [|[c|] r]] eqn:Hs; try (left; simpl; rewrite Hs; reflexivity).
  assert (H: 1 <= cnt c (roots m)). { rewrite roots_cnt, Hs. cn. rewrite cnt_one_eq. lia. }
  destruct (field_swap_ok m c j v I H) as [F|[h' [old [F [W' [R1 [R2 Mo]]]]]]].
  - left. simpl. rewrite Hs, F. reflexivity.
  - right. exists (M (stack m) (globals m) (frames m) (old :: VRef c :: r) h').
    split. { simpl. rewrite Hs, F. reflexivity. }
    split; auto.
    assert (E: excess_eq m (M (stack m) (globals m) (frames m) (old :: VRef c :: r) h')).
    { intros x. iu. rewrite Hs, R1. specialize (R2 x). cn. lia. }
    split. apply excess_eq_le; auto. split; auto.
Qed.

Lemma spec_swapupvalue : forall j m, Inv m -> uop_spec (USwapUpvalue j) m.
Proof.
  intros j m I. destruct (cur_clos m) as [c|] eqn:Hc; [|left; simpl; rewrite Hc; reflexivity].
  destruct (regs m) as [|v r] eqn:Hs; [left; simpl; rewrite Hc, Hs; reflexivity|].
  assert (H: 1 <= cnt c (roots m)).
  { rewrite roots_cnt. unfold cur_clos in Hc. destruct (frames m) as [|f fs]; try discriminate.
    rewrite frame_refs_cons, Hc. cn. rewrite cnt_one_eq. lia. }
  destruct (field_swap_ok m c j v I H) as [F|[h' [old [F [W' [R1 [R2 Mo]]]]]]].
  - left. simpl. rewrite Hc, Hs, F. reflexivity.
  - right. exists (M (stack m) (globals m) (frames m) (old :: r) h').
    split. { simpl. rewrite Hc, Hs, F. reflexivity. }
    split; auto.
    assert (E: excess_eq m (M (stack m) (globals m) (frames m) (old :: r) h')).
    { intros x. iu. rewrite Hs, R1. specialize (R2 x). cn. lia. }
    split. apply excess_eq_le; auto. split; auto.
Qed.

(* a micro-op that rewrites the slots of the live container in regs with a new list of values *)
Lemma spec_append : forall m, Inv m -> uop_spec UAppend m.
Proof.
  intros m I. destruct (regs m) as [|v [|[c|] r]] eqn:Hs; try (left; simpl; rewrite Hs; reflexivity).
  assert (H: 1 <= cnt c (roots m)). { rewrite roots_cnt, Hs. cn. rewrite cnt_one_eq. lia. }
  destruct (root_live _ _ I H) as [rc [[k vs] G]].
  destruct (kind_is_str k) eqn:K; [left; simpl; rewrite Hs, G, K; reflexivity|].
  destruct I as [W P].
  destruct (set_vals_ok (hp m) c rc k vs (vs ++ [v]) W G K) as [W' [R1 [R2 Mo]]].
  right. eexists. split. { simpl. rewrite Hs, G, K. reflexivity. }
  split; auto.
  match goal with |- excess_le m ?m' /\ _ => assert (E: excess_eq m m') end.
  { intros x. iu. rewrite Hs, R1. specialize (R2 x). cn. lia. }
  split. apply excess_eq_le; auto. split; auto.
Qed.

Lemma spec_poplast : forall m, Inv m -> uop_spec UPopLast m.
Proof.
  intros m I. destruct (regs m) as [|[c|] r] eqn:Hs; try (left; simpl; rewrite Hs; reflexivity).
  assert (H: 1 <= cnt c (roots m)). { rewrite roots_cnt, Hs. cn. rewrite cnt_one_eq. lia. }
  destruct (root_live _ _ I H) as [rc [[k vs] G]].
  destruct (kind_is_str k) eqn:K; [left; simpl; rewrite Hs, G, K; reflexivity|].
  destruct I as [W P].
  destruct (set_vals_ok (hp m) c rc k vs (removelast vs) W G K) as [W' [R1 [R2 Mo]]].
  right. eexists. split. { simpl. rewrite Hs, G, K. reflexivity. }
  split; auto.
  match goal with |- excess_le m ?m' /\ _ => assert (E: excess_eq m m') end.
  { intros x. iu. rewrite Hs, R1. specialize (R2 x).
    destruct vs as [|v0 vs0].
    - simpl in *. cn. lia.
    - assert (NE: v0 :: vs0 <> []) by discriminate.
      pose proof (cnt_refs_removelast x _ NE). cn. lia. }
  split. apply excess_eq_le; auto. split; auto.
Qed.

Lemma spec_removeat : forall j m, Inv m -> uop_spec (URemoveAt j) m.
Proof.
  intros j m I. destruct (regs m) as [|[c|] r] eqn:Hs; try (left; simpl; rewrite Hs; reflexivity).
  assert (H: 1 <= cnt c (roots m)). { rewrite roots_cnt, Hs. cn. rewrite cnt_one_eq. lia. }
  destruct (root_live _ _ I H) as [rc [[k vs] G]].
  destruct ((j <? length vs) && negb (kind_is_str k)) eqn:C; [|left; simpl; rewrite Hs, G, C; reflexivity].
  pose proof C as C0. apply andb_true_iff in C. destruct C as [C1 C2]. apply negb_true_iff in C2. apply Nat.ltb_lt in C1.
  destruct I as [W P].
  destruct (set_vals_ok (hp m) c rc k vs (remove_at vs j) W G C2) as [W' [R1 [R2 Mo]]].
  right. eexists. split. { simpl. rewrite Hs, G, C0. reflexivity. }
  split; auto.
  match goal with |- excess_le m ?m' /\ _ => assert (E: excess_eq m m') end.
  { intros x. iu. rewrite Hs, R1. specialize (R2 x). pose proof (cnt_refs_remove_at x vs j C1). cn. lia. }
  split. apply excess_eq_le; auto. split; auto.
Qed.

Lemma spec_slice : forall s e m, Inv m -> uop_spec (USlice s e) m.
Proof.
  intros s e m I. destruct (regs m) as [|[c|] r] eqn:Hs; try (left; simpl; rewrite Hs; reflexivity).
  assert (H: 1 <= cnt c (roots m)). { rewrite roots_cnt, Hs. cn. rewrite cnt_one_eq. lia. }
  destruct (root_live _ _ I H) as [rc [o G]].
  set (sub := firstn (e - s) (skipn s (ovals o))).
  assert (SL: forall x, cnt x (refs sub) <= cnt x (heap_refs (hp m))).
  { intros x. pose proof (cell_refs_le_heap x _ _ _ G). simpl in H0.
    pose proof (cnt_refs_firstn_le x (e - s) (skipn s (ovals o))). pose proof (cnt_refs_skipn_le x s (ovals o)).
    unfold sub. lia. }
  pose proof I as I0. destruct I as [W P].
  destruct (retain_all_ok (refs sub) (hp m) W) as [h1 [Ra [W1 [C1 [C2 Mo1]]]]].
  { intros x Hx. apply live_of_root; auto. unfold indeg. specialize (SL x). lia. }
  destruct (alloc h1 (Obj KArr sub)) as [h2 i] eqn:A.
  destruct (alloc_ok _ (Obj KArr sub) _ _ W1 eq_refl A) as [W2 [Ei [R1 [R2 Mo2]]]].
  right. exists (M (stack m) (globals m) (frames m) (VRef i :: VRef c :: r) h2).
  split. { unfold run_uop. rewrite Hs, G. fold sub. rewrite Ra. cbn [bind]. rewrite A. reflexivity. }
  split; auto.
  assert (E: excess_eq m (M (stack m) (globals m) (frames m) (VRef i :: VRef c :: r) h2)).
  { intros x. iu. rewrite Hs, R1, R2, C1, C2. cbn [ovals]. cn. lia. }
  split. apply excess_eq_le; auto. split; auto. eapply freed_mono_trans; eauto.
Qed.

(* ------------------------------------------------------------------ RET *)
Lemma spec_ret : forall m, Inv m -> uop_spec URet m.
Proof.
  intros m I. destruct (frames m) as [|f fs] eqn:Hf; [left; simpl; rewrite Hf; reflexivity|].
  set (hasres := fbase f + flocals f <? length (stack m)).
  set (result := if hasres then hd VNon (stack m) else VNon).
  set (st1 := if hasres then tl (stack m) else stack m).
  set (n := length st1 - fbase f).
  set (cl := match fclos f with Some c => [c] | None => [] end).
  assert (ST: forall x, cnt x (refs (stack m)) = cnt x (vref result) + cnt x (refs st1)).
  { intros x. unfold result, st1. destruct hasres.
    - destruct (stack m); simpl; cn; lia.
    - cn. lia. }
  destruct I as [W P].
  set (m1 := M (result :: skipn n st1) (globals m) fs (regs m) (hp m)).
  assert (P1: PInv (hp m) (roots m1) (refs (firstn n st1) ++ cl)).
  { intros x. specialize (P x). rewrite !roots_cnt in *. unfold m1. cbn [stack globals frames regs] in *.
    rewrite Hf, frame_refs_cons in P. fold cl in P. specialize (ST x). pose proof (cnt_refs_firstn_skipn x n st1). cn. lia. }
  destruct (release_list_ok _ _ _ W P1) as [h' [Rl [W' [C Mo]]]].
  right. exists (M (result :: skipn n st1) (globals m) fs (regs m) h').
  split. { simpl. rewrite Hf. fold hasres. fold result. fold st1. fold n. fold cl. rewrite Rl. reflexivity. }
  split; auto.
  assert (E: excess_eq m (M (result :: skipn n st1) (globals m) fs (regs m) h')).
  { intros x. iu. rewrite Hf, frame_refs_cons. fold cl. specialize (C x). specialize (ST x).
    pose proof (cnt_refs_firstn_skipn x n st1). cn. lia. }
  split. apply excess_eq_le; auto. split; auto.
Qed.

(* ------------------------------------------------------------------ all micro-ops *)
Theorem uop_ok : forall u m, Inv m -> uop_spec u m.
Proof.
  destruct u; intros.
  - apply spec_pop; auto. - apply spec_push; auto. - apply spec_pushnon; auto. - apply spec_drop; auto.
  - apply spec_rot; auto. - apply spec_dupreg; auto. - apply spec_release; auto.
  - apply spec_dupstack; auto. - apply spec_dupabs; auto. - apply spec_swapabs; auto.
  - apply spec_dupglobal; auto. - apply spec_swapglobal; auto. - apply spec_swap; auto. - apply spec_rot3; auto.
  - apply spec_alloc; auto. - apply spec_strnew; auto. - apply spec_fielddup; auto. - apply spec_fieldswap; auto.
  - apply spec_append; auto. - apply spec_poplast; auto. - apply spec_removeat; auto. - apply spec_slice; auto.
  - apply spec_dupupvalue; auto. - apply spec_swapupvalue; auto. - apply spec_call; auto. - apply spec_ret; auto.
  - apply spec_enter; auto.
Qed.
