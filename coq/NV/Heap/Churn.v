(* C14 -- executable checks over the generated table of real churn streams (NV.gen.ChurnC14).  Definitions only. *)
From Coq Require Import List Arith Bool.
From NV Require Import Heap.Heap Heap.Ops Heap.Refcount.
Import ListNotations.

(* model run of one logged stream: final live-object count, exactness of the final state, "no reference forgotten" *)
Definition stream_result (is : list instr) : option (nat * bool * bool) :=
  match run is init_state with
  | Some (Ok m) => Some (live_count (hp m), exact_b m && inv_b m && intern_b (hp m), negb (run_leaks is init_state))
  | _ => None
  end.

(* an exact family: every stream ends with the live-object count observed on the real VM, the final state is exact,
   nothing was forgotten, and the count does not depend on the iteration count *)
Definition exact_family_ok (rows : list (nat * list instr * nat)) : bool :=
  forallb (fun r => match r with (_, is, real) =>
             match stream_result is with Some (lc, ex, nl) => Nat.eqb lc real && ex && nl | None => false end end) rows &&
  match rows with
  | (_, _, real0) :: t => forallb (fun r => match r with (_, _, real) => Nat.eqb real real0 end) t
  | [] => true
  end.

(* a leaking family: the model agrees with the real VM on the final count, reports the forgotten references, and the
   count grows by at least one per additional iteration *)
Fixpoint grows (rows : list (nat * list instr * nat)) : bool :=
  match rows with
  | [] => true
  | r1 :: t =>
      match t with
      | [] => true
      | r2 :: _ => (fst (fst r1) <? fst (fst r2)) && (snd r1 + (fst (fst r2) - fst (fst r1)) <=? snd r2) && grows t
      end
  end.
Definition leaky_family_ok (rows : list (nat * list instr * nat)) : bool :=
  forallb (fun r => match r with (_, is, real) =>
             match stream_result is with Some (lc, ex, nl) => Nat.eqb lc real && negb ex && negb nl | None => false end end) rows &&
  grows rows.

Definition churn_table_ok (t : list (bool * list (nat * list instr * nat))) : bool :=
  forallb (fun f : bool * list (nat * list instr * nat) => if fst f then exact_family_ok (snd f) else leaky_family_ok (snd f)) t.
