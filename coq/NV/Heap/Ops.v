(* C14 -- ownership behaviour of the NanoVM opcodes (src/nanovm/vm.c), modelled as EXACTLY what vm.c does with
   vm_retain / vm_release, including where it forgets to release.  Definitions only (extracted).

   Machine: operand stack (top first; locals live in it, addressed from the bottom through the frame base),
   globals, call frames (base, local_count, closure pointer), the heap, and a REGISTER FILE [regs]: the NanoValue
   C locals of one opcode handler (a, b, v, arr, result ...).  Every opcode is a short program of micro-ops; the
   micro-ops are the only code that touches references:
       move      UPop UPush URot USwap URot3 USwapAbs USwapGlobal UFieldSwap UAppend UPopLast URemoveAt UAlloc UCall
       dup+retain UDupReg UDupStack UDupAbs UDupGlobal UFieldDup UDupUpvalue USlice UStrNew(intern hit)
       release   URelease URet
       forget    UDrop (a C local holding a reference goes out of scope without vm_release)
   Scalars are [VNon]; their values (indices, string contents) arrive as operands of [instr], taken from the
   decoded instruction stream of the real VM.

   Proof-driven reordering (documented, valid whenever the invariant holds): STORE_LOCAL/STORE_GLOBAL/ARR_SET/
   STRUCT_SET release the old slot value and then overwrite the slot; the model swaps the new value in and then
   releases the old one.  The container/slot is pinned by the popped reference, so the cascade cannot reach it. *)
From Coq Require Import List Arith Bool ZArith Lia.
From NV Require Import Heap.Heap.
Import ListNotations.

Record frame := Frame { fbase : nat; flocals : nat; fclos : option id }.
Record mstate := M { stack : list value; globals : list value; frames : list frame; regs : list value; hp : heap }.

Definition init_state : mstate := M [] [] [] [] empty_heap.

Definition set_stack (m : mstate) s := M s (globals m) (frames m) (regs m) (hp m).
Definition set_regs (m : mstate) r := M (stack m) (globals m) (frames m) r (hp m).
Definition set_hp (m : mstate) h := M (stack m) (globals m) (frames m) (regs m) h.

Definition pad (l : list value) (n : nat) : list value := l ++ repeat VNon (n - length l).
Definition remove_at {A} (l : list A) (j : nat) : list A := firstn j l ++ skipn (S j) l.
Definition rot {A} (l : list A) (k : nat) : option (list A) :=
  match nth_error l k with Some x => Some (x :: remove_at l k) | None => None end.

Fixpoint retain_all (h : heap) (l : list id) : res heap :=
  match l with [] => Ok h | i :: t => bind (retain h i) (fun h' => retain_all h' t) end.

Inductive uop :=
| UPop | UPush | UPushNon | UDrop | URot (k : nat)
| UDupReg (k : nat) | URelease
| UDupStack (off : nat) | UDupAbs (a : nat) | USwapAbs (a : nat)
| UDupGlobal (g : nat) | USwapGlobal (g : nat)
| USwap | URot3
| UAlloc (k : kind) (n : nat) | UStrNew (key : nat)
| UFieldDup (j : nat) | UFieldSwap (j : nat)
| UAppend | UPopLast | URemoveAt (j : nat) | USlice (s e : nat)
| UDupUpvalue (j : nat) | USwapUpvalue (j : nat)
| UCall (arity nloc : nat) (withclos : bool) | URet | UEnter (nloc : nat).

Definition cur_clos (m : mstate) : option id := match frames m with f :: _ => fclos f | [] => None end.

(* field read with retain through a pointer to container [c] *)
Definition field_dup (h : heap) (c : id) (j : nat) : res (heap * value) :=
  match get h c with
  | Some (Live _ o) => let v := nth j (ovals o) VNon in bind (retain_v h v) (fun h' => Ok (h', v))
  | _ => UAF
  end.
(* exchange field j of [c] with [v] (j in range) *)
Definition field_swap (h : heap) (c : id) (j : nat) (v : value) : res (heap * value) :=
  match get h c with
  | Some (Live rc (Obj k vs)) =>
      if (j <? length vs) && negb (kind_is_str k)
      then Ok (set_cell h c (Live rc (Obj k (upd vs j v))), nth j vs VNon)
      else Stuck
  | _ => UAF
  end.

Definition run_uop (u : uop) (m : mstate) : res mstate :=
  match u with
  | UPop => match stack m with
            | v :: s => Ok (M s (globals m) (frames m) (v :: regs m) (hp m))
            | [] => Ok (set_regs m (VNon :: regs m))              (* stack_pop on an empty stack yields void *)
            end
  | UPush => match regs m with
             | v :: r => Ok (M (v :: stack m) (globals m) (frames m) r (hp m))
             | [] => Stuck
             end
  | UPushNon => Ok (set_stack m (VNon :: stack m))
  | UDrop => match regs m with _ :: r => Ok (set_regs m r) | [] => Stuck end
  | URot k => match rot (regs m) k with Some r => Ok (set_regs m r) | None => Stuck end
  | UDupReg k => match nth_error (regs m) k with
                 | Some v => bind (retain_v (hp m) v) (fun h => Ok (M (stack m) (globals m) (frames m) (v :: regs m) h))
                 | None => Stuck
                 end
  | URelease => match regs m with
                | v :: r => bind (release_v (hp m) v) (fun h => Ok (M (stack m) (globals m) (frames m) r h))
                | [] => Stuck
                end
  | UDupStack off => let v := nth off (stack m) VNon in
                     bind (retain_v (hp m) v) (fun h => Ok (M (stack m) (globals m) (frames m) (v :: regs m) h))
  | UDupAbs a => if a <? length (stack m) then
                   let v := nth (length (stack m) - 1 - a) (stack m) VNon in
                   bind (retain_v (hp m) v) (fun h => Ok (M (stack m) (globals m) (frames m) (v :: regs m) h))
                 else Stuck
  | USwapAbs a => match regs m with
                  | v :: r => if a <? length (stack m) then
                                let p := length (stack m) - 1 - a in
                                Ok (M (upd (stack m) p v) (globals m) (frames m) (nth p (stack m) VNon :: r) (hp m))
                              else Stuck
                  | [] => Stuck
                  end
  | UDupGlobal g => let v := nth g (globals m) VNon in
                    bind (retain_v (hp m) v) (fun h => Ok (M (stack m) (globals m) (frames m) (v :: regs m) h))
  | USwapGlobal g => match regs m with
                     | v :: r => let gl := pad (globals m) (S g) in
                                 Ok (M (stack m) (upd gl g v) (frames m) (nth g gl VNon :: r) (hp m))
                     | [] => Stuck
                     end
  | USwap => match stack m with a :: b :: s => Ok (set_stack m (b :: a :: s)) | _ => Ok m end
  | URot3 => match stack m with a :: b :: c :: s => Ok (set_stack m (b :: c :: a :: s)) | _ => Ok m end
  | UAlloc k n => if (n <=? length (regs m)) && negb (kind_is_str k) then
                    let (h, i) := alloc (hp m) (Obj k (firstn n (regs m))) in
                    Ok (M (stack m) (globals m) (frames m) (VRef i :: skipn n (regs m)) h)
                  else Stuck
  | UStrNew key => bind (str_new (hp m) key) (fun hi => Ok (M (stack m) (globals m) (frames m) (VRef (snd hi) :: regs m) (fst hi)))
  | UFieldDup j => match regs m with
                   | VRef c :: r => bind (field_dup (hp m) c j) (fun hv =>
                                      Ok (M (stack m) (globals m) (frames m) (snd hv :: VRef c :: r) (fst hv)))
                   | _ => Stuck
                   end
  | UFieldSwap j => match regs m with
                    | v :: VRef c :: r => bind (field_swap (hp m) c j v) (fun hv =>
                                            Ok (M (stack m) (globals m) (frames m) (snd hv :: VRef c :: r) (fst hv)))
                    | _ => Stuck
                    end
  | UAppend => match regs m with
               | v :: VRef c :: r =>
                   match get (hp m) c with
                   | Some (Live rc (Obj k vs)) =>
                       if kind_is_str k then Stuck else
                       Ok (M (stack m) (globals m) (frames m) (VRef c :: r) (set_cell (hp m) c (Live rc (Obj k (vs ++ [v])))))
                   | _ => UAF
                   end
               | _ => Stuck
               end
  | UPopLast => match regs m with
                | VRef c :: r =>
                    match get (hp m) c with
                    | Some (Live rc (Obj k vs)) =>
                        if kind_is_str k then Stuck else
                        Ok (M (stack m) (globals m) (frames m) (last vs VNon :: VRef c :: r)
                              (set_cell (hp m) c (Live rc (Obj k (removelast vs)))))
                    | _ => UAF
                    end
                | _ => Stuck
                end
  | URemoveAt j => match regs m with
                   | VRef c :: r =>
                       match get (hp m) c with
                       | Some (Live rc (Obj k vs)) =>
                           if (j <? length vs) && negb (kind_is_str k) then
                             Ok (M (stack m) (globals m) (frames m) (nth j vs VNon :: VRef c :: r)
                                   (set_cell (hp m) c (Live rc (Obj k (remove_at vs j)))))
                           else Stuck
                       | _ => UAF
                       end
                   | _ => Stuck
                   end
  | USlice s e => match regs m with
                  | VRef c :: r =>
                      match get (hp m) c with
                      | Some (Live _ o) =>
                          let sub := firstn (e - s) (skipn s (ovals o)) in
                          bind (retain_all (hp m) (refs sub)) (fun h1 =>
                            let (h2, i) := alloc h1 (Obj KArr sub) in
                            Ok (M (stack m) (globals m) (frames m) (VRef i :: VRef c :: r) h2))
                      | _ => UAF
                      end
                  | _ => Stuck
                  end
  | UDupUpvalue j => match cur_clos m with
                     | Some c => bind (field_dup (hp m) c j) (fun hv =>
                                   Ok (M (stack m) (globals m) (frames m) (snd hv :: regs m) (fst hv)))
                     | None => Stuck
                     end
  | USwapUpvalue j => match cur_clos m, regs m with
                      | Some c, v :: r => bind (field_swap (hp m) c j v) (fun hv =>
                                            Ok (M (stack m) (globals m) (frames m) (snd hv :: r) (fst hv)))
                      | _, _ => Stuck
                      end
  | UCall arity nloc withclos =>
      if arity <=? length (stack m) then
        let fr c := Frame (length (stack m) - arity) nloc c in
        let st := repeat VNon (nloc - arity) ++ stack m in
        if withclos then
          match regs m with
          | VRef c :: r => Ok (M st (globals m) (fr (Some c) :: frames m) r (hp m))
          | _ => Stuck
          end
        else Ok (M st (globals m) (fr None :: frames m) (regs m) (hp m))
      else Stuck
  | UEnter nloc => Ok (M (repeat VNon nloc ++ stack m) (globals m) (Frame (length (stack m)) nloc None :: frames m) (regs m) (hp m))
  | URet => match frames m with
            | f :: fs =>
                let hasres := fbase f + flocals f <? length (stack m) in
                let result := if hasres then hd VNon (stack m) else VNon in
                let st1 := if hasres then tl (stack m) else stack m in
                let n := length st1 - fbase f in
                bind (release_list (hp m) (refs (firstn n st1) ++ match fclos f with Some c => [c] | None => [] end)) (fun h =>
                  Ok (M (result :: skipn n st1) (globals m) fs (regs m) h))
            | [] => Stuck
            end
  end.

(* does this micro-op forget a reference it owns (a leak in the C code)? *)
Definition uop_leaks (u : uop) (m : mstate) : bool :=
  match u with
  | UDrop => match regs m with VRef _ :: _ => true | _ => false end
  | _ => false
  end.

Fixpoint run_uops (us : list uop) (m : mstate) : res mstate :=
  match us with [] => Ok m | u :: r => bind (run_uop u m) (run_uops r) end.

Fixpoint leaks_uops (us : list uop) (m : mstate) : bool :=
  match us with
  | [] => false
  | u :: r => uop_leaks u m || match run_uop u m with Ok m' => leaks_uops r m' | _ => false end
  end.

(* ---------------------------------------------------------------------------------------------- opcodes *)
Inductive instr :=
| IEnter (nloc : nat)                       (* vm_call_function from the harness: frame at the top of the stack *)
| INop                                      (* NOP JMP DEBUG_LINE GC_SCOPE_* MATCH_TAG HALT *)
| IPushNon                                  (* PUSH_I64/F64/BOOL/VOID/U8 ENUM_VAL OPAQUE_NULL *)
| IPushStr (key : nat)
| IDup | IPop | ISwap | IRot3
| ILoadLocal (i : nat) | IStoreLocal (i : nat)
| ILoadGlobal (g : nat) | IStoreGlobal (g : nat)
| ILoadUpvalue (j : nat) | IStoreUpvalue (j : nat)
| IAdd (key : nat)
| IArith2                                   (* SUB MUL DIV MOD: operands are NOT released *)
| IPopDrop (n : nat) (push : bool)          (* NEG OPAQUE_VALID: pop n, no release *)
| IPopRelease (n : nat) (push : bool)       (* EQ..GE AND OR NOT JMP_TRUE/FALSE STR_LEN STR_CONTAINS STR_EQ ARR_LEN UNION_TAG
                                               CAST_INT/FLOAT/BOOL TYPE_CHECK GC_RELEASE PRINT PRINTLN ASSERT *)
| IGcRetain
| IStrConcat (key : nat) | IStrSubstr (key : nat) | IStrCharAt | IStrFromScalar (key : nat) | ICastString (key : nat)
| IArrNew | IArrPush | IArrPop | IArrGet (idx : Z) | IArrSet (idx : Z) | IArrSlice (s : Z) (e : option Z)
| IArrRemove (idx : Z) | IArrLiteral (n : nat)
| IStructNew | IStructGet (j : nat) | IStructSet (j : nat) | IStructLiteral (n : nat)
| IUnionConstruct (n : nat) | IUnionField (j : nat) | ITupleNew (n : nat) | ITupleGet (j : nat)
| IClosureNew (n : nat)
| ICall (arity nloc : nat)
| ICallIndirect (arity nloc : nat) (ok : bool)      (* ok = callee index in range *)
| IClosureCall (arity nloc : nat) (ok : bool)
| IRet
| ICallExtern (argc : nat) (rkey : option nat).      (* result: interned string with that content, or a scalar *)

Definition kind_of (m : mstate) (v : value) : option kind :=
  match v with
  | VRef i => match get (hp m) i with Some (Live _ o) => Some (okind o) | _ => None end
  | VNon => None
  end.
Definition has_kind (m : mstate) (v : value) (k : kind) : bool :=
  match kind_of m v with Some k' => kind_eqb k k' | None => false end.
Definition is_str (m : mstate) (v : value) : bool := has_kind m v (KStr 0).
Definition vals_len (m : mstate) (v : value) : nat :=
  match v with
  | VRef i => match get (hp m) i with Some (Live _ o) => length (ovals o) | _ => 0 end
  | VNon => 0
  end.
Definition peek (m : mstate) (off : nat) : value := nth off (stack m) VNon.
Definition is_non (v : value) : bool := match v with VNon => true | VRef _ => false end.

Definition two32 : Z := 4294967296%Z.
(* OP_ARR_GET / ARR_SET / ARR_REMOVE: idx64 = (idx_v.tag == TAG_INT ? idx_v.as.i64 : 0) is range-checked as a 64-bit value
   BEFORE it is narrowed: idx64 < 0 || idx64 >= length  ->  the operands are released and the opcode traps *)
Definition idx_in (idx : Z) (len : nat) : option nat :=
  if Z.leb 0 idx && Z.ltb idx (Z.of_nat len) then Some (Z.to_nat idx) else None.
(* ARR_SLICE still narrows to uint32 and clamps (vm_array_slice) *)
Definition clamp32 (z : Z) (len : nat) : nat :=
  let i := Z.modulo z two32 in if Z.ltb i (Z.of_nat len) then Z.to_nat i else len.

Definition pops (n : nat) : list uop := repeat UPop n.
Definition pop_drop (n : nat) : list uop := flat_map (fun _ => [UPop; UDrop]) (repeat tt n).
Definition container_get (m : mstate) (k : kind) (j : nat) : list uop :=
  (* pop c; wrong kind or field out of range -> release c, trap; else retain field, release c, push field *)
  if has_kind m (peek m 0) k && (j <? vals_len m (peek m 0))
  then [UPop; UFieldDup j; URot 1; URelease; UPush]
  else [UPop; URelease].

(* micro-code of one opcode in state m (None: outside the modelled fragment) *)
Definition ucode (i : instr) (m : mstate) : option (list uop) :=
  match i with
  | IEnter nloc => Some [UEnter nloc]
  | INop => Some []
  | IPushNon => Some [UPushNon]
  | IPushStr key => Some [UStrNew key; UPush]
  | IDup => Some [UDupStack 0; UPush]
  | IPop => Some [UPop; URelease]
  | ISwap => Some [USwap]
  | IRot3 => Some [URot3]
  | ILoadLocal i =>
      match frames m with
      | f :: _ => let a := fbase f + i in
                  if a <? length (stack m) then Some [UDupAbs a; UPush] else Some []      (* trap: local out of range *)
      | [] => None
      end
  | IStoreLocal i =>
      match frames m with
      | f :: _ => let a := fbase f + i in
                  if a <? length (stack m) then
                    (* the slot being the popped top itself: release(stack[abs]) releases v, the write lands above the top *)
                    if S a =? length (stack m) then Some [UPop; URelease] else Some [UPop; USwapAbs a; URelease]
                  else Some []
      | [] => None
      end
  | ILoadGlobal g => if g <? 4096 then Some [UDupGlobal g; UPush] else Some []
  | IStoreGlobal g => if g <? 4096 then Some [UPop; USwapGlobal g; URelease] else Some []
  | ILoadUpvalue j =>
      match cur_clos m with
      | Some c => if j <? vals_len m (VRef c) then Some [UDupUpvalue j; UPush] else Some [UPushNon]
      | None => Some [UPushNon]
      end
  | IStoreUpvalue j =>
      match cur_clos m with
      | Some c => if j <? vals_len m (VRef c) then Some [UPop; USwapUpvalue j; URelease] else Some [UPop; URelease]
      | None => Some [UPop; URelease]
      end
  | IAdd key =>
      let b := peek m 0 in let a := peek m 1 in
      if is_str m a && is_str m b then Some [UPop; UPop; UStrNew key; URot 1; URelease; URot 1; URelease; UPush]
      else if is_non a && is_non b then Some [UPop; UDrop; UPop; UDrop; UPushNon]
      else if has_kind m a KArr || has_kind m b KArr then None       (* element-wise array arithmetic: not modelled *)
      else Some [UPop; UPop; URelease; URelease]                      (* type error: both released, trap *)
  | IArith2 =>
      let b := peek m 0 in let a := peek m 1 in
      if is_non a && is_non b then Some [UPop; UDrop; UPop; UDrop; UPushNon]
      else if has_kind m a KArr || has_kind m b KArr then None
      else Some [UPop; UDrop; UPop; UDrop]                            (* type error: trap WITHOUT release *)
  | IPopDrop n push => Some (pop_drop n ++ (if push then [UPushNon] else []))
  | IPopRelease n push => Some (pops n ++ repeat URelease n ++ (if push then [UPushNon] else []))
  | IGcRetain => Some [UDupStack 0; UDrop]
  | IStrConcat key =>
      let b := peek m 0 in let a := peek m 1 in
      if is_str m a && is_str m b then Some [UPop; UPop; UStrNew key; URot 1; URelease; URot 1; URelease; UPush]
      else Some [UPop; UPop; URelease; URelease]
  | IStrSubstr key =>
      if is_str m (peek m 2) then Some [UPop; UDrop; UPop; UDrop; UPop; UStrNew key; URot 1; URelease; UPush]
      else Some [UPop; UDrop; UPop; UDrop; UPop; URelease]
  | IStrCharAt =>
      if is_str m (peek m 1) then Some [UPop; UDrop; UPop; URelease; UPushNon] else Some [UPop; UDrop; UPop; URelease]
  | IStrFromScalar key => Some [UPop; UDrop; UStrNew key; UPush]
  | ICastString key =>
      let v := peek m 0 in
      if is_str m v then Some []
      else if is_non v then Some [UPop; UDrop; UStrNew key; UPush]
      else Some [UPop; URelease; UStrNew key; UPush]
  | IArrNew => Some [UAlloc KArr 0; UPush]
  | IArrPush =>
      if has_kind m (peek m 1) KArr
      then Some [UPop; UPop; UDupReg 1; UAppend; URot 1; URelease; UPush]     (* vm_array_push retains, then the opcode releases v *)
      else Some [UPop; UPop; URelease; URelease]
  | IArrPop =>
      (* not an array, or an empty array: the popped value is released and the opcode traps *)
      if has_kind m (peek m 0) KArr && (0 <? vals_len m (peek m 0)) then Some [UPop; UPopLast; UPush; UPush] else Some [UPop; URelease]
  | IArrGet idx =>
      let arr := peek m 1 in
      if has_kind m arr KArr then
        match idx_in idx (vals_len m arr) with
        | Some j => Some [UPop; UDrop; UPop; UFieldDup j; URot 1; URelease; UPush]
        | None => Some [UPop; UDrop; UPop; URelease]                         (* out of range: array released, trap *)
        end
      else Some [UPop; UDrop; UPop; URelease]
  | IArrSet idx =>
      let arr := peek m 2 in
      if has_kind m arr KArr then
        match idx_in idx (vals_len m arr) with
        | Some j => Some [UPop; UPop; UDrop; UPop; URot 1; UFieldSwap j; URelease; UPush]
        | None => Some [UPop; UPop; UDrop; UPop; URelease; URelease]          (* out of range: array and value released, trap *)
        end
      else Some [UPop; UPop; UDrop; UPop; URelease; URelease]
  | IArrSlice s e =>
      let arr := peek m 2 in
      if has_kind m arr KArr then
        let len := vals_len m arr in
        let s' := clamp32 s len in
        let e' := match e with Some z => clamp32 z len | None => len end in
        Some [UPop; UDrop; UPop; UDrop; UPop; USlice s' e'; URot 1; URelease; UPush]
      else Some [UPop; UDrop; UPop; UDrop; UPop; URelease]
  | IArrRemove idx =>
      let arr := peek m 1 in
      if has_kind m arr KArr then
        match idx_in idx (vals_len m arr) with
        | Some j => Some [UPop; UDrop; UPop; URemoveAt j; URelease; UPush]     (* the removed element is released *)
        | None => Some [UPop; UDrop; UPop; URelease]                         (* out of range: array released, trap *)
        end
      else Some [UPop; UDrop; UPop; URelease]
  | IArrLiteral n => Some (pops n ++ [UAlloc KArr n; UPush])
  | IStructNew => Some [UAlloc KStruct 0; UPush]
  | IStructGet j => Some (container_get m KStruct j)
  | IStructSet j =>
      let sv := peek m 1 in
      if has_kind m sv KStruct && (j <? vals_len m sv)
      then Some [UPop; UPop; URot 1; UFieldSwap j; URelease; UPush]
      else Some [UPop; UPop; URelease; URelease]
  | IStructLiteral n => Some (pops n ++ [UAlloc KStruct n; UPush])
  | IUnionConstruct n => Some (pops n ++ [UAlloc KUnion n; UPush])
  | IUnionField j => Some (container_get m KUnion j)
  | ITupleNew n => Some (pops n ++ [UAlloc KTuple n; UPush])
  | ITupleGet j => Some (container_get m KTuple j)
  | IClosureNew n => if n <? 32768 then Some (pops n ++ [UAlloc KClos n; UPush]) else None
  | ICall arity nloc => if arity <=? length (stack m) then Some [UCall arity nloc false] else None
  | ICallIndirect arity nloc ok =>
      if has_kind m (peek m 0) KClos then
        if ok then (if arity <? length (stack m) then Some [UPop; UCall arity nloc true] else None)
        else Some [UPop; UDrop]
      else if is_non (peek m 0) then Some [UPop; UDrop] else None
  | IClosureCall arity nloc ok =>
      if has_kind m (peek m 0) KClos then
        if ok then (if arity <? length (stack m) then Some [UPop; UCall arity nloc true] else None)
        else Some [UPop; UDrop]
      else if is_non (peek m 0) then Some [UPop; URelease] else None
  | IRet => Some [URet]
  | ICallExtern argc rkey =>
      Some (pops argc ++ match rkey with
                          | Some key => [UStrNew key] ++ flat_map (fun _ => [URot 1; URelease]) (repeat tt argc) ++ [UPush]
                          | None => repeat URelease argc ++ [UPushNon] end)
  end.

Definition step (i : instr) (m : mstate) : option (res mstate) :=
  match ucode i m with Some us => Some (run_uops us m) | None => None end.
Definition step_leaks (i : instr) (m : mstate) : bool :=
  match ucode i m with Some us => leaks_uops us m | None => false end.

(* does the opcode end the run with trap_error (after the micro-ops above)?  Only the conditions the model can see:
   operand kinds, index ranges, local/global/field ranges, callee validity.  Type errors between scalars, failed
   assertions and the instruction budget are invisible to it (answer false). *)
Definition traps (i : instr) (m : mstate) : bool :=
  match i with
  | ILoadLocal i | IStoreLocal i =>
      match frames m with f :: _ => negb (fbase f + i <? length (stack m)) | [] => false end
  | ILoadGlobal g | IStoreGlobal g => negb (g <? 4096)
  | IAdd _ =>
      let b := peek m 0 in let a := peek m 1 in
      negb (is_str m a && is_str m b) && negb (is_non a && is_non b) && negb (has_kind m a KArr || has_kind m b KArr)
  | IArith2 =>
      let b := peek m 0 in let a := peek m 1 in
      negb (is_non a && is_non b) && negb (has_kind m a KArr || has_kind m b KArr)
  | IStrConcat _ => negb (is_str m (peek m 1) && is_str m (peek m 0))
  | IStrSubstr _ => negb (is_str m (peek m 2))
  | IStrCharAt => negb (is_str m (peek m 1))
  | IArrPush => negb (has_kind m (peek m 1) KArr)
  | IArrPop => negb (has_kind m (peek m 0) KArr && (0 <? vals_len m (peek m 0)))
  | IArrGet idx | IArrRemove idx =>
      negb (has_kind m (peek m 1) KArr) || match idx_in idx (vals_len m (peek m 1)) with Some _ => false | None => true end
  | IArrSet idx =>
      negb (has_kind m (peek m 2) KArr) || match idx_in idx (vals_len m (peek m 2)) with Some _ => false | None => true end
  | IArrSlice _ _ => negb (has_kind m (peek m 2) KArr)
  | IStructGet j => negb (has_kind m (peek m 0) KStruct && (j <? vals_len m (peek m 0)))
  | IUnionField j => negb (has_kind m (peek m 0) KUnion && (j <? vals_len m (peek m 0)))
  | ITupleGet j => negb (has_kind m (peek m 0) KTuple && (j <? vals_len m (peek m 0)))
  | IStructSet j => negb (has_kind m (peek m 1) KStruct && (j <? vals_len m (peek m 1)))
  | ICallIndirect _ _ ok | IClosureCall _ _ ok => negb (has_kind m (peek m 0) KClos && ok)
  | _ => false
  end.

(* a run: fold of step over an instruction stream; a trapping opcode is terminal: its micro-ops are carried out, the
   rest of the stream is not executed (None = left the modelled fragment) *)
Fixpoint run (is : list instr) (m : mstate) : option (res mstate) :=
  match is with
  | [] => Some (Ok m)
  | i :: r => match step i m with
              | Some (Ok m') => if traps i m then Some (Ok m') else run r m'
              | other => other
              end
  end.

(* did the C code forget a reference somewhere along the run? *)
Fixpoint run_leaks (is : list instr) (m : mstate) : bool :=
  match is with
  | [] => false
  | i :: r => step_leaks i m ||
              match step i m with Some (Ok m') => if traps i m then false else run_leaks r m' | _ => false end
  end.

(* opcodes whose handler in vm.c has no path that forgets a reference, whatever the operand values and types:
   their micro-code contains neither UDrop nor URet *)
Definition static_exact (i : instr) : bool :=
  match i with
  | IEnter _ | INop | IPushNon | IPushStr _ | IDup | IPop | ISwap | IRot3
  | ILoadLocal _ | IStoreLocal _ | ILoadGlobal _ | IStoreGlobal _ | ILoadUpvalue _ | IStoreUpvalue _
  | IPopRelease _ _ | IStrConcat _
  | IArrNew | IArrPush | IArrPop | IArrLiteral _
  | IStructNew | IStructGet _ | IStructSet _ | IStructLiteral _
  | IUnionConstruct _ | IUnionField _ | ITupleNew _ | ITupleGet _ | IClosureNew _ | ICall _ _ | IRet => true
  | _ => false
  end.
Definition no_forget (u : uop) : bool := match u with UDrop => false | _ => true end.
