(* C14 -- lemmas about the heap model: counting, cell update, retain, allocation, interning and the release
   worklist with its pending-multiset invariant (release_wl_ok). *)
From Coq Require Import List Arith Bool Lia.
From NV Require Import Heap.Heap Heap.Ops Heap.Refcount.
Import ListNotations.

Arguments cnt : simpl never.
Arguments refs : simpl never.

(* ------------------------------------------------------------------ counting *)
Lemma cnt_app : forall x a b, cnt x (a ++ b) = cnt x a + cnt x b.
Proof. intros. unfold cnt. apply count_occ_app. Qed.
Lemma cnt_nil : forall x, cnt x [] = 0.
Proof. reflexivity. Qed.
Ltac clia := rewrite ?cnt_nil in *; lia.
Lemma cnt_cons : forall x y l, cnt x (y :: l) = cnt x [y] + cnt x l.
Proof. intros. change (y :: l) with ([y] ++ l). apply cnt_app. Qed.
Lemma cnt_one_eq : forall x, cnt x [x] = 1.
Proof. intros. unfold cnt. simpl. destruct (Nat.eq_dec x x); congruence. Qed.
Lemma cnt_one_neq : forall x y, x <> y -> cnt x [y] = 0.
Proof. intros. unfold cnt. simpl. destruct (Nat.eq_dec y x); congruence. Qed.
Lemma cnt_one_le : forall x y, cnt x [y] <= 1.
Proof. intros. destruct (Nat.eq_dec x y). subst. rewrite cnt_one_eq. lia. rewrite cnt_one_neq by auto. lia. Qed.
Lemma cnt_in : forall x l, In x l -> 1 <= cnt x l.
Proof. intros. unfold cnt. apply (count_occ_In Nat.eq_dec) in H. lia. Qed.
Lemma cnt_pos_in : forall x l, 1 <= cnt x l -> In x l.
Proof. intros. unfold cnt in H. apply (count_occ_In Nat.eq_dec). lia. Qed.

Lemma refs_app : forall a b, refs (a ++ b) = refs a ++ refs b.
Proof. intros. unfold refs. apply flat_map_app. Qed.
Lemma refs_cons : forall v l, refs (v :: l) = vref v ++ refs l.
Proof. reflexivity. Qed.
Lemma refs_nil : refs [] = [].
Proof. reflexivity. Qed.
Lemma refs_repeat_non : forall n, refs (repeat VNon n) = [].
Proof. induction n; simpl; auto. Qed.
Lemma cnt_refs_cons : forall x v l, cnt x (refs (v :: l)) = cnt x (vref v) + cnt x (refs l).
Proof. intros. rewrite refs_cons, cnt_app. reflexivity. Qed.

(* ------------------------------------------------------------------ upd *)
Lemma upd_length : forall A (l : list A) i x, length (upd l i x) = length l.
Proof. induction l; destruct i; simpl; auto. Qed.
Lemma nth_error_upd_same : forall A (l : list A) i x, i < length l -> nth_error (upd l i x) i = Some x.
Proof. induction l; destruct i; simpl; intros; try lia; auto. apply IHl. lia. Qed.
Lemma nth_error_upd_other : forall A (l : list A) i j x, i <> j -> nth_error (upd l i x) j = nth_error l j.
Proof. induction l; destruct i; destruct j; simpl; intros; auto; try congruence. Qed.
Lemma nth_error_some_lt : forall A (l : list A) i c, nth_error l i = Some c -> i < length l.
Proof. intros. apply nth_error_Some. congruence. Qed.

Lemma cnt_flat_map_upd : forall A (f : A -> list id) x (l : list A) i c c',
  nth_error l i = Some c ->
  cnt x (flat_map f (upd l i c')) + cnt x (f c) = cnt x (flat_map f l) + cnt x (f c').
Proof.
  induction l; destruct i; simpl; intros; try discriminate.
  - inversion H; subst. rewrite !cnt_app. lia.
  - rewrite !cnt_app. specialize (IHl _ _ c' H). lia.
Qed.

Lemma cnt_refs_upd : forall x l p v, p < length l ->
  cnt x (refs (upd l p v)) + cnt x (vref (nth p l VNon)) = cnt x (refs l) + cnt x (vref v).
Proof.
  intros. destruct (nth_error l p) eqn:E.
  - unfold refs. rewrite (nth_error_nth _ _ VNon E). apply cnt_flat_map_upd. exact E.
  - apply nth_error_None in E. lia.
Qed.

Lemma cnt_refs_nth_le : forall x l p, cnt x (vref (nth p l VNon)) <= cnt x (refs l).
Proof.
  induction l; destruct p; cbn [nth]; try (unfold cnt; simpl; lia).
  - rewrite cnt_refs_cons. lia.
  - rewrite cnt_refs_cons. specialize (IHl p). lia.
Qed.

Lemma cnt_refs_firstn_skipn : forall x n l, cnt x (refs l) = cnt x (refs (firstn n l)) + cnt x (refs (skipn n l)).
Proof. intros. rewrite <- (firstn_skipn n l) at 1. rewrite refs_app, cnt_app. reflexivity. Qed.

Lemma cnt_refs_firstn_le : forall x n l, cnt x (refs (firstn n l)) <= cnt x (refs l).
Proof. intros. rewrite (cnt_refs_firstn_skipn x n l). lia. Qed.
Lemma cnt_refs_skipn_le : forall x n l, cnt x (refs (skipn n l)) <= cnt x (refs l).
Proof. intros. rewrite (cnt_refs_firstn_skipn x n l). lia. Qed.

Lemma cnt_refs_removelast : forall x l, l <> [] ->
  cnt x (refs l) = cnt x (refs (removelast l)) + cnt x (vref (last l VNon)).
Proof.
  intros. rewrite (app_removelast_last VNon H) at 1. rewrite refs_app, cnt_app, refs_cons, refs_nil, app_nil_r. reflexivity.
Qed.

Lemma cnt_refs_remove_at : forall x l j, j < length l ->
  cnt x (refs l) = cnt x (refs (remove_at l j)) + cnt x (vref (nth j l VNon)).
Proof.
  intros x l j H. unfold remove_at.
  rewrite (cnt_refs_firstn_skipn x j l) at 1. rewrite refs_app, cnt_app.
  assert (E: skipn j l = nth j l VNon :: skipn (S j) l).
  { revert j H. induction l; destruct j; simpl; intros; try lia; auto. apply IHl. lia. }
  rewrite E. rewrite cnt_refs_cons. lia.
Qed.

(* ------------------------------------------------------------------ cells *)
Lemma get_set_same : forall h i c, i < length (cells h) -> get (set_cell h i c) i = Some c.
Proof. intros. unfold get, set_cell. simpl. apply nth_error_upd_same. auto. Qed.
Lemma get_set_other : forall h i j c, i <> j -> get (set_cell h i c) j = get h j.
Proof. intros. unfold get, set_cell. simpl. apply nth_error_upd_other. auto. Qed.
Lemma get_lt : forall h i c, get h i = Some c -> i < length (cells h).
Proof. unfold get. intros. eapply nth_error_some_lt; eauto. Qed.

Lemma rcof_set_same : forall h i c c0, get h i = Some c0 -> rcof (set_cell h i c) i = cell_rc c.
Proof. intros. unfold rcof. rewrite get_set_same by (eapply get_lt; eauto). destruct c; reflexivity. Qed.
Lemma rcof_set_other : forall h i j c, i <> j -> rcof (set_cell h i c) j = rcof h j.
Proof. intros. unfold rcof. rewrite get_set_other by auto. reflexivity. Qed.
Lemma rcof_get : forall h i c, get h i = Some c -> rcof h i = cell_rc c.
Proof. intros. unfold rcof. rewrite H. destruct c; reflexivity. Qed.
Lemma rcof_pos_live : forall h i, 1 <= rcof h i -> exists rc o, get h i = Some (Live rc o) /\ rc = rcof h i.
Proof.
  intros. unfold rcof in *. destruct (get h i) as [[rc o|]|]; try lia. eauto.
Qed.

Lemma heap_refs_set : forall x h i c c', get h i = Some c ->
  cnt x (heap_refs (set_cell h i c')) + cnt x (cell_refs c) = cnt x (heap_refs h) + cnt x (cell_refs c').
Proof. intros. unfold heap_refs, set_cell. simpl. apply cnt_flat_map_upd. exact H. Qed.

Lemma cell_refs_le_heap : forall x h i c, get h i = Some c -> cnt x (cell_refs c) <= cnt x (heap_refs h).
Proof.
  unfold get, heap_refs. intros x h. generalize (cells h). induction l; destruct i; simpl; intros; try discriminate.
  - inversion H; subst. rewrite cnt_app. lia.
  - rewrite cnt_app. specialize (IHl _ _ H). lia.
Qed.

Lemma sum_rc_set : forall h i c c', get h i = Some c ->
  sum_rc (set_cell h i c') + cell_rc c = sum_rc h + cell_rc c'.
Proof.
  unfold get, sum_rc, set_cell. simpl. intros h. generalize (cells h).
  induction l; destruct i; simpl; intros; try discriminate.
  - inversion H; subst. lia.
  - specialize (IHl _ _ c' H). lia.
Qed.

Lemma rcof_le_sum : forall h i, rcof h i <= sum_rc h.
Proof.
  unfold rcof, get, sum_rc. intros h. generalize (cells h).
  induction l; destruct i; simpl; try lia.
  - destruct a; simpl; lia.
  - specialize (IHl i). destruct (nth_error l i) as [[|]|]; simpl in *; lia.
Qed.

(* freed cells stay freed, the heap never shrinks: ids are never reused *)
Definition freed_mono (h h' : heap) : Prop :=
  length (cells h) <= length (cells h') /\ forall x, get h x = Some Freed -> get h' x = Some Freed.
Lemma freed_mono_refl : forall h, freed_mono h h.
Proof. split; auto. Qed.
Lemma freed_mono_trans : forall a b c, freed_mono a b -> freed_mono b c -> freed_mono a c.
Proof. unfold freed_mono. intros a b c [L1 F1] [L2 F2]. split. lia. auto. Qed.
Lemma freed_mono_set_live : forall h i rc o c, get h i = Some (Live rc o) -> freed_mono h (set_cell h i c).
Proof.
  intros. split. unfold set_cell; simpl. rewrite upd_length. lia.
  intros x Hx. destruct (Nat.eq_dec i x). subst. congruence. rewrite get_set_other; auto.
Qed.

(* ------------------------------------------------------------------ intern table *)
Lemma heap_wf_set_rc : forall h i rc rc' o, heap_wf h -> get h i = Some (Live rc o) -> 1 <= rc' ->
  heap_wf (set_cell h i (Live rc' o)).
Proof.
  intros h i rc rc' o [ND [W Pz]] G L. split; [|split]; simpl; auto.
  - intros k j Hin. destruct (W k j Hin) as [r Hr].
    destruct (Nat.eq_dec i j).
    + subst. rewrite get_set_same by (eapply get_lt; eauto). rewrite G in Hr. inversion Hr; subst. eauto.
    + rewrite get_set_other by auto. eauto.
  - intros x r o0 Hx. destruct (Nat.eq_dec i x).
    + subst. rewrite get_set_same in Hx by (eapply get_lt; eauto). inversion Hx; subst. auto.
    + rewrite get_set_other in Hx by auto. eauto.
Qed.

Lemma heap_wf_set_vals : forall h i rc k vs vs', heap_wf h -> get h i = Some (Live rc (Obj k vs)) ->
  kind_is_str k = false -> heap_wf (set_cell h i (Live rc (Obj k vs'))).
Proof.
  intros h i rc k vs vs' [ND [W Pz]] G K. split; [|split]; simpl; auto.
  - intros k0 j Hin. destruct (W k0 j Hin) as [r Hr].
    destruct (Nat.eq_dec i j).
    + subst. rewrite G in Hr. inversion Hr; subst. discriminate.
    + rewrite get_set_other by auto. eauto.
  - intros x r o0 Hx. destruct (Nat.eq_dec i x).
    + subst. rewrite get_set_same in Hx by (eapply get_lt; eauto). inversion Hx; subst. eauto.
    + rewrite get_set_other in Hx by auto. eauto.
Qed.

Lemma intern_remove_in : forall t i k j, In (k, j) (intern_remove t i) -> In (k, j) t.
Proof.
  induction t as [|[k0 j0] t]; simpl; intros; auto.
  destruct (Nat.eqb j0 i). right; auto. destruct H. left; auto. right. eapply IHt; eauto.
Qed.
Lemma intern_remove_nodup : forall t i, NoDup (map snd t) -> NoDup (map snd (intern_remove t i)).
Proof.
  induction t as [|[k0 j0] t]; simpl; intros; auto.
  inversion H; subst. destruct (Nat.eqb j0 i); auto. simpl. constructor; auto.
  intro Hin. apply H2. apply in_map_iff in Hin. destruct Hin as [[k j] [E Hin]]. simpl in E. subst.
  apply in_map_iff. exists (k, j0). split; auto. eapply intern_remove_in; eauto.
Qed.
Lemma intern_remove_not_in : forall t i k, NoDup (map snd t) -> ~ In (k, i) (intern_remove t i).
Proof.
  induction t as [|[k0 j0] t]; simpl; intros; auto.
  inversion H; subst. destruct (Nat.eqb j0 i) eqn:E.
  - apply Nat.eqb_eq in E. subst. intro Hin. apply H2. apply in_map_iff. exists (k, i). auto.
  - apply Nat.eqb_neq in E. intros [Hc|Hc]. inversion Hc; congruence. eapply IHt; eauto.
Qed.

Lemma heap_wf_free : forall h i o, heap_wf h -> get h i = Some (Live 1 o) -> heap_wf (free_cell h i o).
Proof.
  intros h i o [ND [W Pz]] G. unfold free_cell. split; [|split]; simpl.
  - destruct (okind o); auto. apply intern_remove_nodup; auto.
  - intros k j Hin.
    assert (Hin0: In (k, j) (intern h)). { destruct (okind o); auto. eapply intern_remove_in; eauto. }
    destruct (W k j Hin0) as [r Hr].
    assert (j <> i).
    { intro; subst j. rewrite G in Hr. inversion Hr; subst. simpl in Hin. eapply intern_remove_not_in; eauto. }
    exists r. unfold get in *. simpl. rewrite nth_error_upd_other; auto.
  - intros x r o0 Hx. unfold get in Hx. simpl in Hx. destruct (Nat.eq_dec i x).
    + subst. rewrite nth_error_upd_same in Hx by (eapply get_lt; eauto). discriminate.
    + rewrite nth_error_upd_other in Hx by auto. eapply Pz; eauto.
Qed.

Lemma intern_find_in : forall t key i, intern_find t key = Some i -> In (key, i) t.
Proof.
  induction t as [|[k j] t]; simpl; intros; try discriminate.
  destruct (Nat.eqb k key) eqn:E. apply Nat.eqb_eq in E. inversion H; subst. auto. auto.
Qed.

(* ------------------------------------------------------------------ retain *)
Lemma retain_ok : forall h i, heap_wf h -> 1 <= rcof h i ->
  exists h', retain h i = Ok h' /\ heap_wf h' /\
    (forall x, rcof h' x = rcof h x + cnt x [i]) /\
    (forall x, cnt x (heap_refs h') = cnt x (heap_refs h)) /\
    freed_mono h h' /\ length (cells h') = length (cells h).
Proof.
  intros h i W L. destruct (rcof_pos_live _ _ L) as [rc [o [G E]]].
  unfold retain. rewrite G. eexists. split. reflexivity.
  split. eapply heap_wf_set_rc; eauto; lia.
  split. { intros x. destruct (Nat.eq_dec x i).
           - subst x. rewrite (rcof_set_same _ _ _ _ G). rewrite cnt_one_eq. simpl. lia.
           - rewrite rcof_set_other by auto. rewrite cnt_one_neq by auto. lia. }
  split. { intros x. pose proof (heap_refs_set x h i _ (Live (S rc) o) G). simpl in H. lia. }
  split. eapply freed_mono_set_live; eauto.
  unfold set_cell; simpl. apply upd_length.
Qed.

(* ------------------------------------------------------------------ allocation *)
Lemma get_alloc_old : forall h o x, x < length (cells h) -> get (fst (alloc h o)) x = get h x.
Proof. intros. unfold get, alloc. simpl. apply nth_error_app1. auto. Qed.
Lemma get_app_old : forall cs it c x, x < length cs -> get (Heap (cs ++ [c]) it) x = nth_error cs x.
Proof. intros. unfold get. simpl. apply nth_error_app1. auto. Qed.
Lemma get_app_new : forall cs it c, get (Heap (cs ++ [c]) it) (length cs) = Some c.
Proof. intros. unfold get. simpl. rewrite nth_error_app2 by lia. rewrite Nat.sub_diag. reflexivity. Qed.
Lemma get_beyond : forall h x, length (cells h) <= x -> get h x = None.
Proof. intros. unfold get. apply nth_error_None. auto. Qed.

Lemma rcof_app : forall h it rc o x,
  rcof (Heap (cells h ++ [Live rc o]) it) x = rcof h x + rc * cnt x [length (cells h)].
Proof.
  intros. unfold rcof. destruct (lt_dec x (length (cells h))).
  - rewrite get_app_old by auto. unfold get. rewrite cnt_one_neq by lia. lia.
  - destruct (Nat.eq_dec x (length (cells h))).
    + subst. rewrite get_app_new. unfold get.
      replace (nth_error (cells h) (length (cells h))) with (@None cell) by (symmetry; apply nth_error_None; lia).
      rewrite cnt_one_eq. lia.
    + unfold get. cbn [cells].
      replace (nth_error (cells h ++ [Live rc o]) x) with (@None cell)
        by (symmetry; apply nth_error_None; rewrite app_length; simpl; lia).
      replace (nth_error (cells h) x) with (@None cell) by (symmetry; apply nth_error_None; lia).
      rewrite cnt_one_neq by auto. lia.
Qed.

Lemma heap_refs_app : forall cs it c, heap_refs (Heap (cs ++ [c]) it) = flat_map cell_refs cs ++ cell_refs c.
Proof. intros. unfold heap_refs. simpl. rewrite flat_map_app. simpl. rewrite app_nil_r. reflexivity. Qed.

Lemma freed_mono_app : forall h c it, freed_mono h (Heap (cells h ++ [c]) it).
Proof.
  intros. split. simpl. rewrite app_length. lia.
  intros x Hx. pose proof (get_lt _ _ _ Hx). rewrite get_app_old by auto. exact Hx.
Qed.

Lemma alloc_ok : forall h o h' n, heap_wf h -> kind_is_str (okind o) = false -> alloc h o = (h', n) ->
  heap_wf h' /\ n = length (cells h) /\
  (forall x, rcof h' x = rcof h x + cnt x [n]) /\
  (forall x, cnt x (heap_refs h') = cnt x (heap_refs h) + cnt x (refs (ovals o))) /\
  freed_mono h h'.
Proof.
  intros h o h' n [ND [W Pz]] K A. unfold alloc in A. inversion A; subst; clear A.
  split. { split; [|split]; simpl; auto.
           - intros k i Hin. destruct (W k i Hin) as [r Hr]. exists r.
             rewrite get_app_old by (eapply get_lt; eauto). exact Hr.
           - intros x r o0 Hx. destruct (lt_dec x (length (cells h))).
             + rewrite get_app_old in Hx by auto. eapply Pz; eauto.
             + assert (x = length (cells h)).
               { apply get_lt in Hx. simpl in Hx. rewrite app_length in Hx. simpl in Hx. lia. }
               subst. rewrite get_app_new in Hx. inversion Hx; subst. lia. }
  split; auto.
  split. { intros x. rewrite rcof_app. lia. }
  split. { intros x. rewrite heap_refs_app, cnt_app. reflexivity. }
  apply freed_mono_app.
Qed.

Lemma str_new_ok : forall h key, heap_wf h ->
  exists h' i, str_new h key = Ok (h', i) /\ heap_wf h' /\
    (forall x, rcof h' x = rcof h x + cnt x [i]) /\
    (forall x, cnt x (heap_refs h') = cnt x (heap_refs h)) /\
    freed_mono h h'.
Proof.
  intros h key W. unfold str_new. destruct (intern_find (intern h) key) as [i|] eqn:F.
  - apply intern_find_in in F. pose proof W as W0. destruct W as [ND [Wf Pz]]. destruct (Wf _ _ F) as [rc G].
    unfold retain. rewrite G. simpl. eexists. exists i. split. reflexivity.
    split. eapply heap_wf_set_rc; eauto; lia.
    split. { intros x. destruct (Nat.eq_dec x i).
             - subst x. rewrite (rcof_set_same _ _ _ _ G). rewrite (rcof_get _ _ _ G). rewrite cnt_one_eq. simpl. lia.
             - rewrite rcof_set_other by auto. rewrite cnt_one_neq by auto. lia. }
    split. { intros x. pose proof (heap_refs_set x h i _ (Live (S rc) (Obj (KStr key) [])) G). simpl in H. lia. }
    eapply freed_mono_set_live; eauto.
  - destruct W as [ND [Wf Pz]]. eexists. exists (length (cells h)). split. reflexivity.
    split. { split; [|split]; simpl.
             - constructor; auto. intro Hin. apply in_map_iff in Hin. destruct Hin as [[k j] [E Hin]]. simpl in E. subst j.
               destruct (Wf _ _ Hin) as [r Hr]. apply get_lt in Hr. lia.
             - intros k i [E|Hin].
               + inversion E; subst. exists 1. apply get_app_new.
               + destruct (Wf _ _ Hin) as [r Hr]. exists r. rewrite get_app_old by (eapply get_lt; eauto). exact Hr.
             - intros x r o0 Hx. destruct (lt_dec x (length (cells h))).
               + rewrite get_app_old in Hx by auto. eapply Pz; eauto.
               + assert (x = length (cells h)).
                 { apply get_lt in Hx. simpl in Hx. rewrite app_length in Hx. simpl in Hx. lia. }
                 subst. rewrite get_app_new in Hx. inversion Hx; subst. lia. }
    split. { intros x. rewrite rcof_app. lia. }
    split. { intros x. rewrite heap_refs_app, cnt_app. unfold heap_refs. cbn [cell_refs ovals]. rewrite refs_nil, cnt_nil. lia. }
    apply freed_mono_app.
Qed.

(* ------------------------------------------------------------------ mutation of a container's slots *)
Lemma set_vals_ok : forall h c rc k vs vs', heap_wf h -> get h c = Some (Live rc (Obj k vs)) -> kind_is_str k = false ->
  let h' := set_cell h c (Live rc (Obj k vs')) in
  heap_wf h' /\ (forall x, rcof h' x = rcof h x) /\
  (forall x, cnt x (heap_refs h') + cnt x (refs vs) = cnt x (heap_refs h) + cnt x (refs vs')) /\
  freed_mono h h'.
Proof.
  intros. subst h'. split. eapply heap_wf_set_vals; eauto.
  split. { intros x. destruct (Nat.eq_dec c x). subst. rewrite (rcof_set_same _ _ _ _ H0). rewrite (rcof_get _ _ _ H0). reflexivity.
           rewrite rcof_set_other; auto. }
  split. { intros x. pose proof (heap_refs_set x h c _ (Live rc (Obj k vs')) H0). simpl in H2. lia. }
  eapply freed_mono_set_live; eauto.
Qed.

(* ------------------------------------------------------------------ the release worklist *)
(* Conservation form: whatever the pending requests remove from the counts is removed from the references.
   R is the multiset of references held outside the heap that are NOT being released. *)
Theorem release_wl_ok : forall fuel h R wl,
  heap_wf h -> PInv h R wl -> sum_rc h < fuel ->
  exists h', release_wl fuel h wl = Ok h' /\ heap_wf h' /\
    (forall x, rcof h' x + cnt x (heap_refs h) + cnt x wl = rcof h x + cnt x (heap_refs h')) /\
    freed_mono h h' /\ length (cells h') = length (cells h).
Proof.
  induction fuel; intros h R wl W P F. clia.
  destruct wl as [|i wl'].
  - simpl. exists h. split; auto. split; auto. split. intros; rewrite cnt_nil; clia. split. apply freed_mono_refl. auto.
  - simpl.
    assert (Hi: 1 <= rcof h i).
    { specialize (P i). rewrite (cnt_cons i i wl'), cnt_one_eq in P. clia. }
    destruct (rcof_pos_live _ _ Hi) as [rc [o [G E]]]. rewrite G.
    destruct rc as [|[|rc']]; try clia.
    + (* last reference: free, the object's own references become pending *)
      assert (Z: cnt i R = 0 /\ cnt i (heap_refs h) = 0 /\ cnt i wl' = 0).
      { specialize (P i). rewrite (cnt_cons i i wl'), cnt_one_eq in P. clia. }
      destruct Z as [ZR [ZH ZW]].
      set (h1 := free_cell h i o).
      assert (G1: forall x, x <> i -> get h1 x = get h x).
      { intros. unfold h1, free_cell, get. simpl. apply nth_error_upd_other. auto. }
      assert (Gi: get h1 i = Some Freed).
      { unfold h1, free_cell, get. simpl. apply nth_error_upd_same. eapply get_lt; eauto. }
      assert (HR: forall x, cnt x (heap_refs h1) + cnt x (refs (ovals o)) = cnt x (heap_refs h)).
      { intros x. pose proof (heap_refs_set x h i _ Freed G). simpl in H. unfold h1, free_cell, heap_refs in *. simpl in *. clia. }
      assert (R1: forall x, rcof h1 x + cnt x [i] = rcof h x).
      { intros x. destruct (Nat.eq_dec x i).
        - subst x. unfold rcof at 1. rewrite Gi. rewrite cnt_one_eq. clia.
        - unfold rcof. rewrite G1 by auto. rewrite cnt_one_neq by auto. clia. }
      assert (W1: heap_wf h1). { apply heap_wf_free; auto. }
      assert (P1: PInv h1 R (refs (ovals o) ++ wl')).
      { intros x. specialize (P x). specialize (HR x). specialize (R1 x). rewrite cnt_app.
        rewrite (cnt_cons x i wl') in P. clia. }
      assert (S1: sum_rc h1 < fuel).
      { pose proof (sum_rc_set h i _ Freed G). simpl in H. unfold h1, free_cell, sum_rc in *. simpl in *. clia. }
      destruct (IHfuel h1 R _ W1 P1 S1) as [h' [Hrun [W' [C' [M' L']]]]].
      exists h'. split. exact Hrun. split. exact W'.
      split. { intros x. specialize (C' x). specialize (HR x). specialize (R1 x).
               rewrite cnt_app in C'. rewrite (cnt_cons x i wl'). clia. }
      split. { eapply freed_mono_trans; [|exact M'].
               split. unfold h1, free_cell; simpl. rewrite upd_length. clia.
               intros x Hx. destruct (Nat.eq_dec x i). subst; congruence. rewrite G1; auto. }
      rewrite L'. unfold h1, free_cell; simpl. apply upd_length.
    + (* other owners remain: decrement *)
      set (h1 := set_cell h i (Live (S rc') o)).
      assert (HR: forall x, cnt x (heap_refs h1) = cnt x (heap_refs h)).
      { intros x. pose proof (heap_refs_set x h i _ (Live (S rc') o) G). simpl in H. unfold h1. clia. }
      assert (R1: forall x, rcof h1 x + cnt x [i] = rcof h x).
      { intros x. destruct (Nat.eq_dec x i).
        - subst x. unfold h1. rewrite (rcof_set_same _ _ _ _ G). rewrite (rcof_get _ _ _ G). rewrite cnt_one_eq. simpl. clia.
        - unfold h1. rewrite rcof_set_other by auto. rewrite cnt_one_neq by auto. clia. }
      assert (W1: heap_wf h1). { eapply heap_wf_set_rc; eauto; lia. }
      assert (P1: PInv h1 R wl').
      { intros x. specialize (P x). specialize (HR x). specialize (R1 x). rewrite (cnt_cons x i wl') in P. clia. }
      assert (S1: sum_rc h1 < fuel).
      { pose proof (sum_rc_set h i _ (Live (S rc') o) G). simpl in H. unfold h1. clia. }
      destruct (IHfuel h1 R _ W1 P1 S1) as [h' [Hrun [W' [C' [M' L']]]]].
      exists h'. split. exact Hrun. split. exact W'.
      split. { intros x. specialize (C' x). specialize (HR x). specialize (R1 x). rewrite (cnt_cons x i wl'). clia. }
      split. { eapply freed_mono_trans; [|exact M']. eapply freed_mono_set_live; eauto. }
      rewrite L'. unfold h1, set_cell; simpl. apply upd_length.
Qed.

(* the statement of DESIGN Appendix A.2 *)
Corollary release_ok : forall fuel h R wl,
  heap_wf h -> PInv h R wl -> sum_rc h < fuel ->
  exists h', release_wl fuel h wl = Ok h' /\ heap_wf h' /\ PInv h' R [].
Proof.
  intros. destruct (release_wl_ok fuel h R wl H H0 H1) as [h' [Hr [W [C _]]]].
  exists h'. split; auto. split; auto. intros x. specialize (C x). specialize (H0 x). rewrite cnt_nil. clia.
Qed.
Corollary release_exact : forall fuel h R wl,
  heap_wf h -> EInv h R wl -> sum_rc h < fuel ->
  exists h', release_wl fuel h wl = Ok h' /\ heap_wf h' /\ EInv h' R [].
Proof.
  intros. assert (P: PInv h R wl). { intros x. specialize (H0 x). clia. }
  destruct (release_wl_ok fuel h R wl H P H1) as [h' [Hr [W [C _]]]].
  exists h'. split; auto. split; auto. intros x. specialize (C x). specialize (H0 x). rewrite cnt_nil. clia.
Qed.

Lemma release_list_ok : forall h R wl, heap_wf h -> PInv h R wl ->
  exists h', release_list h wl = Ok h' /\ heap_wf h' /\
    (forall x, rcof h' x + cnt x (heap_refs h) + cnt x wl = rcof h x + cnt x (heap_refs h')) /\
    freed_mono h h'.
Proof.
  intros. unfold release_list.
  destruct (release_wl_ok (S (sum_rc h)) h R wl H H0 (Nat.lt_succ_diag_r _)) as [h' [A [B [C [D _]]]]].
  exists h'. auto.
Qed.

Lemma retain_all_ok : forall l h, heap_wf h -> (forall x, cnt x l >= 1 -> 1 <= rcof h x) ->
  exists h', retain_all h l = Ok h' /\ heap_wf h' /\
    (forall x, rcof h' x = rcof h x + cnt x l) /\
    (forall x, cnt x (heap_refs h') = cnt x (heap_refs h)) /\
    freed_mono h h'.
Proof.
  induction l; intros h W L.
  - simpl. exists h. split; auto. split; auto. split. intros; rewrite cnt_nil; clia. split; auto. apply freed_mono_refl.
  - simpl. assert (La: 1 <= rcof h a). { apply L. rewrite cnt_cons, cnt_one_eq. clia. }
    destruct (retain_ok h a W La) as [h1 [R1 [W1 [C1 [H1 [M1 _]]]]]]. rewrite R1. simpl.
    destruct (IHl h1 W1) as [h' [R' [W' [C' [H' M']]]]].
    { intros x Hx. rewrite C1. specialize (L x). rewrite cnt_cons in L. destruct (Nat.eq_dec x a).
      subst. rewrite cnt_one_eq. clia. rewrite cnt_one_neq in * by auto. clia. }
    exists h'. split; auto. split; auto.
    split. { intros x. rewrite C', C1. rewrite (cnt_cons x a l). clia. }
    split. { intros x. rewrite H', H1. reflexivity. }
    eapply freed_mono_trans; eauto.
Qed.
