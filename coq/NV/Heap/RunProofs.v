(* C14 -- opcode level: invariant preservation for every modelled opcode and for runs, absence of use-after-free,
   exactness (ref_count = in-degree) along leak-free runs, and what the invariant says in the property's words. *)
From Coq Require Import List Arith Bool ZArith Lia.
From NV Require Import Heap.Heap Heap.Ops Heap.Refcount Heap.HeapProofs Heap.OpsProofs.
Import ListNotations.
Arguments cnt : simpl never.
Arguments refs : simpl never.

Lemma excess_le_trans : forall a b c, excess_le a b -> excess_le b c -> excess_le a c.
Proof. intros a b c H1 H2 x. specialize (H1 x). specialize (H2 x). lia. Qed.
Lemma excess_eq_trans : forall a b c, excess_eq a b -> excess_eq b c -> excess_eq a c.
Proof. intros a b c H1 H2 x. specialize (H1 x). specialize (H2 x). lia. Qed.
Lemma excess_eq_refl : forall a, excess_eq a a.
Proof. intros a x. lia. Qed.

Definition run_spec (m : mstate) (r : res mstate) (leak : bool) : Prop :=
  match r with
  | Ok m' => Inv m' /\ excess_le m m' /\ (leak = false -> excess_eq m m') /\ freed_mono (hp m) (hp m')
  | Stuck => True
  | UAF => False
  | OutOfFuel => False
  end.

Theorem run_uops_ok : forall us m, Inv m -> run_spec m (run_uops us m) (leaks_uops us m).
Proof.
  induction us as [|u us IH]; intros m I.
  - simpl. split; auto. split. apply excess_eq_le, excess_eq_refl. split. intros; apply excess_eq_refl. apply freed_mono_refl.
  - simpl. destruct (uop_ok u m I) as [St|[m1 [R [W [E [Q Mo]]]]]].
    + rewrite St. simpl. exact Logic.I.
    + rewrite R. simpl. assert (I1: Inv m1) by (eapply Inv_of_excess; eauto).
      specialize (IH m1 I1). unfold run_spec in *. destruct (run_uops us m1) as [m2| | |]; auto.
      destruct IH as [I2 [E2 [Q2 Mo2]]]. split; auto. split. eapply excess_le_trans; eauto.
      split. { intros L. apply orb_false_iff in L. destruct L as [L1 L2]. eapply excess_eq_trans; eauto. }
      eapply freed_mono_trans; eauto.
Qed.

(* ---- one opcode *)
Theorem step_inv : forall i m m', Inv m -> step i m = Some (Ok m') -> Inv m'.
Proof.
  unfold step. intros i m m' I H. destruct (ucode i m) as [us|]; try discriminate. inversion H.
  pose proof (run_uops_ok us m I). rewrite H1 in H0. destruct H0; auto.
Qed.
Theorem step_no_uaf : forall i m, Inv m -> step i m <> Some UAF /\ step i m <> Some OutOfFuel.
Proof.
  unfold step. intros i m I. destruct (ucode i m) as [us|]; [|split; discriminate].
  pose proof (run_uops_ok us m I). destruct (run_uops us m); simpl in H; try contradiction; split; discriminate.
Qed.
Theorem step_exact : forall i m m', ExactInv m -> step i m = Some (Ok m') -> step_leaks i m = false -> ExactInv m'.
Proof.
  unfold step, step_leaks. intros i m m' X H L. destruct (ucode i m) as [us|]; try discriminate. inversion H.
  pose proof (run_uops_ok us m (ExactInv_Inv _ X)). rewrite H1 in H0. destruct H0 as [[W _] [_ [Q _]]].
  eapply ExactInv_of_excess; eauto.
Qed.
Theorem step_freed : forall i m m', Inv m -> step i m = Some (Ok m') -> freed_mono (hp m) (hp m').
Proof.
  unfold step. intros i m m' I H. destruct (ucode i m) as [us|]; try discriminate. inversion H.
  pose proof (run_uops_ok us m I). rewrite H1 in H0. destruct H0 as [_ [_ [_ Mo]]]. auto.
Qed.

(* ---- runs *)
Theorem run_inv : forall is m m', Inv m -> run is m = Some (Ok m') -> Inv m' /\ freed_mono (hp m) (hp m').
Proof.
  induction is as [|i is IH]; simpl; intros m m' I H.
  - inversion H; subst. split; auto. apply freed_mono_refl.
  - destruct (step i m) as [[m1| | |]|] eqn:S; try discriminate.
    destruct (traps i m).
    + inversion H; subst. split. eapply step_inv; eauto. eapply step_freed; eauto.
    + destruct (IH m1 m' (step_inv _ _ _ I S) H) as [I' Mo]. split; auto.
      eapply freed_mono_trans; eauto. eapply step_freed; eauto.
Qed.
Theorem run_no_uaf : forall is m, Inv m -> run is m <> Some UAF /\ run is m <> Some OutOfFuel.
Proof.
  induction is as [|i is IH]; simpl; intros m I. split; discriminate.
  destruct (step i m) as [[m1| | |]|] eqn:S; try (split; discriminate).
  - destruct (traps i m). split; discriminate. apply IH. eapply step_inv; eauto.
  - destruct (step_no_uaf i m I). congruence.
  - destruct (step_no_uaf i m I). congruence.
Qed.
Theorem run_exact : forall is m m', ExactInv m -> run is m = Some (Ok m') -> run_leaks is m = false -> ExactInv m'.
Proof.
  induction is as [|i is IH]; simpl; intros m m' X H L.
  - inversion H; subst; auto.
  - apply orb_false_iff in L. destruct L as [L1 L2].
    destruct (step i m) as [[m1| | |]|] eqn:S; try discriminate.
    destruct (traps i m).
    + inversion H; subst. eapply step_exact; eauto.
    + apply (IH m1 m'); auto. eapply step_exact; eauto.
Qed.

(* ---- the initial state *)
Lemma heap_wf_empty : heap_wf empty_heap.
Proof. split; [|split]; simpl. constructor. intros k i []. intros x rc o H. destruct x; discriminate. Qed.
Theorem init_exact : ExactInv init_state.
Proof. split. apply heap_wf_empty. intros x. unfold init_state, roots, rcof, get. simpl. destruct x; reflexivity. Qed.
Theorem init_inv : Inv init_state.
Proof. apply ExactInv_Inv, init_exact. Qed.

(* ---- the invariant in the words of the property *)
Theorem Inv_meaning : forall m, Inv m -> all_refs_live m /\ counts_cover m /\ freed_unreferenced m.
Proof.
  intros m I. pose proof (Inv_indeg m I) as H. split; [|split].
  - intros x Hin. apply cnt_in in Hin. rewrite cnt_app in Hin. specialize (H x). unfold indeg in H.
    assert (L: 1 <= rcof (hp m) x) by lia. destruct (rcof_pos_live _ _ L) as [rc [o [G _]]].
    unfold is_live. rewrite G. reflexivity.
  - intros x _. apply H.
  - intros x G. specialize (H x). unfold rcof in H. rewrite G in H. lia.
Qed.

(* ---- statically exact opcodes *)
Lemma no_forget_leaks : forall us m, forallb no_forget us = true -> leaks_uops us m = false.
Proof.
  induction us as [|u us IH]; simpl; intros m H; auto.
  apply andb_true_iff in H. destruct H as [H1 H2].
  assert (L: uop_leaks u m = false) by (destruct u; simpl in *; auto; discriminate).
  rewrite L. simpl. destruct (run_uop u m); auto.
Qed.
Lemma forallb_repeat : forall A (f : A -> bool) a n, f a = true -> forallb f (repeat a n) = true.
Proof. induction n; simpl; intros; auto. rewrite H. auto. Qed.

Lemma static_exact_no_forget : forall i m us, static_exact i = true -> ucode i m = Some us -> forallb no_forget us = true.
Proof.
  intros i m us S U. destruct i; simpl in S; try discriminate; simpl in U;
  repeat match type of U with
         | context [match ?x with _ => _ end] => destruct x
         | context [if ?x then _ else _] => destruct x
         end;
  try discriminate; inversion U; subst; clear U;
  unfold container_get, pops; rewrite ?forallb_app, ?forallb_repeat; auto;
  repeat match goal with |- context [if ?x then _ else _] => destruct x end; simpl; auto.
Qed.

Theorem exact_core : forall i m m', ExactInv m -> static_exact i = true -> step i m = Some (Ok m') -> ExactInv m'.
Proof.
  intros i m m' X S H. eapply step_exact; eauto. unfold step, step_leaks in *.
  destruct (ucode i m) as [us|] eqn:U; auto. apply no_forget_leaks. eapply static_exact_no_forget; eauto.
Qed.

(* ---- soundness of the executable checks (used for the refutation witnesses) *)
Lemma forallb_seq_spec : forall f n, forallb f (seq 0 n) = true -> forall x, x < n -> f x = true.
Proof. intros. rewrite forallb_forall in H. apply H. apply in_seq. lia. Qed.

Lemma exact_b_false : forall m, (exists x, x < length (cells (hp m)) /\ indeg m x <> rcof (hp m) x) -> ~ ExactInv m.
Proof.
  intros m [x [L N]] [_ E]. specialize (E x). rewrite cnt_nil in E. unfold indeg in N. lia.
Qed.

(* ---- no leak: in an exact state every live object is referenced from a root or from a slot of a live container
   (what is referenced from nowhere has been freed).  Cyclic garbage is referenced, hence not covered. *)
Theorem no_leak : forall m, ExactInv m -> forall x, is_live (hp m) x = true -> In x (roots m ++ heap_refs (hp m)).
Proof.
  intros m [[_ [_ Pz]] E] x L. unfold is_live in L. destruct (get (hp m) x) as [[rc o|]|] eqn:G; try discriminate.
  specialize (Pz _ _ _ G). specialize (E x). rewrite cnt_nil in E. unfold rcof in E. rewrite G in E.
  apply cnt_pos_in. rewrite cnt_app. lia.
Qed.

(* ---- trap paths of the array opcodes (out-of-range index, empty ARR_POP, not an array): the popped operands are
   released, nothing is forgotten, so the terminal step keeps ref_count = in-degree *)
Definition pop_state (m : mstate) : mstate :=
  match stack m with
  | v :: s => M s (globals m) (frames m) (v :: regs m) (hp m)
  | [] => set_regs m (VNon :: regs m)
  end.
Lemma run_pop : forall m, run_uop UPop m = Ok (pop_state m).
Proof. intros. unfold pop_state. simpl. destruct (stack m); reflexivity. Qed.
Lemma regs_pop : forall m, regs (pop_state m) = peek m 0 :: regs m.
Proof. intros. unfold pop_state, peek. destruct m as [st gl fr rg h]. simpl. destruct st; reflexivity. Qed.
Lemma peek_pop : forall m k, peek (pop_state m) k = peek m (S k).
Proof. intros. unfold pop_state, peek. destruct m as [st gl fr rg h]. simpl. destruct st; simpl; auto. destruct k; reflexivity. Qed.
Lemma leaks_pop : forall us m, leaks_uops (UPop :: us) m = leaks_uops us (pop_state m).
Proof. intros. cbn [leaks_uops uop_leaks orb]. rewrite run_pop. reflexivity. Qed.
Lemma leaks_drop_non : forall us m r, regs m = VNon :: r -> leaks_uops (UDrop :: us) m = leaks_uops us (set_regs m r).
Proof. intros. cbn [leaks_uops uop_leaks]. unfold run_uop. rewrite H. reflexivity. Qed.
Lemma regs_set_regs : forall m r, regs (set_regs m r) = r.
Proof. reflexivity. Qed.
Lemma is_non_eq : forall v, is_non v = true -> v = VNon.
Proof. destruct v; simpl; congruence. Qed.

Definition array_trap_op (i : instr) : bool :=
  match i with IArrPop | IArrGet _ | IArrSet _ | IArrRemove _ => true | _ => false end.
(* the index operand is a scalar (it is never released by these handlers, on any path) *)
Definition index_scalar (i : instr) (m : mstate) : bool :=
  match i with
  | IArrGet _ | IArrRemove _ => is_non (peek m 0)
  | IArrSet _ => is_non (peek m 1)
  | _ => true
  end.

Lemma array_trap_no_leak : forall i m, array_trap_op i = true -> traps i m = true -> index_scalar i m = true ->
  step_leaks i m = false.
Proof.
  intros i m A T X. unfold step_leaks. destruct i; simpl in A; try discriminate.
  - (* ARR_POP *) simpl in T. simpl. apply negb_true_iff in T. rewrite T. apply no_forget_leaks. reflexivity.
  - (* ARR_GET *)
    assert (U: ucode (IArrGet idx) m = Some [UPop; UDrop; UPop; URelease]).
    { simpl in *. destruct (has_kind m (peek m 1) KArr); auto. simpl in T.
      destruct (idx_in idx (vals_len m (peek m 1))); auto; discriminate. }
    rewrite U. rewrite leaks_pop. simpl in X. apply is_non_eq in X.
    rewrite (leaks_drop_non _ _ (regs m)) by (rewrite regs_pop, X; reflexivity).
    apply no_forget_leaks. reflexivity.
  - (* ARR_SET *)
    assert (U: ucode (IArrSet idx) m = Some [UPop; UPop; UDrop; UPop; URelease; URelease]).
    { simpl in *. destruct (has_kind m (peek m 2) KArr); auto. simpl in T.
      destruct (idx_in idx (vals_len m (peek m 2))); auto; discriminate. }
    rewrite U. rewrite !leaks_pop. simpl in X. apply is_non_eq in X.
    rewrite (leaks_drop_non _ _ (peek m 0 :: regs m)) by (rewrite regs_pop, peek_pop, regs_pop, X; reflexivity).
    apply no_forget_leaks. reflexivity.
  - (* ARR_REMOVE *)
    assert (U: ucode (IArrRemove idx) m = Some [UPop; UDrop; UPop; URelease]).
    { simpl in *. destruct (has_kind m (peek m 1) KArr); auto. simpl in T.
      destruct (idx_in idx (vals_len m (peek m 1))); auto; discriminate. }
    rewrite U. rewrite leaks_pop. simpl in X. apply is_non_eq in X.
    rewrite (leaks_drop_non _ _ (regs m)) by (rewrite regs_pop, X; reflexivity).
    apply no_forget_leaks. reflexivity.
Qed.

Theorem array_trap_exact : forall i m m', ExactInv m -> array_trap_op i = true -> traps i m = true ->
  index_scalar i m = true -> step i m = Some (Ok m') -> ExactInv m'.
Proof. intros. eapply step_exact; eauto. apply array_trap_no_leak; auto. Qed.

(* the out-of-range condition is the 64-bit one: negative and >= length are out, whatever the low 32 bits say *)
Lemma idx_in_spec : forall idx len j, idx_in idx len = Some j <-> (0 <= idx < Z.of_nat len)%Z /\ j = Z.to_nat idx.
Proof.
  intros. unfold idx_in. destruct (Z.leb 0 idx) eqn:A; destruct (Z.ltb idx (Z.of_nat len)) eqn:B; simpl;
  try apply Z.leb_le in A; try apply Z.ltb_lt in B; try apply Z.leb_gt in A; try apply Z.ltb_ge in B;
  split; intros H; try discriminate; try (inversion H; subst; split; auto; lia); destruct H; try lia; subst; reflexivity.
Qed.

(* ---- ARR_SLICE: the model has no element tag at all.  The new array takes one COUNTED reference per reference element
   of the copied range, whatever the source array was created as (vm_array_slice retains every copied element) *)
Theorem slice_retains_every_element : forall m s e c r rc o,
  Inv m -> regs m = VRef c :: r -> get (hp m) c = Some (Live rc o) ->
  let sub := firstn (e - s) (skipn s (ovals o)) in
  exists m' i, run_uop (USlice s e) m = Ok m' /\ regs m' = VRef i :: VRef c :: r /\
    get (hp m') i = Some (Live 1 (Obj KArr sub)) /\
    forall x, x <> i -> rcof (hp m') x = rcof (hp m) x + cnt x (refs sub).
Proof.
  intros m s e c r rc o I Hs G sub.
  assert (SL: forall x, cnt x (refs sub) <= cnt x (heap_refs (hp m))).
  { intros x. pose proof (cell_refs_le_heap x _ _ _ G). simpl in H.
    pose proof (cnt_refs_firstn_le x (e - s) (skipn s (ovals o))). pose proof (cnt_refs_skipn_le x s (ovals o)).
    unfold sub. lia. }
  pose proof I as I0. destruct I as [W P].
  destruct (retain_all_ok (refs sub) (hp m) W) as [h1 [Ra [W1 [C1 [C2 Mo1]]]]].
  { intros x Hx. apply live_of_root; auto. unfold indeg. specialize (SL x). lia. }
  destruct (alloc h1 (Obj KArr sub)) as [h2 i] eqn:A.
  destruct (alloc_ok _ (Obj KArr sub) _ _ W1 eq_refl A) as [W2 [Ei [R1 [R2 Mo2]]]].
  exists (M (stack m) (globals m) (frames m) (VRef i :: VRef c :: r) h2), i.
  split. { unfold run_uop. rewrite Hs, G. fold sub. rewrite Ra. cbn [bind]. rewrite A. reflexivity. }
  split. reflexivity.
  split. { unfold alloc in A. inversion A; subst. simpl. apply get_app_new. }
  intros x Hx. simpl. rewrite R1, C1. rewrite cnt_one_neq by auto. lia.
Qed.
