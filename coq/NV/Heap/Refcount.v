(* C14 -- in-degree of heap objects from the roots and the invariant.  Definitions only (extracted: the
   model-side audit [indeg], [inv_b] is run next to the C-side audit of probes/heap_trace.c). *)
From Coq Require Import List Arith Bool Lia.
From NV Require Import Heap.Heap Heap.Ops.
Import ListNotations.

Definition cnt (x : id) (l : list id) : nat := count_occ Nat.eq_dec l x.

Definition frame_refs (fs : list frame) : list id :=
  flat_map (fun f => match fclos f with Some c => [c] | None => [] end) fs.

(* roots = operand stack (which contains every frame's locals), globals, frame closure pointers, and - inside an
   opcode - the C locals of the handler *)
Definition roots (m : mstate) : list id :=
  refs (stack m) ++ refs (globals m) ++ frame_refs (frames m) ++ refs (regs m).

(* number of references to x: from roots and from the slots of live containers.  The intern table is not an owner. *)
Definition indeg (m : mstate) (x : id) : nat := cnt x (roots m) + cnt x (heap_refs (hp m)).

(* pending-multiset invariant of release (DESIGN Appendix A.2).  R = references held outside the heap, wl = references
   whose release has been requested but not yet carried out.  [rcof] is 0 for freed / unallocated ids, so the single
   inequality also says: everything referenced is live. *)
Definition PInv (h : heap) (R wl : list id) : Prop :=
  forall x, cnt x R + cnt x (heap_refs h) + cnt x wl <= rcof h x.
Definition EInv (h : heap) (R wl : list id) : Prop :=
  forall x, cnt x R + cnt x (heap_refs h) + cnt x wl = rcof h x.

(* intern table: distinct objects, each entry points at a live string with that content; positive counts *)
Definition heap_wf (h : heap) : Prop :=
  NoDup (map snd (intern h)) /\
  (forall k i, In (k, i) (intern h) -> exists rc, get h i = Some (Live rc (Obj (KStr k) []))) /\
  (* an object whose count reached 0 was freed on the spot: live cells have a positive count *)
  (forall x rc o, get h x = Some (Live rc o) -> 1 <= rc).

Definition Inv (m : mstate) : Prop := heap_wf (hp m) /\ PInv (hp m) (roots m) [].
Definition ExactInv (m : mstate) : Prop := heap_wf (hp m) /\ EInv (hp m) (roots m) [].

(* the statement of the property for one state, spelled out *)
Definition all_refs_live (m : mstate) : Prop := forall x, In x (roots m ++ heap_refs (hp m)) -> is_live (hp m) x = true.
Definition counts_cover (m : mstate) : Prop := forall x, is_live (hp m) x = true -> indeg m x <= rcof (hp m) x.
Definition freed_unreferenced (m : mstate) : Prop := forall x, get (hp m) x = Some Freed -> indeg m x = 0.

(* executable versions *)
Definition ids_upto (n : nat) : list id := seq 0 n.
Definition inv_b (m : mstate) : bool :=
  forallb (fun x => indeg m x <=? rcof (hp m) x) (ids_upto (length (cells (hp m)))) &&
  forallb (fun x => x <? length (cells (hp m))) (roots m ++ heap_refs (hp m)).
Definition exact_b (m : mstate) : bool :=
  forallb (fun x => indeg m x =? rcof (hp m) x) (ids_upto (length (cells (hp m)))) &&
  forallb (fun x => x <? length (cells (hp m))) (roots m ++ heap_refs (hp m)).
Definition intern_b (h : heap) : bool :=
  forallb (fun ki => match get h (snd ki) with
                     | Some (Live _ (Obj (KStr k) [])) => Nat.eqb k (fst ki)
                     | _ => false end) (intern h).

(* live objects as (id, tag, ref_count, in-degree), the format of the probe's S lines *)
Fixpoint live_rows_from (m : mstate) (cs : list cell) (i : nat) : list (nat * nat * nat * nat) :=
  match cs with
  | [] => []
  | Live rc o :: t => (i, kind_tag (okind o), rc, indeg m i) :: live_rows_from m t (S i)
  | Freed :: t => live_rows_from m t (S i)
  end.
Definition live_rows (m : mstate) : list (nat * nat * nat * nat) := live_rows_from m (cells (hp m)) 0.
