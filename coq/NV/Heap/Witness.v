(* C14 -- witnesses: opcodes of vm.c that forget a reference.  Each witness is a reachable exact state (reached from
   the initial state by a leak-free run) from which ONE opcode leads to a state where some live object's ref_count
   exceeds the number of references to it. *)
From Coq Require Import List Arith Bool ZArith Lia.
From NV Require Import Heap.Heap Heap.Ops Heap.Refcount Heap.HeapProofs Heap.OpsProofs Heap.RunProofs.
Import ListNotations.

Definition leaks_at (prefix : list instr) (i : instr) : Prop :=
  exists m m', run prefix init_state = Some (Ok m) /\ ExactInv m /\
               step i m = Some (Ok m') /\ Inv m' /\ ~ ExactInv m'.

Ltac witness x :=
  unfold leaks_at;
  match goal with |- exists m m', run ?p init_state = _ /\ _ =>
    let r := eval vm_compute in (run p init_state) in
    match r with Some (Ok ?m0) =>
      exists m0;
      assert (run p init_state = Some (Ok m0)) by (vm_compute; reflexivity);
      assert (ExactInv m0) by (eapply run_exact; [apply init_exact | eassumption | vm_compute; reflexivity])
    end
  end;
  match goal with |- exists m', _ /\ _ /\ step ?i ?m0 = _ /\ _ =>
    let r := eval vm_compute in (step i m0) in
    match r with Some (Ok ?m1) =>
      exists m1;
      assert (step i m0 = Some (Ok m1)) by (vm_compute; reflexivity);
      split; [assumption|split; [assumption|split; [assumption|split;
        [eapply step_inv; [apply ExactInv_Inv; eassumption | eassumption]
        |apply exact_b_false; exists x; split; [vm_compute; lia|vm_compute; lia]]]]]
    end
  end.

(* SUB/MUL/DIV/MOD on a non-numeric operand: type error raised without releasing the operands (ADD does release them) *)
Lemma arith_type_error_leaks : leaks_at [IEnter 1; IPushStr 0; IPushNon] IArith2.
Proof. witness 0. Qed.
