(* C14 -- every count of an exact state is bounded by the number of memory cells that can hold a reference; under the memory
   assumption of NV.Heap.Width that number fits the ref_count field whenever max_ref_cells < 2^rc_width (which
   Properties_C14 decides by vm_compute on the generated numbers). *)
From Coq Require Import List Arith NArith Lia.
From NV Require Import Heap.Heap Heap.Ops Heap.Refcount Heap.HeapProofs Heap.OpsProofs Heap.Width gen.HeapParams.
Import ListNotations.
Arguments cnt : simpl never.
Arguments refs : simpl never.

Lemma cnt_le_length : forall x l, cnt x l <= length l.
Proof. intros. unfold cnt. induction l; simpl; auto. destruct (Nat.eq_dec a x); lia. Qed.
Lemma refs_length : forall l, length (refs l) <= length l.
Proof. induction l as [|v l IH]; auto. rewrite refs_cons, app_length. destruct v; simpl; lia. Qed.
Lemma frame_refs_length : forall fs, length (frame_refs fs) <= length fs.
Proof. induction fs as [|f fs IH]; auto. rewrite frame_refs_cons, app_length. destruct (fclos f); simpl; lia. Qed.
Lemma heap_refs_length : forall h, length (heap_refs h) <= container_cells h.
Proof.
  intros h. unfold heap_refs, container_cells. induction (cells h) as [|c cs IH]; auto.
  simpl. rewrite app_length. assert (length (cell_refs c) <= cell_slots c).
  { destruct c; simpl; auto. apply refs_length. }
  lia.
Qed.

(* in-degree <= stack slots + globals + handler locals + container cells + frames *)
Theorem indeg_le_cells : forall m x, indeg m x <= ref_cells m.
Proof.
  intros. rewrite indeg_unfold. unfold ref_cells, value_cells.
  pose proof (cnt_le_length x (refs (stack m))). pose proof (refs_length (stack m)).
  pose proof (cnt_le_length x (refs (globals m))). pose proof (refs_length (globals m)).
  pose proof (cnt_le_length x (refs (regs m))). pose proof (refs_length (regs m)).
  pose proof (cnt_le_length x (frame_refs (frames m))). pose proof (frame_refs_length (frames m)).
  pose proof (cnt_le_length x (heap_refs (hp m))). pose proof (heap_refs_length (hp m)).
  lia.
Qed.

Theorem rc_le_cells : forall m x, ExactInv m -> rcof (hp m) x <= ref_cells m.
Proof.
  intros m x [_ E]. specialize (E x). rewrite cnt_nil in E. pose proof (indeg_le_cells m x). unfold indeg in H. lia.
Qed.

Lemma cells_le_max : forall m, fits_memory m -> (N.of_nat (ref_cells m) <= max_ref_cells)%N.
Proof.
  intros m [A B]. unfold max_ref_cells, ref_cells.
  assert (V: (value_cell_bytes <> 0)%N) by (vm_compute; discriminate).
  assert ((N.of_nat (value_cells m) <= assumed_vm_memory_bytes / value_cell_bytes)%N).
  { apply N.div_le_lower_bound; auto. rewrite N.mul_comm. exact A. }
  rewrite Nat2N.inj_add. lia.
Qed.

(* the connection: if the generated numbers satisfy max_ref_cells < 2^rc_width, no count of an exact state that fits the
   assumed memory needs more than the field holds, and the field holds exactly the model's count *)
Theorem count_fits_field : (max_ref_cells < 2 ^ rc_width)%N ->
  forall m x, ExactInv m -> fits_memory m ->
  (N.of_nat (rcof (hp m) x) < 2 ^ rc_width)%N /\ field_value (rcof (hp m) x) = N.of_nat (rcof (hp m) x).
Proof.
  intros F m x X M. pose proof (rc_le_cells m x X). pose proof (cells_le_max m M).
  assert (L: (N.of_nat (rcof (hp m) x) < 2 ^ rc_width)%N) by lia.
  split; auto. unfold field_value. apply N.mod_small. exact L.
Qed.

(* conversely a field that is too narrow does wrap: a count equal to 2^w is stored as 0, i.e. "unowned" *)
Lemma field_wraps_to_zero : field_value (N.to_nat (2 ^ rc_width)) = 0%N.
Proof. unfold field_value. rewrite N2Nat.id. apply N.mod_same. vm_compute. discriminate. Qed.
