(* C14 -- the fixed-width ref_count field of the code versus the unbounded count of the model.  Definitions only.
   Parameters come from NV.gen.HeapParams (sizeof / offsetof taken by the C compiler on the current headers). *)
From Coq Require Import List Arith NArith.
From NV Require Import Heap.Heap Heap.Ops Heap.Refcount gen.HeapParams.
Import ListNotations.

(* memory cells that can hold a reference: every slot of every live container ... *)
Definition cell_slots (c : cell) : nat := match c with Live _ o => length (ovals o) | Freed => 0 end.
Definition container_cells (h : heap) : nat := fold_right (fun c a => cell_slots c + a) 0 (cells h).
(* ... the operand stack, the globals, the C locals of the running handler: all NanoValue cells *)
Definition value_cells (m : mstate) : nat := length (stack m) + length (globals m) + length (regs m) + container_cells (hp m).
(* plus one closure pointer per call frame *)
Definition ref_cells (m : mstate) : nat := value_cells m + length (frames m).

(* ASSUMPTION (not a limit the VM enforces): the memory of the VM process that holds NanoValue cells stays below this many
   bytes.  The VM's own limits bound the roots only - one stack of < 2^stack_size_bits slots, vm_max_globals globals,
   vm_max_frames frames - while the NUMBER of containers, hence the total number of container cells, is limited by memory
   alone: with 2^rc_width * value_cell_bytes bytes of cells (64 GiB for a 32-bit count and 16-byte values) one object can be
   given 2^rc_width owners and the count wraps.  2^35 bytes is the largest power of two for which a 32-bit count is safe. *)
Definition assumed_vm_memory_bytes : N := (2 ^ 35)%N.
Definition max_ref_cells : N := (assumed_vm_memory_bytes / value_cell_bytes + vm_max_frames)%N.
Definition fits_memory (m : mstate) : Prop :=
  (N.of_nat (value_cells m) * value_cell_bytes <= assumed_vm_memory_bytes)%N /\ (N.of_nat (length (frames m)) <= vm_max_frames)%N.

(* what a field of rc_width bits holds after the model's count many net increments *)
Definition field_value (rc : nat) : N := (N.of_nat rc mod 2 ^ rc_width)%N.
(* references the VM's own limits allow from roots (stack field width, globals, frames) *)
Definition own_limit_root_cells : N := (2 ^ stack_size_bits + vm_max_globals + vm_max_frames)%N.
