(* C12 -- a damaged bytecode file is refused, not executed.
   Only property theorems here, each closed by [exact <lemma>] (or vm_compute on generated data / a concrete witness)
   and followed by Print Assumptions.  CRC parameters, table and test vectors come from NV.gen.NvmConsts, regenerated
   from /repo/src/nanoisa/nvm_format.c on every run.
   Fault model of the theorems: the 32-byte header is intact (the property speaks about damage "after its header");
   the header itself is NOT covered by the checksum -- see the note in tools/props/c12.py. *)
From Coq Require Import NArith List Bool.
From NV Require Import Base.Bytes Nvm.Crc Nvm.CrcProofs Nvm.Format Nvm.FormatProofs Nvm.LoadPaths Nvm.LoadPathsProofs gen.NvmConsts gen.LoadPaths.
Import ListNotations.
Local Open Scope N_scope.

(* ---- tie of the CRC model to the source (translated data) ---- *)
(* the clang AST of crc32_init / nvm_crc32 has the shape the model transcribes *)
Theorem C12_crc_shape : crc_shape_ok = true.
Proof. vm_compute. reflexivity. Qed.
Print Assumptions C12_crc_shape.

Theorem C12_crc_params : crc_poly < 2 ^ 32 /\ N.testbit crc_poly 31 = true /\ crc_init < 2 ^ 32 /\ crc_xorout < 2 ^ 32.
Proof. vm_compute. repeat split; reflexivity. Qed.
Print Assumptions C12_crc_params.

(* the model's table is the table the repo's crc32_init builds *)
Theorem C12_crc_table : table_list crc_poly = crc_table_dump.
Proof. vm_compute. reflexivity. Qed.
Print Assumptions C12_crc_table.

(* the model's CRC equals nvm_crc32 on every dumped vector (empty, all one-byte buffers, longer ones) *)
Theorem C12_crc_vectors : forallb (fun v => crc32 (fst v) =? snd v) crc_vectors = true.
Proof. vm_compute. reflexivity. Qed.
Print Assumptions C12_crc_vectors.

(* ---- CRC theory ---- *)
Theorem C12_Zs_linear : forall a b, Zs crc_poly (N.lxor a b) = N.lxor (Zs crc_poly a) (Zs crc_poly b).
Proof. exact (Zs_lin crc_poly). Qed.
Print Assumptions C12_Zs_linear.

Theorem C12_Zs_injective_32 : forall a b, a < 2 ^ 32 -> b < 2 ^ 32 -> Zs crc_poly a = Zs crc_poly b -> a = b.
Proof. exact (Zs_inj crc_poly poly_lt_gen poly_b31_gen). Qed.
Print Assumptions C12_Zs_injective_32.

(* nvm_crc32 (table driven) = bit-serial CRC of the message bits, least significant bit of each byte first *)
Theorem C12_crc_table_eq_bitwise : forall bs, bytes_ok bs ->
  crc32 bs = crc_bits crc_poly crc_init crc_xorout (bits_of_bytes bs).
Proof. exact (crc_table_eq_bitwise crc_poly poly_lt_gen crc_init crc_xorout). Qed.
Print Assumptions C12_crc_table_eq_bitwise.

(* any two bit strings that differ only inside a window of at most 32 consecutive bits have different CRCs *)
Theorem C12_crc_burst : forall pre b1 b2 post,
  length b1 = length b2 -> (length b1 <= 32)%nat -> b1 <> b2 ->
  crc_bits crc_poly crc_init crc_xorout (pre ++ b1 ++ post) <> crc_bits crc_poly crc_init crc_xorout (pre ++ b2 ++ post).
Proof. exact (crc_burst crc_poly poly_lt_gen poly_b31_gen crc_init crc_xorout). Qed.
Print Assumptions C12_crc_burst.

(* ---- the loader ---- *)
(* f is ANY file the loader accepts; f' has the same 32-byte header and differs from f inside a window of <= 32 bits
   (numbered LSB-first within each byte) after the header: f' is refused *)
Theorem C12_load_rejects_burst : forall f f' m,
  deserialize f = Loaded m -> bytes_ok f -> bytes_ok f' ->
  firstn 32 f' = firstn 32 f -> burst_le32 (skipn 32 f) (skipn 32 f') ->
  deserialize f' = Refused.
Proof. exact load_rejects_burst. Qed.
Print Assumptions C12_load_rejects_burst.

(* any change confined to at most four consecutive bytes after the header *)
Theorem C12_load_rejects_bytes4 : forall hdr p x y q m,
  length hdr = 32%nat -> deserialize (hdr ++ p ++ x ++ q) = Loaded m ->
  bytes_ok (hdr ++ p ++ x ++ q) -> bytes_ok y -> length x = length y -> (length x <= 4)%nat -> x <> y ->
  deserialize (hdr ++ p ++ y ++ q) = Refused.
Proof. exact load_rejects_bytes4. Qed.
Print Assumptions C12_load_rejects_bytes4.

(* a single flipped bit anywhere after the header *)
Theorem C12_load_rejects_bitflip : forall hdr p x q k m,
  length hdr = 32%nat -> deserialize (hdr ++ p ++ [x] ++ q) = Loaded m -> bytes_ok (hdr ++ p ++ [x] ++ q) -> k < 8 ->
  deserialize (hdr ++ p ++ [N.lxor x (2 ^ k)] ++ q) = Refused.
Proof. exact load_rejects_bitflip. Qed.
Print Assumptions C12_load_rejects_bitflip.

(* every proper prefix of a serialized well-formed module is refused (independently of the CRC: by the layout) *)
Theorem C12_load_rejects_truncation : forall m n,
  wf_module m -> (n < length (serialize m))%nat -> deserialize (firstn n (serialize m)) = Refused.
Proof. exact load_rejects_truncation. Qed.
Print Assumptions C12_load_rejects_truncation.

Theorem C12_load_rejects_short : forall data, len data < 32 -> deserialize data = Refused.
Proof. exact load_rejects_short. Qed.
Print Assumptions C12_load_rejects_short.

Theorem C12_load_rejects_magic : forall data, firstn 4 data <> MAGIC -> deserialize data = Refused.
Proof. exact load_rejects_magic. Qed.
Print Assumptions C12_load_rejects_magic.

Theorem C12_load_rejects_version : forall data, rd32 data 4 <> VERSION -> deserialize data = Refused.
Proof. exact load_rejects_version. Qed.
Print Assumptions C12_load_rejects_version.

Theorem C12_load_rejects_section_count : forall data, MAX_SECTIONS < h_nsec (header_of data) -> deserialize data = Refused.
Proof. exact load_rejects_section_count. Qed.
Print Assumptions C12_load_rejects_section_count.

(* all or nothing, as far as it holds: a module is returned only if every header check, the checksum, the directory
   bound and the bounds check of EVERY announced section succeeded *)
Theorem C12_load_all_or_nothing : forall data m, deserialize data = Loaded m ->
  pre_checks data /\ m_hdr m = header_of data /\
  length (m_secs m) = N.to_nat (h_nsec (header_of data)) /\ Forall (sec_checked (len data)) (m_secs m).
Proof. exact load_all_or_nothing. Qed.
Print Assumptions C12_load_all_or_nothing.

(* ---- appended tails ----
   [reject_trailing] is regenerated on every run by asking the real loader (tools/gen/gen_nvmconsts.py); both directions are
   proved, tools/props/c12.py reports which one is live and replays the witness on the real code. *)
(* with the check "nothing follows the last section" in the source: every non-empty tail is refused *)
Theorem C12_load_rejects_extension : reject_trailing = true ->
  forall m tail, wf_module m -> tail <> [] -> deserialize (serialize m ++ tail) = Refused.
Proof. exact (fun R m tail => load_rejects_extension m tail R). Qed.
Print Assumptions C12_load_rejects_extension.

(* without it: EVERY well-formed module has a four-byte tail the loader does not notice (no length field; the tail steers
   the CRC back); the module loads exactly as if the tail were absent *)
Theorem C12_load_rejects_extension_refuted_general : reject_trailing = false ->
  forall m, wf_module m ->
  length (steer_file (serialize m)) = 4%nat /\
  deserialize (serialize m ++ steer_file (serialize m)) = Loaded (stamp m).
Proof. exact (fun R m => extension_refuted_general m R). Qed.
Print Assumptions C12_load_rejects_extension_refuted_general.

(* concrete witness (the module nano_virt emits for `fn main() -> int { (println 7) return 3 }`), replayed on nano_vm *)
Definition witness_m : module :=
  build 1 0 [OpString [109; 97; 105; 110]; OpCode [1; 7; 0; 0; 0; 0; 0; 0; 0; 164; 5; 8; 1; 3; 0; 0; 0; 0; 0; 0; 0; 61]; OpFunc (mkFn 0 0 0 22 0 0)].
Definition witness_tail : list byte := [80; 136; 46; 167].
Example C12_witness_wf : wf_module witness_m /\ witness_tail = steer_file (serialize witness_m).
Proof. vm_compute. split; reflexivity. Qed.
Theorem C12_load_rejects_extension_refuted : reject_trailing = false ->
  exists m tail, wf_module m /\ tail <> [] /\ deserialize (serialize m ++ tail) = Loaded (stamp m).
Proof.
  intros R. exists witness_m, witness_tail. split; [exact (proj1 C12_witness_wf)|]. split; [discriminate|].
  rewrite (proj2 C12_witness_wf). exact (proj2 (extension_refuted_general witness_m R (proj1 C12_witness_wf))).
Qed.
Print Assumptions C12_load_rejects_extension_refuted.

(* loading is all or nothing INSIDE a section too (repair 919fdcf in /repo): a file that loads has complete sections --
   each announced section lies inside the file, and the bytes of a strings / functions / debug / imports section are
   exactly the serialisation of a list of entries: every entry inside its section, no byte left over
   ([section_complete], [table_complete] in Nvm/FormatProofs.v; imports also carry param_count parameter bytes) *)
Theorem C12_load_complete_sections : forall data m, bytes_ok data -> deserialize data = Loaded m ->
  Forall (section_complete data) (m_secs m).
Proof. exact load_complete_sections. Qed.
Print Assumptions C12_load_complete_sections.

(* the former counter-example (a 13-byte string section holding the entry "a" followed by an entry that claims 100 bytes,
   valid checksum) and its relatives are refused now: last entry overruns / bytes left over, for each table type *)
Definition partial_file : list byte := [78; 86; 77; 1; 1; 0; 0; 0; 0; 0; 0; 0; 0; 0; 0; 0; 1; 0; 0; 0; 44; 0; 0; 0; 13; 0; 0; 0; 214; 229; 31; 49; 2; 0; 0; 0; 44; 0; 0; 0; 13; 0; 0; 0; 1; 0; 0; 0; 97; 100; 0; 0; 0; 122; 122; 122; 122].
Definition leftover_files : list (list byte) :=
  [ [78; 86; 77; 1; 1; 0; 0; 0; 0; 0; 0; 0; 0; 0; 0; 0; 1; 0; 0; 0; 44; 0; 0; 0; 8; 0; 0; 0; 178; 163; 58; 60; 2; 0; 0; 0; 44; 0; 0; 0; 8; 0; 0; 0; 1; 0; 0; 0; 97; 0; 0; 0];      (* strings: 3 bytes after the last entry *)
    [78; 86; 77; 1; 1; 0; 0; 0; 0; 0; 0; 0; 0; 0; 0; 0; 1; 0; 0; 0; 0; 0; 0; 0; 0; 0; 0; 0; 131; 113; 78; 60; 3; 0; 0; 0; 44; 0; 0; 0; 19; 0; 0; 0; 1; 2; 3; 4; 5; 6; 7; 8; 9; 10; 11; 12; 13; 14; 15; 16; 17; 18; 7];      (* functions: 18-byte entry + 1 byte *)
    [78; 86; 77; 1; 1; 0; 0; 0; 0; 0; 0; 0; 0; 0; 0; 0; 1; 0; 0; 0; 0; 0; 0; 0; 0; 0; 0; 0; 210; 131; 194; 167; 9; 0; 0; 0; 44; 0; 0; 0; 11; 0; 0; 0; 1; 0; 0; 0; 2; 0; 0; 0; 0; 0; 0];      (* debug: 8-byte entry + 3 bytes *)
    [78; 86; 77; 1; 1; 0; 0; 0; 0; 0; 0; 0; 0; 0; 0; 0; 1; 0; 0; 0; 0; 0; 0; 0; 0; 0; 0; 0; 120; 134; 106; 185; 8; 0; 0; 0; 44; 0; 0; 0; 13; 0; 0; 0; 1; 0; 0; 0; 2; 0; 0; 0; 5; 0; 3; 1; 2] ].    (* imports: param_count 5, two parameter bytes present *)
Example C12_malformed_sections_refused :
  forallb bytes_okb (partial_file :: leftover_files) = true /\
  forallb (fun f => match deserialize f with Refused => true | _ => false end) (partial_file :: leftover_files) = true.
Proof. vm_compute. split; reflexivity. Qed.

(* ---- every loading path, after any history ----
   [loaders_ok]: regenerated on every run from the clang AST of run_standalone (nano_vm), client_thread (nano_vmd),
   handle_init (nano_cop) and the main printed by write_wrapper_c: the module a session runs is nvm_deserialize of the
   buffer received in THIS session (rule D1-D3 in tools/gen/gen_loadpaths.py), and the two paths that execute received
   bytes call nvm_verify between loading and vm_init.  A cache or any other source of modules breaks this obligation;
   tools/props/c12.py then finds the failing history on the real nano_vmd. *)
Theorem C12_loaders_deserialize_received : loaders_ok = true.
Proof. exact loaders_ok_true. Qed.
Print Assumptions C12_loaders_deserialize_received.

(* the verdict of a session depends only on the bytes of this request *)
Theorem C12_verdict_is_deserialize : forall p history req, session_verdict p history req = Some (deserialize req).
Proof. exact verdict_is_deserialize. Qed.
Print Assumptions C12_verdict_is_deserialize.

(* whatever the process loaded before -- including the intact file itself -- the damaged file is refused, on every path *)
Theorem C12_damaged_refused_after_any_history : forall p history f f' m,
  deserialize f = Loaded m -> bytes_ok f -> bytes_ok f' ->
  firstn 32 f' = firstn 32 f -> burst_le32 (skipn 32 f) (skipn 32 f') ->
  session_verdict p history f' = Some Refused.
Proof. exact damaged_refused_after_any_history. Qed.
Print Assumptions C12_damaged_refused_after_any_history.

Theorem C12_truncated_refused_after_any_history : forall p history m n,
  wf_module m -> (n < length (serialize m))%nat ->
  session_verdict p history (firstn n (serialize m)) = Some Refused.
Proof. exact truncated_refused_after_any_history. Qed.
Print Assumptions C12_truncated_refused_after_any_history.

(* ---- non-vacuity: the hypotheses are satisfiable and the positive theorems have instances ---- *)
Example C12_witness_loads : deserialize (serialize witness_m) = Loaded (stamp witness_m).
Proof. vm_compute. reflexivity. Qed.

Example C12_witness_damage_refused :
  let f := serialize witness_m in
  forallb (fun f' => match deserialize f' with Refused => true | _ => false end)
    [ firstn 40 f ++ [N.lxor (nth 40 f 0) 16] ++ skipn 41 f;     (* one bit of the directory *)
      firstn 80 f ++ [1; 2; 3; 4] ++ skipn 84 f;                   (* four code bytes *)
      firstn (length f - 1) f;                                     (* last byte cut *)
      firstn 45 f;                                                 (* cut inside the directory *)
      f ++ [0];                                                    (* an arbitrary tail: caught by the CRC *)
      [77] ++ skipn 1 f;                                           (* magic *)
      firstn 4 f ++ [2] ++ skipn 5 f ] = true.                     (* version *)
Proof. vm_compute. reflexivity. Qed.
