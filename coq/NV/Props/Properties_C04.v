(* C04 -- accepted programs never get stuck on any backend.
   Property theorems only.  The theorems are about the REFERENCE type checker Lang/Types.wt (a transcription of the
   static rules of the specification); that the real checker src/typechecker.c accepts exactly what wt accepts is the
   correspondence obligation of tools/props/c04.py (two-sided, on generated programs and their mutants), and the places
   where it does not are the findings of known_findings.d/C04.json. *)
From Coq Require Import ZArith NArith List Bool.
From NV Require Import Lang.Ast Lang.Ref Lang.Types Lang.TypeSound Lang.TypeExamples Back.VmCompile Back.NatSem Back.Agree Back.CodegenTotal.
Import ListNotations.

(* headline: a program the reference checker accepts never reaches a stuck state of the reference semantics
   (no operator applied to a value of the wrong type, no unbound name, no unknown function, no arity mismatch,
   no assignment to an immutable or unbound variable, no break/continue outside a loop, main yields an int) --
   whatever the fuel: all programs, all runs, calls and recursion included *)
Theorem C04_wt_sound : forall p, wt p = true -> forall fuel, run_ref fuel p <> StuckO.
Proof. exact wt_sound. Qed.
Print Assumptions C04_wt_sound.

(* the invariant behind it, for expressions: the value has the static type *)
Theorem C04_expr_preservation : forall fns F G genv, env_ok genv G ->
  (forall f ps r, slookup f F = Some (ps, r) ->
     exists d, find_fn fns f = Some d /\ map snd (fparams d) = ps /\ fret d = r /\ wt_fn F G d = true) ->
  forall fuel L en e t out, env_ok en L -> ty_expr F G L e = Some t ->
  match eval_expr fns fuel genv en e out with Stuck => False | Ok v _ => has_ty v t | _ => True end.
Proof. intros fns F G genv HG HF fuel. exact (proj1 (all_sound fns F G genv HG HF fuel)). Qed.
Print Assumptions C04_expr_preservation.

(* native engine model: with left-to-right arguments it IS the reference semantics, so an accepted program whose C text
   the C compiler takes (no self-referential shadowing let: finding lang:self-ref-shadow) never gets stuck natively *)
Theorem C04_native_not_stuck : forall p, wt p = true -> cc_refuses p = false ->
  forall fuel, run_nat LtoR fuel p <> NStuckO /\ run_nat LtoR fuel p <> NCcFailO.
Proof. exact native_not_stuck. Qed.
Print Assumptions C04_native_not_stuck.

(* bytecode generation: on an accepted program every name, function and loop context resolves -- the compiler model
   produces instruction lists for all function bodies and global initialisers (no "undefined variable/function",
   no break outside a loop).  _partial: the byte ENCODING of those instructions (operands fit their widths) and the
   bytecode verifier are not covered here; the run correspondence of C02/C04 checks them on every generated program *)
Theorem C04_codegen_names_resolve_partial : forall p, wt p = true ->
  forall d, In d (pfns p) -> forall pool,
  compile_stmt (genv_of p) 0 None (map fst (fparams d)) (fbody d) pool <> None.
Proof. exact codegen_names_resolve. Qed.
Print Assumptions C04_codegen_names_resolve_partial.

(* hypotheses are satisfiable: a program with globals, recursion-free calls, loops, shadow-free blocks, strings *)
Example C04_example_accepted : wt ex_prog = true.
Proof. vm_compute. reflexivity. Qed.
Example C04_example_runs : run_ref 200 ex_prog = Done [48;10;49;10;51;10;98;105;103;10]%N 6.
Proof. vm_compute. reflexivity. Qed.
Example C04_example_compiles : compile_program ex_prog <> None.
Proof. vm_compute. discriminate. Qed.

(* ---- the VM, through the compiler-correctness simulation (Back/VmSim*.v) ----
   At EVERY step budget the VM running the compiled bytecode of an accepted program either is still running, or ends
   exactly like the reference semantics, or stops at its documented frame-stack limit.  None of the machine's internal
   errors (type mismatch, stack underflow, bad local/global index, running off the code, a signal) is reachable. *)
From NV Require Import Back.VmExec Back.VmSimDefs Back.VmSimMod Back.VmSimFinal Back.VmSimExamples Back.VmFuel.

Theorem C04_vm_fuel_is_only_a_budget : forall M n k r, run_vm n M = r -> r <> VOutOfFuel -> run_vm (n + k) M = r.
Proof. exact run_vm_mono. Qed.
Print Assumptions C04_vm_fuel_is_only_a_budget.

Theorem C04_accepted_vm_faithful : forall pr M fuel,
  wt pr = true -> compile_program pr = Some M -> small_program pr -> fuel_small fuel ->
  match run_ref fuel pr with
  | Done out ex => forall fv, run_vm fv M = VOutOfFuel \/ run_vm fv M = VDone out ex \/ exists o, run_vm fv M = VError ECallDepth o
  | Faulted FAssert out => forall fv, run_vm fv M = VOutOfFuel \/ run_vm fv M = VError EAssert out \/ exists o, run_vm fv M = VError ECallDepth o
  | Faulted FOob out => forall fv, run_vm fv M = VOutOfFuel \/ run_vm fv M = VError EOob out \/ exists o, run_vm fv M = VError ECallDepth o
  | StuckO => False
  | _ => True
  end.
Proof. exact accepted_vm_faithful. Qed.
Print Assumptions C04_accepted_vm_faithful.

Theorem C04_accepted_vm_no_internal_error : forall pr M fuel,
  wt pr = true -> compile_program pr = Some M -> small_program pr -> fuel_small fuel ->
  (exists out ex, run_ref fuel pr = Done out ex) \/ (exists out, run_ref fuel pr = Faulted FAssert out) ->
  forall fv, match run_vm fv M with
             | VBad | VFellOff _ | VSignal _ => False
             | VError e _ => e = ECallDepth \/ e = EAssert
             | _ => True end.
Proof.
  intros pr M fuel Hwt Hc Hs Hf Hr fv. pose proof (accepted_vm_no_internal_error pr M fuel Hwt Hc Hs Hf Hr fv) as H.
  unfold vm_internal in H. destruct (run_vm fv M) as [| e o | | | |]; try exact I; try (apply H; exact I).
  destruct e; try (exfalso; apply H; split; discriminate); [left|right]; reflexivity.
Qed.
Print Assumptions C04_accepted_vm_no_internal_error.

(* satisfiable: the simulation's example program (global, recursion, for/while/break/continue, strings) is accepted *)
Example C04_vm_example_accepted : wt VmSimExamples.ex_prog = true /\ small_program VmSimExamples.ex_prog.
Proof. split; [vm_compute; reflexivity | exact ex_prog_small]. Qed.

(* arrays: accepted array programs are covered by every theorem above (an index out of range is a documented run-time
   fault, not a stuck state: C04_wt_sound quantifies over it); the hypotheses are satisfiable on them *)
Example C04_array_example_accepted : wt VmSimExamples.ex_arr = true /\ small_program VmSimExamples.ex_arr /\
                                     wt VmSimExamples.ex_oob = true /\ small_program VmSimExamples.ex_oob.
Proof. exact ex_arrays_accepted. Qed.
Example C04_out_of_range_is_a_fault_not_stuck : run_ref 100 VmSimExamples.ex_oob = Faulted FOob [49; 10]%N.
Proof. vm_compute. reflexivity. Qed.

(* strings as computed values: accepted string programs are covered by every theorem above; an operand outside the domain on
   which the engines agree is a fault of the reference (FStrDomain), not a stuck state *)
Example C04_string_example_accepted : wt VmSimExamples.ex_str = true /\ small_program VmSimExamples.ex_str.
Proof. exact ex_str_accepted. Qed.
Example C04_string_domain_is_a_fault_not_stuck : wt VmSimExamples.ex_str_dom = true /\ run_ref 50 VmSimExamples.ex_str_dom = Faulted FStrDomain [].
Proof. split; vm_compute; reflexivity. Qed.
