(* C06 -- shadow tests gate compilation.
   Only property theorems here, each closed by [exact <lemma>] and followed by Print Assumptions.

   nanoc ph fuel sp base (Driver/ShadowGate) = the driver: phases 1-4 ([front_ok ph], an input), phase 5 = run_shadow_tests
   as a fold over the shadow blocks with the evaluator model Back/InterpSem, phases 6-7 ([later_ok ph], an input).
   A pre-existing file at the output path is outside the model.  A test skipped by the extern rule ([sh_skip]) is not
   executed and cannot fail.  Tie: exit status, FAILED lines, "Shadow tests failed", presence of the -o file and the
   missing-shadow warnings of the real nanoc vs this model on every generated case (tools/props/c06.py).

   gate_iff quantifies over whatever list of results the fold produced and whatever assertions each test executed:
   position, count and nesting of the failing assertion are arbitrary.  gate_iff_ref states the gate against the REFERENCE
   truth values; it needs names_apart (Back/NamesApart) because the evaluator's truth values are the reference's only
   then (C03): without it the gate errs in both directions (C06_gate_refuted). *)
From Coq Require Import ZArith NArith List Bool.
From NV Require Import Lang.Ast Lang.Ref Back.InterpSem Driver.ShadowGate Back.NamesApart Back.InterpCorrect Back.InterpWitness Back.InterpRefuted
                       Driver.ShadowGateProofs.
Import ListNotations.

Theorem C06_gate_iff : forall ph fuel sp base rs sk stk,
  front_ok ph = true -> later_ok ph = true -> run_interp fuel sp base = TDone rs sk stk ->
  (produces_binary (nanoc ph fuel sp base) <-> forall t, In t rs -> forall a, In a (tr_asserts t) -> a = true).
Proof. exact gate_iff. Qed.
Print Assumptions C06_gate_iff.

Theorem C06_gate_exit_status : forall ph fuel sp base rs sk stk,
  front_ok ph = true -> later_ok ph = true -> run_interp fuel sp base = TDone rs sk stk ->
  (produces_binary (nanoc ph fuel sp base) <-> exit_zero (nanoc ph fuel sp base)) /\
  (all_passed rs = false -> exists rep w, nanoc ph fuel sp base = NExit 1 false rep w /\ In RShadowTestsFailed rep).
Proof. exact gate_exit_status. Qed.
Print Assumptions C06_gate_exit_status.

Theorem C06_binary_only_after_passing : forall ph fuel sp base,
  produces_binary (nanoc ph fuel sp base) ->
  front_ok ph = true /\ later_ok ph = true /\ exists rs sk stk, run_interp fuel sp base = TDone rs sk stk /\ all_passed rs = true.
Proof. exact binary_only_after_passing. Qed.
Print Assumptions C06_binary_only_after_passing.

Theorem C06_gate_names_test : forall ph fuel sp base rs sk stk t,
  front_ok ph = true -> run_interp fuel sp base = TDone rs sk stk ->
  In t rs -> In false (tr_asserts t) ->
  exists c rep w, nanoc ph fuel sp base = NExit c false rep w /\ c = 1%Z /\
                  In (RFailed (tr_name t) (fail_count t)) rep /\ fail_count t > 0 /\ In RShadowTestsFailed rep.
Proof. exact gate_names_test. Qed.
Print Assumptions C06_gate_names_test.

(* exactly the non-skipped tests run, in source order *)
Theorem C06_executed_tests : forall fns fuel shs stk rs sk stk',
  run_tests fns fuel shs stk = TDone rs sk stk' ->
  map tr_name rs = map sh_fn (filter (fun sh => negb (sh_skip sh)) shs) /\ sk = map sh_fn (filter sh_skip shs).
Proof. exact run_tests_names. Qed.
Print Assumptions C06_executed_tests.

Theorem C06_missing_shadow_reported : forall ph fuel sp base c b rep w d,
  nanoc ph fuel sp base = NExit c b rep w -> front_ok ph = true ->
  In d (pfns (sp_prog sp)) -> fname d <> pmain (sp_prog sp) -> ~ In (fname d) (sp_imported sp) -> has_shadow sp (fname d) = false ->
  In (fname d) w.
Proof. exact missing_shadow_reported. Qed.
Print Assumptions C06_missing_shadow_reported.

(* the gate against the truth values of the language (reference semantics) *)
Theorem C06_gate_iff_ref : forall ph fuel sp base genv gout,
  names_apart sp = true ->
  eval_globals (pfns (sp_prog sp)) fuel (pglobals (sp_prog sp)) [] [] = Ok genv gout ->
  (forall sh, In sh (sp_shadows sp) -> sh_skip sh = false -> ref_defined (ref_test (pfns (sp_prog sp)) fuel genv (sh_body sh))) ->
  front_ok ph = true -> later_ok ph = true ->
  (produces_binary (nanoc ph fuel sp base) <->
   forall sh, In sh (sp_shadows sp) -> sh_skip sh = false -> exists r out, ref_test (pfns (sp_prog sp)) fuel genv (sh_body sh) = Ok r out).
Proof. exact gate_iff_ref. Qed.
Print Assumptions C06_gate_iff_ref.

(* without names_apart gate_iff_ref is false in the model of the unchanged evaluator, in both directions:
   a program whose every assertion holds is refused (SPECIFICATION 8.1), and one with a false assertion gets its executable *)
Theorem C06_gate_refuted :
  refutes sp81 60 /\
  (names_apart sp81_unsound = false /\
   exists genv gout rs sk stk,
     eval_globals (pfns p81) 60 (pglobals p81) [] [] = Ok genv gout /\
     (exists out, ref_test (pfns p81) 60 genv (SAssert (eqz (call0 3%N) 20%Z)) = Fault FAssert out) /\
     run_interp 60 sp81_unsound [] = TDone rs sk stk /\ all_passed rs = true).
Proof. exact (conj refuted_spec_8_1 unsound_pass_spec_8_1). Qed.
Print Assumptions C06_gate_refuted.

(* which blocks run: ALL of them.  sp_shadows is the list of every shadow block of the compiled file in source order; a function
   may have several (C06_executed_tests above speaks about the whole list, duplicates included).  Two blocks for function 2, the
   first one false, the last one true: refused, the failing block named *)
Example C06_every_block_runs_example :
  nanoc {| front_ok := true; later_ok := true |} 200 spmulti [] =
  NExit 1 false [RTesting 2%N [] false; RFailed 2%N 1; RTesting 0%N [] true; RTesting 2%N [] true; RShadowTestsFailed] [].
Proof. exact every_block_runs. Qed.
Example C06_gate_open_example : produces_binary (nanoc {| front_ok := true; later_ok := true |} 200 spgood []).
Proof. vm_compute. exact I. Qed.
Example C06_gate_closed_example :
  nanoc {| front_ok := true; later_ok := true |} 200 spgood_failing [] =
  NExit 1 false [RTesting 2%N [] true; RTesting 4%N [55; 10; 56; 10; 49; 48; 10; 55; 10; 56; 10; 49; 48; 10]%N false; RFailed 4%N 2; RShadowTestsFailed] [].
Proof. vm_compute. reflexivity. Qed.

(* ---- arrays: an index out of range inside a shadow test.  The evaluator calls exit(1) on the spot ("Runtime Error: Array
   index out of bounds"): no summary, exit status 1, nothing at the output path -- the gate stays closed, as it must (the
   reference semantics faults at the same access, after the same output) *)
Theorem C06_out_of_range_in_shadow_test_refuses :
  run_interp 60 sparr_oob [] = TOob (Some 4%N) [49; 10]%N /\
  ref_tests 60 sparr_oob = Some [(4%N, Fault FOob [49; 10]%N)] /\
  (forall ph, front_ok ph = true -> nanoc ph 60 sparr_oob [] = NExit 1 false [] [2%N]).
Proof. exact oob_at_compile_time. Qed.
Print Assumptions C06_out_of_range_in_shadow_test_refuses.

Example C06_gate_open_arrays_example : produces_binary (nanoc {| front_ok := true; later_ok := true |} 60 sparr_good []).
Proof. vm_compute. exact I. Qed.

(* strings as computed values: the gate opens on the string program inside names_apart ... *)
Example C06_gate_open_strings_example : produces_binary (nanoc {| front_ok := true; later_ok := true |} 80 spstr_good []).
Proof. vm_compute. exact I. Qed.
(* ... and refuses a correct program outside clause (e): (str_substring v1 3 2) with v1 = "abc" is "" in the language, void
   in the evaluator (finding c03:builtin:str_substring:start-at-or-past-the-end-is-void-in-the-evaluator) *)
Theorem C06_gate_refuses_substring_past_the_end :
  refutes spstr_past_end 80 /\
  nanoc {| front_ok := true; later_ok := true |} 80 spstr_past_end [] = NExit 1 false [RTesting 4%N [] false; RFailed 4%N 1; RShadowTestsFailed] [2%N].
Proof. exact gate_refuses_substring_past_end. Qed.
Print Assumptions C06_gate_refuses_substring_past_the_end.
