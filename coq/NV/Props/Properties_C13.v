(* C13 -- no bytecode input can make the loader, verifier or VM misbehave.
   Only property theorems here, each closed by [exact <lemma>] (or vm_compute on generated data) and followed by
   Print Assumptions.  [cur] is NV.gen.C13Cfg.cur: which candidate repairs the CURRENT source contains (regenerated on
   every run by tools/gen/gen_c13cfg.py and tested by the correspondence run against the real code).
   Outcomes: LCrash / VCrash / Crash = the C performs an access outside an object (or recursion without bound);
   Signal = fatal signal (SIGFPE); LFuel / VFuel = the loader/verifier loop does not end within its own bound.
   The headline theorems are stated for [cur], i.e. for the code as it is now, with no premise about repairs: they compile only
   while the current source contains the six bounds/overflow repairs (if one is reverted, [cur] changes, the proof breaks and the
   check replays the corresponding witness input of C13_repairs_necessary on the real binaries).  The cfg-parametrised forms
   (..._cfg) are kept as the lemmas they follow from. *)
From Coq Require Import NArith ZArith List Bool String.
From NV Require Import Base.Bytes Isa.Codec gen.IsaTable gen.C13Cfg Nvm.LoaderC Nvm.LoaderCProofs Nvm.Verifier Nvm.VerifierProofs
  Vm.Value Vm.Bounds Vm.IsaModelled Vm.Step Vm.StepProofs Vm.Run Vm.RunProofs.
Import ListNotations.
Local Open Scope N_scope.

(* the instruction table regenerated from the current isa.c is the one the VM / verifier model was written against
   (opcode numbers, names, operand kinds) *)
Theorem C13_isa_as_modelled : table_list = modelled_table.
Proof. vm_compute. reflexivity. Qed.
Print Assumptions C13_isa_as_modelled.

(* ---- loader ---- *)
Theorem C13_loader_safe_cfg : forall c data,
  fx_sec c = true -> fx_slen c = true -> bytes_ok data -> N.of_nat (List.length data) < BIG ->
  (deserializeC c data <> LCrash /\ deserializeC c data <> LFuel) /\
  (forall m, deserializeC c data = Loaded m -> code_fits m).
Proof. exact loader_safe_fixed. Qed.
Print Assumptions C13_loader_safe_cfg.

(* the current loader: for every byte string below 2^27 bytes, no access outside the buffer, the loops end *)
Theorem C13_loader_safe : forall data, bytes_ok data -> N.of_nat (List.length data) < BIG ->
  deserializeC cur data <> LCrash /\ deserializeC cur data <> LFuel.
Proof. intros data H1 H2. exact (proj1 (loader_safe_fixed cur data eq_refl eq_refl H1 H2)). Qed.
Print Assumptions C13_loader_safe.

(* the current loader is strict: a FUNCTIONS / DEBUG section that is accepted consists of whole 18- / 8-byte entries
   (a truncated last entry or left-over bytes refuse the file; the STRINGS and IMPORTS loops have the same exit test) *)
Theorem C13_loader_whole_entries : forall data size base ssz fuel m m',
  (ssz + 18 < two32 -> load_funs cur fuel data size base ssz 0 m = Loaded m' -> ssz mod 18 = 0) /\
  (ssz + 8 < two32 -> load_debug cur fuel data size base ssz 0 m = Loaded m' -> ssz mod 8 = 0).
Proof.
  intros data size base ssz fuel m m'. split; intros Hb H.
  - pose proof (strict_funs_whole cur data size base ssz eq_refl Hb fuel 0 m m' (N.le_0_l _) H) as E. rewrite N.sub_0_r in E. exact E.
  - pose proof (strict_debug_whole cur data size base ssz eq_refl Hb fuel 0 m m' (N.le_0_l _) H) as E. rewrite N.sub_0_r in E. exact E.
Qed.
Print Assumptions C13_loader_whole_entries.

(* ---- verifier ---- *)
Theorem C13_verifier_safe_cfg : forall c m, fx_fnrange c = true -> code_fits m -> verifyC c m = VReject \/ verifyC c m = VAccept.
Proof. exact verifier_safe_fixed. Qed.
Print Assumptions C13_verifier_safe_cfg.

(* the current verifier on whatever the current loader produced: accepts or rejects, never reads outside the code buffer, ends *)
Theorem C13_verifier_safe : forall data m, bytes_ok data -> N.of_nat (List.length data) < BIG ->
  deserializeC cur data = Loaded m -> verifyC cur m = VReject \/ verifyC cur m = VAccept.
Proof.
  intros data m H1 H2 H3. apply verifier_safe_fixed; [reflexivity|].
  exact (proj2 (loader_safe_fixed cur data eq_refl eq_refl H1 H2) m H3).
Qed.
Print Assumptions C13_verifier_safe.

(* every position the verifier walked in an accepted module decodes (for every cfg, repaired or not) *)
Theorem C13_sweep_decodes : forall c m, verifyC c m = VAccept ->
  forall f, In f (m_funs m) -> forall pos, on_sweep m f pos -> pos < f_len f ->
  exists i n, fetch m (f_off f + pos) (f_len f - pos) = FOk i n /\ instr_bad m f pos i = false.
Proof. exact sweep_decodes. Qed.
Print Assumptions C13_sweep_decodes.

(* ... and what decodes is executed: no VM_ERR_DECODE (previous theorem) and no VM_ERR_INVALID_OPCODE on a verified position *)
Theorem C13_no_invalid_opcode : forall c m s fr frs ip start avail i n,
  fetch m start avail = FOk i n -> not_invalid (exec_instr c m s fr frs ip i n).
Proof. intros. apply exec_instr_not_invalid. eapply fetch_ok_in_table; eassumption. Qed.
Print Assumptions C13_no_invalid_opcode.

(* ---- VM ----
   vm_safe_partial: for EVERY byte string below 2^27 bytes and EVERY fuel, load + verify + run of the current code never reaches
   Crash or a Signal (pipe_safe also excludes a loader/verifier Crash or non-termination).  "partial": the run may end in Unmodelled, i.e. leave the modelled opcode set
   (all opcodes of the table except PUSH_F64, CAST_FLOAT, HM_NEW..HM_LEN, ADD/SUB/MUL/DIV with an array operand,
   CALL_EXTERN with a valid import index); reference counting / free (C14) and the C stack depth
   of recursive C helpers on deep acyclic values are not part of this model. *)
Theorem C13_vm_safe_partial_cfg : forall c data fuel,
  c13_fixed c = true -> bytes_ok data -> N.of_nat (List.length data) < BIG -> pipe_safe (pipeline c data fuel).
Proof. exact pipeline_safe. Qed.
Print Assumptions C13_vm_safe_partial_cfg.

(* the current code, no premise: every byte string, every instruction budget *)
Theorem C13_vm_safe_partial : forall data fuel,
  bytes_ok data -> N.of_nat (List.length data) < BIG -> pipe_safe (pipeline cur data fuel).
Proof. intros data fuel. exact (pipeline_safe cur data fuel eq_refl). Qed.
Print Assumptions C13_vm_safe_partial.

(* one instruction: the state invariant (every reference on the stack, in globals, in heap cells and frames denotes a cell
   of its kind; frames name existing functions) is kept, and no Crash/Signal outcome is produced *)
Theorem C13_step_inv : forall m s fr frs ip i n, wf m s -> st_frames s = fr :: frs -> good m (exec_instr cur m s fr frs ip i n).
Proof. exact (fun m => exec_instr_good cur m eq_refl eq_refl eq_refl). Qed.
Print Assumptions C13_step_inv.

(* each of the six repairs is necessary and together they are sufficient: for any combination c of repairs the pipeline is safe on all
   inputs iff all six are present (the "only if" direction carries the computed witness files w_sec, w_slen, w_fnrange, w_div, w_substr,
   w_cycle that were replayed on the unrepaired binaries; known_findings.d/C13.json, status fixed) *)
Theorem C13_repairs_necessary : forall c,
  (forall data fuel, bytes_ok data -> N.of_nat (List.length data) < BIG -> pipe_safe (pipeline c data fuel)) <-> c13_fixed c = true.
Proof.
  intros c; split.
  - intros H. destruct (c13_fixed c) eqn:E; [reflexivity|].
    destruct (pipeline_unsafe c E) as [data [fuel [A [B C]]]]. exfalso. apply C. apply H; assumption.
  - intros H data fuel A B. apply pipeline_safe; assumption.
Qed.
Print Assumptions C13_repairs_necessary.

(* non-vacuity: the hypotheses are satisfiable and the model runs real modules *)
Example C13_nonvacuous :
  c13_fixed cur = true /\ c13_fixed cfg_pinned = false /\
  finished_with (pipeline cfg_fixed w_hello 100) 0 [55; 10] = true /\ finished_with (pipeline cfg_pinned w_hello 100) 0 [55; 10] = true /\
  bytes_ok w_hello /\ on_sweep w_fn_module {| f_name := 0; f_arity := 0; f_off := 0; f_len := 10; f_locals := 0; f_upvals := 0 |} 9.
Proof.
  split; [vm_compute; reflexivity|]. split; [vm_compute; reflexivity|].
  split; [exact (proj1 w_hello_runs)|]. split; [exact (proj2 w_hello_runs)|].
  split; [apply bytes_okb_spec; vm_compute; reflexivity|].
  change 9 with (add32 0 9). eapply sw_next; [apply sw0 | vm_compute; reflexivity | vm_compute; reflexivity].
Qed.
Print Assumptions C13_nonvacuous.
