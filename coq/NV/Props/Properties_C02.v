(* C02 -- every execution engine implements the defined semantics (spec + NanoCore model).
   Property theorems only.  Ref = Lang/Ref.v (transcription of the specification), VM = Back/VmExec.v fetching
   bytes produced by Back/VmCompile.v; both engine models are tied to the code by tools/props/c02.py. *)
From Coq Require Import ZArith NArith List Bool.
From NV Require Import Lang.Ast Lang.Ref Lang.RefArrays Back.VmCompile Back.VmExec Back.OpTable gen.IsaTable.
Import ListNotations.
Local Open Scope Z_scope.

(* operator table, every operand pair: + - * / % on the VM compute what the specification prescribes
   (64-bit wrap, truncating division) whenever the operation is not one of the two partial cases *)
Theorem C02_arith_table : forall o x y,
  is_arith o = true -> partial_ok o x y ->
  exists z, arith (binop_code o) x y = Some z /\ eval_binop o (VInt x) (VInt y) = OV (VInt z).
Proof. exact arith_matches_ref. Qed.
Print Assumptions C02_arith_table.

Theorem C02_compare_table : forall o x y,
  match o with BLt | BLe | BGt | BGe | BEq | BNe => True | _ => False end ->
  exists b, eval_binop o (VInt x) (VInt y) = OV (VBool b) /\
            b = match o with
                | BEq => val_equal (MInt x) (MInt y) | BNe => negb (val_equal (MInt x) (MInt y))
                | BLt => Z.ltb (val_compare (MInt x) (MInt y)) 0 | BLe => Z.leb (val_compare (MInt x) (MInt y)) 0
                | BGt => Z.gtb (val_compare (MInt x) (MInt y)) 0 | _ => Z.geb (val_compare (MInt x) (MInt y)) 0 end.
Proof. exact cmp_matches_ref. Qed.
Print Assumptions C02_compare_table.

Theorem C02_logic_table : forall (o : binop) (x y : bool),
  match o with BAnd | BOr => True | _ => False end ->
  eval_binop o (VBool x) (VBool y) =
  OV (VBool (match o with BAnd => truthy (MBool x) && truthy (MBool y) | _ => truthy (MBool x) || truthy (MBool y) end)).
Proof. exact logic_matches_ref. Qed.
Print Assumptions C02_logic_table.

(* the two partial cases are exactly the documented differences *)
Theorem C02_div_zero_documented : forall x,
  arith OP_DIV x 0 = Some 0 /\ arith OP_MOD x 0 = Some 0 /\ eval_binop BDiv (VInt x) (VInt 0) = OF FDivZero.
Proof. exact arith_div_zero. Qed.
Print Assumptions C02_div_zero_documented.

(* 64-bit wrapping integers: results stay in range and are congruent modulo 2^64 *)
Theorem C02_wrap64_range : forall z, in64 (wrap64 z) = true.
Proof. exact wrap64_range. Qed.
Print Assumptions C02_wrap64_range.
Theorem C02_wrap64_congruent : forall z, (wrap64 z - z) mod 18446744073709551616 = 0.
Proof. exact wrap64_congr. Qed.
Print Assumptions C02_wrap64_congruent.

(* ---- the NanoCore part: formal/{Syntax,Semantics,EvalFn}.v of the repository, copied on every run ---- *)
From NV Require Import Back.NanoCoreBridge Back.NanoCoreBridgeProofs.

(* on the common domain (every intermediate result an int64, division of a non-negative by a positive number) the
   language definition and the repository's proved evaluator assign the same value *)
Theorem C02_nanocore_bridge : forall fns e en v v' ne,
  all_scalar en -> exact_eval en e = Some v -> embed_val v = Some v' -> embed_expr e = Some ne ->
  forall fuel out, (esize e < fuel)%nat ->
    eval_expr fns fuel [] en e out = Ok v out /\ nanocore_eval fuel en e = Some v'.
Proof. exact bridge. Qed.
Print Assumptions C02_nanocore_bridge.

(* outside that domain they differ: the full statement "a verified function computes the value the proved semantics
   assigns" is refuted, with witnesses that are replayed on the real engines (known findings lang:nanocore-...) *)
Theorem C02_nanocore_division_refuted :
  exists e, eval_expr [] 10 [] [] e [] = Ok (VInt (-3)) [] /\ nanocore_eval_v 10 [] e = Some (VInt (-4)).
Proof. exists (EBin BDiv (ENum (-7)) (ENum 2)). split; vm_compute; reflexivity. Qed.
Print Assumptions C02_nanocore_division_refuted.

Theorem C02_nanocore_overflow_refuted :
  exists e, eval_expr [] 10 [] [] e [] = Ok (VInt (-9223372036854775808)) [] /\
            nanocore_eval_v 10 [] e = Some (VInt 9223372036854775808).
Proof. exists (EBin BAdd (ENum 9223372036854775807) (ENum 1)). split; vm_compute; reflexivity. Qed.
Print Assumptions C02_nanocore_overflow_refuted.

Example C02_nanocore_bridge_nonvacuous :
  exact_eval [(1%N, (false, VInt 7)); (2%N, (false, VBool true))]
             (ECond (EVar 2%N) (EBin BDiv (EBin BMul (EVar 1%N) (ENum 6)) (ENum 4)) (ENum 0)) = Some (VInt 10).
Proof. vm_compute. reflexivity. Qed.

(* ------------------------------------------------------------------------------------------------------------
   Compiler correctness (simulation): the reference semantics of the core language against the NanoVM executing,
   byte by byte, the code produced by the compiler model.  Proofs: Back/VmSim*.v (notes: Back/VMSIM_STATUS.md).
   ------------------------------------------------------------------------------------------------------------ *)
From NV Require Import Base.Bytes Isa.Codec Isa.CodecProofs Back.VmSimFetch Back.VmSimStep Back.VmSimComp Back.VmSimWf Back.VmSimEnv
  Back.VmSimDefs Back.VmSimExpr Back.VmSimStmt Back.VmSimLoop Back.VmSimCall Back.VmSimFor Back.VmSimAll Back.VmSimMod
  Back.VmSimFinal Back.VmSimExamples.

(* stage A: the machine's byte fetch inside a function's code region yields exactly the compiled instruction *)
Theorem C02_vm_fetch_at : forall M fn fe cf pos i c,
  fentry_at M fn = Some fe -> fn_code M fe cf -> code_at cf pos (i :: c) ->
  at_instr M fn (fe_off fe + pos)%nat i.
Proof. exact fetch_at. Qed.
Print Assumptions C02_vm_fetch_at.

(* stage A: every instruction the statement compiler emits has its operands in range (so it survives encode/decode);
   lits_small: an array literal has fewer than 2^16 elements -- the element count is a u16 operand of ARR_LITERAL
   (the real compiler truncates it: finding lang:array-literal-count-u16) *)
Theorem C02_vm_compile_wf : forall G s pos L ce p c ce' p',
  compile_stmt G pos L ce s p = Some (c, ce', p') -> lims G (length ce') (length p') -> lits_small s ->
  Forall (wf_instr table) c.
Proof. exact compile_stmt_wf. Qed.
Print Assumptions C02_vm_compile_wf.

(* stage B: expressions without calls *)
Theorem C02_vm_sim_expr_no_call : forall fns G M, (length (g_globals G) <= VM_MAX_GLOBALS_N)%nat ->
  forall fuel e, no_call e -> expr_sim fns G M fuel e.
Proof. exact sim_expr_no_call. Qed.
Print Assumptions C02_vm_sim_expr_no_call.

(* stages C and D: statements without calls and without for (incl. while / break / continue / return / assert) *)
Theorem C02_vm_sim_stmt_plain : forall fns G M, (length (g_globals G) <= VM_MAX_GLOBALS_N)%nat ->
  forall fuel s, plain s -> stmt_sim fns G M fuel s.
Proof. exact sim_stmt_plain. Qed.
Print Assumptions C02_vm_sim_stmt_plain.

(* stages B-F together: every expression, statement and for-loop of the core language, calls and recursion included *)
Theorem C02_vm_sim_all : forall fns G M, (length (g_globals G) <= VM_MAX_GLOBALS_N)%nat -> fns_compiled fns G M ->
  forall fuel,
  (forall e, expr_sim fns G M fuel e) /\ (forall s, stmt_sim fns G M fuel s) /\ (forall x body, for_sim fns G M fuel x body).
Proof. exact sim_all. Qed.
Print Assumptions C02_vm_sim_all.

(* stage G: whole programs.  The only alternative outcome is the machine's documented frame-stack limit. *)
Theorem C02_vm_correct : forall pr M fuel out ex,
  compile_program pr = Some M -> small_program pr -> fuel_small fuel ->
  run_ref fuel pr = Done out ex ->
  (exists fuel', run_vm fuel' M = VDone out ex) \/ (exists fuel' o, run_vm fuel' M = VError ECallDepth o).
Proof. exact vm_correct. Qed.
Print Assumptions C02_vm_correct.

Theorem C02_vm_correct_assert : forall pr M fuel out,
  compile_program pr = Some M -> small_program pr -> fuel_small fuel ->
  run_ref fuel pr = Faulted FAssert out ->
  (exists fuel', run_vm fuel' M = VError EAssert out) \/ (exists fuel' o, run_vm fuel' M = VError ECallDepth o).
Proof. exact vm_correct_assert. Qed.
Print Assumptions C02_vm_correct_assert.

Theorem C02_vm_correct_depth_ok : forall pr M fuel out ex,
  compile_program pr = Some M -> small_program pr -> fuel_small fuel -> depth_ok M ->
  run_ref fuel pr = Done out ex -> exists fuel', run_vm fuel' M = VDone out ex.
Proof. exact vm_correct_depth_ok. Qed.
Print Assumptions C02_vm_correct_depth_ok.

(* the hypotheses are satisfiable: a program with a global, recursion, for/while/break/continue, strings, and/or, cond *)
Example C02_vm_correct_example : exists M, compile_program ex_prog = Some M /\
  run_ref 200%nat ex_prog = Done [104; 105; 10; 53; 53; 10]%N 10 /\
  ((exists fuel', run_vm fuel' M = VDone [104; 105; 10; 53; 53; 10]%N 10) \/
   (exists fuel' o, run_vm fuel' M = VError ECallDepth o)) /\
  run_vm 5000%nat M = VDone [104; 105; 10; 53; 53; 10]%N 10.
Proof. exact ex_prog_correct. Qed.
Print Assumptions C02_vm_correct_example.

(* regression for the implicit-return epilogue: `fn f() { if c { return } }` with c false used to run off the end of its
   bytecode (VFellOff); with the unconditional epilogue it is an ordinary instance of the theorem *)
Example C02_vm_fall_through_returns_void : exists M, compile_program ex_fall = Some M /\
  run_ref 50%nat ex_fall = Done [55; 10]%N 0 /\
  ((exists fuel', run_vm fuel' M = VDone [55; 10]%N 0) \/ (exists fuel' o, run_vm fuel' M = VError ECallDepth o)) /\
  run_vm 500%nat M = VDone [55; 10]%N 0.
Proof. exact fall_through_returns_void. Qed.
Print Assumptions C02_vm_fall_through_returns_void.

(* ---- arrays (immutable array<int>: literals, at, array_length) ----
   An index outside 0 <= i < length is a fault of the reference semantics (FOob); the VM stops there with its bounds
   error and exactly the output produced so far -- the access never yields a value the program keeps computing with. *)
Theorem C02_vm_correct_oob : forall pr M fuel out,
  compile_program pr = Some M -> small_program pr -> fuel_small fuel ->
  run_ref fuel pr = Faulted FOob out ->
  (exists fuel', run_vm fuel' M = VError EOob out) \/ (exists fuel' o, run_vm fuel' M = VError ECallDepth o).
Proof. exact vm_correct_oob. Qed.
Print Assumptions C02_vm_correct_oob.

Theorem C02_vm_correct_oob_depth_ok : forall pr M fuel out,
  compile_program pr = Some M -> small_program pr -> fuel_small fuel -> depth_ok M ->
  run_ref fuel pr = Faulted FOob out -> exists fuel', run_vm fuel' M = VError EOob out.
Proof. exact vm_correct_oob_depth_ok. Qed.
Print Assumptions C02_vm_correct_oob_depth_ok.

(* the reference semantics of at, stated on its own: in range the element, out of range the fault -- for every array,
   every index in Z (negative, = length, beyond 2^32) *)
Theorem C02_at_in_range_or_fault : forall fns fuel genv en a i out l k out1 out2,
  eval_expr fns fuel genv en a out = Ok (VArr l) out1 ->
  eval_expr fns fuel genv en i out1 = Ok (VInt k) out2 ->
  eval_expr fns (S fuel) genv en (EAt a i) out =
  if ((0 <=? k) && (k <? Z.of_nat (length l)))%bool then Ok (VInt (nth (Z.to_nat k) l 0)) out2 else Fault FOob out2.
Proof. exact at_in_range_or_fault. Qed.
Print Assumptions C02_at_in_range_or_fault.

(* hypotheses satisfiable on array programs: a global array, array parameter / result, whole-array assignment, the empty
   literal, array_length, at under a loop index, printing an array ... *)
Example C02_vm_correct_arrays_example : exists M, compile_program ex_arr = Some M /\
  run_ref 200%nat ex_arr = Done [50; 10; 91; 53; 44; 32; 54; 44; 32; 55; 93; 10; 53; 10; 54; 10; 55; 10]%N 11 /\
  ((exists fuel', run_vm fuel' M = VDone [50; 10; 91; 53; 44; 32; 54; 44; 32; 55; 93; 10; 53; 10; 54; 10; 55; 10]%N 11) \/
   (exists fuel' o, run_vm fuel' M = VError ECallDepth o)) /\
  run_vm 5000%nat M = VDone [50; 10; 91; 53; 44; 32; 54; 44; 32; 55; 93; 10; 53; 10; 54; 10; 55; 10]%N 11.
Proof. exact ex_arr_correct. Qed.
Print Assumptions C02_vm_correct_arrays_example.

(* ... and on string programs (every string operation of the fragment: + on strings, str_concat, str_length, str_equals,
   str_contains, char_at, str_substring, int_to_string; a global string, string parameter / result, assignment) *)
Example C02_vm_correct_strings_example : exists M, compile_program ex_str = Some M /\
  run_ref 200%nat ex_str = Done ex_str_out 119 /\
  ((exists fuel', run_vm fuel' M = VDone ex_str_out 119) \/ (exists fuel' o, run_vm fuel' M = VError ECallDepth o)) /\
  run_vm 5000%nat M = VDone ex_str_out 119.
Proof. exact ex_str_correct. Qed.
Print Assumptions C02_vm_correct_strings_example.
(* outside the domain on which the two engines agree the reference is undefined and vm_correct says nothing *)
Example C02_char_at_outside_the_common_domain : exists M, compile_program ex_str_dom = Some M /\
  run_ref 50%nat ex_str_dom = Faulted FStrDomain [] /\ run_vm 500%nat M = VDone [45; 49; 10]%N 0.
Proof. exact ex_str_dom_runs. Qed.

(* ... and (at v1 3) on a three-element array after "1" was printed *)
Example C02_vm_correct_oob_example : exists M, compile_program ex_oob = Some M /\
  run_ref 100%nat ex_oob = Faulted FOob [49; 10]%N /\
  ((exists fuel', run_vm fuel' M = VError EOob [49; 10]%N) \/ (exists fuel' o, run_vm fuel' M = VError ECallDepth o)) /\
  run_vm 500%nat M = VError EOob [49; 10]%N.
Proof. exact ex_oob_traps. Qed.
Print Assumptions C02_vm_correct_oob_example.
