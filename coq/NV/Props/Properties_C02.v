(* C02 -- every execution engine implements the defined semantics (spec + NanoCore model).
   Property theorems only.  Ref = Lang/Ref.v (transcription of the specification), VM = Back/VmExec.v fetching
   bytes produced by Back/VmCompile.v; both engine models are tied to the code by tools/props/c02.py. *)
From Coq Require Import ZArith NArith List Bool.
From NV Require Import Lang.Ast Lang.Ref Back.VmCompile Back.VmExec Back.OpTable gen.IsaTable.
Import ListNotations.
Local Open Scope Z_scope.

(* operator table, every operand pair: + - * / % on the VM compute what the specification prescribes
   (64-bit wrap, truncating division) whenever the operation is not one of the two partial cases *)
Theorem C02_arith_table : forall o x y,
  is_arith o = true -> partial_ok o x y ->
  exists z, arith (binop_code o) x y = Some z /\ eval_binop o (VInt x) (VInt y) = OV (VInt z).
Proof. exact arith_matches_ref. Qed.
Print Assumptions C02_arith_table.

Theorem C02_compare_table : forall o x y,
  match o with BLt | BLe | BGt | BGe | BEq | BNe => True | _ => False end ->
  exists b, eval_binop o (VInt x) (VInt y) = OV (VBool b) /\
            b = match o with
                | BEq => val_equal (MInt x) (MInt y) | BNe => negb (val_equal (MInt x) (MInt y))
                | BLt => Z.ltb (val_compare (MInt x) (MInt y)) 0 | BLe => Z.leb (val_compare (MInt x) (MInt y)) 0
                | BGt => Z.gtb (val_compare (MInt x) (MInt y)) 0 | _ => Z.geb (val_compare (MInt x) (MInt y)) 0 end.
Proof. exact cmp_matches_ref. Qed.
Print Assumptions C02_compare_table.

Theorem C02_logic_table : forall (o : binop) (x y : bool),
  match o with BAnd | BOr => True | _ => False end ->
  eval_binop o (VBool x) (VBool y) =
  OV (VBool (match o with BAnd => truthy (MBool x) && truthy (MBool y) | _ => truthy (MBool x) || truthy (MBool y) end)).
Proof. exact logic_matches_ref. Qed.
Print Assumptions C02_logic_table.

(* the two partial cases are exactly the documented differences *)
Theorem C02_div_zero_documented : forall x,
  arith OP_DIV x 0 = Some 0 /\ arith OP_MOD x 0 = Some 0 /\ eval_binop BDiv (VInt x) (VInt 0) = OF FDivZero.
Proof. exact arith_div_zero. Qed.
Print Assumptions C02_div_zero_documented.

(* 64-bit wrapping integers: results stay in range and are congruent modulo 2^64 *)
Theorem C02_wrap64_range : forall z, in64 (wrap64 z) = true.
Proof. exact wrap64_range. Qed.
Print Assumptions C02_wrap64_range.
Theorem C02_wrap64_congruent : forall z, (wrap64 z - z) mod 18446744073709551616 = 0.
Proof. exact wrap64_congr. Qed.
Print Assumptions C02_wrap64_congruent.

(* ---- the NanoCore part: formal/{Syntax,Semantics,EvalFn}.v of the repository, copied on every run ---- *)
From NV Require Import Back.NanoCoreBridge Back.NanoCoreBridgeProofs.

(* on the common domain (every intermediate result an int64, division of a non-negative by a positive number) the
   language definition and the repository's proved evaluator assign the same value *)
Theorem C02_nanocore_bridge : forall fns e en v v' ne,
  all_scalar en -> exact_eval en e = Some v -> embed_val v = Some v' -> embed_expr e = Some ne ->
  forall fuel out, (esize e < fuel)%nat ->
    eval_expr fns fuel [] en e out = Ok v out /\ nanocore_eval fuel en e = Some v'.
Proof. exact bridge. Qed.
Print Assumptions C02_nanocore_bridge.

(* outside that domain they differ: the full statement "a verified function computes the value the proved semantics
   assigns" is refuted, with witnesses that are replayed on the real engines (known findings lang:nanocore-...) *)
Theorem C02_nanocore_division_refuted :
  exists e, eval_expr [] 10 [] [] e [] = Ok (VInt (-3)) [] /\ nanocore_eval_v 10 [] e = Some (VInt (-4)).
Proof. exists (EBin BDiv (ENum (-7)) (ENum 2)). split; vm_compute; reflexivity. Qed.
Print Assumptions C02_nanocore_division_refuted.

Theorem C02_nanocore_overflow_refuted :
  exists e, eval_expr [] 10 [] [] e [] = Ok (VInt (-9223372036854775808)) [] /\
            nanocore_eval_v 10 [] e = Some (VInt 9223372036854775808).
Proof. exists (EBin BAdd (ENum 9223372036854775807) (ENum 1)). split; vm_compute; reflexivity. Qed.
Print Assumptions C02_nanocore_overflow_refuted.

Example C02_nanocore_bridge_nonvacuous :
  exact_eval [(1%N, (false, VInt 7)); (2%N, (false, VBool true))]
             (ECond (EVar 2%N) (EBin BDiv (EBin BMul (EVar 1%N) (ENum 6)) (ENum 4)) (ENum 0)) = Some (VInt 10).
Proof. vm_compute. reflexivity. Qed.
