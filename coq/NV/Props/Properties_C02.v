(* C02 -- every execution engine implements the defined semantics (spec + NanoCore model).
   Property theorems only.  Ref = Lang/Ref.v (transcription of the specification), VM = Back/VmExec.v fetching
   bytes produced by Back/VmCompile.v; both engine models are tied to the code by tools/props/c02.py. *)
From Coq Require Import ZArith NArith List Bool.
From NV Require Import Lang.Ast Lang.Ref Back.VmCompile Back.VmExec Back.OpTable gen.IsaTable.
Import ListNotations.
Local Open Scope Z_scope.

(* operator table, every operand pair: + - * / % on the VM compute what the specification prescribes
   (64-bit wrap, truncating division) whenever the operation is not one of the two partial cases *)
Theorem C02_arith_table : forall o x y,
  is_arith o = true -> partial_ok o x y ->
  exists z, arith (binop_code o) x y = Some z /\ eval_binop o (VInt x) (VInt y) = OV (VInt z).
Proof. exact arith_matches_ref. Qed.
Print Assumptions C02_arith_table.

Theorem C02_compare_table : forall o x y,
  match o with BLt | BLe | BGt | BGe | BEq | BNe => True | _ => False end ->
  exists b, eval_binop o (VInt x) (VInt y) = OV (VBool b) /\
            b = match o with
                | BEq => val_equal (MInt x) (MInt y) | BNe => negb (val_equal (MInt x) (MInt y))
                | BLt => Z.ltb (val_compare (MInt x) (MInt y)) 0 | BLe => Z.leb (val_compare (MInt x) (MInt y)) 0
                | BGt => Z.gtb (val_compare (MInt x) (MInt y)) 0 | _ => Z.geb (val_compare (MInt x) (MInt y)) 0 end.
Proof. exact cmp_matches_ref. Qed.
Print Assumptions C02_compare_table.

Theorem C02_logic_table : forall (o : binop) (x y : bool),
  match o with BAnd | BOr => True | _ => False end ->
  eval_binop o (VBool x) (VBool y) =
  OV (VBool (match o with BAnd => truthy (MBool x) && truthy (MBool y) | _ => truthy (MBool x) || truthy (MBool y) end)).
Proof. exact logic_matches_ref. Qed.
Print Assumptions C02_logic_table.

(* the two partial cases are exactly the documented differences *)
Theorem C02_div_zero_documented : forall x,
  arith OP_DIV x 0 = Some 0 /\ arith OP_MOD x 0 = Some 0 /\ eval_binop BDiv (VInt x) (VInt 0) = OF FDivZero.
Proof. exact arith_div_zero. Qed.
Print Assumptions C02_div_zero_documented.

(* 64-bit wrapping integers: results stay in range and are congruent modulo 2^64 *)
Theorem C02_wrap64_range : forall z, in64 (wrap64 z) = true.
Proof. exact wrap64_range. Qed.
Print Assumptions C02_wrap64_range.
Theorem C02_wrap64_congruent : forall z, (wrap64 z - z) mod 18446744073709551616 = 0.
Proof. exact wrap64_congr. Qed.
Print Assumptions C02_wrap64_congruent.
