(* C10 -- stored and embedded bytecode modules run exactly like the in-memory module.
   Only property theorems here, each closed by [exact <lemma>] (or vm_compute on generated data / a concrete witness)
   and followed by Print Assumptions.  [wf_module m]: what the nvm_* API can produce and nvm_serialize can write without
   overflowing: duplicate-free string pool (C10_build_nodup: the API guarantees it), fields within their C widths, per-import
   parameter list of length param_count, total size below 2^32.  [stamp m] = m with the header/directory fields
   that nvm_serialize computes (section_count, string_pool_offset/length, checksum, section table) filled in. *)
From Coq Require Import NArith ZArith List Bool.
From NV Require Import Base.Bytes Nvm.Crc Nvm.Format Nvm.FormatProofs Driver.ExitStatus Driver.ExitStatusProofs Nvm.Limits Nvm.LimitsProofs gen.NvmConsts gen.RunnerFlags gen.NvmLimits.
Import ListNotations.
Local Open Scope N_scope.

(* the literals of the model are the constants of the current nvm_format.h (regenerated on every run) *)
Theorem C10_wire_constants :
  nvm_magic = MAGIC /\ format_version = VERSION /\ header_size = 32 /\ section_entry_size = 12 /\
  max_sections = MAX_SECTIONS /\
  sec_code = SEC_CODE /\ sec_strings = SEC_STRINGS /\ sec_functions = SEC_FUNCTIONS /\ sec_imports = SEC_IMPORTS /\ sec_debug = SEC_DEBUG /\
  function_entry_size = len (ser_fn (mkFn 0 0 0 0 0 0)) /\ debug_entry_size = len (ser_dbg (0, 0)) /\
  import_entry_base_size = len (ser_imp (mkImp 0 0 0 0 [])) /\
  fn_field_widths = [4; 2; 4; 4; 2; 2] /\ imp_field_widths = [4; 4; 2; 1] /\ dbg_field_widths = [4; 4].
Proof. vm_compute. repeat split; reflexivity. Qed.
Print Assumptions C10_wire_constants.

(* load(store(m)) = m, field by field *)
Theorem C10_deserialize_serialize : forall m, wf_module m -> deserialize (serialize m) = Loaded (stamp m).
Proof. exact deserialize_serialize. Qed.
Print Assumptions C10_deserialize_serialize.

Theorem C10_roundtrip_fields : forall m m', wf_module m -> deserialize (serialize m) = Loaded m' ->
  m_strings m' = m_strings m /\ m_funcs m' = m_funcs m /\ m_code m' = m_code m /\ m_debug m' = m_debug m /\
  m_imports m' = m_imports m /\ h_flags (m_hdr m') = h_flags (m_hdr m) /\ h_entry (m_hdr m') = h_entry (m_hdr m).
Proof. exact roundtrip_fields. Qed.
Print Assumptions C10_roundtrip_fields.

(* storing the loaded module again gives the same bytes *)
Theorem C10_serialize_idempotent : forall m m', wf_module m -> deserialize (serialize m) = Loaded m' -> serialize m' = serialize m.
Proof. exact serialize_idempotent. Qed.
Print Assumptions C10_serialize_idempotent.

Theorem C10_serialize_bytes_ok : forall m, wf_module m -> bytes_ok (serialize m).
Proof. exact serialize_ok. Qed.
Print Assumptions C10_serialize_bytes_ok.

(* whatever sequence of nvm_add_string / nvm_append_code / nvm_add_function / nvm_add_debug_entry / nvm_add_import calls
   builds the module, its string pool is duplicate free (the hypothesis of the round trip that is not a width bound) *)
Theorem C10_build_nodup : forall flags entry ops, nodup_strings (m_strings (build flags entry ops)) = true.
Proof. exact build_nodup. Qed.
Print Assumptions C10_build_nodup.

(* ---- declared limits ----
   [limit_modules]: modules with limit-1, limit, limit+1 functions / distinct strings / imports for every limit the
   sources declare on that axis (NVM_MAX_FUNCTIONS, MAX_FUNCTIONS, NVM_MAX_STRINGS, MAX_EXTERNS; regenerated from the
   preprocessor output by tools/gen/gen_limits.py).  The loader enforces none of them (only NVM_MAX_SECTIONS, see
   C12_load_rejects_section_count): every such module comes back.  tools/props/c10_limits.py builds the same modules
   through the real API and, where a source program can reach the limit, through the real compiler. *)
Theorem C10_declared_limits_roundtrip : forall m, In m limit_modules -> deserialize (serialize m) = Loaded (stamp m).
Proof. exact declared_limits_roundtrip. Qed.
Print Assumptions C10_declared_limits_roundtrip.

(* the modules really have the announced numbers of entries *)
Theorem C10_limit_modules_counts :
  map (fun m => length (m_funcs m)) (map fn_module functions_boundaries) = map N.to_nat functions_boundaries /\
  map (fun m => length (m_strings m)) (map str_module strings_boundaries) = map N.to_nat strings_boundaries /\
  map (fun m => length (m_imports m)) (map imp_module imports_boundaries) = map N.to_nat imports_boundaries.
Proof. exact limit_modules_counts. Qed.
Print Assumptions C10_limit_modules_counts.

(* ---- exit status and initialisers of the three local runners (--run, nano_vm file, wrapper executable) ----
   Both statements are proved in the form that matches the CURRENT source: the two booleans are regenerated from the
   clang AST of run_standalone() / write_wrapper_c() on every run (NV.gen.RunnerFlags); tools/props/c10.py reports which
   side is live and replays the witness on the real binaries. *)
(* the runners agree on the exit status iff run_standalone consults vm_get_result ... *)
Theorem C10_runners_agree : nano_vm_propagates_result = true ->
  forall r1 r2 o, local_runner r1 = true -> local_runner r2 = true -> exit_status r1 o = exit_status r2 o.
Proof. exact runners_agree. Qed.
Print Assumptions C10_runners_agree.

(* ... and otherwise they do not: witness "main returns 3" *)
Theorem C10_runners_agree_refuted : nano_vm_propagates_result = false ->
  exists r1 r2 o, local_runner r1 = true /\ local_runner r2 = true /\ exit_status r1 o <> exit_status r2 o.
Proof. exact runners_agree_refuted. Qed.
Print Assumptions C10_runners_agree_refuted.

(* exactly when: main returns an int that is not a multiple of 256 *)
Theorem C10_runners_disagree_iff : nano_vm_propagates_result = false ->
  forall v, (v mod 256 <> 0)%Z -> exit_status VirtRun (VmOk true v) <> exit_status NanoVmFile (VmOk true v).
Proof. exact runners_disagree. Qed.
Print Assumptions C10_runners_disagree_iff.

(* with the daemon repaired as well (77ae0bf) all four runners agree on every outcome *)
Theorem C10_runners_agree_all : nano_vm_propagates_result = true -> daemon_propagates_result = true ->
  forall r1 r2 o, exit_status r1 o = exit_status r2 o.
Proof. exact runners_agree_all. Qed.
Print Assumptions C10_runners_agree_all.

(* what holds whatever the flags are *)
Theorem C10_runners_agree_partial :
  (forall o, exit_status VirtRun o = exit_status Wrapper o) /\
  (forall r1 r2, exit_status r1 VmError = exit_status r2 VmError) /\
  (forall r1 r2 v, exit_status r1 (VmOk false v) = exit_status r2 (VmOk false v)) /\
  (forall r1 r2 v, (v mod 256 = 0)%Z -> exit_status r1 (VmOk true v) = exit_status r2 (VmOk true v)) /\
  (forall v, exit_status VirtRun (VmOk true v) = (v mod 256)%Z).
Proof.
  exact (conj virt_wrapper_agree (conj all_agree_on_error (conj all_agree_on_non_int (conj all_agree_mult256 virt_status_is_low_byte)))).
Qed.
Print Assumptions C10_runners_agree_partial.

(* global initialisers run exactly once under every runner iff the generated wrapper main does not call __init__ itself *)
Theorem C10_init_once : wrapper_calls_init = false -> forall r, init_runs r = 1%nat.
Proof. exact init_once. Qed.
Print Assumptions C10_init_once.

Theorem C10_init_once_refuted : wrapper_calls_init = true -> exists r, local_runner r = true /\ init_runs r <> 1%nat.
Proof. exact init_once_refuted. Qed.
Print Assumptions C10_init_once_refuted.

(* ---- non-vacuity ---- *)
(* two functions, strings with embedded quote / NUL / empty string, imports with 0 and 3 parameters, debug entries *)
Definition example_m : module :=
  build 7 1 [OpString [109; 97; 105; 110]; OpString [34; 104; 105; 34]; OpString []; OpString [0; 255]; OpString [109; 97; 105; 110];
             OpCode [1; 7; 0; 0; 0; 0; 0; 0; 0]; OpCode [61];
             OpFunc (mkFn 0 0 0 10 1 0); OpFunc (mkFn 1 65535 10 0 65535 2);
             OpDebug 0 1; OpDebug 9 4294967295;
             OpImport (mkImp 2 3 0 1 []); OpImport (mkImp 0 1 3 255 [1; 2; 3])].
Example C10_example_roundtrip :
  wf_module example_m /\ length (m_strings example_m) = 4%nat /\
  deserialize (serialize example_m) = Loaded (stamp example_m) /\
  serialize (stamp example_m) = serialize example_m.
Proof. vm_compute. repeat split; reflexivity. Qed.

(* the duplicate-free hypothesis is needed: a pool with a repeated string (not producible through the API) does not come back *)
Example C10_dup_pool_not_roundtrip :
  let m := mkMod (mkHdr 0 0 0 0 0 0) [] [[97]; [97]] [] [] [] [] in
  match deserialize (serialize m) with Loaded m' => m_strings m' = [[97]] | _ => False end.
Proof. vm_compute. reflexivity. Qed.

(* an import whose parameter array is NULL although param_count > 0 (nvm_add_import allows it) is written as zeros *)
Example C10_null_params_written_as_zeros :
  let m := build 0 0 [OpImport (mkImp 0 0 3 1 [])] in
  match deserialize (serialize m) with Loaded m' => map im_params (m_imports m') = [[0; 0; 0]] | _ => False end.
Proof. vm_compute. reflexivity. Qed.
