(* C18 -- the daemon survives malformed and abandoned client sessions.
   Only property theorems here, each closed by [exact <lemma>] or by [vm_compute] on generated data.
   Model: NV.Proto.Vmd (client_thread as a total function of the client's byte stream, the point at which the client
   stops reading, and the daemon state).  Generated: NV.gen.VmdConsts (vmd_protocol.h + golden frames written by the real
   vmd_msg_send), NV.gen.VmdFacts (clang AST of client_thread / run_standalone; SigIgn mask of the built daemon). *)
From Coq Require Import NArith ZArith List Bool.
From NV Require Import Base.Bytes gen.VmdConsts gen.VmdFacts gen.SigpipeSites Proto.Vmd Proto.VmdProofs.
Import ListNotations.
Local Open Scope N_scope.

(* ---- the generated data is what the model assumes ---- *)
(* header layout: 8 bytes, version@0 type@1 flags@2 len@4; max payload fits u32 *)
Theorem C18_header_layout : layout_ok = true.
Proof. vm_compute. reflexivity. Qed.
Print Assumptions C18_header_layout.

Theorem C18_msg_types_distinct : msg_types_ok = true.
Proof. vm_compute. reflexivity. Qed.
Print Assumptions C18_msg_types_distinct.

(* the model's encoder produces byte for byte what the real vmd_msg_send_* wrote (8 fixed calls) *)
Theorem C18_golden_frames : golden_ok = true.
Proof. vm_compute. reflexivity. Qed.
Print Assumptions C18_golden_frames.

(* the model's reply texts are literals handed to vmd_msg_send_error in client_thread *)
Theorem C18_error_texts : texts_ok = true.
Proof. vm_compute. reflexivity. Qed.
Print Assumptions C18_error_texts.

(* the built daemon runs with SIGPIPE ignored *)
Theorem C18_sigpipe_ignored : vmd_ignores_sigpipe = true.
Proof. vm_compute. reflexivity. Qed.
Print Assumptions C18_sigpipe_ignored.

(* every call in the sources linked into nano_vmd that sets the SIGPIPE disposition and can be reached from a session handler
   (outside a forked child) installs SIG_IGN: no session can take the process out of the state setup_signals put it in.
   Table: NV.gen.SigpipeSites (clang AST + relocation-graph reachability).  Breaks when such a call appears. *)
Theorem C18_no_session_resets_sigpipe : sigpipe_sites_ok = true.
Proof. vm_compute. reflexivity. Qed.
Print Assumptions C18_no_session_resets_sigpipe.

(* ... and the start-up path does install SIG_IGN *)
Theorem C18_startup_ignores_sigpipe : sigpipe_startup_ignores = true.
Proof. vm_compute. reflexivity. Qed.
Print Assumptions C18_startup_ignores_sigpipe.

(* ---- frame codec ---- *)
Theorem C18_frame_round_trip : forall f rest, wf_frame f -> decode_frame (encode_frame f ++ rest) = Some (f, rest).
Proof. exact decode_encode_frame. Qed.
Print Assumptions C18_frame_round_trip.

Theorem C18_frames_round_trip : forall fs, Forall wf_frame fs -> decode_frames (concat (map encode_frame fs)) = (fs, []).
Proof. exact decode_frames_encode. Qed.
Print Assumptions C18_frames_round_trip.

Theorem C18_frame_truncated : forall f k, wf_frame f -> (k < length (encode_frame f))%nat ->
  decode_frame (firstn k (encode_frame f)) = None.
Proof. exact decode_frame_truncated. Qed.
Print Assumptions C18_frame_truncated.

(* ---- every session ends, with Replied frames or Closed, and cleans up ----
   Termination is structural (client_thread is a Gallina function; the read loops are folded into recv_header/take on a
   stream that ends, i.e. the peer eventually stops sending -- a peer that keeps the connection open and silent blocks its
   thread, which is outside this statement). *)
Theorem C18_session_ends : forall c O input wb d, alive d = true ->
  exists sent d', client_thread c O input wb d = (sent, d') /\
    prefix sent (concat (map encode_frame (reply_frames c O input d))) /\
    (wb = None -> sent = concat (map encode_frame (reply_frames c O input d))) /\
    (header_refused input -> sent = [] /\ alive d' = true /\ sigign d' = sigign d) /\
    (alive d' = true -> active d' = active d).
Proof. exact session_ends. Qed.
Print Assumptions C18_session_ends.

(* ---- survival ----
   The SIGPIPE disposition is part of the daemon's state (sigign): it starts as setup_signals leaves it and a session whose
   program used the FFI co-process leaves c_ffi_sets behind. *)
(* a daemon that starts with SIGPIPE ignored, in which no session resets the disposition, and that verifies before executing
   survives every list of sessions; no client is left counted; SIGPIPE is still ignored *)
Theorem C18_daemon_survives : forall c O ss,
  c_ignores_sigpipe c = true -> keeps_sigign c -> c_verify_first c = true -> oracle_safe O ->
  alive (serve c O (boot c) ss) = true /\ active (serve c O (boot c) ss) = 0%Z /\ sigign (serve c O (boot c) ss) = true.
Proof. exact daemon_survives_generic. Qed.
Print Assumptions C18_daemon_survives.

(* the daemon as built from the current tree (facts regenerated on every run):
   with the SIGPIPE table in order: if client_thread verifies first it survives everything; if it does not, one session with a
   module that nvm_verify refuses kills it, while it still survives every session list in which no module faults;
   if some session-reachable call resets SIGPIPE: an FFI session followed by a client that hangs up while its program prints
   kills it (refutation branch, replayed on the real binary by the check). *)
Theorem C18_daemon_survives_current :
  vmd_ignores_sigpipe = true ->
  (sigpipe_sites_ok = true ->
     (verify_before_execute = true ->
        forall O ss, oracle_safe O ->
          alive (serve real_cfg O (boot real_cfg) ss) = true /\ active (serve real_cfg O (boot real_cfg) ss) = 0%Z /\
          sigign (serve real_cfg O (boot real_cfg) ss) = true) /\
     (verify_before_execute = false ->
        (exists O ss, oracle_safe O /\ alive (serve real_cfg O (boot real_cfg) ss) = false) /\
        (forall O ss, oracle_total O ->
          alive (serve real_cfg O (boot real_cfg) ss) = true /\ active (serve real_cfg O (boot real_cfg) ss) = 0%Z /\
          sigign (serve real_cfg O (boot real_cfg) ss) = true))) /\
  (ffi_sets_of sigpipe_sites = Some false ->
     exists O ss, oracle_total O /\ alive (serve real_cfg O (boot real_cfg) ss) = false).
Proof. exact daemon_survives_current. Qed.
Print Assumptions C18_daemon_survives_current.

Theorem C18_unverified_daemon_dies_refuted : forall c, c_ignores_sigpipe c = true -> c_verify_first c = false ->
  alive (serve c hostile_oracle (boot c) [hostile_session]) = false.
Proof. exact unverified_daemon_dies. Qed.
Print Assumptions C18_unverified_daemon_dies_refuted.

(* the SIGPIPE fact is load-bearing: with the default disposition one abandoned PING kills the daemon *)
Theorem C18_sigpipe_needed : forall c, c_ignores_sigpipe c = false ->
  alive (serve c benign_oracle (boot c) [(encode_frame (fr VMD_MSG_PING []), Some O)]) = false.
Proof. exact sigpipe_default_kills. Qed.
Print Assumptions C18_sigpipe_needed.

(* ... and it is state, not configuration: where a co-process session leaves SIGPIPE at something else than SIG_IGN, the history
   [FFI session; client that hangs up while printing] kills a daemon that started with SIGPIPE ignored, while the reversed history
   and the hang-up alone do not *)
Theorem C18_ffi_reset_kills_refuted : forall c, c_ignores_sigpipe c = true -> c_ffi_sets c = Some false ->
  alive (serve c ffi_oracle (boot c) ffi_then_abandon) = false /\
  alive (serve c ffi_oracle (boot c) (rev ffi_then_abandon)) = true /\
  alive (serve c ffi_oracle (boot c) [(load_exec_request [2], Some 2%nat)]) = true.
Proof. exact ffi_reset_kills. Qed.
Print Assumptions C18_ffi_reset_kills_refuted.

(* ---- clients that come later are served as if nothing had happened (STATUS reports the shared count and is excluded) ---- *)
Theorem C18_later_clients_ok : forall c O bad input wb,
  c_ignores_sigpipe c = true -> keeps_sigign c -> exec_guard c O ->
  (forall h rest, recv_header input = ROk h rest -> h_type h <> VMD_MSG_STATUS) ->
  fst (client_thread c O input wb (serve c O (boot c) bad)) = fst (client_thread c O input wb (boot c)).
Proof. exact later_clients_ok. Qed.
Print Assumptions C18_later_clients_ok.

(* ---- non-vacuity ---- *)
Example C18_hostile_oracle_is_safe : oracle_safe hostile_oracle.
Proof. exact hostile_oracle_safe. Qed.
Example C18_benign_oracle_is_total : oracle_total benign_oracle.
Proof. exact benign_oracle_total. Qed.
Example C18_ffi_oracle_is_total : oracle_total ffi_oracle.
Proof. exact ffi_oracle_total. Qed.
(* PING -> PONG; wrong version -> closed without reply; unknown type -> ERROR; announced 5 bytes, 3 sent -> ERROR *)
Example C18_sessions_concrete :
  fst (client_thread real_cfg benign_oracle [1;2;0;0;0;0;0;0] None (boot real_cfg)) = [1;19;0;0;0;0;0;0] /\
  fst (client_thread real_cfg benign_oracle [2;2;0;0;0;0;0;0] None (boot real_cfg)) = [] /\
  fst (client_thread real_cfg benign_oracle [1;9;0;0;0;0;0;0] None (boot real_cfg)) = encode_frame (error_frame txt_unknown_type) /\
  fst (client_thread real_cfg benign_oracle [1;1;0;0;5;0;0;0;97;98;99] None (boot real_cfg)) = encode_frame (error_frame txt_payload_read) /\
  serve real_cfg benign_oracle (boot real_cfg) [([1;4;0;0;0;0;0;0], None)] = {| alive := true; active := 0; shutdown := true; sigign := true |}.
Proof. vm_compute. repeat split; reflexivity. Qed.
