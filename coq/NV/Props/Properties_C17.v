(* C17 -- daemon execution is transparent and concurrent clients are isolated.
   Only property theorems here.  Models: NV.Proto.Sessions (daemon = shared state x sessions, interleaving over a schedule,
   lazy CRC table at statement granularity under sequential consistency), NV.Proto.Vmd (frames, handler, client loop),
   NV.Proto.SharedClasses (hand classification of NV.gen.SharedState, the nm/linker/relocation inventory of nano_vmd). *)
From Coq Require Import NArith ZArith List Bool.
From NV Require Import Base.Bytes gen.VmdConsts gen.VmdFacts gen.VmdRecv gen.SharedState
                       Proto.Vmd Proto.VmdProofs Proto.Sessions Proto.SessionsProofs Proto.SharedClasses Proto.SharedClassesProofs Proto.SessionsVmd Proto.VmdRecvProofs.
Import ListNotations.
Local Open Scope N_scope.

(* ---- shared-state inventory ---- *)
(* every writable symbol that a client session can reach (relocation graph from client_thread) has a class:
   breaks when a new unclassified global appears *)
Theorem C17_inventory_classified : inventory_ok = true.
Proof. vm_compute. reflexivity. Qed.
Print Assumptions C17_inventory_classified.

Theorem C17_inventory_classified_forall :
  forall s, In s symbols -> needs_class s = true -> classify s <> Unclassified.
Proof. exact (inventory_classified_forall C17_inventory_classified). Qed.
Print Assumptions C17_inventory_classified_forall.

(* the two reachability computations agree, the table has no stale rows, the modelled components exist under their names *)
Theorem C17_inventory_consistent : reach_consistent && table_fresh && modelled_present = true.
Proof. vm_compute. reflexivity. Qed.
Print Assumptions C17_inventory_consistent.

(* ---- the lazy CRC table under every interleaving ---- *)
Theorem C17_crc_init_race_free : forall reply sched ls0 c rest,
  init_ok ls0 ->
  l_pc (snd (run reply sched (shared0, ls0)) c) = PRead rest ->
  forall i, i < 256 -> crc_tab (fst (run reply sched (shared0, ls0))) i = crc_entry i.
Proof. exact crc_init_race_free. Qed.
Print Assumptions C17_crc_init_race_free.

Theorem C17_crc_read_is_spec : forall reply sched ls0 c b rest,
  init_ok ls0 ->
  let st := run reply sched (shared0, ls0) in
  l_pc (snd st c) = PRead (b :: rest) ->
  l_crc (snd (step reply st c) c) = crc_byte crc_entry (l_crc (snd st c)) b.
Proof. exact crc_read_is_spec. Qed.
Print Assumptions C17_crc_read_is_spec.

(* ---- isolation: a session's final state is the one it reaches alone, under every schedule that lets it finish ---- *)
Theorem C17_interleaving_irrelevant : forall reply sched ls0 c n,
  init_ok ls0 ->
  (budget (ls0 c) <= count_occ Nat.eq_dec sched c)%nat -> (budget (ls0 c) <= n)%nat ->
  snd (run reply sched (shared0, ls0)) c = snd (alone reply (ls0 c) n) O.
Proof. exact interleaving_irrelevant. Qed.
Print Assumptions C17_interleaving_irrelevant.

(* ... and its answer is a function of its own kind and bytes, computed with the specified checksum *)
Theorem C17_session_result : forall reply sched ls0 c,
  init_ok ls0 -> (mu (ls0 c) <= count_occ Nat.eq_dec sched c)%nat ->
  let l := snd (run reply sched (shared0, ls0)) c in
  l_pc l = PDone /\ l_out l = result reply (ls0 c) /\ l_crc l = final_crc (ls0 c) /\
  l_kind l = l_kind (ls0 c) /\ l_blob l = l_blob (ls0 c).
Proof. exact session_result. Qed.
Print Assumptions C17_session_result.

(* the two models joined: with the handler of Proto/Vmd.v as the sessions' reply function, the bytes a concurrent client ends
   up with are the bytes client_thread answers to that client's request alone, in any state d the others left the daemon in *)
Theorem C17_concurrent_reply_is_handler_reply : forall c O sched ls0 cl d,
  init_ok ls0 ->
  (budget (ls0 cl) <= count_occ Nat.eq_dec sched cl)%nat ->
  Vmd.alive d = true -> sigign d = c_ignores_sigpipe c ->
  l_out (snd (run (handler_reply c O) sched (shared0, ls0)) cl) =
  fst (client_thread c O (request (l_kind (ls0 cl)) (l_blob (ls0 cl))) None d).
Proof. exact concurrent_reply_is_handler_reply. Qed.
Print Assumptions C17_concurrent_reply_is_handler_reply.

(* the client counter equals the number of sessions in flight at every point of every schedule, and is 0 when all are done *)
Theorem C17_active_balanced : forall reply sched sh ls n,
  Forall (fun c => (c < n)%nat) sched ->
  Sessions.active sh = sumf (fun d => in_flight (ls d)) n ->
  Sessions.active (fst (run reply sched (sh, ls))) = sumf (fun d => in_flight (snd (run reply sched (sh, ls)) d)) n.
Proof. exact active_balanced. Qed.
Print Assumptions C17_active_balanced.

Theorem C17_active_zero_when_done : forall reply sched ls0 n,
  init_ok ls0 -> Forall (fun c => (c < n)%nat) sched ->
  (forall c, (c < n)%nat -> (budget (ls0 c) <= count_occ Nat.eq_dec sched c)%nat) ->
  Sessions.active (fst (run reply sched (shared0, ls0))) = 0%Z.
Proof. exact active_zero_when_done. Qed.
Print Assumptions C17_active_zero_when_done.

(* ---- transparency ----
   _partial: the VM run itself is an oracle shared by both sides (o_run: the chunks handed to the output stream, the
   error text); that the daemon's VM produces the same chunks as the standalone VM is what the live correspondence checks.
   Stated for modules that standalone accepts (deserialises and verifies). *)
Theorem C17_daemon_transparent_partial : forall c sm O blob d o,
  Vmd.alive d = true ->
  bytes_ok blob -> blob <> [] -> N.of_nat (length blob) <= VMD_MAX_PAYLOAD ->
  wf_run (o_run O blob) ->
  c_exit_from_main c = sm ->            (* both sides treat main's int result alike *)
  standalone_observe sm O blob = Some o ->
  client_observe (fst (client_thread c O (load_exec_request blob) None d)) = o.
Proof. exact daemon_transparent. Qed.
Print Assumptions C17_daemon_transparent_partial.

(* the daemon of today (facts regenerated from the tree): transparent when client_thread and run_standalone agree on turning
   main's int result into the exit status; refuted with a witness (main returns 3) when only run_standalone does *)
Theorem C17_daemon_transparent_current :
  (vmd_exit_from_main = standalone_exit_from_main ->
     forall O blob d o, Vmd.alive d = true -> bytes_ok blob -> blob <> [] -> N.of_nat (length blob) <= VMD_MAX_PAYLOAD ->
       wf_run (o_run O blob) -> standalone_observe standalone_exit_from_main O blob = Some o ->
       client_observe (fst (client_thread real_cfg O (load_exec_request blob) None d)) = o) /\
  (vmd_exit_from_main = false -> standalone_exit_from_main = true ->
     exists O blob o, standalone_observe standalone_exit_from_main O blob = Some o /\
       client_observe (fst (client_thread real_cfg O (load_exec_request blob) None (boot real_cfg))) <> o).
Proof. exact daemon_transparent_current. Qed.
Print Assumptions C17_daemon_transparent_current.

Theorem C17_exit_status_dropped_refuted : forall c, c_exit_from_main c = false ->
  standalone_observe true status_oracle [0] = Some {| o_stdout := [104; 105; 10]; o_stderr := []; o_exit := 3 |} /\
  client_observe (fst (client_thread c status_oracle (load_exec_request [0]) None (boot c))) =
    {| o_stdout := [104; 105; 10]; o_stderr := []; o_exit := 0 |}.
Proof. exact exit_status_dropped. Qed.
Print Assumptions C17_exit_status_dropped_refuted.

(* refuted for modules that nvm_verify refuses while the handler does not verify:
   standalone refuses, the daemon runs the module and reports exit 0 *)
Theorem C17_unverified_module_runs_refuted : forall c sm, c_verify_first c = false ->
  standalone_observe sm sloppy_oracle [0] = None /\
  client_observe (fst (client_thread c sloppy_oracle (load_exec_request [0]) None (boot c))) =
    {| o_stdout := [104; 105; 10]; o_stderr := []; o_exit := 0 |}.
Proof. exact unverified_module_runs. Qed.
Print Assumptions C17_unverified_module_runs_refuted.

(* with verification in the handler the client is shown the refusal and exit 1, as standalone does *)
Theorem C17_verified_module_refused : forall c msg, c_verify_first c = true ->
  client_observe (fst (client_thread c {| o_deser := fun _ => true; o_verify := fun _ => Some msg; o_run := fun _ => Crashed [] |}
                                      (load_exec_request [0]) None (boot c))) =
  client_observe (encode_frame (error_frame (txt_verify_failed ++ msg)) ++ encode_frame (exit_frame 1)).
Proof. exact verified_module_refused. Qed.
Print Assumptions C17_verified_module_refused.

(* ---- the receiver accepts what the sender can emit ----
   NV.gen.VmdRecv holds the answers of the real vmd_msg_recv_header: per message-type byte the largest accepted payload_len.
   The model's receiver accepts every type up to VMD_MAX_PAYLOAD; the table must say the same for all 256 type bytes (and the accepted
   lengths must form a prefix, and the only accepted version must be VMD_VERSION).  A per-type limit added to the receiver breaks this. *)
Theorem C17_receiver_limit_is_model : recv_table_ok = true.
Proof. vm_compute. reflexivity. Qed.
Print Assumptions C17_receiver_limit_is_model.

(* in particular the frames client_thread sends (OUTPUT, EXIT_CODE, ERROR, PONG, STATUS_RSP), whose payload the sender bounds only by
   what the stdio layer hands to the write callback, i.e. by VMD_MAX_PAYLOAD, are accepted at every such length *)
Theorem C17_receiver_accepts_sender_frames : sender_frames_accepted = true.
Proof. vm_compute. reflexivity. Qed.
Print Assumptions C17_receiver_accepts_sender_frames.

(* ... and so every well-formed frame of any type and length is accepted by the real receiver's limit and decoded by the model *)
Theorem C17_every_frame_accepted : forall f, wf_frame f ->
  exists m, lookup_recv vmd_recv_max (f_type f) = Some m /\ N.of_nat (length (f_payload f)) <= m /\
            (forall rest, decode_frame (encode_frame f ++ rest) = Some (f, rest)).
Proof. exact (receiver_is_model C17_receiver_limit_is_model). Qed.
Print Assumptions C17_every_frame_accepted.

(* the client side of a session puts no time limit on its blocking reads/writes (no SO_RCVTIMEO/SO_SNDTIMEO, alarm, poll/select in
   vmd_client.c, the read/write helpers of vmd_protocol.c, run_daemon): client_observe is a function of the reply bytes alone, so a
   program that stays silent for any length of time is observed like standalone.  Breaks when such a call appears. *)
Theorem C17_client_waits_indefinitely : vmd_client_has_timeout = false.
Proof. vm_compute. reflexivity. Qed.
Print Assumptions C17_client_waits_indefinitely.

(* standalone nano_vm verifies before executing (the side the daemon is compared with) *)
Theorem C17_standalone_verifies : standalone_verifies = true.
Proof. vm_compute. reflexivity. Qed.
Print Assumptions C17_standalone_verifies.

(* ---- non-vacuity and sanity of the CRC definitions ---- *)
Example C17_crc_is_crc32 :
  crc_entry 1 = 1996959894 /\ crc_entry 255 = 755167117 /\
  crc32_spec [49; 50; 51; 52; 53; 54; 55; 56; 57] = 3421780262.          (* "123456789" -> 0xCBF43926 *)
Proof. vm_compute. repeat split; reflexivity. Qed.

Example C17_init_ok_inhabited : init_ok (fun c => start (if Nat.even c then KExec else KPing) [1; 2; 3]).
Proof. intros c. eexists _, _. reflexivity. Qed.

(* two sessions racing through the initialiser: both end with the specified checksum of their own bytes *)
Example C17_two_racing_sessions :
  let ls0 := fun c : nat => start KExec (if Nat.eqb c 0 then [1; 2; 3] else [9; 8]) in
  let sched := flat_map (fun _ => [0; 1]%nat) (seq 0 270) in
  let st := run (fun _ crc _ => [crc]) sched (shared0, ls0) in
  l_out (snd st 0%nat) = [crc32_spec [1; 2; 3]] /\ l_out (snd st 1%nat) = [crc32_spec [9; 8]] /\
  l_pc (snd st 0%nat) = PDone /\ Sessions.active (fst st) = 0%Z /\ crc_init (fst st) = true.
Proof. vm_compute. repeat split; reflexivity. Qed.
