(* C16 -- a failing FFI co-process is contained by the VM.
   Only property theorems here.  Model: NV.Proto.CopClient (vm_ffi_cop_start / cop_is_alive / vm_ffi_call_cop /
   vm_ffi_cop_stop and the run loop of nano_vm over explicit OS rules; the peer is an arbitrary script of deliver / close stdin /
   close stdout / exit / killed actions per protocol step).  NV.gen.Signals is regenerated from the clang AST of each main.
   Trusted: the OS rules stated at the top of CopClient.v; SIGTERM terminates the co-process. *)
From Coq Require Import NArith List Bool.
From NV Require Import Base.Bytes gen.CopConst gen.Signals Proto.CopCodec Proto.CopClient Proto.CopClientProofs.
Import ListNotations.
Local Open Scope N_scope.

(* one extern call, SIGPIPE ignored, reply decoder that stays inside its buffer: for EVERY peer script the call returns
   Ok / in-process fallback / Err in a well-formed state (cop_pid names exactly one unreaped child, or none with both
   descriptors closed; every forgotten child reaped) -- the only other possibility is a VM blocked in a read while the peer
   keeps its stdout open without delivering (hang_ok: the current child exists and its write end is open) *)
Theorem C16_call_contained : forall dec j req v w,
  sigign w = true -> safe_dec dec -> req <> ReqOverrun -> inv v w ->
  match call_cop dec j req v w with
  | Go _ v' w' => inv v' w' /\ sigign w' = true
  | Stop (FHang _) w' => hang_ok w'
  | Stop _ _ => False
  end.
Proof. exact call_contained. Qed.
Print Assumptions C16_call_contained.

(* in general (any SIGPIPE disposition, any decoder): a call can only end the VM by SIGPIPE-while-writing (only when SIGPIPE
   is not ignored), by an out-of-bounds read of the reply decoder, or by blocking on a silent peer *)
Theorem C16_call_outcomes : forall dec j req v w, inv v w -> call_post dec req w (call_cop dec j req v w).
Proof. exact call_cop_spec. Qed.
Print Assumptions C16_call_outcomes.

(* after vm_ffi_cop_stop the child is reaped and forgotten, both descriptors are closed *)
Theorem C16_no_orphan : forall v w, sigign w = true -> inv v w ->
  exists v' w', cop_stop v w = Go tt v' w' /\ has_pid v' = false /\ in_open v' = false /\ out_open v' = false /\
                cur w' = None /\ Forall (fun c => done_child c = true) (detached w').
Proof. exact no_orphan. Qed.
Print Assumptions C16_no_orphan.

(* a whole run (any number of extern calls, any scripts for the first and every relaunched co-process): exit status 0 or 1
   with every child reaped and none running -- or blocked on a silent peer; never a fatal signal *)
Theorem C16_run_contained : forall dec scripts reqs,
  safe_dec dec -> no_overrun reqs ->
  let o := run dec true scripts reqs in
  match o_status o with
  | SExit0 | SExit1 => has_pid (o_vm o) = false /\ all_reaped (o_world o) = true /\ orphans (o_world o) = false /\ wfb (o_vm o) (o_world o) = true
  | SHang _ => hang_ok (o_world o)
  | SKilled _ | SCrash => False
  end.
Proof. exact run_contained. Qed.
Print Assumptions C16_run_contained.

Theorem C16_wf_decidable : forall v w, wfb v w = true <-> inv v w.
Proof. exact wfb_inv. Qed.
Print Assumptions C16_wf_decidable.

(* ---- the two hypotheses above are NOT met by the unchanged code:

   (1) SIGPIPE.  Signals.nano_vm_ignores_sigpipe is generated from the sources.  While it is false the containment claim
   for the real nano_vm is REFUTED by a witness script (peer says READY with its stdin closed and stays alive): the VM is
   killed writing the first request and the peer is left running.  Once the generated constant is true the claim is the
   theorem above.  The statement below is the one that holds for whichever value the translator produced. *)
Theorem C16_nano_vm_contained_or_refuted :
  if nano_vm_ignores_sigpipe
  then forall dec scripts reqs, safe_dec dec -> no_overrun reqs ->
         match o_status (run dec nano_vm_ignores_sigpipe scripts reqs) with SKilled _ | SCrash => False | _ => True end
  else let o := run dec_real nano_vm_ignores_sigpipe [script_close_stdin] [ReqOk []] in
       o_status o = SKilled (LReq 1) /\ orphans (o_world o) = true.
Proof.
  unfold nano_vm_ignores_sigpipe.
  first [ exact sigpipe_default_kills
        | intros dec scripts reqs Sd Nr; pose proof (run_contained dec scripts reqs Sd Nr) as R; cbv zeta in R;
          destruct (o_status (run dec true scripts reqs)); auto ].
Qed.
Print Assumptions C16_nano_vm_contained_or_refuted.

Theorem C16_sigpipe_default_kills_in_stop_refuted :
  o_status (run dec_real false [script_exit_before_reply] [ReqOk []]) = SKilled LShutdown.
Proof. exact sigpipe_default_kills_in_stop. Qed.
Print Assumptions C16_sigpipe_default_kills_in_stop_refuted.

Theorem C16_sigpipe_ignored_contains_witness :
  let o := run dec_real true [script_close_stdin] [ReqOk []] in
  o_status o = SExit1 /\ o_err o = Some EReqDied /\ orphans (o_world o) = false /\ all_reaped (o_world o) = true.
Proof. exact sigpipe_ignored_contains. Qed.
Print Assumptions C16_sigpipe_ignored_contains_witness.

(* a stop can be cut short only by SIGPIPE *)
Theorem C16_stop_killed_only_by_sigpipe : forall v w f w', inv v w -> cop_stop v w = Stop f w' -> f = FKilled LShutdown /\ sigign w = false.
Proof. exact stop_killed_only_by_sigpipe. Qed.
Print Assumptions C16_stop_killed_only_by_sigpipe.

(* (2) the reply decoder.  safe_dec is REFUTED for the real cop_deserialize_value (model CopCodec.deser_a): a well-framed
   FFI_RESULT whose string length is 0xffffffff passes the uint32 bounds check and is read out of bounds (SIGSEGV), also with
   SIGPIPE ignored; and a huge array count crashes when calloc refuses it. *)
Theorem C16_reply_decoder_refuted :
  o_status (run dec_real true [script_str_wrap] [ReqOk []]) = SCrash /\ ~ safe_dec dec_real.
Proof. exact real_decoder_crashes. Qed.
Print Assumptions C16_reply_decoder_refuted.

Theorem C16_reply_decoder_alloc_refuted :
  deser_a 268435455 [TAG_ARRAY; 1; 255; 255; 255; 255; TAG_VOID] = DOob.
Proof. exact real_decoder_crashes_on_alloc_failure. Qed.
Print Assumptions C16_reply_decoder_alloc_refuted.

(* non-vacuity: the hypotheses of the containment theorems are satisfiable (initial state is well-formed; a healthy script
   runs two calls to completion; a decoder that never reads out of bounds exists) *)
Definition healthy : script :=
  [(LReady, [ADeliver msg_ready]);
   (LHdr 1, [ADeliver (frame COP_MSG_FFI_RESULT (ser (VInt 1)))]);
   (LHdr 2, [ADeliver (frame COP_MSG_FFI_RESULT (ser (VInt 2)))]);
   (LWait1, [AExit 0])].
Example C16_nonvacuous :
  wfb vm_none (init_world [healthy] true) = true /\
  (let o := run dec_real true [healthy] [ReqOk []; ReqOk []] in
   o_status o = SExit0 /\ o_done o = 2 /\ all_reaped (o_world o) = true) /\
  safe_dec (fun _ => DFail).
Proof. split; [vm_compute; reflexivity|]. split; [vm_compute; repeat split; reflexivity|]. intros p; discriminate. Qed.
