(* C16 -- a failing FFI co-process is contained by the VM.
   Only property theorems here.  Model: NV.Proto.CopClient (vm_ffi_cop_start / cop_is_alive / vm_ffi_call_cop /
   vm_ffi_cop_stop and the run loop of nano_vm over explicit OS rules; the peer is an arbitrary script of deliver / close stdin /
   close stdout / exit / killed actions per protocol step).  NV.gen.Signals is regenerated from the clang AST of the sources;
   the reply decoder is CopCodec.deser_a (cop_deserialize_value of the current sources, any allocator limit).
   Trusted: the OS rules stated at the top of CopClient.v; SIGTERM terminates the co-process. *)
From Coq Require Import NArith List Bool.
From NV Require Import Base.Bytes gen.CopConst gen.Signals Proto.CopCodec Proto.CopCodecProofs Proto.CopClient Proto.CopClientProofs.
Import ListNotations.
Local Open Scope N_scope.

(* the two facts about the real code the containment rests on *)
Theorem C16_nano_vm_ignores_sigpipe : nano_vm_ignores_sigpipe = true.
Proof. reflexivity. Qed.
Print Assumptions C16_nano_vm_ignores_sigpipe.

Theorem C16_reply_decoder_safe : forall amax, safe_dec (deser_a amax).
Proof. exact dec_real_safe. Qed.
Print Assumptions C16_reply_decoder_safe.

(* one extern call of the real client (SIGPIPE ignored, real decoder with any allocator): for EVERY peer script the call returns
   Ok / in-process fallback / Err in a well-formed state (cop_pid names exactly one unreaped child, or none with both
   descriptors closed; every forgotten child reaped) -- the only other possibility is a VM blocked in a read while the peer
   keeps its stdout open without delivering (hang_ok: the current child exists and its write end is open) *)
Theorem C16_call_contained : forall amax j req v w,
  sigign w = true -> req <> ReqOverrun -> inv v w ->
  match call_cop (deser_a amax) j req v w with
  | Go _ v' w' => inv v' w' /\ sigign w' = true
  | Stop (FHang _) w' => hang_ok w'
  | Stop _ _ => False
  end.
Proof. exact call_contained_real. Qed.
Print Assumptions C16_call_contained.

(* in general (any SIGPIPE disposition, any decoder): a call can only end the VM by SIGPIPE-while-writing (only when SIGPIPE
   is not ignored), by an out-of-bounds access of the reply decoder, or by blocking on a silent peer *)
Theorem C16_call_outcomes : forall dec j req v w, inv v w -> call_post dec req w (call_cop dec j req v w).
Proof. exact call_cop_spec. Qed.
Print Assumptions C16_call_outcomes.

(* after vm_ffi_cop_stop the child is reaped and forgotten, both descriptors are closed *)
Theorem C16_no_orphan : forall v w, sigign w = true -> inv v w ->
  exists v' w', cop_stop v w = Go tt v' w' /\ has_pid v' = false /\ in_open v' = false /\ out_open v' = false /\
                cur w' = None /\ Forall (fun c => done_child c = true) (detached w').
Proof. exact no_orphan. Qed.
Print Assumptions C16_no_orphan.

(* nano_vm_contained: a whole run of the real nano_vm --isolate-ffi (disposition as generated from the sources, real decoder,
   any number of extern calls, any scripts for the first and every relaunched co-process) ends with exit status 0 or 1, every
   child reaped and none running -- or blocked on a silent peer; never a fatal signal *)
Theorem C16_nano_vm_contained : forall amax scripts reqs,
  no_overrun reqs ->
  let o := run (deser_a amax) nano_vm_ignores_sigpipe scripts reqs in
  match o_status o with
  | SExit0 | SExit1 => has_pid (o_vm o) = false /\ all_reaped (o_world o) = true /\ orphans (o_world o) = false /\ wfb (o_vm o) (o_world o) = true
  | SHang _ => hang_ok (o_world o)
  | SKilled _ | SCrash => False
  end.
Proof. exact run_contained_real. Qed.
Print Assumptions C16_nano_vm_contained.

(* the same for an arbitrary bounds-safe decoder *)
Theorem C16_run_contained : forall dec scripts reqs,
  safe_dec dec -> no_overrun reqs ->
  let o := run dec true scripts reqs in
  match o_status o with
  | SExit0 | SExit1 => has_pid (o_vm o) = false /\ all_reaped (o_world o) = true /\ orphans (o_world o) = false /\ wfb (o_vm o) (o_world o) = true
  | SHang _ => hang_ok (o_world o)
  | SKilled _ | SCrash => False
  end.
Proof. exact run_contained. Qed.
Print Assumptions C16_run_contained.

Theorem C16_wf_decidable : forall v w, wfb v w = true <-> inv v w.
Proof. exact wfb_inv. Qed.
Print Assumptions C16_wf_decidable.

(* a stop can be cut short only by SIGPIPE *)
Theorem C16_stop_killed_only_by_sigpipe : forall v w f w', inv v w -> cop_stop v w = Stop f w' -> f = FKilled LShutdown /\ sigign w = false.
Proof. exact stop_killed_only_by_sigpipe. Qed.
Print Assumptions C16_stop_killed_only_by_sigpipe.

(* why the disposition is necessary (statements about the model with sigign = false, i.e. the code before commit f68d9af;
   the witnesses stay in the fault matrix): READY with stdin closed => killed writing the request, peer left running;
   exit before the reply => killed by the SHUTDOWN of vm_ffi_cop_stop.  With the disposition: exit 1, peer reaped. *)
Theorem C16_default_disposition_would_kill :
  (let o := run dec_real false [script_close_stdin] [ReqOk []] in
   o_status o = SKilled (LReq 1) /\ orphans (o_world o) = true) /\
  o_status (run dec_real false [script_exit_before_reply] [ReqOk []]) = SKilled LShutdown.
Proof. split; [exact sigpipe_default_kills|exact sigpipe_default_kills_in_stop]. Qed.
Print Assumptions C16_default_disposition_would_kill.

Theorem C16_witnesses_contained :
  (let o := run dec_real true [script_close_stdin] [ReqOk []] in
   o_status o = SExit1 /\ o_err o = Some EReqDied /\ orphans (o_world o) = false /\ all_reaped (o_world o) = true) /\
  (let o := run dec_real true [script_exit_before_reply] [ReqOk []] in
   o_status o = SExit1 /\ o_err o = Some ERespDied /\ all_reaped (o_world o) = true).
Proof. split; [exact sigpipe_ignored_contains|exact exit_before_reply_contained]. Qed.
Print Assumptions C16_witnesses_contained.

(* the replies that used to crash the decoder (string length 0xffffffff, array count 0xffffffff, count larger than the
   payload, 300 nested arrays) now end in "failed to deserialize result", exit 1, peer reaped *)
Theorem C16_hostile_replies_contained :
  forallb (fun p => match run dec_real true [script_reply p] [ReqOk []] with
                    | mkOut SExit1 (Some EDeser) 0 _ w => all_reaped w
                    | _ => false end)
    [ [TAG_STRING; 255; 255; 255; 255];
      [TAG_STRING; 251; 255; 255; 255; 97; 98];
      [TAG_ARRAY; 1; 255; 255; 255; 255; TAG_VOID];
      [TAG_ARRAY; 1; 2; 0; 0; 0; TAG_VOID];
      flat_map (fun _ => [TAG_ARRAY; 1; 1; 0; 0; 0]) (repeat tt 300) ++ [TAG_VOID] ] = true.
Proof. exact hostile_replies_contained. Qed.
Print Assumptions C16_hostile_replies_contained.

(* the text of an FFI_ERROR reply is DATA.  From the state right after a successful start, whatever byte string p (printf
   directives, NUL bytes, escapes, protocol keywords, ...) the peer frames as FFI_ERROR for call j, the call fails with exactly
   the first VM_EXT_ERR_SIZE - 1 bytes of p, the co-process stays attached, nothing else happens ... *)
Theorem C16_error_text_verbatim : forall dec j p ign,
  len p <= COP_MAX_PAYLOAD ->
  exists w', call_cop dec j (ReqOk []) vm_started (err_world j p ign)
             = Go (CErr (EMsg (firstn (N.to_nat (VM_EXT_ERR_SIZE - 1)) p))) vm_started w'.
Proof. exact call_error_text_verbatim. Qed.
Print Assumptions C16_error_text_verbatim.

(* ... and stderr is "Runtime error: Not implemented\n  " ++ cut (prefix ++ that text as a C string) ++ "\n": the bytes of p are
   copied, never interpreted.  (Prefix and both buffer sizes are generated from vm.c / vm.h; the translator refuses a report
   whose format is not a string literal ending in a single %s applied to the text buffer.) *)
Theorem C16_error_text_is_data : forall p,
  stderr_report (EMsg (firstn (N.to_nat (VM_EXT_ERR_SIZE - 1)) p)) =
  Some (runtime_error_line ++ [32; 32] ++
        firstn (N.to_nat (VM_ERROR_MSG_SIZE - 1)) (VM_FFI_ERR_PREFIX ++ cstr (firstn (N.to_nat (VM_EXT_ERR_SIZE - 1)) p)) ++ [10]).
Proof. exact error_report_is_data. Qed.
Print Assumptions C16_error_text_is_data.

Example C16_error_text_examples :
  stderr_report (EMsg [37; 115; 37; 110]) = Some (runtime_error_line ++ [32; 32] ++ VM_FFI_ERR_PREFIX ++ [37; 115; 37; 110; 10]) /\
  stderr_report (EMsg [97; 0; 98]) = Some (runtime_error_line ++ [32; 32] ++ VM_FFI_ERR_PREFIX ++ [97; 10]) /\
  stderr_report (EMsg []) = Some (runtime_error_line ++ [32; 32] ++ VM_FFI_ERR_PREFIX ++ [10]).
Proof. vm_compute. repeat split; reflexivity. Qed.

(* non-vacuity: the hypotheses of the containment theorems are satisfiable (initial state is well-formed; a healthy script
   runs two calls to completion) *)
Definition healthy : script :=
  [(LReady, [ADeliver msg_ready]);
   (LHdr 1, [ADeliver (frame COP_MSG_FFI_RESULT (ser (VInt 1)))]);
   (LHdr 2, [ADeliver (frame COP_MSG_FFI_RESULT (ser (VInt 2)))]);
   (LWait1, [AExit 0])].
Example C16_nonvacuous :
  wfb vm_none (init_world [healthy] true) = true /\
  (let o := run dec_real true [healthy] [ReqOk []; ReqOk []] in
   o_status o = SExit0 /\ o_done o = 2 /\ all_reaped (o_world o) = true).
Proof. split; [vm_compute; reflexivity|]. vm_compute; repeat split; reflexivity. Qed.
