(* C08 -- out-of-range operations stop the program and never yield a value.
   Only property theorems here.  [cur] = NV.gen.C13Cfg.cur (which repairs the current source contains).
   access c e k len idx : what engine e (VM / native runtime / interpreter) computes for access kind k (get / set / pop /
   remove) on an array of length len at index idx : Z -- AElem i (touches element i and continues), AVoid (yields a value and
   continues), ANoop (continues, nothing written), ATrap (the run stops).  legit k len idx = the access is inside [0,len)
   (pop: the array is not empty).  guarded c e k = the (engine, kind) pair refuses every illegitimate access under cfg c. *)
From Coq Require Import NArith ZArith List Bool.
From NV Require Import Base.Bytes Isa.Codec gen.IsaTable gen.C13Cfg Nvm.LoaderC Nvm.Verifier Vm.Value Vm.Bounds Vm.BoundsProofs
  Vm.IsaModelled Vm.Step Vm.StepProofs Vm.Run Vm.RunProofs.
Import ListNotations.
Local Open Scope Z_scope.

Theorem C08_isa_as_modelled : table_list = modelled_table.
Proof. vm_compute. reflexivity. Qed.
Print Assumptions C08_isa_as_modelled.

Theorem C08_oob_traps_cfg : forall c e k len idx,
  guarded c e k = true -> legit k len idx = false -> access c e k len idx = ATrap.
Proof. exact oob_traps_guarded. Qed.
Print Assumptions C08_oob_traps_cfg.

(* full strength for the current code: all three engines, all four access kinds, every length, every idx : Z
   (INT64_MIN, -1, len, 2^32+k are one case).  Compiles only while the source contains the VM bounds tests and the two pop-empty repairs. *)
Theorem C08_oob_traps : forall e k len idx, legit k len idx = false -> access cur e k len idx = ATrap.
Proof. intros e k len idx. apply oob_traps_guarded. destruct e, k; reflexivity. Qed.
Print Assumptions C08_oob_traps.

(* native runtime and interpreter: get / set / remove are guarded in the pinned tree, whatever the repairs *)
Theorem C08_oob_traps_native_interp : forall c k len idx, k <> APop ->
  legit k len idx = false -> access c ENative k len idx = ATrap /\ access c EInterp k len idx = ATrap.
Proof.
  intros c k len idx Hk L. split; apply oob_traps_guarded; try exact L; destruct k; try reflexivity; contradiction.
Qed.
Print Assumptions C08_oob_traps_native_interp.

(* necessity of each guard, for any combination of repairs (the unguarded forms carry computed witnesses: (3,5) yields a value,
   2^32+1 reads element 1, -(2^32-2) writes element 2, pop of an empty array yields a value) *)
Theorem C08_traps_iff_guarded : forall c e k,
  (forall len idx, legit k len idx = false -> access c e k len idx = ATrap) <-> guarded c e k = true.
Proof.
  intros c e k; split.
  - intros H. destruct (guarded c e k) eqn:G; [reflexivity|].
    destruct (unguarded_refuted c e k G) as [len [idx [L A]]]. exfalso. apply A. apply H. exact L.
  - intros G len idx L. apply oob_traps_guarded; assumption.
Qed.
Print Assumptions C08_traps_iff_guarded.

(* "never touches memory outside the object": whatever element an engine touches exists *)
Theorem C08_access_in_object : forall c e k len idx i, access c e k len idx = AElem i -> (i < len)%N.
Proof. exact access_in_object. Qed.
Print Assumptions C08_access_in_object.

(* legitimate accesses are not refused and touch the requested element (lengths are uint32_t in the VM) *)
Theorem C08_legit_access : forall c e k len idx, (len < 4294967296)%N ->
  legit k len idx = true -> access c e k len idx = AElem (match k with APop => (len - 1)%N | _ => Z.to_N idx end).
Proof. exact legit_access. Qed.
Print Assumptions C08_legit_access.

(* field / tuple / union index *)
Theorem C08_field_oob_traps : forall count idx, (count <= idx)%N -> vm_field count idx = ATrap.
Proof. exact field_oob_traps. Qed.
Print Assumptions C08_field_oob_traps.

(* ---- the same facts on the VM state machine ---- *)
(* a trap is final: non-zero VmResult, nothing more is printed, the run ends there *)
Theorem C08_trap_is_final : forall c m k s f fr frs i n e s',
  nth_N (m_funs m) (st_fn s) = Some f -> st_frames s = fr :: frs ->
  (st_ip s < add32 (f_off f) (f_len f))%N ->
  fetch m (st_ip s) (add32 (f_off f) (f_len f) - st_ip s)%N = FOk i n ->
  exec_instr c m s fr frs (st_ip s) i n = SErr e s' ->
  exec c m (S k) s = EErr e s' /\ e <> 0%N /\ st_out s' = st_out s /\
  out_of (finish (exec c m (S k) s)) = rev (st_out s).
Proof. exact exec_trap_final. Qed.
Print Assumptions C08_trap_is_final.

Theorem C08_every_error_is_final : forall c m s fr frs ip i n, errfinal s (exec_instr c m s fr frs ip i n).
Proof. exact exec_instr_errfinal. Qed.
Print Assumptions C08_every_error_is_final.

(* repaired VM: OP_ARR_GET / SET / REMOVE / POP outside the array end in VM_ERR_OUT_OF_BOUNDS with the output unchanged *)
Theorem C08_vm_arr_get_traps : forall m s fr frs ip n i l t els k idx,
  hget s KArr l = Some (OArr t els) -> op i = 83%N -> st_stack s = VInt idx :: VRef KArr l :: k ->
  legit AGet (N.of_nat (length els)) idx = false ->
  exists s', exec_instr cur m s fr frs ip i n = SErr E_OOB s' /\ st_out s' = st_out s.
Proof. intros. eapply (arr_get_traps cur); try eassumption; reflexivity. Qed.
Print Assumptions C08_vm_arr_get_traps.

Theorem C08_vm_arr_set_traps : forall m s fr frs ip n i l t els k idx v,
  hget s KArr l = Some (OArr t els) -> op i = 84%N -> st_stack s = v :: VInt idx :: VRef KArr l :: k ->
  legit ASet (N.of_nat (length els)) idx = false ->
  exists s', exec_instr cur m s fr frs ip i n = SErr E_OOB s' /\ st_out s' = st_out s.
Proof. intros. eapply (arr_set_traps cur); try eassumption; reflexivity. Qed.
Print Assumptions C08_vm_arr_set_traps.

Theorem C08_vm_arr_remove_traps : forall m s fr frs ip n i l t els k idx,
  hget s KArr l = Some (OArr t els) -> op i = 87%N -> st_stack s = VInt idx :: VRef KArr l :: k ->
  legit ARemove (N.of_nat (length els)) idx = false ->
  exists s', exec_instr cur m s fr frs ip i n = SErr E_OOB s' /\ st_out s' = st_out s.
Proof. intros. eapply (arr_remove_traps cur); try eassumption; reflexivity. Qed.
Print Assumptions C08_vm_arr_remove_traps.

Theorem C08_vm_pop_empty_traps : forall m s fr frs ip n i l t k, op i = 82%N ->
  st_stack s = VRef KArr l :: k -> hget s KArr l = Some (OArr t []) ->
  exists s', exec_instr cur m s fr frs ip i n = SErr E_OOB s' /\ st_out s' = st_out s.
Proof. intros m s fr frs ip n i l t k. exact (arr_pop_traps cur m s fr frs ip n i l t k eq_refl). Qed.
Print Assumptions C08_vm_pop_empty_traps.

(* every cfg (pinned included): tuple / struct / union field beyond the count traps *)
Theorem C08_tuple_oob_traps : forall c m s fr frs ip n i l els k, op i = 113%N -> st_stack s = VRef KTuple l :: k ->
  hget s KTuple l = Some (OTuple els) -> (N.of_nat (length els) <= arg i 0)%N ->
  exists s', exec_instr c m s fr frs ip i n = SErr E_OOB s' /\ st_out s' = st_out s.
Proof. exact tuple_get_traps. Qed.
Print Assumptions C08_tuple_oob_traps.
Theorem C08_struct_field_oob_traps : forall c m s fr frs ip n i l d fs k, op i = 97%N -> st_stack s = VRef KStruct l :: k ->
  hget s KStruct l = Some (OStruct d fs) -> (N.of_nat (length fs) <= arg i 0)%N ->
  exists s', exec_instr c m s fr frs ip i n = SErr E_OOB s' /\ st_out s' = st_out s.
Proof. exact struct_get_traps. Qed.
Print Assumptions C08_struct_field_oob_traps.
Theorem C08_union_field_oob_traps : forall c m s fr frs ip n i l d v fs k, op i = 106%N -> st_stack s = VRef KUnion l :: k ->
  hget s KUnion l = Some (OUnion d v fs) -> (N.of_nat (length fs) <= arg i 0)%N ->
  exists s', exec_instr c m s fr frs ip i n = SErr E_OOB s' /\ st_out s' = st_out s.
Proof. exact union_field_traps. Qed.
Print Assumptions C08_union_field_oob_traps.

(* whole programs (module bytes through load + verify + run): let a = [1,2,3]; println (at a idx); return 0 *)
Theorem C08_program_traps :
  trapped_with (pipeline cur (w_at 5) 100) 6 [] = true /\ trapped_with (pipeline cur (w_at 4294967297) 100) 6 [] = true /\
  trapped_with (pipeline cur (w_at (-1)) 100) 6 [] = true.
Proof. exact (w_at_traps cur eq_refl). Qed.
Print Assumptions C08_program_traps.

Example C08_nonvacuous :
  guarded cur EVm AGet = true /\ guarded cfg_pinned EVm AGet = false /\ guarded cfg_pinned ENative AGet = true /\
  legit AGet 3 2 = true /\ legit AGet 3 3 = false /\ legit APop 0 0 = false /\ access cfg_fixed EVm AGet 3 2 = AElem 2.
Proof. vm_compute. repeat split; reflexivity. Qed.
Print Assumptions C08_nonvacuous.
