(* C01 -- native (C-transpiled) and NanoVM backends are observationally equivalent.
   Corollary layer over the C02 development: what both engine models print for a value and how they turn main's
   result into an exit status coincide with the reference, hence with each other. *)
From Coq Require Import ZArith NArith List Bool.
From NV Require Import Lang.Ast Lang.Ref Back.VmCompile Back.VmExec Back.NatSem Back.OpTable Back.Agree Back.NatOrder Back.NatOrderProofs.
Import ListNotations.

(* value printing: the VM's val_print model and the reference/native printing agree on every scalar, string and array of ints *)
Theorem C01_print_alike : forall v, mval_print 8 (mval_of v) = print_value v.
Proof. exact print_alike. Qed.
Print Assumptions C01_print_alike.

(* the native model, when C evaluates arguments left to right, IS the reference semantics *)
Theorem C01_native_ltor_is_reference : forall fuel p, cc_refuses p = false -> nat_as_ref (run_nat LtoR fuel p) = run_ref fuel p.
Proof. exact nat_ltor_is_ref. Qed.
Print Assumptions C01_native_ltor_is_reference.

(* ---- the order in which C evaluates the arguments of a call (NatSem.arg_order; gcc: right to left) ----
   se_program p: every call in p has at most one argument that contains a call or a / or % (NatOrder.v). *)

(* fuel is only an artefact: an outcome other than NOutOfFuel is kept by every larger fuel, whatever the order *)
Theorem C01_native_fuel_monotone : forall ord n m p, n <= m -> run_nat ord n p <> NOutOfFuel -> run_nat ord m p = run_nat ord n p.
Proof. exact run_nat_mono. Qed.
Print Assumptions C01_native_fuel_monotone.

(* under se_program a run with one order that ends without being stuck is reproduced by the other order for EVERY
   large enough fuel, unless that other run gets stuck (a quiet but ill-typed argument such as (not 1) can be
   evaluated by one order only: C01_order_stuck_alternative_needed; well-typed programs are never stuck) *)
Theorem C01_native_order_irrelevant : forall o1 o2 p fuel r, se_program p = true ->
  run_nat o1 fuel p = r -> r <> NOutOfFuel -> r <> NStuckO ->
  exists fuel0, forall fuel', fuel0 <= fuel' -> run_nat o2 fuel' p = r \/ run_nat o2 fuel' p = NStuckO.
Proof. exact native_order_general. Qed.
Print Assumptions C01_native_order_irrelevant.

(* fuel-free symmetric form: two runs, one per order, that both end without being stuck end alike *)
Theorem C01_native_orders_agree : forall p f1 f2, se_program p = true ->
  run_nat LtoR f1 p <> NOutOfFuel -> run_nat LtoR f1 p <> NStuckO ->
  run_nat RtoL f2 p <> NOutOfFuel -> run_nat RtoL f2 p <> NStuckO ->
  run_nat RtoL f2 p = run_nat LtoR f1 p.
Proof. exact native_orders_agree. Qed.
Print Assumptions C01_native_orders_agree.

(* with gcc's order the native model reaches the reference outcome (Done or Faulted) *)
Theorem C01_native_rtol_reaches_reference : forall p fuel, se_program p = true -> cc_refuses p = false ->
  run_ref fuel p <> OutOfFuel -> run_ref fuel p <> StuckO ->
  exists fuel0, forall fuel', fuel0 <= fuel' ->
    nat_as_ref (run_nat RtoL fuel' p) = run_ref fuel p \/ run_nat RtoL fuel' p = NStuckO.
Proof. exact native_rtol_reaches_ref. Qed.
Print Assumptions C01_native_rtol_reaches_reference.

(* hypotheses are satisfiable: main returns (f3 (f1 1) 2 v) with f1 printing -- one loud argument *)
Example C01_order_hypotheses_satisfiable :
  se_program demo_prog = true /\ cc_refuses demo_prog = false /\
  run_nat LtoR 20 demo_prog = NDone [49; 10; 57; 10]%N 9 /\
  run_nat RtoL 20 demo_prog = NDone [49; 10; 57; 10]%N 9.
Proof. exact demo_one_loud_argument. Qed.
(* se_program is not idle: (f3 (f1 1) (f1 2) v) prints in a different order *)
Example C01_order_two_loud_arguments_differ :
  se_program demo_prog_two_loud = false /\
  run_nat LtoR 20 demo_prog_two_loud = NDone [49; 10; 50; 10; 49; 48; 10]%N 10 /\
  run_nat RtoL 20 demo_prog_two_loud = NDone [50; 10; 49; 10; 49; 48; 10]%N 10.
Proof. exact demo_two_loud_arguments_differ. Qed.
(* the stuck alternative cannot be dropped: main returns (f1 (/ 1 0) (not 1)) *)
Example C01_order_stuck_alternative_needed :
  se_program cex_prog = true /\ cc_refuses cex_prog = false /\
  run_nat LtoR 10 cex_prog = NFaulted NFSigfpe [] /\
  forall fuel', run_nat RtoL fuel' cex_prog = NOutOfFuel \/ run_nat RtoL fuel' cex_prog = NStuckO.
Proof. exact order_stuck_alternative_needed. Qed.

(* ---- the two engine models agree: VM simulation (VmSim) + native argument order (NatOrder) ---- *)
From NV Require Import Back.VmSimDefs Back.VmSimMod Back.VmSimFinal Back.BackendsAgree.

(* whenever the reference run ends with output [out] and status [ex], the NanoVM running the compiled bytecode and the
   native model with gcc's argument order both end with exactly that output and status *)
Theorem C01_backends_agree : forall pr M fuel out ex,
  compile_program pr = Some M -> small_program pr -> fuel_small fuel -> depth_ok M ->
  se_program pr = true -> cc_refuses pr = false -> (forall fuel', run_nat RtoL fuel' pr <> NStuckO) ->
  run_ref fuel pr = Done out ex ->
  (exists fv, run_vm fv M = VDone out ex) /\ (exists fn, run_nat RtoL fn pr = NDone out ex).
Proof. exact backends_agree. Qed.
Print Assumptions C01_backends_agree.

Theorem C01_backends_agree_on_failed_assert : forall pr M fuel out,
  compile_program pr = Some M -> small_program pr -> fuel_small fuel -> depth_ok M ->
  se_program pr = true -> cc_refuses pr = false -> (forall fuel', run_nat RtoL fuel' pr <> NStuckO) ->
  run_ref fuel pr = Faulted FAssert out ->
  (exists fv, run_vm fv M = VError EAssert out) /\ (exists fn, run_nat RtoL fn pr = NFaulted NFAssert out).
Proof. exact backends_agree_assert. Qed.
Print Assumptions C01_backends_agree_on_failed_assert.

(* ---- accepted programs: the "never stuck" hypothesis follows from the reference type checker ---- *)
From NV Require Import Lang.Types Back.VmSimExamples Back.NatTypeSound Back.BackendsAgreeTyped.

(* type soundness does not depend on the order in which C evaluates the arguments of a call: a program the reference
   checker accepts never gets stuck in the native model, whatever the order and the budget *)
Theorem C01_native_never_stuck : forall p, wt p = true -> forall ord fuel, run_nat ord fuel p <> NStuckO.
Proof. exact nat_wt_sound. Qed.
Print Assumptions C01_native_never_stuck.

Theorem C01_backends_agree_typed : forall pr M fuel out ex,
  wt pr = true -> compile_program pr = Some M -> small_program pr -> fuel_small fuel -> depth_ok M ->
  se_program pr = true -> cc_refuses pr = false ->
  run_ref fuel pr = Done out ex ->
  (exists fv, run_vm fv M = VDone out ex) /\ (exists fn, run_nat RtoL fn pr = NDone out ex).
Proof. exact backends_agree_typed. Qed.
Print Assumptions C01_backends_agree_typed.

Theorem C01_backends_agree_on_failed_assert_typed : forall pr M fuel out,
  wt pr = true -> compile_program pr = Some M -> small_program pr -> fuel_small fuel -> depth_ok M ->
  se_program pr = true -> cc_refuses pr = false ->
  run_ref fuel pr = Faulted FAssert out ->
  (exists fv, run_vm fv M = VError EAssert out) /\ (exists fn, run_nat RtoL fn pr = NFaulted NFAssert out).
Proof. exact backends_agree_assert_typed. Qed.
Print Assumptions C01_backends_agree_on_failed_assert_typed.

(* the hypotheses are jointly satisfiable (depth_ok included: one terminating machine run bounds the frame depth of every
   run of the module): the all-constructs program of VmSimExamples ... *)
Example C01_backends_agree_typed_satisfiable : exists M,
  wt ex_prog = true /\ compile_program ex_prog = Some M /\ small_program ex_prog /\ fuel_small 200 /\ depth_ok M /\
  se_program ex_prog = true /\ cc_refuses ex_prog = false /\
  run_ref 200 ex_prog = Done [104; 105; 10; 53; 53; 10]%N 10 /\
  run_vm 5000 M = VDone [104; 105; 10; 53; 53; 10]%N 10 /\
  run_nat RtoL 200 ex_prog = NDone [104; 105; 10; 53; 53; 10]%N 10.
Proof. exact backends_agree_typed_satisfiable. Qed.
Print Assumptions C01_backends_agree_typed_satisfiable.
(* ... main returns (f2 (f1 4) 3 (< 1 2)) where f1 prints: the loud first argument is evaluated last by gcc's order ... *)
Example C01_backends_agree_typed_loud_argument : exists M,
  wt ex_loud_done = true /\ compile_program ex_loud_done = Some M /\ small_program ex_loud_done /\ fuel_small 20 /\
  depth_ok M /\ se_program ex_loud_done = true /\ cc_refuses ex_loud_done = false /\
  run_ref 20 ex_loud_done = Done [52; 10]%N 5 /\
  run_vm 500 M = VDone [52; 10]%N 5 /\ run_nat RtoL 20 ex_loud_done = NDone [52; 10]%N 5.
Proof. exact backends_agree_typed_loud_argument. Qed.
(* ... and the same call with (< 2 1): f2's assertion fails after "4\n" was printed *)
Example C01_backends_agree_on_failed_assert_typed_satisfiable : exists M,
  wt ex_loud_assert = true /\ compile_program ex_loud_assert = Some M /\ small_program ex_loud_assert /\ fuel_small 20 /\
  depth_ok M /\ se_program ex_loud_assert = true /\ cc_refuses ex_loud_assert = false /\
  run_ref 20 ex_loud_assert = Faulted FAssert [52; 10]%N /\
  run_vm 500 M = VError EAssert [52; 10]%N /\ run_nat RtoL 20 ex_loud_assert = NFaulted NFAssert [52; 10]%N.
Proof. exact backends_agree_assert_typed_satisfiable. Qed.

(* ---- arrays: an index out of range stops both engines at the access, with the same output ---- *)
Theorem C01_backends_agree_on_out_of_range : forall pr M fuel out,
  compile_program pr = Some M -> small_program pr -> fuel_small fuel -> depth_ok M ->
  se_program pr = true -> cc_refuses pr = false -> (forall fuel', run_nat RtoL fuel' pr <> NStuckO) ->
  run_ref fuel pr = Faulted FOob out ->
  (exists fv, run_vm fv M = VError EOob out) /\ (exists fn, run_nat RtoL fn pr = NFaulted NFOob out).
Proof. exact backends_agree_oob. Qed.
Print Assumptions C01_backends_agree_on_out_of_range.

Theorem C01_backends_agree_on_out_of_range_typed : forall pr M fuel out,
  wt pr = true -> compile_program pr = Some M -> small_program pr -> fuel_small fuel -> depth_ok M ->
  se_program pr = true -> cc_refuses pr = false ->
  run_ref fuel pr = Faulted FOob out ->
  (exists fv, run_vm fv M = VError EOob out) /\ (exists fn, run_nat RtoL fn pr = NFaulted NFOob out).
Proof. exact backends_agree_oob_typed. Qed.
Print Assumptions C01_backends_agree_on_out_of_range_typed.

(* satisfiable on array programs: global array, array parameter and result, at / array_length / printing an array ... *)
Example C01_backends_agree_typed_arrays : exists M,
  wt ex_arr = true /\ compile_program ex_arr = Some M /\ small_program ex_arr /\ fuel_small 200 /\ depth_ok M /\
  se_program ex_arr = true /\ cc_refuses ex_arr = false /\
  run_ref 200 ex_arr = Done [50; 10; 91; 53; 44; 32; 54; 44; 32; 55; 93; 10; 53; 10; 54; 10; 55; 10]%N 11 /\
  run_vm 5000 M = VDone [50; 10; 91; 53; 44; 32; 54; 44; 32; 55; 93; 10; 53; 10; 54; 10; 55; 10]%N 11 /\
  run_nat RtoL 200 ex_arr = NDone [50; 10; 91; 53; 44; 32; 54; 44; 32; 55; 93; 10; 53; 10; 54; 10; 55; 10]%N 11.
Proof. exact backends_agree_typed_arrays. Qed.
(* ... and on string programs: a global string, string parameter and result, + / str_concat / str_length / str_equals /
   str_contains / char_at / str_substring / int_to_string, all inside the common domain of the two engines *)
Example C01_backends_agree_typed_strings : exists M,
  wt ex_str = true /\ compile_program ex_str = Some M /\ small_program ex_str /\ fuel_small 200 /\ depth_ok M /\
  se_program ex_str = true /\ cc_refuses ex_str = false /\
  run_ref 200 ex_str = Done ex_str_out 119 /\ run_vm 5000 M = VDone ex_str_out 119 /\ run_nat RtoL 200 ex_str = NDone ex_str_out 119.
Proof. exact backends_agree_typed_strings. Qed.
Print Assumptions C01_backends_agree_typed_strings.
(* OUTSIDE the common domain the theorems are silent: (char_at "abc" 3) is undefined in the reference (FStrDomain: the VM
   answers -1, the native runtime 0, finding lang:char-at-out-of-range); the VM model prints what the real VM prints *)
Example C01_char_at_outside_the_common_domain : exists M, compile_program ex_str_dom = Some M /\
  run_ref 50 ex_str_dom = Faulted FStrDomain [] /\ run_vm 500 M = VDone [45; 49; 10]%N 0.
Proof. exact ex_str_dom_runs. Qed.
(* ... and an out-of-range access after "1" was printed *)
Example C01_backends_agree_on_out_of_range_satisfiable : exists M,
  wt ex_oob = true /\ compile_program ex_oob = Some M /\ small_program ex_oob /\ fuel_small 100 /\
  depth_ok M /\ se_program ex_oob = true /\ cc_refuses ex_oob = false /\
  run_ref 100 ex_oob = Faulted FOob [49; 10]%N /\
  run_vm 500 M = VError EOob [49; 10]%N /\ run_nat RtoL 100 ex_oob = NFaulted NFOob [49; 10]%N.
Proof. exact backends_agree_oob_typed_satisfiable. Qed.

(* ---- integer -> text (int_to_string, to_string, cast_string, string interpolation of ints) ----
   Both backends format through snprintf into a fixed buffer whose size is read from the current source
   (tools/gen/gen_intfmt.py -> gen/IntFmt.v).  For EVERY 64-bit integer the text fits, so neither backend truncates and
   both produce the decimal text of the reference semantics. *)
From NV Require Import gen.IntFmt Back.IntFormat Back.IntFormatProofs.

Theorem C01_int_text_at_most_20_chars : forall z, in64 z = true -> (length (print_Z z) <= 20)%nat.
Proof. exact print_Z_length. Qed.
Print Assumptions C01_int_text_at_most_20_chars.

Theorem C01_int_to_string_backends_agree : forall z, in64 z = true ->
  vm_int_to_string z = Some (native_int_to_string z) /\ native_int_to_string z = print_Z z.
Proof. intros z H. split; [apply int_to_string_backends_agree | apply native_int_to_string_exact]; exact H. Qed.
Print Assumptions C01_int_to_string_backends_agree.

Theorem C01_native_int_buffer_in_bounds : native_int_buffer_ok = true.
Proof. exact native_int_buffer_in_bounds. Qed.
Print Assumptions C01_native_int_buffer_in_bounds.

Example C01_int_text_bound_attained : length (print_Z (-9223372036854775808)) = 20%nat /\ in64 (-9223372036854775808) = true.
Proof. exact print_Z_length_attained. Qed.
