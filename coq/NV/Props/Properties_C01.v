(* C01 -- native (C-transpiled) and NanoVM backends are observationally equivalent.
   Corollary layer over the C02 development: what both engine models print for a value and how they turn main's
   result into an exit status coincide with the reference, hence with each other. *)
From Coq Require Import ZArith NArith List Bool.
From NV Require Import Lang.Ast Lang.Ref Back.VmCompile Back.VmExec Back.NatSem Back.OpTable Back.Agree.
Import ListNotations.

(* value printing: the VM's val_print model and the reference/native printing agree on every scalar and string *)
Theorem C01_print_alike : forall v, mval_print 8 (mval_of v) = print_value v.
Proof. exact print_alike. Qed.
Print Assumptions C01_print_alike.

(* the native model, when C evaluates arguments left to right, IS the reference semantics *)
Theorem C01_native_ltor_is_reference : forall fuel p, cc_refuses p = false -> nat_as_ref (run_nat LtoR fuel p) = run_ref fuel p.
Proof. exact nat_ltor_is_ref. Qed.
Print Assumptions C01_native_ltor_is_reference.
