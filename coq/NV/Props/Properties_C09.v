(* C09 (part 1, loops and recursion; the lexer theorems are appended below) -- placeholder header, replaced later *)
From Coq Require Import List String Arith Bool.
From NV Require Import Front.RecoveryLoops gen.ParserLoops.
Import ListNotations.

Theorem C09_flagged_loops_are_the_listed_findings : keys_eqb (flagged parser_loops) listed_loop_findings = true.
Proof. vm_compute. reflexivity. Qed.
Theorem C09_all_loops_progress : forallb progresses (without listed_loop_findings parser_loops) = true.
Proof. vm_compute. reflexivity. Qed.
Theorem C09_unguarded_recursion_is_the_listed_findings : strs_eqb (on_cycle parser_unguarded_calls) listed_cycle_findings = true.
Proof. vm_compute. reflexivity. Qed.
Theorem C09_all_cycles_guarded : acyclic (restrict (fun f => negb (mem f listed_cycle_findings)) parser_unguarded_calls) = true.
Proof. vm_compute. reflexivity. Qed.
