(* C09 -- the front end is total: every input ends in acceptance or a diagnostic.
   Only property theorems here ([exact <lemma>], or vm_compute on closed generated data) + Print Assumptions.

   What is proved, and about what:
   (1) GENERIC: a cursor loop every iteration of which exits, moves the token cursor forward, or leaves the loop test
       false terminates within ntokens + 2 iterations (C09_loop_terminates); a loop whose SUMMARY passes the progress rule
       satisfies that hypothesis, whatever its body does within the summary (C09_summary_terminates); counted loops
       (C09_counted_loop_terminates); a rank decreasing along call edges bounds call chains (C09_call_chain_bounded).
   (2) ABOUT parser.c, by computation on NV.gen.ParserLoops (regenerated from the clang AST of /repo/src/parser.c on
       every run by tools/gen/gen_parserloops.py -- rules in its header, trusted):
       the loops that do NOT pass the rule are EXACTLY the loops listed as open findings, and the cursor functions that lie
       on a recursion cycle NOT passing a depth guard are EXACTLY the listed findings.  Since the parser fixes ca1fd81 all
       eight C09 findings are closed, both lists are EMPTY, and the statements are the unrestricted ones: EVERY loop of
       parser.c passes the progress rule (C09_all_loops_progress), the unguarded call graph of the cursor functions is
       acyclic (C09_all_cycles_guarded).  A NEW non-progressing loop or unguarded cycle breaks the theorems.
   (3) ABOUT the parser model (NV.Front.ExprParser, tied to the real parser by the C07 correspondence and by the witness
       comparison of tools/props/c09.py): a failed argument of a prefix form ends the form with an error
       (C09_prefix_arg_failure_reported: `(+ 1 else)`), nesting beyond MAX_RECURSION_DEPTH is reported as an error on
       every recursive path of the expression grammar: groups, prefix forms, unary chains (C09_depth_limit_reported);
       the model has no non-terminating outcome left (the constructor Hang of the first version is gone).
   (4) ABOUT the tokenizer model (NV.Front.Lexer, compared token for token with the real tokenize): total, every loop
       iteration consumes a byte, exactly one EOF token at the end, at most one token per source byte.
   (5) ABOUT import processing (NV.Front.ImportGraph: process_imports / load_module_internal with the module cache, over
       arbitrary finite import graphs; tied to nano_virt / nanoc by running generated graphs through both): the loader WITH
       the in-progress test terminates on every graph (C09_import_loader_total), acceptance means the loaded modules are
       complete and acyclic (C09_import_accept_sound); the loader of the pinned tree, WITHOUT that test, does not terminate on
       a self import or a 2-cycle (C09_import_loader_unguarded_total_refuted) = open finding c09:modules:cycle2:*.
   PARTIAL: the parser as a whole is not modelled (only its loops / recursion structure and the expression fragment); the
   type checker is exercised by the robustness runs only; path resolution of imports (resolve_module_path) is not modelled. *)
From Coq Require Import List String Arith Bool NArith.
From NV Require Import gen.Tokens gen.ParserConsts Front.RecoveryLoops Front.RecoveryLoopsProofs gen.ParserLoops
                       Front.ExprParser Front.ExprParserMono Front.ExprParserProofs Front.Lexer Front.LexerProofs
                       Front.ImportGraph Front.ImportGraphProofs.
Import ListNotations.

(* ---------------------------------------------------------------- (1) generic *)
Theorem C09_loop_terminates :
  forall (State : Type) (pos : State -> nat) (N : nat) (guard : State -> bool) (step : State -> option State),
  (forall s, pos s <= N) ->
  (forall s s', guard s = true -> step s = Some s' -> pos s < pos s' \/ guard s' = false) ->
  forall s, loop State guard step (N + 2) s = None.
Proof. exact loop_terminates_bound. Qed.
Print Assumptions C09_loop_terminates.

Theorem C09_summary_terminates :
  forall (State : Type) (pos : State -> nat) (N : nat) (guard : State -> bool) (step : State -> option State),
  (forall s, pos s <= N) ->
  forall l, l_kind l = LCursor -> progresses l = true ->
  (forall s, guard s = true -> exists p, In p (l_paths l) /\ sem State pos N p s (step s)) ->
  (l_guard_excl_eof l = true -> forall s, pos s = N -> guard s = false) ->
  forall s, loop State guard step (N + 2) s = None.
Proof. exact summary_terminates. Qed.
Print Assumptions C09_summary_terminates.

Theorem C09_counted_loop_terminates : forall bound i,
  loop nat (fun i => Nat.ltb i bound) (fun i => Some (S i)) (bound + 2) i = None.
Proof. exact counted_loop_terminates. Qed.
Print Assumptions C09_counted_loop_terminates.

Theorem C09_call_chain_bounded : forall g r, ranks_ok g r = true ->
  forall l x n, chain g (x :: l) -> rank_of r x = Some n -> List.length (x :: l) <= S n.
Proof. exact chain_bounded. Qed.
Print Assumptions C09_call_chain_bounded.

(* ---------------------------------------------------------------- (2) parser.c, from the generated summaries *)
Theorem C09_flagged_loops_are_the_listed_findings : keys_eqb (flagged parser_loops) listed_loop_findings = true.
Proof. vm_compute. reflexivity. Qed.
Print Assumptions C09_flagged_loops_are_the_listed_findings.

Theorem C09_all_loops_progress : forallb progresses (without listed_loop_findings parser_loops) = true.
Proof. vm_compute. reflexivity. Qed.
Print Assumptions C09_all_loops_progress.

(* the translator classified every path of every loop *)
Theorem C09_no_unclassified_path :
  forallb (fun l => negb (existsb (fun p => match p with PUnknown => true | _ => false end) (l_paths l))) parser_loops = true.
Proof. vm_compute. reflexivity. Qed.
Print Assumptions C09_no_unclassified_path.

Theorem C09_unguarded_recursion_is_the_listed_findings :
  strs_eqb (on_cycle parser_unguarded_calls) listed_cycle_findings = true.
Proof. vm_compute. reflexivity. Qed.
Print Assumptions C09_unguarded_recursion_is_the_listed_findings.

Theorem C09_all_cycles_guarded :
  acyclic (restrict (fun f => negb (mem f listed_cycle_findings)) parser_unguarded_calls) = true.
Proof. vm_compute. reflexivity. Qed.
Print Assumptions C09_all_cycles_guarded.

(* hence: a chain of calls that never passes a depth guard, among the functions not listed, has at most as many links as
   there are such functions *)
Theorem C09_unguarded_chains_are_short :
  let g := restrict (fun f => negb (mem f listed_cycle_findings)) parser_unguarded_calls in
  forall l x n, chain g (x :: l) -> rank_of (kahn (List.length g) g []) x = Some n -> List.length (x :: l) <= S n.
Proof. intro g. exact (chain_bounded g (kahn (List.length g) g []) C09_all_cycles_guarded). Qed.
Print Assumptions C09_unguarded_chains_are_short.

(* parse_expression and parse_block carry the depth guard *)
Example C09_guarded_functions : mem "parse_block" depth_guarded = true /\ mem "parse_expression" depth_guarded = true.
Proof. vm_compute. split; reflexivity. Qed.

(* both lists are empty on the current tree: the two statements above are about ALL loops / ALL cursor functions *)
Theorem C09_no_open_loop_or_recursion_finding :
  listed_loop_findings = [] /\ listed_cycle_findings = [] /\
  forallb progresses parser_loops = true /\ acyclic parser_unguarded_calls = true.
Proof. vm_compute. repeat split; reflexivity. Qed.
Print Assumptions C09_no_open_loop_or_recursion_finding.

(* ---------------------------------------------------------------- (3) the former hanging inputs, in the parser model *)
(* return (+ 1 else) : the failed argument ends the prefix form: NULL and the error flag, cursor on the offending token *)
Theorem C09_prefix_arg_failure_reported :
  parse [T K_LPAREN; T K_PLUS; Tok K_NUMBER b_1; T K_ELSE; T K_RPAREN] = Ok None [T K_ELSE; T K_RPAREN] true.
Proof. vm_compute. reflexivity. Qed.
Print Assumptions C09_prefix_arg_failure_reported.

(* nesting beyond MAX_RECURSION_DEPTH is reported as an error on every recursive path of the expression grammar *)
Definition reported (r : res) : bool := match r with Ok None _ true => true | _ => false end.
Definition accepted (r : res) : bool := match r with Ok (Some _) [] false => true | _ => false end.
Theorem C09_depth_limit_reported :
  reported (parse (pladder MAXD [Tok K_NUMBER b_1])) = true /\ accepted (parse (pladder (MAXD - 1) [Tok K_NUMBER b_1])) = true /\
  reported (parse (ladder MAXD [Tok K_NUMBER b_1; T K_PLUS; Tok K_NUMBER b_2])) = true /\
  accepted (parse (ladder (MAXD - 1) [Tok K_NUMBER b_1; T K_PLUS; Tok K_NUMBER b_2])) = true /\
  reported (parse (uladder MAXD [Tok K_NUMBER b_1])) = true /\ accepted (parse (uladder (MAXD - 1) [Tok K_NUMBER b_1])) = true.
Proof. vm_compute. repeat split; reflexivity. Qed.
Print Assumptions C09_depth_limit_reported.

(* ---------------------------------------------------------------- (4) the tokenizer *)
Theorem C09_tokenize_total : forall src, tokenize src <> LFuel.
Proof. exact tokenize_total. Qed.
Print Assumptions C09_tokenize_total.

Theorem C09_lexer_iteration_consumes : forall c t i line ls col r',
  step_rest (lex_step c t i line ls col) = Some r' -> List.length r' <= List.length t.
Proof. exact lex_step_shrinks. Qed.
Print Assumptions C09_lexer_iteration_consumes.

Theorem C09_tokenize_shape : forall src toks, tokenize src = LOk toks ->
  exists body l c, toks = body ++ [LTok K_EOF None l c] /\ Forall (fun t => lk t <> K_EOF) body /\
                   List.length body <= List.length src.
Proof. exact tokenize_shape. Qed.
Print Assumptions C09_tokenize_shape.

Example C09_tokenize_example :
  tokenize (bytes_of_string "x-1 'a'") =
  LOk [LTok K_IDENTIFIER (Some [120%N]) 1 1; LTok K_NUMBER (Some [45%N; 49%N]) 1 2; LTok K_NUMBER (Some [57%N; 55%N]) 1 5;
       LTok K_EOF None 1 5].
Proof. vm_compute. reflexivity. Qed.

(* ---------------------------------------------------------------- (5) import processing over arbitrary finite import graphs *)
(* NV.Front.ImportGraph: module.c's process_imports / load_module_internal and its module cache as a state machine.
   guard = true is the loader with proposed_fixes/C09-circular-import.diff (a cache entry without AST met on entry = the module is still
   being loaded = "Circular import" diagnostic); guard = false is the loader of the pinned tree, which writes that entry but never reads it.
   The check ties the model to the tools by running generated import graphs through both (tools/props/c09_streams.py). *)

(* the repaired loader terminates on EVERY finite graph and every program file: fuel = number of files + 1 is never exhausted
   (measure: files of the graph not yet in the cache; every load that recurses adds one) *)
Theorem C09_import_loader_total : forall g main, run_guarded g main <> NoFuel.
Proof. exact run_total. Qed.
Print Assumptions C09_import_loader_total.

Theorem C09_import_load_total : forall g fuel m c, uncached g c < fuel -> load true g fuel m c <> NoFuel.
Proof. exact load_total. Qed.
Print Assumptions C09_import_load_total.

(* an answer other than NoFuel does not depend on the fuel *)
Theorem C09_import_fuel_irrelevant : forall guard g fuel m c,
  load guard g fuel m c <> NoFuel -> load guard g (S fuel) m c = load guard g fuel m c.
Proof. exact load_fuel_mono. Qed.
Print Assumptions C09_import_fuel_irrelevant.

(* acceptance is sound: all imports of the program are loaded, every loaded module is an existing file whose imports are all loaded, and
   a rank strictly decreases along every import edge between loaded modules (no cycle was accepted) *)
Theorem C09_import_accept_sound : forall g main deps c, lookup g main = Some deps -> run_guarded g main = Done c ->
  (forall d, In d deps -> has_ast c d = true) /\
  exists rank, forall k, has_ast c k = true ->
    exists ds, lookup g k = Some ds /\ forall d, In d ds -> has_ast c d = true /\ rank d < rank k.
Proof. exact run_accept_sound. Qed.
Print Assumptions C09_import_accept_sound.

(* the loader of the pinned tree (no test of the in-progress entry): "the import phase terminates" is REFUTED -- a file that imports itself,
   and two files importing each other, exhaust every amount of fuel (on the real tools: unbounded recursion
   load_module_internal <-> process_imports, SIGSEGV; finding c09:modules:cycle2:nano_virt / :nanoc) *)
Theorem C09_import_loader_unguarded_total_refuted :
  exists g main, forall fuel, run false g fuel main = NoFuel.
Proof. exists [(0, [0])], 0. exact unguarded_self_import_diverges. Qed.
Print Assumptions C09_import_loader_unguarded_total_refuted.

Theorem C09_import_two_cycle_unguarded_diverges : forall fuel, run false [(0, [1]); (1, [0])] fuel 0 = NoFuel.
Proof. exact unguarded_two_cycle_diverges. Qed.
Print Assumptions C09_import_two_cycle_unguarded_diverges.

(* the same graphs and some neighbours on the repaired loader: 0 = the program file *)
Example C09_import_examples :
  run_guarded [(0, [0])] 0 = Diag (Cycle 0) /\                                              (* self import *)
  run_guarded [(0, [1]); (1, [0])] 0 = Diag (Cycle 1) /\                                    (* a <-> b: reported when b is met again *)
  run_guarded [(0, [1]); (1, [2]); (2, [1])] 0 = Diag (Cycle 1) /\                          (* cycle below the program *)
  run_guarded [(0, [1; 2]); (1, [3]); (2, [3]); (3, [])] 0 = Done [(1, true); (3, true); (2, true)] /\   (* diamond: 3 loaded once *)
  run_guarded [(0, [1]); (1, [7])] 0 = Diag (Missing 7) /\                                  (* missing file below the program *)
  run_guarded [(0, [1; 1]); (1, [])] 0 = Done [(1, true)] /\                                (* the same module twice *)
  run_unguarded [(0, [1; 2]); (1, [3]); (2, [3]); (3, [])] 0 = Done [(1, true); (3, true); (2, true)].  (* acyclic: both loaders agree *)
Proof. vm_compute. repeat split; reflexivity. Qed.
