(* C20 -- native programs and their C runtime are memory-safe; the runtime containers behave as sequences.
   Only property theorems here.  [rt_params] = NV.gen.RtParams.rt_params, measured on the current dyn_array.c on every run.
   Scope (see level_note): the theorems are about the executable models NV.Runtime.DynArray (dyn_array.c + the emitted
   nl_array_slice) and NV.Runtime.Gc (gc.c without children); the ARC code the transpiler emits is not modelled. *)
From Coq Require Import NArith ZArith List Bool Lia.
From NV Require Import Base.Bytes Isa.Codec Runtime.DynArray Runtime.DynArrayProofs Runtime.Gc Runtime.GcProofs gen.RtParams.
From NV Require Import Runtime.FmtSb Runtime.FmtSbProofs gen.FmtSbParams.
From NV Require Import Runtime.ListRt Runtime.ListRtProofs gen.ListParams.
From NV Require Import Runtime.HashMapRt Runtime.HashMapRtProofs gen.HashMapParams.
Import ListNotations.

(* the measured constants satisfy what the proofs need: INITIAL_CAPACITY >= 1, GROWTH_FACTOR >= 2, the built-in element sizes fit the
   elem_size field, and limit * 256^sizeof(elem_size) stays far below 2^63 *)
Theorem C20_params_good : good_params rt_params.
Proof.
  unfold good_params. split; [vm_compute; repeat constructor|]. split; [vm_compute; repeat constructor|].
  split; [vm_compute; discriminate|]. split; [vm_compute; discriminate|]. split; [vm_compute; reflexivity|].
  intros k; destruct k; vm_compute; reflexivity.
Qed.
Print Assumptions C20_params_good.

(* dyn_refines_list: for every history (any element kind, any interleaving of push / pop / get / set / remove_at / clear /
   reserve / clone / slice / struct push-get-set-pop, any values and indices) the array machine with capacity, storage
   block and checked accesses produces the outputs, the final sequence and the assert-stops of the typed-sequence machine,
   as long as the history stays in the specification's domain (LExcl: only allocation requests above the limit and
   impossible struct sizes, see C20_dyn_excluded_iff). *)
Theorem C20_dyn_refines_list : forall ops d, inv rt_params d ->
  match lrun rt_params (abs d) ops with
  | (outs, LFin l') => exists d', run rt_params d ops = (outs, Fin d') /\ abs d' = l' /\ inv rt_params d'
  | (outs, LAborted) => run rt_params d ops = (outs, Aborted)
  | (_, LExcl) => True
  end.
Proof. exact (run_refines rt_params C20_params_good). Qed.
Print Assumptions C20_dyn_refines_list.

(* ... in particular from a freshly created array of any kind *)
Theorem C20_dyn_refines_list_from_new : forall k ops,
  match lrun rt_params (abs (dyn_new rt_params k)) ops with
  | (outs, LFin l') => exists d', run rt_params (dyn_new rt_params k) ops = (outs, Fin d') /\ abs d' = l'
  | (outs, LAborted) => run rt_params (dyn_new rt_params k) ops = (outs, Aborted)
  | (_, LExcl) => True
  end.
Proof.
  intros k ops. pose proof (C20_dyn_refines_list ops (dyn_new rt_params k) (inv_new _ _ C20_params_good)) as H.
  destruct (lrun rt_params (abs (dyn_new rt_params k)) ops) as [outs f]. destruct f; auto.
  destruct H as (d' & A & B & _). exists d'. auto.
Qed.
Print Assumptions C20_dyn_refines_list_from_new.

(* dyn_inv: length <= capacity, the block holds exactly capacity cells, every cell below length is initialised
   (struct cells are blobs of elem_size bytes), established by new and preserved by every in-domain step *)
Theorem C20_dyn_inv_new : forall k, inv rt_params (dyn_new rt_params k).
Proof. exact (fun k => inv_new rt_params k C20_params_good). Qed.
Print Assumptions C20_dyn_inv_new.

Theorem C20_dyn_inv_step : forall d o d' x, inv rt_params d -> lstep rt_params (abs d) o <> LExcluded ->
  step rt_params d o = ROk d' x -> inv rt_params d'.
Proof. exact (fun d o d' x => step_inv rt_params d o d' x C20_params_good). Qed.
Print Assumptions C20_dyn_inv_step.

Theorem C20_dyn_inv_unfolds : forall d, inv rt_params d ->
  (d_len d <= d_cap d)%nat /\
  match d_data d with Some els => length els = d_cap d | None => d_len d = 0%nat end.
Proof.
  intros d (H1 & _ & _ & _ & _ & H6). split; [exact H1|]. destruct (d_data d); tauto.
Qed.
Print Assumptions C20_dyn_inv_unfolds.

(* no step inside the domain touches memory outside the block / evaluates an undefined operation *)
Theorem C20_dyn_no_crash : forall d o, inv rt_params d -> lstep rt_params (abs d) o <> LExcluded ->
  step rt_params d o <> RCrash /\ step rt_params d o <> ROom.
Proof. exact (fun d o => step_no_crash rt_params d o C20_params_good). Qed.
Print Assumptions C20_dyn_no_crash.

(* get / set: any index, any kind -- either answers or is stopped by the assert, never Crash *)
Theorem C20_dyn_get_set_never_crash : forall d k i v, inv rt_params d ->
  step rt_params d (Get k i) <> RCrash /\ step rt_params d (Set_ k i v) <> RCrash.
Proof. exact (fun d k i v => get_set_never_crash rt_params d k i v C20_params_good). Qed.
Print Assumptions C20_dyn_get_set_never_crash.

Theorem C20_dyn_get_in_range : forall d k i, inv rt_params d -> d_kind d = ek k -> (0 <= i < Z.of_nat (d_len d))%Z ->
  exists c, step rt_params d (Get k i) = ROk d (OCell c) /\ c <> Uninit /\ nth_error (l_items (abs d)) (Z.to_nat i) = Some c.
Proof. exact (fun d k i => get_in_range rt_params d k i C20_params_good). Qed.
Print Assumptions C20_dyn_get_in_range.

(* FULL STRENGTH since the repairs c3b7222 (dyn_array_clone of struct arrays), 9ae9f7a (nl_array_slice clamps the length
   before adding) and aedede4 (DynArray.elem_size is a uint32_t): clone and slice are inside the specification for every
   element kind and every argument, struct elements may have any size the field can hold.  What remains outside [lstep]'s
   domain is not a behaviour of the code but of the allocator / of C itself:
     Reserve n, Clone        a request above [rt_limit] = 2^20 cells (malloc's answer is not modelled)
     PushStruct bs           a struct of 0 bytes (not a C99 object) or of >= 256^sizeof(elem_size) = 2^32 bytes
   and ONE open defect of the unchanged tree (found by an outside reviewer, finding c20:dyn:push-own-struct-elem):
     PushStructElem i        dyn_array_push_struct(arr, dyn_array_get_struct(arr, i), elem_size), i.e. what the transpiler emits for
                             (array_push xs (at xs i)) on an array<struct>: at length == capacity the block is realloc'ed and the
                             memcpy reads the freed source (C20_dyn_refines_list_refuted).  Excluded while [rt_push_self_safe]
                             (measured on the current code) is false.
   C20_dyn_excluded_iff is the exact characterisation; together with C20_dyn_refines_list: every history whose allocation
   requests stay below the limit behaves as the typed sequence. *)
Theorem C20_dyn_excluded_iff : forall l o, lstep rt_params l o = LExcluded <->
  match o with
  | Reserve n => (p_limit rt_params < n)%Z
  | Clone => (p_limit rt_params < Z.of_nat (length (l_items l)))%Z
  | PushStruct bs => struct_size_ok rt_params bs = false
  | PushStructElem i => rt_push_self_safe = false
  | _ => False
  end.
Proof.
  intros l o. split.
  - intros H. destruct o; cbn [lstep] in H;
      repeat match type of H with
             | (if ?c then _ else _) = LExcluded => let E := fresh "E" in destruct c eqn:E
             | match ?c with _ => _ end = LExcluded => let E := fresh "E" in destruct c eqn:E
             end; try discriminate;
      repeat match goal with
             | E : (_ <? _)%Z = true |- _ => apply Z.ltb_lt in E
             | E : negb _ = true |- _ => apply negb_true_iff in E
             end; auto.
  - intros H. destruct o; try contradiction; cbn [lstep].
    + apply Z.ltb_lt in H. rewrite H. reflexivity.
    + apply Z.ltb_lt in H. rewrite H. reflexivity.
    + rewrite H. reflexivity.
    + change (p_push_self_safe rt_params) with rt_push_self_safe. rewrite H. reflexivity.
Qed.
Print Assumptions C20_dyn_excluded_iff.

(* in particular the emitted nl_array_slice and dyn_array_get/set/pop/remove/clear/length are total on the specification *)
Theorem C20_dyn_slice_never_excluded : forall l a b, lstep rt_params l (Slice a b) <> LExcluded.
Proof. intros l a b H. apply C20_dyn_excluded_iff in H. exact H. Qed.
Print Assumptions C20_dyn_slice_never_excluded.

(* REFUTED at full strength while the defect is present: pushing an element of the array onto the same struct array works
   below capacity and is a use-after-free exactly when the array has to grow -- the outcome depends on the capacity, which no
   sequence has.  [rt_push_self_safe] is measured by replaying this witness on the current code in a sanitized child process;
   with proposed_fixes/C20-push-own-struct-elem.diff applied it is true and the same history ends as the list says.
   Replayed on the real code by tools/props/c20.py (dyn_probe: c20:dyn:push-own-struct-elem; native programs:
   c20:native:asan:array_push:own-struct-element:len8 / :len16). *)
Theorem C20_dyn_refines_list_refuted :
  let fill := map (fun n => PushStruct [N.of_nat n; 7]%N) (seq 0 8) in
  (* seven elements: capacity 8 not reached, the self push is fine on every tree *)
  fst (run rt_params (dyn_new rt_params EStruct) (firstn 7 fill ++ [PushStructElem 0; GetStruct 7])) = repeat OUnit 8 ++ [OCell (Blob [0; 7]%N)] /\
  (* eight elements: length == capacity *)
  (if rt_push_self_safe
   then fst (run rt_params (dyn_new rt_params EStruct) (fill ++ [PushStructElem 0; GetStruct 8; Length])) = repeat OUnit 9 ++ [OCell (Blob [0; 7]%N); OLen 9]
   else snd (run rt_params (dyn_new rt_params EStruct) (fill ++ [PushStructElem 0])) = Crashed).
Proof. vm_compute. split; reflexivity. Qed.
Print Assumptions C20_dyn_refines_list_refuted.

(* regression guards.  (1) the translator replays the witnesses of the repaired findings on the current code in a sanitized
   child process; (2) the former Crash witnesses now run to the end, in the array machine itself, with the list's answers
   (the second one: 9 structs, i.e. a clone larger than INITIAL_CAPACITY; the last: a 300-byte struct) *)
Theorem C20_runtime_repairs_present : rt_clone_struct_fixed = true /\ rt_slice_clamped = true /\ (255 < rt_esize_mod)%N.
Proof. vm_compute. repeat split; reflexivity. Qed.
Print Assumptions C20_runtime_repairs_present.

Theorem C20_dyn_former_witnesses :
  fst (run rt_params (dyn_new rt_params EStruct) [PushStruct [1; 2]%N; Clone; GetStruct 0]) = [OUnit; OUnit; OCell (Blob [1; 2]%N)] /\
  fst (run rt_params (dyn_new rt_params EStruct) (repeat (PushStruct [10; 11; 12]%N) 9 ++ [Clone; Length; GetStruct 8]))
    = repeat OUnit 10 ++ [OLen 9; OCell (Blob [10; 11; 12]%N)] /\
  fst (run rt_params (dyn_new rt_params EStruct) [Clone; Length]) = [OUnit; OLen 0] /\
  fst (run rt_params (dyn_new rt_params EInt) [Push SInt 1; Push SInt 2; Slice 1 9223372036854775807; Get SInt 0; Length])
    = [OUnit; OUnit; OUnit; OCell (Val 2); OLen 1] /\
  fst (run rt_params (dyn_new rt_params EStruct) [PushStruct (repeat 7%N 300); Length]) = [OUnit; OLen 1].
Proof. vm_compute. repeat split; reflexivity. Qed.
Print Assumptions C20_dyn_former_witnesses.

(* non-vacuity: a history that grows twice, removes, slices and clones stays in the domain and ends as the list says *)
Example C20_dyn_nonvacuous :
  lrun rt_params (abs (dyn_new rt_params EInt))
       (map (fun n => Push SInt (N.of_nat n)) (seq 0 17) ++ [RemoveAt 3; Pop SInt; Slice 2 12; Clone; Set_ SInt 0 99; Get SInt 0])
  = (repeat OUnit 17 ++ [OUnit; OPop true (Val 16); OUnit; OUnit; OUnit; OCell (Val 99)],
     LFin {| l_kind := EInt; l_esize := 8;
             l_items := map Val [99; 4; 5; 6; 7; 8; 9; 10; 11; 12; 13; 14]%N |}).
Proof. vm_compute. reflexivity. Qed.

(* ------------------------------------------------------------------------------------------------ gc.c
   gc_inv: the all-objects list, the pointer set and the live headers describe the same objects, each exactly once, none
   with reference count 0; established by the empty state, preserved by alloc / retain / release / is_managed / collect
   (retain must not wrap the 32-bit counter: [no_wrap]). *)
Theorem C20_gc_inv_empty : ginv gc_empty.
Proof. exact ginv_empty. Qed.
Print Assumptions C20_gc_inv_empty.

Theorem C20_gc_inv : forall g o g' out, ginv g -> no_wrap g o -> gstep rt_gc_header g o = GOk g' out -> ginv g'.
Proof. exact (ginv_step rt_gc_header). Qed.
Print Assumptions C20_gc_inv.

(* release to zero frees exactly once: one new entry in the free log, the object leaves list and set, its block is no
   longer live, all other objects untouched *)
Theorem C20_gc_release_last_frees_once : forall g p x,
  ginv g -> In p (g_list g) -> lookup (g_heap g) p = Some x -> h_rc x = 1%N ->
  exists g', gstep rt_gc_header g (GRelease p) = GOk g' GUnit /\
    ~ In p (g_list g') /\ ~ In p (g_set g') /\ lookup (g_heap g') p = None /\ g_frees g' = p :: g_frees g /\
    (forall q, q <> p -> (In q (g_list g') <-> In q (g_list g)) /\ lookup (g_heap g') q = lookup (g_heap g) q).
Proof. exact (release_last_frees_once rt_gc_header). Qed.
Print Assumptions C20_gc_release_last_frees_once.

(* no use of dead memory: every operation on NULL, on managed pointers, and release / is_managed on ANY pointer *)
Theorem C20_gc_no_crash : forall g o, ginv g -> (forall p, o = GRetain p -> p = 0%N \/ In p (g_list g)) ->
  gstep rt_gc_header g o <> GCrash.
Proof. exact (gc_no_crash rt_gc_header). Qed.
Print Assumptions C20_gc_no_crash.

(* the "Double release detected" assert is unreachable from any state the API can produce ... *)
Theorem C20_gc_no_abort : forall g o, ginv g -> gstep rt_gc_header g o <> GAbort.
Proof. exact (gc_no_abort rt_gc_header). Qed.
Print Assumptions C20_gc_no_abort.

(* ... because a release of a pointer that is not (any more) in the set returns silently *)
Theorem C20_gc_stale_release_silent : forall g p, ~ In p (g_set g) -> gstep rt_gc_header g (GRelease p) = GOk g GUnit.
Proof. exact (stale_release_silent rt_gc_header). Qed.
Print Assumptions C20_gc_stale_release_silent.

(* REFUTED (DESIGN.md's "double release is the asserted fault, never a silent state"): the second release of a freed
   object is a silent no-op; and when the allocator has handed the same address to a new object in between, the stale
   release frees the NEW owner's object (is_managed answers false for a pointer its owner never released).
   Both histories are replayed on the real gc.c by tools/props/c20.py (gc_probe, plain build / ASan without quarantine). *)
Theorem C20_gc_double_release_asserted_refuted :
  (exists g, grun rt_gc_header gc_empty [GAlloc 16 8 2; GRelease 16; GRelease 16] = ([GPtr 16; GUnit; GUnit], GFin g)) /\
  fst (grun rt_gc_header gc_empty [GAlloc 16 8 2; GRelease 16; GAlloc 16 8 2; GRelease 16; GIsManaged 16])
    = [GPtr 16; GUnit; GPtr 16; GUnit; GBool false]%N.
Proof. split; [eexists|]; vm_compute; reflexivity. Qed.
Print Assumptions C20_gc_double_release_asserted_refuted.

Example C20_gc_nonvacuous :
  match grun rt_gc_header gc_empty [GAlloc 16 8 2; GAlloc 32 100 5; GRetain 16; GRelease 16; GCollect; GRelease 32; GIsManaged 16]%N with
  | (outs, GFin g) => ginvb g && N.eqb (g_count g) 1 && N.eqb (g_usage g) 48 && Nat.eqb (length outs) 7
  | _ => false
  end = true.
Proof. vm_compute. reflexivity. Qed.

(* ------------------------------------------------------------------------------------------------ the emitted string builder
   nl_fmt_sb_* (src/stdlib_runtime.c emits it into every native program; println / to_string of arrays, structs and unions append
   their pieces to it).  [fmtsb_params] is READ FROM THE CURRENT SOURCE by tools/gen/gen_fmtsb.py: the growth rule is the statement it
   finds between "new_cap = ..." and realloc in nl_fmt_sb_ensure.  A source that grows once instead of looping gives GrowOnce and
   breaks C20_sb_growth_loops (and the probe / native programs produce the failing input). *)
Theorem C20_sb_growth_loops :
  sb_mode fmtsb_params = GrowLoop /\ sb_factor fmtsb_params = 2%N /\ sb_slack fmtsb_params = 1%N /\
  (0 < sb_default fmtsb_params)%N /\ (0 < sb_new_default fmtsb_params)%N /\
  fmtsb_ensure_shape_ok = true /\ fmtsb_append_shape_ok = true /\ forallb (fun c => N.ltb 0 c) fmtsb_initial_caps = true.
Proof. vm_compute. repeat split; reflexivity. Qed.
Print Assumptions C20_sb_growth_loops.

Lemma fmtsb_loop_params : loop_params fmtsb_params.
Proof. destruct C20_sb_growth_loops as (A & B & C & D & E & _). unfold loop_params. auto. Qed.

(* ensure establishes needed <= cap for every needed up to SIZE_MAX/2 + 1 = 2^63 (beyond that the C's size_t doubling wraps) *)
Theorem C20_sb_ensure : forall s extra, (b_len s + extra + 1 <= 9223372036854775808)%N ->
  exists s', ensure fmtsb_params s extra = SOk s' /\ (b_len s + extra + 1 <= b_cap s')%N /\
             b_len s' = b_len s /\ b_text s' = b_text s /\ (b_cap s <= b_cap s')%N.
Proof. exact (fun s extra => FmtSbProofs.ensure_ok fmtsb_params s extra fmtsb_loop_params). Qed.
Print Assumptions C20_sb_ensure.

(* append = list concatenation, invariant len + 1 <= cap, no write outside the block, from a builder of any initial capacity *)
Theorem C20_sb_append_is_concat : forall initial pieces, (N.of_nat (length (concat pieces)) + 1 <= 9223372036854775808)%N ->
  exists s', append_all fmtsb_params (sb_new fmtsb_params initial) pieces = SOk s' /\ b_text s' = concat pieces /\
             (b_len s' + 1 <= b_cap s')%N /\ b_len s' = N.of_nat (length (b_text s')).
Proof.
  intros initial pieces H.
  destruct (append_all_is_concat fmtsb_params fmtsb_loop_params pieces (sb_new fmtsb_params initial) (sb_new_inv _ _ fmtsb_loop_params) H)
    as (s' & A & B & C & D).
  exists s'. auto.
Qed.
Print Assumptions C20_sb_append_is_concat.

(* the model discriminates: with a growth rule that multiplies once (whatever the source then reads as), a 256-byte builder given one
   piece of 600 bytes writes outside its block; with the looping rule the same history is fine *)
Example C20_sb_grow_once_overflows :
  append_all {| sb_mode := GrowOnce; sb_factor := 2; sb_default := 128; sb_slack := 1; sb_new_default := 128 |}
             (sb_new fmtsb_params 256) [[91]%N; repeat 120%N 600] = SCrash /\
  (exists s, append_all {| sb_mode := GrowLoop; sb_factor := 2; sb_default := 128; sb_slack := 1; sb_new_default := 128 |}
             (sb_new fmtsb_params 256) [[91]%N; repeat 120%N 600] = SOk s /\ b_cap s = 1024%N).
Proof. split; [vm_compute; reflexivity|eexists; vm_compute; split; reflexivity]. Qed.

(* ------------------------------------------------------------------------------------------------ the runtime list template
   src/runtime/list_int.c (= list_token.c, the list_<Type>.c files and the output of scripts/generate_list.sh up to the element type --
   checked by tools/gen/gen_listrt.py on every run; list_string.c differs by strdup/free of its elements and is probed separately).
   [list_params] (INITIAL_CAPACITY, GROWTH_FACTOR) is measured on the current list_int.c. *)
Theorem C20_list_params_good : good_lp list_params /\ list_growth_shape_ok = true.
Proof. vm_compute. repeat split; repeat constructor. Qed.
Print Assumptions C20_list_params_good.

(* list_refines_list: for every history of push / pop / insert / remove / set / get / clear / length / is_empty, any values and indices,
   the list with capacity, storage block and checked accesses produces the outputs, the final contents and the "Error ...; exit(1)"
   stops of the plain list, where insert i v = firstn i l ++ v :: skipn i l.  (A capacity query ends the comparison: a sequence has
   no capacity; the probe compares capacities with the concrete model.) *)
Theorem C20_list_refines_list : forall ops s, rinv s ->
  match arun (rabs s) ops with
  | (outs, AFin l') => exists s', rrun list_params s ops = (outs, RFin s') /\ rabs s' = l' /\ rinv s'
  | (outs, AExited) => rrun list_params s ops = (outs, RExited)
  | (_, ANone) => True
  end.
Proof. exact (rrun_refines list_params (proj1 C20_list_params_good)). Qed.
Print Assumptions C20_list_refines_list.

(* ... from list_T_new() and from list_T_with_capacity(c) for every c (including 0) *)
Theorem C20_list_refines_list_from_new : forall ops c,
  (match arun [] ops with
   | (outs, AFin l') => exists s', rrun list_params (rl_new list_params) ops = (outs, RFin s') /\ rabs s' = l'
   | (outs, AExited) => rrun list_params (rl_new list_params) ops = (outs, RExited)
   | (_, ANone) => True end) /\
  (match arun [] ops with
   | (outs, AFin l') => exists s', rrun list_params (rl_with_capacity c) ops = (outs, RFin s') /\ rabs s' = l'
   | (outs, AExited) => rrun list_params (rl_with_capacity c) ops = (outs, RExited)
   | (_, ANone) => True end).
Proof.
  intros ops c. split.
  - pose proof (C20_list_refines_list ops (rl_new list_params) (rinv_new _)) as H. change (rabs (rl_new list_params)) with (@nil N) in H.
    destruct (arun [] ops) as [outs f]. destruct f; auto. destruct H as (s' & A & B & _). exists s'. auto.
  - pose proof (C20_list_refines_list ops (rl_with_capacity c) (rinv_new c)) as H. change (rabs (rl_with_capacity c)) with (@nil N) in H.
    destruct (arun [] ops) as [outs f]. destruct f; auto. destruct H as (s' & A & B & _). exists s'. auto.
Qed.
Print Assumptions C20_list_refines_list_from_new.

(* list_inv: length <= capacity, the block holds exactly capacity cells; preserved by every operation; no operation, whatever the
   index, reads or writes outside the block *)
Theorem C20_list_inv_step : forall s o s' x, rinv s -> rstep list_params s o = ROk_ s' x -> rinv s'.
Proof. exact (fun s o s' x => rstep_inv list_params s o s' x (proj1 C20_list_params_good)). Qed.
Print Assumptions C20_list_inv_step.

Theorem C20_list_no_crash : forall s o, rinv s -> rstep list_params s o <> RCrash_.
Proof. exact (fun s o => rstep_no_crash list_params s o (proj1 C20_list_params_good)). Qed.
Print Assumptions C20_list_no_crash.

(* insert, spelled out: also when the list is full and has to grow *)
Theorem C20_list_insert : forall s i v, rinv s -> (0 <= i <= Z.of_nat (r_len s))%Z ->
  exists s', rstep list_params s (RInsert i v) = ROk_ s' RUnit /\
             rabs s' = firstn (Z.to_nat i) (rabs s) ++ v :: skipn (Z.to_nat i) (rabs s) /\ r_len s' = S (r_len s).
Proof.
  intros s i v I Hi. pose proof (rstep_refines list_params s (RInsert i v) (proj1 C20_list_params_good) I) as S.
  unfold rsim in S. cbn [astep] in S. rewrite (rabs_len s I) in S.
  assert (E : ((0 <=? i)%Z && (i <=? Z.of_nat (r_len s))%Z) = true).
  { apply andb_true_iff. split; [apply Z.leb_le|apply Z.leb_le]; tauto. }
  rewrite E in S. cbn [negb] in S. destruct S as (s' & A & B & C). exists s'. split; [exact A|]. split; [exact B|].
  pose proof (rabs_len s' C) as L'. rewrite B in L'. rewrite app_length in L'. cbn [length] in L'.
  rewrite firstn_length, skipn_length, (rabs_len s I) in L'. lia.
Qed.
Print Assumptions C20_list_insert.

(* non-vacuity: the sorted insertion of 12 scrambled values (the 9th insert finds the list full: length 8 = capacity 8, index in the
   middle) ends sorted, in the machine with capacities *)
Example C20_list_nonvacuous :
  let ins := [RInsert 0 3; RInsert 1 8; RInsert 0 0; RInsert 2 5; RInsert 4 10; RInsert 1 2; RInsert 4 7; RInsert 7 12; RInsert 3 4;
              RInsert 7 9; RInsert 1 1; RInsert 6 6; RCapacity]%N%Z in
  match rrun list_params (rl_new list_params) ins with
  | (outs, RFin s) => list_N_eqb (rabs s) [0; 1; 2; 3; 4; 5; 6; 7; 8; 9; 10; 12]%N && Nat.eqb (r_cap s) 16 && Nat.eqb (length outs) 13
  | _ => false
  end = true.
Proof. vm_compute. reflexivity. Qed.

(* ====================================================================== the emitted HashMap<K,V> (open addressing, tombstones)
   [hm_params] = NV.gen.HashMapParams.hm_params: initial capacity, load factor, growth, minimum capacity, the constants of the two hash
   functions and the SHAPE of the tombstone branch of nl_hashmap_<K>_<V>_find_slot, all read by tools/gen/gen_hashmap.py from the text
   the compiler under test emits (nanoc -S) for the four instantiations, on every run. *)

(* the emitted text is the one the proofs below are about: the nested tombstone branch, 16 slots, rehash to twice the capacity at
   (size + tombstones) / capacity >= 7/10, never fewer than 8 slots *)
Theorem C20_hm_params_good : hgood hm_params.
Proof. vm_compute. repeat split; reflexivity. Qed.
Print Assumptions C20_hm_params_good.

(* NO ACCESS TO A FREED KEY.  [compared] lists the slots whose key field the probe loop hands to the comparison.  With the emitted
   tombstone branch every one of them is a live entry: the key of a removed entry (free()d by map_remove for string keys) is never
   read again, whatever the table looks like (no invariant needed) *)
Theorem C20_hm_no_freed_key_access : forall es k idxs first_tomb,
  Forall (fun i => exists k' v, nth i es Empty = Live k' v) (compared (hp_shape hm_params) es k idxs first_tomb).
Proof. exact (fun es k => compared_nested_live es k). Qed.
Print Assumptions C20_hm_no_freed_key_access.

(* ... and the model's crash outcome of the loop is exactly "a tombstone's key was compared", for every shape of the branch *)
Theorem C20_hm_freed_iff_tombstone_compared : forall sh es k idxs first_tomb,
  scan sh es k idxs first_tomb = FFreed <-> exists i k', In i (compared sh es k idxs first_tomb) /\ nth i es Empty = Tomb k'.
Proof. exact (fun sh es k => scan_freed_compared es k sh). Qed.
Print Assumptions C20_hm_freed_iff_tombstone_compared.

Theorem C20_hm_never_crashes : forall m o, hstep hm_params m o <> HCrash.
Proof. exact (fun m o => nested_never_crashes hm_params m o (proj1 C20_hm_params_good)). Qed.
Print Assumptions C20_hm_never_crashes.

(* hm_refines_map: put / has / get / remove / length / clear agree with the association list, step by step; the relation [R] carries
   the invariant (distinct live keys, every live key reachable from its home slot without crossing an empty slot, exact size and
   tombstone counters, at least one empty slot) and is re-established by every operation, rehash included *)
Theorem C20_hm_refines_map : forall m l o, R hm_params m l ->
  exists m', hstep hm_params m o = HOk m' (snd (amstep l o)) /\ R hm_params m' (fst (amstep l o)).
Proof. exact (hstep_refines hm_params C20_hm_params_good). Qed.
Print Assumptions C20_hm_refines_map.

(* every history on a new map: the outputs are those of the association list, it ends (no crash), the invariant holds at the end *)
Theorem C20_hm_refines_map_from_new : forall ops,
  exists m', hrun hm_params (hnew hm_params) ops = (amrun [] ops, HFin m') /\ Inv hm_params m'.
Proof. exact (hrun_from_new hm_params C20_hm_params_good). Qed.
Print Assumptions C20_hm_refines_map_from_new.

(* the capacity is a power of two at every point of every history, which is what makes `h & (capacity - 1)` / `(idx + 1) & mask` of the
   emitted text the `mod capacity` of the model *)
Theorem C20_hm_cap_pow2 : forall ops xs m', hrun hm_params (hnew hm_params) ops = (xs, HFin m') -> exists e, h_cap m' = 2 ^ e.
Proof. exact (fun ops xs m' => hrun_cap_pow2 hm_params ops (hnew hm_params) xs m' (ex_intro _ 4 eq_refl)). Qed.
Print Assumptions C20_hm_cap_pow2.
Theorem C20_hm_mask_is_mod : forall e k, home hm_params (2 ^ e) k = N.to_nat (hash hm_params k mod 2 ^ N.of_nat e)%N.
Proof. exact (home_is_mod hm_params). Qed.
Print Assumptions C20_hm_mask_is_mod.

(* non-vacuity, and what the flattened branch (`if (state == 2 && first_tomb == -1) ... else if (key matches)`) does: three keys of
   one probe chain (home slot 3 of 16 for the strings "k9" "k30" "k45", home slot 5 for the ints 4 5 9), the first two removed, the
   third looked up.  The emitted shape answers 1; the flattened shape compares the key of the second tombstone *)
Example C20_hm_flat_shape_compares_freed_key :
  let flat := {| hp_shape := Flat; hp_init := hp_init hm_params; hp_load_num := hp_load_num hm_params; hp_load_den := hp_load_den hm_params;
                 hp_growth := hp_growth hm_params; hp_min := hp_min hm_params; hp_fnv_offset := hp_fnv_offset hm_params;
                 hp_fnv_prime := hp_fnv_prime hm_params; hp_mix1 := hp_mix1 hm_params; hp_mix2 := hp_mix2 hm_params;
                 hp_mix_shift := hp_mix_shift hm_params |} in
  let hist := fun a b c => [HPut a 1; HPut b 2; HPut c 3; HRemove a; HRemove b; HHas c; HGet c; HLength]%N in
  let s := hist (KStr [107; 57]%N) (KStr [107; 51; 48]%N) (KStr [107; 52; 53]%N) in
  let i := hist (KInt 4) (KInt 5) (KInt 9) in
  (map (home hm_params 16) [KStr [107; 57]%N; KStr [107; 51; 48]%N; KStr [107; 52; 53]%N; KInt 4; KInt 5; KInt 9] = [3; 3; 3; 5; 5; 5]) /\
  fst (hrun hm_params (hnew hm_params) s) = [None; None; None; None; None; Some 1; Some 3; Some 1]%N /\
  fst (hrun hm_params (hnew hm_params) i) = [None; None; None; None; None; Some 1; Some 3; Some 1]%N /\
  snd (hrun flat (hnew flat) s) = HCrashed /\ snd (hrun flat (hnew flat) i) = HCrashed.
Proof. vm_compute. repeat split; reflexivity. Qed.
