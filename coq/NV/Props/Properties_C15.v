(* C15 -- isolating external calls in the co-process does not change program behaviour.
   Only property theorems here.  Model: NV.Proto.CopCodec (cop_serialize_value / cop_deserialize_value / framing /
   request of vm_ffi_call_cop / reply of handle_ffi_req); constants: NV.gen.CopConst, regenerated from the sources on every run
   (buffer bounds, nesting limit, the error text for an over-large result).
   The callee (vm_ffi_call: dlsym + marshalling) is the same C code on both paths and is an arbitrary function here.
   Allocation is assumed to succeed in the round trip (deser = decoder with an allocator that grants every count < 2^32). *)
From Coq Require Import NArith List Bool.
From NV Require Import Base.Bytes gen.CopConst Proto.CopCodec Proto.CopCodecProofs.
Import ListNotations.
Local Open Scope N_scope.

(* the generated constants have the shape the model relies on: distinct byte-sized tags for the seven wire cases,
   8-byte packed header (version, type, reserved u16, payload_len u32), little-endian host; and the request / reply buffers
   now grow up to the protocol bound *)
Theorem C15_constants :
  forallb (fun t => t <? 256) [TAG_VOID; TAG_INT; TAG_FLOAT; TAG_BOOL; TAG_STRING; TAG_ARRAY; TAG_OPAQUE] = true /\
  NoDup [TAG_VOID; TAG_INT; TAG_FLOAT; TAG_BOOL; TAG_STRING; TAG_ARRAY; TAG_OPAQUE] /\
  (HDR_SIZEOF, COP_HEADER_SIZE, HDR_OFF_VERSION, HDR_OFF_TYPE, HDR_OFF_RESERVED, HDR_OFF_LEN) = (8, 8, 0, 1, 2, 4) /\
  LITTLE_ENDIAN = 1 /\ COP_PROTO_VERSION < 256 /\ COP_MAX_PAYLOAD < 2 ^ 32 /\
  REQ_MAX_ARGS = COP_ARGS_MAX /\ COP_ARGS_MAX <= COP_ARGS_ARRAY /\
  REQ_BUF_SIZE = COP_MAX_PAYLOAD /\ COP_REPLY_BIG_BUF = COP_MAX_PAYLOAD /\ COP_REPLY_STACK_BUF <= COP_REPLY_BIG_BUF /\
  len COP_REPLY_TOO_LARGE_MSG <= 255 /\ 0 < COP_MAX_NESTING.
Proof.
  split; [vm_compute; reflexivity|]. split.
  { repeat (constructor; [vm_compute; intuition discriminate|]). constructor. }
  repeat split; vm_compute; first [reflexivity | discriminate].
Qed.
Print Assumptions C15_constants.

(* every value of a transferable type arrives bit-for-bit: deserialize (serialize v ++ anything) = v, consuming exactly
   the encoding.  transferable = int/float/opaque 64-bit patterns, bool, byte strings (length + 5 < 2^32), void, and
   arrays (count < 2^32, any element-type byte) of transferable values, nested at most COP_MAX_NESTING (256) array levels --
   the bound the decoder enforces since it stopped recursing without limit. *)
Theorem C15_deser_ser : forall v rest, transferable v ->
  deser (ser v ++ rest) = Some (v, length (ser v)).
Proof. exact deser_ser. Qed.
Print Assumptions C15_deser_ser.

Theorem C15_transferable_def : forall v, transferable v <-> wf_value v /\ vdepth v <= COP_MAX_NESTING.
Proof.
  intros v. unfold transferable, transferableb, wf_value. rewrite andb_true_iff, N.leb_le. tauto.
Qed.
Print Assumptions C15_transferable_def.

Theorem C15_ser_bytes_ok : forall v, wf_value v -> bytes_ok (ser v).
Proof. exact ser_bytes_ok. Qed.
Print Assumptions C15_ser_bytes_ok.

(* cop_serialize_value(v, buf, cap) writes exactly the layout when it fits and returns 0 otherwise (never overruns);
   holds at any nesting depth (the serializer has no depth limit) *)
Theorem C15_ser_buf_exact : forall v, wf_value v -> forall cap,
  ser_buf v cap = if ser_size v <=? cap then SOk (ser v) else SNoRoom.
Proof. exact ser_buf_spec. Qed.
Print Assumptions C15_ser_buf_exact.

Theorem C15_ser_size : forall v, ser_size v = len (ser v).
Proof. exact ser_size_len. Qed.
Print Assumptions C15_ser_size.

(* the decoder, on ARBITRARY bytes and with ANY allocator limit: its recursion is bounded by the buffer (the model's fuel never
   runs out), it never reads or writes out of bounds, and it never claims more bytes than it was given *)
Theorem C15_deser_fuel_enough : forall amax bs, deser_a amax bs <> DFuel.
Proof. exact deser_fuel_enough. Qed.
Print Assumptions C15_deser_fuel_enough.

Theorem C15_deser_never_oob : forall amax bs, deser_a amax bs <> DOob.
Proof. exact deser_never_oob. Qed.
Print Assumptions C15_deser_never_oob.

Theorem C15_deser_consumed : forall bs v n, deser bs = Some (v, n) -> (1 <= n <= length bs)%nat.
Proof. exact deser_consumed. Qed.
Print Assumptions C15_deser_consumed.

(* request_fits: every transferable argument list whose request the protocol can carry is sent *)
Theorem C15_request_fits : forall idx args,
  Forall transferable args -> len args <= REQ_MAX_ARGS -> 6 + args_size args <= COP_MAX_PAYLOAD ->
  build_request idx args = ReqOk (le_bytes 4 idx ++ le_bytes 2 (len args) ++ flat_map ser args).
Proof. exact request_fits. Qed.
Print Assumptions C15_request_fits.

(* ... and only those: beyond the bound some argument is reported as not serializable *)
Theorem C15_request_too_big : forall cap idx args,
  Forall wf_value args -> len args <= REQ_MAX_ARGS -> cap < 6 + args_size args -> 6 <= cap ->
  exists j, build_request_cap cap idx args = ReqArgFail j.
Proof. exact request_too_big. Qed.
Print Assumptions C15_request_too_big.

(* one extern call through a healthy co-process returns what the in-process call returns (value or error text) for EVERY
   request and result the protocol can carry *)
Theorem C15_call_transparent : forall (f : callee_t) idx args,
  idx < 2 ^ 32 -> Forall transferable args -> len args <= REQ_MAX_ARGS ->
  6 + args_size args <= COP_MAX_PAYLOAD ->
  outcome_ok (f idx args) ->
  call_cop f idx args = call_inproc f idx args.
Proof. exact call_transparent. Qed.
Print Assumptions C15_call_transparent.

(* what remains REFUTED is the protocol bound itself (COP_MAX_PAYLOAD = 16 MiB per message) and the nesting bound:
   a string argument of COP_MAX_PAYLOAD - 10 bytes is refused ("COP: failed to serialize arg 0"), *)
Theorem C15_request_above_max_refuted :
  exists args, Forall transferable args /\ len args <= REQ_MAX_ARGS /\ exists idx, build_request idx args = ReqArgFail 0.
Proof. exact request_above_max_refuted. Qed.
Print Assumptions C15_request_above_max_refuted.

(* a string result of COP_MAX_PAYLOAD bytes comes back as the FFI error "result too large to serialize" (in-process: the value), *)
Theorem C15_reply_above_max_refuted :
  exists r, transferable r /\
    forall idx, idx < 2 ^ 32 ->
      call_cop (fun _ _ => ORes r) idx [] = CErr COP_REPLY_TOO_LARGE_MSG /\ call_inproc (fun _ _ => ORes r) idx [] = CRes r.
Proof. exact reply_above_max_refuted. Qed.
Print Assumptions C15_reply_above_max_refuted.

(* 257 nested arrays are refused by the decoder while 256 levels round-trip *)
Theorem C15_nesting_above_max_refuted :
  wf_value (nest 256) /\ vdepth (nest 256) = 257 /\ deser (ser (nest 256)) = None /\
  transferable (nest 255) /\ deser (ser (nest 255)) = Some (nest 255, length (ser (nest 255))).
Proof. exact nesting_above_max_refuted. Qed.
Print Assumptions C15_nesting_above_max_refuted.

(* values of the other tags (u8, enum, struct, ...) are outside the property: they arrive as void *)
Theorem C15_other_becomes_void : forall t rest,
  t <> TAG_INT -> t <> TAG_FLOAT -> t <> TAG_BOOL -> t <> TAG_STRING -> t <> TAG_OPAQUE -> t <> TAG_ARRAY ->
  deser (ser (VOther t) ++ rest) = Some (VVoid, 1%nat).
Proof. exact other_becomes_void. Qed.
Print Assumptions C15_other_becomes_void.

(* non-vacuity: concrete transferable values of every kind (negative int, NaN with payload, -inf, high bytes and NUL in a
   string, empty and nested arrays) satisfy the hypotheses and go through a whole call unchanged (callee = echo of arg 0) *)
Definition echo : callee_t := fun _ args => match args with a :: _ => ORes a | [] => OErr [110; 111] end.
Example C15_nonvacuous :
  forallb (fun v => transferableb v &&
                    match call_cop echo 3 [v; VInt 7], deser (ser v ++ [1; 2; 3]) with
                    | CRes r, Some (w, n) => value_eqb r v && value_eqb w v && Nat.eqb n (length (ser v))
                    | _, _ => false end)
    [ VVoid; VInt 18446744073709551615; VInt 9223372036854775808; VFloat 9221120237041090561; VFloat 18442240474082181120;
      VBool true; VBool false; VStr []; VStr [0; 255; 128; 10; 0]; VOpaque 140737488355327;
      VArr 1 []; VArr 7 [VArr 1 [VInt 1; VInt 2]; VArr 5 [VStr [97]; VStr []]; VArr 0 []; VVoid] ] = true
  /\ call_cop echo 0 [] = CErr [110; 111].
Proof. vm_compute. split; reflexivity. Qed.
