(* C11 -- instruction encoding and the textual assembly form are exact inverses.
   Only property theorems here, each closed by [exact <lemma>] and followed by Print Assumptions.
   [table] is NV.gen.IsaTable.table, regenerated from /repo/src/nanoisa/isa.c on every run. *)
From Coq Require Import NArith List Bool.
From Coq Require Import ZArith.
From Coq Require String.
Import String.StringSyntax.
From NV Require Import Base.Bytes Isa.Codec Isa.CodecProofs gen.IsaTable gen.AsmConsts.
From NV Require Import Isa.Asm Isa.AsmDec Isa.AsmLine Isa.AsmProofs Isa.AsmWitness.
Import ListNotations.
Local Open Scope N_scope.

(* the generated table is well formed: opcode keys are distinct bytes, <= 4 operands, encoded size <= 32 *)
Theorem C11_table_wf : wf_table_list table_list = true.
Proof. vm_compute. reflexivity. Qed.
Print Assumptions C11_table_wf.

(* the C table's redundant columns (stored opcode, operand_count, isa_operand_size) agree with the model *)
Theorem C11_table_consistent : meta_ok table_list table_meta = true.
Proof. vm_compute. reflexivity. Qed.
Print Assumptions C11_table_consistent.

Theorem C11_limits : isa_max_instruction_size = 32 /\ isa_max_operands = 4.
Proof. vm_compute. split; reflexivity. Qed.
Print Assumptions C11_limits.

(* every well-formed instruction encodes *)
Theorem C11_encode_total : forall i, wf_instr table i -> exists bs, encode table i = Some bs /\ bytes_ok bs.
Proof. exact (encode_total table). Qed.
Print Assumptions C11_encode_total.

(* decodes to exactly what was encoded, consuming exactly the encoding, whatever follows *)
Theorem C11_decode_encode : forall i bs rest,
  wf_instr table i -> encode table i = Some bs -> decode table (bs ++ rest) = Some (i, length bs).
Proof. exact (decode_encode table). Qed.
Print Assumptions C11_decode_encode.

(* re-encodes to exactly the bytes that were decoded *)
Theorem C11_encode_decode : forall bs i n,
  bytes_ok bs -> decode table bs = Some (i, n) ->
  encode table i = Some (firstn n bs) /\ wf_instr table i /\ (n <= length bs)%nat.
Proof. exact (encode_decode table). Qed.
Print Assumptions C11_encode_decode.

(* a byte that is not an opcode is refused *)
Theorem C11_decode_undefined : forall o rest, table o = None -> decode table (o :: rest) = None.
Proof. exact (decode_undefined table). Qed.
Print Assumptions C11_decode_undefined.

(* an instruction cut short is refused rather than mis-decoded *)
Theorem C11_decode_truncated : forall i bs k,
  encode table i = Some bs -> (k < length bs)%nat -> decode table (firstn k bs) = None.
Proof. exact (decode_truncated table). Qed.
Print Assumptions C11_decode_truncated.

Theorem C11_max_size : forall i bs, encode table i = Some bs -> (length bs <= 32)%nat /\ (length (args i) <= 4)%nat.
Proof. exact (wf_table_size table_list C11_table_wf). Qed.
Print Assumptions C11_max_size.

(* non-vacuity: concrete instructions of every operand kind meet wf_instr and round-trip *)
Example C11_nonvacuous :
  forallb (fun i => wf_instrb table i &&
                    match encode table i with
                    | Some bs => match decode table (bs ++ [7; 7]) with
                                 | Some (j, n) => Nat.eqb n (length bs) && N.eqb (op j) (op i) && list_N_eqb (args j) (args i)
                                 | None => false end
                    | None => false end)
    [ {| op := 1; args := [18446744073709551615] |};      (* PUSH_I64 -1 *)
      {| op := 2; args := [9221120237041090561] |};       (* PUSH_F64 NaN with payload *)
      {| op := 3; args := [255] |};
      {| op := 16; args := [65535] |};
      {| op := 56; args := [4294967295] |};               (* JMP -1 *)
      {| op := 104; args := [4294967295; 0; 65535] |};    (* UNION_CONSTRUCT *)
      {| op := 107; args := [513; 2147483648] |} ] = true.
Proof. vm_compute. reflexivity. Qed.


(* ================================================================ the text form ================================================ *)
(* Model: NV.Isa.Asm = disasm_module / asm_assemble at the level of the bytes of the assembly text, tied to the real tools by
   byte-exact correspondence (tools/props/c11_text.py).  printf("%.17g")/strtod is an oracle (print_f64, parse_f64): every
   theorem quantifies over it and assumes f64_text_ok only for the float patterns [good] admits. *)

(* decimal text: parse (print n) = n, for the unsigned printer and for strtoll (base 0, sign, 64-bit range check) *)
Theorem C11_dec_roundtrip : forall n, parse_num 10 (print_dec n) 0 = (n, []).
Proof. exact parse_print_dec. Qed.
Print Assumptions C11_dec_roundtrip.
Theorem C11_strtoll_roundtrip : forall z, (-9223372036854775808 <= z < 9223372036854775808)%Z -> strtoll (print_sdec z) = Some (z, []).
Proof. exact strtoll_print_sdec_exact. Qed.
Print Assumptions C11_strtoll_roundtrip.
Theorem C11_dec_injective : forall a b, print_dec a = print_dec b -> a = b.
Proof. exact print_dec_inj. Qed.
Print Assumptions C11_dec_injective.

(* the generated table: every mnemonic is an identifier of < 64 characters starting with a letter, no two opcodes share one,
   and the opcodes whose operand is followed by a comment (PUSH_STR, CALL, CALL_EXTERN) have exactly that one operand *)
Theorem C11_names_ok : names_ok table_list = true.
Proof. vm_compute. reflexivity. Qed.
Print Assumptions C11_names_ok.
Theorem C11_comment_ops_ok : comment_ops_ok table_list = true.
Proof. vm_compute. reflexivity. Qed.
Print Assumptions C11_comment_ops_ok.

(* MAIN: assembling the disassembly of a well-formed module gives back the same strings, function table and code (and the
   entry point when the module has one).  wf_moduleb is the decidable hypothesis evaluated by the harness on every module:
   strings pairwise distinct (of any length and content), function names identifiers, code laid out in table order, code that
   decodes, at most 2048 jump operands per function, floats the oracle re-reads.  Strings may contain any byte, jumps may go
   anywhere. *)
Theorem C11_asm_disasm_module :
  forall (print_f64 : N -> text) (parse_f64 : text -> option (N * text)) (good : N -> bool),
  (forall v, good v = true -> f64_text_ok print_f64 parse_f64 v) ->
  forall m, wf_moduleb table_list good m = true ->
  exists m', asm_assemble table_list parse_f64 (disasm_module table_list print_f64 m) = AOk m' /\
             m_strings m' = m_strings m /\ m_funcs m' = m_funcs m /\ m_code m' = m_code m /\
             (N.testbit (m_flags m) 0 = true -> m_entry m' = m_entry m /\ N.testbit (m_flags m') 0 = true).
Proof. exact (fun pf sf g H => asm_disasm_module table_list pf sf g C11_names_ok C11_comment_ops_ok H). Qed.
Print Assumptions C11_asm_disasm_module.

(* the harness evaluates the hypothesis with wf_conjuncts_fast (one decode per function); it is the same list of booleans *)
Theorem C11_wf_fast_is_wf : forall good m, wf_conjuncts_fast table_list good m = wf_conjuncts table_list good m.
Proof. exact (wf_conjuncts_fast_eq table_list). Qed.
Print Assumptions C11_wf_fast_is_wf.

(* refusals *)
Theorem C11_asm_unknown_mnemonic : forall parse_f64 st mn rest,
  opcode_by_name table_list mn = None -> asm_instruction table_list parse_f64 st mn rest = inr asm_err_unknown_opcode.
Proof. exact (asm_unknown_mnemonic table_list). Qed.
Print Assumptions C11_asm_unknown_mnemonic.
Theorem C11_asm_undefined_label : forall parse_f64 st, a_in_fn st = true ->
  (exists p, In p (a_patches st) /\ p_fn p = a_cur st /\ find_label (a_labels st) (p_label p) (a_cur st) = None) ->
  process_line table_list parse_f64 st (B ".end") = inr asm_err_undefined_label.
Proof. exact (asm_undefined_label table_list). Qed.
Print Assumptions C11_asm_undefined_label.

(* the oracle hypothesis can be met (by a toy float text, not by printf): the main theorem is not vacuous in its oracle *)
Theorem C11_oracle_satisfiable : forall v, toy_good v = true -> f64_text_ok toy_print toy_parse v.
Proof. exact toy_oracle_ok. Qed.
Print Assumptions C11_oracle_satisfiable.

(* concrete modules: NV.Isa.AsmWitness (definitions only) *)
Example C11_text_nonvacuous :
  wf_moduleb table_list toy_good ex_module = true /\ roundtrip_ok table_list toy_print toy_parse ex_module = true.
Proof. vm_compute. split; reflexivity. Qed.

(* still refuted after the fix: commits (comment stripping, comment newline, NUL, patch fix-up, label table, denormals, label
   boundaries are repaired and their refutations are gone): each witness violates exactly one conjunct of wf_moduleb and the
   (faithful) model loses or refuses it; every witness is replayed on the real disassembler+assembler by the check. *)
(* a function name that is not an identifier *)
Theorem C11_text_roundtrip_refuted_function_name :
  exists m, forall pf sf, roundtrip_err table_list pf sf m = Some (asm_err_syntax, 5).
Proof. exists (Mo 1 0 [B "a.b"] [Fe 0 0 0 1 1 0] ret1). intros pf sf. vm_compute. reflexivity. Qed.
Print Assumptions C11_text_roundtrip_refuted_function_name.
(* code not laid out in function-table order: code section and code offsets come back permuted *)
Theorem C11_text_roundtrip_refuted_layout :
  exists m, forall pf sf, roundtrip_ok table_list pf sf m = false /\ roundtrip_err table_list pf sf m = None.
Proof. exists (Mo 1 1 [B "a"; B "b"] [Fe 0 0 2 2 0 0; Fe 1 2 0 2 3 0] [0;163; 5;61]). intros pf sf. vm_compute. split; reflexivity. Qed.
Print Assumptions C11_text_roundtrip_refuted_layout.
(* a byte that is not an opcode inside the code: printed as a comment, dropped by the round trip *)
Theorem C11_text_roundtrip_refuted_undecodable :
  exists m, forall pf sf, roundtrip_ok table_list pf sf m = false /\ roundtrip_err table_list pf sf m = None.
Proof. exists (Mo 1 0 [B "f"] [Fe 0 0 0 3 1 0] [0; 11; 61]). intros pf sf. vm_compute. split; reflexivity. Qed.
Print Assumptions C11_text_roundtrip_refuted_undecodable.

(* 2049 label references in one function: the patch table is full -> ASM_ERR_MEMORY at the 2049th jump (line 5 + 2049) *)
Theorem C11_text_roundtrip_refuted_patch_table :
  exists m, forall pf sf, roundtrip_err table_list pf sf m = Some (asm_err_memory, 2054).
Proof. exists many_jumps_module. intros pf sf. vm_compute. reflexivity. Qed.
Print Assumptions C11_text_roundtrip_refuted_patch_table.
(* repaired (the .string buffer is sized from the directive): a string of 4096 bytes round-trips *)
Example C11_text_long_string_roundtrips : forall pf sf, roundtrip_ok table_list pf sf long_string_module = true.
Proof. intros pf sf. vm_compute. reflexivity. Qed.

(* what the repaired tools now do with the former witnesses: all round-trip (regression Examples) *)
Example C11_text_repaired_witnesses : forall pf sf,
  forallb (roundtrip_ok table_list pf sf)
    [ Mo 1 0 [B "f"; B "a;b#c"] [Fe 0 0 0 1 1 0] ret1;
      Mo 1 0 [B "f"; [120; 10; 82; 69; 84]] [Fe 0 0 0 6 1 0] [4;1;0;0;0; 61];
      Mo 1 0 [B "f"; [120; 0; 121]] [Fe 0 0 0 1 1 0] ret1;
      Mo 1 0 [B "f"] [Fe 0 0 0 11 1 0] [56;10;0;0;0; 56;100;0;0;0; 61];
      Mo 1 0 [B "f"] [Fe 0 0 0 15 1 0] [1;5;0;0;0;0;0;0;0; 56;248;255;255;255; 61] ] = true.
Proof. intros pf sf. vm_compute. reflexivity. Qed.
