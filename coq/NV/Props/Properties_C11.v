(* C11 -- instruction encoding and the textual assembly form are exact inverses.
   Only property theorems here, each closed by [exact <lemma>] and followed by Print Assumptions.
   [table] is NV.gen.IsaTable.table, regenerated from /repo/src/nanoisa/isa.c on every run. *)
From Coq Require Import NArith List Bool.
From NV Require Import Base.Bytes Isa.Codec Isa.CodecProofs gen.IsaTable.
Import ListNotations.
Local Open Scope N_scope.

(* the generated table is well formed: opcode keys are distinct bytes, <= 4 operands, encoded size <= 32 *)
Theorem C11_table_wf : wf_table_list table_list = true.
Proof. vm_compute. reflexivity. Qed.
Print Assumptions C11_table_wf.

(* the C table's redundant columns (stored opcode, operand_count, isa_operand_size) agree with the model *)
Theorem C11_table_consistent : meta_ok table_list table_meta = true.
Proof. vm_compute. reflexivity. Qed.
Print Assumptions C11_table_consistent.

Theorem C11_limits : isa_max_instruction_size = 32 /\ isa_max_operands = 4.
Proof. vm_compute. split; reflexivity. Qed.
Print Assumptions C11_limits.

(* every well-formed instruction encodes *)
Theorem C11_encode_total : forall i, wf_instr table i -> exists bs, encode table i = Some bs /\ bytes_ok bs.
Proof. exact (encode_total table). Qed.
Print Assumptions C11_encode_total.

(* decodes to exactly what was encoded, consuming exactly the encoding, whatever follows *)
Theorem C11_decode_encode : forall i bs rest,
  wf_instr table i -> encode table i = Some bs -> decode table (bs ++ rest) = Some (i, length bs).
Proof. exact (decode_encode table). Qed.
Print Assumptions C11_decode_encode.

(* re-encodes to exactly the bytes that were decoded *)
Theorem C11_encode_decode : forall bs i n,
  bytes_ok bs -> decode table bs = Some (i, n) ->
  encode table i = Some (firstn n bs) /\ wf_instr table i /\ (n <= length bs)%nat.
Proof. exact (encode_decode table). Qed.
Print Assumptions C11_encode_decode.

(* a byte that is not an opcode is refused *)
Theorem C11_decode_undefined : forall o rest, table o = None -> decode table (o :: rest) = None.
Proof. exact (decode_undefined table). Qed.
Print Assumptions C11_decode_undefined.

(* an instruction cut short is refused rather than mis-decoded *)
Theorem C11_decode_truncated : forall i bs k,
  encode table i = Some bs -> (k < length bs)%nat -> decode table (firstn k bs) = None.
Proof. exact (decode_truncated table). Qed.
Print Assumptions C11_decode_truncated.

Theorem C11_max_size : forall i bs, encode table i = Some bs -> (length bs <= 32)%nat /\ (length (args i) <= 4)%nat.
Proof. exact (wf_table_size table_list C11_table_wf). Qed.
Print Assumptions C11_max_size.

(* non-vacuity: concrete instructions of every operand kind meet wf_instr and round-trip *)
Example C11_nonvacuous :
  forallb (fun i => wf_instrb table i &&
                    match encode table i with
                    | Some bs => match decode table (bs ++ [7; 7]) with
                                 | Some (j, n) => Nat.eqb n (length bs) && N.eqb (op j) (op i) && list_N_eqb (args j) (args i)
                                 | None => false end
                    | None => false end)
    [ {| op := 1; args := [18446744073709551615] |};      (* PUSH_I64 -1 *)
      {| op := 2; args := [9221120237041090561] |};       (* PUSH_F64 NaN with payload *)
      {| op := 3; args := [255] |};
      {| op := 16; args := [65535] |};
      {| op := 56; args := [4294967295] |};               (* JMP -1 *)
      {| op := 104; args := [4294967295; 0; 65535] |};    (* UNION_CONSTRUCT *)
      {| op := 107; args := [513; 2147483648] |} ] = true.
Proof. vm_compute. reflexivity. Qed.
