(* C05 -- ill-formed programs are never turned into a runnable artifact.
   Property theorems only.  mut_ill_typed makes the oracle of tools/props/c05.py sound (every mutant the real tools are
   asked to refuse really violates a rule of the reference type system); driver_stops is the drivers' half of the
   property over the phase table read from the C sources; all_error_sites_flagged is the type checker's half, by
   computation over the generated table of its diagnostic call sites minus the committed triage table. *)
From Coq Require Import ZArith NArith List Bool String.
From NV Require Import Lang.Ast Lang.Types Lang.Mutate Lang.MutateProofs Lang.TypeExamples
                       gen.DriverPhases Driver.Pipeline Driver.PipelineProofs gen.DiagSites Lang.DiagTriage Lang.DiagProofs.
Import ListNotations.

(* every mutant of the catalogue is ill-typed: all rules, all positions, all programs (15 rules: operand type, argument
   type, arity +1/-1, unknown name, unknown function, local of another function, name used after its block, set on an
   immutable let / a parameter / a loop variable, missing return on a path, return of the wrong type, return without
   value, non-bool condition, a variable of type void, two parameters of one name, main with a parameter, a name used after a block that ends in
   return / break / continue) *)
Theorem C05_mut_ill_typed : forall r pos p p', wt p = true -> mut r pos p = Some p' -> wt p' = false.
Proof. exact mut_ill_typed. Qed.
Print Assumptions C05_mut_ill_typed.

(* stronger: no hypothesis on the original program is needed *)
Theorem C05_mut_ill_typed_any : forall r pos p p', mut r pos p = Some p' -> wt p' = false.
Proof. exact mut_ill_typed_any. Qed.
Print Assumptions C05_mut_ill_typed_any.

(* the three tool invocations stop at a failed type check: exit non-zero, diagnostic, no artifact, nothing executed *)
Theorem C05_driver_stops : forall t ok,
  ok PTypeCheck = false -> (forall ph, phase_eqb ph PTypeCheck = false -> ok ph = true) ->
  run_tool t ok = {| o_exit_nonzero := true; o_artifact := false; o_executed := false; o_diag := true |}.
Proof. exact driver_stops. Qed.
Print Assumptions C05_driver_stops.

(* the same for the WHOLE front end and with no hypothesis on the other phases: whatever the outcome function, if the lexer,
   the parser, import processing or the type check fails, every tool invocation ends with exit non-zero, a diagnostic, no
   artifact, nothing executed (the first of the four to fail stops the driver; nothing in front of it writes or runs) *)
Theorem C05_driver_stops_front : forall t ok,
  ok PLex && ok PParse && ok PImports && ok PTypeCheck = false ->
  run_tool t ok = {| o_exit_nonzero := true; o_artifact := false; o_executed := false; o_diag := true |}.
Proof. exact driver_stops_front. Qed.
Print Assumptions C05_driver_stops_front.

(* read the other way round: an artifact on disk, or any execution of program code, implies the whole front end accepted *)
Theorem C05_artifact_or_exec_needs_front : forall t ok,
  o_artifact (run_tool t ok) = true \/ o_executed (run_tool t ok) = true ->
  ok PLex = true /\ ok PParse = true /\ ok PImports = true /\ ok PTypeCheck = true.
Proof. exact artifact_or_exec_needs_front. Qed.
Print Assumptions C05_artifact_or_exec_needs_front.

(* exit status 0 is never reported for a program the front end refused *)
Theorem C05_exit_zero_needs_front : forall t ok,
  o_exit_nonzero (run_tool t ok) = false ->
  ok PLex = true /\ ok PParse = true /\ ok PImports = true /\ ok PTypeCheck = true.
Proof. exact exit_zero_needs_front. Qed.
Print Assumptions C05_exit_zero_needs_front.

(* the hypotheses of the three theorems above are met by concrete outcome functions: a parser failure is rejected by every
   tool, and with every phase succeeding the conclusions' premises hold (something is executed / written, exit status 0) *)
Example C05_front_nonvacuous :
  (forall t, run_tool t (fun ph => negb (phase_eqb ph PParse)) =
             {| o_exit_nonzero := true; o_artifact := false; o_executed := false; o_diag := true |}) /\
  o_executed (run_tool VirtRun (fun _ => true)) = true /\ o_artifact (run_tool VirtEmit (fun _ => true)) = true /\
  o_artifact (run_tool Nanoc (fun _ => true)) = true /\ o_exit_nonzero (run_tool Nanoc (fun _ => true)) = false.
Proof. split; [intros t; destruct t; vm_compute; reflexivity|]. repeat split; vm_compute; reflexivity. Qed.

(* type checker: every error diagnostic fails the compilation in its block, returns a failing value to its caller, or is
   a triaged site (finding with a program, or justified) *)
Theorem C05_all_error_sites_flagged : forallb site_ok diag_sites = true.
Proof. exact all_error_sites_flagged_lemma. Qed.
Print Assumptions C05_all_error_sites_flagged.

(* what the same table REFUTES on the unchanged checker: "every error diagnostic fails the compilation or returns a failing
   value".  neither_findings is computed from the generated table (the sites that print and go on and are triaged as
   findings: 16 on the pinned tree, fewer once fixes land); every member is a counterexample *)
Theorem C05_all_sites_fail_refuted : forall s, In s neither_findings ->
  In s diag_sites /\ snd s = Neither /\ finding_triaged (fst s) = true.
Proof. exact neither_findings_spec. Qed.
Print Assumptions C05_all_sites_fail_refuted.

(* hypotheses are satisfiable: a well-typed program and a mutant of it *)
Example C05_example_mutant : wt ex_prog = true /\ exists p', mut ROperand ex_pos_operand ex_prog = Some p' /\ wt p' = false.
Proof. split; [vm_compute; reflexivity|]. eexists. split; vm_compute; reflexivity. Qed.

(* strings as computed values: a wrong-typed literal in any operand place of any string builtin (char_at, str_concat,
   int_to_string, str_length, str_substring, + on strings) gives a program the reference checker refuses (the real checker
   accepts eight of the ten: finding c05:string-builtin-arg-unchecked) *)
Example C05_string_operand_mutants : wt ex_strp = true /\
  forallb (fun pos => match mut ROperand pos ex_strp with Some p' => negb (wt p') | None => false end) ex_strp_positions = true.
Proof. split; vm_compute; reflexivity. Qed.
