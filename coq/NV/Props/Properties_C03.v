(* C03 -- compile-time shadow-test evaluation agrees with the compiled program.
   Only property theorems here, each closed by [exact <lemma>] and followed by Print Assumptions.

   Objects.  run_interp (Back/InterpSem + Driver/ShadowGate) = the tree-walking evaluator nanoc runs on every shadow
   block, AS IT IS (one symbol stack shared by all active calls: dynamic scoping; blocks pop their symbols since fix
   9481a65; `set` ignores mutability; assertion failures counted; literals unescaped ...), tied to the real
   `nanoc --verbose` by tools/props/c03.py.
   ref_test = the reference semantics (Lang/Ref) of one shadow block.  nat_test = the native engine's model
   (Back/NatSem, arguments left to right), which Back/Agree proves equal to the reference.
   names_apart sp (Back/NamesApart, an executable check): no binder (parameter, let, for variable) is spelled like a
   top-level constant; no escapes in string literals.  Nothing is asked any more about names re-used inside a function
   (inner-block shadowing, duplicate parameters: all inside the theorem since the evaluator pops blocks).

   What is proved at full strength: under names_apart, along the shadow blocks for as long as the reference passes them,
   the evaluator prints the reference's text, records only true assertions when the reference passes and a false one when
   the reference fails an assertion (interp_correct), it terminates whenever the reference passes (interp_total), a
   block that passes at compile time passes in the compiled program with the same output (pass_at_compile_time_...).
   Without names_apart the statement is false: _refuted witnesses (SPECIFICATION section 8.1 program; a parameter named
   like a constant), replayed on the real nanoc on every check (KNOWN-FINDING c03:dynamic-scope, c03:dynamic-scope-param).
   The block-exit program, refuted before fix 9481a65, is now an Example inside the theorem (C03_block_shadowing_agrees). *)
From Coq Require Import ZArith NArith List Bool.
From NV Require Import Lang.Ast Lang.Ref Back.InterpSem Back.InterpLemmas Driver.ShadowGate Back.NamesApart Back.InterpSemProofs
                       Back.InterpCorrect Back.InterpWitness Back.InterpRefuted Back.NatSem Back.Agree.
Import ListNotations.

(* the core simulation: expressions, statements and for loops, every fuel, every stack  en ++ outer ++ globals ++ leftovers *)
Theorem C03_interp_simulates_ref : forall fns gn, (forall d, In d fns -> fn_ok gn d = true) ->
  forall fuel, expr_agree fns gn fuel /\ stmt_agree fns gn fuel /\ for_agree fns gn fuel.
Proof. exact all_agree. Qed.
Print Assumptions C03_interp_simulates_ref.

(* values, printed text, assertion truth values: test by test (agree_run / test_agrees in Back/InterpCorrect.v) *)
Theorem C03_interp_correct : forall fuel sp base genv gout rs sk stk,
  names_apart sp = true ->
  eval_globals (pfns (sp_prog sp)) fuel (pglobals (sp_prog sp)) [] [] = Ok genv gout ->
  run_interp fuel sp base = TDone rs sk stk ->
  agree_run (pfns (sp_prog sp)) fuel genv (sp_shadows sp) rs.
Proof. exact interp_correct_run. Qed.
Print Assumptions C03_interp_correct.

(* a correct program is not refused, and nanoc terminates on it: the reference passes every executed block => the evaluator
   finishes within the same fuel, with every test passed *)
Theorem C03_interp_total : forall fuel sp base genv gout,
  names_apart sp = true ->
  eval_globals (pfns (sp_prog sp)) fuel (pglobals (sp_prog sp)) [] [] = Ok genv gout ->
  (forall sh, In sh (sp_shadows sp) -> sh_skip sh = false -> exists r out, ref_test (pfns (sp_prog sp)) fuel genv (sh_body sh) = Ok r out) ->
  exists rs sk stk, run_interp fuel sp base = TDone rs sk stk.
Proof. exact interp_total_when_ref_passes. Qed.
Print Assumptions C03_interp_total.

Theorem C03_correct_program_never_refused : forall fns fuel genv shs rs,
  agree_run fns fuel genv shs rs ->
  (forall sh, In sh shs -> sh_skip sh = false -> exists r out, ref_test fns fuel genv (sh_body sh) = Ok r out) ->
  all_passed rs = true.
Proof. exact agree_all_ok_passes. Qed.
Print Assumptions C03_correct_program_never_refused.

(* consequence with Back/Agree (native model, left-to-right arguments = reference): whatever passes at compile time passes
   when the shipped binary executes the same statements, with the same output *)
Theorem C03_pass_at_compile_time_passes_at_run_time : forall fuel sp base genv gout rs sk stk,
  names_apart sp = true ->
  eval_globals (pfns (sp_prog sp)) fuel (pglobals (sp_prog sp)) [] [] = Ok genv gout ->
  (forall sh, In sh (sp_shadows sp) -> sh_skip sh = false -> ref_defined (ref_test (pfns (sp_prog sp)) fuel genv (sh_body sh))) ->
  run_interp fuel sp base = TDone rs sk stk ->
  all_passed rs = true ->
  all_pass_at_run_time (pfns (sp_prog sp)) fuel genv (sp_shadows sp) rs.
Proof. exact pass_at_compile_time_passes_at_run_time_run. Qed.
Print Assumptions C03_pass_at_compile_time_passes_at_run_time.

(* the evaluator's assertion log only grows: a failure recorded once is never lost, whatever runs afterwards *)
Theorem C03_assertion_log_monotone : forall fns fuel s w c w', iexec fns fuel s w = IOk c w' -> exists l, w_asr w' = w_asr w ++ l.
Proof. exact iexec_mono. Qed.
Print Assumptions C03_assertion_log_monotone.

(* ---- without names_apart the property is false in the model of the unchanged evaluator *)
Theorem C03_interp_correct_refuted : refutes sp81 60 /\ refutes sp81p 60.
Proof. exact (conj refuted_spec_8_1 refuted_param). Qed.
Print Assumptions C03_interp_correct_refuted.

Theorem C03_false_assertion_passes_refuted :
  names_apart sp81_unsound = false /\
  exists genv gout rs sk stk,
    eval_globals (pfns p81) 60 (pglobals p81) [] [] = Ok genv gout /\
    (exists out, ref_test (pfns p81) 60 genv (SAssert (eqz (call0 3%N) 20%Z)) = Fault FAssert out) /\
    run_interp 60 sp81_unsound [] = TDone rs sk stk /\ all_passed rs = true.
Proof. exact unsound_pass_spec_8_1. Qed.
Print Assumptions C03_false_assertion_passes_refuted.

(* ---- the hypotheses are satisfiable, the conclusions observable *)
Example C03_names_apart_satisfiable : names_apart spgood = true /\ names_apart spgood_failing = true.
Proof. exact good_is_apart. Qed.
Example C03_block_shadowing_agrees :
  names_apart spblk = true /\
  exists rs sk stk, run_interp 60 spblk [] = TDone rs sk stk /\ all_passed rs = true /\ map tr_out rs = [[50; 10; 49; 10]]%N /\
  ref_tests 60 spblk = Some [(2%N, Ok (CNormal, []) [50; 10; 49; 10]%N)].
Proof. exact block_shadowing_agrees. Qed.
Example C03_good_program_runs :
  exists rs sk stk, run_interp 200 spgood [] = TDone rs sk stk /\ all_passed rs = true /\
                    map tr_out rs = [[]; [55; 10; 56; 10; 49; 48; 10]; []]%N.
Proof. exact good_runs. Qed.
Example C03_failing_program_fails :
  exists rs sk stk, run_interp 200 spgood_failing [] = TDone rs sk stk /\ all_passed rs = false /\ map fail_count rs = [0; 2].
Proof. exact good_failing_runs. Qed.

(* ---- arrays (array literals, at, array_length in functions and shadow blocks) ----
   All theorems above cover them, with no extra hypothesis: every element of a literal is evaluated once, left to right
   (fix 38fa340 removed the second evaluation of the first element, and with it the former clause (d) of names_apart). *)
Example C03_arrays_agree :
  names_apart sparr_good = true /\
  exists rs sk stk, run_interp 60 sparr_good [] = TDone rs sk stk /\ all_passed rs = true /\
    map tr_out rs = [[56; 10; 91; 55; 44; 32; 56; 44; 32; 57; 93; 10]]%N /\
    ref_tests 60 sparr_good = Some [(4%N, Ok (CNormal, [(7%N, (false, VArr [7; 8; 9]%Z))]) [56; 10; 91; 55; 44; 32; 56; 44; 32; 57; 93; 10]%N)].
Proof. exact arrays_agree. Qed.

(* the program that refuted interp_correct before fix 38fa340 ([(f2 8), 9] with f2 printing its argument: "8" was printed
   twice at compile time) is now inside names_apart and agrees; the witness stays in the check's stream (key
   c03:array-literal-first-element-twice, fixed) *)
Example C03_array_literal_first_element_once_agrees :
  names_apart sparr_twice = true /\
  ref_tests 60 sparr_twice = Some [(4%N, Ok (CNormal, [(7%N, (false, VArr [8; 9]%Z))]) [56; 10]%N)] /\
  exists rs sk stk, run_interp 60 sparr_twice [] = TDone rs sk stk /\ all_passed rs = true /\ map tr_out rs = [[56; 10]]%N.
Proof. exact first_element_once_agrees. Qed.

(* ---- strings as computed values: inside names_apart the evaluator agrees on + / int_to_string / str_equals / str_concat /
   str_contains / char_at and on str_substring of a literal from a start inside it (clause (e) of names_apart) *)
Example C03_strings_agree :
  names_apart spstr_good = true /\
  exists rs sk stk, run_interp 80 spstr_good [] = TDone rs sk stk /\ all_passed rs = true /\
    map tr_out rs = [[97; 98; 99; 45; 52; 50; 10; 97; 98; 99; 45; 52; 50; 33; 10]]%N /\
    ref_tests 80 spstr_good =
      Some [(2%N, Ok (CNormal, [(7%N, (false, VStr [97; 98; 99; 45; 52; 50]%N))])
                     [97; 98; 99; 45; 52; 50; 10; 97; 98; 99; 45; 52; 50; 33; 10]%N)].
Proof. exact strings_agree. Qed.
(* str_substring with start = length of the string: "" in the language, void in the evaluator -- without clause (e)
   interp_correct is false (finding c03:builtin:str_substring:start-at-or-past-the-end-is-void-in-the-evaluator) *)
Theorem C03_substring_past_the_end_refutes : refutes spstr_past_end 80.
Proof. exact refuted_substring_past_end. Qed.
Print Assumptions C03_substring_past_the_end_refutes.
(* char_at outside the string: the reference is undefined there, the theorem is silent; the evaluator yields void *)
Example C03_char_at_outside_at_compile_time :
  names_apart spstr_char_at_outside = true /\
  ref_tests 80 spstr_char_at_outside = Some [(4%N, Fault FStrDomain [])] /\
  exists rs sk stk, run_interp 80 spstr_char_at_outside [] = TDone rs sk stk /\ all_passed rs = false.
Proof. exact char_at_outside_at_compile_time. Qed.
